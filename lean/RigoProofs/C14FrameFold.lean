/-
  C14 — the block-level frame statement for blocks WITH votes (`slash_jail_frame`): after `beginBlock`, an
  entry of the consensus view of the delegatee ledger differs from before only if its key is the key of an
  address named in the evidence, or the key of the delegatee a non-signing vote resolves to.

  The proof is a fold over the evidence (stake punish) and over the votes, carrying the invariant `FrameInv`:
  outside the "touched" key set the ledger is as at the start, and every entry either already lives under a
  touched address or still carries the address its key had at the start (so that the per-vote lookup in the
  *current* state resolves to the same address as the lookup in the *initial* state the statement talks about).
-/
import RigoProofs.C14Frame
import RigoProofs.C14Jail
import Rigo.Reach
open Std

namespace Rigo.C14F

open Rigo.C14L

/-! ### the invariant -/

/-- `fin` agrees with `fin0` outside the key set `T`, and each entry of `fin` either has an address whose
    key is in `T` or has the same address as the entry `fin0` has under the same key -/
def FrameInv (fin0 : KMap Delegatee) (T : String → Prop) (fin : KMap Delegatee) : Prop :=
  (∀ k : String, ¬ T k → fin[k]? = fin0[k]?) ∧
  (∀ (K : String) (d : Delegatee), fin[K]? = some d →
    T (ledgerKey d.addr) ∨ ∃ d0, fin0[K]? = some d0 ∧ d0.addr = d.addr)

theorem FrameInv.init (fin0 : KMap Delegatee) (T : String → Prop) : FrameInv fin0 T fin0 :=
  ⟨fun _ _ => rfl, fun _ d h => Or.inr ⟨d, h, rfl⟩⟩

theorem FrameInv.insert {fin0 : KMap Delegatee} {T : String → Prop} {fin : KMap Delegatee}
    (hI : FrameInv fin0 T fin) (K' : String) (d1 : Delegatee) (hT : T K')
    (hd1 : T (ledgerKey d1.addr) ∨ ∃ d0, fin0[K']? = some d0 ∧ d0.addr = d1.addr) :
    FrameInv fin0 T (fin.insert K' d1) := by
  refine ⟨?_, ?_⟩
  · intro k hk
    have hne : ¬ K' = k := fun e => hk (e ▸ hT)
    rw [ExtTreeMap.getElem?_insert]
    simp only [compare_eq_iff_eq, hne, if_false]
    exact hI.1 k hk
  · intro K d hK
    rw [ExtTreeMap.getElem?_insert] at hK
    by_cases e : K' = K
    · simp only [compare_eq_iff_eq, e, if_true, Option.some.injEq] at hK
      subst hK; subst e; exact hd1
    · simp only [compare_eq_iff_eq, e, if_false] at hK
      exact hI.2 K d hK

theorem FrameInv.erase {fin0 : KMap Delegatee} {T : String → Prop} {fin : KMap Delegatee}
    (hI : FrameInv fin0 T fin) (K' : String) (hT : T K') :
    FrameInv fin0 T (fin.erase K') := by
  refine ⟨?_, ?_⟩
  · intro k hk
    have hne : ¬ K' = k := fun e => hk (e ▸ hT)
    rw [ExtTreeMap.getElem?_erase]
    simp only [compare_eq_iff_eq, hne, if_false]
    exact hI.1 k hk
  · intro K d hK
    rw [ExtTreeMap.getElem?_erase] at hK
    by_cases e : K' = K
    · simp [e] at hK
    · simp only [compare_eq_iff_eq, e, if_false] at hK
      exact hI.2 K d hK

/-! ### the stake controller's evidence fold -/

theorem stakePunish_inv (fin0 : KMap Delegatee) (T : String → Prop) (s : St) (a : Hex) (hT : T (ledgerKey a))
    (hI : FrameInv fin0 T s.delegs.fin) : FrameInv fin0 T (stakePunish s a).1.delegs.fin := by
  cases h : s.delegs.fin[ledgerKey a]? with
  | none => rw [stakePunish_unknown s a h]; exact hI
  | some d =>
    rw [stakePunish_known s a d h]
    exact hI.insert (ledgerKey a) _ hT (hI.2 (ledgerKey a) d h)

/-- induction principle for the evidence fold of the stake controller -/
theorem stakeFold_induct (P : St → Prop) (E : List Hex)
    (hstep : ∀ (s : St) (a : Hex), a ∈ E → P s → P (stakePunish s a).1) (s : St) (hs : P s) :
    P (stakeFold s E).1 := by
  unfold stakeFold
  have key : ∀ (E' : List Hex), (∀ a ∈ E', a ∈ E) → ∀ (s : St) (l : List Int), P s →
      P (E'.foldl (fun (acc, l) a =>
        match stakePunish acc a with
        | (acc', some sl) => (acc', l ++ [sl])
        | (acc', none) => (acc', l)) (s, l)).1 := by
    intro E'
    induction E' with
    | nil => intro _ s l hs; exact hs
    | cons a E' ih =>
      intro hsub s l hs
      rw [List.foldl_cons]
      have hstep' : ∃ l', (match stakePunish s a with
          | (acc', some sl) => (acc', l ++ [sl])
          | (acc', none) => (acc', l)) = ((stakePunish s a).1, l') := by
        rcases hsp : stakePunish s a with ⟨acc', _ | sl⟩
        · exact ⟨l, rfl⟩
        · exact ⟨l ++ [sl], rfl⟩
      obtain ⟨l', hl'⟩ := hstep'
      simp only at hl' ⊢
      rw [hl']
      exact ih (fun a' ha' => hsub a' (List.mem_cons_of_mem _ ha')) _ l' (hstep s a (hsub a (by simp)) hs)
  exact key E (fun _ h => h) s [] hs

/-! ### one vote -/

/-- what one vote does to the consensus view of the delegatee ledger: nothing, or (a vote that did not sign,
    resolving to delegatee `d` in the CURRENT state) the entry under `ledgerKey d.addr` is rewritten with a
    delegatee of the same address, and possibly deleted -/
theorem processVote_fin (s : St) (H : Int) (rl : KMap Delegatee) (v : VoteIn) (issued : Nat) (s' : St) (n : Nat)
    (h : processVote s H rl v issued = .ok (s', n)) :
    s'.delegs.fin = s.delegs.fin ∨
    (v.signed = false ∧ ∃ d d1, s.delegs.fin[ledgerKey v.addr]? = some d ∧ d1.addr = d.addr ∧
      (s'.delegs.fin = s.delegs.fin.insert (ledgerKey d.addr) d1 ∨
       s'.delegs.fin = (s.delegs.fin.insert (ledgerKey d.addr) d1).erase (ledgerKey d.addr))) := by
  by_cases hs : v.signed = true
  · left
    rw [(signer_untouched s H rl v issued hs s' n h).1]
  · have hs' : v.signed = false := by simpa using hs
    cases hd : s.delegs.get true (ledgerKey v.addr) with
    | none =>
      rw [processVote_unknown s H rl v issued hs' hd] at h
      cases h; left; rfl
    | some d =>
      right
      refine ⟨hs', d, ?_⟩
      unfold processVote at h
      simp only [hs', Bool.false_eq_true, if_false, hd] at h
      generalize (if H - 1 - s.active.signedBlocksWindow < 0 then (0 : Int) else H - 1 - s.active.signedBlocksWindow) = h0 at h
      split at h
      · cases h
        exact ⟨{ d with notSigned := (Delegatee.countInWindow (Delegatee.mark d.notSigned (H - 1)) h0 (H - 1)).2 },
          by simpa [Led.get] using hd, rfl, Or.inr rfl⟩
      · cases h
        exact ⟨{ d with notSigned := (Delegatee.countInWindow (Delegatee.mark d.notSigned (H - 1)) h0 (H - 1)).2 },
          by simpa [Led.get] using hd, rfl, Or.inl rfl⟩

theorem processVote_inv (fin0 : KMap Delegatee) (T : String → Prop) (s : St) (H : Int) (rl : KMap Delegatee)
    (v : VoteIn) (issued : Nat) (s' : St) (n : Nat)
    (hv : v.signed = false → ∀ d0, fin0[ledgerKey v.addr]? = some d0 → T (ledgerKey d0.addr))
    (h : processVote s H rl v issued = .ok (s', n)) (hI : FrameInv fin0 T s.delegs.fin) :
    FrameInv fin0 T s'.delegs.fin := by
  rcases processVote_fin s H rl v issued s' n h with e | ⟨hs, d, d1, hd, had, e | e⟩
  · rw [e]; exact hI
  all_goals
    have hT : T (ledgerKey d.addr) := by
      rcases hI.2 _ d hd with ht | ⟨d0, hd0, ha0⟩
      · exact ht
      · rw [← ha0]; exact hv hs d0 hd0
    have hins := hI.insert (ledgerKey d.addr) d1 hT (Or.inl (by rw [had]; exact hT))
    rw [e]
  · exact hins
  · exact hins.erase _ hT

/-! ### the fold over the votes -/

/-- one step of the vote fold of `beginBlock` -/
def voteStep (H : Int) (rl : KMap Delegatee) (acc : Res (St × Nat)) (v : VoteIn) : Res (St × Nat) :=
  match acc with
  | .panic p => .panic p
  | .ok (s, issued) => processVote s H rl v issued

theorem voteFold_inv (fin0 : KMap Delegatee) (T : String → Prop) (H : Int) (rl : KMap Delegatee) (vs : List VoteIn)
    (hv : ∀ v ∈ vs, v.signed = false → ∀ d0, fin0[ledgerKey v.addr]? = some d0 → T (ledgerKey d0.addr))
    (acc : Res (St × Nat)) (s' : St) (n : Nat) (h : vs.foldl (voteStep H rl) acc = .ok (s', n)) :
    ∃ s0 n0, acc = .ok (s0, n0) ∧ (FrameInv fin0 T s0.delegs.fin → FrameInv fin0 T s'.delegs.fin) := by
  induction vs generalizing acc with
  | nil => exact ⟨s', n, h, id⟩
  | cons v vs ih =>
    rw [List.foldl_cons] at h
    obtain ⟨s1, n1, h1, himp⟩ := ih (fun w hw => hv w (List.mem_cons_of_mem _ hw)) _ h
    cases acc with
    | panic p => simp [voteStep] at h1
    | ok a =>
      obtain ⟨s0, n0⟩ := a
      refine ⟨s0, n0, rfl, fun hI => himp ?_⟩
      exact processVote_inv fin0 T s0 H rl v n0 s1 n1 (hv v (by simp)) h1 hI

/-- the vote phase keeps the invariant (whatever its outcome: no votes, missing reward ledger version,
    panic inside the fold — the state then is the one before the fold — or success) -/
theorem votePhase_inv (fin0 : KMap Delegatee) (T : String → Prop) (s : St) (h : Header) (pS pG : List Int)
    (hv : ∀ v ∈ h.votes, v.signed = false → ∀ d0, fin0[ledgerKey v.addr]? = some d0 → T (ledgerKey d0.addr))
    (hI : FrameInv fin0 T s.delegs.fin) : FrameInv fin0 T (votePhase s h pS pG).1.delegs.fin := by
  unfold votePhase
  split
  · exact hI
  · simp only
    split
    · exact hI
    · rename_i rl _
      split
      · exact hI
      · rename_i s' issued hr
        have hr' : h.votes.foldl (voteStep h.height rl) (Res.ok (s, 0)) = .ok (s', issued) := hr
        obtain ⟨s0, n0, h0, himp⟩ := voteFold_inv fin0 T h.height rl h.votes hv _ s' issued hr'
        cases h0
        exact himp hI

/-! ### the block -/

/-- keys `beginBlock s h` may touch in the consensus view of the delegatee ledger -/
def Touched (s : St) (h : Header) (k : String) : Prop :=
  (∃ a ∈ h.evidence, k = ledgerKey a) ∨
  (∃ v ∈ h.votes, v.signed = false ∧ ∃ d, s.delegs.fin[ledgerKey v.addr]? = some d ∧ k = ledgerKey d.addr)

theorem afterPunish_inv (s : St) (h : Header) (minPower : Int) :
    FrameInv s.delegs.fin (Touched s h) (afterPunish s h minPower).1.delegs.fin := by
  unfold afterPunish
  simp only
  apply stakeFold_induct (fun st => FrameInv s.delegs.fin (Touched s h) st.delegs.fin)
  · intro st a ha hI
    exact stakePunish_inv _ _ st a (Or.inl ⟨a, ha, rfl⟩) hI
  · have hg := (govFold_frame h.evidence
      { s with blk := some { height := h.height, time := h.time, proposer := h.proposer } }).2.1
    show FrameInv s.delegs.fin (Touched s h) (afterGovPunish s h).1.delegs.fin
    unfold afterGovPunish
    rw [hg]
    exact FrameInv.init _ _

/-- the invariant holds of the state `beginBlock` returns (on every path, panics included) -/
theorem beginBlock_inv (s : St) (h : Header) (hh : h.height = s.lastHeight + 1) :
    FrameInv s.delegs.fin (Touched s h) (beginBlock s h).1.delegs.fin := by
  rw [beginBlock_phases s h hh]
  split
  · have hg := (govFold_frame h.evidence
      { s with blk := some { height := h.height, time := h.time, proposer := h.proposer } }).2.1
    show FrameInv s.delegs.fin (Touched s h) (afterGovPunish s h).1.delegs.fin
    unfold afterGovPunish
    rw [hg]
    exact FrameInv.init _ _
  · rename_i minPower _
    apply votePhase_inv
    · intro v hv hs d0 hd0
      exact Or.inr ⟨v, hv, hs, d0, hd0, rfl⟩
    · exact afterPunish_inv s h minPower

/-- **slash_jail_frame** (the body of `Rigo.C14.slash_jail_frame_statement`, verbatim): after `beginBlock`, an
    entry of the consensus view of the delegatee ledger differs from before only if its key is the key of an
    address in the evidence, or the key of the address of the delegatee a non-signing vote resolves to. -/
theorem slash_jail_frame :
    ∀ (s : St) (h : Header), h.height = s.lastHeight + 1 → (beginBlock s h).2.panic = "" →
      ∀ k : String, (∀ a ∈ h.evidence, k ≠ ledgerKey a) →
        (∀ v ∈ h.votes, v.signed = false → ∀ d, s.delegs.fin[ledgerKey v.addr]? = some d → k ≠ ledgerKey d.addr) →
        (beginBlock s h).1.delegs.fin[k]? = s.delegs.fin[k]? := by
  intro s h hh _ k hE hV
  apply (beginBlock_inv s h hh).1 k
  rintro (⟨a, ha, e⟩ | ⟨v, hv, hs, d, hd, e⟩)
  · exact hE a ha e
  · exact hV v hv hs d hd e

/-- the same without the no-panic hypothesis (it is not needed: on every panic path of `beginBlock` the
    returned state is a state of the punish phase) -/
theorem slash_jail_frame_any (s : St) (h : Header) (hh : h.height = s.lastHeight + 1) (k : String)
    (hk : ¬ Touched s h k) : (beginBlock s h).1.delegs.fin[k]? = s.delegs.fin[k]? :=
  (beginBlock_inv s h hh).1 k hk

/-! ### non-vacuity: a block with evidence, one signing and one non-signing vote -/

def addrA : Hex := "aaaaaaaaaaaaaaaaaaaaaaaaaaaaaaaaaaaaaaaa"
def addrB : Hex := "bbbbbbbbbbbbbbbbbbbbbbbbbbbbbbbbbbbbbbbb"
def addrC : Hex := "cccccccccccccccccccccccccccccccccccccccc"
def addrE : Hex := "eeeeeeeeeeeeeeeeeeeeeeeeeeeeeeeeeeeeeeee"

def exP : Params where
  maxValidatorCnt := 21
  minValidatorStake := 1000000000000000000
  minDelegatorStake := 1000000000000000000
  rewardPerPower := 1
  lazyRewardBlocks := 10
  lazyApplyingBlocks := 10
  gasPrice := 1
  minTrxGas := 1
  maxTrxGas := 1000000
  maxBlockGas := 100000000
  minVotingPeriodBlocks := 1
  maxVotingPeriodBlocks := 100
  minSelfStakeRatio := 50
  maxUpdatableStakeRatio := 30
  maxIndividualStakeRatio := 100
  slashRatio := 50
  signedBlocksWindow := 100
  minSignedBlocks := 50
  version := 1

/-- four funded genesis validators with power 10 each -/
def exG : Genesis :=
  { chainId := "c14", params := exP, holders := [(addrA, 100), (addrB, 100), (addrC, 100), (addrE, 100)],
    vals := [("pa", addrA, 10), ("pb", addrB, 10), ("pc", addrC, 10), ("pe", addrE, 10)] }

/-- the (reachable) state after the empty block 1 -/
def exS : St := exec (initChain exG) [.begin_ { height := 1 }, .end_, .commit]

/-- block 2: evidence against E, A signed block 1, B did not; C does not appear -/
def exH : Header :=
  { height := 2,
    votes := [{ addr := addrA, power := 10, signed := true }, { addr := addrB, power := 10, signed := false }],
    evidence := [addrE] }

/-- the block is accepted without panic, rewards are issued (A signed) -/
theorem ex_ok : exH.height = exS.lastHeight + 1 ∧ (beginBlock exS exH).2.panic = "" ∧
    (beginBlock exS exH).2.issued = some 10 := by decide +kernel

/-- the non-signing vote resolves to B's own entry; the entries of B (mark) and E (slash) DO change -/
theorem ex_touched : (exS.delegs.fin[ledgerKey addrB]?).map (·.addr) = some addrB ∧
    (beginBlock exS exH).1.delegs.fin[ledgerKey addrB]? ≠ exS.delegs.fin[ledgerKey addrB]? ∧
    (beginBlock exS exH).1.delegs.fin[ledgerKey addrE]? ≠ exS.delegs.fin[ledgerKey addrE]? := by decide +kernel

/-- all hypotheses of `slash_jail_frame` hold for the keys of the signer A and of the bystander C -/
theorem ex_hyps (k : String) (hk : k = ledgerKey addrA ∨ k = ledgerKey addrC) :
    exH.height = exS.lastHeight + 1 ∧ (beginBlock exS exH).2.panic = "" ∧
    (∀ a ∈ exH.evidence, k ≠ ledgerKey a) ∧
    (∀ v ∈ exH.votes, v.signed = false → ∀ d, exS.delegs.fin[ledgerKey v.addr]? = some d → k ≠ ledgerKey d.addr) := by
  refine ⟨ex_ok.1, ex_ok.2.1, ?_, ?_⟩
  · intro a ha
    simp only [exH, List.mem_singleton] at ha
    subst ha
    rcases hk with hk | hk <;> subst hk <;> decide
  · intro v hv hs d hd
    simp only [exH, List.mem_cons, List.not_mem_nil, or_false] at hv
    rcases hv with hv | hv
    · subst hv; cases hs
    · subst hv
      have hB := ex_touched.1
      simp only at hd
      rw [hd] at hB
      simp only [Option.map_some, Option.some.injEq] at hB
      rw [hB]
      rcases hk with hk | hk <;> subst hk <;> decide

/-- … hence their entries are unchanged -/
example : (beginBlock exS exH).1.delegs.fin[ledgerKey addrA]? = exS.delegs.fin[ledgerKey addrA]? ∧
    (beginBlock exS exH).1.delegs.fin[ledgerKey addrC]? = exS.delegs.fin[ledgerKey addrC]? := by
  have hA := ex_hyps (ledgerKey addrA) (Or.inl rfl)
  have hC := ex_hyps (ledgerKey addrC) (Or.inr rfl)
  exact ⟨slash_jail_frame exS exH hA.1 hA.2.1 _ hA.2.2.1 hA.2.2.2,
         slash_jail_frame exS exH hC.1 hC.2.1 _ hC.2.2.1 hC.2.2.2⟩

end Rigo.C14F
