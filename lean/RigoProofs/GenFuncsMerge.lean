/-
  Round 2, governance parameters: `MergeGovParams(old, new)` (ctrlers/types/gov_params.go) equals the
  model's `mergeParams`, field for field (19 fields; the four big ones may be nil in the freshly
  unmarshalled option `new`, which is the model's `POpt`).
-/
import RigoProofs.GenFuncsBase
import Rigo.App

set_option linter.unusedSimpArgs false

namespace Rigo.GenEq
open Rigo Rigo.Gen

/-- the merged parameters as the Go object `newParams` after the call: every field set -/
def poptOf (q : Params) : POpt :=
  {
    maxValidatorCnt := q.maxValidatorCnt
    minValidatorStake := some q.minValidatorStake
    minDelegatorStake := some q.minDelegatorStake
    rewardPerPower := some q.rewardPerPower
    lazyRewardBlocks := q.lazyRewardBlocks
    lazyApplyingBlocks := q.lazyApplyingBlocks
    gasPrice := some q.gasPrice
    minTrxGas := q.minTrxGas
    maxTrxGas := q.maxTrxGas
    maxBlockGas := q.maxBlockGas
    minVotingPeriodBlocks := q.minVotingPeriodBlocks
    maxVotingPeriodBlocks := q.maxVotingPeriodBlocks
    minSelfStakeRatio := q.minSelfStakeRatio
    maxUpdatableStakeRatio := q.maxUpdatableStakeRatio
    maxIndividualStakeRatio := q.maxIndividualStakeRatio
    slashRatio := q.slashRatio
    signedBlocksWindow := q.signedBlocksWindow
    minSignedBlocks := q.minSignedBlocks
    version := q.version }

theorem POpt_ext (a b : POpt) (h0 : a.maxValidatorCnt = b.maxValidatorCnt) (h1 : a.minValidatorStake = b.minValidatorStake) (h2 : a.minDelegatorStake = b.minDelegatorStake) (h3 : a.rewardPerPower = b.rewardPerPower) (h4 : a.lazyRewardBlocks = b.lazyRewardBlocks) (h5 : a.lazyApplyingBlocks = b.lazyApplyingBlocks) (h6 : a.gasPrice = b.gasPrice) (h7 : a.minTrxGas = b.minTrxGas) (h8 : a.maxTrxGas = b.maxTrxGas) (h9 : a.maxBlockGas = b.maxBlockGas) (h10 : a.minVotingPeriodBlocks = b.minVotingPeriodBlocks) (h11 : a.maxVotingPeriodBlocks = b.maxVotingPeriodBlocks) (h12 : a.minSelfStakeRatio = b.minSelfStakeRatio) (h13 : a.maxUpdatableStakeRatio = b.maxUpdatableStakeRatio) (h14 : a.maxIndividualStakeRatio = b.maxIndividualStakeRatio) (h15 : a.slashRatio = b.slashRatio) (h16 : a.signedBlocksWindow = b.signedBlocksWindow) (h17 : a.minSignedBlocks = b.minSignedBlocks) (h18 : a.version = b.version) : a = b := by
  cases a; cases b; simp_all

/-- `MergeGovParams(old, new)`: afterwards `new` holds `mergeParams old new` (a zero / nil field of
    the option keeps the old value); it never panics -/
theorem MergeGovParams_eq (old : Params) (n : POpt) :
    MergeGovParams old n = .ok (poptOf (mergeParams old n)) := by
  obtain ⟨a1, a2, a3, a4, a5, a6, a7, a8, a9, a10, a11, a12, a13, a14, a15, a16, a17, a18, a19⟩ := n
  rcases a2 with _ | (_ | a2) <;> rcases a3 with _ | (_ | a3) <;> rcases a4 with _ | (_ | a4) <;>
    rcases a7 with _ | (_ | a7) <;> rfl

example : MergeGovParams (default : Params) { (default : POpt) with gasPrice := some 7, slashRatio := 30 } =
    .ok (poptOf { (default : Params) with gasPrice := 7, slashRatio := 30 }) := by
  rw [MergeGovParams_eq]; simp [mergeParams, poptOf]; decide

end Rigo.GenEq
