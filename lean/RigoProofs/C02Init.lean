/-
  C02 helper: `InitChain` establishes the invariants; decidable run conditions used by the full
  (refuted) statement.
-/
import RigoProofs.C02Step

namespace Rigo.C02

open Std Rigo.Delegatee

theorem foldl_inv {α β : Type} (P : β → Prop) (f : β → α → β) (l : List α)
    (hstep : ∀ b x, x ∈ l → P b → P (f b x)) : ∀ b, P b → P (l.foldl f b) := by
  induction l with
  | nil => intro b hb; exact hb
  | cons x l ih =>
    intro b hb
    rw [List.foldl_cons]
    exact ih (fun b y hy hp => hstep b y (List.mem_cons_of_mem _ hy) hp) _ (hstep b x (by simp) hb)

/-- what `initChain` maintains while it builds the genesis state -/
structure InitP (s : St) : Prop where
  inv0 : Inv0 s
  blk : s.blk = none
  acctsHist : s.accts.hist = []
  frozenHist : s.frozen.hist = []
  feeBurn : s.ghost.feeBurn = 0
  withdrawn : s.ghost.withdrawn = 0

theorem initChain_initP (g : Genesis) (hg : GenesisSane g) : InitP (initChain g) := by
  unfold initChain
  simp only
  apply foldl_inv InitP
  · rintro acc ⟨pub, addr, power⟩ hx hp
    simp only
    cases hfn : acc.findOrNewAcct true addr with
    | mk acc1 a =>
    obtain ⟨i1, f1, _, d1, z1, g1, _, _, _⟩ := findOrNew_ok hp.inv0 addr hfn
    simp only
    refine ⟨⟨i1.acctKey, ?_, i1.frozenKey⟩, by rw [← hp.blk]; exact f1.blk, by rw [← hp.acctsHist]; exact f1.acctsHist,
      by rw [← hp.frozenHist]; exact f1.frozenHist, by rw [← hp.feeBurn]; exact f1.feeBurn, by show acc1.ghost.withdrawn = 0; rw [g1]; exact hp.withdrawn⟩
    intro k d hk
    simp only [Led.set, if_true] at hk
    rw [ExtTreeMap.getElem?_insert] at hk
    split at hk
    · rename_i e; simp at e
      injection hk with hk; subst hk
      refine ⟨e, by simp [addStake, sumPower], ?_⟩
      intro st hst
      simp only [addStake, List.nil_append, List.mem_singleton] at hst
      subst hst
      exact hg (pub, addr, power) hx
    · exact i1.delegKey k d hk
  · apply foldl_inv InitP
    · rintro acc ⟨a, b⟩ _ hp
      exact ⟨inv0_setAcct hp.inv0 _, hp.blk, by simp [hp.acctsHist], hp.frozenHist, hp.feeBurn, hp.withdrawn⟩
    · refine ⟨⟨?_, ?_, ?_⟩, rfl, rfl, rfl, rfl, rfl⟩ <;> intro k v h <;> simp at h

theorem init_inv (g : Genesis) (hg : GenesisSane g) : Inv .idle (initChain g) := by
  have hp := initChain_initP g hg
  refine ⟨hp.inv0, ⟨fun _ => hp.blk, fun h => absurd rfl h⟩, fun _ => ?_, fun _ h => absurd hp.acctsHist h⟩
  intro k st hk
  simp [Led.committed, hp.frozenHist] at hk

/-- conservation along every well-phased history satisfying the side conditions -/
theorem conservation_run (g : Genesis) (hg : GenesisSane g) (ops : List Op)
    (hph : phaseRun .idle ops = some .idle) (hok : RunOK (initChain g) ops) :
    Inv .idle (exec (initChain g) ops) ∧
    total (exec (initChain g) ops) + slashBurnRun (initChain g) ops + evmBurnRun (initChain g) ops +
        (exec (initChain g) ops).ghost.feeBurn =
      genesisTotal g + (exec (initChain g) ops).ghost.withdrawn := by
  have hp := initChain_initP g hg
  obtain ⟨i, e⟩ := run_ok ops .idle .idle (initChain g) (init_inv g hg) hph hok
  refine ⟨i, ?_⟩
  rw [valueAt_idle, valueAt_idle, hp.feeBurn, hp.withdrawn] at e
  unfold genesisTotal
  omega

/-! ### decidable side conditions (used to state the full, refuted, property) -/

instance (p : Int) : Decidable (PowerOK p) := by unfold PowerOK; infer_instance
instance (g : Genesis) : Decidable (GenesisSane g) := by unfold GenesisSane; infer_instance
instance (s : St) (tx : TxIn) : Decidable (EvmOracleOK s tx) := by unfold EvmOracleOK; infer_instance

/-- the side conditions of one step WITHOUT the `UniqueFrozenKeys` parts: the step does not panic,
    supply bound, sane slashing ratio, EVM oracle creates no value, no restart before the first commit -/
def stepOK0 (s : St) (op : Op) : Bool :=
  decide ((step s op).2.panic = "") && decide (SupplyBound s) && decide (SlashSane s) &&
  (match op with
   | .init _ => false
   | .deliver tx => decide (EvmOracleOK s tx)
   | .restart => decide (s.accts.hist ≠ [])
   | _ => true)

def runOK0 : St → List Op → Bool
  | _, [] => true
  | s, op :: ops => stepOK0 s op && runOK0 (step s op).1 ops

end Rigo.C02
