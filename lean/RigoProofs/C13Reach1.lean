/-
  C13 (reachable-state reward balance), part 1: the reward-ledger invariant (`RewardInv`: records are
  stored under the ledger key of their own address, cumulated < 2^256) and how every operation
  touches the consensus view of the reward ledger.
-/
import RigoProofs.C13Balance
import RigoProofs.TxSteps

namespace Rigo.C13
open Rigo

def RewardInv (s : St) : Prop :=
  ∀ (k : String) (r : Reward), s.rewards.fin[k]? = some r → ledgerKey r.addr = k ∧ r.cumulated < two256

theorem RewardInv.of_fin {s s' : St} (h : RewardInv s) (e : s'.rewards.fin = s.rewards.fin) : RewardInv s' := by
  unfold RewardInv; rw [e]; exact h

/-! ### transactions -/

theorem execWithdraw_nofail {s : St} {e : Bool} {ht : Int} {tx : TxIn} {r : RunOut} (h : execWithdraw s e ht tx = .ok r) :
    r.fail = none := by
  unfold execWithdraw at h
  simp only [bind, Except.bind, pure, Except.pure, throw, throwThe, MonadExceptOf.throw] at h
  repeat' split at h
  all_goals first | cases h | skip
  all_goals rfl

theorem execWithdraw_check {s : St} {ht : Int} {tx : TxIn} {r : RunOut} (h : execWithdraw s false ht tx = .ok r) :
    r.st.rewards.fin = s.rewards.fin := by
  unfold execWithdraw at h
  simp only [bind, Except.bind, pure, Except.pure, throw, throwThe, MonadExceptOf.throw] at h
  repeat' split at h
  all_goals first | cases h | skip
  all_goals
    have := (reward_frAll (by assumption)).2.1.1
    simp_all

theorem runTrx_withdraw_check {s1 s2 : St} {ht : Int} {tx : TxIn} {rc : Account} {g : Nat} {k : Option String}
    (htype : tx.type = TRX_WITHDRAW) (h : runTrx s1 false ht tx rc = .ok (s2, g, k)) :
    s2.rewards.fin = s1.rewards.fin := by
  rw [runTrx_eq, execBody_withdraw _ _ _ _ _ htype] at h
  simp only [bind, Except.bind] at h
  split at h
  · cases h
  · rename_i r hr
    have hb := execWithdraw_check hr
    rcases runTail_cases h with ⟨_, _, h1⟩ | ⟨_, h1⟩ | ⟨_, _, _, _, sender, a1, _, _, h1⟩
    · rw [h1]; exact hb
    · rw [h1]; exact hb
    · rw [h1]; exact hb

/-- CheckTx never touches the consensus view of the reward ledger -/
theorem handleTx_check_rewards (s : St) (ht : Int) (tx : TxIn) : (handleTx s false ht tx).1.rewards.fin = s.rewards.fin := by
  by_cases hnt : tx.type ≠ TRX_WITHDRAW
  · rw [((handleTx_frame s false ht tx).2.1 hnt).1]
  have htype : tx.type = TRX_WITHDRAW := by
    by_cases h : tx.type = TRX_WITHDRAW
    · exact h
    · exact absurd h hnt
  have h0 : (s.findOrNewAcct false tx.to).1.rewards = s.rewards := (findOrNewAcct_frAll s false tx.to).2.1.1
  by_cases hc : (handleTx s false ht tx).2.code = 0
  · obtain ⟨_, sender, s1, s2, g, _, hval, hrun, hres⟩ := handleTx_ok_inv hc
    obtain ⟨l, rfl⟩ := validateTrx_limiter hval
    rw [hres]
    show s2.rewards.fin = _
    rw [runTrx_withdraw_check htype hrun]
    show (s.findOrNewAcct false tx.to).1.rewards.fin = _
    rw [h0]
  · rcases handleTx_fail_inv hc with h1 | h1 | ⟨sender, s1, _, hval, h1⟩
    · rw [h1]
    · rw [h1, h0]
    · obtain ⟨l, rfl⟩ := validateTrx_limiter hval
      rcases h1 with ⟨er, _, h2⟩ | ⟨s2, g, k, hrun, h2⟩
      · rw [h2]; show (s.findOrNewAcct false tx.to).1.rewards.fin = _; rw [h0]
      · rw [h2, runTrx_withdraw_check htype hrun]
        show (s.findOrNewAcct false tx.to).1.rewards.fin = _; rw [h0]

/-- a failed withdrawal leaves the reward ledger alone -/
theorem handleTx_withdraw_fail (s : St) (ht : Int) (tx : TxIn) (htype : tx.type = TRX_WITHDRAW)
    (hc : (handleTx s true ht tx).2.code ≠ 0) : (handleTx s true ht tx).1.rewards = s.rewards := by
  have h0 : (s.findOrNewAcct true tx.to).1.rewards = s.rewards := (findOrNewAcct_frAll s true tx.to).2.1.1
  rcases handleTx_fail_inv hc with h1 | h1 | ⟨sender, s1, _, hval, h1⟩
  · rw [h1]
  · rw [h1, h0]
  · obtain ⟨l, rfl⟩ := validateTrx_limiter hval
    rcases h1 with ⟨er, _, h2⟩ | ⟨s2, g, k, hrun, h2⟩
    · rw [h2]; exact h0
    · exfalso
      rw [runTrx_eq, execBody_withdraw _ _ _ _ _ htype] at hrun
      simp only [bind, Except.bind] at hrun
      split at hrun
      · cases hrun
      · rename_i r hr
        have hnf := execWithdraw_nofail hr
        rcases runTail_cases hrun with ⟨hf, _, _⟩ | ⟨hv, _⟩ | ⟨hk, _⟩
        · rw [hnf] at hf; cases hf
        · simp [htype, TRX_WITHDRAW, TRX_CONTRACT, TRX_TRANSFER] at hv
        · cases hk

theorem deliverTx_rewards {s : St} {b : BlockCtx} (tx : TxIn) (hb : s.blk = some b) :
    (deliverTx s tx).1.rewards = (handleTx s true b.height tx).1.rewards ∧
    (deliverTx s tx).2.tx = some (handleTx s true b.height tx).2 ∧
    ∃ b', (deliverTx s tx).1.blk = some b' := by
  have hblk : (handleTx s true b.height tx).1.blk = some b := by
    rw [(handleTx_frame s true b.height tx).1.2.2.2.2.2.2.1, hb]
  unfold deliverTx
  rw [hb]
  simp only []
  generalize handleTx s true b.height tx = res at hblk
  obtain ⟨s', o⟩ := res
  simp only [] at hblk ⊢
  split
  · exact ⟨rfl, rfl, b, hblk⟩
  · split
    · exact ⟨rfl, rfl, _, rfl⟩
    · exact ⟨rfl, rfl, b, hblk⟩

theorem deliverTx_noblk {s : St} (tx : TxIn) (hb : s.blk = none) :
    (deliverTx s tx).1 = s ∧ (deliverTx s tx).2.tx = none := by
  unfold deliverTx; rw [hb]; exact ⟨rfl, rfl⟩

/-! ### BeginBlock -/

theorem issue_addr {w w' : Reward} {r : Nat} {h : Int} (hi : w.issue r h = .ok w') : w'.addr = w.addr := by
  unfold Reward.issue at hi
  split at hi
  · cases hi; rfl
  · split at hi
    · cases hi; rfl
    · cases hi

theorem rewardStep_rinv {h : Int} {s s' : St} {i i' : Nat} {st : Stake}
    (hs : rewardStep h (.ok (s, i)) st = .ok (s', i')) (hr : RewardInv s) : RewardInv s' := by
  unfold rewardStep at hs
  simp only [] at hs
  split at hs
  · cases hs
  · rename_i w' hw
    cases hs
    intro k r hk
    simp only [Led.set_fin_true] at hk
    by_cases hkk : ledgerKey st.owner = k
    · subst hkk
      simp only [Std.ExtTreeMap.getElem?_insert_self, Option.some.injEq] at hk
      subst hk
      refine ⟨?_, by rw [issue_cum hw]; exact wadd_lt _ _⟩
      rw [issue_addr hw]
      simp only [Led.get, if_true]
      cases hg : s.rewards.fin[ledgerKey st.owner]? with
      | none => rfl
      | some w0 => exact (hr _ w0 hg).1
    · rw [Std.ExtTreeMap.getElem?_insert] at hk
      simp [hkk] at hk
      exact hr k r hk

theorem foldl_rewardStep_rinv (h : Int) (l : List Stake) (s : St) (i : Nat) (s' : St) (i' : Nat)
    (hf : l.foldl (rewardStep h) (.ok (s, i)) = .ok (s', i')) (hr : RewardInv s) : RewardInv s' := by
  induction l generalizing s i with
  | nil => simp only [List.foldl_nil] at hf; cases hf; exact hr
  | cons st l ih =>
    simp only [List.foldl_cons] at hf
    cases hs : rewardStep h (.ok (s, i)) st with
    | panic p => rw [hs, foldl_rewardStep_panic] at hf; cases hf
    | ok r =>
      obtain ⟨s1, i1⟩ := r
      rw [hs] at hf
      exact ih s1 i1 hf (rewardStep_rinv hs hr)

theorem processVote_rinv {s s' : St} {height : Int} {rl : KMap Delegatee} {v : VoteIn} {i i' : Nat}
    (hp : processVote s height rl v i = .ok (s', i')) (hr : RewardInv s) : RewardInv s' := by
  cases hv : v.signed with
  | false =>
    rw [processVote_unsigned _ _ _ _ _ hv] at hp
    split at hp
    · cases hp; exact hr
    · split at hp
      · cases hp; exact hr
      · cases hp; exact hr
  | true =>
    rw [processVote_signed _ _ _ _ _ hv] at hp
    split at hp
    · cases hp; exact hr
    · split at hp
      · cases hp; exact hr
      · split at hp
        · cases hp
        · rename_i s1 i1 hrw
          cases hp
          rw [rewardTo_eq] at hrw
          exact foldl_rewardStep_rinv _ _ _ _ _ _ hrw hr

theorem foldl_voteStep_rinv (height : Int) (rl : KMap Delegatee) (votes : List VoteIn) (s : St) (i : Nat) (s' : St) (i' : Nat)
    (hf : votes.foldl (voteStep height rl) (.ok (s, i)) = .ok (s', i')) (hr : RewardInv s) : RewardInv s' := by
  induction votes generalizing s i with
  | nil => simp only [List.foldl_nil] at hf; cases hf; exact hr
  | cons v vs ih =>
    simp only [List.foldl_cons] at hf
    cases hp : voteStep height rl (.ok (s, i)) v with
    | panic p => rw [hp, foldl_voteStep_panic] at hf; cases hf
    | ok r =>
      obtain ⟨s2, i2⟩ := r
      rw [hp] at hf
      exact ih s2 i2 hf (processVote_rinv (by simpa [voteStep] using hp) hr)

/-- BeginBlock: the result is the untouched input, or a state with an open block; the reward ledger is
    untouched unless the reward event is emitted; `RewardInv` is kept -/
theorem beginBlock_rewards (s : St) (h : Header) (hr : RewardInv s) :
    ((beginBlock s h).1 = s ∨ ∃ b, (beginBlock s h).1.blk = some b) ∧
    RewardInv (beginBlock s h).1 ∧ (beginBlock s h).1.rewards.hist = s.rewards.hist ∧
    ((beginBlock s h).2.issued = none → (beginBlock s h).1.rewards = s.rewards) := by
  have hfresh : ∀ x : St, x.blk = (bbA s h).blk → ∃ b, x.blk = some b := fun x hx => ⟨_, hx⟩
  refine ⟨?_, ?_, (beginBlock_bfr s h).2.2.2.2.2.2.2.2.2.1, ?_⟩
  · apply beginBlock_ind s h (fun x => x = s ∨ ∃ b, x.blk = some b)
    · exact Or.inl rfl
    · intro _; right; apply hfresh; rw [(bGov_fr _ _).2.2.2.2.1]
    · intro _ m _; right; apply hfresh
      rw [(bStake_fr _ _).2.2.2.2.1, (bbC_fr _ m).2.2, (bGov_fr _ _).2.2.2.2.1]
    · intro _ m rl s' issued _ _ hv; right; apply hfresh
      rw [(bVotes_vfr hv).2.2.1, (bStake_fr _ _).2.2.2.2.1, (bbC_fr _ m).2.2, (bGov_fr _ _).2.2.2.2.1]
  · apply beginBlock_ind s h RewardInv hr
    · intro _; apply hr.of_fin; rw [(bGov_fr _ _).2.1, (bbA_fr s h).2.1]
    · intro _ m _; apply hr.of_fin; rw [(pre_votes_frame s h m).1]
    · intro _ m rl s' issued _ _ hv
      exact foldl_voteStep_rinv _ _ _ _ _ _ _ hv (hr.of_fin (by rw [(pre_votes_frame s h m).1]))
  · intro hn
    rw [beginBlock_staged] at hn ⊢
    by_cases hh : h.height ≠ s.lastHeight + 1
    · rw [if_pos hh]
    rw [if_neg hh] at hn ⊢
    cases ha : amountToPower (bGov (bbA s h) h.evidence).1.active.minValidatorStake with
    | panic p => simp only []; rw [(bGov_fr _ _).2.1, (bbA_fr s h).2.1]
    | ok m =>
      rw [ha] at hn
      simp only [] at hn ⊢
      by_cases hv : h.votes.isEmpty = true
      · rw [if_pos hv]; exact (pre_votes_frame s h m).1
      rw [if_neg hv] at hn ⊢
      cases hat : (bStake (bbC (bGov (bbA s h) h.evidence).1 m) h.evidence).1.delegs.at? (hopOf h.height) with
      | none => exact (pre_votes_frame s h m).1
      | some rl =>
        rw [hat] at hn
        simp only [] at hn ⊢
        cases hvo : bVotes (bStake (bbC (bGov (bbA s h) h.evidence).1 m) h.evidence).1 h.height rl h.votes with
        | panic p => exact (pre_votes_frame s h m).1
        | ok res =>
          obtain ⟨s', issued⟩ := res
          rw [hvo] at hn
          cases hn

end Rigo.C13
