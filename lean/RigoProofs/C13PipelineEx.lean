/-
  C13 / pipeline (7e): NON-VACUITY.  The example run (RigoProofs/C13PipelineExDefs.lean: seven blocks, validators A:10 and
  B:9, C delegates 5 to A in block 2) satisfies every hypothesis of the pipeline theorems — `RunOK` (inputs, parameters,
  call order, no panic, genesis set announced by block 2) and `TMFaithful` — and the conclusions agree with the direct
  evaluation of the model (RigoProofs/C13PipelineExEval.lean, C13PipelineExEval2.lean).  It also exhibits the recorded finding
  `issuance-early-heights` at height 4.
-/
import RigoProofs.C13PipelineExNoPanic
import RigoProofs.C13PipelineExChecks
import RigoProofs.C13PipelineExEval
import RigoProofs.C13PipelineExEval2
open Std
namespace Rigo.C13P.Ex
open Rigo Rigo.TM Rigo.C14L Rigo.C19 Rigo.C13 Rigo.C13P

theorem id_inj : Injective (id : Hex → Hex) := fun _ _ h => h

theorem ops_covered : GenesisCovered G ops := by
  refine covered_of_block2 (p0 := b1) (hd := hdr 2 genVotes) (mid := [.deliver txDeleg])
    (rest := .commit :: (b3 ++ b4 ++ b5 ++ b6 ++ b7)) rfl ?_ (by decide) ops_noPanic check1.2.1 ?_
  · intro op ho; simp at ho; subst ho; rfl
  · intro mp hmp v hv
    have ha : (exec (initChain G) b1).active = G.params := check1.1
    rw [ha] at hmp ⊢
    obtain rfl := minPower_G mp hmp
    have hc := check1.2.2
    have := (reported_of_check (s := exec (initChain G) b1) (mp := 1) (votes := genVotes) (by rw [ha]; exact hc)).2
    rw [ha] at this
    simp [G] at hv
    rcases hv with rfl | rfl
    · exact this addrA 10 (by decide)
    · exact this addrB 9 (by decide)

theorem ops_runOK : RunOK id G ops := ⟨ops_inputsOK, ops_params, ⟨_, ops_phased⟩, ops_noPanic, ops_covered⟩


theorem genesis_votes : VotesOf id (genesisSet G) genVotes := by
  unfold genesisSet
  apply votesOf_asSet
  · simp [G, genesisDeleg, Delegatee.addStake, addrA, addrB]
  · intro pub p
    simp [G, genVotes, vote, genesisDeleg, Delegatee.addStake, Delegatee.isSelf]

theorem splits : beginSplits [] ops =
    [([], hdr 1 []), (b1, hdr 2 genVotes), (b1 ++ b2, hdr 3 genVotes), (b1 ++ b2 ++ b3, hdr 4 genVotes),
     (b1 ++ b2 ++ b3 ++ b4, hdr 5 genVotes), (b1 ++ b2 ++ b3 ++ b4 ++ b5, hdr 6 (newVotes false)),
     (b1 ++ b2 ++ b3 ++ b4 ++ b5 ++ b6, hdr 7 (newVotes true))] := rfl

/-- the votes of BeginBlock(H), H ≥ 5, of this run stand for the eligible records of version H − 4 -/
theorem late_votes {p0 mid p2 post : List Op} {hd3 : Header} {H : Int} {votes : List VoteIn}
    (e : ops = (p0 ++ .begin_ hd3 :: mid ++ .end_ :: p2) ++ .begin_ (hdr H votes) :: post)
    (hmid : ∀ op ∈ mid, isTx op = true) (hc2 : endCount p2 = 2) (h5 : 5 ≤ H)
    (hchk : (exec S0 p0).active = G.params ∧ stateCheck (exec S0 p0) 1 10 (votes.map fun v => (v.addr, v.power))) :
    VotesOf id (tmValset G (p0 ++ .begin_ hd3 :: mid ++ .end_ :: p2) (H - 1)) votes := by
  obtain ⟨mp, _, hmp, _, hset, _⟩ := pipeline_at id_inj ops_runOK e hmid hc2 h5
  have ha : (exec (initChain G) p0).active = G.params := hchk.1
  have hset' : tmValset G (p0 ++ .begin_ hd3 :: mid ++ .end_ :: p2) (H - 1) = _ := hset
  rw [hset']
  rw [ha] at hmp
  obtain rfl := minPower_G mp hmp
  exact (reported_of_check (s := exec (initChain G) p0) (mp := 1) (by rw [ha]; exact hchk.2)).1

theorem ops_tmFaithful : TMFaithful id G ops := by
  apply tmFaithful_of_splits
  intro x hx
  rw [splits] at hx
  simp only [List.mem_cons, List.not_mem_nil, or_false] at hx
  have early : ∀ pre H post, ops = pre ++ .begin_ (hdr H genVotes) :: post → H ≤ 4 →
      VotesOf id (tmValset G pre (H - 1)) genVotes := by
    intro pre H post e h4
    have := tmValset_early ⟨_, ops_phased⟩ ops_noPanic e h4
    have this' : tmValset G pre (H - 1) = genesisSet G := this
    rw [this']
    exact genesis_votes
  rcases hx with rfl | rfl | rfl | rfl | rfl | rfl | rfl
  · rfl
  · exact early b1 2 (b2.tail ++ b3 ++ b4 ++ b5 ++ b6 ++ b7) rfl (by decide)
  · exact early (b1 ++ b2) 3 (b3.tail ++ b4 ++ b5 ++ b6 ++ b7) rfl (by decide)
  · exact early (b1 ++ b2 ++ b3) 4 (b4.tail ++ b5 ++ b6 ++ b7) rfl (by decide)
  · exact late_votes (p0 := b1) (hd3 := hdr 2 genVotes) (mid := [.deliver txDeleg]) (p2 := .commit :: (b3 ++ b4))
      (post := b5.tail ++ b6 ++ b7) rfl (by intro op ho; simp at ho; subst ho; rfl) (by decide) (by decide)
      ⟨check1.1, check1.2.2⟩
  · exact late_votes (p0 := b1 ++ b2) (hd3 := hdr 3 genVotes) (mid := []) (p2 := .commit :: (b4 ++ b5))
      (post := b6.tail ++ b7) rfl (by intro op ho; cases ho) (by decide) (by decide) check2
  · exact late_votes (p0 := b1 ++ b2 ++ b3) (hd3 := hdr 4 genVotes) (mid := []) (p2 := .commit :: (b5 ++ b6))
      (post := b7.tail) rfl (by intro op ho; cases ho) (by decide) (by decide) check3



/-! ### the theorems apply … -/

/-- BeginBlock(5): votes A:10, B:9 = ledger version 1 (the delegation of block 2 is not yet visible) -/
theorem block5_match : ∃ rl, (exec (initChain G) pre5).delegs.at? (hopOf 5) = some rl ∧
    ∀ v ∈ genVotes, ∃ d, rl[ledgerKey v.addr]? = some d ∧ d.total = v.power ∧ d.addr = v.addr :=
  votes_match_ledger id_inj ops_runOK ops_tmFaithful (pre := pre5) (hdr := hdr 5 genVotes) (post := b5.tail ++ b6 ++ b7)
    rfl (by decide)

/-- BeginBlock(6): votes A:15, B:9 = ledger version 2 (A's total includes C's delegation of block 2) -/
theorem block6_match : ∃ rl, (exec (initChain G) pre6).delegs.at? (hopOf 6) = some rl ∧
    ∀ v ∈ newVotes false, ∃ d, rl[ledgerKey v.addr]? = some d ∧ d.total = v.power ∧ d.addr = v.addr :=
  votes_match_ledger id_inj ops_runOK ops_tmFaithful (pre := pre6) (hdr := hdr 6 (newVotes false)) (post := b6.tail ++ b7)
    rfl (by decide)

/-- … and the selected records of version 2 all have a vote -/
example := ledger_match_votes id_inj ops_runOK ops_tmFaithful (pre := pre6) (hdr := hdr 6 (newVotes false))
    (post := b6.tail ++ b7) rfl (by decide)

/-- BeginBlock(7), all signed: no signer is skipped, … -/
theorem block7_signers : ∃ rl, (exec (initChain G) pre7).delegs.at? (hopOf 7) = some rl ∧
    ∀ v ∈ newVotes true, v.signed = true → ∃ d, rl[ledgerKey v.addr]? = some d ∧ d.total = v.power ∧
      rewardedDeleg rl v = some d := by
  obtain ⟨rl, h1, h2, _⟩ := signers_all_rewarded id_inj ops_runOK ops_tmFaithful (pre := pre7) (hdr := hdr 7 (newVotes true))
    (post := b7.tail) rfl (by decide)
  exact ⟨rl, h1, h2⟩

/-- … and the whole statement of `signers_all_rewarded` (the reward event pays the stakes of A — 10 own + 5 of C — and of
    B — 9 — recorded in version 3) -/
example := signers_all_rewarded id_inj ops_runOK ops_tmFaithful (pre := pre7) (hdr := hdr 7 (newVotes true))
    (post := b7.tail) rfl (by decide)

/-! ### … and agree with direct evaluation (`eval5_6`, `eval4` in C13PipelineExEval.lean; `eval6`, `eval7` in C13PipelineExEval2.lean) -/

/-- the recorded finding `issuance-early-heights` on this run.  BeginBlock(4): Tendermint's votes are still the genesis
    set (A:10), but the code reads the LATEST version (3), where A's total is already 15: A's signed vote is skipped and
    only B's stake is paid (27 = 9 × 3 instead of 57). -/
theorem early_heights_witness :
    VotesOf id (genesisSet G) genVotes ∧
    (exec S0 (b1 ++ b2 ++ b3)).delegs.at? (hopOf 4) = some (exec S0 (b1 ++ b2 ++ b3)).delegs.committed ∧
    rewardedDeleg (exec S0 (b1 ++ b2 ++ b3)).delegs.committed (vote addrA 10) = none ∧
    (((exec S0 (b1 ++ b2 ++ b3)).delegs.committed)[ledgerKey addrA]?).map (·.total) = some 15 ∧
    (beginBlock (exec S0 (b1 ++ b2 ++ b3)) (hdr 4 genVotes)).2.issued = some 27 :=
  ⟨genesis_votes, rfl, eval4⟩

end Rigo.C13P.Ex
