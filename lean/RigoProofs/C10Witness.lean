/-
  C10 — concrete witnesses of the two known findings:
  (1) nothing stops the last validator from leaving: the update list then empties the engine's set,
      which Tendermint rejects;
  (2) a delegatee with total power 0 that is still eligible is announced with power 0 = removal of a
      non-member, which Tendermint rejects.
  Both are exhibited on `updateValidators` (the function `endBlock` calls last), on hand-written states.
  (The former restart finding is repaired: `restart` keeps `lastVals`, see `restart_keeps_reported_set`.)
-/
import RigoProofs.C10Run
open Std

namespace Rigo.TM

def valA : Delegatee := { addr := "aa", pub := "pa", self := 10, total := 10 }
def valB : Delegatee := { addr := "bb", pub := "pb", self := 5, total := 5 }

def paramsW : Params := { (default : Params) with maxValidatorCnt := 21 }

/-- a state whose only validator `valA` has just unbonded everything (no eligible delegatee is left) -/
def sLastLeaves : St := { active := paramsW, lastVals := [valA], allDelegs := [] }

/-- **updates_can_empty_the_set_witness**: with a single validator that unbonds, `updateValidators`
    emits the removal of the last validator; the resulting set is empty and the engine rejects the list. -/
theorem updates_can_empty_the_set_witness :
    ∃ s' ups, updateValidators sLastLeaves = .ok (s', ups) ∧ ups = [("pa", 0)] ∧
      (applyUpdates (asSet sLastLeaves.lastVals) ups).isEmpty = true ∧
      ¬ tmAccepts (asSet sLastLeaves.lastVals) ups := by
  refine ⟨_, _, rfl, ?_, ?_, ?_⟩
  · simp [sLastLeaves, paramsW, sortByAddr, validatorUpdates, valA]
  · have : validatorUpdates (sortByAddr sLastLeaves.lastVals) (sortByAddr (List.take sLastLeaves.active.maxValidatorCnt.toNat sLastLeaves.allDelegs)) = [("pa", 0)] := by
      simp [sLastLeaves, paramsW, sortByAddr, validatorUpdates, valA]
    rw [this, ExtTreeMap.isEmpty_iff]
    apply ExtTreeMap.ext_getElem?
    intro k
    by_cases hk : "pa" = k <;> simp [sLastLeaves, asSet, applyUpdates, applyUpdate, valA, hk]
  · have h := updates_rejected_of_empty [valA]
    have e : validatorUpdates (sortByAddr sLastLeaves.lastVals) (sortByAddr (List.take sLastLeaves.active.maxValidatorCnt.toNat sLastLeaves.allDelegs))
        = validatorUpdates [valA] [] := by
      simp [sLastLeaves, sortByAddr]
    rw [e]
    exact h

/-- a delegatee left with total power 0 (all its stakes forfeited by slashing) -/
def valZ : Delegatee := { addr := "zz", pub := "pz", self := 0, total := 0 }

/-- a state in which `valZ` is eligible (possible only when `minValidatorStake < 1 RIGO`, i.e. `minPower = 0`)
    and not yet in the reported set -/
def sZeroPower : St := { active := paramsW, lastVals := [], allDelegs := [valZ] }

/-- **zero_power_announced_as_removal_witness**: a newly eligible delegatee with total power 0 is announced as
    `(pub, 0)`, which the engine reads as the removal of a validator it does not have, and rejects. -/
theorem zero_power_announced_as_removal_witness :
    ∃ s' ups, updateValidators sZeroPower = .ok (s', ups) ∧ ups = [("pz", 0)] ∧
      ¬ tmAccepts (asSet sZeroPower.lastVals) ups := by
  have hu : validatorUpdates (sortByAddr sZeroPower.lastVals)
      (sortByAddr (List.take sZeroPower.active.maxValidatorCnt.toNat sZeroPower.allDelegs)) = [("pz", 0)] := by
    simp [sZeroPower, paramsW, sortByAddr, validatorUpdates, valZ]
  refine ⟨_, _, rfl, hu, ?_⟩
  rw [hu]
  intro h
  have hm := h.2.2.1 ("pz", 0) (by simp) rfl
  simp [sZeroPower, asSet] at hm

/-! ### the genesis state -/

theorem initChain_lists (g : Genesis) : (initChain g).allDelegs = [] ∧ (initChain g).lastVals = [] ∧ (initChain g).active = g.params := by
  unfold initChain
  simp only
  have h := foldl_vl (fun (acc : St) (x : Hex × Hex × Int) =>
      { (acc.findOrNewAcct true x.2.1).1 with
        delegs := (acc.findOrNewAcct true x.2.1).1.delegs.set true (ledgerKey x.2.1)
          (({ addr := x.2.1, pub := x.1 } : Delegatee).addStake { owner := x.2.1, to := x.2.1, hash := zeroHash, power := x.2.2, start := 1 }) })
    (fun s x => findOrNewAcct_vl s true x.2.1) g.vals
    (g.holders.foldl (fun acc (x : Hex × Nat) => acc.setAcct true { addr := x.1, bal := x.2 })
      { chainId := g.chainId, active := g.params, params := ({} : Led Params).set true zeroHash g.params })
  have h2 := foldl_vl (fun (acc : St) (x : Hex × Nat) => acc.setAcct true { addr := x.1, bal := x.2 })
    (fun s x => setAcct_vl s true _) g.holders
    { chainId := g.chainId, active := g.params, params := ({} : Led Params).set true zeroHash g.params }
  have h3 := h.trans h2
  simp only [VL, Prod.mk.injEq] at h3
  exact ⟨h3.1, h3.2.1, h3.2.2⟩

theorem initChain_valsetOK (f : Hex → Hex) (g : Genesis) : ValsetOK f (initChain g) := by
  obtain ⟨h1, h2, _⟩ := initChain_lists g
  constructor
  · rw [h1]; exact List.Pairwise.nil
  · rw [h2]; exact List.Pairwise.nil
  · rw [h1]; intro d hd; cases hd
  · rw [h2]; intro d hd; cases hd
  · rw [h1]; intro d hd; cases hd

end Rigo.TM
