/-
  C05 — a failed transaction has no effect: helper lemmas.
-/
import RigoProofs.C04Nonce
open Std

namespace Rigo

/-! ### no wrap-around in the balance check under `FeeSane` -/

theorem fee_facts {s : St} {tx : TxIn} {sender : Account} (hF : FeeSane s)
    (h0 : commonValidation0 s true tx = .ok ()) (h1 : commonValidation1 sender tx = .ok ()) :
    isNeg256 tx.amount = false ∧ isNeg256 (wmul tx.price tx.gas) = false ∧
    wmul tx.price tx.gas = tx.price * tx.gas ∧
    tx.price * tx.gas + tx.amount ≤ sender.bal := by
  obtain ⟨_, _, ha, hg, _, hp, _, _⟩ := cv0_ok h0
  obtain ⟨hb, _⟩ := cv1_ok h1
  unfold FeeSane at hF
  rw [← hp] at hF
  obtain ⟨e1, e2⟩ := wmul_fee_lt hF hg
  have ha' := isNeg256_false.mp ha
  refine ⟨ha, isNeg256_false.mpr (by rw [e1]; exact e2), e1, ?_⟩
  rw [e1] at hb
  unfold wadd two256 at hb
  rw [Nat.mod_eq_of_lt (by have : (2:Nat) ^ 255 + 2 ^ 255 = 2 ^ 256 := by decide
                           omega)] at hb
  exact hb

/-- the fee step of a native transaction succeeds when the sender record can pay the fee -/
theorem feeStep_ok {s : St} {tx : TxIn} {a : Account} (ha : s.accts.fin[ledgerKey tx.from_]? = some a)
    (hn : isNeg256 (wmul tx.price tx.gas) = false) (hle : wmul tx.price tx.gas ≤ a.bal) :
    ∃ res, feeStep s true tx = .ok res := by
  unfold feeStep
  simp only [findAcct_true, ha, pure, Except.pure]
  rw [subBalance_eq_some hn hle]
  exact ⟨_, rfl⟩


theorem not_viaEvm_of_type {tx : TxIn} {recv : Account} (h1 : tx.type ≠ TRX_CONTRACT) (h2 : tx.type ≠ TRX_TRANSFER) :
    ¬ viaEvm tx recv := by
  unfold viaEvm; intro h
  rcases h with h | h
  · exact h1 h
  · exact h2 h.1

/-- `validate_ok_exec_ok`, staking: after a successful validation the execution cannot fail
    (so the limiter record made by the validation is never left behind by a failed transaction) -/
theorem staking_run_ok {s s1 : St} {ht : Int} {tx : TxIn} {sender recv : Account}
    (hA : AddrOK s.accts.fin) (hF : FeeSane s) (hs : s.accts.fin[ledgerKey tx.from_]? = some sender)
    (hB : sender.bal < 2 ^ 256)
    (h0 : commonValidation0 s true tx = .ok ()) (h1 : commonValidation1 sender tx = .ok ())
    (hty : tx.type = TRX_STAKING) (hv : validateStaking s true tx = .ok s1) :
    ∃ res, runTrx s1 true ht tx recv = .ok res := by
  obtain ⟨⟨l, hl⟩, ⟨pw, hpw⟩, hd⟩ := validateStaking_ok hv
  obtain ⟨na, nf, ef, hle⟩ := fee_facts hF h0 h1
  have hnv : ¬ viaEvm tx recv := not_viaEvm_of_type (by rw [hty]; decide) (by rw [hty]; decide)
  rw [runTrx_native hnv]
  have hk : ledgerKey sender.addr = ledgerKey tx.from_ := hA _ _ hs
  have hsub : subBalance sender tx.amount = some { sender with bal := wsub sender.bal tx.amount } :=
    subBalance_eq_some na (by omega)
  have hbal : wsub sender.bal tx.amount = sender.bal - tx.amount := by
    exact wsub_of_le hB (by omega)
  -- the body
  have hex : ∃ dl, execNative s1 true ht tx =
      .ok { st := { s1.setAcct true { sender with bal := wsub sender.bal tx.amount } with delegs := dl } } := by
    unfold execNative
    simp only [hty, (show ¬ TRX_STAKING = TRX_PROPOSAL by decide), (show ¬ TRX_STAKING = TRX_VOTING by decide),
      (show ¬ TRX_STAKING = TRX_TRANSFER by decide), (show ¬ TRX_STAKING = TRX_SETDOC by decide), if_false, if_true]
    unfold execStaking
    have hs1 : s1.accts.fin[ledgerKey tx.from_]? = some sender := by rw [hl]; exact hs
    have hd1 : s1.delegs = s.delegs := by rw [hl]
    simp only [bind, Except.bind, pure, Except.pure, findAcct_true, hs1, hsub, hpw, ofRes, hd1]
    cases hg : s.delegs.get true (ledgerKey tx.to) with
    | some d => exact ⟨_, rfl⟩
    | none =>
      rcases hd with hd | ⟨d, hd⟩
      · simp only [hd, if_true]; exact ⟨_, rfl⟩
      · rw [hg] at hd; simp at hd
  obtain ⟨dl, hex⟩ := hex
  rw [hex]
  simp only [Except.bind]
  simp only [Option.isSome_none, Bool.false_eq_true, if_false]
  apply feeStep_ok (a := { sender with bal := wsub sender.bal tx.amount })
  · simp only [setAcct_fin_get, hk, if_true]
  · exact nf
  · simp only; rw [hbal, ef]; omega


/-- `validate_ok_exec_ok`, unstaking -/
theorem unstaking_run_ok {s s1 : St} {ht : Int} {tx : TxIn} {sender recv : Account}
    (hF : FeeSane s) (hs : s.accts.fin[ledgerKey tx.from_]? = some sender)
    (h0 : commonValidation0 s true tx = .ok ()) (h1 : commonValidation1 sender tx = .ok ())
    (hty : tx.type = TRX_UNSTAKING) (hv : validateUnstaking s true tx = .ok s1) :
    ∃ res, runTrx s1 true ht tx recv = .ok res := by
  obtain ⟨⟨l, hl⟩, d, hash, st, hd, hp, hlen, hfs, hown⟩ := validateUnstaking_ok hv
  obtain ⟨na, nf, ef, hle⟩ := fee_facts hF h0 h1
  have hnv : ¬ viaEvm tx recv := not_viaEvm_of_type (by rw [hty]; decide) (by rw [hty]; decide)
  rw [runTrx_native hnv]
  have hex : ∃ dl fr, execNative s1 true ht tx = .ok { st := { s1 with delegs := dl, frozen := fr } } := by
    unfold execNative
    simp only [hty, (show ¬ TRX_UNSTAKING = TRX_PROPOSAL by decide), (show ¬ TRX_UNSTAKING = TRX_VOTING by decide),
      (show ¬ TRX_UNSTAKING = TRX_TRANSFER by decide), (show ¬ TRX_UNSTAKING = TRX_SETDOC by decide),
      (show ¬ TRX_UNSTAKING = TRX_STAKING by decide), if_false, if_true]
    unfold execUnstaking
    have hd1 : s1.delegs = s.delegs := by rw [hl]
    simp only [hd1, hd, hp, bind, Except.bind, pure, Except.pure, hlen, hfs, hown, ne_eq, not_true_eq_false, if_false]
    exact ⟨_, _, rfl⟩
  obtain ⟨dl, fr, hex⟩ := hex
  rw [hex]
  simp only [Except.bind]
  simp only [Option.isSome_none, Bool.false_eq_true, if_false]
  apply feeStep_ok (a := sender)
  · rw [hl]; exact hs
  · exact nf
  · rw [ef]; omega


/-! ### the observable state -/

/-- an account record no query can tell from an absent one (the account query answers a zero
    account for unknown keys) -/
def isEmptyAcct (a : Account) : Prop := a.nonce = 0 ∧ a.bal = 0 ∧ a.code = "" ∧ a.name = "" ∧ a.doc = ""

instance (a : Account) : Decidable (isEmptyAcct a) := by unfold isEmptyAcct; infer_instance

/-- the consensus account map with empty records identified with absent ones -/
def acctView (m : KMap Account) (k : String) : Option Account :=
  match m[k]? with
  | some a => if isEmptyAcct a then none else some a
  | none => none

/-- everything a later operation or query can observe: all of the state, with the consensus account
    map replaced by its `acctView` -/
structure Obs where
  chainId : Hex
  accts : String → Option Account       -- balances, nonces, names/documents, contract code markers
  acctsHist : List (KMap Account)
  acctsChk : KMap Account
  delegs : Led Delegatee                -- bonded stakes
  frozen : Led Stake                    -- unbonding stakes
  rewards : Led Reward
  params : Led Params
  props : Led Proposal                  -- proposals and votes
  fprops : Led Proposal
  active : Params
  pending : Option Params
  allDelegs : List Delegatee
  lastVals : List Delegatee
  limiter : Limiter
  blk : Option BlockCtx                 -- block context incl. the fee sum
  lastHeight : Int
  ghost : Ghost

def obs (s : St) : Obs :=
  { chainId := s.chainId, accts := acctView s.accts.fin, acctsHist := s.accts.hist, acctsChk := s.accts.chk,
    delegs := s.delegs, frozen := s.frozen, rewards := s.rewards, params := s.params, props := s.props,
    fprops := s.fprops, active := s.active, pending := s.pending, allDelegs := s.allDelegs, lastVals := s.lastVals,
    limiter := s.limiter, blk := s.blk, lastHeight := s.lastHeight, ghost := s.ghost }

theorem isEmptyAcct_emptyAcct (a : Hex) : isEmptyAcct (emptyAcct a) := by
  unfold isEmptyAcct emptyAcct; simp

theorem acctView_EmptyExt {m m' : KMap Account} (h : EmptyExt m m') : acctView m' = acctView m := by
  funext k
  unfold acctView
  rcases h k with e | ⟨n, a, _, e⟩
  · rw [e]
  · rw [e, n]; simp [isEmptyAcct_emptyAcct]

/-- two states that differ only by empty account records have the same observable state -/
theorem obs_eq_of_shape {s s' : St}
    (e : s' = { s with accts := { s.accts with fin := s'.accts.fin } }) (ee : EmptyExt s.accts.fin s'.accts.fin) :
    obs s' = obs s := by
  unfold obs
  rw [acctView_EmptyExt ee, e]

/-- the sender's balance fits 256 bits (true by type in the implementation; the model's balances are `Nat`s) -/
def SenderBalSane (s : St) (tx : TxIn) : Prop :=
  ∀ a, s.accts.fin[ledgerKey tx.from_]? = some a → a.bal < 2 ^ 256

theorem typeValidate_staking {s : St} {ht : Int} {tx : TxIn} {recv : Account} (hty : tx.type = TRX_STAKING) :
    typeValidate s true ht tx recv = validateStaking s true tx := by
  unfold typeValidate
  simp [hty, (show ¬ TRX_STAKING = TRX_PROPOSAL by decide), (show ¬ TRX_STAKING = TRX_VOTING by decide),
      (show ¬ TRX_STAKING = TRX_TRANSFER by decide), (show ¬ TRX_STAKING = TRX_SETDOC by decide)]

theorem typeValidate_unstaking {s : St} {ht : Int} {tx : TxIn} {recv : Account} (hty : tx.type = TRX_UNSTAKING) :
    typeValidate s true ht tx recv = validateUnstaking s true tx := by
  unfold typeValidate
  simp [hty, (show ¬ TRX_UNSTAKING = TRX_PROPOSAL by decide), (show ¬ TRX_UNSTAKING = TRX_VOTING by decide),
      (show ¬ TRX_UNSTAKING = TRX_TRANSFER by decide), (show ¬ TRX_UNSTAKING = TRX_SETDOC by decide),
      (show ¬ TRX_UNSTAKING = TRX_STAKING by decide)]

/-- a failed delivery does not leave a limiter record behind -/
theorem handleTx_fail_limiter {s : St} {h : Int} {tx : TxIn} (hA : AddrOK s.accts.fin) (hF : FeeSane s)
    (hB : SenderBalSane s tx) (hc : (handleTx s true h tx).2.code ≠ 0) :
    (handleTx s true h tx).1.limiter = s.limiter := by
  have f0 := FinFrame_findOrNew s tx.to
  have e0 := EmptyExt_findOrNew s tx.to
  have hl0 : (s.findOrNewAcct true tx.to).1.limiter = s.limiter := by unfold FinFrame at f0; rw [f0]
  rcases handleTx_fail_inv hc with e | e | ⟨sender, s1, hs, hv, hrun⟩
  · rw [e]
  · rw [e]; exact hl0
  · obtain ⟨h0, h1, htv⟩ := validateTrx_ok hv
    obtain ⟨_, hsame⟩ := typeValidate_state htv
    rw [findAcct_true] at hs
    have hs0 : (s.findOrNewAcct true tx.to).1.accts.fin[ledgerKey tx.from_]? = some sender := by
      rw [findOrNew_fin_get, hs]; simp
    have hF0 : FeeSane (s.findOrNewAcct true tx.to).1 := by
      unfold FeeSane at hF ⊢; unfold FinFrame at f0; rw [f0]; exact hF
    have hA0 := EmptyExt_AddrOK e0 hA
    rcases hrun with ⟨er, hr, es⟩ | ⟨s2, g, k, hr, es⟩
    · rw [es]
      by_cases hst : tx.type = TRX_STAKING
      · rw [typeValidate_staking hst] at htv
        obtain ⟨res, hres⟩ := staking_run_ok (ht := h) (recv := (s.findOrNewAcct true tx.to).2)
          hA0 hF0 hs0 (hB sender hs) h0 h1 hst htv
        rw [hres] at hr; simp at hr
      · by_cases hus : tx.type = TRX_UNSTAKING
        · rw [typeValidate_unstaking hus] at htv
          obtain ⟨res, hres⟩ := unstaking_run_ok (ht := h) (recv := (s.findOrNewAcct true tx.to).2)
            hF0 hs0 h0 h1 hus htv
          rw [hres] at hr; simp at hr
        · rw [hsame hst hus]; exact hl0
    · rw [es]
      by_cases hvia : viaEvm tx (s.findOrNewAcct true tx.to).2
      · have hst : tx.type ≠ TRX_STAKING := by
          rcases hvia with h | h
          · rw [h]; decide
          · rw [h.1]; decide
        have hus : tx.type ≠ TRX_UNSTAKING := by
          rcases hvia with h | h
          · rw [h]; decide
          · rw [h.1]; decide
        have e1 := hsame hst hus
        rw [runTrx_evm hvia] at hr
        cases hx : execEvm s1 true tx with
        | error e => rw [hx] at hr; simp [Except.bind] at hr
        | ok r =>
          rw [hx] at hr
          simp only [Except.bind] at hr
          split at hr
          · rename_i hfail
            simp at hr
            obtain ⟨o, ho, hcase⟩ := execEvm_inv hx
            rcases hcase with ⟨_, er⟩ | ⟨_, hnone, _⟩
            · obtain ⟨fA, _, _⟩ := evmAccessed_spec o.accessed s1
              rw [← hr.1, er]
              simp only
              unfold FinFrame at fA; rw [fA, e1]; exact hl0
            · rw [hnone] at hfail; simp at hfail
          · simp at hr
      · have := (runTrx_native_ok hvia hr).1
        simp at this

/-- C05 `failed_tx_noop` at the level of `handleTx` -/
theorem handleTx_fail_obs {s : St} {h : Int} {tx : TxIn} (hA : AddrOK s.accts.fin) (hF : FeeSane s)
    (hB : SenderBalSane s tx) (hc : (handleTx s true h tx).2.code ≠ 0) :
    obs (handleTx s true h tx).1 = obs s := by
  obtain ⟨l, e, ee⟩ := handleTx_fail_shape hc
  have hl := handleTx_fail_limiter hA hF hB hc
  apply obs_eq_of_shape _ ee
  have : l = s.limiter := by rw [e] at hl; exact hl
  rw [this] at e
  exact e


/-- the observable state without the stake limiter -/
def obsNoLimiter (s : St) : Obs := { obs s with limiter := {} }

/-- without any arithmetic hypothesis a failed delivery can at most leave a limiter record behind -/
theorem handleTx_fail_obsNoLimiter {s : St} {h : Int} {tx : TxIn} (hc : (handleTx s true h tx).2.code ≠ 0) :
    obsNoLimiter (handleTx s true h tx).1 = obsNoLimiter s := by
  obtain ⟨l, e, ee⟩ := handleTx_fail_shape hc
  unfold obsNoLimiter obs
  rw [acctView_EmptyExt ee, e]

/-- C05 `failed_tx_noop` for `deliverTx` -/
theorem deliverTx_fail_obs {s : St} {tx : TxIn} (hA : AddrOK s.accts.fin) (hF : FeeSane s)
    (hB : SenderBalSane s tx) (hf : ∀ o, (deliverTx s tx).2.tx = some o → o.code ≠ 0) :
    obs (deliverTx s tx).1 = obs s := by
  rcases deliverTx_fail_inv hf with e | ⟨b, _, hc, e⟩
  · rw [e]
  · rw [e]; exact handleTx_fail_obs hA hF hB hc

theorem deliverTx_fail_obsNoLimiter {s : St} {tx : TxIn} (hf : ∀ o, (deliverTx s tx).2.tx = some o → o.code ≠ 0) :
    obsNoLimiter (deliverTx s tx).1 = obsNoLimiter s := by
  rcases deliverTx_fail_inv hf with e | ⟨b, _, hc, e⟩
  · rw [e]
  · rw [e]; exact handleTx_fail_obsNoLimiter hc


/-! ### later transactions -/

theorem findOrNew_active (s : St) (a : Hex) : (s.findOrNewAcct true a).1.active = s.active := by
  have f := FinFrame_findOrNew s a
  unfold FinFrame at f; rw [f]

/-- The one read that tells an empty record from an absent one is the sender-existence check of
    `NewTrxContext`.  With a positive minimum fee it makes no difference to the outcome: a transaction
    from an address that has no record (before the failed transaction) or an empty record (after it)
    fails in both states. -/
theorem later_from_fresh_fails {s s' : St} {h : Int} {later : TxIn} {x : Hex}
    (hs : s.accts.fin[ledgerKey later.from_]? = none)
    (he : s'.accts.fin[ledgerKey later.from_]? = some (emptyAcct x))
    (hF : FeeSane s') (hm : 0 < s'.active.minTrxFee) :
    (handleTx s true h later).2.code ≠ 0 ∧ (handleTx s' true h later).2.code ≠ 0 := by
  constructor
  · intro hc
    obtain ⟨_, sender, _, _, _, hf, _⟩ := handleTx_ok_inv hc
    rw [findAcct_true, hs] at hf; simp at hf
  · intro hc
    obtain ⟨_, sender, s1, s2, g, hf, hv, _, _⟩ := handleTx_ok_inv hc
    rw [findAcct_true, he] at hf
    simp at hf; subst hf
    obtain ⟨h0, h1, _⟩ := validateTrx_ok hv
    have hF0 : FeeSane (s'.findOrNewAcct true later.to).1 := by
      unfold FeeSane at hF ⊢; rw [findOrNew_active]; exact hF
    obtain ⟨_, _, ef, hle⟩ := fee_facts hF0 h0 h1
    obtain ⟨_, _, _, _, _, _, hmin, _⟩ := cv0_ok h0
    rw [findOrNew_active, ef] at hmin
    have : (emptyAcct x).bal = 0 := rfl
    omega

end Rigo
