/-
  Round 3, `GovCtrler.doPunish` (ctrlers/gov/ctrler.go) against the model's `Rigo.govPunish` (Rigo/Block.lean).

  First loop: the keys (`prop.Key()`) of the committed proposals that list the validator as a voter; the
  model collects the MAP keys of those proposals: equal under `PropKeysOK` (every committed proposal is
  stored under its own key).  Second loop: `GetFinality`, `DoPunish`, `SetFinality` per key, mirror
  `govPunishL`, against the model's fold (`govPunishStep`).

  Hypotheses of `GovCtrler_doPunish_eq`: `PropKeysOK`, `PunishTargetsPresent` (the Go code dereferences
  the nil result of `GetFinality`, the model skips the key: `GovCtrler_doPunish_differs`),
  `PunishTargetsOK` (the proposal in the consensus view is stored under its own key — Go writes back
  under `prop.Key()`, the model under the key read: `GovCtrler_doPunish_differs_key` — and the
  hypotheses of `GovProposal_DoPunish_eq`).
-/
import RigoProofs.GenFuncsCtrlBase
import RigoProofs.GenFuncsGovMisc
import RigoProofs.GenFuncsGovPunish

set_option linter.unusedSimpArgs false

namespace Rigo.GenEq
open Rigo Rigo.Gen

/-- the ledger invariant "every committed item is stored under its own key" (`SetFinality(prop)` always
    stores under `prop.Key()`, so every reachable ledger satisfies it); the Go code works with
    `prop.Key()`, the model with the key of the map entry -/
def PropKeysOK (l : Led Proposal) : Prop := ∀ kp ∈ l.committed.toList, kp.1 = ledgerKey kp.2.hash

instance (l : Led Proposal) : Decidable (PropKeysOK l) := by unfold PropKeysOK; infer_instance

theorem govBlk_doVote_hash (p : Proposal) (a : Hex) (c : Int) : (p.doVote a c).hash = p.hash := by
  unfold Proposal.doVote; split <;> rfl

theorem govBlk_doPunish_hash (p : Proposal) (a : Hex) (r : Int) : (p.doPunish a r).1.hash = p.hash := by
  unfold Proposal.doPunish
  split
  · rfl
  · dsimp only
    split <;> split <;> (try split) <;> simp [govBlk_doVote_hash]

/-- the inner loop of the first loop of `doPunish`: is `addr` among the voters -/
theorem govPunish_inner (m : GMap Voter) (addr : Hex) (g : GovProposal) (ks : List String) :
    (forIn m ks fun (e : String × Voter) (r : List String) =>
        if cmpBytes e.snd.addr addr = 0 then do
          let x ← GovProposal_Key g
          pure (ForInStep.done (r ++ [x]))
        else pure (ForInStep.yield r)) =
      (pure (if m.any (fun e => e.2.addr == addr) then ks ++ [ledgerKey g.header.hash] else ks) : G _) := by
  induction m with
  | nil => simp
  | cons e m ih =>
    rw [List.forIn_cons]
    by_cases c : e.2.addr = addr
    · simp [c, cmpBytes_eq_zero, GovProposal_Key, bind, Except.bind, pure, Except.pure]
    · have hc : ¬ cmpBytes e.2.addr addr = 0 := by rw [cmpBytes_eq_zero]; exact c
      rw [if_neg hc]
      simp only [pure_bind]
      rw [ih]
      have hb : (e.snd.addr == addr) = false := by simp [c]
      rw [List.any_cons, hb, Bool.false_or]

/-- the first loop of `doPunish`: the keys of the items that list `addr` as a voter -/
theorem govPunish_keys_loop (addr : Hex) (gs : List GovProposal) (ks : List String) :
    (forIn gs ks fun (prop : GovProposal) (r : List String) => do
        let r' ← (pure (if (List.any prop.header.voters fun e => e.snd.addr == addr) = true then
                    r ++ [ledgerKey prop.header.hash] else r) : G (List String))
        pure (ForInStep.yield r')) =
      (pure (ks ++ (gs.filter fun g => g.header.voters.any fun e => e.snd.addr == addr).map
                    fun g => ledgerKey g.header.hash) : G _) := by
  rw [forIn_eq_pure _ (fun (gs : List GovProposal) (ks : List String) =>
      ks ++ (gs.filter fun g => g.header.voters.any fun e => e.snd.addr == addr).map fun g => ledgerKey g.header.hash)]
  · intro s; simp
  · intro x xs s
    by_cases c : (List.any x.header.voters fun e => e.snd.addr == addr) = true
    · simp [c, List.filter_cons, bind, Except.bind, pure, Except.pure]
    · simp [c, List.filter_cons, bind, Except.bind, pure, Except.pure]

theorem govBlk_propOf_any_voter (p : Proposal) (addr : Hex) :
    ((propOf p).header.voters.any fun e => e.snd.addr == addr) = p.voters.any (·.addr == addr) := by
  simp [propOf, votersOf, List.any_map, Function.comp_def]

/-- under `PropKeysOK` the keys the Go code collects (`prop.Key()`) are the map keys the model collects -/
theorem govPunish_targets (l : List (String × Proposal)) (addr : Hex)
    (hk : ∀ kp ∈ l, kp.1 = ledgerKey kp.2.hash) :
    ((l.map fun kv => propOf kv.2).filter fun g => g.header.voters.any fun e => e.snd.addr == addr).map
        (fun g => ledgerKey g.header.hash) =
      (l.filter fun (_, p) => p.voters.any (·.addr == addr)).map (·.1) := by
  induction l with
  | nil => rfl
  | cons kp l ih =>
    have h1 := hk kp (by simp)
    have ih' := ih (fun kp' h => hk kp' (by simp [h]))
    obtain ⟨k, p⟩ := kp
    simp only [List.map_cons, List.filter_cons, govBlk_propOf_any_voter]
    by_cases c : p.voters.any (·.addr == addr) = true
    · simp only [c, if_true, List.map_cons, ih']
      simp only at h1
      rw [h1]; rfl
    · simp only [c, Bool.false_eq_true, if_false, ih']

/-- mirror of the second loop of `doPunish` -/
def govPunishL (addr : Hex) : List String → GovCtrler × Int → G (GovCtrler × Int)
  | [], s => pure s
  | k :: ks, s =>
    match s.1.proposalLedger.get true k with
    | none => throw "nil pointer dereference"
    | some g =>
      match GovProposal_DoPunish g addr s.1.params.slashRatio with
      | .error e => .error e
      | .ok r => govPunishL addr ks ({ s.1 with proposalLedger := s.1.proposalLedger.set true (ledgerKey r.1.header.hash) r.1 }, s.2 + r.2.1)

/-- one step of the model's fold in `govPunish` -/
def govPunishStep (addr : Hex) : St × Int → String → St × Int := fun (acc, sum) k =>
    match acc.props.get true k with
    | none => (acc, sum)
    | some p =>
      let (p', sl) := p.doPunish addr acc.active.slashRatio
      ({ acc with props := acc.props.set true k p' }, sum + sl)

theorem govPunish_fold (s : St) (addr : Hex) :
    govPunish s addr =
      ((s.props.committed.toList.filter fun (_, p) => p.voters.any (·.addr == addr)).map (·.1)).foldl
        (govPunishStep addr) (s, 0) := rfl

/-- what the second loop needs of a target key: the consensus view holds a proposal under it, that
    proposal is stored under its own key, and `GovProposal_DoPunish_eq` applies to it -/
def PunishTargetOK (acc : St) (addr : Hex) (k : String) : Prop :=
  ∃ p, acc.props.get true k = some p ∧ ledgerKey p.hash = k ∧ VotersDistinct p.voters ∧ ChoicesOK p ∧
    SlashFits p addr acc.active.slashRatio

theorem govPunishL_eq (addr : Hex) (ks : List String) (hnd : ks.Nodup) (acc : St) (sum : Int)
    (h : ∀ k ∈ ks, PunishTargetOK acc addr k) :
    govPunishL addr ks (govCtrlOf acc, sum) =
      pure (govCtrlOf (ks.foldl (govPunishStep addr) (acc, sum)).1, (ks.foldl (govPunishStep addr) (acc, sum)).2) := by
  induction ks generalizing acc sum with
  | nil => rfl
  | cons k ks ih =>
    obtain ⟨p, hget, hkey, hd, hc, hs⟩ := h k (by simp)
    have hnd' := List.nodup_cons.mp hnd
    have hstep : govPunishStep addr (acc, sum) k =
        ({ acc with props := acc.props.set true k (p.doPunish addr acc.active.slashRatio).1 },
          sum + (p.doPunish addr acc.active.slashRatio).2) := by
      simp only [govPunishStep, hget]
    have hgo : (govCtrlOf acc).proposalLedger.get true k = some (propOf p) := by
      simp [govCtrlOf, hget]
    have hpar : (govCtrlOf acc).params.slashRatio = acc.active.slashRatio := rfl
    rw [List.foldl_cons, hstep]
    simp only [govPunishL, hgo, hpar, GovProposal_DoPunish_eq p addr _ hd hc hs]
    have hk2 : ledgerKey (propOf (p.doPunish addr acc.active.slashRatio).1).header.hash = k := by
      show ledgerKey (p.doPunish addr acc.active.slashRatio).1.hash = k
      rw [govBlk_doPunish_hash, hkey]
    rw [hk2]
    have hc' : ({ govCtrlOf acc with
          proposalLedger := (govCtrlOf acc).proposalLedger.set true k (propOf (p.doPunish addr acc.active.slashRatio).1) } : GovCtrler) =
        govCtrlOf { acc with props := acc.props.set true k (p.doPunish addr acc.active.slashRatio).1 } := by
      simp only [govCtrlOf, ledOf_set]
    rw [hc']
    apply ih hnd'.2
    intro k' hk'
    obtain ⟨p', hget', rest⟩ := h k' (by simp [hk'])
    refine ⟨p', ?_, rest⟩
    have hne : k' ≠ k := fun e => hnd'.1 (e ▸ hk')
    simp only [Led.get_set, hne, and_false, if_false, hget']

/-- the keys of `toList` are pairwise different -/
theorem govBlk_keys_nodup {α : Type} (m : KMap α) : (m.toList.map (·.1)).Nodup := by
  have h := Std.ExtTreeMap.distinct_keys_toList (t := m)
  rw [List.Nodup, List.pairwise_map]
  refine List.Pairwise.imp ?_ h
  intro a b hab e
  apply hab
  rw [e]
  exact Std.ReflCmp.compare_self

/-- the model's target keys: committed proposals that list `addr` as a voter -/
def govPunishTargets (s : St) (addr : Hex) : List String :=
  (s.props.committed.toList.filter fun (_, p) => p.voters.any (·.addr == addr)).map (·.1)

theorem govPunishTargets_nodup (s : St) (addr : Hex) : (govPunishTargets s addr).Nodup :=
  List.Nodup.sublist (List.Sublist.map _ List.filter_sublist) (govBlk_keys_nodup s.props.committed)

/-- every target key is present in the consensus view (the Go code dereferences the result of
    `GetFinality` without a nil check; the model skips a missing key) -/
def PunishTargetsPresent (s : St) (addr : Hex) : Prop :=
  ∀ k ∈ govPunishTargets s addr, (s.props.get true k).isSome

instance (s : St) (addr : Hex) : Decidable (PunishTargetsPresent s addr) := by unfold PunishTargetsPresent; infer_instance

/-- the proposals met in the consensus view under the target keys are stored under their own key
    (Go writes back under `prop.Key()`, the model under the key it read) and satisfy the
    hypotheses of `GovProposal_DoPunish_eq` -/
def PunishTargetsOK (s : St) (addr : Hex) : Prop :=
  ∀ k ∈ govPunishTargets s addr, ∀ p, s.props.get true k = some p →
    ledgerKey p.hash = k ∧ VotersDistinct p.voters ∧ ChoicesOK p ∧ SlashFits p addr s.active.slashRatio

instance (s : St) (addr : Hex) : Decidable (PunishTargetsOK s addr) := by unfold PunishTargetsOK; infer_instance

theorem GovCtrler_doPunish_eq (s : St) (evi : Evidence)
    (hk : PropKeysOK s.props) (hp : PunishTargetsPresent s evi.validator.fst) (ho : PunishTargetsOK s evi.validator.fst) :
    GovCtrler_doPunish (govCtrlOf s) evi =
      .ok (govCtrlOf (govPunish s evi.validator.fst).1, (govPunish s evi.validator.fst).2, none) := by
  unfold GovCtrler_doPunish
  dsimp only
  generalize evi.validator.fst = addr at *
  simp only [govPunish_inner, govPunish_keys_loop]
  simp only [pure_bind, List.nil_append]
  rw [forIn_eq _ (govPunishL addr) (fun _ => rfl)]
  · have ht : (List.map (fun g => ledgerKey g.header.hash)
              (List.filter (fun g => List.any g.header.voters fun e => e.snd.addr == addr)
                (govCtrlOf s).proposalLedger.items)) = govPunishTargets s addr :=
      govPunish_targets s.props.committed.toList addr hk
    rw [ht, govPunishL_eq addr _ (govPunishTargets_nodup s addr) s 0]
    · rw [govPunish_fold]; rfl
    · intro k hkm
      cases hg : s.props.get true k with
      | none => have := hp k hkm; rw [hg] at this; cases this
      | some p => exact ⟨p, hg, ho k hkm p hg⟩
  · intro x xs ⟨c, sum⟩
    simp only [govPunishL]
    cases hg : c.proposalLedger.get true x with
    | none => simp [gderef, bind, Except.bind, throw, throwThe, MonadExceptOf.throw]
    | some g =>
      simp only [gderef, GovParams_SlashRatio, GovProposal_Key, hexArray32_eq, bind, Except.bind, pure, Except.pure]
      cases hr : GovProposal_DoPunish g addr c.params.slashRatio with
      | error e => rfl
      | ok r => rfl

/-! ### examples -/

/-- a panic, as a test that evaluates -/
def govBlk_isError {α : Type} : G α → Bool
  | .error _ => true
  | .ok _ => false

theorem govBlk_panics_of_isError {α : Type} (x : G α) (h : govBlk_isError x = true) : G.panics x := by
  cases x with
  | error e => exact ⟨e, rfl⟩
  | ok a => cases h

/-- a second open proposal, which does not list "aa" -/
def exGovProposal2 : Proposal :=
  { hash := "h2", start := 1, end_ := 10, applying := 20, total := 20, majority := 13, optType := 0,
    voters := [{ addr := "bb", power := 20, choice := -1 }],
    options := [{ raw := "01", parsedV := none, parsedA := none, votes := 0 }] }

def exGovProps : KMap Proposal :=
  (({} : KMap Proposal).insert (ledgerKey "h") exProposal).insert (ledgerKey "h2") exGovProposal2

/-- a state with two committed open proposals (slash ratio 50) -/
def exGovSt : St :=
  { props := { hist := [exGovProps], fin := exGovProps, chk := exGovProps },
    active := { (default : Params) with slashRatio := 50 } }

/-- the hypotheses of `GovCtrler_doPunish_eq` are satisfiable -/
example : PropKeysOK exGovSt.props ∧ PunishTargetsPresent exGovSt "aa" ∧ PunishTargetsOK exGovSt "aa" ∧
    govPunishTargets exGovSt "aa" = [ledgerKey "h"] := by decide

/-- and the result is what one expects: 5 of the 10 are slashed in the proposal that lists "aa" -/
example : (govPunish exGovSt "aa").2 = 5 ∧
    (govPunish exGovSt "aa").1.props.get true (ledgerKey "h") = some { exProposal with
      total := 25, majority := 16
      voters := [{ addr := "aa", power := 5, choice := 0 }, { addr := "bb", power := 20, choice := -1 }]
      options := [{ raw := "01", parsedV := none, parsedA := none, votes := 5 },
                  { raw := "02", parsedV := none, parsedA := none, votes := 0 }] } ∧
    (govPunish exGovSt "aa").1.props.get true (ledgerKey "h2") = some exGovProposal2 := by decide

/-- the same committed proposals, but the consensus view has lost them -/
def exGovStGone : St := { exGovSt with props := { hist := [exGovProps], fin := {}, chk := {} } }

/-- DIFFERENCE (needs `PunishTargetsPresent`): a committed proposal lists the validator but is gone from the
    consensus view: the Go code dereferences the nil result of `GetFinality` (panic), the model skips the key. -/
theorem GovCtrler_doPunish_differs : ∃ s evi, PropKeysOK s.props ∧ ¬ PunishTargetsPresent s evi.validator.fst ∧
    G.panics (GovCtrler_doPunish (govCtrlOf s) evi) ∧ (govPunish s evi.validator.fst).2 = 0 :=
  ⟨exGovStGone, { validator := ("aa", 10), height := 3 }, by decide, by decide,
    govBlk_panics_of_isError _ (by decide), by decide⟩

/-- a test on a successful result, as a Boolean that evaluates -/
def govBlk_okAnd {α : Type} (x : G α) (f : α → Bool) : Bool :=
  match x with
  | .ok a => f a
  | .error _ => false

/-- the consensus view holds, under the key of "h", a proposal whose own hash is "zz" -/
def exGovStKey : St :=
  { exGovSt with props := { hist := [exGovProps], chk := exGovProps,
                            fin := exGovProps.insert (ledgerKey "h") { exProposal with hash := "zz" } } }

/-- DIFFERENCE (needs the key part of `PunishTargetsOK`): the proposal read from the consensus view under key
    `k` is not stored under its own key: the Go code writes the punished proposal back under
    `prop.Key()` (a new entry under the key of "zz"), the model under `k`. -/
theorem GovCtrler_doPunish_differs_key : ∃ s evi k2, PropKeysOK s.props ∧ PunishTargetsPresent s evi.validator.fst ∧
    ¬ PunishTargetsOK s evi.validator.fst ∧
    govBlk_okAnd (GovCtrler_doPunish (govCtrlOf s) evi) (fun r => (r.1.proposalLedger.get true k2).isSome) = true ∧
    (govCtrlOf (govPunish s evi.validator.fst).1).proposalLedger.get true k2 = none :=
  ⟨exGovStKey, { validator := ("aa", 10), height := 3 }, ledgerKey "zz", by decide, by decide, by decide,
    by decide, by decide⟩

end Rigo.GenEq
