/-
  C13 — the Tendermint pipeline: `votes_match_ledger` proved from the model and an explicit model of how Tendermint
  feeds an ABCI application (`TMFaithful`).  Umbrella module.

    C13PipelineDefs      trusted definitions (`endUpdates`, `tmValset`, `VotesOf`, `TMFaithful`, `NoPanic`,
                         `GenesisCovered`) and list lemmas
    C13PipelineHeights   the k-th block of a panic-free well-phased run is block k
    C13PipelineStep      one block: what EndBlock reports = selection from the version committed by the previous block
    C13PipelineMain      `pipeline_at`, `valset_in_force`, `votes_match_ledger`, `ledger_match_votes`
    C13PipelineRewards   `signers_all_rewarded`, `votes_early_heights`
    C13PipelineConcrete  tools for concrete runs
    C13PipelineEx*       non-vacuity: a seven-block run with two validators and a delegation
    C13PipelineNotes     why `GenesisCovered` is needed
-/
import RigoProofs.C13PipelineRewards
import RigoProofs.C13PipelineEx
import RigoProofs.C13PipelineNotes
