/-
  C05 — congruence pass, part 4: `handleTx` on the DeliverTx path cut into stages, and the congruence
  `handleTx_congr` for two states that differ only by empty account records.
-/
import RigoProofs.C05CongrEvm
open Std
set_option linter.unusedSimpArgs false
set_option linter.unusedVariables false
namespace Rigo.C05C
open Rigo

/-! ### `handleTx` on the DeliverTx path, cut into stages -/

/-- the answer of `handleTx` once the transaction body has run -/
def hFinish (sv : St) (gasW : Nat) : Step (St × Nat × Option String) → St × TxOut
  | .error (.err k) => (sv, { code := 5, kind := k })
  | .error (.panic site) => (sv, { code := 5, kind := "panic", panic := site })
  | .ok (s2, _, some k) => (s2, { code := 5, kind := k })
  | .ok (s2, g, none) => (s2, { code := 0, kind := "ok", gasUsed := g, gasWanted := gasW })

/-- the answer of `handleTx` once validation has run -/
def hValidated (s0 : St) (h : Int) (t : TxIn) (recv : Account) : Step St → St × TxOut
  | .error (.err k) => (s0, { code := 5, kind := k })
  | .error (.panic site) => (s0, { code := 5, kind := "panic", panic := site })
  | .ok sv => hFinish sv t.gas (runTrx sv true h t recv)

theorem handleTxOld_eq (s : St) (h : Int) (t : TxIn) :
    handleTxOld s true h t =
      if t.decodable = false then (s, { code := 5, kind := "decode" }) else
      match s.accts.fin[ledgerKey t.from_]? with
      | none => (s, { code := 5, kind := "noacct" })
      | some sender =>
        hValidated (s.findOrNewAcct true t.to).1 h t (s.findOrNewAcct true t.to).2
          (validateTrx (s.findOrNewAcct true t.to).1 true h t sender (s.findOrNewAcct true t.to).2) := by
  unfold handleTxOld
  simp only [findAcct_true]
  cases hd : t.decodable with
  | false => simp
  | true =>
    simp only [Bool.not_true, Bool.false_eq_true, if_false, if_true]
    cases hs : s.accts.fin[ledgerKey t.from_]? with
    | none => rfl
    | some sender =>
      simp only [Bool.true_eq_false, if_false]
      unfold hValidated
      cases validateTrx (s.findOrNewAcct true t.to).1 true h t sender (s.findOrNewAcct true t.to).2 with
      | error e => cases e <;> rfl
      | ok sv =>
        simp only
        unfold hFinish
        cases runTrx sv true h t (s.findOrNewAcct true t.to).2 with
        | error e => cases e <;> rfl
        | ok p =>
          obtain ⟨x, g, k⟩ := p
          cases k <;> rfl


/-- the staged form holds for a 20-byte receiver (any other receiver fails validation with the state
    unchanged, `handleTx_badlen`) -/
theorem handleTx_eq (s : St) (h : Int) (t : TxIn) (hl : byteLen t.to = 20) :
    handleTx s true h t =
      if t.decodable = false then (s, { code := 5, kind := "decode" }) else
      match s.accts.fin[ledgerKey t.from_]? with
      | none => (s, { code := 5, kind := "noacct" })
      | some sender =>
        hValidated (s.findOrNewAcct true t.to).1 h t (s.findOrNewAcct true t.to).2
          (validateTrx (s.findOrNewAcct true t.to).1 true h t sender (s.findOrNewAcct true t.to).2) := by
  rw [handleTx_goodlen hl]; exact handleTxOld_eq s h t

/-! ### the congruence -/

abbrev PTrue : Hex → Prop := fun _ => True

/-- two answers of `handleTx`: same code, same gas on success, states equal up to empty records -/
def ResRel (p1 p2 : St × TxOut) : Prop :=
  p2.2.code = p1.2.code ∧ (p1.2.code = 0 → p2.2.gasUsed = p1.2.gasUsed) ∧ Sim PTrue p1.1 p2.1

theorem Sim.top {P : Hex → Prop} {t t' : St} (h : Sim P t t') : Sim PTrue t t' := h.mono (fun _ _ => trivial)

theorem emptyExt_toP {m m' : KMap Account} (h : EmptyExt m m') : EmptyExtP PTrue m m' := by
  intro k
  rcases h k with e | ⟨n, a, ka, e⟩
  · exact Or.inl e
  · exact Or.inr ⟨n, a, trivial, ka, e⟩

theorem hFinish_rel {P : Hex → Prop} {sv sv' : St} {g : Nat} {r r' : Step (St × Nat × Option String)}
    (hS : Sim P sv sv') (hr : RunRel P r r') : ResRel (hFinish sv g r) (hFinish sv' g r') := by
  cases r with
  | error e =>
    cases r' with
    | error e' => cases e <;> cases e' <;> exact ⟨rfl, (fun h => by simp [hFinish] at h), hS.top⟩
    | ok p' => obtain ⟨x', g', k'⟩ := p'; simp [RunRel] at hr
  | ok p =>
    obtain ⟨x, g0, k⟩ := p
    cases r' with
    | error e' => simp [RunRel] at hr
    | ok p' =>
      obtain ⟨x', g', k'⟩ := p'
      simp only [RunRel] at hr
      obtain ⟨rfl, rfl, hx⟩ := hr
      cases k' with
      | none => exact ⟨rfl, fun _ => rfl, hx.top⟩
      | some k => exact ⟨rfl, (fun h => by simp [hFinish] at h), hx.top⟩

theorem hValidated_rel {P : Hex → Prop} {s0 s0' : St} {h : Int} {t : TxIn} (sender recv : Account)
    (hS0 : Sim P s0 s0') (hf : s0.accts.fin[ledgerKey t.from_]? ≠ none) (hto : s0.accts.fin[ledgerKey t.to]? ≠ none)
    (hO : OracleCompat P t) (hC : CreatedOK P t) :
    ResRel (hValidated s0 h t recv (validateTrx s0 true h t sender recv))
      (hValidated s0' h t recv (validateTrx s0' true h t sender recv)) := by
  have hS := hS0
  obtain ⟨e0, hE0⟩ := hS0
  generalize s0'.accts.fin = m' at e0 hE0
  subst e0
  cases hv : validateTrx s0 true h t sender recv with
  | error e =>
    cases hv' : validateTrx (withFin s0 m') true h t sender recv with
    | error e' => cases e <;> cases e' <;> exact ⟨rfl, (fun h => by simp [hValidated] at h), hS.top⟩
    | ok sv' =>
      exfalso
      have := validateTrx_withFin (m' := s0.accts.fin) hv'
      have h2 : validateTrx s0 true h t sender recv = _ := this
      rw [hv] at h2; simp at h2
  | ok sv =>
    have hv0 : validateTrx (withFin s0 s0.accts.fin) true h t sender recv = .ok sv := hv
    have hv' := validateTrx_withFin (m' := m') hv0
    rw [hv']
    simp only [hValidated]
    obtain ⟨_, _, htv⟩ := validateTrx_ok hv
    obtain ⟨⟨l, hl⟩, _⟩ := typeValidate_state htv
    have hfin : sv.accts.fin = s0.accts.fin := by rw [hl]
    have hSv : Sim P sv (withFin sv m') := ⟨rfl, by rw [hfin]; exact hE0⟩
    exact hFinish_rel hSv (runTrx_rel hSv (by rw [hfin]; exact hf) (by rw [hfin]; exact hto) hO hC)

/-- **The congruence.**  Two states that differ only by empty account records (of addresses that do not
    collide with the addresses the transaction touches) answer a delivery with the same code, the
    same gas on success, and end in states that again differ only by empty account records. -/
theorem handleTx_congr {P : Hex → Prop} {s1 s2 : St} (hS : Sim P s1 s2) (hF : FeeSane s1)
    (hm : 0 < s1.active.minTrxFee) (h : Int) (t : TxIn) (hto : Compat P t.to)
    (hO : OracleCompat P t) (hC : CreatedOK P t) :
    ResRel (handleTx s1 true h t) (handleTx s2 true h t) := by
  by_cases hl : byteLen t.to = 20
  case neg =>
    obtain ⟨k1, e1⟩ := handleTx_badlen (s := s1) (exec := true) (h := h) hl
    obtain ⟨k2, e2⟩ := handleTx_badlen (s := s2) (exec := true) (h := h) hl
    rw [e1, e2]
    exact ⟨rfl, (fun h => by simp at h), hS.top⟩
  rw [handleTx_eq _ _ _ hl, handleTx_eq _ _ _ hl]
  by_cases hd : t.decodable = false
  · simp only [hd, if_true]; exact ⟨rfl, (fun h => by simp at h), hS.top⟩
  simp only [hd, if_false]
  rcases hS.2 (ledgerKey t.from_) with e | ⟨n, x, px, kx, e⟩
  · rw [e]
    cases hs : s1.accts.fin[ledgerKey t.from_]? with
    | none => exact ⟨rfl, (fun h => by simp at h), hS.top⟩
    | some sender =>
      simp only
      obtain ⟨hS0, hrecv⟩ := hS.findOrNew hto
      rw [hrecv]
      exact hValidated_rel sender _ hS0 (present_findOrNew _ (by rw [hs]; simp)) (present_findOrNew_self _ _) hO hC
  · rw [n, e]
    simp only
    have e2 := hS.1
    have hact : (s2.findOrNewAcct true t.to).1.active = s1.active := by rw [findOrNew_active, e2]; rfl
    have hF0 : FeeSane (s2.findOrNewAcct true t.to).1 := by unfold FeeSane at hF ⊢; rw [hact]; exact hF
    have hS2 : Sim PTrue s1 (s2.findOrNewAcct true t.to).1 := by
      constructor
      · have f := FinFrame_findOrNew s2 t.to
        unfold FinFrame at f
        rw [f, e2]; rfl
      · exact (hS.2.mono (fun _ _ => trivial)).trans (emptyExt_toP (EmptyExt_findOrNew s2 t.to))
    cases hv : validateTrx (s2.findOrNewAcct true t.to).1 true h t (emptyAcct x) (s2.findOrNewAcct true t.to).2 with
    | error er => cases er <;> exact ⟨rfl, (fun h => by simp at h), hS2⟩
    | ok sv =>
      exfalso
      obtain ⟨h0, h1, _⟩ := validateTrx_ok hv
      obtain ⟨_, _, ef, hle⟩ := fee_facts hF0 h0 h1
      obtain ⟨_, _, _, _, _, _, hmin, _⟩ := cv0_ok h0
      rw [hact, ef] at hmin
      have : (emptyAcct x).bal = 0 := rfl
      omega

end Rigo.C05C
