/-
  C14 — jailing in `processVote` (the per-vote part of `StakeCtrler.BeginBlock`).
-/
import RigoProofs.C14Window
import RigoProofs.C10Tm
open Std

namespace Rigo.C14L

open Delegatee

/-- lower end of the signing window the code uses at block `H`: `max 0 (H − 1 − window)` -/
def winLo (H window : Int) : Int := if H - 1 - window < 0 then 0 else H - 1 - window

/-- the state after the missed block `H − 1` was recorded for delegatee `d` (marks pruned) -/
def markedState (s : St) (H : Int) (d : Delegatee) : St :=
  let marked := mark d.notSigned (H - 1)
  let d1 := { d with notSigned := (countInWindow marked (winLo H s.active.signedBlocksWindow) (H - 1)).2 }
  { s with delegs := s.delegs.set true (ledgerKey d.addr) d1 }

/-- the state after `d` was jailed at block `H`: every stake frozen, delegatee deleted -/
def jailedState (s : St) (H : Int) (d : Delegatee) : St :=
  let s1 := markedState s H d
  { s1 with frozen := freezeAll s1.frozen true d.stakes (H + s.active.lazyRewardBlocks),
            delegs := s1.delegs.del true (ledgerKey d.addr) }

/-- missed blocks the code counts for `d` at block `H`: marked heights in `[max 0 (H−1−window), H−1]`
    after marking `H − 1` (the window is inclusive at both ends: `window + 1` heights) -/
def missedCount (s : St) (H : Int) (d : Delegatee) : Nat :=
  winCount (mark d.notSigned (H - 1)) (winLo H s.active.signedBlocksWindow) (H - 1)

/-- the jailing condition -/
def JailCond (s : St) (H : Int) (d : Delegatee) : Prop :=
  s.active.signedBlocksWindow - (missedCount s H d : Int) < s.active.minSignedBlocks

instance (s : St) (H : Int) (d : Delegatee) : Decidable (JailCond s H d) := by unfold JailCond; infer_instance

/-- `processVote` on a vote that did not sign, for a validator known to the stake ledger -/
theorem processVote_unsigned (s : St) (H : Int) (rl : KMap Delegatee) (v : VoteIn) (issued : Nat) (d : Delegatee)
    (hs : v.signed = false) (hd : s.delegs.get true (ledgerKey v.addr) = some d) (hinc : Increasing d.notSigned) :
    processVote s H rl v issued =
      .ok (if JailCond s H d then jailedState s H d else markedState s H d, issued) := by
  have hc := countInWindow_count (mark d.notSigned (H - 1)) (mark_increasing hinc _)
    (winLo H s.active.signedBlocksWindow) (H - 1)
  unfold processVote
  simp only [hs, Bool.false_eq_true, if_false, hd]
  by_cases hj : JailCond s H d
  · rw [if_pos hj]
    unfold JailCond missedCount at hj
    rw [← hc] at hj
    unfold winLo at hj
    rw [if_pos hj]
    rfl
  · rw [if_neg hj]
    unfold JailCond missedCount at hj
    rw [← hc] at hj
    unfold winLo at hj
    rw [if_neg hj]
    rfl

/-- unknown validators and … are skipped -/
theorem processVote_unknown (s : St) (H : Int) (rl : KMap Delegatee) (v : VoteIn) (issued : Nat)
    (hs : v.signed = false) (hd : s.delegs.get true (ledgerKey v.addr) = none) :
    processVote s H rl v issued = .ok (s, issued) := by
  unfold processVote
  simp [hs, hd]

/-! ### effect on the ledgers -/

theorem freezeAll_true (fr : Led Stake) (ss : List Stake) (r : Int) :
    (freezeAll fr true ss r).hist = fr.hist ∧ (freezeAll fr true ss r).chk = fr.chk ∧
    ∀ k : String, (freezeAll fr true ss r).fin[k]? =
      match ss.reverse.find? (fun st => ledgerKey st.hash == k) with
      | some st => some { st with refund := r }
      | none => fr.fin[k]? := by
  unfold freezeAll
  induction ss generalizing fr with
  | nil => simp
  | cons st ss ih =>
    rw [List.foldl_cons]
    obtain ⟨h1, h2, h3⟩ := ih (fr.set true (ledgerKey st.hash) { st with refund := r })
    refine ⟨by rw [h1]; rfl, by rw [h2]; rfl, ?_⟩
    intro k
    rw [h3, List.reverse_cons, List.find?_append]
    cases hf : ss.reverse.find? (fun st => ledgerKey st.hash == k) with
    | some x => simp
    | none =>
      by_cases hk : ledgerKey st.hash = k
      · simp [hk, Led.set]
      · simp [hk, Led.set, ExtTreeMap.getElem?_insert]

/-- the stakes' ledger keys are pairwise different -/
def KeyNodup (ss : List Stake) : Prop := ss.Pairwise (fun a b => ledgerKey a.hash ≠ ledgerKey b.hash)

theorem freezeAll_mem (fr : Led Stake) (ss : List Stake) (r : Int) (hk : KeyNodup ss) (st : Stake) (hst : st ∈ ss) :
    (freezeAll fr true ss r).fin[ledgerKey st.hash]? = some { st with refund := r } := by
  rw [(freezeAll_true fr ss r).2.2]
  cases hf : ss.reverse.find? (fun x => ledgerKey x.hash == ledgerKey st.hash) with
  | none =>
    simp only [List.find?_eq_none, List.mem_reverse] at hf
    have := hf st hst; simp at this
  | some x =>
    have hx := List.mem_of_find?_eq_some hf
    have hp := List.find?_some hf
    simp only [List.mem_reverse] at hx
    simp only [beq_iff_eq] at hp
    have : x = st := by
      apply Classical.byContradiction; intro hne
      exact TM.pairwise_of_mem_ne (fun _ _ h e => h e.symm) hk x hx st hst hne hp
    simp [this]

theorem freezeAll_not_mem (fr : Led Stake) (ss : List Stake) (r : Int) (k : String)
    (hk : ∀ st ∈ ss, ledgerKey st.hash ≠ k) : (freezeAll fr true ss r).fin[k]? = fr.fin[k]? := by
  rw [(freezeAll_true fr ss r).2.2]
  have : ss.reverse.find? (fun st => ledgerKey st.hash == k) = none := by
    simp only [List.find?_eq_none, List.mem_reverse]; intro x hx; simpa using hk x hx
  simp [this]

/-- **jail_iff**: a non-signing validator known to the stake ledger is force-unbonded at block `H`
    exactly when `signedBlocksWindow − missed < minSignedBlocks`, where `missed` counts the marked
    heights in `[max 0 (H−1−window), H−1]` after marking `H−1`; "force-unbonded" = its delegatee entry
    is gone from the consensus view.  Otherwise the entry stays, with the new mark. -/
theorem jail_iff (s : St) (H : Int) (rl : KMap Delegatee) (v : VoteIn) (issued : Nat) (d : Delegatee)
    (hs : v.signed = false) (hd : s.delegs.get true (ledgerKey v.addr) = some d) (hinc : Increasing d.notSigned) :
    ∃ s', processVote s H rl v issued = .ok (s', issued) ∧
      (s'.delegs.fin[ledgerKey d.addr]? = none ↔ JailCond s H d) ∧
      (¬ JailCond s H d → ∃ d', s'.delegs.fin[ledgerKey d.addr]? = some d' ∧ d'.stakes = d.stakes ∧
          d'.total = d.total ∧ d'.self = d.self ∧ s'.frozen = s.frozen) := by
  refine ⟨_, processVote_unsigned s H rl v issued d hs hd hinc, ?_, ?_⟩
  · by_cases hj : JailCond s H d
    · simp [hj, jailedState, markedState, Led.del, Led.set]
    · simp [hj, markedState, Led.set]
  · intro hj
    simp only [hj, if_false]
    exact ⟨{ d with notSigned := (countInWindow (mark d.notSigned (H - 1)) (winLo H s.active.signedBlocksWindow) (H - 1)).2 },
      by simp [markedState, Led.set], rfl, rfl, rfl, rfl⟩

/-- **jail_effect**: when the condition holds, every stake bonded to the validator is moved to the
    unbonding (frozen) ledger with refund height `H + lazyRewardBlocks`, the delegatee entry is deleted
    (from the consensus and the mempool view), and nothing else changes: other delegatees, other
    frozen stakes, accounts, rewards, proposals, parameters. -/
theorem jail_effect (s : St) (H : Int) (d : Delegatee) (hk : KeyNodup d.stakes) :
    let s' := jailedState s H d
    (∀ st ∈ d.stakes, s'.frozen.fin[ledgerKey st.hash]? = some { st with refund := H + s.active.lazyRewardBlocks }) ∧
    (∀ k : String, (∀ st ∈ d.stakes, ledgerKey st.hash ≠ k) → s'.frozen.fin[k]? = s.frozen.fin[k]?) ∧
    s'.frozen.hist = s.frozen.hist ∧ s'.frozen.chk = s.frozen.chk ∧
    s'.delegs.fin = s.delegs.fin.erase (ledgerKey d.addr) ∧
    s'.delegs.chk = s.delegs.chk.erase (ledgerKey d.addr) ∧ s'.delegs.hist = s.delegs.hist ∧
    s'.accts = s.accts ∧ s'.rewards = s.rewards ∧ s'.props = s.props ∧ s'.fprops = s.fprops ∧
    s'.params = s.params ∧ s'.active = s.active ∧ s'.lastVals = s.lastVals ∧ s'.allDelegs = s.allDelegs := by
  intro s'
  refine ⟨?_, ?_, ?_, ?_, ?_, ?_, rfl, rfl, rfl, rfl, rfl, rfl, rfl, rfl, rfl⟩
  · intro st hst
    exact freezeAll_mem _ _ _ hk st hst
  · intro k hk'
    exact freezeAll_not_mem _ _ _ k hk'
  · exact (freezeAll_true _ _ _).1
  · exact (freezeAll_true _ _ _).2.1
  · apply ExtTreeMap.ext_getElem?
    intro k
    simp only [s', jailedState, markedState, Led.del, Led.set, if_true]
    by_cases e : ledgerKey d.addr = k <;> simp [ExtTreeMap.getElem?_erase, ExtTreeMap.getElem?_insert, e]
  · simp [s', jailedState, markedState, Led.del, Led.set]

/-- a validator that is not jailed only gets its missed-block marks updated -/
theorem not_jailed_effect (s : St) (H : Int) (d : Delegatee) :
    let s' := markedState s H d
    s'.delegs.fin = s.delegs.fin.insert (ledgerKey d.addr)
      { d with notSigned := (countInWindow (mark d.notSigned (H - 1)) (winLo H s.active.signedBlocksWindow) (H - 1)).2 } ∧
    s'.delegs.chk = s.delegs.chk ∧ s'.delegs.hist = s.delegs.hist ∧
    s'.frozen = s.frozen ∧ s'.accts = s.accts ∧ s'.rewards = s.rewards ∧ s'.props = s.props := by
  intro s'
  exact ⟨by simp [s', markedState, Led.set], rfl, rfl, rfl, rfl, rfl, rfl⟩

/-! ### signers -/

theorem rewardTo_frame (s : St) (d : Delegatee) (H : Int) (s' : St) (n : Nat) (h : rewardTo s d H = .ok (s', n)) :
    s'.delegs = s.delegs ∧ s'.frozen = s.frozen ∧ s'.accts = s.accts ∧ s'.props = s.props ∧ s'.active = s.active := by
  unfold rewardTo at h
  have key : ∀ (ss : List Stake) (acc : Res (St × Nat)) (s' : St) (n : Nat),
      ss.foldl (fun acc st =>
        match acc with
        | .panic p => .panic p
        | .ok (s, issued) =>
          let w := (s.rewards.get true (ledgerKey st.owner)).getD { addr := st.owner }
          let rwd := wmul ((st.power % (two64 : Int)).toNat) s.active.rewardPerPower
          match w.issue rwd H with
          | .panic p => .panic p
          | .ok w' => .ok ({ s with rewards := s.rewards.set true (ledgerKey st.owner) w' }, wadd issued rwd)) acc = .ok (s', n) →
      ∃ s0 n0, acc = .ok (s0, n0) ∧ s'.delegs = s0.delegs ∧ s'.frozen = s0.frozen ∧ s'.accts = s0.accts ∧
        s'.props = s0.props ∧ s'.active = s0.active := by
    intro ss
    induction ss with
    | nil => intro acc s' n h; exact ⟨s', n, h, rfl, rfl, rfl, rfl, rfl⟩
    | cons st ss ih =>
      intro acc s' n h
      rw [List.foldl_cons] at h
      obtain ⟨s1, n1, h1, hd, hf, ha, hp, hact⟩ := ih _ s' n h
      cases acc with
      | panic p => simp at h1
      | ok a =>
        obtain ⟨s0, n0⟩ := a
        simp only at h1
        split at h1
        · cases h1
        · cases h1
          exact ⟨s0, n0, rfl, hd, hf, ha, hp, hact⟩
  obtain ⟨s0, n0, h0, hd, hf, ha, hp, hact⟩ := key d.stakes _ s' n h
  cases h0
  exact ⟨hd, hf, ha, hp, hact⟩

/-- **signers are untouched**: a vote that signed never changes the bonded or unbonding stakes
    (it can only issue rewards) -/
theorem signer_untouched (s : St) (H : Int) (rl : KMap Delegatee) (v : VoteIn) (issued : Nat)
    (hs : v.signed = true) (s' : St) (n : Nat) (h : processVote s H rl v issued = .ok (s', n)) :
    s'.delegs = s.delegs ∧ s'.frozen = s.frozen ∧ s'.accts = s.accts ∧ s'.props = s.props := by
  unfold processVote at h
  simp only [hs, if_true] at h
  split at h
  · cases h; exact ⟨rfl, rfl, rfl, rfl⟩
  · split at h
    · cases h; exact ⟨rfl, rfl, rfl, rfl⟩
    · split at h
      · cases h
      · rename_i s1 i hr
        cases h
        have := rewardTo_frame _ _ _ _ _ hr
        exact ⟨this.1, this.2.1, this.2.2.1, this.2.2.2.1⟩

end Rigo.C14L
