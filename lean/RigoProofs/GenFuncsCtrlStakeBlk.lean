/-
  Round 3: the stake controller's block functions.
  * `StakeCtrler_unfreezingStakes` (EndBlock: refunds of the due unbonding stakes) ↔ `Rigo.unfreeze`
  * `StakeCtrler_doRewardTo` (BeginBlock: rewards to the stakes of a signing validator) ↔ `Rigo.rewardTo`
-/
import RigoProofs.GenFuncsCtrlBase

set_option linter.unusedSimpArgs false

namespace Rigo.GenEq
open Rigo Rigo.Gen

/-! ## `unfreezingStakes` -/

/-- one step of the model's `unfreeze` fold (named, so that it can be rewritten) -/
def sblkUnfreezeStep (height : Int) (acc : Res St) (kv : String × Stake) : Res St :=
  match acc with
  | .panic e => .panic e
  | .ok s =>
    if kv.2.refund ≤ height then
      match s.reward true kv.2.owner (powerToAmount kv.2.power) with
      | none => .panic "EndBlock: refund to a missing account"
      | some s1 =>
        .ok { s1 with frozen := s1.frozen.del true (ledgerKey kv.2.hash),
                      ghost := { s1.ghost with refunds := s1.ghost.refunds ++ [(kv.2.hash, kv.2.owner, kv.2.power, height)] } }
    else .ok s

theorem sblk_unfreeze_fold (s : St) (height : Int) :
    unfreeze s height = s.frozen.committed.toList.foldl (sblkUnfreezeStep height) (.ok s) := rfl

theorem sblk_unfreeze_fold_panic (height : Int) (l : List (String × Stake)) (e : String) :
    l.foldl (sblkUnfreezeStep height) (.panic e) = .panic e := by
  induction l with
  | nil => rfl
  | cons x xs ih => simpa [List.foldl_cons, sblkUnfreezeStep] using ih

/-- mirror of the generated loop -/
def sblkUnfrL (height : Int) (ar : Hex → Nat → Option String) :
    List Stake → StakeCtrler × Option String → G (StakeCtrler × Option String)
  | [], s => pure s
  | st :: sts, (c, e) =>
    if st.refund ≤ height then
      match ar st.owner (powerToAmount st.power) with
      | some x => pure (c, some x)
      | none => sblkUnfrL height ar sts ({ c with frozenLedger := c.frozenLedger.del true (ledgerKey st.hash) }, e)
    else sblkUnfrL height ar sts (c, e)

theorem sblk_unfreezing_loop (c : StakeCtrler) (height : Int) (ar : Hex → Nat → Option String) :
    StakeCtrler_unfreezingStakes c height ar = sblkUnfrL height ar c.frozenLedger.items (c, none) := by
  unfold StakeCtrler_unfreezingStakes
  dsimp only
  rw [forIn_eq _ (sblkUnfrL height ar)]
  · simp [bind, Except.bind, pure, Except.pure]
    cases sblkUnfrL height ar c.frozenLedger.items (c, none) <;> rfl
  · intro s; rfl
  · intro x xs ⟨c1, e⟩
    by_cases h : x.refund ≤ height
    · simp only [h, if_true, PowerToAmount_eq, sblkUnfrL, bind, Except.bind, pure, Except.pure, toLedgerKey_eq]
      cases har : ar x.owner (powerToAmount x.power) <;> simp
    · simp [h, sblkUnfrL, bind, Except.bind, pure, Except.pure]


/-! ### accounts along the fold -/

theorem sblk_findAcct_setAcct (s : St) (e e' : Bool) (a : Account) (b : Hex) :
    (s.setAcct e a).findAcct e' b =
      if e' = e ∧ ledgerKey b = ledgerKey a.addr then some a else s.findAcct e' b := by
  unfold St.setAcct St.findAcct
  simp only [Led.get_set]

/-- a successful `St.reward`: the account exists, the amount is not "negative", and the account with the
    increased balance is stored (under the key of its own address) -/
theorem sblk_reward_some (s s1 : St) (o : Hex) (amt : Nat) (h : s.reward true o amt = some s1) :
    ∃ a, s.findAcct true o = some a ∧ isNeg256 amt = false ∧
      s1 = s.setAcct true { a with bal := wadd a.bal amt } := by
  unfold St.reward addBalance at h
  cases ha : s.findAcct true o with
  | none => simp [ha] at h
  | some a =>
    by_cases hn : isNeg256 amt = true
    · simp [ha, hn] at h
    · simp [ha, hn] at h
      exact ⟨a, rfl, by simpa using hn, h.symm⟩

/-- `St.reward` fails exactly when the account is missing or the amount is "negative" -/
theorem sblk_reward_isSome (s : St) (o : Hex) (amt : Nat) :
    (s.reward true o amt).isSome = ((s.findAcct true o).isSome && !isNeg256 amt) := by
  unfold St.reward addBalance
  cases ha : s.findAcct true o with
  | none => simp
  | some a => by_cases hn : isNeg256 amt = true <;> simp [hn]

/-- a reward neither creates nor deletes accounts (nor changes the address stored in one), provided the
    rewarded account is stored under the key of its own address -/
theorem sblk_reward_addrs (s s1 : St) (o : Hex) (amt : Nat) (h : s.reward true o amt = some s1)
    (hk : ∀ a, s.findAcct true o = some a → ledgerKey a.addr = ledgerKey o) (b : Hex) :
    (s1.findAcct true b).map (·.addr) = (s.findAcct true b).map (·.addr) := by
  obtain ⟨a, ha, _, rfl⟩ := sblk_reward_some s s1 o amt h
  rw [sblk_findAcct_setAcct]
  by_cases hb : ledgerKey b = ledgerKey a.addr
  · have : s.findAcct true b = some a := by
      have e : ledgerKey b = ledgerKey o := by rw [hb, hk a ha]
      unfold St.findAcct at ha ⊢
      rw [e, ha]
    simp [hb, this]
  · simp [hb]

/-- `St.reward` only changes the accounts -/
theorem sblk_reward_frame (s s1 : St) (o : Hex) (amt : Nat) (h : s.reward true o amt = some s1) :
    s1.frozen = s.frozen ∧ s1.allDelegs = s.allDelegs ∧ s1.lastVals = s.lastVals ∧ s1.delegs = s.delegs ∧
      s1.rewards = s.rewards ∧ s1.limiter = s.limiter := by
  obtain ⟨a, _, _, rfl⟩ := sblk_reward_some s s1 o amt h
  simp [St.setAcct]

/-- a refund amount `uint64(power) × 10^18` is below `2^255`: it is never "negative" (also for a negative
    power, which is refunded as `(2^64 + power) × 10^18`), so the model's "refund to a missing account"
    panic / the Go error can only come from a missing account -/
theorem sblk_refund_not_neg (p : Int) : isNeg256 (powerToAmount p) = false := by
  unfold isNeg256 powerToAmount wmul
  have h1 : (p % (two64 : Int)).toNat < 18446744073709551616 := by
    simp only [two64, Nat.reducePow]
    omega
  generalize (p % (two64 : Int)).toNat = x at h1
  have h2 : x * amountPerPower < two255 := by
    simp only [two255, amountPerPower, Nat.reducePow]; omega
  have h3 : x * amountPerPower < two256 := by
    simp only [two255, two256, Nat.reducePow] at h2 ⊢; omega
  rw [Nat.mod_eq_of_lt h3]
  simpa using h2

/-! ### the hypotheses -/

/-- The oracle `acctReward owner amt` stands for the error of `AcctCtrler.Reward(owner, amt, true)`: for
    the refunds the loop can ask for (the due committed frozen stakes) it reports no error exactly when
    the model's `St.reward` succeeds on the state at the start of the loop, i.e. the account exists and the
    amount is not "negative".  (Implied by the brief's `∀ a amt, …` form, `sblk_oracle_of_forall`.) -/
def UnfreezeOracleOK (s : St) (height : Int) (ar : Hex → Nat → Option String) : Prop :=
  ∀ kv ∈ s.frozen.committed.toList, kv.2.refund ≤ height →
    (ar kv.2.owner (powerToAmount kv.2.power)).isNone =
      ((s.findAcct true kv.2.owner).isSome && !isNeg256 (powerToAmount kv.2.power))

instance (s : St) (height : Int) (ar : Hex → Nat → Option String) : Decidable (UnfreezeOracleOK s height ar) := by
  unfold UnfreezeOracleOK; infer_instance

theorem sblk_oracle_of_forall (s : St) (height : Int) (ar : Hex → Nat → Option String)
    (h : ∀ a amt, (ar a amt).isNone = ((s.findAcct true a).isSome && !isNeg256 amt)) :
    UnfreezeOracleOK s height ar := fun kv _ _ => h kv.2.owner _

/-- since refund amounts are never "negative", it suffices that the oracle reports an error exactly for
    the missing accounts -/
theorem sblk_oracle_of_exists (s : St) (height : Int) (ar : Hex → Nat → Option String)
    (h : ∀ a amt, (ar a amt).isNone = (s.findAcct true a).isSome) : UnfreezeOracleOK s height ar := by
  intro kv _ _
  rw [h, sblk_refund_not_neg]; simp

/-- Ledger invariant of the accounts, for the owners of the due stakes only: the account found under the
    key of the owner's address carries an address with that key (the account ledger stores every account
    under `Key() = ToLedgerKey(Address)`, `AddrOK` of the model's theorems).  Needed because the oracle
    `acctReward` is a function of its arguments only (the translator's reading of the interface call),
    whereas the model (and the Go account controller) stores the rewarded account under the key of the
    address *in the account object*: without the invariant a refund could create an account under another
    key and let a later refund of the same loop succeed (`StakeCtrler_unfreezingStakes_differs`). -/
def RefundAcctsOK (s : St) (height : Int) : Prop :=
  ∀ kv ∈ s.frozen.committed.toList, kv.2.refund ≤ height →
    ((s.findAcct true kv.2.owner).all fun a => ledgerKey a.addr == ledgerKey kv.2.owner) = true

instance (s : St) (height : Int) : Decidable (RefundAcctsOK s height) := by
  unfold RefundAcctsOK; infer_instance

/-! ### the fold -/

theorem sblk_unfreeze_ind (height : Int) (ar : Hex → Nat → Option String) (l : List (String × Stake)) :
    ∀ (c : StakeCtrler) (s : St), StakeRel c s →
    (∀ kv ∈ l, kv.2.refund ≤ height →
      (ar kv.2.owner (powerToAmount kv.2.power)).isNone =
        ((s.findAcct true kv.2.owner).isSome && !isNeg256 (powerToAmount kv.2.power))) →
    (∀ kv ∈ l, kv.2.refund ≤ height →
      ∀ a, s.findAcct true kv.2.owner = some a → ledgerKey a.addr = ledgerKey kv.2.owner) →
    match l.foldl (sblkUnfreezeStep height) (.ok s) with
    | .ok s' => ∃ c', sblkUnfrL height ar (l.map (fun kv => id kv.2)) (c, none) = .ok (c', none) ∧ StakeRel c' s'
    | .panic _ => ∃ c' e, sblkUnfrL height ar (l.map (fun kv => id kv.2)) (c, none) = .ok (c', some e) := by
  induction l with
  | nil =>
    intro c s hrel _ _
    exact ⟨c, rfl, hrel⟩
  | cons kv l ih =>
    intro c s hrel hor hk
    simp only [List.foldl_cons, List.map_cons, id, sblkUnfrL]
    by_cases hd : kv.2.refund ≤ height
    · have ho := hor kv (List.mem_cons_self) hd
      rw [← sblk_reward_isSome] at ho
      cases hr : s.reward true kv.2.owner (powerToAmount kv.2.power) with
      | none =>
        rw [hr] at ho
        simp only [sblkUnfreezeStep, hd, if_true, hr, sblk_unfreeze_fold_panic]
        cases har : ar kv.2.owner (powerToAmount kv.2.power) with
        | none => simp [har] at ho
        | some x => exact ⟨c, x, rfl⟩
      | some s1 =>
        rw [hr] at ho
        have har : ar kv.2.owner (powerToAmount kv.2.power) = none := by simpa using ho
        simp only [sblkUnfreezeStep, hd, if_true, hr, har]
        have hfr := sblk_reward_frame s s1 _ _ hr
        have had := sblk_reward_addrs s s1 _ _ hr (hk kv List.mem_cons_self hd)
        have := ih { c with frozenLedger := c.frozenLedger.del true (ledgerKey kv.2.hash) }
          { s1 with frozen := s1.frozen.del true (ledgerKey kv.2.hash),
                    ghost := { s1.ghost with refunds := s1.ghost.refunds ++ [(kv.2.hash, kv.2.owner, kv.2.power, height)] } }
          ⟨by simp [hfr, hrel.all], by simp [hfr, hrel.last], by simp [hfr, hrel.delegs],
           by simp [hfr, hrel.frozen, ledOf_del], by simp [hfr, hrel.rewards], by simp [hfr, hrel.limiter]⟩
          (by
            intro kv' hm hd'
            have h1 := hor kv' (List.mem_cons_of_mem _ hm) hd'
            have h2 := had kv'.2.owner
            have h3 : (s1.findAcct true kv'.2.owner).isSome = (s.findAcct true kv'.2.owner).isSome := by
              have := congrArg Option.isSome h2
              simpa using this
            rw [h1, ← h3]; rfl)
          (by
            intro kv' hm hd' a ha
            have h2 := had kv'.2.owner
            have ha' : s1.findAcct true kv'.2.owner = some a := ha
            rw [ha'] at h2
            cases hb : s.findAcct true kv'.2.owner with
            | none => simp [hb] at h2
            | some b =>
              rw [hb] at h2
              have : a.addr = b.addr := by simpa using h2
              rw [this]
              exact hk kv' (List.mem_cons_of_mem _ hm) hd' b hb)
        exact this
    · simp only [sblkUnfreezeStep, hd, if_false]
      exact ih c s hrel (fun kv' hm => hor kv' (List.mem_cons_of_mem _ hm))
        (fun kv' hm => hk kv' (List.mem_cons_of_mem _ hm))


/-- **`unfreezingStakes` = `unfreeze`** (the stake controller's part of it).  For a controller holding
    the stake part of the model state: when the model succeeds, the generated function returns no error
    and the controller of the model's new state; when the model panics ("refund to a missing account":
    the account of a due stake's owner is missing, or the refund amount is "negative"), the generated
    function *returns* the account controller's error (the Go code hands it to `EndBlock`, which fails
    with it; there is no Go panic). -/
theorem StakeCtrler_unfreezingStakes_eq (c : StakeCtrler) (s : St) (height : Int)
    (acctReward : Hex → Nat → Option String) (hrel : StakeRel c s)
    (hor : UnfreezeOracleOK s height acctReward) (hk : RefundAcctsOK s height) :
    match unfreeze s height with
    | .ok s' => ∃ c', StakeCtrler_unfreezingStakes c height acctReward = .ok (c', none) ∧ StakeRel c' s'
    | .panic _ => ∃ c' e, StakeCtrler_unfreezingStakes c height acctReward = .ok (c', some e) := by
  rw [sblk_unfreezing_loop, sblk_unfreeze_fold, hrel.frozen, ledOf_items]
  refine sblk_unfreeze_ind height acctReward _ c s hrel hor ?_
  intro kv hm hd a ha
  have := hk kv hm hd
  rw [ha] at this
  simpa using this

/-- the form of the brief: the oracle tied to the model for every address and amount -/
theorem StakeCtrler_unfreezingStakes_eq' (c : StakeCtrler) (s : St) (height : Int)
    (acctReward : Hex → Nat → Option String) (hrel : StakeRel c s)
    (hor : ∀ a amt, (acctReward a amt).isNone = ((s.findAcct true a).isSome && !isNeg256 amt))
    (hk : RefundAcctsOK s height) :
    match unfreeze s height with
    | .ok s' => ∃ c', StakeCtrler_unfreezingStakes c height acctReward = .ok (c', none) ∧ StakeRel c' s'
    | .panic _ => ∃ c' e, StakeCtrler_unfreezingStakes c height acctReward = .ok (c', some e) :=
  StakeCtrler_unfreezingStakes_eq c s height acctReward hrel (sblk_oracle_of_forall s height acctReward hor) hk

/-! ### examples -/

namespace SblkEx
def sl0 : StakeLimiter := { indi := 0, upd := 0, maxCnt := 0, objs := [], base := 0, updated := 0 }
def ownerA : Hex := "aa"
def ownerB : Hex := "bb"
def ownerC : Hex := "cc"
def stA : Stake := { owner := ownerA, to := "dd", hash := "01", power := 5, start := 1, refund := 7 }
def stB : Stake := { owner := ownerB, to := "dd", hash := "02", power := 3, start := 1, refund := 9 }
def stC : Stake := { owner := ownerC, to := "dd", hash := "03", power := 2, start := 1, refund := 50 }
def frozenMap : KMap Stake :=
  ((({} : KMap Stake).insert (ledgerKey "01") stA).insert (ledgerKey "02") stB).insert (ledgerKey "03") stC
def acctMap : KMap Account :=
  (({} : KMap Account).insert (ledgerKey ownerA) { addr := ownerA, bal := 10 }).insert (ledgerKey ownerB) { addr := ownerB }
/-- two due stakes (owners with accounts), one stake not yet due (owner without account) -/
def s0 : St :=
  { accts := { hist := [acctMap], fin := acctMap, chk := acctMap }
    frozen := { hist := [frozenMap], fin := frozenMap, chk := frozenMap } }
/-- the account controller's `Reward` on `s0` -/
def ar0 (a : Hex) (amt : Nat) : Option String :=
  if (s0.findAcct true a).isSome && !isNeg256 amt then none else some "ErrNotFoundAccount"
/-- as `s0`, but the account of the second owner is missing -/
def s1 : St :=
  { s0 with accts := { hist := [acctMap.erase (ledgerKey ownerB)], fin := acctMap.erase (ledgerKey ownerB),
                       chk := acctMap.erase (ledgerKey ownerB) } }
def ar1 (a : Hex) (amt : Nat) : Option String :=
  if (s1.findAcct true a).isSome && !isNeg256 amt then none else some "ErrNotFoundAccount"
end SblkEx

open SblkEx in
/-- the hypotheses of `StakeCtrler_unfreezingStakes_eq` are satisfiable (success case): both due stakes
    are refunded and removed, the third one stays -/
example : StakeRel (stakeCtrlOf s0 sl0) s0 ∧ UnfreezeOracleOK s0 10 ar0 ∧ RefundAcctsOK s0 10 ∧
    (match unfreeze s0 10 with
     | .ok s' => (s'.frozen.get true (ledgerKey "01")).isNone && (s'.frozen.get true (ledgerKey "02")).isNone &&
         s'.frozen.get true (ledgerKey "03") == some stC &&
         (s'.findAcct true ownerA).map (·.bal) == some (10 + 5 * amountPerPower)
     | .panic _ => false) = true :=
  ⟨stakeRel_of _ _ rfl, by decide +kernel, by decide +kernel, by decide +kernel⟩

open SblkEx in
/-- … and in the failure case (the second owner has no account: the model panics, the Go code returns the
    error) -/
example : StakeRel (stakeCtrlOf s1 sl0) s1 ∧ UnfreezeOracleOK s1 10 ar1 ∧ RefundAcctsOK s1 10 ∧
    (match unfreeze s1 10 with | .ok _ => false | .panic _ => true) = true :=
  ⟨stakeRel_of _ _ rfl, by decide +kernel, by decide +kernel, by decide +kernel⟩


/-! ### the difference excluded by `RefundAcctsOK` -/

namespace SblkEx
/-- under the key of owner A an account object whose address is B; no account under B's key -/
def acctMapX : KMap Account := ({} : KMap Account).insert (ledgerKey ownerA) { addr := ownerB, bal := 10 }
def sX : St :=
  { accts := { hist := [acctMapX], fin := acctMapX, chk := acctMapX }
    frozen := { hist := [frozenMap], fin := frozenMap, chk := frozenMap } }
def arX (a : Hex) (amt : Nat) : Option String :=
  if (sX.findAcct true a).isSome && !isNeg256 amt then none else some "ErrNotFoundAccount"
end SblkEx

open SblkEx in
/-- Without `RefundAcctsOK` the generated function and the model disagree: the account found for owner A
    carries address B, the model's refund to A stores it under B's key, so the model's refund to B (no
    account at the start) succeeds, whereas the generated function asks the oracle -- a function of the
    arguments alone, tied to the state at the start -- and returns its error.  Not reachable (accounts are
    stored under the key of their own address); an artefact of reading `acctHandler.Reward` as a pure
    function, not a defect of the Go code. -/
theorem StakeCtrler_unfreezingStakes_differs :
    ∃ (c : StakeCtrler) (s : St) (height : Int) (ar : Hex → Nat → Option String),
      StakeRel c s ∧ (∀ a amt, (ar a amt).isNone = ((s.findAcct true a).isSome && !isNeg256 amt)) ∧
      ¬ RefundAcctsOK s height ∧
      (∃ s', unfreeze s height = .ok s') ∧
      (∃ c' e, StakeCtrler_unfreezingStakes c height ar = .ok (c', some e)) := by
  refine ⟨stakeCtrlOf sX sl0, sX, 10, arX, stakeRel_of _ _ rfl, ?_, by decide +kernel, ?_, ?_⟩
  · intro a amt
    unfold arX
    cases (sX.findAcct true a).isSome && !isNeg256 amt <;> rfl
  · have h : (match unfreeze sX 10 with | .ok _ => true | .panic _ => false) = true := by decide +kernel
    cases hu : unfreeze sX 10 with
    | ok s' => exact ⟨s', rfl⟩
    | panic e => rw [hu] at h; cases h
  · have h : (match StakeCtrler_unfreezingStakes (stakeCtrlOf sX sl0) 10 arX with
        | .ok (_, some _) => true | _ => false) = true := by decide +kernel
    cases hu : StakeCtrler_unfreezingStakes (stakeCtrlOf sX sl0) 10 arX with
    | error e => rw [hu] at h; cases h
    | ok r =>
      obtain ⟨c', e⟩ := r
      cases e with
      | none => rw [hu] at h; cases h
      | some e => exact ⟨c', e, rfl⟩


/-! ## `doRewardTo` -/

/-- one step of the model's `rewardTo` fold (named, so that it can be rewritten) -/
def sblkRewardStep (height : Int) (acc : Res (St × Nat)) (st : Stake) : Res (St × Nat) :=
  match acc with
  | .panic p => .panic p
  | .ok (s, issued) =>
    let w := (s.rewards.get true (ledgerKey st.owner)).getD { addr := st.owner }
    let rwd := wmul ((st.power % (two64 : Int)).toNat) s.active.rewardPerPower
    match w.issue rwd height with
    | .panic p => .panic p
    | .ok w' => .ok ({ s with rewards := s.rewards.set true (ledgerKey st.owner) w' }, wadd issued rwd)

theorem sblk_rewardTo_fold (s : St) (d : Delegatee) (height : Int) :
    rewardTo s d height = d.stakes.foldl (sblkRewardStep height) (.ok (s, 0)) := rfl

theorem sblk_reward_fold_panic (height : Int) (l : List Stake) (e : String) :
    l.foldl (sblkRewardStep height) (.panic e) = .panic e := by
  induction l with
  | nil => rfl
  | cons x xs ih => simpa [List.foldl_cons, sblkRewardStep] using ih

theorem sblk_NewReward (a : Hex) : NewReward a = .ok { addr := a } := rfl

/-- mirror of the generated loop -/
def sblkRwdL (height : Int) (rpp : Nat) : List Stake → StakeCtrler × Nat → G (StakeCtrler × Nat)
  | [], s => pure s
  | st :: sts, (c, iss) => do
    let r ← Reward_Issue ((c.rewardLedger.get true (ledgerKey st.owner)).getD { addr := st.owner })
      (wmul (wrapU64 st.power) rpp) height
    sblkRwdL height rpp sts
      ({ c with rewardLedger := c.rewardLedger.set true (ledgerKey r.1.addr) r.1 }, wadd iss (wmul (wrapU64 st.power) rpp))

theorem sblk_doRewardTo_loop (c : StakeCtrler) (d : Delegatee) (height : Int) (rpp : Nat) :
    StakeCtrler_doRewardTo c d height rpp =
      (sblkRwdL height rpp d.stakes (c, 0) >>= fun r => pure (r.1, r.2, none)) := by
  unfold StakeCtrler_doRewardTo
  dsimp only
  rw [forIn_eq _ (sblkRwdL height rpp)]
  · intro s; rfl
  · intro x xs ⟨c1, iss⟩
    cases hg : c1.rewardLedger.get true (ledgerKey x.owner) with
    | none =>
      simp only [hg, toLedgerKey_eq, gnotFound_none, if_true, sblk_NewReward, sblkRwdL, Option.getD_none,
        bind, Except.bind, pure, Except.pure, gderef, Reward_Key_eq]
      cases Reward_Issue { addr := x.owner } (wmul (wrapU64 x.power) rpp) height <;> simp
    | some w =>
      simp only [hg, toLedgerKey_eq, gnotFound_some, sblkRwdL, Option.getD_some,
        bind, Except.bind, pure, Except.pure, gderef, Reward_Key_eq]
      cases Reward_Issue w (wmul (wrapU64 x.power) rpp) height <;> simp


theorem sblk_issue_addr (w w' : Reward) (r : Nat) (h : Int) (hi : w.issue r h = .ok w') : w'.addr = w.addr := by
  unfold Reward.issue at hi
  split at hi
  · cases hi; rfl
  · split at hi
    · cases hi; rfl
    · cases hi

theorem sblk_wrapU64 (p : Int) : wrapU64 p = (p % (two64 : Int)).toNat := rfl

/-- Ledger invariant of the reward ledger, for the owners of the delegatee's stakes only: the reward object
    found (consensus view) under the key of the owner's address carries an address with that key (reward
    objects are created by `NewReward(owner)` and stored under `Key() = ToLedgerKey(address)`).  Needed
    because the Go code writes the object back under *its own* key (`SetFinality(rwdObj)`), the model under
    the key it looked up (`StakeCtrler_doRewardTo_differs`). -/
def RewardKeysOK (s : St) (d : Delegatee) : Prop :=
  ∀ st ∈ d.stakes, ((s.rewards.get true (ledgerKey st.owner)).all fun w => ledgerKey w.addr == ledgerKey st.owner) = true

instance (s : St) (d : Delegatee) : Decidable (RewardKeysOK s d) := by
  unfold RewardKeysOK; infer_instance

theorem sblk_reward_ind (height : Int) (rpp : Nat) (l : List Stake) :
    ∀ (c : StakeCtrler) (s : St) (iss : Nat), StakeRel c s → s.active.rewardPerPower = rpp →
    (∀ st ∈ l, ∀ w, s.rewards.get true (ledgerKey st.owner) = some w → ledgerKey w.addr = ledgerKey st.owner) →
    match l.foldl (sblkRewardStep height) (.ok (s, iss)) with
    | .ok r => ∃ c', sblkRwdL height rpp l (c, iss) = .ok (c', r.2) ∧ StakeRel c' r.1
    | .panic _ => G.panics (sblkRwdL height rpp l (c, iss)) := by
  induction l with
  | nil =>
    intro c s iss hrel _ _
    exact ⟨c, rfl, hrel⟩
  | cons st l ih =>
    intro c s iss hrel hrpp hk
    simp only [List.foldl_cons, sblkRwdL, sblkRewardStep]
    have hget : c.rewardLedger.get true (ledgerKey st.owner) = s.rewards.get true (ledgerKey st.owner) := by
      rw [hrel.rewards]; simp
    rw [hget, hrpp, sblk_wrapU64]
    have hm := Reward_Issue_eq ((s.rewards.get true (ledgerKey st.owner)).getD { addr := st.owner })
      (wmul ((st.power % (two64 : Int)).toNat) rpp) height
    cases hi : Reward.issue ((s.rewards.get true (ledgerKey st.owner)).getD { addr := st.owner })
        (wmul ((st.power % (two64 : Int)).toNat) rpp) height with
    | panic p =>
      rw [hi] at hm
      obtain ⟨e, he⟩ := hm
      simp only [sblk_reward_fold_panic, he, bind, Except.bind]
      exact ⟨e, rfl⟩
    | ok w' =>
      rw [hi] at hm
      simp only [Res.map, G.matches_ok] at hm
      simp only [hm, bind, Except.bind]
      have haddr := sblk_issue_addr _ _ _ _ hi
      have hkey : ledgerKey w'.addr = ledgerKey st.owner := by
        rw [haddr]
        cases hg : s.rewards.get true (ledgerKey st.owner) with
        | none => rfl
        | some w => simpa using hk st List.mem_cons_self w hg
      rw [hkey]
      refine ih _ { s with rewards := s.rewards.set true (ledgerKey st.owner) w' } _
        ⟨hrel.all, hrel.last, hrel.delegs, hrel.frozen, ?_, hrel.limiter⟩ hrpp ?_
      · show c.rewardLedger.set true (ledgerKey st.owner) w' = ledOf id (s.rewards.set true (ledgerKey st.owner) w')
        rw [hrel.rewards, ← ledOf_set]; rfl
      · intro st' hm' w hw
        have hw' : (s.rewards.set true (ledgerKey st.owner) w').get true (ledgerKey st'.owner) = some w := hw
        rw [Led.get_set] at hw'
        by_cases hc : ledgerKey st'.owner = ledgerKey st.owner
        · simp [hc] at hw'
          rw [← hw', hkey, hc]
        · simp [hc] at hw'
          exact hk st' (List.mem_cons_of_mem _ hm') w hw'

/-- **`doRewardTo` = `rewardTo`**: every stake's owner is issued `uint64(power) × rewardPerPower`; the new
    controller holds the model's new reward ledger, the issued sum is the model's; the model's panic
    (`Reward.Issue` at a height below the stored one) is the Go panic. -/
theorem StakeCtrler_doRewardTo_eq (c : StakeCtrler) (s : St) (d : Delegatee) (height : Int)
    (hrel : StakeRel c s) (hk : RewardKeysOK s d) :
    match rewardTo s d height with
    | .ok r => ∃ c', StakeCtrler_doRewardTo c d height s.active.rewardPerPower = .ok (c', r.2, none) ∧ StakeRel c' r.1
    | .panic _ => G.panics (StakeCtrler_doRewardTo c d height s.active.rewardPerPower) := by
  rw [sblk_doRewardTo_loop, sblk_rewardTo_fold]
  have := sblk_reward_ind height s.active.rewardPerPower d.stakes c s 0 hrel rfl (by
    intro st hm w hw
    have := hk st hm
    rw [hw] at this
    simpa using this)
  cases hf : d.stakes.foldl (sblkRewardStep height) (.ok (s, 0)) with
  | ok r =>
    rw [hf] at this
    obtain ⟨c', h1, h2⟩ := this
    exact ⟨c', by simp [h1, bind, Except.bind, pure, Except.pure], h2⟩
  | panic p =>
    rw [hf] at this
    obtain ⟨e, he⟩ := this
    exact ⟨e, by simp [he, bind, Except.bind]⟩


/-! ### examples -/

namespace SblkEx
def rwdMap : KMap Reward :=
  ({} : KMap Reward).insert (ledgerKey ownerA) { addr := ownerA, issued := 1, cumulated := 4, height := 3 }
/-- owner A has a reward object (last issue at height 3), owner B has none -/
def sR : St :=
  { rewards := { hist := [rwdMap], fin := rwdMap, chk := rwdMap }
    active := { (default : Params) with rewardPerPower := 7 } }
def dR : Delegatee :=
  { addr := "dd", pub := "", total := 10, stakes := [stA, stB, { stA with hash := "04", power := 2 }] }
/-- under the key of owner A a reward object whose address is B -/
def rwdMapX : KMap Reward := ({} : KMap Reward).insert (ledgerKey ownerA) { addr := ownerB, height := 3 }
def sRX : St := { sR with rewards := { hist := [rwdMapX], fin := rwdMapX, chk := rwdMapX } }
def dRX : Delegatee := { dR with stakes := [stA] }
end SblkEx

open SblkEx in
/-- the hypotheses of `StakeCtrler_doRewardTo_eq` are satisfiable; at height 5 owner A is issued
    `5·7 + 2·7` (two stakes), owner B (new object) `3·7`, in total `70` -/
example : StakeRel (stakeCtrlOf sR sl0) sR ∧ RewardKeysOK sR dR ∧
    (match rewardTo sR dR 5 with
     | .ok r => r.2 == 70 &&
         r.1.rewards.get true (ledgerKey ownerA) == some { addr := ownerA, issued := 49, cumulated := 53, height := 5 } &&
         r.1.rewards.get true (ledgerKey ownerB) == some { addr := ownerB, issued := 21, cumulated := 21, height := 5 }
     | .panic _ => false) = true :=
  ⟨stakeRel_of _ _ rfl, by decide +kernel, by decide +kernel⟩

open SblkEx in
/-- … and the panic case: an issue at height 2, below the stored height 3 -/
example : StakeRel (stakeCtrlOf sR sl0) sR ∧ RewardKeysOK sR dR ∧
    (match rewardTo sR dR 2 with | .ok _ => false | .panic _ => true) = true :=
  ⟨stakeRel_of _ _ rfl, by decide +kernel, by decide +kernel⟩

/-! ### the difference excluded by `RewardKeysOK` -/

open SblkEx in
/-- Without `RewardKeysOK` the generated function and the model disagree: the reward object found under
    the key of owner A carries address B; the Go code stores the updated object under B's key
    (`SetFinality(rwdObj)` uses `rwdObj.Key()`), the model under A's key.  Both report the same issued
    sum.  Not reachable (reward objects are created by `NewReward(owner)` and always stored under the key
    of their own address); a simplification of the model, not a defect of the Go code. -/
theorem StakeCtrler_doRewardTo_differs :
    ∃ (c : StakeCtrler) (s : St) (d : Delegatee) (height : Int),
      StakeRel c s ∧ ¬ RewardKeysOK s d ∧
      ∃ s' i c', rewardTo s d height = .ok (s', i) ∧
        StakeCtrler_doRewardTo c d height s.active.rewardPerPower = .ok (c', i, none) ∧
        (c'.rewardLedger.get true (ledgerKey ownerB)).isSome = true ∧
        (s'.rewards.get true (ledgerKey ownerB)).isSome = false ∧ ¬ StakeRel c' s' := by
  refine ⟨stakeCtrlOf sRX sl0, sRX, dRX, 5, stakeRel_of _ _ rfl, by decide +kernel, ?_⟩
  have h : (match rewardTo sRX dRX 5, StakeCtrler_doRewardTo (stakeCtrlOf sRX sl0) dRX 5 sRX.active.rewardPerPower with
      | .ok (s', i), .ok (c', i', none) =>
        i == i' && (c'.rewardLedger.get true (ledgerKey ownerB)).isSome && !(s'.rewards.get true (ledgerKey ownerB)).isSome
      | _, _ => false) = true := by decide +kernel
  cases hm : rewardTo sRX dRX 5 with
  | panic p => rw [hm] at h; cases h
  | ok r =>
    obtain ⟨s', i⟩ := r
    cases hg : StakeCtrler_doRewardTo (stakeCtrlOf sRX sl0) dRX 5 sRX.active.rewardPerPower with
    | error e => rw [hm, hg] at h; cases h
    | ok r' =>
      obtain ⟨c', i', e⟩ := r'
      cases e with
      | some e => rw [hm, hg] at h; cases h
      | none =>
        rw [hm, hg] at h
        simp only [Bool.and_eq_true, beq_iff_eq, Bool.not_eq_true'] at h
        obtain ⟨⟨h1, h2⟩, h3⟩ := h
        subst h1
        refine ⟨s', i, c', rfl, rfl, h2, h3, ?_⟩
        intro hrel
        rw [hrel.rewards, ledOf_get] at h2
        simp [h3] at h2

end Rigo.GenEq
