/-
  C13 / pipeline (3): one block.  In a block that neither BeginBlock nor EndBlock answers with a panic, the
  validator list EndBlock reports (`lastVals`) is the power-ranked, truncated list of the delegatees found in the
  ledger version COMMITTED BY THE PREVIOUS BLOCK whose self power meets the minimum — records copied verbatim
  from that version (slashing and transactions of the current block do not touch the copy).
-/
import RigoProofs.C13PipelineHeights
import RigoProofs.C12EndBlock

open Std

namespace Rigo.C13P
open Rigo Rigo.TM Rigo.C14L Rigo.C19

/-! ### EndBlock without panic has run `updateValidators` -/

theorem endBlock_noPanic (s : St) (hp : (endBlock s).2.panic = "") :
    0 ≤ s.active.maxValidatorCnt ∧ (endBlock s).1.lastVals = sortByPower (topN s) ∧
    (endBlock s).2.valUpdates = validatorUpdates (sortByAddr s.lastVals) (sortByAddr (topN s)) := by
  unfold endBlock at hp ⊢
  cases hb : s.blk with
  | none => rw [hb] at hp; dsimp only at hp; exact absurd hp (by decide)
  | some b =>
    rw [hb] at hp
    dsimp only at hp ⊢
    cases h1 : freezeProposals s b.height with
    | panic e => rw [h1] at hp; exact absurd hp (freezeProposals_panic h1)
    | ok s1 =>
      rw [h1] at hp
      dsimp only at hp ⊢
      have v1 := freezeProposals_view _ _ _ h1
      cases h2 : applyProposals s1 b.height with
      | panic e => rw [h2] at hp; exact absurd hp (applyProposals_panic h2)
      | ok s2 =>
        rw [h2] at hp
        dsimp only at hp ⊢
        have v2 := (applyProposals_view _ _ _ h2).trans v1
        cases h3 : feeHandover s2 b with
        | panic e => rw [h3] at hp; exact absurd hp (feeHandover_panic h3)
        | ok s3 =>
          rw [h3] at hp
          dsimp only at hp ⊢
          have v3 := (feeHandover_view _ _ _ h3).trans v2
          cases h4 : unfreeze s3 b.height with
          | panic e => rw [h4] at hp; exact absurd hp (unfreeze_panic h4)
          | ok s4 =>
            rw [h4] at hp
            dsimp only at hp ⊢
            have v4 := (unfreeze_view _ _ _ h4).trans v3
            simp only [VView, Prod.mk.injEq] at v4
            obtain ⟨va, vl, vact, _⟩ := v4
            cases h5 : updateValidators s4 with
            | panic e => rw [h5] at hp; exact absurd hp (updateValidators_panic h5)
            | ok r =>
              obtain ⟨s5, ups⟩ := r
              dsimp only
              unfold updateValidators selectValidators at h5
              by_cases hm : s4.active.maxValidatorCnt < 0
              · simp [hm] at h5
              · simp only [hm, if_false] at h5
                cases h5
                unfold topN
                rw [← va, ← vl, ← vact]
                exact ⟨by omega, rfl, rfl⟩

/-! ### BeginBlock without panic has rebuilt the eligible list from the committed ledger -/

theorem amountToPower_panic_ne {amt : Nat} {e : String} (h : amountToPower amt = .panic e) : e ≠ "" := by
  unfold amountToPower at h
  simp only at h
  split at h
  · cases h; decide
  · cases h

theorem beginBlock_noPanic (s : St) (h : Header) (hp : (beginBlock s h).2.panic = "") :
    h.height = s.lastHeight + 1 ∧ ∃ mp, amountToPower s.active.minValidatorStake = .ok mp ∧
      (beginBlock s h).1.allDelegs = eligible s mp ∧ (beginBlock s h).1.lastVals = s.lastVals ∧
      (beginBlock s h).1.active = s.active := by
  have hh := beginBlock_height_of_noPanic s h hp
  refine ⟨hh, ?_⟩
  rw [beginBlock_phases s h hh] at hp ⊢
  have hg := govFold_frame h.evidence { s with blk := some { height := h.height, time := h.time, proposer := h.proposer } }
  simp only at hg
  obtain ⟨g1, g2, g3, g4, g5, g6, g7, g8, g9, g10, g11, g12, g13, g14⟩ := hg
  have hact : (afterGovPunish s h).1.active = s.active := g7
  rw [hact] at hp ⊢
  cases hmp : amountToPower s.active.minValidatorStake with
  | panic p => rw [hmp] at hp; exact absurd hp (amountToPower_panic_ne hmp)
  | ok minPower =>
    refine ⟨minPower, rfl, ?_⟩
    simp only
    obtain ⟨v1, v2, v3⟩ := votePhase_lists (afterPunish s h minPower).1 h (afterPunish s h minPower).2 (afterGovPunish s h).2
    have hs := stakeFold_frame h.evidence
      { (afterGovPunish s h).1 with
          allDelegs := eligible (afterGovPunish s h).1 minPower,
          limiter := Limiter.reset (eligible (afterGovPunish s h).1 minPower) (afterGovPunish s h).1.active.maxValidatorCnt
            (afterGovPunish s h).1.active.maxIndividualStakeRatio (afterGovPunish s h).1.active.maxUpdatableStakeRatio }
    simp only at hs
    obtain ⟨h1, h2, h3, h4, h5, h6, h7, h8, h9, _⟩ := hs
    refine ⟨?_, v2.trans (h8.trans g8), v3.trans (h7.trans g7)⟩
    rw [v1]
    unfold afterPunish
    rw [h9]
    unfold eligible
    have : (afterGovPunish s h).1.delegs = s.delegs := g2
    rw [this]

/-! ### the lists through the transactions of a block, and through anything but EndBlock -/

theorem exec_txs_vl (mid : List Op) (h : ∀ op ∈ mid, isTx op = true) (s : St) : VL (exec s mid) = VL s := by
  induction mid generalizing s with
  | nil => rfl
  | cons op mid ih =>
    rw [exec_cons, ih (fun o ho => h o (List.mem_cons_of_mem _ ho))]
    have h1 := h op (by simp)
    cases op with
    | deliver tx => exact deliverTx_vl s tx
    | check tx => exact checkTx_vl s tx
    | _ => cases h1

theorem step_lastVals (s : St) (op : Op) (hi : op.isInit = false) (he : isEnd op = false) :
    (step s op).1.lastVals = s.lastVals := by
  cases op with
  | init g => cases hi
  | begin_ hd => exact (beginBlock_lists s hd).1
  | deliver tx => have := deliverTx_vl s tx; simp only [VL, Prod.mk.injEq] at this; exact this.2.1
  | check tx => have := checkTx_vl s tx; simp only [VL, Prod.mk.injEq] at this; exact this.2.1
  | end_ => cases he
  | commit => exact (commit_lists s).2
  | restart => rfl

theorem exec_lastVals_noEnd (ops : List Op) (hi : ∀ op ∈ ops, op.isInit = false) (he : endCount ops = 0) (s : St) :
    (exec s ops).lastVals = s.lastVals := by
  induction ops generalizing s with
  | nil => rfl
  | cons op ops ih =>
    have hop : isEnd op = false := by
      cases h : isEnd op
      · rfl
      · have : op = .end_ := by cases op <;> simp_all [isEnd]
        subst this; rw [endCount_cons_end] at he; omega
    rw [endCount_cons_other _ _ hop] at he
    rw [exec_cons, ih (fun o ho => hi o (List.mem_cons_of_mem _ ho)) he, step_lastVals s op (hi op (by simp)) hop]

/-! ### one whole block -/

/-- **what EndBlock(h) reports**: `s0` is the state at BeginBlock (between blocks), `mid` the block's
    transactions.  If neither BeginBlock nor EndBlock panics, the reported list is
    `sortByPower (take maxValidatorCnt (eligible s0 mp))`, the eligible list being computed from
    `s0.delegs.committed` — the ledger version committed by the previous block. -/
theorem block_lastVals {s0 : St} {hd : Header} {mid : List Op} (hmid : ∀ op ∈ mid, isTx op = true)
    (hb : (beginBlock s0 hd).2.panic = "")
    (he : (endBlock (exec s0 (.begin_ hd :: mid))).2.panic = "") :
    hd.height = s0.lastHeight + 1 ∧ ∃ mp, amountToPower s0.active.minValidatorStake = .ok mp ∧
      (exec s0 (.begin_ hd :: mid ++ [.end_])).lastVals =
        sortByPower ((eligible s0 mp).take s0.active.maxValidatorCnt.toNat) ∧
      (endBlock (exec s0 (.begin_ hd :: mid))).2.valUpdates =
        validatorUpdates (sortByAddr s0.lastVals) (sortByAddr ((eligible s0 mp).take s0.active.maxValidatorCnt.toNat)) := by
  obtain ⟨hh, mp, hmp, ha, hl, hact⟩ := beginBlock_noPanic s0 hd hb
  refine ⟨hh, mp, hmp, ?_⟩
  have hvl := exec_txs_vl mid hmid (beginBlock s0 hd).1
  simp only [VL, Prod.mk.injEq] at hvl
  obtain ⟨e1, e2, e3⟩ := hvl
  have hx : exec s0 (.begin_ hd :: mid) = exec (beginBlock s0 hd).1 mid := by rw [exec_cons]; rfl
  obtain ⟨_, h1, h2⟩ := endBlock_noPanic _ he
  have ht : topN (exec s0 (.begin_ hd :: mid)) = (eligible s0 mp).take s0.active.maxValidatorCnt.toNat := by
    unfold topN; rw [hx, e1, e3, ha, hact]
  constructor
  · have : exec s0 (.begin_ hd :: mid ++ [.end_]) = (endBlock (exec s0 (.begin_ hd :: mid))).1 := by
      rw [show (Op.begin_ hd :: mid ++ [Op.end_]) = (Op.begin_ hd :: mid) ++ [Op.end_] from rfl, exec_snoc]; rfl
    rw [this, h1, ht]
  · rw [h2, ht, hx, e2, hl]

/-- members of the eligible list are records of the committed ledger -/
theorem mem_eligible {s : St} {mp : Int} {d : Delegatee} (hd : d ∈ eligible s mp) :
    (∃ k : String, s.delegs.committed[k]? = some d) ∧ d.self ≥ mp := by
  have hd' := (sortByPower_perm _).mem_iff.mp hd
  obtain ⟨hd1, hd2⟩ := List.mem_filter.mp hd'
  obtain ⟨x, hx, rfl⟩ := List.mem_map.mp hd1
  exact ⟨⟨x.1, ExtTreeMap.mem_toList_iff_getElem?_eq_some.mp hx⟩, by simpa using hd2⟩

/-- … and every record of the committed ledger whose self power meets the minimum is in the eligible list -/
theorem eligible_of_mem {s : St} {mp : Int} {d : Delegatee} {k : String} (hk : s.delegs.committed[k]? = some d)
    (hs : d.self ≥ mp) : d ∈ eligible s mp := by
  apply (sortByPower_perm _).mem_iff.mpr
  apply List.mem_filter.mpr
  refine ⟨List.mem_map.mpr ⟨(k, d), ExtTreeMap.mem_toList_iff_getElem?_eq_some.mpr hk, rfl⟩, by simpa using hs⟩

end Rigo.C13P
