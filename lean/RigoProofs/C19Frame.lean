/-
  C19 (part 1): the *frame* of a state – the seven committed histories, the last committed height
  and the height of the block in execution – is untouched by transaction handling on either path,
  by the punishment / reward / proposal / refund phases of BeginBlock and EndBlock, and by restart.
  Only `commit` extends the histories (by exactly one version each).
-/
import RigoProofs.C06ConsBegin

namespace Rigo
namespace C19

open C06 (bbGov bbElig bbStake bbVotes beginBlock_eq)

structure Frame where
  accts : List (KMap Account)
  delegs : List (KMap Delegatee)
  frozen : List (KMap Stake)
  rewards : List (KMap Reward)
  params : List (KMap Params)
  props : List (KMap Proposal)
  fprops : List (KMap Proposal)
  lastHeight : Int
  blkHeight : Option Int

def frame (s : St) : Frame :=
  { accts := s.accts.hist, delegs := s.delegs.hist, frozen := s.frozen.hist, rewards := s.rewards.hist,
    params := s.params.hist, props := s.props.hist, fprops := s.fprops.hist,
    lastHeight := s.lastHeight, blkHeight := s.blk.map (·.height) }

@[simp] theorem set_hist {α : Type} (l : Led α) (e : Bool) (k : String) (v : α) : (l.set e k v).hist = l.hist := by
  unfold Led.set; split <;> rfl
@[simp] theorem del_hist {α : Type} (l : Led α) (e : Bool) (k : String) : (l.del e k).hist = l.hist := by
  unfold Led.del; split <;> rfl

@[simp] theorem freezeAll_hist (fr : Led Stake) (e : Bool) (ss : List Stake) (r : Int) :
    (freezeAll fr e ss r).hist = fr.hist := by
  unfold freezeAll
  induction ss generalizing fr with
  | nil => rfl
  | cons a ss ih => simp only [List.foldl_cons]; rw [ih]; simp

@[simp] theorem frame_setAcct (s : St) (e : Bool) (a : Account) : frame (s.setAcct e a) = frame s := by
  simp [frame, St.setAcct]

theorem frame_findOrNewAcct (s : St) (e : Bool) (a : Hex) : frame (s.findOrNewAcct e a).1 = frame s := by
  unfold St.findOrNewAcct; split <;> simp

theorem limit_frame {s s' : St} {e : Bool} {a : Hex} {t d : Int} (h : s.limit e a t d = .ok s') :
    frame s' = frame s := by
  unfold St.limit at h
  repeat' split at h
  all_goals first | (cases h; rfl) | cases h

macro "vclose" h:ident : tactic =>
  `(tactic| (all_goals first | (cases $h:ident; rfl) | (cases $h:ident; done) | exact limit_frame $h:ident))

theorem validateStaking_frame {s s' : St} {e : Bool} {tx : TxIn} (h : validateStaking s e tx = .ok s') :
    frame s' = frame s := by
  unfold validateStaking at h; unstep h; repeat' split at h
  vclose h

theorem validateUnstaking_frame {s s' : St} {e : Bool} {tx : TxIn} (h : validateUnstaking s e tx = .ok s') :
    frame s' = frame s := by
  unfold validateUnstaking at h; unstep h; repeat' split at h
  vclose h

theorem validateTrx_frame {s s' : St} {e : Bool} {ht : Int} {tx : TxIn} {a b : Account}
    (h : validateTrx s e ht tx a b = .ok s') : frame s' = frame s := by
  unfold validateTrx at h; unstep h; repeat' split at h
  all_goals first
    | (cases h; rfl)
    | (cases h; done)
    | (rw [C06.validateProposal_ok h])
    | (rw [C06.validateVoting_ok h])
    | exact validateStaking_frame h
    | exact validateUnstaking_frame h
    | (rw [C06.validateWithdraw_ok h])
    | (rw [C06.validateEvm_ok h])

macro "xclose" h:ident : tactic =>
  `(tactic| (all_goals first
      | (cases $h:ident; done)
      | (cases $h:ident; simp [frame, St.setAcct]; done)))

theorem execTransfer_frame {s : St} {e : Bool} {tx : TxIn} {r : RunOut} (h : execTransfer s e tx = .ok r) :
    frame r.st = frame s := by
  unfold execTransfer at h; unstep h; repeat' split at h
  xclose h

theorem execSetDoc_frame {s : St} {e : Bool} {tx : TxIn} {r : RunOut} (h : execSetDoc s e tx = .ok r) :
    frame r.st = frame s := by
  unfold execSetDoc at h; unstep h; repeat' split at h
  xclose h

theorem execStaking_frame {s : St} {e : Bool} {ht : Int} {tx : TxIn} {r : RunOut}
    (h : execStaking s e ht tx = .ok r) : frame r.st = frame s := by
  unfold execStaking at h; unstep h; repeat' split at h
  xclose h

theorem execUnstaking_frame {s : St} {e : Bool} {ht : Int} {tx : TxIn} {r : RunOut}
    (h : execUnstaking s e ht tx = .ok r) : frame r.st = frame s := by
  unfold execUnstaking at h; unstep h; repeat' split at h
  xclose h

theorem execProposal_frame {s : St} {e : Bool} {tx : TxIn} {r : RunOut} (h : execProposal s e tx = .ok r) :
    frame r.st = frame s := by
  unfold execProposal at h; unstep h; repeat' split at h
  xclose h

theorem execVoting_frame {s : St} {e : Bool} {tx : TxIn} {r : RunOut} (h : execVoting s e tx = .ok r) :
    frame r.st = frame s := by
  unfold execVoting at h; unstep h; repeat' split at h
  xclose h

theorem reward_frame {s s' : St} {e : Bool} {to : Hex} {amt : Nat} (h : s.reward e to amt = some s') :
    frame s' = frame s := by
  unfold St.reward at h; repeat' split at h
  xclose h

theorem execWithdraw_frame {s : St} {e : Bool} {ht : Int} {tx : TxIn} {r : RunOut}
    (h : execWithdraw s e ht tx = .ok r) : frame r.st = frame s := by
  unfold execWithdraw at h; unstep h; repeat' split at h
  all_goals first
    | (cases h; done)
    | (have hr := ‹St.reward _ _ _ _ = some _›; cases h; have := reward_frame hr; simp_all [frame]; done)

theorem foldl_inv {M α : Type} (P : M → Prop) (f : M → α → M) (hf : ∀ x a, P x → P (f x a))
    (l : List α) (x : M) (hx : P x) : P (l.foldl f x) := by
  induction l generalizing x with
  | nil => exact hx
  | cons a l ih => exact ih _ (hf _ _ hx)

theorem execEvm_frame {s : St} {e : Bool} {tx : TxIn} {r : RunOut} (h : execEvm s e tx = .ok r) :
    frame r.st = frame s := by
  unfold execEvm at h
  have h1 : ∀ (l : List Hex) (s0 : St), frame (l.foldl (fun acc a => (acc.findOrNewAcct true a).1) s0) = frame s0 :=
    fun l s0 => foldl_inv (fun x => frame x = frame s0) _
      (fun x a hx => by rw [frame_findOrNewAcct]; exact hx) l s0 rfl
  have h2 : ∀ (l : List (Hex × Nat × Nat)) (s0 : St), frame (l.foldl (fun acc (x : Hex × Nat × Nat) =>
        match x with
        | (a, bal, nonce) =>
          match acc.findOrNewAcct true a with
          | (acc', ac) => acc'.setAcct true { ac with bal := bal, nonce := nonce }) s0) = frame s0 :=
    fun l s0 => foldl_inv (fun x => frame x = frame s0) _
      (fun x a hx => by
        obtain ⟨a, bal, nonce⟩ := a
        simp only [frame_setAcct, frame_findOrNewAcct]; exact hx) l s0 rfl
  unstep h
  repeat' split at h
  all_goals first
    | (cases h; done)
    | (cases h; rfl)
    | (cases h; simp only [h1]; done)
    | (cases h; simp only [frame_setAcct, h1, h2]; done)

end C19
end Rigo
