/-
  Helper lemmas for C17 (sync protocol of `StateDBWrapper`): the implementation model `St`
  (tags + saved worlds) refines the reference semantics `Spec` (un-reverted operations) on every
  disciplined trace.  Property theorems are in RigoProps/C17.lean.
-/
import Rigo.EvmSync
open Std

namespace Rigo.EvmSync

/-! ### map folds -/

theorem eraseAll_get (ks : List Addr) (m : Tags) (k : Addr) :
    (eraseAll m ks)[k]? = if k ∈ ks then none else m[k]? := by
  unfold eraseAll
  induction ks generalizing m with
  | nil => simp
  | cons a ks ih =>
    simp only [List.foldl_cons, ih, List.mem_cons]
    by_cases h : k ∈ ks
    · simp [h]
    · by_cases e : k = a
      · subst e; simp [h]
      · have : a ≠ k := fun c => e c.symm
        simp [h, e, ExtTreeMap.getElem?_erase, this]

theorem mem_unsyncList (acc : Tags) (id : Nat) (a : Addr) :
    a ∈ unsyncList acc id ↔ ∃ tg, acc[a]? = some tg ∧ id < tg := by
  unfold unsyncList
  simp only [List.mem_map, List.mem_filter, decide_eq_true_eq]
  constructor
  · rintro ⟨⟨k, tg⟩, ⟨hm, hlt⟩, rfl⟩
    exact ⟨tg, ExtTreeMap.mem_toList_iff_getElem?_eq_some.mp hm, hlt⟩
  · rintro ⟨tg, h, hlt⟩
    exact ⟨(a, tg), ⟨ExtTreeMap.mem_toList_iff_getElem?_eq_some.mpr h, hlt⟩, rfl⟩

/-- the accessed set after `revertAccessedObjAddr id`: exactly the entries with tag `≤ id` -/
theorem unsync_get (acc : Tags) (id : Nat) (a : Addr) :
    (eraseAll acc (unsyncList acc id))[a]? =
      match acc[a]? with
      | some tg => if id < tg then none else some tg
      | none => none := by
  rw [eraseAll_get]
  cases h : acc[a]? with
  | none =>
    have : a ∉ unsyncList acc id := by
      rw [mem_unsyncList]; rintro ⟨tg, h', _⟩; rw [h] at h'; cases h'
    simp [this]
  | some tg =>
    by_cases hlt : id < tg
    · have : a ∈ unsyncList acc id := (mem_unsyncList acc id a).mpr ⟨tg, h, hlt⟩
      simp [this, hlt]
    · have : a ∉ unsyncList acc id := by
        rw [mem_unsyncList]; rintro ⟨tg', h', hl'⟩; rw [h] at h'; cases h'; exact hlt hl'
      simp [this, hlt]

theorem syncOut_get (ks : List Addr) (native evm : World) (b : Addr) :
    (syncOut native evm ks)[b]? = if b ∈ ks then some (valOf evm b) else native[b]? := by
  unfold syncOut
  induction ks generalizing native with
  | nil => simp
  | cons a ks ih =>
    simp only [List.foldl_cons, ih, List.mem_cons]
    by_cases h : b ∈ ks
    · simp [h]
    · by_cases e : b = a
      · subst e; simp [h]
      · have : a ≠ b := fun c => e c.symm
        simp [h, e, ExtTreeMap.getElem?_insert, this]

theorem synced_cons (o : LOp) (l : List LOp) (a : Addr) :
    synced (o :: l) a = (o.isAcc a || synced l a) := by
  simp [synced]

theorem Spec.syncOut_get (l : List LOp) (native evm : World) (b : Addr) :
    (Spec.syncOut native evm l)[b]? = if synced l b then some (valOf evm b) else native[b]? := by
  unfold Spec.syncOut
  induction l generalizing native with
  | nil => simp [synced]
  | cons o l ih =>
    simp only [List.foldl_cons, ih, synced_cons]
    cases o with
    | snap j => simp [LOp.isAcc]
    | wr c v => simp [LOp.isAcc]
    | acc c v =>
      simp only [LOp.isAcc]
      by_cases h : synced l b = true
      · simp [h]
      · by_cases e : c = b
        · subst e; simp [h]
        · simp [h, e, ExtTreeMap.getElem?_insert]

/-! ### live lists -/

theorem isSnap_iff (id : Nat) (o : LOp) : o.isSnap id = true ↔ o = .snap id := by
  cases o <;> simp [LOp.isSnap]

theorem mem_eraseScope {id : Nat} {l : List LOp} {o : LOp} (h : o ∈ eraseScope id l) : o ∈ l := by
  induction l with
  | nil => simp [eraseScope] at h
  | cons x l ih =>
    simp only [eraseScope] at h
    split at h
    · exact List.mem_cons_of_mem _ h
    · exact List.mem_cons_of_mem _ (ih h)

theorem synced_iff (l : List LOp) (a : Addr) : synced l a = true ↔ ∃ v, LOp.acc a v ∈ l := by
  unfold synced
  simp only [List.any_eq_true]
  constructor
  · rintro ⟨o, ho, h⟩
    cases o with
    | acc b v => simp [LOp.isAcc] at h; subst h; exact ⟨v, ho⟩
    | snap j => simp [LOp.isAcc] at h
    | wr b v => simp [LOp.isAcc] at h
  · rintro ⟨v, h⟩
    exact ⟨_, h, by simp [LOp.isAcc]⟩

/-- a live sync-in is either in the scope a revert discards or survives it -/
theorem synced_split (id : Nat) (l : List LOp) (a : Addr) :
    synced l a = (synced (scopeOf id l) a || (l.any (LOp.isSnap id) && synced (eraseScope id l) a)) := by
  induction l with
  | nil => simp [synced, scopeOf, eraseScope]
  | cons o l ih =>
    simp only [scopeOf, eraseScope]
    by_cases h : o.isSnap id = true
    · have : o = .snap id := (isSnap_iff id o).mp h
      subst this
      simp [LOp.isAcc, LOp.isSnap, synced]
    · simp only [h, Bool.false_eq_true, ↓reduceIte, synced_cons, ih, List.any_cons, Bool.false_or]
      cases o.isAcc a <;> simp

/-- revisions recorded for a live list: one per live snapshot, holding the world below it -/
def revsOf (base : World) : List LOp → List (Nat × World)
  | [] => []
  | .snap id :: l => (id, evmOf base l) :: revsOf base l
  | .acc _ _ :: l => revsOf base l
  | .wr _ _ :: l => revsOf base l

theorem mem_revsOf_ids (base : World) (l : List LOp) (id : Nat) :
    (revsOf base l).any (fun r => r.1 == id) = l.any (LOp.isSnap id) := by
  induction l with
  | nil => simp [revsOf]
  | cons o l ih => cases o <;> simp [revsOf, ih, LOp.isSnap]

/-- tag bounds: the tag of a live sync-in is above every older live snapshot id, at most every
    newer live snapshot id, and at most `ub`; live snapshot ids decrease with age and are `< ub` -/
def TagsOK (acc : Tags) : Nat → List LOp → Prop
  | _, [] => True
  | ub, .snap id :: l => id < ub ∧ TagsOK acc id l
  | ub, .acc a _ :: l =>
    (∃ tg, acc[a]? = some tg ∧ tg ≤ ub ∧ ∀ j, LOp.snap j ∈ l → j < tg) ∧ TagsOK acc ub l
  | ub, .wr _ _ :: l => TagsOK acc ub l

theorem TagsOK.mono {acc : Tags} {ub ub' : Nat} (h : ub ≤ ub') :
    ∀ {l : List LOp}, TagsOK acc ub l → TagsOK acc ub' l
  | [], _ => trivial
  | .snap id :: l, ⟨h1, h2⟩ => ⟨by omega, h2⟩
  | .acc a v :: l, ⟨⟨tg, h1, h2, h3⟩, h4⟩ => ⟨⟨tg, h1, by omega, h3⟩, TagsOK.mono h h4⟩
  | .wr a v :: l, h4 => TagsOK.mono (l := l) h h4

theorem TagsOK.snap_lt {acc : Tags} :
    ∀ {ub : Nat} {l : List LOp}, TagsOK acc ub l → ∀ j, LOp.snap j ∈ l → j < ub
  | _, [], _, j, hj => by simp at hj
  | ub, .snap id :: l, ⟨h1, h2⟩, j, hj => by
    simp only [List.mem_cons, LOp.snap.injEq] at hj
    rcases hj with rfl | hj
    · exact h1
    · have := TagsOK.snap_lt h2 j hj; omega
  | ub, .acc a v :: l, ⟨_, h4⟩, j, hj => by
    simp only [List.mem_cons, reduceCtorEq, false_or] at hj
    exact TagsOK.snap_lt h4 j hj
  | ub, .wr a v :: l, h4, j, hj => by
    simp only [List.mem_cons, reduceCtorEq, false_or] at hj
    exact TagsOK.snap_lt (l := l) h4 j hj

/-- every live sync-in has a tag -/
theorem TagsOK.tag {acc : Tags} :
    ∀ {ub : Nat} {l : List LOp}, TagsOK acc ub l → ∀ a, synced l a = true →
      ∃ tg, acc[a]? = some tg ∧ tg ≤ ub
  | _, [], _, a, ha => by simp [synced] at ha
  | ub, .snap id :: l, ⟨h1, h2⟩, a, ha => by
    simp only [synced_cons, LOp.isAcc, Bool.false_or] at ha
    obtain ⟨tg, h, hle⟩ := TagsOK.tag h2 a ha
    exact ⟨tg, h, by omega⟩
  | ub, .acc b v :: l, ⟨⟨tg, h1, h2, _⟩, h4⟩, a, ha => by
    simp only [synced_cons, LOp.isAcc, Bool.or_eq_true, beq_iff_eq] at ha
    rcases ha with rfl | ha
    · exact ⟨tg, h1, h2⟩
    · exact TagsOK.tag h4 a ha
  | ub, .wr b v :: l, h4, a, ha => by
    simp only [synced_cons, LOp.isAcc, Bool.false_or] at ha
    exact TagsOK.tag (l := l) h4 a ha

/-- only the tags of live sync-ins matter -/
theorem TagsOK.congr {acc acc' : Tags} :
    ∀ {ub : Nat} {l : List LOp}, (∀ b, synced l b = true → acc'[b]? = acc[b]?) →
      TagsOK acc ub l → TagsOK acc' ub l
  | _, [], _, _ => trivial
  | ub, .snap id :: l, hc, ⟨h1, h2⟩ =>
    ⟨h1, TagsOK.congr (fun b hb => hc b (by simp [synced_cons, hb])) h2⟩
  | ub, .acc a v :: l, hc, ⟨⟨tg, h1, h2, h3⟩, h4⟩ =>
    ⟨⟨tg, by rw [hc a (by simp [synced_cons, LOp.isAcc])]; exact h1, h2, h3⟩,
      TagsOK.congr (fun b hb => hc b (by simp [synced_cons, hb])) h4⟩
  | ub, .wr a v :: l, hc, h4 =>
    TagsOK.congr (l := l) (fun b hb => hc b (by simp [synced_cons, LOp.isAcc, hb])) h4

/-- what survives `revert id` carries tags `≤ id` -/
theorem TagsOK.erase {acc : Tags} {id : Nat} :
    ∀ {ub : Nat} {l : List LOp}, TagsOK acc ub l → l.any (LOp.isSnap id) = true →
      TagsOK acc id (eraseScope id l)
  | _, [], _, hs => by simp at hs
  | ub, .snap j :: l, ⟨h1, h2⟩, hs => by
    simp only [eraseScope, LOp.isSnap, beq_iff_eq]
    by_cases e : j = id
    · subst e; simpa using h2
    · simp only [e, ↓reduceIte]
      have hne : (j == id) = false := by simp [e]
      simp only [List.any_cons, LOp.isSnap, hne, Bool.false_or] at hs
      exact TagsOK.erase h2 hs
  | ub, .acc a v :: l, ⟨_, h4⟩, hs => by
    simp only [List.any_cons, LOp.isSnap, Bool.false_or] at hs
    simpa [eraseScope, LOp.isSnap] using TagsOK.erase h4 hs
  | ub, .wr a v :: l, h4, hs => by
    simp only [List.any_cons, LOp.isSnap, Bool.false_or] at hs
    simpa [eraseScope, LOp.isSnap] using TagsOK.erase (l := l) h4 hs

/-- what `revert id` discards carries tags `> id` -/
theorem TagsOK.scope {acc : Tags} {id : Nat} :
    ∀ {ub : Nat} {l : List LOp}, TagsOK acc ub l → l.any (LOp.isSnap id) = true →
      ∀ a, synced (scopeOf id l) a = true → ∃ tg, acc[a]? = some tg ∧ id < tg
  | _, [], _, hs, _, _ => by simp at hs
  | ub, .snap j :: l, ⟨h1, h2⟩, hs, a, ha => by
    simp only [scopeOf, LOp.isSnap, beq_iff_eq] at ha
    by_cases e : j = id
    · simp [e, synced] at ha
    · simp only [e, ↓reduceIte, synced_cons, LOp.isAcc, Bool.false_or] at ha
      have hne : (j == id) = false := by simp [e]
      simp only [List.any_cons, LOp.isSnap, hne, Bool.false_or] at hs
      exact TagsOK.scope h2 hs a ha
  | ub, .acc b v :: l, ⟨⟨tg, h1, _, h3⟩, h4⟩, hs, a, ha => by
    simp only [List.any_cons, LOp.isSnap, Bool.false_or] at hs
    simp only [scopeOf, LOp.isSnap, Bool.false_eq_true, ↓reduceIte, synced_cons, LOp.isAcc,
      Bool.or_eq_true, beq_iff_eq] at ha
    rcases ha with rfl | ha
    · refine ⟨tg, h1, h3 id ?_⟩
      simp only [List.any_eq_true] at hs
      obtain ⟨o, ho, hi⟩ := hs
      rw [(isSnap_iff id o).mp hi] at ho; exact ho
    · exact TagsOK.scope h4 hs a ha
  | ub, .wr b v :: l, h4, hs, a, ha => by
    simp only [List.any_cons, LOp.isSnap, Bool.false_or] at hs
    simp only [scopeOf, LOp.isSnap, Bool.false_eq_true, ↓reduceIte, synced_cons, LOp.isAcc,
      Bool.false_or] at ha
    exact TagsOK.scope (l := l) h4 hs a ha

/-- go-ethereum's revision search (`sort.Search` for the first id `≥ revid`) finds the live
    snapshot, the world below it and the older revisions -/
theorem dropWhile_revsOf {acc : Tags} (base : World) (id : Nat) :
    ∀ {ub : Nat} {l : List LOp}, TagsOK acc ub l → l.any (LOp.isSnap id) = true →
      (revsOf base l).dropWhile (fun r => decide (r.1 > id)) =
        (id, evmOf base (eraseScope id l)) :: revsOf base (eraseScope id l)
  | _, [], _, hs => by simp at hs
  | ub, .snap j :: l, ⟨h1, h2⟩, hs => by
    by_cases e : j = id
    · subst e; simp [revsOf, eraseScope, LOp.isSnap]
    · have hne : (j == id) = false := by simp [e]
      simp only [List.any_cons, LOp.isSnap, hne, Bool.false_or] at hs
      have hlt : id < j := by
        simp only [List.any_eq_true] at hs
        obtain ⟨o, ho, hi⟩ := hs
        rw [(isSnap_iff id o).mp hi] at ho
        exact TagsOK.snap_lt h2 id ho
      have : decide (j > id) = true := by simp [hlt]
      simp only [revsOf, List.dropWhile, this, eraseScope, LOp.isSnap, beq_iff_eq, e, ↓reduceIte]
      exact dropWhile_revsOf base id h2 hs
  | ub, .acc a v :: l, ⟨_, h4⟩, hs => by
    simp only [List.any_cons, LOp.isSnap, Bool.false_or] at hs
    simpa [revsOf, eraseScope, LOp.isSnap] using dropWhile_revsOf base id h4 hs
  | ub, .wr a v :: l, h4, hs => by
    simp only [List.any_cons, LOp.isSnap, Bool.false_or] at hs
    simpa [revsOf, eraseScope, LOp.isSnap] using dropWhile_revsOf base id (l := l) h4 hs

/-! ### shape of the live list: one sync-in per address, writes only above it -/

def WF : List LOp → Prop
  | [] => True
  | .snap _ :: l => WF l
  | .acc a _ :: l => synced l a = false ∧ WF l
  | .wr a _ :: l => synced l a = true ∧ WF l

theorem WF.erase {id : Nat} : ∀ {l : List LOp}, WF l → WF (eraseScope id l)
  | [], _ => by simp [eraseScope, WF]
  | .snap j :: l, h => by
    have h' : WF l := h
    by_cases e : j = id
    · simpa [eraseScope, LOp.isSnap, e] using h'
    · simpa [eraseScope, LOp.isSnap, e] using WF.erase (id := id) h'
  | .acc a v :: l, h => by simpa [eraseScope, LOp.isSnap] using WF.erase h.2
  | .wr a v :: l, h => by simpa [eraseScope, LOp.isSnap] using WF.erase h.2

/-- an address without live sync-in is not touched by any live operation -/
theorem WF.untouched : ∀ {l : List LOp}, WF l → ∀ a, synced l a = false →
    l.filter (LOp.touches a) = []
  | [], _, _, _ => rfl
  | .snap j :: l, h, a, ha => by
    simp only [synced_cons, LOp.isAcc, Bool.false_or] at ha
    simpa [LOp.touches] using WF.untouched (l := l) h a ha
  | .acc b v :: l, h, a, ha => by
    simp only [synced_cons, LOp.isAcc, Bool.or_eq_false_iff, beq_eq_false_iff_ne, ne_eq] at ha
    have hb : (b == a) = false := by simp [ha.1]
    simpa [LOp.touches, hb] using WF.untouched h.2 a ha.2
  | .wr b v :: l, h, a, ha => by
    simp only [synced_cons, LOp.isAcc, Bool.false_or] at ha
    have hb : (b == a) = false := by
      cases e : (b == a) with
      | false => rfl
      | true => simp only [beq_iff_eq] at e; subst e; rw [h.1] at ha; cases ha
    simpa [LOp.touches, hb] using WF.untouched h.2 a ha

/-- the live operations on a synced address: its un-reverted writes (newest first), then the
    sync-in itself, and nothing older -/
theorem WF.shape : ∀ {l : List LOp}, WF l → ∀ a, synced l a = true →
    ∃ (ws : List Val) (v : Val), l.filter (LOp.touches a) = ws.map (LOp.wr a) ++ [LOp.acc a v]
  | [], _, a, ha => by simp [synced] at ha
  | .snap j :: l, h, a, ha => by
    simp only [synced_cons, LOp.isAcc, Bool.false_or] at ha
    simpa [LOp.touches] using WF.shape (l := l) h a ha
  | .acc b v :: l, h, a, ha => by
    by_cases e : b = a
    · subst e
      refine ⟨[], v, ?_⟩
      simp [LOp.touches, WF.untouched h.2 b h.1]
    · have hb : (b == a) = false := by simp [e]
      simp only [synced_cons, LOp.isAcc, hb, Bool.false_or] at ha
      simpa [LOp.touches, hb] using WF.shape h.2 a ha
  | .wr b v :: l, h, a, ha => by
    simp only [synced_cons, LOp.isAcc, Bool.false_or] at ha
    obtain ⟨ws, v', hs⟩ := WF.shape h.2 a ha
    by_cases e : b = a
    · subst e
      exact ⟨v :: ws, v', by simp [LOp.touches, hs]⟩
    · have hb : (b == a) = false := by simp [e]
      exact ⟨ws, v', by simp [LOp.touches, hb, hs]⟩

/-- value written by the newest live operation on `a` -/
def topVal (l : List LOp) (a : Addr) : Option Val :=
  match (l.filter (LOp.touches a)).head? with
  | some (.acc _ v) => some v
  | some (.wr _ v) => some v
  | _ => none

theorem evmOf_get (base : World) (l : List LOp) (a : Addr) :
    (evmOf base l)[a]? = (topVal l a).or base[a]? := by
  induction l with
  | nil => simp [evmOf, topVal]
  | cons o l ih =>
    cases o with
    | snap j => simpa [evmOf, topVal, LOp.touches] using ih
    | acc b v =>
      by_cases e : b = a
      · subst e; simp [evmOf, topVal, LOp.touches]
      · have hb : (b == a) = false := by simp [e]
        have hc : compare b a ≠ .eq := by simpa using e
        simpa [evmOf, topVal, LOp.touches, hb, ExtTreeMap.getElem?_insert, hc] using ih
    | wr b v =>
      by_cases e : b = a
      · subst e; simp [evmOf, topVal, LOp.touches]
      · have hb : (b == a) = false := by simp [e]
        have hc : compare b a ≠ .eq := by simpa using e
        simpa [evmOf, topVal, LOp.touches, hb, ExtTreeMap.getElem?_insert, hc] using ih

/-! ### the refinement invariant -/

structure Rel (s : St) (t : Spec) : Prop where
  native : s.native = t.native
  nextId : s.nextId = t.nextId
  evm : s.evm = evmOf t.base t.live
  revs : s.revs = revsOf t.base t.live
  tags : TagsOK s.accessed (s.snapshot + 1) t.live
  sub : ∀ a, a ∈ s.accessed → synced t.live a = true
  wf : WF t.live
  nat : ∀ a v, LOp.acc a v ∈ t.live → v = valOf t.native a
  lt : t.live ≠ [] → s.snapshot < s.nextId

/-- what holds in each phase of a disciplined trace -/
def Inv : Phase → St → Spec → Prop
  | .idle, s, t => Rel s t ∧ t.live = [] ∧ s.accessed = ∅
  | .tx n, s, t => Rel s t ∧ (∀ (a : Addr) (tg : Nat), s.accessed[a]? = some tg → n < tg) ∧
      (∀ j, LOp.snap j ∈ t.live → n ≤ j) ∧ n ≤ s.snapshot ∧ s.snapshot < s.nextId
  | .failed, s, t => Rel s t ∧ s.accessed = ∅ ∧ s.revs = []
  | .done, s, t => s.native = t.native ∧ s.nextId = t.nextId ∧ s.evm = t.base ∧ t.live = [] ∧
      s.accessed = ∅

theorem Inv_init (native evm : World) : Inv .idle (init native evm) (Spec.init native evm) := by
  refine ⟨⟨rfl, rfl, rfl, rfl, trivial, ?_, trivial, ?_, ?_⟩, rfl, rfl⟩
  · intro a ha; simp [init] at ha
  · intro a v h; simp [Spec.init] at h
  · intro h; simp [Spec.init] at h

/-- in a refined state an address is in the accessed set iff it has an un-reverted sync-in -/
theorem Rel.mem_iff {s : St} {t : Spec} (r : Rel s t) (a : Addr) :
    a ∈ s.accessed ↔ synced t.live a = true := by
  constructor
  · exact r.sub a
  · intro h
    obtain ⟨tg, htg, _⟩ := r.tags.tag a h
    exact ExtTreeMap.mem_iff_isSome_getElem?.mpr (by simp [htg])

/-! ### one step preserves the relation -/

theorem rel_snapshot {s : St} {t : Spec} (r : Rel s t) :
    Rel (step s .snapshot).1 (t.step .snapshot) := by
  have htags : TagsOK s.accessed t.nextId t.live := by
    by_cases hl : t.live = []
    · rw [hl]; trivial
    · have := r.lt hl
      exact r.tags.mono (by rw [← r.nextId]; omega)
  refine ⟨r.native, by simp [step, Spec.step, r.nextId], r.evm, ?_, ?_, ?_, r.wf, ?_, ?_⟩
  · simp [step, Spec.step, revsOf, r.nextId, r.evm, r.revs]
  · exact ⟨by simp [step, r.nextId], htags⟩
  · intro a ha
    simpa [Spec.step, synced_cons, LOp.isAcc] using r.sub a ha
  · intro a v h
    simp only [Spec.step, List.mem_cons, reduceCtorEq, false_or] at h
    exact r.nat a v h
  · intro _; simp [step]

theorem rel_access {s : St} {t : Spec} (r : Rel s t) (a : Addr) (hlt : s.snapshot < s.nextId) :
    Rel (step s (.access a)).1 (t.step (.access a)) := by
  by_cases ha : a ∈ s.accessed
  · have hs : synced t.live a = true := r.sub a ha
    simpa [step, Spec.step, ha, hs] using r
  · have hs : synced t.live a = false := by
      cases e : synced t.live a with
      | false => rfl
      | true => exact absurd ((r.mem_iff a).mpr e) ha
    have hnone : s.accessed[a]? = none := by
      cases e : s.accessed[a]? with
      | none => rfl
      | some tg => exact absurd (ExtTreeMap.mem_iff_isSome_getElem?.mpr (by simp [e])) ha
    simp only [step, ha, ↓reduceIte, Spec.step, hs, Bool.false_eq_true]
    refine ⟨r.native, r.nextId, ?_, ?_, ?_, ?_, ?_, ?_, ?_⟩
    · simp [evmOf, r.evm, r.native]
    · simp [revsOf, r.revs]
    · refine ⟨⟨s.snapshot + 1, by simp, Nat.le_refl _, ?_⟩, ?_⟩
      · intro j hj
        exact r.tags.snap_lt j hj
      · refine r.tags.congr ?_
        intro b hb
        have : a ≠ b := by rintro rfl; rw [hs] at hb; cases hb
        simp [ExtTreeMap.getElem?_insert, this]
    · intro b hb
      simp only [ExtTreeMap.mem_insert, compare_eq_iff_eq] at hb
      rcases hb with rfl | hb
      · simp [synced_cons, LOp.isAcc]
      · simp [synced_cons, r.sub b hb]
    · exact ⟨hs, r.wf⟩
    · intro b v h
      simp only [List.mem_cons, LOp.acc.injEq] at h
      rcases h with ⟨rfl, rfl⟩ | h
      · rfl
      · exact r.nat b v h
    · intro _; exact hlt

theorem rel_write {s : St} {t : Spec} (r : Rel s t) (a : Addr) (v : Val) (ha : a ∈ s.accessed)
    (hlt : s.snapshot < s.nextId) :
    Rel (step s (.write a v)).1 (t.step (.write a v)) := by
  simp only [step, Spec.step]
  refine ⟨r.native, r.nextId, ?_, ?_, ?_, ?_, ⟨r.sub a ha, r.wf⟩, ?_, fun _ => hlt⟩
  · simp [evmOf, r.evm]
  · simp [revsOf, r.revs]
  · exact r.tags
  · intro b hb
    simp [synced_cons, r.sub b hb]
  · intro b w h
    simp only [List.mem_cons, reduceCtorEq, false_or] at h
    exact r.nat b w h

theorem any_isSnap_mem {id : Nat} {l : List LOp} (hs : l.any (LOp.isSnap id) = true) :
    LOp.snap id ∈ l := by
  simp only [List.any_eq_true] at hs
  obtain ⟨o, ho, hi⟩ := hs
  rw [(isSnap_iff id o).mp hi] at ho; exact ho

/-- the state after reverting to a live revision -/
theorem step_revert_live {s : St} {t : Spec} (r : Rel s t) (id : Nat)
    (hs : t.live.any (LOp.isSnap id) = true) :
    step s (.revert id) =
      ({ s with accessed := eraseAll s.accessed (unsyncList s.accessed id),
                evm := evmOf t.base (eraseScope id t.live),
                revs := revsOf t.base (eraseScope id t.live) }, .unsync (unsyncList s.accessed id)) := by
  simp only [step]
  rw [r.revs, dropWhile_revsOf t.base id r.tags hs]
  simp

theorem rel_revert {s : St} {t : Spec} (r : Rel s t) (id : Nat)
    (hs : t.live.any (LOp.isSnap id) = true) :
    Rel (step s (.revert id)).1 (t.step (.revert id)) := by
  rw [step_revert_live r id hs]
  simp only [Spec.step]
  have herase := r.tags.erase hs
  have hkeep : ∀ b, synced (eraseScope id t.live) b = true →
      (eraseAll s.accessed (unsyncList s.accessed id))[b]? = s.accessed[b]? := by
    intro b hb
    obtain ⟨tg, htg, hle⟩ := herase.tag b hb
    rw [unsync_get, htg]
    have : ¬ id < tg := by omega
    simp [this]
  have hid : id < s.snapshot + 1 := r.tags.snap_lt id (any_isSnap_mem hs)
  refine ⟨r.native, r.nextId, rfl, rfl, ?_, ?_, r.wf.erase, ?_, ?_⟩
  · exact (herase.congr hkeep).mono (by simp only; omega)
  · intro a ha
    have hsome := ExtTreeMap.mem_iff_isSome_getElem?.mp ha
    rw [unsync_get] at hsome
    cases hacc : s.accessed[a]? with
    | none => rw [hacc] at hsome; simp at hsome
    | some tg =>
      rw [hacc] at hsome
      have hle : ¬ id < tg := by
        intro c; simp [c] at hsome
      have hmem : a ∈ s.accessed := ExtTreeMap.mem_iff_isSome_getElem?.mpr (by simp [hacc])
      have hsy := r.sub a hmem
      rw [synced_split id, hs] at hsy
      simp only [Bool.true_and, Bool.or_eq_true] at hsy
      rcases hsy with h1 | h2
      · obtain ⟨tg', h', hlt'⟩ := r.tags.scope hs a h1
        rw [hacc] at h'; cases h'; exact absurd hlt' hle
      · exact h2
  · intro a v h
    exact r.nat a v (mem_eraseScope h)
  · intro hne
    apply r.lt
    intro c; rw [c] at hne; simp [eraseScope] at hne

/-- `Finish` writes to the native ledger exactly what the reference semantics writes -/
theorem finish_native_eq {s : St} {t : Spec} (r : Rel s t) :
    syncOut s.native s.evm s.accessed.keys = Spec.syncOut t.native t.evm t.live := by
  apply ExtTreeMap.ext_getElem?
  intro b
  rw [syncOut_get, Spec.syncOut_get]
  by_cases hb : b ∈ s.accessed
  · have hk : b ∈ s.accessed.keys := ExtTreeMap.mem_keys.mpr hb
    simp [hk, (r.mem_iff b).mp hb, Spec.evm, r.evm]
  · have : synced t.live b = false := by
      cases e : synced t.live b with
      | false => rfl
      | true => exact absurd ((r.mem_iff b).mpr e) hb
    have hk : b ∉ s.accessed.keys := fun c => hb (ExtTreeMap.mem_keys.mp c)
    simp [hk, this, r.native]

theorem inv_step {p p' : Phase} {s : St} {t : Spec} (o : Op) (h : Inv p s t)
    (hd : discStep p s o = some p') : Inv p' (step s o).1 (t.step o) := by
  cases o with
  | snapshot =>
    cases p with
    | idle =>
      obtain ⟨r, hl, ha⟩ := h
      simp only [discStep, Option.some.injEq] at hd
      subst hd
      refine ⟨rel_snapshot r, ?_, ?_, ?_, ?_⟩
      · intro a tg hs; simp [step, ha] at hs
      · intro j hj
        simp only [Spec.step, hl, List.mem_singleton, LOp.snap.injEq] at hj
        rw [hj, r.nextId]; exact Nat.le_refl _
      · simp [step]
      · simp [step]
    | tx n =>
      obtain ⟨r, h1, h2, h3, h4⟩ := h
      simp only [discStep, Option.some.injEq] at hd
      subst hd
      refine ⟨rel_snapshot r, h1, ?_, ?_, ?_⟩
      · intro j hj
        simp only [Spec.step, List.mem_cons, LOp.snap.injEq] at hj
        rcases hj with rfl | hj
        · rw [← r.nextId]; omega
        · exact h2 j hj
      · simp only [step]; omega
      · simp [step]
    | failed => simp [discStep] at hd
    | done => simp [discStep] at hd
  | access a =>
    cases p with
    | tx n =>
      obtain ⟨r, h1, h2, h3, h4⟩ := h
      simp only [discStep, Option.some.injEq] at hd
      subst hd
      refine ⟨rel_access r a h4, ?_, ?_, ?_, ?_⟩
      · intro b tg hs
        by_cases ha : a ∈ s.accessed
        · simp only [step, ha, ↓reduceIte] at hs; exact h1 b tg hs
        · simp only [step, ha, ↓reduceIte, ExtTreeMap.getElem?_insert] at hs
          split at hs
          · cases hs; omega
          · exact h1 b tg hs
      · intro j hj
        apply h2 j
        simp only [Spec.step] at hj
        split at hj
        · exact hj
        · simpa using hj
      · by_cases ha : a ∈ s.accessed <;> simp [step, ha, h3]
      · by_cases ha : a ∈ s.accessed <;> simp [step, ha, h4]
    | idle => simp [discStep] at hd
    | failed => simp [discStep] at hd
    | done => simp [discStep] at hd
  | write a v =>
    cases p with
    | tx n =>
      obtain ⟨r, h1, h2, h3, h4⟩ := h
      by_cases ha : a ∈ s.accessed
      · simp only [discStep, ha, ↓reduceIte, Option.some.injEq] at hd
        subst hd
        refine ⟨rel_write r a v ha h4, h1, ?_, h3, h4⟩
        intro j hj
        apply h2 j
        simpa [Spec.step] using hj
      · simp [discStep, ha] at hd
    | idle => simp [discStep] at hd
    | failed => simp [discStep] at hd
    | done => simp [discStep] at hd
  | revert id =>
    cases p with
    | tx n =>
      obtain ⟨r, h1, h2, h3, h4⟩ := h
      by_cases hv : s.revs.any (fun r => r.1 == id) = true
      · have hs : t.live.any (LOp.isSnap id) = true := by
          rw [← mem_revsOf_ids t.base, ← r.revs]; exact hv
        have hr := rel_revert r id hs
        have hget : ∀ (a : Addr) (tg : Nat),
            (step s (.revert id)).1.accessed[a]? = some tg → s.accessed[a]? = some tg ∧ ¬ id < tg := by
          intro a tg hh
          rw [step_revert_live r id hs] at hh
          simp only [unsync_get] at hh
          cases hacc : s.accessed[a]? with
          | none => rw [hacc] at hh; cases hh
          | some tg' =>
            rw [hacc] at hh
            by_cases c : id < tg'
            · simp [c] at hh
            · simp only [c, ↓reduceIte, Option.some.injEq] at hh
              subst hh; exact ⟨rfl, c⟩
        simp only [discStep, hv, ↓reduceIte] at hd
        by_cases e : id = n
        · simp only [e, ↓reduceIte, Option.some.injEq] at hd
          subst hd
          subst e
          refine ⟨hr, ?_, ?_⟩
          · apply ExtTreeMap.ext_getElem?
            intro a
            cases hh : (step s (.revert id)).1.accessed[a]? with
            | none => simp
            | some tg =>
              obtain ⟨h5, h6⟩ := hget a tg hh
              exact absurd (h1 a tg h5) h6
          · rw [step_revert_live r id hs]
            simp only
            have herase := r.tags.erase hs
            have : ∀ j, LOp.snap j ∉ eraseScope id t.live := by
              intro j hj
              have hlt := herase.snap_lt j hj
              have hge := h2 j (mem_eraseScope hj)
              omega
            generalize eraseScope id t.live = l at this
            induction l with
            | nil => rfl
            | cons o l ih =>
              cases o with
              | snap j => exact absurd List.mem_cons_self (this j)
              | acc b v =>
                simp only [revsOf]
                exact ih (fun j hj => this j (List.mem_cons_of_mem _ hj))
              | wr b v =>
                simp only [revsOf]
                exact ih (fun j hj => this j (List.mem_cons_of_mem _ hj))
        · simp only [e, ↓reduceIte, Option.some.injEq] at hd
          subst hd
          refine ⟨hr, ?_, ?_, ?_, ?_⟩
          · intro a tg hh
            exact h1 a tg (hget a tg hh).1
          · intro j hj
            exact h2 j (mem_eraseScope (by simpa [Spec.step] using hj))
          · rw [step_revert_live r id hs]; exact h3
          · rw [step_revert_live r id hs]; exact h4
      · simp [discStep, hv] at hd
    | idle => simp [discStep] at hd
    | failed => simp [discStep] at hd
    | done => simp [discStep] at hd
  | finish =>
    cases p with
    | tx n =>
      obtain ⟨r, h1, h2, h3, h4⟩ := h
      simp only [discStep, Option.some.injEq] at hd
      subst hd
      refine ⟨?_, r.nextId, ?_, rfl, rfl⟩
      · simp only [step, Spec.step]; exact finish_native_eq r
      · simp only [step, Spec.step, Spec.evm]; exact r.evm
    | failed =>
      obtain ⟨r, ha, hrv⟩ := h
      simp only [discStep, Option.some.injEq] at hd
      subst hd
      refine ⟨⟨?_, r.nextId, ?_, ?_, trivial, ?_, trivial, ?_, ?_⟩, rfl, rfl⟩
      · simp only [step, Spec.step]; exact finish_native_eq r
      · simp only [step, Spec.step, Spec.evm, evmOf]; exact r.evm
      · simp only [step, Spec.step, revsOf]; exact hrv
      · intro a h; simp [step] at h
      · intro a v h; simp [Spec.step] at h
      · intro h; simp [Spec.step] at h
    | idle => simp [discStep] at hd
    | done => simp [discStep] at hd
  | finalise =>
    cases p with
    | done =>
      obtain ⟨h1, h2, h3, h4, h5⟩ := h
      simp only [discStep, Option.some.injEq] at hd
      subst hd
      refine ⟨⟨h1, h2, ?_, ?_, ?_, ?_, ?_, ?_, ?_⟩, h4, h5⟩
      · simp only [step, Spec.step, h4, evmOf]; exact h3
      · simp [step, Spec.step, h4, revsOf]
      · simp only [Spec.step, h4]; trivial
      · intro a h; simp [step, h5] at h
      · simp only [Spec.step, h4]; trivial
      · intro a v h; simp [Spec.step, h4] at h
      · intro h; simp [Spec.step, h4] at h
    | idle => simp [discStep] at hd
    | failed => simp [discStep] at hd
    | tx n => simp [discStep] at hd
  | native a v =>
    cases p with
    | idle =>
      obtain ⟨r, hl, ha⟩ := h
      simp only [discStep, Option.some.injEq] at hd
      subst hd
      refine ⟨⟨?_, r.nextId, r.evm, r.revs, r.tags, r.sub, r.wf, ?_, r.lt⟩, hl, ha⟩
      · simp [step, Spec.step, r.native]
      · intro b w h; simp [Spec.step, hl] at h
    | done => simp [discStep] at hd
    | failed => simp [discStep] at hd
    | tx n => simp [discStep] at hd

theorem inv_run {p' : Phase} : ∀ (tr : List Op) {p : Phase} {s : St} {t : Spec}, Inv p s t →
    discRun p s tr = some p' → Inv p' (run s tr) (t.run tr)
  | [], p, s, t, h, hd => by
    simp only [discRun, Option.some.injEq] at hd; subst hd; exact h
  | o :: tr, p, s, t, h, hd => by
    simp only [discRun] at hd
    cases hs : discStep p s o with
    | none => rw [hs] at hd; cases hd
    | some q =>
      rw [hs] at hd
      exact inv_run tr (inv_step o h hs) hd

/-! ### traces -/

theorem step_revert_native (s : St) (id : Nat) : (step s (.revert id)).1.native = s.native := by
  simp only [step]
  split
  · split <;> rfl
  · rfl

theorem step_finish_native (s : St) :
    (step s .finish).1.native = syncOut s.native s.evm s.accessed.keys := rfl

theorem run_append (s : St) (xs ys : List Op) : run s (xs ++ ys) = run (run s xs) ys := by
  simp [run, List.foldl_append]

theorem Spec.run_append (t : Spec) (xs ys : List Op) : t.run (xs ++ ys) = (t.run xs).run ys := by
  simp [Spec.run, List.foldl_append]

theorem run_cons (s : St) (o : Op) (os : List Op) : run s (o :: os) = run (step s o).1 os := rfl

theorem Spec.run_cons (t : Spec) (o : Op) (os : List Op) : t.run (o :: os) = (t.step o).run os := rfl

theorem discRun_append : ∀ (xs ys : List Op) (p : Phase) (s : St),
    discRun p s (xs ++ ys) = (discRun p s xs).bind (fun q => discRun q (run s xs) ys)
  | [], ys, p, s => by simp [discRun, run]
  | o :: xs, ys, p, s => by
    simp only [List.cons_append, discRun]
    cases h : discStep p s o with
    | none => simp
    | some q => simpa [run_cons] using discRun_append xs ys q (step s o).1

/-- every disciplined trace reaches a phase in which the invariant holds -/
theorem disc_inv {native evm : World} {tr : List Op} (h : Disciplined native evm tr) :
    ∃ p, phaseOf native evm tr = some p ∧
      Inv p (run (init native evm) tr) ((Spec.init native evm).run tr) := by
  unfold Disciplined at h
  cases hp : phaseOf native evm tr with
  | none => rw [hp] at h; cases h
  | some p => exact ⟨p, rfl, inv_run tr (Inv_init native evm) hp⟩

/-- a prefix of a disciplined trace is disciplined -/
theorem Disciplined.prefix {native evm : World} {xs ys : List Op}
    (h : Disciplined native evm (xs ++ ys)) : Disciplined native evm xs := by
  unfold Disciplined phaseOf at *
  rw [discRun_append] at h
  cases hx : discRun .idle (init native evm) xs with
  | none => rw [hx] at h; cases h
  | some q => rfl

/-- the phase after `xs ++ ys` is the phase reached from the phase after `xs` -/
theorem phaseOf_append {native evm : World} {xs ys : List Op} {q : Phase}
    (hx : phaseOf native evm xs = some q) :
    phaseOf native evm (xs ++ ys) = discRun q (run (init native evm) xs) ys := by
  unfold phaseOf at *
  rw [discRun_append, hx]; rfl

/-- inside one transaction (no `finish`) the native ledger and the EVM world of the transaction's
    start stay what they were, and the phase stays `tx n` until the top-level revert -/
theorem tx_frame : ∀ (body : List Op) (p : Phase) (n : Nat) (s : St) (t : Spec) (p' : Phase),
    (p = .tx n ∨ p = .failed) → (∀ o ∈ body, o ≠ Op.finish) → discRun p s body = some p' →
      (p' = .tx n ∨ p' = .failed) ∧ (run s body).native = s.native ∧
        (t.run body).native = t.native ∧ (t.run body).base = t.base
  | [], p, n, s, t, p', hp, _, hd => by
    simp only [discRun, Option.some.injEq] at hd; subst hd
    exact ⟨hp, rfl, rfl, rfl⟩
  | o :: body, p, n, s, t, p', hp, hb, hd => by
    simp only [discRun] at hd
    cases hs : discStep p s o with
    | none => rw [hs] at hd; cases hd
    | some q =>
      rw [hs] at hd
      have hne : o ≠ Op.finish := hb o List.mem_cons_self
      have hq : (q = .tx n ∨ q = .failed) ∧ (step s o).1.native = s.native ∧
          (t.step o).native = t.native ∧ (t.step o).base = t.base := by
        rcases hp with rfl | rfl
        · cases o with
          | snapshot => simp only [discStep, Option.some.injEq] at hs; subst hs; simp [step, Spec.step]
          | access a =>
            simp only [discStep, Option.some.injEq] at hs; subst hs
            by_cases ha : a ∈ s.accessed <;> by_cases hy : synced t.live a = true <;>
              simp [step, Spec.step, ha, hy]
          | write a v =>
            by_cases ha : a ∈ s.accessed
            · simp only [discStep, ha, ↓reduceIte, Option.some.injEq] at hs; subst hs
              simp [step, Spec.step]
            · simp [discStep, ha] at hs
          | revert id =>
            have hn : (step s (.revert id)).1.native = s.native := by
              simp only [step]
              split
              · split <;> rfl
              · rfl
            by_cases hv : s.revs.any (fun r => r.1 == id) = true
            · simp only [discStep, hv, ↓reduceIte] at hs
              by_cases e : id = n
              · simp only [e, ↓reduceIte, Option.some.injEq] at hs; subst hs
                exact ⟨Or.inr rfl, e ▸ hn, rfl, rfl⟩
              · simp only [e, ↓reduceIte, Option.some.injEq] at hs; subst hs
                exact ⟨Or.inl rfl, hn, rfl, rfl⟩
            · simp [discStep, hv] at hs
          | finish => exact absurd rfl hne
          | finalise => simp [discStep] at hs
          | native a v => simp [discStep] at hs
        · cases o with
          | finish => exact absurd rfl hne
          | snapshot => simp [discStep] at hs
          | access a => simp [discStep] at hs
          | write a v => simp [discStep] at hs
          | revert id => simp [discStep] at hs
          | finalise => simp [discStep] at hs
          | native a v => simp [discStep] at hs
      obtain ⟨hq1, hq2, hq3, hq4⟩ := hq
      obtain ⟨r1, r2, r3, r4⟩ := tx_frame body q n (step s o).1 (t.step o) p' hq1
        (fun o' ho' => hb o' (List.mem_cons_of_mem _ ho')) hd
      exact ⟨r1, by rw [run_cons, r2, hq2], by rw [Spec.run_cons, r3, hq3],
        by rw [Spec.run_cons, r4, hq4]⟩

/-- operations that neither access `a` nor change its native account leave `a` un-accessed and its
    native account alone (whatever else they do, `finish` included) -/
theorem untouched_run (a : Addr) : ∀ (mid : List Op) (s : St), a ∉ s.accessed →
    (∀ o ∈ mid, o ≠ Op.access a ∧ ∀ w, o ≠ Op.native a w) →
      a ∉ (run s mid).accessed ∧ (run s mid).native[a]? = s.native[a]?
  | [], s, ha, _ => ⟨ha, rfl⟩
  | o :: mid, s, ha, hm => by
    have ho := hm o List.mem_cons_self
    have hstep : a ∉ (step s o).1.accessed ∧ (step s o).1.native[a]? = s.native[a]? := by
      cases o with
      | snapshot => exact ⟨ha, rfl⟩
      | access b =>
        have hb : b ≠ a := fun c => ho.1 (by rw [c])
        by_cases hmem : b ∈ s.accessed
        · simpa [step, hmem] using ha
        · simp only [step, hmem, ↓reduceIte, ExtTreeMap.mem_insert, compare_eq_iff_eq, not_or]
          exact ⟨⟨hb, ha⟩, trivial⟩
      | write b v => exact ⟨ha, rfl⟩
      | revert id =>
        have hacc : a ∉ eraseAll s.accessed (unsyncList s.accessed id) := by
          intro c
          have := ExtTreeMap.mem_iff_isSome_getElem?.mp c
          rw [unsync_get] at this
          have hnone : s.accessed[a]? = none := by
            cases e : s.accessed[a]? with
            | none => rfl
            | some tg => exact absurd (ExtTreeMap.mem_iff_isSome_getElem?.mpr (by simp [e])) ha
          rw [hnone] at this; simp at this
        simp only [step]
        split
        · split
          · exact ⟨hacc, rfl⟩
          · exact ⟨hacc, rfl⟩
        · exact ⟨hacc, rfl⟩
      | finish =>
        refine ⟨by simp [step], ?_⟩
        simp only [step]
        rw [syncOut_get]
        have : a ∉ s.accessed.keys := fun c => ha (ExtTreeMap.mem_keys.mp c)
        simp [this]
      | finalise => exact ⟨ha, rfl⟩
      | native b w =>
        have hb : b ≠ a := fun c => ho.2 w (by rw [c])
        refine ⟨ha, ?_⟩
        simp [step, ExtTreeMap.getElem?_insert, hb]
    obtain ⟨h1, h2⟩ := untouched_run a mid (step s o).1 hstep.1
      (fun o' ho' => hm o' (List.mem_cons_of_mem _ ho'))
    exact ⟨by rw [run_cons]; exact h1, by rw [run_cons, h2, hstep.2]⟩

end Rigo.EvmSync
