/-
  C14 — the block marker (`block_marker.go`): `mark` keeps the list strictly increasing,
  `countInWindow` counts exactly the marked heights inside the inclusive window and its pruning
  never drops a height that a later window (with a lower bound that did not move back) can see.
-/
import Rigo.Block
open Std

namespace Rigo.C14L

open Delegatee

/-- strictly increasing list of heights -/
def Increasing (hs : List Int) : Prop := hs.Pairwise (· < ·)

/-- membership in the inclusive window `[h0, h1]` -/
def inWin (h0 h1 : Int) (h : Int) : Bool := decide (h0 ≤ h) && decide (h ≤ h1)

/-- number of marked heights inside the inclusive window -/
def winCount (hs : List Int) (h0 h1 : Int) : Nat := (hs.filter (inWin h0 h1)).length

/-! ### mark -/

theorem getLast?_lt_of_increasing {hs : List Int} (h : Increasing hs) {l : Int} (hl : hs.getLast? = some l) :
    ∀ x ∈ hs, x ≤ l := by
  intro x hx
  obtain ⟨ys, rfl⟩ : ∃ ys, hs = ys ++ [l] := by
    rcases List.eq_nil_or_concat hs with rfl | ⟨ys, y, rfl⟩
    · simp at hl
    · simp at hl; exact ⟨ys, by rw [hl]; simp⟩
  unfold Increasing at h
  rw [List.pairwise_append] at h
  rcases List.mem_append.mp hx with hx | hx
  · exact Int.le_of_lt (h.2.2 x hx l (by simp))
  · simp at hx; omega

theorem mark_increasing {hs : List Int} (h : Increasing hs) (x : Int) : Increasing (mark hs x) := by
  unfold mark
  cases hl : hs.getLast? with
  | none => simp [Increasing]
  | some l =>
    simp only
    split
    · exact h
    · unfold Increasing
      rw [List.pairwise_append]
      refine ⟨h, by simp, ?_⟩
      intro a ha b hb
      simp at hb; subst hb
      have := getLast?_lt_of_increasing h hl a ha
      omega

/-- `mark` appends the height unless the list already reaches it (the error is dropped by the caller) -/
theorem mark_eq (hs : List Int) (x : Int) :
    mark hs x = if ∃ l, hs.getLast? = some l ∧ l ≥ x then hs else hs ++ [x] := by
  unfold mark
  cases hl : hs.getLast? with
  | none =>
    have : hs = [] := by simpa using hl
    simp [this]
  | some l =>
    simp only
    by_cases h : l ≥ x <;> simp [h]

/-! ### the counting loop -/

theorem countLoop_fst (h0 h1 : Int) (l : List Int) (hinc : Increasing l) (i : Nat) (pre : Int) (cnt : Nat) :
    (countLoop h0 h1 l i pre cnt).1 = cnt + winCount l h0 h1 := by
  induction l generalizing i pre cnt with
  | nil => simp [countLoop, winCount]
  | cons h rest ih =>
    unfold countLoop
    simp only
    have hrest : Increasing rest := (List.pairwise_cons.mp hinc).2
    have hhd := (List.pairwise_cons.mp hinc).1
    by_cases hstop : h ≥ h1
    · simp only [hstop, if_true]
      have hnone : rest.filter (inWin h0 h1) = [] := by
        rw [List.filter_eq_nil_iff]; intro a ha
        have := hhd a ha
        simp only [inWin, Bool.and_eq_true, decide_eq_true_eq]; omega
      unfold winCount
      rw [List.filter_cons, hnone]
      by_cases hw : h ≥ h0 ∧ h ≤ h1
      · have : inWin h0 h1 h = true := by simp only [inWin, Bool.and_eq_true, decide_eq_true_eq]; omega
        simp [hw, this]
      · have : inWin h0 h1 h = false := by
          simp only [inWin, Bool.and_eq_false_iff, decide_eq_false_iff_not]; omega
        simp [hw, this]
    · simp only [hstop, if_false]
      rw [ih hrest]
      unfold winCount
      rw [List.filter_cons]
      by_cases hw : h ≥ h0 ∧ h ≤ h1
      · have : inWin h0 h1 h = true := by simp only [inWin, Bool.and_eq_true, decide_eq_true_eq]; omega
        simp [hw, this]; omega
      · have : inWin h0 h1 h = false := by
          simp only [inWin, Bool.and_eq_false_iff, decide_eq_false_iff_not]; omega
        simp [hw, this]

/-- **`countInWindow` counts exactly the marked heights inside `[h0, h1]`** -/
theorem countInWindow_count (hs : List Int) (hinc : Increasing hs) (h0 h1 : Int) :
    (countInWindow hs h0 h1).1 = winCount hs h0 h1 := by
  unfold countInWindow
  by_cases h : h0 > h1
  · simp only [h, if_true]
    unfold winCount
    have : hs.filter (inWin h0 h1) = [] := by
      rw [List.filter_eq_nil_iff]; intro a _
      simp only [inWin, Bool.and_eq_true, decide_eq_true_eq]; omega
    simp [this]
  · simp only [h, if_false]
    have := countLoop_fst h0 h1 hs hinc 0 (-1) 0
    simpa using this

/-! ### pruning -/

/-- number of marked heights below the window -/
def lowCount (hs : List Int) (h0 : Int) : Nat := (hs.filter (fun h => decide (h < h0))).length

theorem lowCount_zero_of_ge {l : List Int} {h0 : Int} (h : ∀ a ∈ l, h0 ≤ a) : lowCount l h0 = 0 := by
  unfold lowCount
  have : l.filter (fun h => decide (h < h0)) = [] := by
    rw [List.filter_eq_nil_iff]; intro a ha; have := h a ha; simp only [decide_eq_true_eq]; omega
  simp [this]

theorem lowCount_cons (h : Int) (rest : List Int) (h0 : Int) :
    lowCount (h :: rest) h0 = (if h < h0 then 1 else 0) + lowCount rest h0 := by
  unfold lowCount
  rw [List.filter_cons]
  by_cases hh : h < h0 <;> simp [hh]; omega

theorem countLoop_snd (h0 h1 : Int) (h01 : h0 ≤ h1) (l : List Int) (hinc : Increasing l) (i : Nat) (pre : Int) (cnt : Nat) :
    (countLoop h0 h1 l i pre cnt).2 = if lowCount l h0 = 0 then pre else ((i + lowCount l h0 : Nat) : Int) - 1 := by
  induction l generalizing i pre cnt with
  | nil => simp [countLoop, lowCount]
  | cons h rest ih =>
    unfold countLoop
    simp only
    have hrest : Increasing rest := (List.pairwise_cons.mp hinc).2
    have hhd := (List.pairwise_cons.mp hinc).1
    rw [lowCount_cons]
    by_cases hstop : h ≥ h1
    · simp only [hstop, if_true]
      have hz : lowCount rest h0 = 0 := lowCount_zero_of_ge (fun a ha => by have := hhd a ha; omega)
      have hh : ¬ h < h0 := by omega
      simp [hz, hh]
    · simp only [hstop, if_false]
      rw [ih hrest]
      by_cases hh : h < h0
      · simp only [hh, if_true]
        by_cases hz : lowCount rest h0 = 0
        · simp [hz]
        · simp only [hz, if_false]
          have : ¬ (1 + lowCount rest h0 = 0) := by omega
          simp only [this, if_false]; omega
      · have hz : lowCount rest h0 = 0 := lowCount_zero_of_ge (fun a ha => by have := hhd a ha; omega)
        simp [hz, hh]

theorem take_lowCount {l : List Int} (hinc : Increasing l) (h0 : Int) : ∀ x ∈ l.take (lowCount l h0), x < h0 := by
  induction l with
  | nil => simp
  | cons h rest ih =>
    have hrest : Increasing rest := (List.pairwise_cons.mp hinc).2
    have hhd := (List.pairwise_cons.mp hinc).1
    rw [lowCount_cons]
    by_cases hh : h < h0
    · simp only [hh, if_true]
      intro x hx
      rw [Nat.add_comm, List.take_succ_cons] at hx
      rcases List.mem_cons.mp hx with rfl | hx
      · exact hh
      · exact ih hrest x hx
    · have hz : lowCount rest h0 = 0 := lowCount_zero_of_ge (fun a ha => by have := hhd a ha; omega)
      simp [hz, hh]

/-- the pruned list is a suffix of the marks, and only heights below the window were dropped -/
theorem countInWindow_pruned (hs : List Int) (hinc : Increasing hs) (h0 h1 : Int) :
    ∃ k, (countInWindow hs h0 h1).2 = hs.drop k ∧ ∀ x ∈ hs.take k, x < h0 := by
  unfold countInWindow
  by_cases h : h0 > h1
  · exact ⟨0, by simp [h], by simp⟩
  · simp only [h, if_false]
    have hsnd := countLoop_snd h0 h1 (by omega) hs hinc 0 (-1) 0
    by_cases hp : (countLoop h0 h1 hs 0 (-1) 0).2 > 0
    · refine ⟨lowCount hs h0, ?_, take_lowCount hinc h0⟩
      simp only [hp, if_true]
      congr 1
      rw [hsnd] at hp ⊢
      by_cases hz : lowCount hs h0 = 0
      · simp [hz] at hp
      · simp only [hz, if_false] at hp ⊢; omega
    · exact ⟨0, by simp [hp], by simp⟩

/-- **pruning never drops a height that a later window can see**: for every window whose lower bound
    is not below the current one the pruned marks give the same count as the full marks -/
theorem winCount_pruned (hs : List Int) (hinc : Increasing hs) (h0 h1 : Int) (h0' h1' : Int) (hmono : h0 ≤ h0') :
    winCount (countInWindow hs h0 h1).2 h0' h1' = winCount hs h0' h1' := by
  obtain ⟨k, hk, hlow⟩ := countInWindow_pruned hs hinc h0 h1
  rw [hk]
  unfold winCount
  conv => rhs; rw [← List.take_append_drop k hs, List.filter_append]
  have : (hs.take k).filter (inWin h0' h1') = [] := by
    rw [List.filter_eq_nil_iff]; intro a ha
    have := hlow a ha
    simp only [inWin, Bool.and_eq_true, decide_eq_true_eq]; omega
  simp [this]

theorem countInWindow_pruned_increasing (hs : List Int) (hinc : Increasing hs) (h0 h1 : Int) :
    Increasing (countInWindow hs h0 h1).2 := by
  obtain ⟨k, hk, _⟩ := countInWindow_pruned hs hinc h0 h1
  rw [hk]
  exact List.Pairwise.sublist (List.drop_sublist k hs) hinc

/-- every mark inside or above the window survives pruning -/
theorem mem_pruned (hs : List Int) (hinc : Increasing hs) (h0 h1 : Int) (x : Int) (hx : x ∈ hs) (hge : h0 ≤ x) :
    x ∈ (countInWindow hs h0 h1).2 := by
  obtain ⟨k, hk, hlow⟩ := countInWindow_pruned hs hinc h0 h1
  rw [hk]
  rw [← List.take_append_drop k hs] at hx
  rcases List.mem_append.mp hx with h | h
  · have := hlow x h; omega
  · exact h

end Rigo.C14L
