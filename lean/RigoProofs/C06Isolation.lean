/-
  C06 (part 7): every consensus operation respects the consensus view; a schedule and the same
  schedule without its CheckTx calls produce the same consensus outcomes (unwinding argument).
-/
import RigoProofs.C06ConsEnd

namespace Rigo
namespace C06

/-- the mempool operations -/
def Op.isCheck : Op → Bool
  | .check _ => true
  | _ => false

/-- a schedule without its CheckTx calls -/
def eraseChecks (ops : List Op) : List Op := ops.filter (fun o => !Op.isCheck o)

/-- the outcomes of the consensus operations of a schedule (`outs` = the outcomes of all of them) -/
def consOuts : List Op → List Out → List Out
  | op :: ops, o :: os => if Op.isCheck op then consOuts ops os else o :: consOuts ops os
  | _, _ => []

theorem commit_E (s : St) : consEq (commit (E s)).1 (commit s).1 ∧ (commit (E s)).2 = (commit s).2 := by
  unfold commit
  dsimp only [E_blk]
  cases s.blk with
  | none => exact ⟨rfl, rfl⟩
  | some b => exact ⟨rfl, rfl⟩

theorem restart_E (s : St) : consEq (restart (E s)) (restart s) := rfl

theorem step_E (s : St) (op : Op) (hop : Op.isCheck op = false) :
    consEq (step (E s) op).1 (step s op).1 ∧ (step (E s) op).2 = (step s op).2 := by
  cases op with
  | init g => exact ⟨rfl, rfl⟩
  | begin_ h => show consEq (beginBlock (E s) h).1 _ ∧ (beginBlock (E s) h).2 = _; rw [beginBlock_E]; exact ⟨rfl, rfl⟩
  | deliver tx => show consEq (deliverTx (E s) tx).1 _ ∧ (deliverTx (E s) tx).2 = _; rw [deliverTx_E]; exact ⟨rfl, rfl⟩
  | check tx => simp [Op.isCheck] at hop
  | end_ => show consEq (endBlock (E s)).1 _ ∧ (endBlock (E s)).2 = _; rw [endBlock_E]; exact ⟨rfl, rfl⟩
  | commit => exact commit_E s
  | restart => exact ⟨restart_E s, rfl⟩

theorem step_consEq {s₁ s₂ : St} (h : consEq s₁ s₂) (op : Op) (hop : Op.isCheck op = false) :
    consEq (step s₁ op).1 (step s₂ op).1 ∧ (step s₁ op).2 = (step s₂ op).2 := by
  have h1 := step_E s₁ op hop
  have h2 := step_E s₂ op hop
  have he : E s₁ = E s₂ := h
  rw [he] at h1
  exact ⟨h1.1.symm.trans h2.1, h1.2.symm.trans h2.2⟩

theorem run_isolation (ops : List Op) : ∀ (s₁ s₂ : St), consEq s₁ s₂ →
    consEq (run s₁ ops).1 (run s₂ (eraseChecks ops)).1 ∧
      consOuts ops (run s₁ ops).2 = (run s₂ (eraseChecks ops)).2 := by
  induction ops with
  | nil => intro s₁ s₂ h; exact ⟨h, rfl⟩
  | cons op ops ih =>
    intro s₁ s₂ h
    cases hop : Op.isCheck op with
    | true =>
      cases op with
      | check tx =>
        have h1 : consEq (step s₁ (.check tx)).1 s₂ := (checkTx_consEq s₁ tx).trans h
        have := ih _ _ h1
        simpa [run, eraseChecks, Op.isCheck, consOuts] using this
      | _ => simp [Op.isCheck] at hop
    | false =>
      have h1 := step_consEq h op hop
      have := ih _ _ h1.1
      simp only [eraseChecks, List.filter_cons, hop, Bool.not_false, if_true, run, consOuts] at this ⊢
      refine ⟨this.1, ?_⟩
      simp [this.2, h1.2]

theorem commit_views (s : St) (b : BlockCtx) (hb : s.blk = some b) :
    let s' := (commit s).1
    (s'.accts.chk = s'.accts.fin ∧ s'.accts.fin = s'.accts.committed) ∧
    (s'.delegs.chk = s'.delegs.fin ∧ s'.delegs.fin = s'.delegs.committed) ∧
    (s'.frozen.chk = s'.frozen.fin ∧ s'.frozen.fin = s'.frozen.committed) ∧
    (s'.rewards.chk = s'.rewards.fin ∧ s'.rewards.fin = s'.rewards.committed) ∧
    (s'.params.chk = s'.params.fin ∧ s'.params.fin = s'.params.committed) ∧
    (s'.props.chk = s'.props.fin ∧ s'.props.fin = s'.props.committed) ∧
    (s'.fprops.chk = s'.fprops.fin ∧ s'.fprops.fin = s'.fprops.committed) := by
  simp [commit, hb, Led.commit, Led.committed]

end C06
end Rigo
