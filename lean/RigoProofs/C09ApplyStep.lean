/-
  C09 (the apply-time parse panic of EndBlock is unreachable), part 2: every operation keeps `OptsParse`
  — from ANY state (no phase discipline, no input hypothesis), hence in every reachable state.
-/
import RigoProofs.C09ApplyInv

open Std

namespace Rigo.C09A
open Rigo Rigo.C15

/-! ### BeginBlock: governance punishment rewrites open proposals (consensus view) through `doPunish` only -/

theorem govPunish_propsA (P : String → Proposal → Prop)
    (hP : ∀ (k : String) (p : Proposal) (a : Hex) (r : Int), P k p → P k (p.doPunish a r).1)
    (s : St) (a : Hex) (h : LedAll P s.props) : LedAll P (govPunish s a).1.props := by
  unfold govPunish
  simp only []
  generalize (List.map (fun x => x.1) (List.filter (fun x => x.2.voters.any (·.addr == a)) s.props.committed.toList)) = targets
  suffices hh : ∀ (acc : St × Int), LedAll P acc.1.props → LedAll P (targets.foldl (fun (x : St × Int) k =>
      match x with
      | (acc, sum) =>
        match acc.props.get true k with
        | none => (acc, sum)
        | some p =>
          let (p', sl) := p.doPunish a acc.active.slashRatio
          ({ acc with props := acc.props.set true k p' }, sum + sl)) acc).1.props from hh (s, 0) h
  induction targets with
  | nil => intro acc h; exact h
  | cons k ks ih =>
    intro acc h
    simp only [List.foldl_cons]
    apply ih
    obtain ⟨acc, sum⟩ := acc
    simp only []
    split
    · exact h
    · rename_i p hp
      exact LedAll.set h _ _ _ (hP k p a _ (h.get hp))

theorem bGov_propsA (P : String → Proposal → Prop)
    (hP : ∀ (k : String) (p : Proposal) (a : Hex) (r : Int), P k p → P k (p.doPunish a r).1)
    (s : St) (ev : List Hex) (h : LedAll P s.props) : LedAll P (bGov s ev).1.props := by
  unfold bGov
  suffices hh : ∀ (acc : St × List Int), LedAll P acc.1.props → LedAll P (ev.foldl (fun (x : St × List Int) a =>
      match x with
      | (acc, l) => let (acc', sl) := govPunish acc a; (acc', l ++ [sl])) acc).1.props from hh (s, []) h
  induction ev with
  | nil => intro acc h; exact h
  | cons a as ih =>
    intro acc h
    simp only [List.foldl_cons]
    apply ih
    obtain ⟨acc, l⟩ := acc
    exact govPunish_propsA P hP acc a h

theorem beginBlock_props (s : St) (h : Header) (hp : LedAll PropOK s.props) :
    LedAll PropOK (beginBlock s h).1.props := by
  have pB : LedAll PropOK (bGov (bbA s h) h.evidence).1.props :=
    bGov_propsA PropOK doPunish_propOK _ _ (by rw [(bbA_fr s h).2.2.1]; exact hp)
  apply beginBlock_ind s h (fun x => LedAll PropOK x.props) hp
  · intro _; exact pB
  · intro _ m _
    rw [(bStake_fr _ _).2.2.1, (bbC_fr _ m).2.1.2.1]; exact pB
  · intro _ m rl s' issued _ _ hv
    rw [(bVotes_vfr hv).2.1, (bStake_fr _ _).2.2.1, (bbC_fr _ m).2.1.2.1]; exact pB

theorem beginBlock_optsParse (s : St) (h : Header) (hs : OptsParse s) : OptsParse (beginBlock s h).1 := by
  obtain ⟨_, e2, _⟩ := beginBlock_bfr s h
  exact ⟨beginBlock_props s h hs.props, by rw [e2]; exact hs.fprops⟩

/-! ### EndBlock -/

/-- what `freezeProposals` writes into the frozen ledger: the options sorted, the major option their head -/
theorem frozOK_freeze {k : String} {p : Proposal} {top : VoteOpt} (hp : PropOK k p)
    (hhead : (sortOptions p.options).head? = some top) :
    FrozOK k { p with options := sortOptions p.options, major := some top } := by
  refine ⟨fun hty => sortOptions_optsP (hp hty), ?_⟩
  intro m hm
  have hm' : some top = some m := hm
  cases hm'
  exact List.mem_of_head? hhead

/-- the major option recorded by `freezeProposals` is one of the options the proposal had before sorting -/
theorem major_mem_original {p : Proposal} {top : VoteOpt} (hhead : (sortOptions p.options).head? = some top) :
    top ∈ p.options :=
  mem_sortOptions.mp (List.mem_of_head? hhead)

theorem freezeProposals_optsParse {s s1 : St} {height : Int} (h : freezeProposals s height = .ok s1) (hs : OptsParse s) :
    OptsParse s1 := by
  rw [freezeProposals_eq] at h
  have key := foldl_resStep_inv (freezeOne height)
    (fun x => LedAll PropOK x.props ∧ LedAll FrozOK x.fprops)
    s.props.committed.toList ?_ s s1 ⟨hs.props, hs.fprops⟩ h
  · exact ⟨key.1, key.2⟩
  · intro x kp x' hmem ⟨q3, q4⟩ hx
    obtain ⟨_, _, _, e4, e5⟩ := freezeOne_spec hx
    have hq : PropOK kp.1 kp.2 :=
      hs.props.committed kp.1 kp.2 (Std.ExtTreeMap.mem_toList_iff_getElem?_eq_some.mp hmem)
    refine ⟨?_, ?_⟩
    · rcases e5 with e5 | e5
      · rw [e5]; exact q3
      · rw [e5]; exact q3.del _ _
    · rcases e4 with e4 | ⟨top, _, hhead, _, e4⟩
      · rw [e4]; exact q4
      · rw [e4]; exact q4.set _ _ _ (frozOK_freeze hq hhead)

theorem applyProposals_optsParse {s s2 : St} {height : Int} (h : applyProposals s height = .ok s2) (hs : OptsParse s) :
    OptsParse s2 := by
  obtain ⟨_, hp, hf, _⟩ := applyProposals_spec FrozOK h hs.fprops
  exact ⟨by rw [hp]; exact hs.props, hf⟩

theorem endBlock_optsParse (s : St) (hs : OptsParse s) : OptsParse (endBlock s).1 := by
  apply endBlock_ind s OptsParse hs
  · intro b s1 _ h1; exact freezeProposals_optsParse h1 hs
  · intro b s1 s2 _ h1 h2; exact applyProposals_optsParse h2 (freezeProposals_optsParse h1 hs)
  · intro b s1 s2 s' _ _ _ t p2
    obtain ⟨⟨_, t2, t3, _⟩, _⟩ := t
    exact ⟨by rw [t3]; exact p2.props, by rw [t2]; exact p2.fprops⟩
  · intro b s1 s2 s4 s5 ups _ _ _ _ p4 hu
    obtain ⟨⟨_, t2, t3, _⟩, _⟩ := updateValidators_tfr hu
    exact ⟨by rw [t3]; exact p4.props, by rw [t2]; exact p4.fprops⟩

/-! ### InitChain, Commit, restart and the step -/

/-- **optsParse_init**: both proposal ledgers are empty after InitChain -/
theorem optsParse_init (g : Genesis) : OptsParse (initChain g) := by
  obtain ⟨hfr, _, hp⟩ := initChain_ifr g
  obtain ⟨_, e2, _⟩ := hfr
  refine ⟨?_, ?_⟩
  · unfold FrP at hp; rw [hp]; exact LedAll.empty _
  · rw [e2]; exact LedAll.empty _

theorem commit_optsParse (s : St) (hs : OptsParse s) : OptsParse (commit s).1 := by
  unfold commit
  split
  · exact hs
  · exact ⟨hs.props.commit, hs.fprops.commit⟩

theorem restart_optsParse (s : St) (hs : OptsParse s) : OptsParse (restart s) :=
  ⟨hs.props.reopen, hs.fprops.reopen⟩

/-- **optsParse_step**: every operation but InitChain keeps the invariant, from ANY state satisfying it — no phase
    discipline, no hypothesis on the transaction (validation itself establishes the fact for new proposals) -/
theorem optsParse_step {s : St} (hs : OptsParse s) (op : Op) (hop : op.isInit = false) : OptsParse (step s op).1 := by
  cases op with
  | init g => simp [Op.isInit] at hop
  | begin_ h => exact beginBlock_optsParse s h hs
  | deliver tx => exact deliverTx_optsParse s tx hs
  | check tx => exact checkTx_optsParse s tx hs
  | end_ => exact endBlock_optsParse s hs
  | commit => exact commit_optsParse s hs
  | restart => exact restart_optsParse s hs

/-- an InitChain in the middle of a history (excluded by `Reachable`) re-establishes the invariant as well -/
theorem optsParse_step_any {s : St} (hs : OptsParse s) (op : Op) : OptsParse (step s op).1 := by
  cases op with
  | init g => exact optsParse_init g
  | begin_ h => exact optsParse_step hs (.begin_ h) rfl
  | deliver tx => exact optsParse_step hs (.deliver tx) rfl
  | check tx => exact optsParse_step hs (.check tx) rfl
  | end_ => exact optsParse_step hs .end_ rfl
  | commit => exact optsParse_step hs .commit rfl
  | restart => exact optsParse_step hs .restart rfl

/-- **optsParse_reachable** -/
theorem optsParse_reachable {g : Genesis} {s : St} (h : Reachable g s) : OptsParse s :=
  Reachable.induction OptsParse (optsParse_init g) (fun _ op _ hp hop => optsParse_step hp op hop) h

end Rigo.C09A
