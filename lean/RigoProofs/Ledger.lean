import Rigo.Ledger.Step
open Std

namespace Rigo.Ledger

theorem getElem?_eraseAll (t : Map) (ks : List Key) (k : Key) :
    (eraseAll t ks)[k]? = if k ∈ ks then none else t[k]? := by
  unfold eraseAll
  induction ks generalizing t with
  | nil => simp
  | cons a as ih =>
    simp only [List.foldl_cons, ih, List.mem_cons]
    by_cases h1 : k ∈ as
    · simp [h1]
    · by_cases h2 : k = a
      · subst h2; simp [h1]
      · simp only [h1, h2, or_self, ite_false]
        rw [ExtTreeMap.getElem?_erase]
        have : compare a k ≠ .eq := by
          intro h; exact h2 (Nat.compare_eq_eq.mp h).symm
        simp [this]

/-- coherence of one overlay's caches with the tree -/
def OvInv (m : MemItems) (t : Map) : Prop :=
  ∀ (k : Key),
    (∀ (v : Val), m.updated[k]? = some v → m.got[k]? = some v) ∧
    (∀ (v : Val), m.got[k]? = some v →
        m.updated[k]? = some v ∨ (m.updated[k]? = none ∧ k ∉ m.removed ∧ t[k]? = some v))

def absOv (m : MemItems) : Ov := ⟨m.updated, m.removed⟩

theorem OvInv_empty (t : Map) : OvInv {} t := by
  intro k; simp

end Rigo.Ledger

namespace Rigo.Ledger
open Impl

theorem cmp_eq_iff (a b : Key) : compare a b = .eq ↔ a = b := Nat.compare_eq_eq

/-- `get`: answer = spec view, overlay abstraction unchanged, coherence kept -/
theorem getIn_spec (m : MemItems) (t : Map) (k : Key) (h : OvInv m t) :
    (getIn m t k).2 = view (absOv m) t k ∧ absOv (getIn m t k).1 = absOv m ∧
    OvInv (getIn m t k).1 t := by
  unfold getIn view absOv
  have hk := h k
  cases hg : m.got[k]? with
  | some v =>
    simp only
    refine ⟨?_, (by first | rfl | trivial), h⟩
    rcases hk.2 v hg with h1 | ⟨h1, h2, h3⟩
    · simp [h1]
    · simp [h1, h2, h3]
  | none =>
    have hu : m.updated[k]? = none := by
      cases hu : m.updated[k]? with
      | none => rfl
      | some v => have := hk.1 v hu; simp [hg] at this
    by_cases hr : k ∈ m.removed
    · simp only [hr, ite_true]
      refine ⟨by simp [hu], (by first | rfl | trivial), h⟩
    · simp only [hr, ite_false]
      cases ht : t[k]? with
      | none => simp only; exact ⟨by simp [hu], (by first | rfl | trivial), h⟩
      | some v =>
        simp only
        refine ⟨by simp [hu], (by first | rfl | trivial), ?_⟩
        intro k'
        have hk' := h k'
        by_cases e : k' = k
        · subst e
          simp only [ExtTreeMap.getElem?_insert_self]
          refine ⟨fun v' hv' => by simp [hu] at hv', fun v' hv' => ?_⟩
          right; simp at hv'; subst hv'; exact ⟨hu, hr, ht⟩
        · have : compare k k' ≠ .eq := fun c => e ((cmp_eq_iff _ _).mp c).symm
          simp only [ExtTreeMap.getElem?_insert, this, ite_false]
          exact hk'

theorem setIn_spec (m : MemItems) (t : Map) (k : Key) (v : Val) (h : OvInv m t) :
    absOv (setIn m k v) = Spec.ovSet (absOv m) k v ∧ OvInv (setIn m k v) t := by
  refine ⟨rfl, ?_⟩
  intro k'
  have hk' := h k'
  unfold setIn
  by_cases e : k' = k
  · subst e; simp
  · have : compare k k' ≠ .eq := fun c => e ((cmp_eq_iff _ _).mp c).symm
    simp only [ExtTreeMap.getElem?_insert, this, ite_false]
    exact hk'

theorem cancelSetIn_spec (m : MemItems) (t : Map) (k : Key) (h : OvInv m t) :
    absOv (cancelSetIn m k) = Spec.ovCancelSet (absOv m) k ∧ OvInv (cancelSetIn m k) t := by
  refine ⟨rfl, ?_⟩
  intro k'
  have hk' := h k'
  unfold cancelSetIn
  by_cases e : k' = k
  · subst e; simp
  · have : compare k k' ≠ .eq := fun c => e ((cmp_eq_iff _ _).mp c).symm
    simp only [ExtTreeMap.getElem?_erase, this, ite_false]
    exact hk'

theorem delIn_spec (m : MemItems) (t : Map) (k : Key) (h : OvInv m t) :
    (delIn m t k).2 = (Spec.ovDel (absOv m) t k).2 ∧
    absOv (delIn m t k).1 = (Spec.ovDel (absOv m) t k).1 ∧
    OvInv (delIn m t k).1 t := by
  obtain ⟨g1, g2, g3⟩ := getIn_spec m t k h
  unfold delIn Spec.ovDel
  rw [← g1]
  cases hr : (getIn m t k) with
  | mk m' r =>
    rw [hr] at g1 g2 g3
    simp only at g1 g2 g3 ⊢
    cases r with
    | none => exact ⟨(by first | rfl | trivial), g2, g3⟩
    | some v =>
      simp only
      refine ⟨(by first | rfl | trivial), ?_, ?_⟩
      · unfold absOv at g2 ⊢; simp only [Ov.mk.injEq] at g2 ⊢
        exact ⟨by rw [g2.1], by rw [g2.2]⟩
      · intro k'
        have hk' := g3 k'
        by_cases e : k' = k
        · subst e; simp
        · have : compare k k' ≠ .eq := fun c => e ((cmp_eq_iff _ _).mp c).symm
          simp only [ExtTreeMap.getElem?_erase, this, ite_false, List.mem_append,
            List.mem_singleton, e, or_false]
          exact hk'

theorem cancelDelIn_spec (m : MemItems) (t : Map) (k : Key) (h : OvInv m t) :
    absOv (cancelDelIn m k) = Spec.ovCancelDel (absOv m) k ∧ OvInv (cancelDelIn m k) t := by
  refine ⟨rfl, ?_⟩
  intro k'
  have hk' := h k'
  unfold cancelDelIn
  refine ⟨hk'.1, fun v hv => ?_⟩
  rcases hk'.2 v hv with h1 | ⟨h1, h2, h3⟩
  · exact Or.inl h1
  · exact Or.inr ⟨h1, fun c => h2 (List.mem_of_mem_erase c), h3⟩

end Rigo.Ledger

namespace Rigo.Ledger
open Impl

/-- ledger invariant: the working tree is the last saved version; both overlays coherent -/
structure Inv (l : Impl) : Prop where
  tree_last : l.tree = l.versions.getLast?.getD {}
  fin : OvInv l.fin l.tree
  chk : OvInv l.chk l.tree

/-- abstraction map: forget the got caches -/
def abs (l : Impl) : Spec := { committed := l.versions, fin := absOv l.fin, chk := absOv l.chk }

theorem Inv_init : Inv {} := ⟨rfl, OvInv_empty _, OvInv_empty _⟩

theorem abs_last (l : Impl) (h : Inv l) : (abs l).last = l.tree := by
  unfold Spec.last abs; simp [h.tree_last]

theorem OvInv_refresh (m : MemItems) (t : Map) (h : OvInv m t) :
    OvInv m.refresh (eraseAll t m.removed ∪ m.updated) := by
  intro k
  have hk := h k
  unfold MemItems.refresh
  simp only [ExtTreeMap.getElem?_union, getElem?_eraseAll]
  refine ⟨fun v hv => by simp at hv, fun v hv => ?_⟩
  right
  refine ⟨by simp, by simp, ?_⟩
  cases hu : m.updated[k]? with
  | some u => simp [hu] at hv ⊢; exact hv
  | none =>
    simp [hu] at hv ⊢
    rcases hk.2 v hv with h1 | ⟨_, h2, h3⟩
    · simp [hu] at h1
    · simp [h2, h3]

theorem step_refines (l : Impl) (h : Inv l) (op : Op) :
    (abs l).step op = (abs (l.step op).1, (l.step op).2) ∧ Inv (l.step op).1 := by
  have hl := abs_last l h
  cases op with
  | set k v =>
    obtain ⟨a, b⟩ := setIn_spec l.chk l.tree k v h.chk
    exact ⟨by simp [Spec.step, Impl.step, Spec.set, Impl.set, abs, a], ⟨h.tree_last, h.fin, b⟩⟩
  | cancelSet k =>
    obtain ⟨a, b⟩ := cancelSetIn_spec l.chk l.tree k h.chk
    exact ⟨by simp [Spec.step, Impl.step, Spec.cancelSet, Impl.cancelSet, abs, a], ⟨h.tree_last, h.fin, b⟩⟩
  | get k =>
    obtain ⟨a, b, c⟩ := getIn_spec l.chk l.tree k h.chk
    refine ⟨?_, ⟨h.tree_last, h.fin, c⟩⟩
    simp only [Spec.step, Impl.step, Spec.get, Impl.get, hl]
    simp only [abs] at *
    rw [a, b]
  | del k =>
    obtain ⟨a, b, c⟩ := delIn_spec l.chk l.tree k h.chk
    refine ⟨?_, ⟨h.tree_last, h.fin, c⟩⟩
    simp only [Spec.step, Impl.step, Spec.del, Impl.del, hl]
    simp only [abs] at *
    rw [a, b]
  | cancelDel k =>
    obtain ⟨a, b⟩ := cancelDelIn_spec l.chk l.tree k h.chk
    exact ⟨by simp [Spec.step, Impl.step, Spec.cancelDel, Impl.cancelDel, abs, a], ⟨h.tree_last, h.fin, b⟩⟩
  | setF k v =>
    obtain ⟨a, b⟩ := setIn_spec l.fin l.tree k v h.fin
    exact ⟨by simp [Spec.step, Impl.step, Spec.setF, Impl.setF, abs, a], ⟨h.tree_last, b, h.chk⟩⟩
  | cancelSetF k =>
    obtain ⟨a, b⟩ := cancelSetIn_spec l.fin l.tree k h.fin
    exact ⟨by simp [Spec.step, Impl.step, Spec.cancelSetF, Impl.cancelSetF, abs, a], ⟨h.tree_last, b, h.chk⟩⟩
  | getF k =>
    obtain ⟨a, b, c⟩ := getIn_spec l.fin l.tree k h.fin
    refine ⟨?_, ⟨h.tree_last, c, h.chk⟩⟩
    simp only [Spec.step, Impl.step, Spec.getF, Impl.getF, hl]
    simp only [abs] at *
    rw [a, b]
  | delF k =>
    obtain ⟨a, b, c⟩ := delIn_spec l.chk l.tree k h.chk
    obtain ⟨a', b', c'⟩ := delIn_spec l.fin l.tree k h.fin
    refine ⟨?_, ⟨h.tree_last, c', c⟩⟩
    simp only [Spec.step, Impl.step, Spec.delF, Impl.delF, Spec.del, Impl.del, Spec.last]
    simp only [abs, Spec.last] at *
    rw [hl, a', b', b]
  | cancelDelF k =>
    obtain ⟨a, b⟩ := cancelDelIn_spec l.fin l.tree k h.fin
    exact ⟨by simp [Spec.step, Impl.step, Spec.cancelDelF, Impl.cancelDelF, abs, a], ⟨h.tree_last, b, h.chk⟩⟩
  | read k => exact ⟨by simp [Spec.step, Impl.step, Spec.read, Impl.read, hl], h⟩
  | iterAll => exact ⟨by simp [Spec.step, Impl.step, hl], h⟩
  | commit =>
    refine ⟨?_, ⟨by simp [Impl.step, Impl.commit], ?_, ?_⟩⟩
    · simp only [Spec.step, Impl.step, Spec.commit, Impl.commit, hl]
      simp [abs, absOv, MemItems.refresh, Spec.version, Impl.version]
    · simp only [Impl.step, Impl.commit]; exact OvInv_refresh _ _ h.fin
    · simp only [Impl.step, Impl.commit]; exact OvInv_empty _
  | readAt n k =>
    refine ⟨?_, h⟩
    have hl' : ({ committed := l.versions, fin := absOv l.fin, chk := absOv l.chk } : Spec).last = l.tree := hl
    simp only [Spec.step, Impl.step, Spec.readAt, Impl.readAt, abs, hl']
    rfl
  | reopen =>
    exact ⟨by simp [Spec.step, Impl.step, Spec.reopen, Impl.reopen, abs, absOv],
      ⟨h.tree_last, OvInv_empty _, OvInv_empty _⟩⟩
  | version => exact ⟨by simp [Spec.step, Impl.step, Spec.version, Impl.version, abs], h⟩

/-- C18 refinement: every return value of every operation sequence on the three-cache
    implementation equals the overlay-map specification's. -/
theorem run_refines (l : Impl) (h : Inv l) (ops : List Op) :
    ((abs l).run ops).2 = (l.run ops).2 ∧ abs (l.run ops).1 = ((abs l).run ops).1 ∧
    Inv (l.run ops).1 := by
  induction ops generalizing l with
  | nil => exact ⟨rfl, rfl, h⟩
  | cons op ops ih =>
    obtain ⟨a, b⟩ := step_refines l h op
    obtain ⟨c, d, e⟩ := ih (l.step op).1 b
    simp only [Spec.run, Impl.run, a]
    exact ⟨by rw [c], d, e⟩

end Rigo.Ledger
