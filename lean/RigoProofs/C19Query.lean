/-
  C19 (part 3): versions agree with the height on every reachable state, histories only grow,
  and `query` is a function of the histories and the last height only.
-/
import RigoProofs.C19FrameBlock

namespace Rigo
namespace C19

/-! ### the invariant -/

/-- every history has exactly `lastHeight` versions and an open block is block `lastHeight + 1` -/
def FrameOK (f : Frame) : Prop :=
  0 ≤ f.lastHeight ∧ f.accts.length = f.lastHeight.toNat ∧ f.delegs.length = f.lastHeight.toNat ∧
  f.frozen.length = f.lastHeight.toNat ∧ f.rewards.length = f.lastHeight.toNat ∧
  f.params.length = f.lastHeight.toNat ∧ f.props.length = f.lastHeight.toNat ∧
  f.fprops.length = f.lastHeight.toNat ∧ ∀ n, f.blkHeight = some n → n = f.lastHeight + 1

def VersionsAgree (s : St) : Prop := FrameOK (frame s)

/-- histories of `f` are prefixes of those of `f'` -/
def FramePrefix (f f' : Frame) : Prop :=
  f.accts <+: f'.accts ∧ f.delegs <+: f'.delegs ∧ f.frozen <+: f'.frozen ∧ f.rewards <+: f'.rewards ∧
  f.params <+: f'.params ∧ f.props <+: f'.props ∧ f.fprops <+: f'.fprops

theorem FramePrefix.refl (f : Frame) : FramePrefix f f := by simp [FramePrefix]

theorem FramePrefix.trans {a b c : Frame} (h₁ : FramePrefix a b) (h₂ : FramePrefix b c) : FramePrefix a c := by
  obtain ⟨a1, a2, a3, a4, a5, a6, a7⟩ := h₁
  obtain ⟨b1, b2, b3, b4, b5, b6, b7⟩ := h₂
  exact ⟨a1.trans b1, a2.trans b2, a3.trans b3, a4.trans b4, a5.trans b5, a6.trans b6, a7.trans b7⟩

theorem commit_frame (s : St) :
    (s.blk = none ∧ (commit s).1 = s) ∨
    ∃ b, s.blk = some b ∧ frame (commit s).1 =
      { accts := s.accts.hist ++ [s.accts.fin], delegs := s.delegs.hist ++ [s.delegs.fin],
        frozen := s.frozen.hist ++ [s.frozen.fin], rewards := s.rewards.hist ++ [s.rewards.fin],
        params := s.params.hist ++ [s.params.fin], props := s.props.hist ++ [s.props.fin],
        fprops := s.fprops.hist ++ [s.fprops.fin], lastHeight := b.height, blkHeight := none } := by
  unfold commit
  cases hb : s.blk with
  | none => exact Or.inl ⟨rfl, rfl⟩
  | some b => exact Or.inr ⟨b, rfl, rfl⟩

theorem initChain_frame (g : Genesis) :
    frame (initChain g) = { accts := [], delegs := [], frozen := [], rewards := [], params := [], props := [],
                            fprops := [], lastHeight := 0, blkHeight := none } := by
  unfold initChain
  simp only []
  refine foldl_inv (fun x => frame x = _) _ ?_ _ _ ?_
  · intro x v hx
    obtain ⟨pub, addr, power⟩ := v
    dsimp only
    rw [← hx, ← frame_findOrNewAcct x true addr]
    simp [frame]
  · refine foldl_inv (fun x => frame x = _) _ ?_ _ _ ?_
    · intro x v hx
      obtain ⟨a, b⟩ := v
      dsimp only
      rw [frame_setAcct]; exact hx
    · simp [frame]

theorem step_frameOK (s : St) (op : Op) (hop : op.isInit = false) (h : VersionsAgree s) :
    VersionsAgree (step s op).1 := by
  unfold VersionsAgree at h ⊢
  cases op with
  | init g => simp [Op.isInit] at hop
  | begin_ hd =>
    show FrameOK (frame (beginBlock s hd).1)
    rcases beginBlock_frame s hd with hf | ⟨hh, hf⟩
    · rw [hf]; exact h
    · rw [hf]
      obtain ⟨h0, h1, h2, h3, h4, h5, h6, h7, _⟩ := h
      refine ⟨h0, h1, h2, h3, h4, h5, h6, h7, ?_⟩
      intro n hn
      simp only [Option.some.injEq] at hn
      rw [← hn, hh]; rfl
  | deliver tx => show FrameOK (frame (deliverTx s tx).1); rw [deliverTx_frame]; exact h
  | check tx => show FrameOK (frame (checkTx s tx).1); rw [checkTx_frame]; exact h
  | end_ => show FrameOK (frame (endBlock s).1); rw [endBlock_frame]; exact h
  | commit =>
    show FrameOK (frame (commit s).1)
    rcases commit_frame s with ⟨_, hc⟩ | ⟨b, hb, hc⟩
    · rw [hc]; exact h
    · rw [hc]
      obtain ⟨h0, h1, h2, h3, h4, h5, h6, h7, h8⟩ := h
      have hbh : b.height = s.lastHeight + 1 := h8 b.height (by simp [frame, hb])
      simp only [frame] at h0 h1 h2 h3 h4 h5 h6 h7
      refine ⟨?_, ?_, ?_, ?_, ?_, ?_, ?_, ?_, ?_⟩ <;> simp only [List.length_append, List.length_singleton] <;>
        first | omega | simp
  | restart =>
    show FrameOK (frame (restart s))
    rw [restart_frame]
    obtain ⟨h0, h1, h2, h3, h4, h5, h6, h7, _⟩ := h
    exact ⟨h0, h1, h2, h3, h4, h5, h6, h7, by simp⟩

/-- all seven histories have `lastHeight` versions on every reachable state -/
theorem versions_agree_of_reachable {g : Genesis} {s : St} (h : Reachable g s) : VersionsAgree s := by
  refine Reachable.induction VersionsAgree ?_ (fun s op _ hs hop => step_frameOK s op hop hs) h
  unfold VersionsAgree
  rw [initChain_frame]
  simp [FrameOK]

theorem step_prefix (s : St) (op : Op) (hop : op.isInit = false) : FramePrefix (frame s) (frame (step s op).1) := by
  cases op with
  | init g => simp [Op.isInit] at hop
  | begin_ hd =>
    show FramePrefix _ (frame (beginBlock s hd).1)
    rcases beginBlock_frame s hd with hf | ⟨_, hf⟩ <;> rw [hf] <;> exact FramePrefix.refl _
  | deliver tx => show FramePrefix _ (frame (deliverTx s tx).1); rw [deliverTx_frame]; exact FramePrefix.refl _
  | check tx => show FramePrefix _ (frame (checkTx s tx).1); rw [checkTx_frame]; exact FramePrefix.refl _
  | end_ => show FramePrefix _ (frame (endBlock s).1); rw [endBlock_frame]; exact FramePrefix.refl _
  | commit =>
    show FramePrefix _ (frame (commit s).1)
    rcases commit_frame s with ⟨_, hc⟩ | ⟨b, hb, hc⟩
    · rw [hc]; exact FramePrefix.refl _
    · rw [hc]; simp [FramePrefix, frame]
  | restart => show FramePrefix _ (frame (restart s)); rw [restart_frame]; exact FramePrefix.refl _

theorem exec_prefix (ops : List Op) (hops : ∀ op ∈ ops, op.isInit = false) (s : St) :
    FramePrefix (frame s) (frame (exec s ops)) := by
  induction ops generalizing s with
  | nil => exact FramePrefix.refl _
  | cons op ops ih =>
    rw [exec_cons]
    exact (step_prefix s op (hops op (by simp))).trans
      (ih (fun o ho => hops o (List.mem_cons_of_mem _ ho)) _)

theorem exec_versionsAgree (ops : List Op) (hops : ∀ op ∈ ops, op.isInit = false) (s : St)
    (h : VersionsAgree s) : VersionsAgree (exec s ops) := by
  induction ops generalizing s with
  | nil => exact h
  | cons op ops ih =>
    rw [exec_cons]
    exact ih (fun o ho => hops o (List.mem_cons_of_mem _ ho)) _ (step_frameOK s op (hops op (by simp)) h)

/-! ### queries read histories only -/

/-- `Led.at?` as a function of the history alone -/
def atH {α : Type} (hist : List (KMap α)) (n : Int) : Option (KMap α) :=
  if n ≤ 0 then some (hist.getLast?.getD {}) else hist[n.toNat - 1]?

theorem at?_eq_atH {α : Type} (l : Led α) (n : Int) : l.at? n = atH l.hist n := rfl

theorem atH_of_pos {α : Type} (hist : List (KMap α)) (n : Int) (h1 : 1 ≤ n) : atH hist n = hist[n.toNat - 1]? := by
  unfold atH; rw [if_neg (by omega)]

theorem atH_prefix {α : Type} {h₁ h₂ : List (KMap α)} (hp : h₁ <+: h₂) (n : Int) (h1 : 1 ≤ n)
    (h2 : n ≤ h₁.length) : atH h₂ n = atH h₁ n := by
  rw [atH_of_pos _ _ h1, atH_of_pos _ _ h1]
  obtain ⟨t, rfl⟩ := hp
  rw [List.getElem?_append_left (by omega)]

theorem atH_beyond {α : Type} (hist : List (KMap α)) (n : Int) (h : (hist.length : Int) < n) : atH hist n = none := by
  rw [atH_of_pos _ _ (by omega)]
  simp; omega

/-- the part of the state a query can see -/
structure QView where
  accts : List (KMap Account)
  delegs : List (KMap Delegatee)
  rewards : List (KMap Reward)
  params : List (KMap Params)
  props : List (KMap Proposal)
  fprops : List (KMap Proposal)
  lastHeight : Int

def qview (s : St) : QView :=
  { accts := s.accts.hist, delegs := s.delegs.hist, rewards := s.rewards.hist, params := s.params.hist,
    props := s.props.hist, fprops := s.fprops.hist, lastHeight := s.lastHeight }

/-- `query` written over the view -/
def queryV (v : QView) (path : String) (data : Hex) (h : Int) : QOut :=
  query { accts := { hist := v.accts }, delegs := { hist := v.delegs }, rewards := { hist := v.rewards },
          params := { hist := v.params }, props := { hist := v.props }, fprops := { hist := v.fprops },
          lastHeight := v.lastHeight } path data h

theorem query_eq_queryV (s : St) (path : String) (data : Hex) (h : Int) :
    query s path data h = queryV (qview s) path data h := rfl

end C19
end Rigo
