/-
  C11/C12 helpers (6): `Life` is preserved by every operation of a well-phased history in which the
  successful staking transactions have pairwise distinct, non-zero keys.
-/
import RigoProofs.C11Life

namespace Rigo
open Delegatee

/-! ### BeginBlock atoms -/

theorem BeginAtom.life {U : List String} {p : Phase} {h : Header} {c c' : Core} (ha : BeginAtom h c c')
    (hl : Life U p c) (hh : c.height ≠ none) (hd : DelegsOK c) : Life U p c' ∧ c'.height ≠ none := by
  cases ha with
  | slash a d _ hda =>
    refine ⟨hl.release hh (ledgerKey a) d [] 0 hda (by simp) ?_ (by simp) rfl rfl rfl rfl, hh⟩
    intro k d' hk
    dsimp only at hk
    rw [Std.ExtTreeMap.getElem?_insert] at hk
    by_cases e : ledgerKey a = k
    · simp [e] at hk; subst hk; subst e; exact ⟨d, hda, doSlash_keysSub d _⟩
    · simp [e] at hk; exact ⟨d', hk, KeysSub.refl _⟩
  | mark k0 d ns hd0 =>
    obtain ⟨_, hk0, _⟩ := hd.1 _ _ hd0
    refine ⟨hl.release hh k0 d [] 0 hd0 (by simp) ?_ (by simp) rfl rfl rfl rfl, hh⟩
    intro k d' hk
    dsimp only at hk
    rw [Std.ExtTreeMap.getElem?_insert, ← hk0] at hk
    by_cases e : k0 = k
    · simp [e] at hk; subst hk; subst e; exact ⟨d, hd0, KeysSub.refl _⟩
    · simp [e] at hk; exact ⟨d', hk, KeysSub.refl _⟩
  | jail k0 d ns hd0 =>
    obtain ⟨_, hk0, _⟩ := hd.1 _ _ hd0
    have look : ∀ k : String, ((c.dfin.insert (ledgerKey d.addr) { d with notSigned := ns }).erase (ledgerKey d.addr))[k]? =
        if k0 = k then none else c.dfin[k]? := by
      intro k
      rw [Std.ExtTreeMap.getElem?_erase, Std.ExtTreeMap.getElem?_insert, ← hk0]
      by_cases e : k0 = k <;> simp [e]
    refine ⟨hl.release hh k0 d d.stakes (h.height + c.active.lazyRewardBlocks) hd0 (fun _ x => x) ?_ ?_ rfl rfl rfl rfl, hh⟩
    · intro k d' hk
      dsimp only at hk
      rw [look] at hk
      by_cases e : k0 = k
      · simp [e] at hk
      · simp [e] at hk; exact ⟨d', hk, KeysSub.refl _⟩
    · intro d' st' st hk
      dsimp only at hk
      rw [look] at hk
      simp at hk

/-! ### staking -/

theorem StakeTarget.old {c : Core} {tx : TxIn} {d : Delegatee} (h : StakeTarget c tx d) (hc : DelegMapOK c.dfin) :
    c.dfin[ledgerKey d.addr]? = some d ∨ (c.dfin[ledgerKey d.addr]? = none ∧ d.stakes = []) := by
  rcases h with h | ⟨hn, hft, rfl⟩
  · obtain ⟨_, hk, _⟩ := hc _ _ h
    left; rw [← hk]; exact h
  · right; exact ⟨by simpa [hft] using hn, rfl⟩

theorem Life.stake {U : List String} {p : Phase} {c : Core} (h : Life U p c) (hd : DelegsOK c)
    (tx : TxIn) (ht : Int) (d : Delegatee) (power : Int) (hh : c.height ≠ none) (htgt : StakeTarget c tx d)
    (hfresh : ledgerKey tx.hash ∉ U) (hnz : ledgerKey tx.hash ≠ zeroKey) :
    Life (U ++ [ledgerKey tx.hash]) p
      { c with dfin := c.dfin.insert (ledgerKey d.addr) (d.addStake (newStake tx power ht)) } := by
  have hold := htgt.old hd.1
  have fresh : ¬ BondedKey c (ledgerKey tx.hash) ∧ c.ffin[ledgerKey tx.hash]? = none ∧ ¬ Logged c (ledgerKey tx.hash) := by
    refine ⟨fun hb => hfresh (h.used _ hnz (Or.inl hb)), ?_, fun hb => hfresh (h.used _ hnz (Or.inr (Or.inr hb)))⟩
    cases hf : c.ffin[ledgerKey tx.hash]? with
    | none => rfl
    | some v => exact absurd (h.used _ hnz (Or.inr (Or.inl (by rw [hf]; simp)))) hfresh
  have hmemd : ∀ st ∈ d.stakes, c.dfin[ledgerKey d.addr]? = some d := by
    intro st hst
    rcases hold with ho | ⟨_, he⟩
    · exact ho
    · rw [he] at hst; cases hst
  have cases' : ∀ (kd : String) (dd : Delegatee) (st : Stake),
      (c.dfin.insert (ledgerKey d.addr) (d.addStake (newStake tx power ht)))[kd]? = some dd → st ∈ dd.stakes →
      (st = newStake tx power ht ∧ kd = ledgerKey d.addr) ∨ ∃ d0, c.dfin[kd]? = some d0 ∧ st ∈ d0.stakes := by
    intro kd dd st hk hst
    rw [Std.ExtTreeMap.getElem?_insert] at hk
    by_cases e : ledgerKey d.addr = kd
    · simp [e] at hk; subst hk
      simp only [Delegatee.addStake, List.mem_append, List.mem_singleton] at hst
      rcases hst with hst | hst
      · right; exact ⟨d, e ▸ hmemd st hst, hst⟩
      · left; exact ⟨hst, e.symm⟩
    · simp [e] at hk; right; exact ⟨dd, hk, hst⟩
  have hnew : skey (newStake tx power ht) = ledgerKey tx.hash := rfl
  have bk : ∀ k, BondedKey { c with dfin := c.dfin.insert (ledgerKey d.addr) (d.addStake (newStake tx power ht)) } k →
      k = ledgerKey tx.hash ∨ BondedKey c k := by
    rintro k ⟨kd, dd, st, h1, h2, h3⟩
    rcases cases' kd dd st h1 h2 with ⟨rfl, _⟩ | ⟨d0, h4, h5⟩
    · left; rw [← h3, hnew]
    · right; exact ⟨kd, d0, st, h4, h5, h3⟩
  refine ⟨?_, ?_, ?_, ?_, h.once, ?_, ?_, ?_, h.inblock⟩
  · intro k hk hp
    rcases hp with hp | hp | hp
    · rcases bk k hp with rfl | hb
      · simp
      · exact List.mem_append_left _ (h.used k hk (Or.inl hb))
    · exact List.mem_append_left _ (h.used k hk (Or.inr (Or.inl hp)))
    · exact List.mem_append_left _ (h.used k hk (Or.inr (Or.inr hp)))
  · intro kd dd hk
    dsimp only at hk
    rw [Std.ExtTreeMap.getElem?_insert] at hk
    by_cases e : ledgerKey d.addr = kd
    · simp [e] at hk; subst hk
      simp only [Delegatee.addStake, List.map_append, List.map_cons, List.map_nil, List.filter_append]
      rw [List.nodup_append]
      refine ⟨?_, ?_, ?_⟩
      · rcases hold with ho | ⟨_, he⟩
        · exact h.nodup _ _ ho
        · rw [he]; simp
      · rw [hnew]; simp [hnz]
      · intro a ha b hb
        rw [hnew] at hb
        simp [hnz] at hb
        subst hb
        simp only [List.mem_filter, List.mem_map] at ha
        obtain ⟨⟨st, hst, hk⟩, _⟩ := ha
        intro heq
        exact fresh.1 ⟨_, d, st, hmemd st hst, hst, hk.trans heq⟩
    · simp [e] at hk; exact h.nodup _ _ hk
  · intro k1 k2 d1 d2 st1 st2 h1 h2 m1 m2 he hz
    rcases cases' k1 d1 st1 h1 m1 with ⟨rfl, rfl⟩ | ⟨e1, a1, b1⟩
    · rcases cases' k2 d2 st2 h2 m2 with ⟨rfl, rfl⟩ | ⟨e2, a2, b2⟩
      · rfl
      · exact absurd ⟨k2, e2, st2, a2, b2, he.symm.trans hnew⟩ fresh.1
    · rcases cases' k2 d2 st2 h2 m2 with ⟨rfl, rfl⟩ | ⟨e2, a2, b2⟩
      · exact absurd ⟨k1, e1, st1, a1, b1, he.trans hnew⟩ fresh.1
      · exact h.across k1 k2 e1 e2 st1 st2 a1 a2 b1 b2 he hz
  · intro kd dd st h1 h2 hz
    rcases cases' kd dd st h1 h2 with ⟨rfl, _⟩ | ⟨d0, a, b⟩
    · exact fresh.2.1
    · exact h.excl kd d0 st a b hz
  · intro k hk hl
    obtain ⟨g1, g2⟩ := h.gone k hk hl
    refine ⟨fun hb => ?_, g2⟩
    rcases bk k hb with rfl | hb
    · exact fresh.2.2 hl
    · exact g1 hb
  · intro hn; exact absurd hn hh
  · intro hp; exact absurd (h.idle hp) hh

/-! ### unstaking -/

theorem eraseP_key_notin (p : Stake → Bool) (l : List Stake) (a : Stake) (hf : l.find? p = some a)
    (hn : ((l.map skey).filter (fun k => decide (k ≠ zeroKey))).Nodup) (hz : skey a ≠ zeroKey) :
    ∀ b ∈ l.eraseP p, skey b ≠ skey a := by
  induction l with
  | nil => simp at hf
  | cons x l ih =>
    by_cases hp : p x = true
    · simp [hp] at hf; subst hf
      rw [List.eraseP_cons_of_pos hp]
      simp only [List.map_cons, List.filter_cons, hz, ne_eq, not_false_eq_true, decide_true, if_true, List.nodup_cons] at hn
      intro b hb he
      exact hn.1 (by simp only [List.mem_filter, List.mem_map]; exact ⟨⟨b, hb, he⟩, by simp [hz]⟩)
    · simp [hp] at hf
      rw [List.eraseP_cons_of_neg hp]
      have hn' : ((l.map skey).filter (fun k => decide (k ≠ zeroKey))).Nodup := by
        simp only [List.map_cons, List.filter_cons] at hn
        split at hn
        · exact (List.nodup_cons.mp hn).2
        · exact hn
      intro b hb
      simp only [List.mem_cons] at hb
      rcases hb with rfl | hb
      · intro he
        simp only [List.map_cons, List.filter_cons, he, hz, ne_eq, not_false_eq_true, decide_true, if_true, List.nodup_cons] at hn
        have ha : a ∈ l := List.mem_of_find?_eq_some hf
        exact hn.1 (by simp only [List.mem_filter, List.mem_map]; exact ⟨⟨a, ha, rfl⟩, by simp [hz]⟩)
      · exact ih hf hn' b hb

theorem unstakeCore_ffin (c : Core) (d : Delegatee) (st : Stake) (hash : Hex) (ht : Int) :
    (unstakeCore c d st hash ht).ffin =
      freezeFin c.ffin (st :: (if (d.delStake hash).self = 0 then (d.delStake hash).stakes else []))
        (ht + c.active.lazyRewardBlocks) := by
  unfold unstakeCore
  dsimp only
  split <;> rfl

theorem Life.unstake {U : List String} {p : Phase} {c : Core} (h : Life U p c) (hd : DelegsOK c)
    (hh : c.height ≠ none) (K : String) (d : Delegatee) (st : Stake) (hash : Hex) (ht : Int)
    (hdK : c.dfin[K]? = some d) (hst : d.findStake hash = some st) : Life U p (unstakeCore c d st hash ht) := by
  obtain ⟨hok, hK, _⟩ := hd.1 _ _ hdK
  have hfind : d.stakes.find? (fun x => x.hash == hash) = some st := hst
  have hd1 : (d.delStake hash).stakes = d.stakes.eraseP (fun x => x.hash == hash) := by
    unfold Delegatee.delStake; rw [hst]
  have hsub := delStake_stakes_sublist d hash
  have haddr : ∀ b : Bool, (if b then (d.delStake hash).delAllStakes.1 else d.delStake hash).addr = d.addr := by
    intro b; cases b <;> simp [delStake_addr, delAllStakes_fst]
  refine h.release hh K d (st :: (if (d.delStake hash).self = 0 then (d.delStake hash).stakes else []))
    (ht + c.active.lazyRewardBlocks) hdK ?_ ?_ ?_ (unstakeCore_ffin c d st hash ht) rfl rfl rfl
  · intro x hx
    simp only [List.mem_cons] at hx
    rcases hx with rfl | hx
    · exact (findStake_mem hst).1
    · split at hx
      · exact hsub.subset hx
      · cases hx
  · intro k d' hk
    unfold unstakeCore at hk
    dsimp only at hk
    by_cases h0 : (d.delStake hash).self = 0
    · simp only [h0, if_true] at hk
      have ha : (d.delStake hash).delAllStakes.1.addr = d.addr := by simp [delAllStakes_fst, delStake_addr]
      rw [ha, ← hK] at hk
      split at hk
      · rw [Std.ExtTreeMap.getElem?_erase] at hk
        by_cases e : K = k
        · simp [e] at hk
        · simp [e] at hk; exact ⟨d', hk, KeysSub.refl _⟩
      · rw [Std.ExtTreeMap.getElem?_insert] at hk
        by_cases e : K = k
        · simp [e] at hk; subst hk; subst e
          exact ⟨d, hdK, by simp [KeysSub, delAllStakes_fst]⟩
        · simp [e] at hk; exact ⟨d', hk, KeysSub.refl _⟩
    · simp only [h0, if_false] at hk
      rw [delStake_addr, ← hK] at hk
      split at hk
      · rw [Std.ExtTreeMap.getElem?_erase] at hk
        by_cases e : K = k
        · simp [e] at hk
        · simp [e] at hk; exact ⟨d', hk, KeysSub.refl _⟩
      · rw [Std.ExtTreeMap.getElem?_insert] at hk
        by_cases e : K = k
        · simp [e] at hk; subst hk; subst e
          exact ⟨d, hdK, keysSub_of_sublist hsub⟩
        · simp [e] at hk; exact ⟨d', hk, KeysSub.refl _⟩
  · intro d' st' x hk hst' hz hx
    unfold unstakeCore at hk
    dsimp only at hk
    by_cases h0 : (d.delStake hash).self = 0
    · simp only [h0, if_true] at hk
      have ha : (d.delStake hash).delAllStakes.1.addr = d.addr := by simp [delAllStakes_fst, delStake_addr]
      rw [ha, ← hK] at hk
      split at hk
      · simp at hk
      · simp at hk; subst hk
        simp [delAllStakes_fst] at hst'
    · simp only [h0, if_false] at hk hx
      rw [delStake_addr, ← hK] at hk
      split at hk
      · simp at hk
      · simp at hk; subst hk
        simp only [List.mem_cons, List.not_mem_nil, or_false] at hx
        subst hx
        rw [hd1] at hst'
        intro he
        have := eraseP_key_notin _ _ _ hfind (h.nodup K d hdK) (he ▸ hz) st' hst'
        exact this he.symm

end Rigo
