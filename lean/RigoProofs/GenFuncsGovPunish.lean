/-
  Governance punishment (ctrlers/gov/proposal/proposal.go): the generated `GovProposal.DoPunish`
  against the model's `Proposal.doPunish` (Rigo/Block.lean).
-/
import RigoProofs.GenFuncsGovBase
import RigoProofs.GenFuncsGov

set_option linter.unusedSimpArgs false

namespace Rigo.GenEq
open Rigo Rigo.Gen

/-- the slashed power as the model computes it: `uint256(uint64(power)) * uint64(ratio) / 100`, low 64 bits -/
def slashNat (power ratio : Int) : Nat :=
  (((power % (two64 : Int)).toNat * (ratio % (two64 : Int)).toNat) % two256 / 100) % two64

/-- the slashed power fits an int64: Go converts the uint64 to int64, the model keeps it non-negative -/
def SlashFits (p : Proposal) (addr : Hex) (ratio : Int) : Prop :=
  ∀ v, p.voters.find? (·.addr == addr) = some v →
    ((((v.power % (two64 : Int)).toNat * (ratio % (two64 : Int)).toNat) % two256 / 100) % two64) < two63

instance (p : Proposal) (addr : Hex) (ratio : Int) : Decidable (SlashFits p addr ratio) := by
  unfold SlashFits; infer_instance

/-- Go's `int64(...)` of the slashed power is the model's value when it fits -/
theorem slashing_eq (power ratio : Int) (h : slashNat power ratio < two63) :
    wrapI64 (Int.ofNat (wmul (wrapU64 power) (wrapU64 ratio) / 100 % two64)) = Int.ofNat (slashNat power ratio) := by
  have e : wmul (wrapU64 power) (wrapU64 ratio) / 100 % two64 = slashNat power ratio := rfl
  have hlt : slashNat power ratio < two64 := Nat.mod_lt _ (by decide)
  rw [e, wrapI64_ofNat _ hlt, if_pos h]

theorem SlashFits.fits {p : Proposal} {addr : Hex} {ratio : Int} (hs : SlashFits p addr ratio) {v : Voter}
    (hf : p.voters.find? (·.addr == addr) = some v) : slashNat v.power ratio < two63 := hs v hf

theorem addAt_neg1 (xs : List VoteOpt) (pw : Int) : addAt xs (-1) pw = xs := addAt_neg _ _ _ (by decide)

theorem subAt_neg1 (xs : List VoteOpt) (pw : Int) : subAt xs (-1) pw = xs := subAt_neg _ _ _ (by decide)

/-- `Proposal.doPunish` for a listed voter, by cases -/
theorem doPunish_found (p : Proposal) (addr : Hex) (ratio : Int) (v : Voter)
    (hf : p.voters.find? (·.addr == addr) = some v) :
    p.doPunish addr ratio =
      (let sl := Int.ofNat (slashNat v.power ratio)
       let p1 := if v.choice ≥ 0 then p.doVote addr (-1) else p
       let p2 :=
         if v.power - sl ≤ 0 then { p1 with voters := p1.voters.filter (·.addr != addr) }
         else
           let p1' := { p1 with voters := p1.voters.map fun w => if w.addr == addr then { w with power := v.power - sl } else w }
           if v.choice ≥ 0 then p1'.doVote addr v.choice else p1'
       ({ p2 with total := p2.total - sl, majority := Int.tdiv ((p2.total - sl) * 2) 3 }, sl)) := by
  unfold Proposal.doPunish
  rw [hf]
  rfl

theorem GovProposal_DoPunish_eq (p : Proposal) (addr : Hex) (ratio : Int)
    (hd : VotersDistinct p.voters) (hc : ChoicesOK p) (hs : SlashFits p addr ratio) :
    GovProposal_DoPunish (propOf p) addr ratio =
      .ok (propOf (p.doPunish addr ratio).1, (p.doPunish addr ratio).2,
           if p.voters.any (·.addr == addr) then none else some "ErrNotFoundVoter") := by
  unfold GovProposal_DoPunish
  simp only [propOf_voters, mapGet_votersOf]
  cases hf : p.voters.find? (·.addr == addr) with
  | none =>
    have hm : p.doPunish addr ratio = (p, 0) := by unfold Proposal.doPunish; rw [hf]
    simp only [Option.isSome_none, Bool.false_eq_true, not_false_eq_true, if_true, pure, Except.pure, hm,
      find_none_any hf, if_false]
  | some v =>
    have hva : v.addr = addr := find_addr hf
    have hlt := hc v (List.mem_of_find?_eq_some hf)
    have hsl := slashing_eq v.power ratio (hs.fits hf)
    rw [doPunish_found p addr ratio v hf]
    generalize hslv : Int.ofNat (slashNat v.power ratio) = sl at hsl
    simp only [Option.isSome_some, not_true_eq_false, if_false, gderef, bind, Except.bind, pure, Except.pure]
    simp only [hsl]
    by_cases h0 : v.choice ≥ 0
    · have hc1 : cancelled v = { v with choice := -1 } := by unfold cancelled; rw [if_pos h0]
      have m1 := mapSet_votersOf_setV hf { v with choice := -1 } hva
      have hf1 : (setV p.voters addr { v with choice := -1 }).find? (·.addr == addr) = some { v with choice := -1 } :=
        find_setV hf _ hva
      have m2 := mapSet_votersOf_setV hf1 { v with choice := -1, power := v.power - sl } hva
      have hdv := doVote_found p addr (-1) v hd hf
      have h3 : ¬ ((3 : Int) = 0) := by decide
      simp only [h0, if_true, cancelVote_sub p v hlt, hc1, propOf_voters, m1, propOf_setVoters]
      simp only [hsl]
      by_cases hnp : v.power - sl ≤ 0
      · simp only [hnp, if_true, gdiv, h3, if_false, pure, Except.pure, propOf_total, m2, mapDel_votersOf,
          filter_setV (setV p.voters addr { v with choice := -1 }) addr { v with choice := -1, power := v.power - sl } hva,
          filter_setV p.voters addr { v with choice := -1 } hva, hdv, addAt_neg1, find_any hf]
        rfl
      · have hf2 : (setV (setV p.voters addr { v with choice := -1 }) addr { v with choice := -1, power := v.power - sl }).find?
            (·.addr == addr) = some { v with choice := -1, power := v.power - sl } := find_setV hf1 _ hva
        have e2 := doVote_add
          { p with options := subAt p.options v.choice v.power
                   voters := setV (setV p.voters addr { v with choice := -1 }) addr { v with choice := -1, power := v.power - sl } }
          { v with choice := -1, power := v.power - sl } v.choice (by simpa using hlt)
        have hvt : voted { v with choice := -1, power := v.power - sl } v.choice = { v with power := v.power - sl } := by
          unfold voted; rw [if_pos h0]
        have m3 := mapSet_votersOf_setV hf2 { v with power := v.power - sl } hva
        -- the model
        have hm := setV_map_upd p.voters addr { v with choice := -1 } hva (fun w => { w with power := v.power - sl })
        have hf2' : (setV p.voters addr { v with choice := -1, power := v.power - sl }).find? (·.addr == addr) =
            some { v with choice := -1, power := v.power - sl } := find_setV hf _ hva
        have hdv2 := doVote_found
          { p with options := subAt p.options v.choice v.power
                   voters := setV p.voters addr { v with choice := -1, power := v.power - sl } }
          addr v.choice { v with choice := -1, power := v.power - sl } (distinct_setV hd addr _ hva) hf2'
        simp only [hnp, if_false, m2, propOf_setVoters, e2, hvt]
        simp only [gdiv, h3, if_false, pure, Except.pure, propOf_total, propOf_voters, m3, hdv, addAt_neg1, hm,
          hdv2, subAt_neg1, find_any hf, if_true]
        simp only [setV_setV (c := { v with choice := -1, power := v.power - sl }) (hc := hva),
          setV_setV (c := { v with choice := -1 }) (hc := hva)]
        rfl
    · simp only [h0, if_false]
      have h3 : ¬ ((3 : Int) = 0) := by decide
      by_cases hnp : v.power - sl ≤ 0
      · simp only [hnp, if_true, gdiv, h3, if_false, pure, Except.pure, propOf_total,
          mapSet_votersOf_setV hf { v with power := v.power - sl } hva, mapDel_votersOf,
          filter_setV p.voters addr { v with power := v.power - sl } hva, find_any hf]
        rfl
      · simp only [hnp, if_true, gdiv, h3, if_false, pure, Except.pure, propOf_total,
          mapSet_votersOf_setV hf { v with power := v.power - sl } hva,
          map_upd_eq_setV hd hf (fun w => { w with power := v.power - sl }), find_any hf]
        rfl

/-- a proposal whose only voter (power 100) has not voted -/
def exPunished : Proposal :=
  { hash := "h", start := 1, end_ := 10, applying := 20, total := 100, majority := 66, optType := 0,
    voters := [{ addr := "aa", power := 100, choice := -1 }],
    options := [{ raw := "01", parsedV := none, parsedA := none, votes := 0 }] }

/-- without `SlashFits` the two differ.  With `ratio = -1` Go computes `uint64(-1) = 2^64-1`,
    `100 * (2^64-1) / 100 = 2^64-1`, `int64(2^64-1) = -1`: the voter's power becomes 101 and the
    total 101; the model slashes `2^64-1`, which removes the voter. -/
theorem GovProposal_DoPunish_differs : ∃ p addr ratio, VotersDistinct p.voters ∧ ChoicesOK p ∧
    ¬ SlashFits p addr ratio ∧
    GovProposal_DoPunish (propOf p) addr ratio ≠
      .ok (propOf (p.doPunish addr ratio).1, (p.doPunish addr ratio).2, none) :=
  ⟨exPunished, "aa", -1, by decide, by decide, by decide, by decide⟩

/-- what Go computes on that input -/
example : GovProposal_DoPunish (propOf exPunished) "aa" (-1) =
    .ok (propOf { exPunished with total := 101, majority := 67,
                                  voters := [{ addr := "aa", power := 101, choice := -1 }] }, -1, none) := by decide

/-- what the model computes on that input -/
example : exPunished.doPunish "aa" (-1) =
    ({ exPunished with total := 100 - (2 ^ 64 - 1), majority := Int.tdiv ((100 - (2 ^ 64 - 1)) * 2) 3, voters := [] },
     2 ^ 64 - 1) := by decide

/-- the hypotheses are satisfiable (two voters, two options, a voter with choice 0 and power 10, ratio 50) -/
example : VotersDistinct exProposal.voters ∧ ChoicesOK exProposal ∧ SlashFits exProposal "aa" 50 := by decide

/-- and both sides agree there: power 10 -> 5, the 10 votes on option 0 become 5, total 30 -> 25 -/
example : GovProposal_DoPunish (propOf exProposal) "aa" 50 =
    .ok (propOf { exProposal with
      total := 25, majority := 16
      voters := [{ addr := "aa", power := 5, choice := 0 }, { addr := "bb", power := 20, choice := -1 }]
      options := [{ raw := "01", parsedV := none, parsedA := none, votes := 5 },
                  { raw := "02", parsedV := none, parsedA := none, votes := 0 }] }, 5, none) := by
  rw [GovProposal_DoPunish_eq _ _ _ (by decide) (by decide) (by decide)]
  exact congrArg Except.ok (by decide)

/-- a slash that exhausts the power removes the voter (ratio 100) -/
example : GovProposal_DoPunish (propOf exProposal) "aa" 100 =
    .ok (propOf { exProposal with
      total := 20, majority := 13
      voters := [{ addr := "bb", power := 20, choice := -1 }]
      options := [{ raw := "01", parsedV := none, parsedA := none, votes := 0 },
                  { raw := "02", parsedV := none, parsedA := none, votes := 0 }] }, 10, none) := by
  rw [GovProposal_DoPunish_eq _ _ _ (by decide) (by decide) (by decide)]
  exact congrArg Except.ok (by decide)

end Rigo.GenEq
