/-
  Governance proposals: how the generated structures (`Rigo.Gen.GovProposal`, the Go struct with its
  `map[string]*Voter` as an association list `GMap Voter` and its `[]*voteOption`) correspond to the
  model's `Rigo.Proposal` (voters as a list sorted by address, options with their parses), and the
  lemmas about the map operations on the image of a voter list.

  * `propOf p`        : the generated view of a model proposal (the abstraction used by every
                        governance equality theorem: `Gen.f (propOf p) … = .ok (propOf (model_f p …), …)`)
  * `VotersDistinct p`: no two voters with the same address (a Go map has one entry per key)
  * `ChoicesOK p`     : every recorded choice indexes an option (`validateVoting` guarantees it;
                        the Go code would panic with an index out of range otherwise)
-/
import RigoProofs.GenFuncsBase
import Rigo.Block

namespace Rigo.GenEq
open Rigo Rigo.Gen

/-- a model option as the Go `voteOption` (the parses are ghost data of the model) -/
def optOf (o : VoteOpt) : VoteOption := { option := o.raw, votes := o.votes }

/-- the voter list as the Go map keyed by `addr.String()` -/
def votersOf (vs : List Voter) : GMap Voter := vs.map fun v => (hexStr v.addr, v)

/-- the generated view of a model proposal -/
def propOf (p : Proposal) : GovProposal :=
  { header := { hash := p.hash, start := p.start, end_ := p.end_, applying := p.applying,
                total := p.total, majority := p.majority, voters := votersOf p.voters, optType := p.optType },
    options := p.options.map optOf,
    major := p.major.map optOf }

/-- one map entry per address -/
def VotersDistinct (vs : List Voter) : Prop := vs.Pairwise (fun a b => a.addr ≠ b.addr)

instance (vs : List Voter) : Decidable (VotersDistinct vs) := by unfold VotersDistinct; infer_instance

/-- every recorded choice is the index of an option -/
def ChoicesOK (p : Proposal) : Prop := ∀ v ∈ p.voters, v.choice < (p.options.length : Int)

instance (p : Proposal) : Decidable (ChoicesOK p) := by unfold ChoicesOK; infer_instance

@[simp] theorem hexStr_eq (h : Hex) : hexStr h = h := rfl

theorem mapGet_votersOf (vs : List Voter) (a : Hex) :
    mapGet (votersOf vs) (hexStr a) = vs.find? (·.addr == a) := by
  unfold mapGet votersOf
  induction vs with
  | nil => rfl
  | cons v vs ih =>
    simp only [List.map_cons, List.find?_cons, hexStr_eq]
    by_cases h : v.addr == a
    · simp [h]
    · simp only [h]; exact ih

theorem mapDel_votersOf (vs : List Voter) (a : Hex) :
    mapDel (votersOf vs) (hexStr a) = votersOf (vs.filter (·.addr != a)) := by
  unfold mapDel votersOf
  simp only [hexStr_eq]
  induction vs with
  | nil => rfl
  | cons v vs ih =>
    simp only [List.map_cons, List.filter_cons]
    by_cases h : v.addr == a
    · simp only [h, Bool.not_true, bne]; exact ih
    · simp only [h, Bool.not_false, bne, if_true, List.map_cons]; exact congrArg _ ih

/-- writing back a voter with the same address under its key updates exactly that entry -/
theorem mapSet_votersOf (vs : List Voter) (a : Hex) (w : Voter) (hw : w.addr = a)
    (hin : vs.any (·.addr == a) = true) :
    mapSet (votersOf vs) (hexStr a) w = votersOf (vs.map fun v => if v.addr == a then w else v) := by
  unfold mapSet votersOf
  have hany : (List.map (fun v => (hexStr v.addr, v)) vs).any (fun e => e.1 == hexStr a) = true := by
    simp only [List.any_map]; exact hin
  rw [if_pos hany]
  simp only [List.map_map]
  apply List.map_congr_left
  intro v _
  simp only [Function.comp, hexStr_eq]
  by_cases h : v.addr == a
  · simp only [h, if_true]
    have : v.addr = a := by simpa using h
    rw [this, hw]
  · simp [h]

end Rigo.GenEq
