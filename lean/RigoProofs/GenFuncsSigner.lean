/-
  `SFilePVLastSignState.CheckHRS` (types/crypto/sfile_pv.go): the generated definition against
  the signer model's `checkHRS`.  The model keeps the stored sign bytes / signature as structured
  `Option`s, the generated structure as byte strings ("" = nil); `Abs` relates the two.
-/
import RigoProofs.GenFuncsBase
import Rigo.Signer

set_option linter.unusedSimpArgs false

namespace Rigo.GenEq
open Rigo Rigo.Gen Rigo.Signer

/-- the generated last-sign state abstracts the model's -/
structure AbsLSS (g : LastSignState) (l : LSS) : Prop where
  height : g.height = l.height
  round : g.round = l.round
  step : g.step = l.step
  signBytes : g.signBytes = "" ↔ l.signBytes = none
  signature : g.signature = "" ↔ l.signature = none

/-- the error text of the Go code for each error kind of the model -/
def hrsLabel : Err → String
  | .heightRegression => "height regression. Got %v, last height %v"
  | .roundRegression => "round regression at height %v. Got %v, last round %v"
  | .stepRegression => "step regression at height %v round %v. Got %v, last step %v"
  | .noSignBytes => "no SignBytes found"
  | .conflict => "conflict"

/-- the outcome of the generated `CheckHRS` that corresponds to an outcome of the model -/
def hrsMatches (x : G (Bool × Option String)) : Chk → Prop
  | .fresh => x = .ok (false, none)
  | .reuse _ _ => x = .ok (true, none)
  | .err e => x = .ok (false, some (hrsLabel e))
  | .panic => G.panics x

/-- `CheckHRS` = `checkHRS`, outcome for outcome (fresh / reuse / each error / the panic) -/
theorem LastSignState_CheckHRS_eq (g : LastSignState) (l : LSS) (habs : AbsLSS g l) (h r s : Int) :
    hrsMatches (LastSignState_CheckHRS g h r s) (checkHRS l h r s) := by
  obtain ⟨e1, e2, e3, e4, e5⟩ := habs
  unfold LastSignState_CheckHRS checkHRS
  rw [e1, e2, e3]
  gsimp
  by_cases c1 : l.height > h
  · simp [c1, hrsMatches, hrsLabel]
  · by_cases c2 : l.height = h
    · by_cases c3 : l.round > r
      · simp [c1, c2, c3, hrsMatches, hrsLabel]
      · by_cases c4 : l.round = r
        · by_cases c5 : l.step > s
          · simp [c1, c2, c3, c4, c5, hrsMatches, hrsLabel]
          · by_cases c6 : l.step = s
            · cases hb : l.signBytes with
              | none =>
                have : g.signBytes = "" := e4.mpr hb
                simp [c1, c2, c3, c4, c5, c6, this, hrsMatches, hrsLabel]
              | some sb =>
                have hb' : g.signBytes ≠ "" := fun e => by rw [e4.mp e] at hb; cases hb
                cases hs : l.signature with
                | none =>
                  have : g.signature = "" := e5.mpr hs
                  simp [c1, c2, c3, c4, c5, c6, hb', this, hrsMatches]
                | some sg =>
                  have hs' : g.signature ≠ "" := fun e => by rw [e5.mp e] at hs; cases hs
                  simp [c1, c2, c3, c4, c5, c6, hb', hs', hrsMatches]
            · simp [c1, c2, c3, c4, c5, c6, hrsMatches]
        · simp [c1, c2, c3, c4, hrsMatches]
    · simp [c1, c2, hrsMatches]

/-- the abstraction is inhabited on a non-trivial state (a stored vote with its signature) -/
example : AbsLSS ⟨5, 1, 2, "aa", "bb"⟩
    { height := 5, round := 1, step := 2,
      signBytes := some ⟨5, 1, 2, 7, 100⟩, signature := some ⟨⟨5, 1, 2, 7, 100⟩⟩ } :=
  ⟨rfl, rfl, rfl, by simp, by simp⟩

end Rigo.GenEq
