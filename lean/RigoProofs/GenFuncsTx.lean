/-
  Round 2, transaction validation and fee handling (node/trx_executor.go, ctrlers/types):
  `commonValidation0` (the interface calls `ctx.GovHandler.GasPrice()`, `ctx.GovHandler.MinTrxFee()` and
  the signature check `VerifyTrxRLP` are explicit parameters of the generated function),
  `commonValidation1`, `postRunTrx` (fee = gas price x gas, nonce, gas used; the ledger call
  `SetAccountCommittable` is an explicit parameter), `GasToFee` / `FeeToGas`, `NewAccount`.

  The Go `TrxContext` / `Trx` are generated structures; `trxOf tx` is the Go transaction of a model
  transaction `TxIn`, and the theorems speak about any context `ctx` with `ctx.tx = trxOf tx`.
-/
import RigoProofs.GenFuncsSimple

set_option linter.unusedSimpArgs false

namespace Rigo.GenEq
open Rigo Rigo.Gen

/-- the Go payload object of a model payload (`ITrxPayload`: nil, the dynamic types the controllers
    test for, anything else); the options of a proposal are their raw bytes (the parses are ghost data
    of the model, supplied to the generated functions as the `json.Unmarshal` oracle) -/
def payOf : Payload → TrxPayload
  | .none => .nil
  | .unstaking h => .unstaking { hash := h }
  | .withdraw r => .withdraw { reqAmt := r }
  | .proposal msg start period applying optType opts =>
      .proposal { message := msg, start := start, period := period, applying := applying, optType := optType,
                  options := opts.map (·.raw) }
  | .voting h c => .voting { hash := h, choice := c }
  | .contract _ => .other
  | .setdoc name url _ _ => .setdoc { name := name, url := url }

/-- the Go transaction of a model transaction -/
def trxOf (tx : TxIn) : Trx :=
  { version := tx.version, time := tx.time, nonce := tx.nonce, from_ := tx.from_, to := tx.to,
    amount := tx.amount, gas := tx.gas, gasPrice := tx.price, type := tx.type, payload := payOf tx.payload }

theorem maxInt64_eq : maxInt64 = 9223372036854775807 := by decide

/-! ### `commonValidation0` -/

theorem cmp256_ne_zero (a b : Nat) : cmp256 a b ≠ 0 ↔ a ≠ b := by
  unfold cmp256
  by_cases h1 : a < b
  · have : a ≠ b := by omega
    simp [h1, this]
  · by_cases h2 : a = b <;> simp [h1, h2]

theorem natCast_ne_20 (n : Nat) : ((n : Int) ≠ 20) ↔ n ≠ 20 := by omega

/-- the error of the Go code for each failure kind of the model's `commonValidation0`
    (`verr` = the error returned by `VerifyTrxRLP`) -/
def cv0Label (verr : Option String) (kind : String) : Option String :=
  if kind = "address" then some "ErrInvalidAddress"
  else if kind = "amount" then some "ErrInvalidAmount"
  else if kind = "gas" then some "ErrInvalidGas"
  else if kind = "gasprice" then some "ErrInvalidGasPrice"
  else if kind = "minfee" then some "ErrInvalidGas"
  else if kind = "sig" then verr
  else none

/-- `commonValidation0(ctx)` with the handler's gas price / minimum fee taken from the active
    parameters and a signature check that fails exactly when the model's `sigOk` is false:
    the same verdict as the model's `commonValidation0`, check for check in the same order; on
    success of a DeliverTx the recovered public key is stored in the context. -/
theorem commonValidation0_eq (s : St) (exec : Bool) (tx : TxIn) (ctx : TrxContext) (a pk : Hex)
    (verr : Option String) (htx : ctx.tx = trxOf tx) (hex : ctx.exec = exec)
    (hsig : verr.isNone = tx.sigOk) :
    Gen.commonValidation0 ctx s.active.gasPrice s.active.minTrxFee (a, pk, verr) =
      .ok (match Rigo.commonValidation0 s exec tx with
        | .ok () => (if exec then { ctx with senderPubKey := pk } else ctx, none)
        | .error (.err k) => (ctx, cv0Label verr k)
        | .error (.panic _) => (ctx, none)) := by
  unfold Gen.commonValidation0 Rigo.commonValidation0
  simp only [htx, hex, trxOf, hexLen, bind, Except.bind, pure, Except.pure, throw, throwThe,
    MonadExceptOf.throw, maxInt64_eq, sign256_neg, cmp256_ne_zero, cmp256_neg, natCast_ne_20]
  have hg : ¬ (tx.gas < 0) := by omega
  simp only [hg, false_or]
  by_cases h1 : byteLen tx.from_ ≠ 20
  · simp [h1, cv0Label]
  by_cases h2 : byteLen tx.to ≠ 20
  · simp [h1, h2, cv0Label]
  by_cases h3 : isNeg256 tx.amount = true
  · simp [h1, h2, h3, cv0Label]
  by_cases h4 : tx.gas > 9223372036854775807
  · simp [h1, h2, h3, h4, cv0Label]
  by_cases h5 : isNeg256 tx.price = true ∨ tx.price ≠ s.active.gasPrice
  · simp only [h1, h2, h3, h4, h5, if_true, if_false, cv0Label]; simp
  by_cases h6 : wmul tx.price tx.gas < s.active.minTrxFee
  · simp only [h1, h2, h3, h4, h5, h6, if_true, if_false, cv0Label]; simp
  simp only [h1, h2, h3, h4, h5, h6, if_true, if_false]
  cases exec with
  | false => simp
  | true =>
    cases hs : tx.sigOk with
    | true =>
      have : verr = none := by rw [hs] at hsig; cases verr <;> simp_all
      subst this
      simp
    | false =>
      have : verr.isSome = true := by rw [hs] at hsig; cases verr <;> simp_all
      simp [this, cv0Label]

/-- the failure kinds of the model's `commonValidation0` (it never panics) -/
theorem cv0_error_kind (s : St) (exec : Bool) (tx : TxIn) (f : Fail)
    (h : Rigo.commonValidation0 s exec tx = .error f) :
    (f = .err "address" ∨ f = .err "amount" ∨ f = .err "gas" ∨ f = .err "gasprice" ∨ f = .err "minfee") ∨
      (f = .err "sig" ∧ tx.sigOk = false) := by
  unfold Rigo.commonValidation0 at h
  simp only [bind, Except.bind, pure, Except.pure, throw, throwThe, MonadExceptOf.throw] at h
  repeat' split at h
  all_goals (cases h <;> simp_all)

/-- the model accepts exactly when the Go code returns no error -/
theorem commonValidation0_ok_iff (s : St) (exec : Bool) (tx : TxIn) (ctx : TrxContext) (a pk : Hex)
    (verr : Option String) (htx : ctx.tx = trxOf tx) (hex : ctx.exec = exec)
    (hsig : verr.isNone = tx.sigOk) :
    Rigo.commonValidation0 s exec tx = .ok () ↔
      ∃ ctx', Gen.commonValidation0 ctx s.active.gasPrice s.active.minTrxFee (a, pk, verr) = .ok (ctx', none) := by
  rw [commonValidation0_eq s exec tx ctx a pk verr htx hex hsig]
  cases hm : Rigo.commonValidation0 s exec tx with
  | ok u => simp
  | error f =>
    rcases cv0_error_kind s exec tx f hm with h | ⟨h, hs⟩
    · rcases h with h | h | h | h | h <;> subst h <;> simp [cv0Label]
    · subst h
      have : verr ≠ none := by intro e; rw [hs, e] at hsig; cases hsig
      simp [cv0Label, this]

/-- a transfer of 10 gas at price 3 with a good signature -/
def exTx : TxIn :=
  { from_ := "0000000000000000000000000000000000000001", to := "0000000000000000000000000000000000000002",
    type := 1, gas := 10, price := 3, sigOk := true }

def exCtx : TrxContext :=
  { height := 1, txHash := "", tx := trxOf exTx, exec := true, senderPubKey := "",
    sender := { addr := "aa", bal := 100, nonce := 4 }, receiver := { addr := "bb" }, gasUsed := 0, chainId := "c" }

example : Gen.commonValidation0 exCtx 3 30 ("", "02ab", none) = .ok ({ exCtx with senderPubKey := "02ab" }, none) := by
  simp +decide [Gen.commonValidation0, exCtx, exTx, trxOf, hexLen, byteLen, sign256, cmp256, wmul, two255, two256,
    bind, Except.bind, pure, Except.pure]

/-! ### `commonValidation1` -/

theorem commonValidation1_eq (tx : TxIn) (ctx : TrxContext) (htx : ctx.tx = trxOf tx) :
    Gen.commonValidation1 ctx = .ok (match Rigo.commonValidation1 ctx.sender tx with
      | .ok () => none
      | .error (.err k) => if k = "funds" then some "ErrInsufficientFund" else some "ErrInvalidNonce"
      | .error (.panic _) => none) := by
  unfold Gen.commonValidation1 Rigo.commonValidation1
  simp only [htx, trxOf, Account_CheckBalance_eq, Account_CheckNonce_eq, bind, Except.bind, pure,
    Except.pure, throw, throwThe, MonadExceptOf.throw]
  by_cases h1 : wadd (wmul tx.price tx.gas) tx.amount > ctx.sender.bal
  · simp [h1]
  · by_cases h2 : ctx.sender.nonce = tx.nonce <;> simp [h1, h2]

/-! ### `postRunTrx` and the fee arithmetic -/

theorem Trx_GetType_eq (tx : TxIn) : Trx_GetType (trxOf tx) = .ok tx.type := rfl

/-- `AddNonce`: uint64 increment -/
theorem Account_AddNonce_eq (a : Account) :
    Account_AddNonce a = .ok { a with nonce := (a.nonce + 1) % two64 } := rfl

/-- `GasToFee(gas, price)` = `gas x price` with uint256 wrap-around (`deliverTx`: `wmul gasUsed gasPrice`) -/
theorem GasToFee_eq (gas price : Nat) : GasToFee gas price = .ok (wmul gas price) := rfl

theorem FeeToGas_eq (fee price : Nat) : FeeToGas fee price = .ok ((fee / price) % two64) := rfl

/-- a fresh account: address only, zero balance and nonce (`findOrNewAcct`) -/
theorem NewAccount_eq (addr : Hex) : NewAccount addr = .ok ({ addr := addr } : Account) := by
  unfold NewAccount; rfl

/-- does the transaction run through the EVM (no native fee handling then)? -/
def viaEvm (tx : TxIn) (receiver : Account) : Prop :=
  tx.type = TRX_CONTRACT ∨ (tx.type = TRX_TRANSFER ∧ receiver.code ≠ "")

instance (tx : TxIn) (r : Account) : Decidable (viaEvm tx r) := by unfold viaEvm; infer_instance

/-- `postRunTrx(ctx)`: for a transaction that does not run through the EVM the sender pays
    `gasPrice x gas` (`subBalance`, the model's expression of `runTrx`), its nonce is incremented
    (uint64), the account is handed to the ledger (`serr` = the error of that call) and the gas
    used is the gas limit; EVM transactions are left alone. -/
theorem postRunTrx_eq (tx : TxIn) (ctx : TrxContext) (serr : Option String) (htx : ctx.tx = trxOf tx) :
    Gen.postRunTrx ctx serr = .ok (
      if viaEvm tx ctx.receiver then (ctx, none)
      else match subBalance ctx.sender (wmul tx.price tx.gas) with
        | none => (ctx, some (if isNeg256 (wmul tx.price tx.gas) then "ErrInvalidAmount" else "ErrInsufficientFund"))
        | some a1 =>
          match serr with
          | some e => ({ ctx with sender := { a1 with nonce := (a1.nonce + 1) % two64 } }, some e)
          | none => ({ ctx with sender := { a1 with nonce := (a1.nonce + 1) % two64 }, gasUsed := tx.gas }, none)) := by
  unfold Gen.postRunTrx viaEvm
  have e1 : ctx.tx.type = tx.type := by rw [htx]; rfl
  have e2 : ctx.tx.gasPrice = tx.price := by rw [htx]; rfl
  have e3 : ctx.tx.gas = tx.gas := by rw [htx]; rfl
  simp only [e1, e2, e3, Trx_GetType, HexBytes_Compare_eq, Account_SubBalance_eq, Account_AddNonce_eq,
    bind, Except.bind, pure, Except.pure, TRX_CONTRACT, TRX_TRANSFER]
  generalize subBalance ctx.sender (wmul tx.price tx.gas) = sb
  by_cases h1 : tx.type = 6
  · cases hx : ctx.exec <;> by_cases hz : cmpBytes ctx.tx.to zeroAddress20 = 0 <;> simp [h1, hz]
  · by_cases h2 : tx.type = 1
    · by_cases h3 : ctx.receiver.code = ""
      · cases hx : ctx.exec <;> cases sb <;> cases serr <;> simp [h1, h2, h3] <;> rw [← hx]
      · cases hx : ctx.exec <;> simp [h1, h2, h3]
    · cases hx : ctx.exec <;> cases sb <;> cases serr <;> simp [h1, h2] <;> rw [← hx]

/-- with a nonce below 2^64 - 1 the increment is the model's `nonce + 1` -/
theorem nonce_succ_mod (n : Nat) (h : n + 1 < two64) : (n + 1) % two64 = n + 1 := Nat.mod_eq_of_lt h

example : Gen.postRunTrx exCtx none =
    .ok ({ exCtx with sender := { addr := "aa", bal := 70, nonce := 5 }, gasUsed := 10 }, none) := by
  rw [postRunTrx_eq exTx exCtx none rfl]
  simp [viaEvm, exTx, exCtx, TRX_CONTRACT, TRX_TRANSFER, subBalance, isNeg256, wmul, wsub, two255, two256, two64]

end Rigo.GenEq
