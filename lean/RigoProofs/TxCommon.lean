/-
  Lemmas about `handleTx` (one transaction on the DeliverTx / CheckTx path) shared by the proofs of
  C04 (nonces), C05 (failed transaction = no effect) and C16 (fees and gas):
  per-type execution results, the decomposition of `runTrx`, inversion of `handleTx`.
  (Account views, arithmetic and validation lemmas are in `RigoProofs.TxBasic`.)
-/
import RigoProofs.TxBasic
import RigoProofs.TxRecv
open Std

namespace Rigo

/-! ### native execution bodies on the DeliverTx path -/

theorem execTransfer_ok {s : St} {tx : TxIn} {r : RunOut} (h : execTransfer s true tx = .ok r) :
    r.fail = none ∧ r.evmGas = none ∧ isNeg256 tx.amount = false ∧
    ∃ sender, s.accts.fin[ledgerKey tx.from_]? = some sender ∧ tx.amount ≤ sender.bal ∧
      ((ledgerKey tx.from_ = ledgerKey tx.to ∧
          r.st = s.setAcct true { sender with bal := wadd (wsub sender.bal tx.amount) tx.amount }) ∨
       (ledgerKey tx.from_ ≠ ledgerKey tx.to ∧ ∃ recv, s.accts.fin[ledgerKey tx.to]? = some recv ∧
          r.st = (s.setAcct true { sender with bal := wsub sender.bal tx.amount }).setAcct true
                    { recv with bal := wadd recv.bal tx.amount })) := by
  unfold execTransfer at h
  step_cases h
  · rename_i sender hs hk _ a1 h1 _ a2 h2
    obtain ⟨n1, l1, rfl⟩ := subBalance_some h1
    obtain ⟨n2, rfl⟩ := addBalance_some h2
    simp at h; subst h
    exact ⟨rfl, rfl, n1, sender, hs, l1, Or.inl ⟨by simpa using hk, rfl⟩⟩
  · rename_i sender hs hk _ recv hr _ a1 h1 _ a2 h2
    obtain ⟨n1, l1, rfl⟩ := subBalance_some h1
    obtain ⟨n2, rfl⟩ := addBalance_some h2
    simp at h; subst h
    exact ⟨rfl, rfl, n1, sender, hs, l1, Or.inr ⟨by simpa using hk, recv, hr, rfl⟩⟩

theorem execSetDoc_ok {s : St} {tx : TxIn} {r : RunOut} (h : execSetDoc s true tx = .ok r) :
    r.fail = none ∧ r.evmGas = none ∧
    ∃ sender name url, s.accts.fin[ledgerKey tx.from_]? = some sender ∧
      r.st = s.setAcct true { sender with name := name, doc := url } := by
  unfold execSetDoc at h
  step_cases h
  rename_i sender hs _ name url _ _ _
  simp at h; subst h
  exact ⟨rfl, rfl, sender, name, url, hs, rfl⟩

theorem execStaking_ok {s : St} {ht : Int} {tx : TxIn} {r : RunOut} (h : execStaking s true ht tx = .ok r) :
    r.fail = none ∧ r.evmGas = none ∧ isNeg256 tx.amount = false ∧
    ∃ sender dl, s.accts.fin[ledgerKey tx.from_]? = some sender ∧ tx.amount ≤ sender.bal ∧
      r.st = { s.setAcct true { sender with bal := wsub sender.bal tx.amount } with delegs := dl } := by
  unfold execStaking at h
  step_cases h
  all_goals
    obtain ⟨n1, l1, rfl⟩ := subBalance_some ‹subBalance _ _ = some _›
    simp at h; subst h
    exact ⟨rfl, rfl, n1, _, _, ‹s.accts.fin[ledgerKey tx.from_]? = some _›, l1, rfl⟩

theorem execUnstaking_ok {s : St} {ht : Int} {tx : TxIn} {r : RunOut} (h : execUnstaking s true ht tx = .ok r) :
    r.fail = none ∧ r.evmGas = none ∧ ∃ dl fr, r.st = { s with delegs := dl, frozen := fr } := by
  unfold execUnstaking at h
  step_cases h
  all_goals
    simp at h; subst h
    exact ⟨rfl, rfl, _, _, rfl⟩

theorem execProposal_ok {s : St} {tx : TxIn} {r : RunOut} (h : execProposal s true tx = .ok r) :
    r.fail = none ∧ r.evmGas = none ∧ ∃ pr, r.st = { s with props := pr } := by
  unfold execProposal at h
  step_cases h
  all_goals
    simp at h; subst h
    exact ⟨rfl, rfl, _, rfl⟩

theorem execVoting_ok {s : St} {tx : TxIn} {r : RunOut} (h : execVoting s true tx = .ok r) :
    r.fail = none ∧ r.evmGas = none ∧ ∃ pr, r.st = { s with props := pr } := by
  unfold execVoting at h
  step_cases h
  all_goals
    simp at h; subst h
    exact ⟨rfl, rfl, _, rfl⟩

theorem reward_some {s s' : St} {to : Hex} {amt : Nat} (h : s.reward true to amt = some s') :
    isNeg256 amt = false ∧ ∃ a, s.accts.fin[ledgerKey to]? = some a ∧ s' = s.setAcct true { a with bal := wadd a.bal amt } := by
  unfold St.reward at h
  simp only [findAcct_true] at h
  split at h; · simp at h
  split at h; · simp at h
  rename_i a ha _ a' ha'
  obtain ⟨n, rfl⟩ := addBalance_some ha'
  simp at h
  exact ⟨n, a, ha, h.symm⟩

theorem execWithdraw_ok {s : St} {ht : Int} {tx : TxIn} {r : RunOut} (h : execWithdraw s true ht tx = .ok r) :
    r.fail = none ∧ r.evmGas = none ∧
    ∃ req sender rw, tx.payload = .withdraw req ∧ isNeg256 req = false ∧ s.accts.fin[ledgerKey tx.from_]? = some sender ∧
      r.st = { s.setAcct true { sender with bal := wadd sender.bal req } with
                 rewards := rw, ghost := { s.ghost with withdrawn := s.ghost.withdrawn + req } } := by
  unfold execWithdraw at h
  step_cases h
  all_goals
    obtain ⟨n, a, ha, e⟩ := reward_some ‹St.reward _ true tx.from_ _ = some _›
    subst e
    simp at h
    first
      | exact absurd trivial ‹¬True›
      | (subst h; exact ⟨rfl, rfl, _, a, _, ‹tx.payload = _›, n, ha, rfl⟩)


/-! ### decomposition of `runTrx` -/

/-- the per-type body of a transaction that does not go through the EVM -/
def execNative (s : St) (exec : Bool) (height : Int) (tx : TxIn) : Step RunOut :=
  if tx.type = TRX_PROPOSAL then execProposal s exec tx
  else if tx.type = TRX_VOTING then execVoting s exec tx
  else if tx.type = TRX_TRANSFER then execTransfer s exec tx
  else if tx.type = TRX_SETDOC then execSetDoc s exec tx
  else if tx.type = TRX_STAKING then execStaking s exec height tx
  else if tx.type = TRX_UNSTAKING then execUnstaking s exec height tx
  else if tx.type = TRX_WITHDRAW then execWithdraw s exec height tx
  else throw (.err "unknowntype")

/-- `postRunTrx` for native transactions: fee debit, nonce + 1, gas used = gas limit -/
def feeStep (s : St) (exec : Bool) (tx : TxIn) : Step (St × Nat × Option String) := do
  let some sender := s.findAcct exec tx.from_ | throw (.err "noacct")
  match subBalance sender (wmul tx.price tx.gas) with
  | none => throw (.err "funds")
  | some a1 => pure (s.setAcct exec { a1 with nonce := a1.nonce + 1 }, tx.gas, none)

/-- does the transaction go through the EVM? -/
def viaEvm (tx : TxIn) (receiver : Account) : Prop :=
  tx.type = TRX_CONTRACT ∨ (tx.type = TRX_TRANSFER ∧ receiver.code ≠ "")

instance (tx : TxIn) (r : Account) : Decidable (viaEvm tx r) := by unfold viaEvm; infer_instance

theorem runTrx_native {s : St} {exec : Bool} {ht : Int} {tx : TxIn} {recv : Account} (hn : ¬ viaEvm tx recv) :
    runTrx s exec ht tx recv =
      (execNative s exec ht tx).bind fun r => if r.fail.isSome then .ok (r.st, 0, r.fail) else feeStep r.st exec tx := by
  unfold viaEvm at hn
  have h6 : tx.type ≠ TRX_CONTRACT := fun h => hn (Or.inl h)
  have hc : tx.type = TRX_TRANSFER → recv.code = "" := fun h => by
    apply Classical.byContradiction; intro hh; exact hn (Or.inr ⟨h, hh⟩)
  unfold runTrx execNative feeStep
  simp only [bind, pure, Except.pure, h6, if_false, false_or]
  by_cases h4 : tx.type = TRX_PROPOSAL
  · simp [h4, (show ¬ TRX_PROPOSAL = TRX_TRANSFER by decide)] <;> rfl
  simp only [h4, if_false]
  by_cases h5 : tx.type = TRX_VOTING
  · simp [h5, (show ¬ TRX_VOTING = TRX_TRANSFER by decide)] <;> rfl
  simp only [h5, if_false]
  by_cases h1 : tx.type = TRX_TRANSFER
  · simp [h1, hc h1] <;> rfl
  simp only [h1, if_false, false_and]
  by_cases h7 : tx.type = TRX_SETDOC
  · simp [h7] <;> rfl
  simp only [h7, if_false]
  by_cases h2 : tx.type = TRX_STAKING
  · simp [h2] <;> rfl
  simp only [h2, if_false]
  by_cases h3 : tx.type = TRX_UNSTAKING
  · simp [h3] <;> rfl
  simp only [h3, if_false]
  by_cases h8 : tx.type = TRX_WITHDRAW
  · simp [h8] <;> rfl
  simp [h8] <;> rfl

theorem runTrx_evm {s : St} {exec : Bool} {ht : Int} {tx : TxIn} {recv : Account} (hv : viaEvm tx recv) :
    runTrx s exec ht tx recv =
      (execEvm s exec tx).bind fun r =>
        if r.fail.isSome then .ok (r.st, 0, r.fail) else .ok (r.st, r.evmGas.getD 0, none) := by
  unfold runTrx
  simp only [bind, pure, Except.pure]
  by_cases h6 : tx.type = TRX_CONTRACT
  · simp [h6] <;> rfl
  · have h1 : tx.type = TRX_TRANSFER ∧ recv.code ≠ "" := by
      rcases hv with h | h
      · exact absurd h h6
      · exact h
    simp [h1.1, (show ¬ TRX_TRANSFER = TRX_CONTRACT by decide), (show ¬ TRX_TRANSFER = TRX_PROPOSAL by decide),
      (show ¬ TRX_TRANSFER = TRX_VOTING by decide), h1.2] <;> rfl

/-! ### inversion of `handleTx` -/

theorem handleTxOld_ok_inv {s : St} {exec : Bool} {h : Int} {tx : TxIn} (hc : (handleTxOld s exec h tx).2.code = 0) :
    tx.decodable = true ∧ ∃ sender s1 s2 g,
      s.findAcct exec tx.from_ = some sender ∧
      validateTrx (s.findOrNewAcct exec tx.to).1 exec h tx sender (s.findOrNewAcct exec tx.to).2 = .ok s1 ∧
      runTrx s1 exec h tx (s.findOrNewAcct exec tx.to).2 = .ok (s2, g, none) ∧
      handleTxOld s exec h tx = (s2, { code := 0, kind := "ok", gasUsed := g, gasWanted := tx.gas }) := by
  have fc : (if exec = true then 5 else 3 : Nat) ≠ 0 := by split <;> decide
  unfold handleTxOld at hc ⊢
  simp only at hc ⊢
  split at hc
  · exact absurd hc fc
  split at hc
  · exact absurd hc fc
  rename_i hd _ sender hs
  split at hc
  · exact absurd hc fc
  · exact absurd hc fc
  rename_i s1 hv
  split at hc
  · exact absurd hc fc
  · exact absurd hc fc
  · exact absurd hc fc
  rename_i s2 g hr
  refine ⟨by simpa using hd, sender, s1, s2, g, hs, hv, hr, ?_⟩
  simp [hd]

theorem handleTx_ok_inv {s : St} {exec : Bool} {h : Int} {tx : TxIn} (hc : (handleTx s exec h tx).2.code = 0) :
    tx.decodable = true ∧ ∃ sender s1 s2 g,
      s.findAcct exec tx.from_ = some sender ∧
      validateTrx (s.findOrNewAcct exec tx.to).1 exec h tx sender (s.findOrNewAcct exec tx.to).2 = .ok s1 ∧
      runTrx s1 exec h tx (s.findOrNewAcct exec tx.to).2 = .ok (s2, g, none) ∧
      handleTx s exec h tx = (s2, { code := 0, kind := "ok", gasUsed := g, gasWanted := tx.gas }) := by
  have hl := handleTx_ok_len hc
  rw [handleTx_goodlen hl] at hc ⊢
  exact handleTxOld_ok_inv hc

/-- the possible states after a failed `handleTxOld` -/
theorem handleTxOld_fail_inv {s : St} {exec : Bool} {h : Int} {tx : TxIn} (hc : (handleTxOld s exec h tx).2.code ≠ 0) :
    (handleTxOld s exec h tx).1 = s ∨ (handleTxOld s exec h tx).1 = (s.findOrNewAcct exec tx.to).1 ∨
    ∃ sender s1, s.findAcct exec tx.from_ = some sender ∧
      validateTrx (s.findOrNewAcct exec tx.to).1 exec h tx sender (s.findOrNewAcct exec tx.to).2 = .ok s1 ∧
      ((∃ e, runTrx s1 exec h tx (s.findOrNewAcct exec tx.to).2 = .error e ∧ (handleTxOld s exec h tx).1 = s1) ∨
       (∃ s2 g k, runTrx s1 exec h tx (s.findOrNewAcct exec tx.to).2 = .ok (s2, g, some k) ∧
          (handleTxOld s exec h tx).1 = s2)) := by
  unfold handleTxOld at hc ⊢
  simp only at hc ⊢
  split
  · exact Or.inl rfl
  split
  · exact Or.inl rfl
  rename_i hd _ sender hs
  split
  · exact Or.inr (Or.inl rfl)
  · exact Or.inr (Or.inl rfl)
  rename_i s1 hv
  refine Or.inr (Or.inr ⟨sender, s1, hs, hv, ?_⟩)
  split
  · rename_i k hr; exact Or.inl ⟨_, hr, rfl⟩
  · rename_i k hr; exact Or.inl ⟨_, hr, rfl⟩
  · rename_i s2 g k hr; exact Or.inr ⟨s2, g, k, hr, rfl⟩
  · rename_i s2 g hr
    simp [hd, hs, hv, hr] at hc

/-- the possible states after a failed `handleTx` (a receiver of a wrong length: the first case) -/
theorem handleTx_fail_inv {s : St} {exec : Bool} {h : Int} {tx : TxIn} (hc : (handleTx s exec h tx).2.code ≠ 0) :
    (handleTx s exec h tx).1 = s ∨ (handleTx s exec h tx).1 = (s.findOrNewAcct exec tx.to).1 ∨
    ∃ sender s1, s.findAcct exec tx.from_ = some sender ∧
      validateTrx (s.findOrNewAcct exec tx.to).1 exec h tx sender (s.findOrNewAcct exec tx.to).2 = .ok s1 ∧
      ((∃ e, runTrx s1 exec h tx (s.findOrNewAcct exec tx.to).2 = .error e ∧ (handleTx s exec h tx).1 = s1) ∨
       (∃ s2 g k, runTrx s1 exec h tx (s.findOrNewAcct exec tx.to).2 = .ok (s2, g, some k) ∧
          (handleTx s exec h tx).1 = s2)) := by
  by_cases hl : byteLen tx.to = 20
  · rw [handleTx_goodlen hl] at hc ⊢
    exact handleTxOld_fail_inv hc
  · exact Or.inl (handleTx_badlen_fst hl)


/-! ### frames: what a transaction can change at all -/

/-- `s'` differs from `s` at most in the consensus account map -/
def FinFrame (s s' : St) : Prop := s' = { s with accts := { s.accts with fin := s'.accts.fin } }

theorem FinFrame.refl (s : St) : FinFrame s s := rfl

theorem FinFrame.trans {a b c : St} (h1 : FinFrame a b) (h2 : FinFrame b c) : FinFrame a c := by
  unfold FinFrame at *
  rw [h2, h1]

theorem FinFrame_setAcct (s : St) (a : Account) : FinFrame s (s.setAcct true a) := by
  unfold FinFrame; rw [setAcct_true]

theorem FinFrame_findOrNew (s : St) (a : Hex) : FinFrame s (s.findOrNewAcct true a).1 := findOrNew_frame s a

/-! ### the EVM path -/

/-- the state after every address synced in got its native account -/
def evmAccessed (s : St) (accessed : List Hex) : St :=
  accessed.foldl (fun acc a => (acc.findOrNewAcct true a).1) s

/-- the only change a failed transaction can leave in the account map: empty records under keys that
    had no record -/
def EmptyExt (m m' : KMap Account) : Prop :=
  ∀ k : String, m'[k]? = m[k]? ∨ (m[k]? = none ∧ ∃ a, ledgerKey a = k ∧ m'[k]? = some (emptyAcct a))

theorem EmptyExt.refl (m : KMap Account) : EmptyExt m m := fun _ => Or.inl rfl

theorem EmptyExt.trans {a b c : KMap Account} (h1 : EmptyExt a b) (h2 : EmptyExt b c) : EmptyExt a c := by
  intro k
  rcases h1 k with e1 | ⟨n1, x, kx, e1⟩ <;> rcases h2 k with e2 | ⟨n2, y, ky, e2⟩
  · exact Or.inl (e2.trans e1)
  · exact Or.inr ⟨by rw [← e1]; exact n2, y, ky, e2⟩
  · exact Or.inr ⟨n1, x, kx, e2.trans e1⟩
  · rw [e1] at n2; simp at n2

theorem EmptyExt_findOrNew (s : St) (a : Hex) : EmptyExt s.accts.fin (s.findOrNewAcct true a).1.accts.fin := by
  intro k
  rw [findOrNew_fin_get]
  split
  · next h => exact Or.inr ⟨h.2, a, h.1, rfl⟩
  · exact Or.inl rfl

theorem evmAccessed_spec (l : List Hex) (s : St) :
    FinFrame s (evmAccessed s l) ∧ EmptyExt s.accts.fin (evmAccessed s l).accts.fin ∧
    (AddrOK s.accts.fin → AddrOK (evmAccessed s l).accts.fin) := by
  induction l generalizing s with
  | nil => exact ⟨FinFrame.refl s, EmptyExt.refl _, id⟩
  | cons a l ih =>
    have := ih (s.findOrNewAcct true a).1
    unfold evmAccessed at this ⊢
    simp only [List.foldl_cons]
    exact ⟨(FinFrame_findOrNew s a).trans this.1, (EmptyExt_findOrNew s a).trans this.2.1,
      fun h => this.2.2 (AddrOK_findOrNew h a)⟩

/-- one address synced out of the EVM: balance and nonce copied into the native account -/
def syncOne (acc : St) (e : Hex × Nat × Nat) : St :=
  (acc.findOrNewAcct true e.1).1.setAcct true { (acc.findOrNewAcct true e.1).2 with bal := e.2.1, nonce := e.2.2 }

def evmSynced (s : St) (l : List (Hex × Nat × Nat)) : St := l.foldl syncOne s

theorem syncOne_spec (acc : St) (e : Hex × Nat × Nat) (hA : AddrOK acc.accts.fin) :
    FinFrame acc (syncOne acc e) ∧ AddrOK (syncOne acc e).accts.fin ∧
    ∀ k : String, if ledgerKey e.1 = k
      then ∃ ac, (syncOne acc e).accts.fin[k]? = some ac ∧ ac.nonce = e.2.2 ∧ ac.bal = e.2.1
      else (syncOne acc e).accts.fin[k]? = acc.accts.fin[k]? := by
  have hA' := AddrOK_findOrNew hA e.1
  have hk : ledgerKey (acc.findOrNewAcct true e.1).2.addr = ledgerKey e.1 := hA' _ _ (findOrNew_snd_get acc e.1)
  refine ⟨(FinFrame_findOrNew acc e.1).trans (FinFrame_setAcct _ _), ?_, ?_⟩
  · unfold syncOne; rw [setAcct_true]; exact AddrOK_insert hA' _
  · intro k
    unfold syncOne
    rw [setAcct_fin_get]
    simp only [hk]
    split
    · exact ⟨_, rfl, rfl, rfl⟩
    · next hne =>
      rw [findOrNew_fin_get]
      simp [hne]

theorem evmSynced_spec (l : List (Hex × Nat × Nat)) (s : St) (hA : AddrOK s.accts.fin) :
    FinFrame s (evmSynced s l) ∧ AddrOK (evmSynced s l).accts.fin ∧
    ∀ k : String,
      ((∀ e ∈ l, ledgerKey e.1 ≠ k) → (evmSynced s l).accts.fin[k]? = s.accts.fin[k]?) ∧
      ((∃ e ∈ l, ledgerKey e.1 = k) → ∃ e ∈ l, ledgerKey e.1 = k ∧
          ∃ ac, (evmSynced s l).accts.fin[k]? = some ac ∧ ac.nonce = e.2.2 ∧ ac.bal = e.2.1) := by
  induction l generalizing s with
  | nil => exact ⟨FinFrame.refl s, hA, fun k => ⟨fun _ => rfl, fun ⟨e, he, _⟩ => by simp at he⟩⟩
  | cons e l ih =>
    obtain ⟨f1, a1, g1⟩ := syncOne_spec s e hA
    obtain ⟨f2, a2, g2⟩ := ih (syncOne s e) a1
    have ee : evmSynced s (e :: l) = evmSynced (syncOne s e) l := rfl
    rw [ee]
    refine ⟨f1.trans f2, a2, fun k => ⟨?_, ?_⟩⟩
    · intro hno
      rw [(g2 k).1 (fun e' he' => hno e' (List.mem_cons_of_mem _ he'))]
      have := g1 k
      rw [if_neg (hno e (List.mem_cons_self))] at this
      exact this
    · intro hex
      by_cases hl : ∃ e' ∈ l, ledgerKey e'.1 = k
      · obtain ⟨e', he', hk', r⟩ := (g2 k).2 hl
        exact ⟨e', List.mem_cons_of_mem _ he', hk', r⟩
      · have hno : ∀ e' ∈ l, ledgerKey e'.1 ≠ k := fun e' he' c => hl ⟨e', he', c⟩
        have hek : ledgerKey e.1 = k := by
          obtain ⟨e', he', hk'⟩ := hex
          rcases List.mem_cons.mp he' with rfl | h
          · exact hk'
          · exact absurd hk' (hno e' h)
        rw [(g2 k).1 hno]
        have := g1 k
        rw [if_pos hek] at this
        exact ⟨e, List.mem_cons_self, hek, this⟩


/-- what a successful run of `execEvm` on the DeliverTx path looks like -/
theorem execEvm_inv {s : St} {tx : TxIn} {r : RunOut} (h : execEvm s true tx = .ok r) :
    ∃ o, tx.evm = some o ∧
      ((o.ok = false ∧ r = { st := evmAccessed s o.accessed, fail := some o.failKind }) ∨
       (o.ok = true ∧ r.fail = none ∧ r.evmGas = some o.gasUsed ∧
         ((isZeroAddr tx.to = false ∧ r.st = evmSynced (evmAccessed s o.accessed) o.synced) ∨
          (isZeroAddr tx.to = true ∧ ∃ c,
              (evmSynced (evmAccessed s o.accessed) o.synced).accts.fin[ledgerKey o.created]? = some c ∧
              r.st = (evmSynced (evmAccessed s o.accessed) o.synced).setAcct true { c with code := tx.hash })))) := by
  unfold execEvm at h
  simp only [bind, Except.bind, pure, Except.pure, throw, throwThe, MonadExceptOf.throw, findAcct_true] at h
  split at h
  · rename_i c; simp at c
  split at h
  · rename_i o ho
    split at h
    · rename_i hok
      simp at h; subst h
      exact ⟨o, ho, Or.inl ⟨by simpa using hok, rfl⟩⟩
    · rename_i hok
      split at h
      · rename_i hz
        split at h
        · rename_i c hc
          simp at h; subst h
          exact ⟨o, ho, Or.inr ⟨by simpa using hok, rfl, rfl, Or.inr ⟨hz, c, hc, rfl⟩⟩⟩
        · simp at h
      · rename_i hz
        simp at h; subst h
        exact ⟨o, ho, Or.inr ⟨by simpa using hok, rfl, rfl, Or.inl ⟨by simpa using hz, rfl⟩⟩⟩
  · simp at h


/-! ### native transactions: summary of the effect on the account map -/

theorem AddrOK_setAcct {s : St} (h : AddrOK s.accts.fin) (a : Account) : AddrOK (s.setAcct true a).accts.fin := by
  rw [setAcct_true]; exact AddrOK_insert h a

/-- replacing a stored record by one with the same address and nonce keeps every nonce -/
theorem nonceOpt_setAcct_same {s : St} (hA : AddrOK s.accts.fin) {x : Hex} {a a' : Account}
    (hx : s.accts.fin[ledgerKey x]? = some a) (h1 : a'.addr = a.addr) (h2 : a'.nonce = a.nonce) (k : String) :
    nonceOpt (s.setAcct true a').accts.fin[k]? = nonceOpt s.accts.fin[k]? := by
  rw [setAcct_fin_get]
  have hk : ledgerKey a'.addr = ledgerKey x := by rw [h1]; exact hA _ _ hx
  split
  · next e => rw [← e, hk, hx]; simp [nonceOpt, h2]
  · rfl

/-- the body of a native transaction never touches a nonce, the account history, the active
    parameters or the block context, and keeps accounts under their own keys -/
theorem execNative_accts {s : St} {ht : Int} {tx : TxIn} {r : RunOut} (hA : AddrOK s.accts.fin)
    (h : execNative s true ht tx = .ok r) :
    r.fail = none ∧ r.evmGas = none ∧ r.st.active = s.active ∧ r.st.blk = s.blk ∧
    r.st.accts.hist = s.accts.hist ∧ AddrOK r.st.accts.fin ∧
    ∀ k : String, nonceOpt r.st.accts.fin[k]? = nonceOpt s.accts.fin[k]? := by
  unfold execNative at h
  split at h
  · obtain ⟨h1, h2, pr, e⟩ := execProposal_ok h
    rw [e]; exact ⟨h1, h2, rfl, rfl, rfl, hA, fun _ => rfl⟩
  split at h
  · obtain ⟨h1, h2, pr, e⟩ := execVoting_ok h
    rw [e]; exact ⟨h1, h2, rfl, rfl, rfl, hA, fun _ => rfl⟩
  split at h
  · obtain ⟨h1, h2, _, sender, hs, _, e⟩ := execTransfer_ok h
    rcases e with ⟨_, e⟩ | ⟨hne, recv, hr, e⟩
    · rw [e]
      refine ⟨h1, h2, by rw [setAcct_true], by rw [setAcct_true], by rw [setAcct_true], AddrOK_setAcct hA _, ?_⟩
      exact nonceOpt_setAcct_same hA hs rfl rfl
    · rw [e]
      have hA1 := AddrOK_setAcct hA { sender with bal := wsub sender.bal tx.amount }
      have hk : ledgerKey sender.addr = ledgerKey tx.from_ := hA _ _ hs
      have hr' : (s.setAcct true { sender with bal := wsub sender.bal tx.amount }).accts.fin[ledgerKey tx.to]? = some recv := by
        rw [setAcct_fin_get]; simp only [hk, hne, if_false]; exact hr
      refine ⟨h1, h2, by simp [setAcct_true], by simp [setAcct_true], by simp [setAcct_true], AddrOK_setAcct hA1 _, ?_⟩
      intro k
      exact (nonceOpt_setAcct_same (a' := { recv with bal := wadd recv.bal tx.amount }) hA1 hr' rfl rfl k).trans
        (nonceOpt_setAcct_same (a' := { sender with bal := wsub sender.bal tx.amount }) hA hs rfl rfl k)
  split at h
  · obtain ⟨h1, h2, sender, name, url, hs, e⟩ := execSetDoc_ok h
    rw [e]
    exact ⟨h1, h2, by rw [setAcct_true], by rw [setAcct_true], by rw [setAcct_true], AddrOK_setAcct hA _,
      nonceOpt_setAcct_same hA hs rfl rfl⟩
  split at h
  · obtain ⟨h1, h2, _, sender, dl, hs, _, e⟩ := execStaking_ok h
    rw [e]
    exact ⟨h1, h2, by simp [setAcct_true], by simp [setAcct_true], by simp [setAcct_true], AddrOK_setAcct hA _,
      nonceOpt_setAcct_same hA hs rfl rfl⟩
  split at h
  · obtain ⟨h1, h2, dl, fr, e⟩ := execUnstaking_ok h
    rw [e]; exact ⟨h1, h2, rfl, rfl, rfl, hA, fun _ => rfl⟩
  split at h
  · obtain ⟨h1, h2, req, sender, rw', _, _, hs, e⟩ := execWithdraw_ok h
    rw [e]
    exact ⟨h1, h2, by simp [setAcct_true], by simp [setAcct_true], by simp [setAcct_true], AddrOK_setAcct hA _,
      nonceOpt_setAcct_same hA hs rfl rfl⟩
  · simp [throw, throwThe, MonadExceptOf.throw] at h

/-- a native transaction that ran successfully: body, then fee debit and nonce + 1 on the sender record -/
theorem runTrx_native_ok {s : St} {ht : Int} {tx : TxIn} {recv : Account} {s2 : St} {g : Nat} {fk : Option String}
    (hn : ¬ viaEvm tx recv) (h : runTrx s true ht tx recv = .ok (s2, g, fk)) :
    fk = none ∧ g = tx.gas ∧ ∃ r sender', execNative s true ht tx = .ok r ∧
      r.st.accts.fin[ledgerKey tx.from_]? = some sender' ∧
      isNeg256 (wmul tx.price tx.gas) = false ∧ wmul tx.price tx.gas ≤ sender'.bal ∧
      s2 = r.st.setAcct true { sender' with bal := wsub sender'.bal (wmul tx.price tx.gas), nonce := sender'.nonce + 1 } := by
  rw [runTrx_native hn] at h
  cases hr : execNative s true ht tx with
  | error e => rw [hr] at h; simp [Except.bind] at h
  | ok r =>
    rw [hr] at h
    simp only [Except.bind] at h
    split at h
    · rename_i hf
      -- native bodies never report a late failure
      exfalso
      unfold execNative at hr
      have : r.fail = none := by
        repeat' split at hr
        · exact (execProposal_ok hr).1
        · exact (execVoting_ok hr).1
        · exact (execTransfer_ok hr).1
        · exact (execSetDoc_ok hr).1
        · exact (execStaking_ok hr).1
        · exact (execUnstaking_ok hr).1
        · exact (execWithdraw_ok hr).1
        · simp [throw, throwThe, MonadExceptOf.throw] at hr
      simp [this] at hf
    · unfold feeStep at h
      step_cases h
      rename_i sender' hs _ a1 h1
      obtain ⟨n1, l1, rfl⟩ := subBalance_some h1
      simp at h
      obtain ⟨e1, e2, e3⟩ := h
      exact ⟨e3.symm, e2.symm, r, sender', rfl, hs, n1, l1, e1.symm⟩


theorem EmptyExt_nonce {m m' : KMap Account} (h : EmptyExt m m') (k : String) : nonceOpt m'[k]? = nonceOpt m[k]? := by
  rcases h k with e | ⟨n, a, _, e⟩
  · rw [e]
  · rw [e, n]; rfl

theorem EmptyExt_bal {m m' : KMap Account} (h : EmptyExt m m') (k : String) : balOpt m'[k]? = balOpt m[k]? := by
  rcases h k with e | ⟨n, a, _, e⟩
  · rw [e]
  · rw [e, n]; rfl

theorem EmptyExt_AddrOK {m m' : KMap Account} (h : EmptyExt m m') (hA : AddrOK m) : AddrOK m' := by
  intro k b hb
  rcases h k with e | ⟨n, a, ka, e⟩
  · rw [e] at hb; exact hA k b hb
  · rw [e] at hb; simp at hb; subst hb; exact ka

/-- a successful EVM execution: which nonces it can have written -/
theorem execEvm_success {s : St} {tx : TxIn} {r : RunOut} (hA : AddrOK s.accts.fin)
    (h : execEvm s true tx = .ok r) (hf : r.fail = none) :
    ∃ o, tx.evm = some o ∧ o.ok = true ∧ r.evmGas = some o.gasUsed ∧ FinFrame s r.st ∧ AddrOK r.st.accts.fin ∧
      ∀ k : String,
        ((∀ e ∈ o.synced, ledgerKey e.1 ≠ k) → nonceOpt r.st.accts.fin[k]? = nonceOpt s.accts.fin[k]?) ∧
        ((∃ e ∈ o.synced, ledgerKey e.1 = k) → ∃ e ∈ o.synced, ledgerKey e.1 = k ∧ nonceOpt r.st.accts.fin[k]? = e.2.2) := by
  obtain ⟨o, ho, hcase⟩ := execEvm_inv h
  rcases hcase with ⟨_, e⟩ | ⟨hok, _, hg, hst⟩
  · rw [e] at hf; simp at hf
  obtain ⟨fA, eA, aA⟩ := evmAccessed_spec o.accessed s
  obtain ⟨fS, aS, gS⟩ := evmSynced_spec o.synced _ (aA hA)
  have base : ∀ k : String,
      ((∀ e ∈ o.synced, ledgerKey e.1 ≠ k) →
        nonceOpt (evmSynced (evmAccessed s o.accessed) o.synced).accts.fin[k]? = nonceOpt s.accts.fin[k]?) ∧
      ((∃ e ∈ o.synced, ledgerKey e.1 = k) → ∃ e ∈ o.synced, ledgerKey e.1 = k ∧
        nonceOpt (evmSynced (evmAccessed s o.accessed) o.synced).accts.fin[k]? = e.2.2) := by
    intro k
    refine ⟨fun hno => ?_, fun hex => ?_⟩
    · rw [(gS k).1 hno]; exact EmptyExt_nonce eA k
    · obtain ⟨e, he, hk, ac, hac, hn, _⟩ := (gS k).2 hex
      exact ⟨e, he, hk, by rw [hac]; simpa [nonceOpt] using hn⟩
  refine ⟨o, ho, hok, hg, ?_⟩
  rcases hst with ⟨_, e⟩ | ⟨_, c, hc, e⟩
  · rw [e]; exact ⟨fA.trans fS, aS, base⟩
  · rw [e]
    refine ⟨(fA.trans fS).trans (FinFrame_setAcct _ _), AddrOK_setAcct aS _, fun k => ?_⟩
    rw [nonceOpt_setAcct_same (a' := { c with code := tx.hash }) aS hc rfl rfl k]
    exact base k

/-- the state a failed transaction leaves on the DeliverTx path: the old state, possibly with empty
    account records under fresh keys, and possibly another limiter -/
theorem handleTx_fail_shape {s : St} {h : Int} {tx : TxIn} (hc : (handleTx s true h tx).2.code ≠ 0) :
    ∃ l, (handleTx s true h tx).1 =
        { s with accts := { s.accts with fin := (handleTx s true h tx).1.accts.fin }, limiter := l } ∧
      EmptyExt s.accts.fin (handleTx s true h tx).1.accts.fin := by
  have h0 := FinFrame_findOrNew s tx.to
  have e0 := EmptyExt_findOrNew s tx.to
  rcases handleTx_fail_inv hc with e | e | ⟨sender, s1, hs, hv, hrun⟩
  · rw [e]; exact ⟨s.limiter, rfl, EmptyExt.refl _⟩
  · rw [e]; exact ⟨s.limiter, h0, e0⟩
  · obtain ⟨_, _, htv⟩ := validateTrx_ok hv
    obtain ⟨⟨l, hl⟩, _⟩ := typeValidate_state htv
    have e1 : s1 = { s with accts := { s.accts with fin := (s.findOrNewAcct true tx.to).1.accts.fin }, limiter := l } := by
      rw [hl]; unfold FinFrame at h0; rw [h0]
    rcases hrun with ⟨e, _, es⟩ | ⟨s2, g, k, hr, es⟩
    · rw [es, e1]; exact ⟨l, rfl, e0⟩
    · rw [es]
      by_cases hvia : viaEvm tx (s.findOrNewAcct true tx.to).2
      · rw [runTrx_evm hvia] at hr
        cases hx : execEvm s1 true tx with
        | error e => rw [hx] at hr; simp [Except.bind] at hr
        | ok r =>
          rw [hx] at hr
          simp only [Except.bind] at hr
          split at hr
          · rename_i hfail
            simp at hr
            obtain ⟨o, ho, hcase⟩ := execEvm_inv hx
            rcases hcase with ⟨_, er⟩ | ⟨_, hnone, _⟩
            · obtain ⟨fA, eA, _⟩ := evmAccessed_spec o.accessed s1
              rw [← hr.1, er]
              simp only
              refine ⟨l, ?_, ?_⟩
              · unfold FinFrame at fA; rw [fA, e1]
              · have ef : s1.accts.fin = (s.findOrNewAcct true tx.to).1.accts.fin := by rw [e1]
                have : EmptyExt s1.accts.fin (evmAccessed s1 o.accessed).accts.fin := eA
                rw [ef] at this
                exact e0.trans this
            · rw [hnone] at hfail; simp at hfail
          · simp at hr
      · have := (runTrx_native_ok hvia hr).1
        simp at this


/-- the receiver record `handleTx` works with on the DeliverTx path -/
def recvOf (s : St) (tx : TxIn) : Account := (s.findOrNewAcct true tx.to).2

/-- facts shared by every successful delivery -/
theorem deliver_ok_prelude {s : St} {h : Int} {tx : TxIn} (hA : AddrOK s.accts.fin)
    (hc : (handleTx s true h tx).2.code = 0) :
    ∃ s1 s2 g, tx.nonce = nonceOf s tx.from_ ∧ tx.sigOk = true ∧
      AddrOK s1.accts.fin ∧ s1.accts.hist = s.accts.hist ∧ s1.active = s.active ∧
      (∀ k : String, nonceOpt s1.accts.fin[k]? = nonceOpt s.accts.fin[k]?) ∧
      runTrx s1 true h tx (recvOf s tx) = .ok (s2, g, none) ∧
      handleTx s true h tx = (s2, { code := 0, kind := "ok", gasUsed := g, gasWanted := tx.gas }) := by
  obtain ⟨_, sender, s1, s2, g, hs, hv, hr, e⟩ := handleTx_ok_inv hc
  obtain ⟨h0, h1, htv⟩ := validateTrx_ok hv
  obtain ⟨⟨l, hl⟩, _⟩ := typeValidate_state htv
  have f0 := FinFrame_findOrNew s tx.to
  have e0 := EmptyExt_findOrNew s tx.to
  rw [findAcct_true] at hs
  refine ⟨s1, s2, g, ?_, (cv0_ok h0).2.2.2.2.2.2.2 rfl, ?_, ?_, ?_, ?_, hr, e⟩
  · rw [← (cv1_ok h1).2]; unfold nonceOf; rw [hs]; rfl
  · rw [hl]; exact EmptyExt_AddrOK e0 hA
  · rw [hl]; unfold FinFrame at f0; rw [f0]
  · rw [hl]; unfold FinFrame at f0; rw [f0]
  · intro k; rw [hl]; exact EmptyExt_nonce e0 k


/-- a successful EVM transaction: what `runTrx` returns -/
theorem runTrx_evm_ok {s : St} {ht : Int} {tx : TxIn} {recv : Account} {s2 : St} {g : Nat}
    (hv : viaEvm tx recv) (h : runTrx s true ht tx recv = .ok (s2, g, none)) :
    ∃ r, execEvm s true tx = .ok r ∧ r.fail = none ∧ r.st = s2 ∧ g = r.evmGas.getD 0 := by
  rw [runTrx_evm hv] at h
  cases hx : execEvm s true tx with
  | error er => rw [hx] at h; simp [Except.bind] at h
  | ok r =>
    rw [hx] at h
    simp only [Except.bind] at h
    split at h
    · simp at h
      rename_i hf
      rw [h.2.2] at hf; simp at hf
    · rename_i hf
      have hf' : r.fail = none := by
        cases hh : r.fail with
        | none => rfl
        | some k => rw [hh] at hf; simp at hf
      simp at h
      exact ⟨r, rfl, hf', h.1, h.2.symm⟩

/-- DeliverTx keeps records under their own keys and never touches the committed history -/
theorem handleTx_deliver_inv {s : St} {h : Int} {tx : TxIn} (hA : AddrOK s.accts.fin) :
    AddrOK (handleTx s true h tx).1.accts.fin ∧ (handleTx s true h tx).1.accts.hist = s.accts.hist := by
  by_cases hc : (handleTx s true h tx).2.code = 0
  · obtain ⟨s1, s2, g, _, _, hA1, hh1, _, _, hr, e⟩ := deliver_ok_prelude hA hc
    rw [e]; simp only
    by_cases hv : viaEvm tx (recvOf s tx)
    · obtain ⟨r, hx, hf, rfl, _⟩ := runTrx_evm_ok hv hr
      obtain ⟨o, _, _, _, fF, hAr, _⟩ := execEvm_success hA1 hx hf
      exact ⟨hAr, by unfold FinFrame at fF; rw [fF]; exact hh1⟩
    · obtain ⟨_, _, r, sender', hx, _, _, _, e2⟩ := runTrx_native_ok hv hr
      obtain ⟨_, _, _, _, hhr, hAr, _⟩ := execNative_accts hA1 hx
      rw [e2]
      exact ⟨AddrOK_setAcct hAr _, by rw [setAcct_true]; simp only; rw [hhr, hh1]⟩
  · obtain ⟨l, e, ee⟩ := handleTx_fail_shape hc
    exact ⟨EmptyExt_AddrOK ee hA, by rw [e]⟩

end Rigo
