/-
  Round 2, governance proposals (ctrlers/gov/proposal): construction (`NewVoteOptions`,
  `NewGovProposal`: majority = (total * 2) / 3), membership (`IsVoter`, `GetVoter`), the sum of the
  voting powers (an order-independent `for range` over the Go map), the order of the options, and
  `updateMajorOption` / `UpdateMajorOption` (sort by votes, take the top option if it reaches the
  majority) against the model's `sortOptions` / `freezeProposals`.

  `sort.Sort` is not stable and options can tie, so `updateMajorOption` takes the sort as a
  parameter constrained by Go's contract only (`SortOf powerOrderVoteOptions_Less`); what is proved
  is what the model relies on: the sorted list is a permutation, its head has the maximal number of
  votes — the same number as the head of the model's (stable) `sortOptions` — and therefore the freeze
  decision is the same; when the top option is unique, the major option itself is the same.
-/
import RigoProofs.GenFuncsGovBase

set_option linter.unusedSimpArgs false

namespace Rigo.GenEq
open Rigo Rigo.Gen

/-! ### construction -/

theorem NewVoteOptions_eq (opts : List Hex) :
    NewVoteOptions opts = .ok (opts.map fun o => ({ option := o, votes := 0 } : VoteOption)) := by
  unfold NewVoteOptions
  dsimp only
  rw [forIn_eq_pure _ (fun (xs : List Hex) (acc : List VoteOption) =>
      acc ++ xs.map fun o => ({ option := o, votes := 0 } : VoteOption))]
  · simp [bind, Except.bind, pure, Except.pure]
  · intro s; simp
  · intro x xs s; simp [bind, Except.bind, pure, Except.pure]

/-- the options of a new proposal as `execProposal` records them: the payload's options with zero votes -/
theorem NewVoteOptions_model (os : List VoteOpt) :
    NewVoteOptions (os.map (·.raw)) = .ok ((os.map fun o => { o with votes := 0 }).map optOf) := by
  rw [NewVoteOptions_eq]; simp [optOf, Function.comp_def]

/-- `NewGovProposal`: exactly the record `execProposal` stores — end = start + period,
    majority = ⌊2·total/3⌋ (Go's truncated division), zero votes, no major option -/
theorem NewGovProposal_eq (hash : Hex) (optType start period total applying : Int)
    (vs : List Voter) (os : List VoteOpt) :
    NewGovProposal hash optType start period total applying (votersOf vs) (os.map (·.raw)) =
      .ok (propOf { hash := hash, start := start, end_ := start + period, applying := applying, total := total,
                    majority := Int.tdiv (total * 2) 3, optType := optType, voters := vs,
                    options := os.map fun o => { o with votes := 0 } }, none) := by
  unfold NewGovProposal
  simp [NewVoteOptions_model, gdiv, propOf, bind, Except.bind, pure, Except.pure]

/-! ### membership and powers -/

theorem find?_isSome_any (vs : List Voter) (a : Hex) :
    (vs.find? (·.addr == a)).isSome = vs.any (·.addr == a) := by
  induction vs with
  | nil => rfl
  | cons v vs ih =>
    by_cases h : v.addr == a
    · simp [List.find?_cons, h]
    · simp only [List.find?_cons, h, List.any_cons, Bool.false_or]; exact ih

/-- `IsVoter(addr)` = the membership test of `validateVoting` / `execVoting` / `govPunish` -/
theorem GovProposal_IsVoter_eq (p : Proposal) (a : Hex) :
    GovProposal_IsVoter (propOf p) a = .ok (p.voters.any (·.addr == a)) := by
  unfold GovProposal_IsVoter
  simp only [propOf, mapGet_votersOf, Option.isSome_map, find?_isSome_any, pure, Except.pure]

theorem GovProposalHeader_IsVoter_eq (p : Proposal) (a : Hex) :
    GovProposalHeader_IsVoter (propOf p).header a = .ok (p.voters.any (·.addr == a)) := by
  unfold GovProposalHeader_IsVoter
  simp only [propOf, mapGet_votersOf, Option.isSome_map, find?_isSome_any, pure, Except.pure]

theorem GovProposalHeader_GetVoter_eq (p : Proposal) (a : Hex) :
    GovProposalHeader_GetVoter (propOf p).header a = .ok (p.voters.find? (·.addr == a)) := by
  unfold GovProposalHeader_GetVoter
  simp only [propOf, mapGet_votersOf, pure, Except.pure]

/-- `SumVotingPowers()`: the sum of the voters' powers (the loop over the Go map only adds) -/
theorem GovProposalHeader_SumVotingPowers_eq (p : Proposal) :
    GovProposalHeader_SumVotingPowers (propOf p).header = .ok ((p.voters.map (·.power)).sum) := by
  unfold GovProposalHeader_SumVotingPowers
  dsimp only
  rw [forIn_eq_pure _ (fun (xs : GMap Voter) (acc : Int) => acc + (xs.map (·.2.power)).sum)]
  · simp [propOf, votersOf, bind, Except.bind, pure, Except.pure, Function.comp_def]
  · intro s; simp
  · intro x xs s; simp [bind, Except.bind, pure, Except.pure]; omega

/-! ### the order of the options and the major option -/

theorem powerOrderVoteOptions_Less_eq (opts : List VoteOption) (i j : Nat) (a b : VoteOption)
    (hi : opts[i]? = some a) (hj : opts[j]? = some b) :
    powerOrderVoteOptions_Less opts i j = .ok (decide (a.votes > b.votes)) := by
  unfold powerOrderVoteOptions_Less
  simp only [gidx_eq opts i a hi, gidx_eq opts j b hj]
  gsimp

/-- `isMajor(opt)`: the freeze test of `freezeProposals` -/
theorem GovProposal_isMajor_eq (p : Proposal) (o : VoteOpt) :
    GovProposal_isMajor (propOf p) (optOf o) = .ok (decide (o.votes ≥ p.majority)) := by
  unfold GovProposal_isMajor voteOption_Votes
  simp [propOf, optOf, bind, Except.bind, pure, Except.pure]

/-- what Go's contract says about a sorted list of options: votes are non-increasing -/
theorem sortOf_desc (srt : SortOf powerOrderVoteOptions_Less) (xs : List VoteOption) :
    (srt.sort xs).Pairwise (fun a b => a.votes ≥ b.votes) := by
  refine List.Pairwise.imp ?_ (srt.sorted xs)
  intro a b h
  have e := powerOrderVoteOptions_Less_eq [a, b] 1 0 b a rfl rfl
  simp only [Int.natCast_one, Int.natCast_zero] at e
  have e' : powerOrderVoteOptions_Less [a, b] 1 0 = .ok (decide (b.votes > a.votes)) := e
  rw [e'] at h
  by_cases c : b.votes > a.votes
  · simp [c] at h
  · omega

/-- the model's stable sort is non-increasing in the votes as well -/
theorem sortOptions_desc (os : List VoteOpt) :
    (sortOptions os).Pairwise (fun a b => a.votes ≥ b.votes) := by
  unfold sortOptions
  have h := List.pairwise_mergeSort (le := fun (a b : VoteOpt) => decide (a.votes ≥ b.votes))
    (by intro a b c h1 h2; simp only [decide_eq_true_eq] at *; omega)
    (by intro a b; simp only [Bool.or_eq_true, decide_eq_true_eq]; omega) os
  refine List.Pairwise.imp ?_ h
  intro a b hab; simpa using hab

/-- two non-increasing arrangements of the same votes start with the same number of votes -/
theorem head_votes_eq {α β : Type} (f : α → Int) (g : β → Int) (x : α) (xs : List α) (y : β) (ys : List β)
    (hx : (x :: xs).Pairwise (fun a b => f a ≥ f b)) (hy : (y :: ys).Pairwise (fun a b => g a ≥ g b))
    (hp : ((x :: xs).map f).Perm ((y :: ys).map g)) : f x = g y := by
  have h1 : f x ∈ (y :: ys).map g := hp.subset (by simp)
  have h2 : g y ∈ (x :: xs).map f := hp.symm.subset (by simp)
  simp only [List.map_cons, List.mem_cons, List.mem_map] at h1 h2
  rw [List.pairwise_cons] at hx hy
  have le1 : f x ≤ g y := by
    rcases h1 with h | ⟨b, hb, e⟩
    · omega
    · have := hy.1 b hb; omega
  have le2 : g y ≤ f x := by
    rcases h2 with h | ⟨a, ha, e⟩
    · omega
    · have := hx.1 a ha; omega
  omega

/-- `updateMajorOption()` on a proposal with at least one option, for ANY sort that satisfies Go's
    contract: the options become a votes-descending permutation `top' :: rest'`; `top'` has as many
    votes as the head `top` of the model's `sortOptions`; the major option is set to `top'` exactly
    when `top.votes ≥ majority` (the model's freeze test), and the (possibly old) major option is returned. -/
theorem GovProposal_updateMajorOption_eq (p : Proposal) (srt : SortOf powerOrderVoteOptions_Less)
    (hne : p.options ≠ []) :
    ∃ top' rest' top rest,
      srt.sort (p.options.map optOf) = top' :: rest' ∧
      (top' :: rest').Perm (p.options.map optOf) ∧
      sortOptions p.options = top :: rest ∧
      top'.votes = top.votes ∧
      GovProposal_updateMajorOption (propOf p) srt =
        .ok ({ propOf p with options := top' :: rest',
                             major := if top.votes ≥ p.majority then some top' else p.major.map optOf },
             if top.votes ≥ p.majority then some top' else p.major.map optOf) := by
  have hperm := srt.perm (p.options.map optOf)
  have hlen : (srt.sort (p.options.map optOf)).length = p.options.length := by
    rw [hperm.length_eq, List.length_map]
  cases hs : srt.sort (p.options.map optOf) with
  | nil => rw [hs] at hlen; cases p.options <;> simp_all
  | cons top' rest' =>
    have hperm2 : (sortOptions p.options).Perm p.options := List.mergeSort_perm _ _
    cases hm : sortOptions p.options with
    | nil =>
      have := hperm2.length_eq; rw [hm] at this; cases p.options <;> simp_all
    | cons top rest =>
      have hv : top'.votes = top.votes := by
        apply head_votes_eq (fun o : VoteOption => o.votes) (fun o : VoteOpt => o.votes) top' rest' top rest
        · rw [← hs]; exact sortOf_desc srt _
        · rw [← hm]; exact sortOptions_desc _
        · rw [← hs, ← hm]
          have h1 := hperm.map (fun o : VoteOption => o.votes)
          have h2 := hperm2.map (fun o : VoteOpt => o.votes)
          refine h1.trans ?_
          rw [List.map_map]
          have : ((fun o : VoteOption => o.votes) ∘ optOf) = (fun o : VoteOpt => o.votes) := by
            funext o; rfl
          rw [this]; exact h2.symm
      refine ⟨top', rest', top, rest, rfl, ?_, rfl, hv, ?_⟩
      · rw [← hs]; exact hperm
      · unfold GovProposal_updateMajorOption voteOption_Votes
        simp only [propOf, hs, gidx, bind, Except.bind, pure, Except.pure]
        by_cases c : top.votes ≥ p.majority
        · have c' : top'.votes ≥ p.majority := by omega
          simp [c, c']
        · have c' : ¬ top'.votes ≥ p.majority := by omega
          simp [c, c']

/-- a proposal without options: the Go code panics (index 0 of an empty slice), as the model does -/
theorem GovProposal_updateMajorOption_nil (p : Proposal) (srt : SortOf powerOrderVoteOptions_Less)
    (h : p.options = []) : G.panics (GovProposal_updateMajorOption (propOf p) srt) := by
  have hperm := srt.perm (p.options.map optOf)
  have : srt.sort (p.options.map optOf) = [] := by
    rw [h] at hperm ⊢; simpa using hperm.length_eq
  unfold GovProposal_updateMajorOption
  simp [propOf, this, gidx, bind, Except.bind, throw, throwThe, MonadExceptOf.throw]

/-- the freeze decision of `freezeProposals` (`UpdateMajorOption() != nil`) for an open proposal
    (no major option yet) is the model's `top.votes ≥ majority` -/
theorem GovProposal_updateMajorOption_freeze (p : Proposal) (srt : SortOf powerOrderVoteOptions_Less)
    (top : VoteOpt) (rest : List VoteOpt) (hm : sortOptions p.options = top :: rest) (hmaj : p.major = none) :
    ∃ g m, GovProposal_updateMajorOption (propOf p) srt = .ok (g, m) ∧ g.major = m ∧
      (m.isSome = true ↔ top.votes ≥ p.majority) ∧ (∀ o, m = some o → o.votes = top.votes) := by
  have hne : p.options ≠ [] := by
    intro h; rw [h] at hm; simp [sortOptions] at hm
  obtain ⟨top', rest', top2, rest2, _, _, hm2, hv, he⟩ := GovProposal_updateMajorOption_eq p srt hne
  rw [hm] at hm2
  cases hm2
  refine ⟨_, _, he, rfl, ?_, ?_⟩
  · by_cases c : top.votes ≥ p.majority <;> simp [c, hmaj]
  · intro o ho
    by_cases c : top.votes ≥ p.majority
    · simp [c] at ho; rw [← ho]; exact hv
    · simp [c, hmaj] at ho

/-- with a unique top option (no tie at the top) every admissible sort picks the model's option -/
theorem GovProposal_updateMajorOption_unique (p : Proposal) (srt : SortOf powerOrderVoteOptions_Less)
    (top : VoteOpt) (rest : List VoteOpt) (hm : sortOptions p.options = top :: rest)
    (huniq : ∀ o ∈ p.options, o.votes = top.votes → o = top) (hge : top.votes ≥ p.majority) :
    ∃ g, GovProposal_updateMajorOption (propOf p) srt = .ok (g, some (optOf top)) ∧ g.major = some (optOf top) := by
  have hne : p.options ≠ [] := by
    intro h; rw [h] at hm; simp [sortOptions] at hm
  obtain ⟨top', rest', top2, rest2, _, hp, hm2, hv, he⟩ := GovProposal_updateMajorOption_eq p srt hne
  rw [hm] at hm2
  cases hm2
  have hmem : top' ∈ p.options.map optOf := hp.subset (by simp)
  obtain ⟨o, ho, e⟩ := List.mem_map.mp hmem
  have : o = top := huniq o ho (by rw [← hv, ← e]; rfl)
  subst this
  refine ⟨{ propOf p with options := top' :: rest', major := some (optOf o) }, ?_, rfl⟩
  rw [he]; simp [hge, e]

/-- `UpdateMajorOption()` is `updateMajorOption()` under the proposal's lock -/
theorem GovProposal_UpdateMajorOption_eq (g : GovProposal) (srt : SortOf powerOrderVoteOptions_Less) :
    GovProposal_UpdateMajorOption g srt = GovProposal_updateMajorOption g srt := by
  unfold GovProposal_UpdateMajorOption
  cases h : GovProposal_updateMajorOption g srt with
  | error e => simp [h, bind, Except.bind]
  | ok r => simp [h, bind, Except.bind, pure, Except.pure]

/-- the contract is satisfiable: the model's stable merge sort is one such sort -/
def mergeSortOfOptions : SortOf powerOrderVoteOptions_Less where
  sort xs := xs.mergeSort (fun a b => decide (a.votes ≥ b.votes))
  perm xs := List.mergeSort_perm _ _
  sorted xs := by
    have h := List.pairwise_mergeSort (le := fun (a b : VoteOption) => decide (a.votes ≥ b.votes))
      (by intro a b c h1 h2; simp only [decide_eq_true_eq] at *; omega)
      (by intro a b; simp only [Bool.or_eq_true, decide_eq_true_eq]; omega) xs
    refine List.Pairwise.imp ?_ h
    intro a b hab
    have e := powerOrderVoteOptions_Less_eq [a, b] 1 0 b a rfl rfl
    simp only [Int.natCast_one, Int.natCast_zero] at e
    have e' : powerOrderVoteOptions_Less [a, b] 1 0 = .ok (decide (b.votes > a.votes)) := e
    rw [e']
    have : a.votes ≥ b.votes := by simpa using hab
    have c : ¬ b.votes > a.votes := by omega
    simp [c]

end Rigo.GenEq
