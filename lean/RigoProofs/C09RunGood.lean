/-
  C09 (run level), part 3: `StateOK` on the DeliverTx path from the global invariants, along every
  well-phased history; no DeliverTx / BeginBlock / EndBlock / Commit of such a history panics.
-/
import RigoProofs.C09RunAux
open Std
set_option linter.unusedSimpArgs false
set_option linter.unusedVariables false

namespace Rigo.C09R
open Rigo Rigo.C02

/-! ### hypotheses -/

/-- governance parameters under which no conversion leaves int64 / uint256:
    gas price · 2^63 < 2^255, both minimum stakes below 2^63 RIGO, at least one validator slot -/
def ParamsSane (p : Params) : Prop :=
  p.gasPrice * 2 ^ 63 < 2 ^ 255 ∧ p.minValidatorStake < 2 ^ 63 * amountPerPower ∧
  p.minDelegatorStake < 2 ^ 63 * amountPerPower ∧ 1 ≤ p.maxValidatorCnt

instance (p : Params) : Decidable (ParamsSane p) := by unfold ParamsSane; infer_instance

/-- the active parameters are sane in every state of the history (state-level form of "governance
    proposals keep the parameters sane") -/
def ParamsSaneAlong : St → List Op → Prop
  | s, [] => ParamsSane s.active
  | s, op :: ops => ParamsSane s.active ∧ ParamsSaneAlong (step s op).1 ops

/-- the supply bound of this property: genesis value plus everything ever withdrawn from the reward
    ledger stays below 2^62 RIGO (`stakeCap`) -/
def SupplyCap (g : Genesis) (W : Int) : Prop := genesisTotal g + W < ((stakeCap : Nat) : Int)

/-! ### the combined invariant -/

structure Good (W : Int) (g : Genesis) (p : Phase) (s : St) : Prop where
  inv : Inv p s
  value : valueAt p s ≤ genesisTotal g + s.ghost.withdrawn
  wd : (s.ghost.withdrawn : Int) ≤ W
  aux : Aux s
  params : ParamsSane s.active

theorem runOK1_head {W : Int} {s : St} {ops : List Op} (h : RunOK1 W s ops) : (s.ghost.withdrawn : Int) ≤ W := by
  cases ops with
  | nil => exact h
  | cons op ops => exact h.1

theorem paramsAlong_head {s : St} {ops : List Op} (h : ParamsSaneAlong s ops) : ParamsSane s.active := by
  cases ops with
  | nil => exact h
  | cons op ops => exact h.1

theorem stakeCap_le : ((stakeCap : Nat) : Int) ≤ ((two63 * amountPerPower : Nat) : Int) := by
  unfold stakeCap two63 amountPerPower; decide

theorem phaseStep_notInit {p p' : Phase} {op : Op} (h : phaseStep p op = some p') : op.isInit = false := by
  cases op <;> first | rfl | (cases p <;> simp [phaseStep] at h)

theorem deleg_nonneg {s : St} (hi : Inv0 s) (k : String) (d : Delegatee) (h : s.delegs.fin[k]? = some d) :
    0 ≤ d.total := by
  obtain ⟨_, e, hp⟩ := hi.delegKey k d h
  rw [e]; exact sumPower_nonneg _ hp

/-- one admissible step keeps `Good` -/
theorem good_step {W : Int} {g : Genesis} (hB : SupplyCap g W) {p p' : Phase} {s : St} {op : Op}
    (hg : Good W g p s) (hph : phaseStep p op = some p') (hok : StepOK1 s op)
    (hw' : ((step s op).1.ghost.withdrawn : Int) ≤ W) (hp' : ParamsSane (step s op).1.active) :
    Good W g p' (step s op).1 := by
  have hC : genesisTotal g + W < ((two63 * amountPerPower : Nat) : Int) := by
    have := stakeCap_le; unfold SupplyCap at hB; omega
  have hrun : RunOK1 W s [op] := ⟨hg.wd, hok, hw'⟩
  have hph1 : phaseRun p [op] = some p' := by simp [phaseRun, hph]
  obtain ⟨_, i1, _, v1⟩ := run_ok1 W (genesisTotal g) hC [op] p p' s hg.inv hph1 hrun hg.value
  have he : exec s [op] = (step s op).1 := by simp [exec, run]
  rw [he] at i1 v1
  exact ⟨i1, v1, hw', aux_step hg.aux (phaseStep_notInit hph) (deleg_nonneg hg.inv.inv0) hg.params.2.2.2, hp'⟩

theorem good_run_gen {W : Int} {g : Genesis} (hB : SupplyCap g W) :
    ∀ (ops : List Op) (p p' : Phase) (s : St), Good W g p s → phaseRun p ops = some p' → RunOK1 W s ops →
      ParamsSaneAlong s ops → Good W g p' (exec s ops) := by
  intro ops
  induction ops with
  | nil =>
    intro p p' s hg hph _ _
    simp only [phaseRun] at hph; injection hph with hph; subst hph
    exact hg
  | cons op ops ih =>
    intro p p' s hg hph hok hpa
    simp only [phaseRun] at hph
    cases h1 : phaseStep p op with
    | none => rw [h1] at hph; cases hph
    | some p1 =>
      rw [h1] at hph; simp only at hph
      obtain ⟨_, ok1, ok2⟩ := hok
      obtain ⟨_, pa2⟩ := hpa
      rw [exec_cons]
      exact ih p1 p' _ (good_step hB hg h1 ok1 (runOK1_head ok2) (paramsAlong_head pa2)) hph ok2 pa2

theorem initChain_active (g : Genesis) : (initChain g).active = g.params := by
  unfold initChain
  simp only
  apply C02.foldl_inv (fun x : St => x.active = g.params)
  · rintro acc ⟨pub, addr, power⟩ _ h
    simp only
    have := (findOrNewAcct_frAll acc true addr).1.2.2.1
    exact this.trans h
  · apply C02.foldl_inv (fun x : St => x.active = g.params)
    · rintro acc ⟨a, b⟩ _ h; exact h
    · rfl

theorem good_init {W : Int} {g : Genesis} (hs : GenesisSane g) (hW : 0 ≤ W) (hp : ParamsSane g.params) :
    Good W g .idle (initChain g) := by
  have hi := initChain_initP g hs
  refine ⟨init_inv g hs, ?_, by rw [hi.withdrawn]; simpa using hW, aux_init g, ?_⟩
  · rw [valueAt_idle, hi.withdrawn]; unfold genesisTotal; omega
  · have := initChain_active g
    rw [this]; exact hp

/-- **the invariant along a run**: after every well-phased history satisfying the hypotheses -/
theorem good_run {W : Int} {g : Genesis} (hs : GenesisSane g) (hB : SupplyCap g W) (ops : List Op) (p : Phase)
    (hph : phaseRun .idle ops = some p) (hok : RunOK1 W (initChain g) ops)
    (hpa : ParamsSaneAlong (initChain g) ops) : Good W g p (exec (initChain g) ops) := by
  have hW : 0 ≤ W := by
    have := runOK1_head hok
    have : (0 : Int) ≤ ((initChain g).ghost.withdrawn : Int) := Int.natCast_nonneg _
    omega
  have hp0 : ParamsSane g.params := by
    have := (good_init (W := W) hs hW)
    have h1 := paramsAlong_head hpa
    have := initChain_active g
    rw [this] at h1; exact h1
  exact good_run_gen hB ops .idle p _ (good_init hs hW hp0) hph hok hpa

/-! ### layer (a): `StateOK` on the DeliverTx path from the invariants -/

theorem holdings_le_valueAt (p : Phase) (s : St) : holdings s ≤ valueAt p s := by
  unfold valueAt
  split
  · exact Int.le_refl _
  · unfold total; have := feeInFlight_nonneg s; omega

theorem stateOK_of_good {W : Int} {g : Genesis} (hB : SupplyCap g W) {p : Phase} {s : St} (hg : Good W g p s) :
    StateOK s true (s.lastHeight + 1) := by
  have hi := hg.inv.inv0
  have hh : holdings s < ((stakeCap : Nat) : Int) := by
    have := holdings_le_valueAt p s
    have := hg.value; have := hg.wd
    unfold SupplyCap at hB; omega
  obtain ⟨p1, p2, p3, p4⟩ := hg.params
  refine ⟨p1, p2, p3, ?_, ?_, fun _ => hg.aux.lim, ?_, fun _ => hi.acctKey⟩
  · intro k a hk
    have hk' : s.accts.fin[k]? = some a := hk
    have := bal_lt_of_bound hi hh hk'
    omega
  · intro k d hk
    have hk' : s.delegs.fin[k]? = some d := hk
    refine ⟨deleg_nonneg hi k d hk', ?_⟩
    obtain ⟨_, e, hp⟩ := hi.delegKey k d hk'
    have h1 := fAt_le_msum (fun d : Delegatee => Delegatee.sumPower d.stakes) s.delegs.fin
      (fun k d h => sumPower_nonneg _ (hi.delegKey k d h).2.2) k
    rw [fAt_some _ hk'] at h1
    have h2 : Delegatee.sumPower d.stakes ≤ bonded s.delegs.fin := h1
    have h3 := sumBal_nonneg s.accts.fin
    have h4 := unbonding_nonneg hi
    unfold holdings at hh
    rw [e]
    have h5 : (amountPerPower : Int) * Delegatee.sumPower d.stakes < ((stakeCap : Nat) : Int) := by
      have : (amountPerPower : Int) * Delegatee.sumPower d.stakes ≤
          (amountPerPower : Int) * (bonded s.delegs.fin + unbonding s.frozen.fin) :=
        Int.mul_le_mul_of_nonneg_left (by omega) (Int.le_of_lt app_pos)
      omega
    unfold stakeCap amountPerPower at h5
    omega
  · intro k r hk
    exact (hg.aux.rewFin k r hk).1

/-- in a block the height in execution is the block context's height -/
theorem stateOK_inBlock {W : Int} {g : Genesis} (hB : SupplyCap g W) {p : Phase} {s : St} (hg : Good W g p s)
    {b : BlockCtx} (hb : s.blk = some b) : StateOK s true b.height := by
  rw [hg.aux.blkH b hb]; exact stateOK_of_good hB hg

end Rigo.C09R
