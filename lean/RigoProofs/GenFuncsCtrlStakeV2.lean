/-
  Round 3, stake controller, validation (ctrlers/stake/ctrler.go), part 2:
  the STAKING branch of `(*StakeCtrler).ValidateTrx` against the model's `validateStaking`.
-/
import RigoProofs.GenFuncsCtrlStakeV1

set_option linter.unusedSimpArgs false

namespace Rigo.GenEq
open Rigo Rigo.Gen

theorem stakeV_okb {ε α β : Type} (a : α) (f : α → Except ε β) : (Except.ok a >>= f) = f a := rfl
theorem stakeV_err_bind {ε α β : Type} (e : ε) (f : α → Except ε β) : ((Except.error e : Except ε α) >>= f) = Except.error e := rfl
theorem stakeV_throw_bind {ε α β : Type} (e : ε) (f : α → Except ε β) : ((throw e : Except ε α) >>= f) = throw e := rfl

theorem stakeV_sign256_le_zero (a : Nat) (h : a < two255) : sign256 a ≤ 0 ↔ a = 0 := by
  unfold sign256
  by_cases h0 : a = 0
  · simp [h0]
  · have : ¬ a ≥ two255 := by omega
    simp [h0, this]

theorem stakeV_amountToPower_ok_bounds (a : Nat) (p : Int) (h : amountToPower a = .ok p) : 0 ≤ p ∧ p < (two63 : Int) := by
  unfold amountToPower at h
  simp only at h
  split at h
  · cases h
  · cases h
    constructor
    · exact Int.natCast_nonneg _
    · simp only [Int.ofNat_eq_natCast]; omega

theorem stakeV_amountPerPower_ne_zero : ¬ amountPerPower = 0 := by decide

/-! ### hypotheses of the STAKING branch -/

/-- the quotient `amount / 10^18` is below 2^255, i.e. `q.Sign()` cannot be negative.  True of every
    uint256 amount (`stakeAmountFits_of_uint256`); needed because amounts are unbounded `Nat`s here, and the
    Go test is `q.Sign() <= 0` where the model tests `q = 0`. -/
def StakeAmountFits (tx : TxIn) : Prop := tx.amount / amountPerPower < two255
instance (tx : TxIn) : Decidable (StakeAmountFits tx) := by unfold StakeAmountFits; infer_instance

theorem stakeAmountFits_of_uint256 (tx : TxIn) (h : tx.amount < two256) : StakeAmountFits tx := by
  unfold StakeAmountFits
  have h2 : two256 = 2 * two255 := by decide
  have : tx.amount / amountPerPower ≤ tx.amount := Nat.div_le_self _ _
  have h3 : tx.amount / amountPerPower ≤ tx.amount / 2 := by
    apply Nat.div_le_div_left (by decide) (by decide)
  omega

/-- no int64 overflow in `totalPower + txPower`: when the delegatee exists, its total power plus the
    power of the transaction is below 2^63.  The Go code tests `(totalPower + txPower) <= 0` on int64 values,
    which also catches a sum ≥ 2^63 (it wraps to a negative number): the model panics for such a sum, the
    generated code (unbounded `Int`) does not.  (For a missing delegatee the sum is `txPower < 2^63`.) -/
def StakeSumFits (s : St) (exec : Bool) (tx : TxIn) : Prop :=
  match s.delegs.get exec (ledgerKey tx.to), amountToPower tx.amount with
  | some d, .ok p => d.total + p < (two63 : Int)
  | _, _ => True
instance (s : St) (exec : Bool) (tx : TxIn) : Decidable (StakeSumFits s exec tx) := by
  unfold StakeSumFits; split <;> infer_instance

/-- the delegatee read under the key of `tx.to` has the address `tx.to` (ledger items are stored under
    the key of their own address).  The Go code hands the delegatee object to the limiter (which looks up
    `delegatee.Addr`), the model hands it `tx.to`. -/
def DelegKeyed (s : St) (exec : Bool) (tx : TxIn) : Prop :=
  match s.delegs.get exec (ledgerKey tx.to) with
  | some d => d.addr = tx.to
  | none => True
instance (s : St) (exec : Bool) (tx : TxIn) : Decidable (DelegKeyed s exec tx) := by
  unfold DelegKeyed; split <;> infer_instance

/-! ### the model with the int64 wrap-around test as a parameter -/

/-- `Rigo.validateStaking` with (1) its test `totalPower + txPower ≥ 2^63` (the int64 wrap-around of the Go
    sum) replaced by `ov`, and (2) the limiter asked about the address of the delegatee OBJECT (as the Go code
    does; `tx.to` for a missing delegatee) where the model passes `tx.to`.
    `validateStaking_eq_ov`: under `DelegKeyed` the model is the instance `ov x := x ≥ 2^63`.  The
    instance `ov _ := False` is the model computed on unbounded integers, as the generated code is. -/
def validateStakingOv (ov : Int → Prop) [DecidablePred ov] (s : St) (exec : Bool) (tx : TxIn) : Step St := do
  let q := tx.amount / amountPerPower
  if q = 0 then throw (.err "stakeamt")
  if tx.amount % amountPerPower ≠ 0 then throw (.err "stakeamt")
  let txPower ← ofRes (amountToPower tx.amount)
  let d? := s.delegs.get exec (ledgerKey tx.to)
  let totalPower ←
    if tx.from_ == tx.to then do
      let selfPower := match d? with | some d => txPower + d.self | none => txPower
      let minPower ← ofRes (amountToPower s.active.minValidatorStake)
      if selfPower < minPower then throw (.err "minvalstake")
      pure (match d? with | some d => d.total | none => (0 : Int))
    else do
      match d? with
      | none => throw (.err "nodelegatee")
      | some d =>
        let minDel ← ofRes (amountToPower s.active.minDelegatorStake)
        if minDel > 0 ∧ minDel > txPower then throw (.err "mindelstake")
        let ratio ← ofRes (d.selfStakeRatio txPower)
        if ratio < s.active.minSelfStakeRatio then throw (.err "selfratio")
        pure d.total
  if totalPower + txPower ≤ 0 ∨ ov (totalPower + txPower) then
    throw (.panic "delegatee power overflow")
  let dTotal := match d? with | some d => d.total | none => (0 : Int)
  s.limit exec (match d? with | some d => d.addr | none => tx.to) dTotal txPower

theorem validateStaking_eq_ov (s : St) (exec : Bool) (tx : TxIn) (hkey : DelegKeyed s exec tx) :
    validateStaking s exec tx = validateStakingOv (fun x => x ≥ (two63 : Int)) s exec tx := by
  unfold DelegKeyed at hkey
  unfold validateStaking validateStakingOv
  cases hg : s.delegs.get exec (ledgerKey tx.to) with
  | none => rfl
  | some d =>
    rw [hg] at hkey
    simp only at hkey
    simp only [hkey]

/-- the wrap-around test is not reached with a true verdict: for the delegatee of `tx.to` (total power 0
    if there is none) and the power `p` of the transaction, `ov (total + p)` is false -/
def StakeSumOK (ov : Int → Prop) (s : St) (exec : Bool) (tx : TxIn) : Prop :=
  match s.delegs.get exec (ledgerKey tx.to), amountToPower tx.amount with
  | some d, .ok p => ¬ ov (d.total + p)
  | none, .ok p => ¬ ov (0 + p)
  | _, _ => True

theorem stakeSumOK_of_fits (s : St) (exec : Bool) (tx : TxIn) (h : StakeSumFits s exec tx) :
    StakeSumOK (fun x => x ≥ (two63 : Int)) s exec tx := by
  unfold StakeSumFits at h
  unfold StakeSumOK
  cases hp : amountToPower tx.amount with
  | panic w => cases hg : s.delegs.get exec (ledgerKey tx.to) <;> trivial
  | ok p =>
    obtain ⟨_, hp63⟩ := stakeV_amountToPower_ok_bounds _ _ hp
    cases hg : s.delegs.get exec (ledgerKey tx.to) with
    | none => simp only; omega
    | some d => rw [hp, hg] at h; simp only at h ⊢; omega

@[simp] theorem stakeV_ofRes_ok {α : Type} (a : α) : ofRes (Res.ok a) = .ok a := rfl
@[simp] theorem stakeV_ofRes_panic {α : Type} (w : String) : ofRes (Res.panic w : Res α) = .error (.panic w) := rfl

/-! ### the paths of the STAKING branch after the amount checks (`p` = power of the transaction, `lim` = the
    limiter call of the path: `CheckLimit` on DeliverTx, `EvaluateLimit` on CheckTx) -/

/-- the limiter is consulted with at least 3 last validators only -/
theorem staking_limit_tail (c : StakeCtrler) (s : St) (hrel : StakeRel c s) (lim : G (StakeLimiter × Option String))
    (v : Limiter.Verdict) (hm : LimiterMatches lim c.stakeLimiter v) :
    StakeValidateMatches
      (if (s.lastVals.length : Int) ≥ 3 then
        (lim >>= fun r =>
          if r.2.isSome = true then pure ({ c with stakeLimiter := r.1 }, some "ErrUpdatableStakeRatio")
          else pure ({ c with stakeLimiter := r.1 }, none))
       else pure (c, none))
      c (if s.lastVals.length ≥ 3 then stakeV_limitStep s v else .ok s) := by
  by_cases h3 : s.lastVals.length ≥ 3
  · have h3' : (s.lastVals.length : Int) ≥ 3 := by omega
    simp only [h3, h3', if_true]
    exact stakeV_limiter_tail c s hrel lim v hm
  · have h3' : ¬ (s.lastVals.length : Int) ≥ 3 := by omega
    simp only [h3, h3', if_false]
    exact ⟨c, rfl, hrel⟩

/-- self-staking, the delegatee does not exist yet -/
theorem staking_path_new (ov : Int → Prop) [DecidablePred ov] (c : StakeCtrler) (s : St) (hrel : StakeRel c s)
    (p : Int) (to : Hex) (e : Bool) (lim : G (StakeLimiter × Option String))
    (hlim : LimiterMatches lim c.stakeLimiter (s.limiter.check to 0 p e)) (hp63 : ¬ ov (0 + p)) :
    StakeValidateMatches
      (do
        let m ← AmountToPower s.active.minValidatorStake
        if p < m then pure (c, some "ErrInvalidTrx")
        else
          if 0 + p ≤ 0 then throw "panic"
          else
            if (s.lastVals.length : Int) ≥ 3 then
              (lim >>= fun r =>
                if r.2.isSome = true then pure ({ c with stakeLimiter := r.1 }, some "ErrUpdatableStakeRatio")
                else pure ({ c with stakeLimiter := r.1 }, none))
            else pure (c, none))
      c
      (do
        let minPower ← ofRes (amountToPower s.active.minValidatorStake)
        if p < minPower then throw (Fail.err "minvalstake")
        else
          if 0 + p ≤ 0 ∨ ov (0 + p) then throw (Fail.panic "delegatee power overflow")
          else if s.lastVals.length ≥ 3 then stakeV_limitStep s (s.limiter.check to 0 p e) else Except.ok s) := by
  have hm := AmountToPower_eq s.active.minValidatorStake
  cases hmm : amountToPower s.active.minValidatorStake with
  | panic w =>
    rw [hmm] at hm
    obtain ⟨e, he⟩ := hm
    simp only [he, stakeV_ofRes_panic, stakeV_err_bind, StakeValidateMatches_panic, G.panics_error]
  | ok m =>
    rw [hmm] at hm
    simp only [G.matches_ok] at hm
    simp only [hm, stakeV_ofRes_ok, stakeV_okb]
    by_cases h4 : p < m
    · simp [h4, pure, Except.pure, throw, throwThe, MonadExceptOf.throw]
    have hp63' : ¬ ov p := by simpa only [Int.zero_add] using hp63
    simp only [h4, if_false, Int.zero_add, hp63', or_false]
    by_cases h5 : p ≤ 0
    · simp [h5, throw, throwThe, MonadExceptOf.throw]
    simp only [h5, if_false]
    exact staking_limit_tail c s hrel lim _ hlim

/-- self-staking on an existing delegatee -/
theorem staking_path_self (ov : Int → Prop) [DecidablePred ov] (c : StakeCtrler) (s : St) (hrel : StakeRel c s)
    (d : Delegatee) (p : Int) (to : Hex) (e : Bool) (lim : G (StakeLimiter × Option String))
    (hlim : LimiterMatches lim c.stakeLimiter (s.limiter.check to d.total p e)) (hsum : ¬ ov (d.total + p)) :
    StakeValidateMatches
      (do
        let m ← AmountToPower s.active.minValidatorStake
        if p + d.self < m then pure (c, some "ErrInvalidTrx")
        else
          if d.total + p ≤ 0 then throw "panic"
          else
            if (s.lastVals.length : Int) ≥ 3 then
              (lim >>= fun r =>
                if r.2.isSome = true then pure ({ c with stakeLimiter := r.1 }, some "ErrUpdatableStakeRatio")
                else pure ({ c with stakeLimiter := r.1 }, none))
            else pure (c, none))
      c
      (do
        let minPower ← ofRes (amountToPower s.active.minValidatorStake)
        if p + d.self < minPower then throw (Fail.err "minvalstake")
        else
          if d.total + p ≤ 0 ∨ ov (d.total + p) then throw (Fail.panic "delegatee power overflow")
          else if s.lastVals.length ≥ 3 then stakeV_limitStep s (s.limiter.check to d.total p e) else Except.ok s) := by
  have hm := AmountToPower_eq s.active.minValidatorStake
  cases hmm : amountToPower s.active.minValidatorStake with
  | panic w =>
    rw [hmm] at hm
    obtain ⟨e, he⟩ := hm
    simp only [he, stakeV_ofRes_panic, stakeV_err_bind, StakeValidateMatches_panic, G.panics_error]
  | ok m =>
    rw [hmm] at hm
    simp only [G.matches_ok] at hm
    simp only [hm, stakeV_ofRes_ok, stakeV_okb]
    by_cases h4 : p + d.self < m
    · simp [h4, pure, Except.pure, throw, throwThe, MonadExceptOf.throw]
    simp only [h4, if_false]
    simp only [hsum, or_false]
    by_cases h5 : d.total + p ≤ 0
    · simp [h5, throw, throwThe, MonadExceptOf.throw]
    simp only [h5, if_false]
    exact staking_limit_tail c s hrel lim _ hlim

/-- delegating to an existing delegatee -/
theorem staking_path_deleg (ov : Int → Prop) [DecidablePred ov] (c : StakeCtrler) (s : St) (hrel : StakeRel c s)
    (d : Delegatee) (p : Int) (to : Hex) (e : Bool) (lim : G (StakeLimiter × Option String))
    (hlim : LimiterMatches lim c.stakeLimiter (s.limiter.check to d.total p e)) (hsum : ¬ ov (d.total + p)) :
    StakeValidateMatches
      (do
        let m ← AmountToPower s.active.minDelegatorStake
        if m > 0 ∧ m > p then pure (c, some "ErrInvalidTrx")
        else do
          let ratio ← Delegatee_SelfStakeRatio d p
          if ratio < s.active.minSelfStakeRatio then
            pure (c, some "not enough self power - validator: %v, self power: %v, total power: %v")
          else
            if d.total + p ≤ 0 then throw "panic"
            else
              if (s.lastVals.length : Int) ≥ 3 then
                (lim >>= fun r =>
                  if r.2.isSome = true then pure ({ c with stakeLimiter := r.1 }, some "ErrUpdatableStakeRatio")
                  else pure ({ c with stakeLimiter := r.1 }, none))
              else pure (c, none))
      c
      (do
        let minDel ← ofRes (amountToPower s.active.minDelegatorStake)
        if minDel > 0 ∧ minDel > p then throw (Fail.err "mindelstake")
        else do
          let ratio ← ofRes (d.selfStakeRatio p)
          if ratio < s.active.minSelfStakeRatio then throw (Fail.err "selfratio")
          else
            if d.total + p ≤ 0 ∨ ov (d.total + p) then throw (Fail.panic "delegatee power overflow")
            else if s.lastVals.length ≥ 3 then stakeV_limitStep s (s.limiter.check to d.total p e) else Except.ok s) := by
  have hm := AmountToPower_eq s.active.minDelegatorStake
  cases hmm : amountToPower s.active.minDelegatorStake with
  | panic w =>
    rw [hmm] at hm
    obtain ⟨e, he⟩ := hm
    simp only [he, stakeV_ofRes_panic, stakeV_err_bind, StakeValidateMatches_panic, G.panics_error]
  | ok m =>
    rw [hmm] at hm
    simp only [G.matches_ok] at hm
    simp only [hm, stakeV_ofRes_ok, stakeV_okb]
    by_cases h4 : m > 0 ∧ m > p
    · simp [h4, pure, Except.pure, throw, throwThe, MonadExceptOf.throw]
    simp only [h4, if_false]
    have hr := Delegatee_SelfStakeRatio_eq d p
    cases hrm : d.selfStakeRatio p with
    | panic w =>
      rw [hrm] at hr
      obtain ⟨e, he⟩ := hr
      simp only [he, stakeV_ofRes_panic, stakeV_err_bind, StakeValidateMatches_panic, G.panics_error]
    | ok ratio =>
      rw [hrm] at hr
      simp only [G.matches_ok] at hr
      simp only [hr, stakeV_ofRes_ok, stakeV_okb]
      by_cases h6 : ratio < s.active.minSelfStakeRatio
      · simp [h6, pure, Except.pure, throw, throwThe, MonadExceptOf.throw]
      simp only [h6, if_false]
      simp only [hsum, or_false]
      by_cases h5 : d.total + p ≤ 0
      · simp [h5, throw, throwThe, MonadExceptOf.throw]
      simp only [h5, if_false]
      exact staking_limit_tail c s hrel lim _ hlim

/-! ### TRX_STAKING -/

/-- the first test of the STAKING branch, `q.Sign() <= 0` for `q = amount / 10^18` -/
theorem StakeCtrler_ValidateTrx_staking_sign (c : StakeCtrler) (tx : TxIn) (ctx : TrxContext)
    (mv md : Nat) (mr : Int) (srt : SortOf orderedPowerObj_Less) (htx : ctx.tx = trxOf tx)
    (ht : tx.type = TRX_STAKING) (hq : sign256 (tx.amount / amountPerPower) ≤ 0) :
    Gen.StakeCtrler_ValidateTrx c ctx mv md mr srt = .ok (c, some "ErrInvalidTrx") := by
  unfold Gen.StakeCtrler_ValidateTrx
  unfold TRX_STAKING at ht
  simp only [htx, Trx_GetType_eq, ht, stakeV_okb, pure_bind, stakeV_throw_bind, Int.reduceEq, if_true, if_false, AmountPerPower_eq]
  simp only [trxOf]
  cases ctx.exec <;> simp only [Bool.false_eq_true, if_true, if_false, pure_bind, hq] <;> rfl

/-- **the STAKING branch as the Go code computes it** (`validateStakingOv`: wrap-around test `ov`, limiter asked
    about the delegatee object's address), for any `ov` that is false on the sum actually formed
    (`StakeSumOK`).  Instances: `StakeCtrler_ValidateTrx_staking` (the model, `ov x := x ≥ 2^63`) and
    `StakeCtrler_ValidateTrx_staking_nowrap` (`ov _ := False`, no hypothesis on the sum). -/

theorem StakeCtrler_ValidateTrx_staking_ov (ov : Int → Prop) [DecidablePred ov]
    (c : StakeCtrler) (s : St) (exec : Bool) (tx : TxIn) (ctx : TrxContext)
    (srt : SortOf orderedPowerObj_Less) (hrel : StakeRel c s)
    (hd : ObjsDistinct c.stakeLimiter)
    (htx : ctx.tx = trxOf tx) (hex : ctx.exec = exec) (ht : tx.type = TRX_STAKING)
    (hamt : StakeAmountFits tx) (hsum : StakeSumOK ov s exec tx) :
    StakeValidateMatches
      (Gen.StakeCtrler_ValidateTrx c ctx s.active.minValidatorStake s.active.minDelegatorStake
        s.active.minSelfStakeRatio srt) c (validateStakingOv ov s exec tx) := by
  have hget : ∀ e k, c.delegateeLedger.get e k = s.delegs.get e k := by
    intro e k; rw [hrel.delegs]; simp
  have hlen : c.lastValidators.length = s.lastVals.length := by rw [hrel.last]
  have hlimT : ∀ (dl : Delegatee) (q : Int), LimiterMatches (StakeLimiter_CheckLimit c.stakeLimiter dl q srt)
      c.stakeLimiter (s.limiter.check dl.addr dl.total q true) := by
    intro dl q; rw [← hrel.limiter]; exact StakeLimiter_CheckLimit_eq c.stakeLimiter dl q srt hd
  have hlimF : ∀ (dl : Delegatee) (q : Int), LimiterMatches (StakeLimiter_EvaluateLimit c.stakeLimiter dl q srt)
      c.stakeLimiter (s.limiter.check dl.addr dl.total q false) := by
    intro dl q; rw [← hrel.limiter]; exact StakeLimiter_EvaluateLimit_eq c.stakeLimiter dl q srt hd
  unfold Gen.StakeCtrler_ValidateTrx validateStakingOv
  unfold TRX_STAKING at ht
  unfold StakeAmountFits at hamt
  unfold StakeSumOK at hsum
  simp only [htx, hex, Trx_GetType_eq, ht, stakeV_okb, pure_bind, stakeV_throw_bind, Int.reduceEq, if_true, if_false, AmountPerPower_eq]
  simp only [trxOf]
  obtain ⟨o, hg⟩ : ∃ o, s.delegs.get exec (ledgerKey tx.to) = o := ⟨_, rfl⟩
  rw [hg] at hsum
  cases exec <;> simp only [Bool.false_eq_true, if_true, if_false, pure_bind]
  all_goals
    simp only [hget, hlen, toLedgerKey_eq, bytes_Compare_eq, stakeV_okb, stakeV_limit_eq,
      stakeV_sign256_ne_zero, cmpBytes_eq_zero, stakeV_sign256_le_zero _ hamt, stakeV_amountPerPower_ne_zero, hg]
    by_cases h1 : tx.amount / amountPerPower = 0
    · simp [h1, pure, Except.pure, throw, throwThe, MonadExceptOf.throw]
    simp only [h1, if_false]
    by_cases h2 : tx.amount % amountPerPower ≠ 0
    · simp [h2, pure, Except.pure, throw, throwThe, MonadExceptOf.throw]
    simp only [h2, if_false]
    have hp := AmountToPower_eq tx.amount
    cases hpm : amountToPower tx.amount with
    | panic w =>
      rw [hpm] at hp
      obtain ⟨e, he⟩ := hp
      simp only [he, stakeV_ofRes_panic, stakeV_err_bind, StakeValidateMatches_panic, G.panics_error]
    | ok p =>
      rw [hpm] at hp hsum
      simp only [G.matches_ok] at hp
      simp only [hp, stakeV_ofRes_ok, stakeV_okb]
      cases o with
      | none =>
        simp only at hsum
        simp only [gnotFound_none, Option.isSome_some, Option.isSome_none, Option.isNone_none, ne_eq, not_true_eq_false,
          and_false, Bool.false_eq_true, if_true, if_false, beq_iff_eq, gderef, pure_bind]
        by_cases hft : tx.from_ = tx.to
        · simp only [hft, if_true]
          first
            | (have _hx : ctx.exec = false := hex
               exact staking_path_new ov c s hrel p tx.to false _ (hlimF { addr := tx.to, pub := "" } p) hsum)
            | exact staking_path_new ov c s hrel p tx.to true _ (hlimT { addr := tx.to, pub := "" } p) hsum
        · simp [hft, pure, Except.pure, throw, throwThe, MonadExceptOf.throw]
      | some d =>
        simp only at hsum
        simp only [gnotFound_some, Option.isSome_some, Option.isSome_none, Option.isNone_some, ne_eq,
          false_and, Bool.false_eq_true, if_true, if_false, beq_iff_eq, gderef, pure_bind,
          Delegatee_GetSelfPower, Delegatee_GetTotalPower, stakeV_okb]
        by_cases hft : tx.from_ = tx.to
        · simp only [hft, if_true]
          first
            | (have _hx : ctx.exec = false := hex
               exact staking_path_self ov c s hrel d p d.addr false _ (hlimF d p) hsum)
            | exact staking_path_self ov c s hrel d p d.addr true _ (hlimT d p) hsum
        · simp only [hft, if_false]
          first
            | (have _hx : ctx.exec = false := hex
               exact staking_path_deleg ov c s hrel d p d.addr false _ (hlimF d p) hsum)
            | exact staking_path_deleg ov c s hrel d p d.addr true _ (hlimT d p) hsum

/-- `ValidateTrx`, case `TRX_STAKING` = the model's `validateStaking`, check for check in the same order:
    amount ≥ 10^18 and a multiple of it, `AmountToPower` (panic), delegatee of `tx.to` in the view of the
    path; self-staking: self power + tx power ≥ power of `MinValidatorStake` (panic of `AmountToPower`);
    delegating: the delegatee exists, tx power ≥ power of `MinDelegatorStake` (if positive), self-stake ratio
    with the new power ≥ `MinSelfStakeRatio` (division by zero panics); the explicit overflow panic; and — with
    at least 3 last validators — the limiter on `(delegatee or {tx.to, 0}, txPower)`. -/
theorem StakeCtrler_ValidateTrx_staking (c : StakeCtrler) (s : St) (exec : Bool) (tx : TxIn) (ctx : TrxContext)
    (srt : SortOf orderedPowerObj_Less) (hrel : StakeRel c s)
    (hd : ObjsDistinct c.stakeLimiter)
    (htx : ctx.tx = trxOf tx) (hex : ctx.exec = exec) (ht : tx.type = TRX_STAKING)
    (hamt : StakeAmountFits tx) (hsum : StakeSumFits s exec tx) (hkey : DelegKeyed s exec tx) :
    StakeValidateMatches
      (Gen.StakeCtrler_ValidateTrx c ctx s.active.minValidatorStake s.active.minDelegatorStake
        s.active.minSelfStakeRatio srt) c (validateStaking s exec tx) := by
  rw [validateStaking_eq_ov s exec tx hkey]
  exact StakeCtrler_ValidateTrx_staking_ov _ c s exec tx ctx srt hrel hd htx hex ht hamt
    (stakeSumOK_of_fits s exec tx hsum)

/-- without the no-overflow and key hypotheses: the generated code (int64 as unbounded `Int`) is the model
    computed WITHOUT the int64 wrap-around test, the limiter being asked about the delegatee object's address -/
theorem StakeCtrler_ValidateTrx_staking_nowrap (c : StakeCtrler) (s : St) (exec : Bool) (tx : TxIn) (ctx : TrxContext)
    (srt : SortOf orderedPowerObj_Less) (hrel : StakeRel c s)
    (hd : ObjsDistinct c.stakeLimiter)
    (htx : ctx.tx = trxOf tx) (hex : ctx.exec = exec) (ht : tx.type = TRX_STAKING)
    (hamt : StakeAmountFits tx) :
    StakeValidateMatches
      (Gen.StakeCtrler_ValidateTrx c ctx s.active.minValidatorStake s.active.minDelegatorStake
        s.active.minSelfStakeRatio srt) c (validateStakingOv (fun _ => False) s exec tx) := by
  refine StakeCtrler_ValidateTrx_staking_ov _ c s exec tx ctx srt hrel hd htx hex ht hamt ?_
  unfold StakeSumOK
  split <;> simp

end Rigo.GenEq
