/-
  C12 helpers: following one released stake through a history, from its release to its refund
  (`Track`), for the end-to-end theorem `unstake_to_refund`.
-/
import RigoProofs.C12EndBlock
import RigoProofs.C11Present

namespace Rigo
open Delegatee

/-! ### block heights -/

theorem OpCore.heights {nk : List Hex} {op : Op} {c c' : Core} (hop : OpCore nk op c c') :
    (c'.height = c.height ∧ c'.lastHeight = c.lastHeight ∧ c'.fhist = c.fhist) ∨
    (∃ h, op = .begin_ h ∧ c'.height = some (c.lastHeight + 1) ∧ c'.lastHeight = c.lastHeight ∧ c'.fhist = c.fhist) ∨
    (op = .commit ∧ ∃ ht, c.height = some ht ∧ c'.height = none ∧ c'.lastHeight = ht ∧
      c'.fhist = c.fhist ++ [c.ffin] ∧ c'.ffin = c.ffin) ∨
    (op = .restart ∧ c'.height = none ∧ c'.lastHeight = c.lastHeight ∧ c'.fhist = c.fhist ∧ c'.ffin = c.fcommitted) := by
  cases hop with
  | same => exact Or.inl ⟨rfl, rfl, rfl⟩
  | begin_ h _ _ hht hs =>
    right; left
    have := Steps.inv (P := fun x => x.height = some h.height ∧ x.lastHeight = c.lastHeight ∧ x.fhist = c.fhist)
      (fun a b hab ⟨h1, h2, h3⟩ => ⟨hab.height.1.trans h1, hab.height.2.1.trans h2, hab.height.2.2.2.trans h3⟩)
      hs ⟨rfl, rfl, rfl⟩
    exact ⟨h, rfl, by rw [this.1, hht], this.2.1, this.2.2⟩
  | stake => exact Or.inl ⟨rfl, rfl, rfl⟩
  | unstake => exact Or.inl ⟨rfl, rfl, rfl⟩
  | end_ _ ht hh =>
    obtain ⟨_, _, f3, _, f5, f6⟩ := unfreezeFold_frame c.fcommitted.toList ht c
    exact Or.inl ⟨f5, f6, f3⟩
  | commit _ ht act hh => exact Or.inr (Or.inr (Or.inl ⟨rfl, ht, hh, rfl, rfl, rfl, rfl⟩))
  | restart _ act => exact Or.inr (Or.inr (Or.inr ⟨rfl, rfl, rfl, rfl, rfl⟩))

/-- inside a block the block height is the last committed height plus one -/
def HeightInv (c : Core) : Prop := ∀ ht, c.height = some ht → ht = c.lastHeight + 1

theorem history_heightInv (g : Genesis) :
    ∀ ops, (∀ op ∈ ops, op.isInit = false) → HeightInv (exec (initChain g) ops).core := by
  apply list_snoc_induction
  · intro _ ht hh; rw [exec_nil, initChain_core] at hh; simp [genesisCore] at hh
  · intro ops op ih h
    have ih' := ih (fun o ho => h o (by simp [ho]))
    rw [exec_snoc]
    intro ht hh
    rcases (step_core (exec (initChain g) ops) op (h op (by simp))).heights with ⟨a1, a2, _⟩ | ⟨_, _, a1, a2, _⟩ |
        ⟨_, _, _, a1, _⟩ | ⟨_, a1, _⟩
    · rw [a1] at hh; rw [a2]; exact ih' ht hh
    · rw [a1] at hh; cases hh; rw [a2]
    · rw [a1] at hh; cases hh
    · rw [a1] at hh; cases hh

/-! ### no EndBlock of the history panics -/

def Op.isEnd : Op → Bool
  | .end_ => true
  | _ => false

/-- every EndBlock of the history that runs inside a block completes without a Go panic (a panic
    crashes the node; the model then leaves the state as it was before the refund pass) -/
def NoEndPanic (g : Genesis) (ops : List Op) : Prop :=
  ∀ n, n < ops.length → (ops[n]?.map Op.isEnd = some true) →
    (exec (initChain g) (ops.take n)).blk.isSome = true → (endBlock (exec (initChain g) (ops.take n))).2.panic = ""

instance (g : Genesis) (ops : List Op) : Decidable (NoEndPanic g ops) := by
  unfold NoEndPanic; exact Nat.decidableBallLT _ _

theorem NoEndPanic.snoc {g : Genesis} {ops : List Op} {op : Op} (h : NoEndPanic g (ops ++ [op])) :
    NoEndPanic g ops ∧ (op = .end_ → ∀ b, (exec (initChain g) ops).blk = some b →
      (endBlock (exec (initChain g) ops)).2.panic = "") := by
  constructor
  · intro n hn h1 h2
    have := h n (by simp; omega) (by rw [List.getElem?_append_left hn]; exact h1)
    rw [List.take_append_of_le_length (by omega)] at this
    exact this h2
  · intro hop b hb
    subst hop
    have := h ops.length (by simp) (by simp [Op.isEnd])
    rw [List.take_left' rfl] at this
    exact this (by rw [hb]; rfl)

/-! ### a stake that has just entered the unbonding ledger -/

theorem not_logged_of_ffin {U : List String} {p : Phase} {c : Core} (hl : Life U p c) {k : String} {x : Stake}
    (hk : k ≠ zeroKey) (hin : c.ffin[k]? = some x) : c.refunds.filter (fun e => ledgerKey e.1 == k) = [] := by
  have hnl : ¬ Logged c k := by
    intro h; have := (hl.gone k hk h).2; rw [hin] at this; cases this
  have := logCount_zero hnl
  unfold logCount at this
  exact List.length_eq_zero_iff.mp this

/-- if a key that was bonded before an operation is in the unbonding view after it, the operation ran
    inside a block and the committed unbonding ledger does not know the key yet -/
theorem OpCore.release_fresh {U : List String} {nk : List Hex} {op : Op} {p p' : Phase} {c c' : Core}
    (hop : OpCore nk op c c') (hl : Life U p c) (hph : phaseStep p op = some p') {k : String} (hk : k ≠ zeroKey)
    (hb : BondedKey c k) {xr : Stake} (hin : c'.ffin[k]? = some xr) :
    ∃ H, c'.height = some H ∧ c'.fcommitted[k]? = none := by
  obtain ⟨kd, d, st, b1, b2, b3⟩ := hb
  have hff : c.ffin[k]? = none := by rw [← b3]; exact hl.excl kd d st b1 b2 (by rw [b3]; exact hk)
  cases hop with
  | same => rw [hff] at hin; cases hin
  | begin_ h _ _ hht hs =>
    have hp : p = .idle := by cases p <;> simp [phaseStep] at hph <;> rfl
    subst hp
    have := Steps.inv (P := fun x => x.height = some h.height ∧ x.fhist = c.fhist)
      (fun a b hab ⟨h1, h3⟩ => ⟨hab.height.1.trans h1, hab.height.2.2.2.trans h3⟩) hs ⟨rfl, rfl⟩
    refine ⟨h.height, this.1, ?_⟩
    unfold Core.fcommitted; rw [this.2]
    have := (hl.boundary (hl.idle rfl)).1
    unfold Core.fcommitted at this; rw [← this]; exact hff
  | stake => rw [hff] at hin; cases hin
  | unstake tx _ ht d0 hash st0 hh =>
    have hp : p = .inBlock := by cases p <;> simp [phaseStep] at hph <;> rfl
    subst hp
    refine ⟨ht, hh, ?_⟩
    show c.fcommitted[k]? = none
    cases hc : c.fcommitted[k]? with
    | none => rfl
    | some v => have := hl.inblock rfl k v hk hc; rw [hff] at this; cases this
  | end_ _ ht hh =>
    exfalso
    unfold unfreezeCore at hin
    rw [unfreezeFold_ffin] at hin
    split at hin
    · cases hin
    · rw [hff] at hin; cases hin
  | commit => rw [hff] at hin; cases hin
  | restart _ act =>
    exfalso
    have hp : p = .idle := by cases p <;> simp [phaseStep] at hph <;> rfl
    subst hp
    have : c.fcommitted[k]? = some xr := hin
    rw [← (hl.boundary (hl.idle rfl)).1, hff] at this; cases this

/-! ### tracking -/

/-- where the stake `x` (unbonding-ledger key `k`), released in block `H` and due at `M`, is -/
inductive Track (k : String) (x : Stake) (H M : Int) (p : Phase) (c : Core) : Prop
  /-- still in the block of its release: only in the consensus view -/
  | fresh : c.height = some H → c.ffin[k]? = some x → c.fcommitted[k]? = none → Track k x H M p c
  /-- committed, waiting: no block of height ≥ M has ended yet -/
  | waiting : H ≤ c.lastHeight → c.lastHeight < M → c.ffin[k]? = some x → c.fcommitted[k]? = some x →
      (p = .ended → c.height ≠ none → c.lastHeight + 1 < M) → Track k x H M p c
  /-- refunded by the EndBlock of height `M`: exactly one log entry, gone from the ledger -/
  | refunded : c.refunds.filter (fun e => ledgerKey e.1 == k) = [refundEntry x M] → c.ffin[k]? = none →
      (M ≤ c.lastHeight ∨ (p = .ended ∧ c.height = some M)) → Track k x H M p c

theorem fcommitted_congr {c c' : Core} (h : c'.fhist = c.fhist) : c'.fcommitted = c.fcommitted := by
  unfold Core.fcommitted; rw [h]

theorem track_step {U U' : List String} {nk : List Hex} {op : Op} {p p' : Phase} {c c' : Core}
    (hop : OpCore nk op c c') (hl : Life U p c) (hl' : Life U' p' c') (hd : DelegsOK c) (hf : FrozenOK c)
    (hinv : HeightInv c) (hph : phaseStep p op = some p')
    (hend : op = .end_ → ∀ ht, c.height = some ht → c' = unfreezeCore c ht)
    {k : String} {x : Stake} {H M : Int} (hk : k ≠ zeroKey) (hM : M = max x.refund (H + 1))
    (ht : Track k x H M p c) : Track k x H M p' c' := by
  have hstable := fun (hin : c.ffin[k]? = some x) => hop.ffin_stable hl hd hf hph hk hin
  cases ht with
  | fresh h1 h2 h3 =>
    have hin' : c'.ffin[k]? = some x := by
      rcases hstable h2 with h4 | ⟨_, ht, _, _, _, _, h9⟩
      · exact h4
      · exfalso
        have : refundEntry x ht ∈ (refundBatch c ht).filter (fun e => ledgerKey e.1 == k) := by rw [h9]; simp
        obtain ⟨hm, hkk⟩ := List.mem_filter.mp this
        obtain ⟨st, q1, _, q3⟩ := mem_refundBatch hf hm
        have : skey st = k := by
          have e1 : (refundEntry x ht).1 = st.hash := by rw [q3]; rfl
          simp only [beq_iff_eq] at hkk
          rw [e1] at hkk; exact hkk
        rw [this, h3] at q1; cases q1
    rcases hop.heights with ⟨a1, a2, a3⟩ | ⟨h, rfl, _⟩ | ⟨rfl, ht, b1, b2, b3, b4, b5⟩ | ⟨rfl, _⟩
    · exact .fresh (a1.trans h1) hin' (by rw [fcommitted_congr a3]; exact h3)
    · have hp : p = .idle := by cases p <;> simp [phaseStep] at hph <;> rfl
      subst hp
      have := hl.idle rfl; rw [h1] at this; cases this
    · rw [h1] at b1; cases b1
      refine .waiting (by rw [b3]; omega) (by rw [b3, hM]; omega) hin' ?_ ?_
      · unfold Core.fcommitted; rw [b4]; simp; rw [← b5]; exact hin'
      · intro _ hne; exact absurd b2 hne
    · have hp : p = .idle := by cases p <;> simp [phaseStep] at hph <;> rfl
      subst hp
      have := hl.idle rfl; rw [h1] at this; cases this
  | waiting h1 h2 h3 h4 h5 =>
    rcases hstable h3 with hin' | ⟨rfl, ht, q1, q2, q3, q4, q5⟩
    · rcases hop.heights with ⟨a1, a2, a3⟩ | ⟨h, rfl, a1, a2, a3⟩ | ⟨rfl, ht, b1, b2, b3, b4, b5⟩ | ⟨rfl, a1, a2, a3, _⟩
      · refine .waiting (by rw [a2]; exact h1) (by rw [a2]; exact h2) hin' (by rw [fcommitted_congr a3]; exact h4) ?_
        intro hp' hne
        rw [a1] at hne; rw [a2]
        by_cases hop' : op = .end_
        · subst hop'
          cases hh : c.height with
          | none => exact absurd hh hne
          | some ht =>
            have hp : p = .inBlock := by cases p <;> simp [phaseStep] at hph <;> rfl
            subst hp
            have hc' := hend rfl ht hh
            have := unfreezeCore_stake hl hf ht hk h4
            have hnd : ¬ x.refund ≤ ht := by
              intro hdue
              have := (this.1 hdue).1
              rw [← hc', hin'] at this; cases this
            have := hinv ht hh
            rw [hM]; omega
        · -- the only other way into (or within) `ended` is CheckTx
          have hp : p = .ended := by
            subst hp'
            cases p <;> cases op <;> simp [phaseStep] at hph hop' ⊢
          exact h5 hp hne
      · have hp' : p' = .inBlock := by cases p <;> simp [phaseStep] at hph <;> simp [hph]
        exact .waiting (by rw [a2]; exact h1) (by rw [a2]; exact h2) hin' (by rw [fcommitted_congr a3]; exact h4)
          (fun hp => by rw [hp'] at hp; cases hp)
      · have hp : p = .ended := by cases p <;> simp [phaseStep] at hph <;> rfl
        have hlt := h5 hp (by rw [b1]; simp)
        have := hinv ht b1
        refine .waiting (by rw [b3]; omega) (by rw [b3]; omega) hin' ?_ (fun _ hne => absurd b2 hne)
        unfold Core.fcommitted; rw [b4]; simp; rw [← b5]; exact hin'
      · exact .waiting (by rw [a2]; exact h1) (by rw [a2]; exact h2) hin' (by rw [fcommitted_congr a3]; exact h4)
          (fun _ hne => absurd a1 hne)
    · -- refunded by this EndBlock
      have hht := hinv ht q1
      have hM' : ht = M := by rw [hM]; omega
      subst hM'
      rcases hop.heights with ⟨a1, a2, _⟩ | ⟨h, hb, _⟩ | ⟨hb, _⟩ | ⟨hb, _⟩
      · have hp' : p' = .ended := by cases p <;> simp [phaseStep] at hph <;> simp [hph]
        refine .refunded ?_ q3 (Or.inr ⟨hp', by rw [a1]; exact q1⟩)
        rw [q4, List.filter_append, not_logged_of_ffin hl hk h3, q5]; rfl
      · cases hb
      · cases hb
      · cases hb
  | refunded h1 h2 h3 =>
    have hmem : refundEntry x M ∈ c.refunds ∧ ledgerKey (refundEntry x M).1 = k := by
      have : refundEntry x M ∈ c.refunds.filter (fun e => ledgerKey e.1 == k) := by rw [h1]; simp
      obtain ⟨m1, m2⟩ := List.mem_filter.mp this
      exact ⟨m1, by simpa using m2⟩
    have hgrow : c'.refunds = c.refunds ∨ ∃ batch, c'.refunds = c.refunds ++ batch := by
      rcases hop.refunds with h4 | ⟨_, ht, _, h4⟩
      · exact Or.inl h4
      · exact Or.inr ⟨_, h4⟩
    have hlog' : Logged c' k := by
      rcases hgrow with h4 | ⟨b, h4⟩
      · exact ⟨_, by rw [h4]; exact hmem.1, hmem.2⟩
      · exact ⟨_, by rw [h4]; exact List.mem_append_left _ hmem.1, hmem.2⟩
    have hfil : c'.refunds.filter (fun e => ledgerKey e.1 == k) = [refundEntry x M] := by
      rcases hgrow with h4 | ⟨b, h4⟩
      · rw [h4]; exact h1
      · have hone := hl'.once k hk
        unfold logCount at hone
        rw [h4, List.filter_append, h1] at hone ⊢
        have : (b.filter (fun e => ledgerKey e.1 == k)).length = 0 := by
          rw [List.length_append, List.length_singleton] at hone; omega
        rw [List.length_eq_zero_iff.mp this]; rfl
    refine .refunded hfil (hl'.gone k hk hlog').2 ?_
    rcases h3 with h3 | ⟨hpe, hhM⟩
    · left
      rcases hop.heights with ⟨_, a2, _⟩ | ⟨_, _, _, a2, _⟩ | ⟨_, ht, b1, _, b3, _⟩ | ⟨_, _, a2, _⟩
      · rw [a2]; exact h3
      · rw [a2]; exact h3
      · have := hinv ht b1; rw [b3]; omega
      · rw [a2]; exact h3
    · subst hpe
      cases hop with
      | same _ _ hc =>
        right
        cases op <;> simp [phaseStep] at hph
        · exact ⟨hph.symm, hhM⟩
        · have := hc rfl; rw [hhM] at this; cases this
      | begin_ => simp [phaseStep] at hph
      | stake => simp [phaseStep] at hph
      | unstake => simp [phaseStep] at hph
      | end_ => simp [phaseStep] at hph
      | commit _ ht act hh => left; rw [hhM] at hh; cases hh; exact Int.le_refl _
      | restart => simp [phaseStep] at hph

/-! ### along a history -/

theorem UniqueStakeKeys.snoc {g : Genesis} {ops : List Op} {op : Op} (hu : UniqueStakeKeys g (ops ++ [op])) :
    UniqueStakeKeys g ops := by
  unfold UniqueStakeKeys usedKeys at hu ⊢
  rw [stakedLog_snoc, List.map_append] at hu
  exact hu.sublist (List.Sublist.cons_cons _ (List.sublist_append_left _ _))

theorem phaseRun_snoc_some {p' : Phase} {ops : List Op} {op : Op} (h : phaseRun .idle (ops ++ [op]) = some p') :
    ∃ p, phaseRun .idle ops = some p ∧ phaseStep p op = some p' := by
  rw [phaseRun_snoc] at h
  cases hq : phaseRun .idle ops with
  | none => rw [hq] at h; cases h
  | some p => rw [hq] at h; exact ⟨p, rfl, h⟩

/-- the general end-to-end statement: a key that is bonded before operation `op0` and in the unbonding
    view after it (in block `H`) is tracked (`Track`) through every continuation of the history -/
theorem release_to_refund {g : Genesis} (hg : GenesisOK g) (pre : List Op) (op0 : Op) (k : String) (xr : Stake) (H : Int)
    (hk : k ≠ zeroKey) (hb : BondedKey (exec (initChain g) pre).core k)
    (hin : (exec (initChain g) (pre ++ [op0])).core.ffin[k]? = some xr)
    (hH : (exec (initChain g) (pre ++ [op0])).core.height = some H) :
    ∀ post, History (pre ++ op0 :: post) → ∀ p, phaseRun .idle (pre ++ op0 :: post) = some p →
      UniqueStakeKeys g (pre ++ op0 :: post) → NoEndPanic g (pre ++ op0 :: post) →
      Track k xr H (max xr.refund (H + 1)) p (exec (initChain g) (pre ++ op0 :: post)).core := by
  apply list_snoc_induction
  · intro hist p hp hu _
    have e : pre ++ [op0] = pre ++ op0 :: [] := rfl
    rw [← e] at hist hp hu ⊢
    obtain ⟨h1, h2, _⟩ := hist.snoc
    obtain ⟨q, hq, hph⟩ := phaseRun_snoc_some hp
    have hl := history_life hg pre h1 q hq hu.snoc
    have hop := step_core (exec (initChain g) pre) op0 h2
    rw [← exec_snoc] at hop
    obtain ⟨H', a1, a2⟩ := hop.release_fresh hl hph hk hb hin
    rw [hH] at a1; cases a1
    exact .fresh hH hin a2
  · intro post op ih hist p' hp' hu hnp
    have e : pre ++ op0 :: (post ++ [op]) = (pre ++ op0 :: post) ++ [op] := by simp
    rw [e] at hist hp' hu hnp ⊢
    obtain ⟨h1, h2, _⟩ := hist.snoc
    obtain ⟨p, hq, hph⟩ := phaseRun_snoc_some hp'
    obtain ⟨hnp0, hnpe⟩ := hnp.snoc
    have hnoinit : ∀ o ∈ pre ++ op0 :: post, o.isInit = false := fun o ho => (h1 o ho).1
    have hl := history_life hg _ h1 p hq hu.snoc
    have hl' := history_life hg _ hist p' hp' hu
    have hop := step_core (exec (initChain g) (pre ++ op0 :: post)) op h2
    have hs : (exec (initChain g) ((pre ++ op0 :: post) ++ [op])).core =
        (step (exec (initChain g) (pre ++ op0 :: post)) op).1.core := by rw [exec_snoc]
    rw [hs] at hl' ⊢
    refine track_step hop hl hl' (history_delegsOK hg _ h1) (history_frozenOK g _ hnoinit)
      (history_heightInv g _ hnoinit) hph ?_ hk rfl (ih h1 p hq hu.snoc hnp0)
    intro hop' ht hht
    subst hop'
    cases hb' : (exec (initChain g) (pre ++ op0 :: post)).blk with
    | none => simp [St.core, hb'] at hht
    | some b =>
      have : b.height = ht := by simpa [St.core, hb'] using hht
      subst this
      exact (endBlock_ok_core hb' (hnpe rfl b hb')).1

end Rigo
