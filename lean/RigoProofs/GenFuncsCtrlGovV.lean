/-
  Round 3, governance controller: `(*GovCtrler).ValidateTrx` (ctrlers/gov/ctrler.go) and the parameter
  getters it calls.

  * `GovCtrler_ValidateTrx_proposal` : on a TRX_PROPOSAL the generated function returns the Go error of the
    model's `validateProposal`, check for check in the same order;
  * `GovCtrler_ValidateTrx_voting`   : the same for TRX_VOTING and `validateVoting`;
  * `GovCtrler_ValidateTrx_eq`       : the whole function against `govValidate` (the governance part of
    the model's `validateTrx`, lemma `govV_validateTrx_gov`); `GovCtrler_ValidateTrx_ok_iff`: accept ↔ no error.

  Hypotheses: `EvenHex tx.to` (byte string), `OracleTied` (the `json.Unmarshal` / `hotfixOption` oracles are
  the parses recorded in the model's options), `VotedOptsI32` (fewer than 2^31 options).  NO hypothesis on the
  heights of a proposal any more: the model's `validateProposal` computes `start + period` and
  `end + lazyApplyingBlocks` with Go's int64 wrap-around (`Rigo.wrapInt64` = `Rigo.Gen.wrapI64`,
  `wrapI64_eq_model`), as the generated function does — the former hypotheses `Int64Fields` and `PropHeightsFit`
  are gone.  The inputs the remaining hypotheses exclude are exhibited: `GovCtrler_ValidateTrx_differs_oddTo`,
  `GovCtrler_ValidateTrx_differs_int32` (neither reachable).  **`GovCtrler_ValidateTrx_agrees_wrap`** (formerly
  `…_differs_wrap`): on the reachable input on which the unbounded model used to refuse what the Go code accepts
  (the overflow of `endVotingHeight + LazyApplyingBlocks()` is not guarded; that of
  `StartVotingHeight + VotingPeriodBlocks` is since issue #51) model and generated code now both accept;
  `govV_toCheck_exact` shows that the `to` tests differ on the string of 41 zero digits only.
  `GovCtrler_ValidateTrx_votingI32` is the voting branch theorem without the arithmetic hypothesis, against a copy
  of the model's function that computes as Go does.
-/
import RigoProofs.GenFuncsCtrlBase
import RigoProofs.GenFuncsGovMisc
import RigoProofs.WrapI64

set_option linter.unusedSimpArgs false

namespace Rigo.GenEq
open Rigo Rigo.Gen

theorem GovParams_MaxVotingPeriodBlocks_eq (p : Params) :
    GovParams_MaxVotingPeriodBlocks p = .ok p.maxVotingPeriodBlocks := rfl
theorem GovParams_MinVotingPeriodBlocks_eq (p : Params) :
    GovParams_MinVotingPeriodBlocks p = .ok p.minVotingPeriodBlocks := rfl
theorem GovParams_LazyApplyingBlocks_eq (p : Params) :
    GovParams_LazyApplyingBlocks p = .ok p.lazyApplyingBlocks := rfl
theorem GovParams_SlashRatio_eq (p : Params) : GovParams_SlashRatio p = .ok p.slashRatio := rfl

/-! ### the zero address -/

theorem govV_allZero_iff (h : Hex) : (isZeroAddr h = true ∧ h.length = 40) ↔ h = zeroAddr := by
  unfold isZeroAddr zeroAddr
  rw [String.all_bool_eq]
  constructor
  · rintro ⟨h1, h2⟩
    have : h.toList = List.replicate 40 '0' := by
      rw [List.eq_replicate_iff]
      refine ⟨by rw [String.length_toList]; exact h2, ?_⟩
      intro b hb
      have := List.all_eq_true.mp h1 b hb
      simpa using this
    rw [← this]; simp
  · intro e
    subst e
    exact ⟨by simp, by decide⟩

theorem govV_isZero_iff (h : Hex) (he : EvenHex h) :
    (((byteLen h == 20) = true) ∧ isZeroAddr h = true) ↔ h = zeroAddr := by
  rw [← govV_allZero_iff]
  unfold byteLen
  unfold EvenHex at he
  constructor
  · rintro ⟨h1, h2⟩
    have : h.length / 2 = 20 := by simpa using h1
    exact ⟨h2, by omega⟩
  · rintro ⟨h1, h2⟩
    refine ⟨?_, h1⟩
    simp [h2]

/-! ### the loop over the options -/

/-- the options that `ValidateTrx` hands to `json.Unmarshal`: those of a PROPOSAL_GOVPARAMS proposal only -/
def govParamOpts : Payload → List VoteOpt
  | .proposal _ _ _ _ optType opts => if optType = PROPOSAL_GOVPARAMS then opts else []
  | _ => []

/-- the `json.Unmarshal` / `hotfixOption` oracles agree with the parses recorded in the model's options:
    `json.Unmarshal(option)` succeeds exactly when the model has a validation-time parse `parsedV`, and
    `json.Unmarshal(hotfixOption(option))` exactly when it has an apply-time parse `parsedA`
    (needed: the parses are ghost data of the model, the Go code sees the raw bytes only) -/
def OracleTied (unm : Hex → Option String) (hotfix : Hex → Hex) (opts : List VoteOpt) : Prop :=
  ∀ o ∈ opts, (unm o.raw).isNone = o.parsedV.isSome ∧ (unm (hotfix o.raw)).isNone = o.parsedA.isSome

instance (unm : Hex → Option String) (hotfix : Hex → Hex) (opts : List VoteOpt) :
    Decidable (OracleTied unm hotfix opts) := by unfold OracleTied; infer_instance

theorem govV_optsLoop (unm : Hex → Option String) (hotfix : Hex → Hex) (opts : List VoteOpt)
    (htie : OracleTied unm hotfix opts) :
    (forIn (m := G) (opts.map (·.raw)) ((none : Option (Option String)), ()) fun option __s =>
        if (unm option).isSome = true then
          pure (ForInStep.done (some (some "ErrInvalidTrxPayloadParams"), ()))
        else
          if (unm (hotfix option)).isSome = true then
            pure (ForInStep.done (some (some "ErrInvalidTrxPayloadParams"), ()))
          else pure (ForInStep.yield (none, ()))) =
      .ok (if opts.any (fun o => o.parsedV.isNone || o.parsedA.isNone) then
            (some (some "ErrInvalidTrxPayloadParams"), ()) else (none, ())) := by
  induction opts with
  | nil => rfl
  | cons o os ih =>
    have ho := htie o (List.mem_cons_self)
    have hos : OracleTied unm hotfix os := fun x hx => htie x (List.mem_cons_of_mem _ hx)
    rw [List.map_cons, List.forIn_cons]
    cases hv : o.parsedV with
    | none =>
      have : (unm o.raw).isSome = true := by
        have := ho.1; rw [hv] at this; cases h : unm o.raw <;> simp_all
      simp [hv, this, bind, Except.bind, pure, Except.pure]
    | some v =>
      have h1 : (unm o.raw).isSome = false := by
        have := ho.1; rw [hv] at this; cases h : unm o.raw <;> simp_all
      cases ha : o.parsedA with
      | none =>
        have : (unm (hotfix o.raw)).isSome = true := by
          have := ho.2; rw [ha] at this; cases h : unm (hotfix o.raw) <;> simp_all
        simp [hv, ha, h1, this, bind, Except.bind, pure, Except.pure]
      | some a =>
        have h2 : (unm (hotfix o.raw)).isSome = false := by
          have := ho.2; rw [ha] at this; cases h : unm (hotfix o.raw) <;> simp_all
        have ih' := ih hos
        simp only [pure, Except.pure] at ih'
        simp only [h1, h2, Bool.false_eq_true, if_false, bind, Except.bind, pure, Except.pure]
        rw [ih']
        simp [hv, ha]

/-- the same with `pure` unfolded (the form met after `simp only [pure, Except.pure]`) -/
theorem govV_optsLoop' (unm : Hex → Option String) (hotfix : Hex → Hex) (opts : List VoteOpt)
    (htie : OracleTied unm hotfix opts) :
    (forIn (m := G) (opts.map (·.raw)) ((none : Option (Option String)), ()) fun option __s =>
        if (unm option).isSome = true then
          Except.ok (ForInStep.done (some (some "ErrInvalidTrxPayloadParams"), ()))
        else
          if (unm (hotfix option)).isSome = true then
            Except.ok (ForInStep.done (some (some "ErrInvalidTrxPayloadParams"), ()))
          else Except.ok (ForInStep.yield (none, ()))) =
      .ok (if opts.any (fun o => o.parsedV.isNone || o.parsedA.isNone) then
            (some (some "ErrInvalidTrxPayloadParams"), ()) else (none, ())) := by
  have := govV_optsLoop unm hotfix opts htie
  simpa only [pure, Except.pure] using this

/-! ### `ValidateTrx`, proposal branch -/

/-- Go error of each failure kind of the model's `validateProposal` -/
def govPropLabel (k : String) : Option String :=
  if k = "tozero" then some "ErrInvalidTrx"
  else if k = "noright" then some "ErrNoRight"
  else if k = "payloadtype" then some "ErrInvalidTrxPayloadType"
  else if k = "dupkey" then some "ErrDuplicatedKey"
  else if k = "payloadparams" then some "ErrInvalidTrxPayloadParams"
  else none

/-- the model's int64 wrap-around is the one of the generated code (same definition; the model does not import
    the generated file) -/
theorem wrapI64_eq_model : Gen.wrapI64 = wrapInt64 := rfl

theorem wrapI64_eq_model' (x : Int) : Gen.wrapI64 x = wrapInt64 x := rfl

/-- `ValidateTrx` on a `TRX_PROPOSAL` transaction is the model's `validateProposal`, check for check in the
    same order: zero `to` address, validator right, payload type, duplicate, start height, voting period,
    options parse (as submitted and hot-fixed), `start + period` overflow, applying height, no option.
    Both sides compute the two height sums in int64 with wrap-around: no hypothesis on the heights.
    `hto`: the model tests "20 bytes and all digits zero", Go compares with the 20 zero bytes: the same for a
    byte string (even number of hex digits). -/
theorem GovCtrler_ValidateTrx_proposal (s : St) (exec : Bool) (height : Int) (tx : TxIn) (ctx : TrxContext)
    (unm : Hex → Option String) (hotfix : Hex → Hex)
    (htx : ctx.tx = trxOf tx) (hex : ctx.exec = exec) (hh : ctx.height = height) (hhash : ctx.txHash = tx.hash)
    (hty : tx.type = TRX_PROPOSAL) (hto : EvenHex tx.to)
    (htie : OracleTied unm hotfix (govParamOpts tx.payload)) :
    Gen.GovCtrler_ValidateTrx (govCtrlOf s) ctx (s.isValidator tx.from_) unm hotfix =
      .ok (errOf govPropLabel (validateProposal s exec height tx)) := by
  unfold Gen.GovCtrler_ValidateTrx validateProposal
  subst hex hh
  have hz : (!decide (((byteLen tx.to == 20) = true) ∧ isZeroAddr tx.to = true)) = decide (tx.to ≠ zeroAddr) := by
    simp only [govV_isZero_iff _ hto]; simp
  cases hx : ctx.exec <;>
  · simp only [htx, Trx_GetType_eq, bind, Except.bind]
    simp only [hz, hhash, hty, TRX_PROPOSAL, trxOf, bind, Except.bind, if_true, if_false, throw, throwThe,
      MonadExceptOf.throw,
      Bool.false_eq_true, cmpBytes_eq_zero, zeroAddress20, govCtrlOf, ledOf_get, hexArray32_eq, ne_eq,
      GovParams_MaxVotingPeriodBlocks_eq, GovParams_MinVotingPeriodBlocks_eq, GovParams_LazyApplyingBlocks_eq,
      wrapI64_eq_model]
    by_cases h1 : ¬ tx.to = zeroAddr
    · simp [h1, errOf, govPropLabel, pure, Except.pure, throw, throwThe, MonadExceptOf.throw]
    have h1 : tx.to = zeroAddr := Classical.not_not.mp h1
    cases hv : s.isValidator tx.from_
    · simp [h1, errOf, govPropLabel, pure, Except.pure, throw, throwThe, MonadExceptOf.throw]
    cases hp : tx.payload with
    | proposal msg start period applying optType opts =>
      have htie' : optType = 257 → OracleTied unm hotfix opts := by
        intro h; rw [hp] at htie; simpa [govParamOpts, PROPOSAL_GOVPARAMS, h] using htie
      cases hg : s.props.get ctx.exec (ledgerKey tx.hash) <;> rw [hx] at hg
      · simp only [h1, hg, payOf, TrxPayload.asProposal, gderef, pure, Except.pure, Option.isSome_some, not_true_eq_false,
          if_false, Bool.true_eq_false, gnotFound_none, PROPOSAL_GOVPARAMS, Option.map_none, Option.isSome_none,
          Bool.false_eq_true, if_false, false_and, not_true_eq_false, and_false]
        by_cases h3 : start ≤ ctx.height
        · simp [h3, hv, errOf, govPropLabel]
        by_cases h4 : period > s.active.maxVotingPeriodBlocks
        · simp [h3, h4, hv, errOf, govPropLabel]
        by_cases h4' : period < s.active.minVotingPeriodBlocks
        · simp [h3, h4, h4', hv, errOf, govPropLabel]
        by_cases h7 : start > wrapInt64 (start + period)
        · by_cases h5 : optType = 257
          · rw [govV_optsLoop' unm hotfix opts (htie' h5)]
            by_cases h6 : opts.any (fun o => o.parsedV.isNone || o.parsedA.isNone) = true
            · simp only [h3, h4, h4', h5, h6, h7, hv]; simp [errOf, govPropLabel]
            · simp only [h3, h4, h4', h5, h6, h7, hv]; simp [errOf, govPropLabel]
          · simp only [h3, h4, h4', h5, h7, hv]; simp [errOf, govPropLabel]
        by_cases h8 : applying < wrapInt64 (wrapInt64 (start + period) + s.active.lazyApplyingBlocks)
        · by_cases h5 : optType = 257
          · rw [govV_optsLoop' unm hotfix opts (htie' h5)]
            by_cases h6 : opts.any (fun o => o.parsedV.isNone || o.parsedA.isNone) = true
            · simp only [h3, h4, h4', h5, h6, h7, h8, hv]; simp [errOf, govPropLabel]
            · simp only [h3, h4, h4', h5, h6, h7, h8, hv]; simp [errOf, govPropLabel]
          · simp only [h3, h4, h4', h5, h7, h8, hv]; simp [errOf, govPropLabel]
        by_cases h8' : wrapInt64 (start + period) > applying
        · by_cases h5 : optType = 257
          · rw [govV_optsLoop' unm hotfix opts (htie' h5)]
            by_cases h6 : opts.any (fun o => o.parsedV.isNone || o.parsedA.isNone) = true
            · simp only [h3, h4, h4', h5, h6, h7, h8, h8', hv]; simp [errOf, govPropLabel]
            · simp only [h3, h4, h4', h5, h6, h7, h8, h8', hv]; simp [errOf, govPropLabel]
          · simp only [h3, h4, h4', h5, h7, h8, h8', hv]; simp [errOf, govPropLabel]
        by_cases h5 : optType = 257
        · rw [govV_optsLoop' unm hotfix opts (htie' h5)]
          by_cases h6 : opts.any (fun o => o.parsedV.isNone || o.parsedA.isNone) = true
          · simp only [h3, h4, h4', h5, h6, h7, h8, h8', hv]; simp [errOf, govPropLabel]
          · simp only [h3, h4, h4', h5, h6, h7, h8, h8', hv]
            cases opts with
            | nil => simp [errOf, govPropLabel]
            | cons o os =>
              have : ¬ ((os.length : Int) + 1 = 0) := by omega
              simp [errOf, govPropLabel, this]
        · simp only [h3, h4, h4', h5, h7, h8, h8', hv]
          cases opts with
          | nil => simp [errOf, govPropLabel]
          | cons o os =>
            have : ¬ ((os.length : Int) + 1 = 0) := by omega
            simp [errOf, govPropLabel, this]
      · simp [h1, hg, payOf, TrxPayload.asProposal, errOf, govPropLabel, pure, Except.pure, throw, throwThe,
          MonadExceptOf.throw]
    | _ => simp [h1, payOf, TrxPayload.asProposal, errOf, govPropLabel, pure, Except.pure, throw, throwThe, MonadExceptOf.throw]

/-! ### `ValidateTrx`, voting branch -/

/-- Go error of each failure kind of the model's `validateVoting` (the wrong `to` address is
    `ErrInvalidTrxPayloadParams` here, `ErrInvalidTrx` for a proposal; a missing proposal is the ledger's
    `ErrNotFoundResult`) -/
def govVoteLabel (k : String) : Option String :=
  if k = "tozero" then some "ErrInvalidTrxPayloadParams"
  else if k = "payloadtype" then some "ErrInvalidTrxPayloadType"
  else if k = "notfound" then some "ErrNotFoundResult"
  else if k = "noright" then some "ErrNoRight"
  else if k = "payloadparams" then some "ErrInvalidTrxPayloadParams"
  else if k = "notvoting" then some "ErrNotVotingPeriod"
  else none

/-- the proposal voted on has fewer than 2^31 options: Go compares the choice with `int32(len(prop.Options))` -/
def VotedOptsI32 (s : St) (exec : Bool) (tx : TxIn) : Prop :=
  match tx.payload with
  | .voting hash _ =>
    match s.props.get exec (ledgerKey hash) with
    | some p => p.options.length < 2147483648
    | none => True
  | _ => True

instance (s : St) (exec : Bool) (tx : TxIn) : Decidable (VotedOptsI32 s exec tx) := by
  unfold VotedOptsI32; split <;> first | infer_instance | (split <;> infer_instance)

theorem govV_wrapI32 (n : Nat) (h : n < 2147483648) : wrapI32 (n : Int) = (n : Int) := by
  unfold wrapI32
  have : (n : Int) % 4294967296 = n := by omega
  rw [this]
  have : (n : Int) < 2147483648 := by omega
  simp [this]

/-- `validateVoting` with the choice compared as Go does it, with `int32(len(prop.Options))` -/
def validateVotingI32 (s : St) (exec : Bool) (height : Int) (tx : TxIn) : Step St := do
  if !(byteLen tx.to == 20 ∧ isZeroAddr tx.to) then throw (.err "tozero")
  match tx.payload with
  | .voting hash choice =>
    match s.props.get exec (ledgerKey hash) with
    | none => throw (.err "notfound")
    | some p =>
      if !p.voters.any (·.addr == tx.from_) then throw (.err "noright")
      if choice < 0 ∨ choice ≥ wrapI32 (p.options.length : Int) then throw (.err "payloadparams")
      if height > p.end_ ∨ height < p.start then throw (.err "notvoting")
      pure s
  | _ => throw (.err "payloadtype")

theorem govV_votingI32_eq (s : St) (exec : Bool) (height : Int) (tx : TxIn) (hlen : VotedOptsI32 s exec tx) :
    validateVotingI32 s exec height tx = validateVoting s exec height tx := by
  unfold validateVotingI32 validateVoting VotedOptsI32 at *
  cases hp : tx.payload with
  | voting hash choice =>
    rw [hp] at hlen
    simp only at hlen
    cases hg : s.props.get exec (ledgerKey hash) with
    | none => simp only [hg]
    | some p =>
      rw [hg] at hlen
      simp only at hlen
      simp only [hg, govV_wrapI32 _ hlen]
  | _ => simp only [hp]

/-- the voting branch without the bound on the number of options -/
theorem GovCtrler_ValidateTrx_votingI32 (s : St) (exec : Bool) (height : Int) (tx : TxIn) (ctx : TrxContext)
    (unm : Hex → Option String) (hotfix : Hex → Hex) (iv : Bool)
    (htx : ctx.tx = trxOf tx) (hex : ctx.exec = exec) (hh : ctx.height = height)
    (hty : tx.type = TRX_VOTING) (hto : EvenHex tx.to) :
    Gen.GovCtrler_ValidateTrx (govCtrlOf s) ctx iv unm hotfix =
      .ok (errOf govVoteLabel (validateVotingI32 s exec height tx)) := by
  unfold Gen.GovCtrler_ValidateTrx validateVotingI32
  subst hex hh
  have hz : (!decide (((byteLen tx.to == 20) = true) ∧ isZeroAddr tx.to = true)) = decide (tx.to ≠ zeroAddr) := by
    simp only [govV_isZero_iff _ hto]; simp
  cases hx : ctx.exec <;>
  · simp only [htx, Trx_GetType_eq, bind, Except.bind]
    have h54 : ¬ ((5 : Int) = 4) := by decide
    simp only [hz, hty, TRX_VOTING, h54, trxOf, bind, Except.bind, if_true, if_false, throw, throwThe,
      MonadExceptOf.throw,
      Bool.false_eq_true, cmpBytes_eq_zero, zeroAddress20, govCtrlOf, ledOf_get, hexArray32_eq, ne_eq]
    by_cases h1 : ¬ tx.to = zeroAddr
    · simp [h1, errOf, govVoteLabel, pure, Except.pure]
    have h1 : tx.to = zeroAddr := Classical.not_not.mp h1
    cases hp : tx.payload with
    | voting hash choice =>
      cases hg : s.props.get ctx.exec (ledgerKey hash) <;> rw [hx] at hg
      · simp [h1, hg, payOf, TrxPayload.asVoting, gderef, errOf, govVoteLabel, pure, Except.pure]
      · rename_i p
        simp only [h1, hg, payOf, TrxPayload.asVoting, gderef, pure, Except.pure, Option.isSome_some, not_true_eq_false,
          if_false, Bool.true_eq_false, gnotFound_some, Option.map_some, Option.isSome_none,
          Bool.false_eq_true, if_false, false_and, not_true_eq_false, and_false, GovProposal_IsVoter_eq]
        simp only [propOf, List.length_map]
        cases hvt : p.voters.any (fun x => x.addr == tx.from_)
        · simp [errOf, govVoteLabel]
        by_cases h3 : choice < 0
        · simp [h3, errOf, govVoteLabel]
        by_cases h3' : choice ≥ wrapI32 (p.options.length : Int)
        · simp [h3, h3', errOf, govVoteLabel]
        by_cases h4 : ctx.height > p.end_
        · simp [h3, h3', h4, errOf, govVoteLabel]
        by_cases h4' : ctx.height < p.start
        · simp [h3, h3', h4, h4', errOf, govVoteLabel]
        simp [h3, h3', h4, h4', errOf, govVoteLabel]
    | _ => simp [h1, payOf, TrxPayload.asVoting, errOf, govVoteLabel, pure, Except.pure]

/-- `ValidateTrx` on a `TRX_VOTING` transaction is the model's `validateVoting`, check for check in the
    same order (the validator oracle is not consulted) -/
theorem GovCtrler_ValidateTrx_voting (s : St) (exec : Bool) (height : Int) (tx : TxIn) (ctx : TrxContext)
    (unm : Hex → Option String) (hotfix : Hex → Hex) (iv : Bool)
    (htx : ctx.tx = trxOf tx) (hex : ctx.exec = exec) (hh : ctx.height = height)
    (hty : tx.type = TRX_VOTING) (hto : EvenHex tx.to) (hlen : VotedOptsI32 s exec tx) :
    Gen.GovCtrler_ValidateTrx (govCtrlOf s) ctx iv unm hotfix =
      .ok (errOf govVoteLabel (validateVoting s exec height tx)) := by
  rw [← govV_votingI32_eq s exec height tx hlen]
  exact GovCtrler_ValidateTrx_votingI32 s exec height tx ctx unm hotfix iv htx hex hh hty hto

/-! ### other types, and the whole function -/

theorem GovCtrler_ValidateTrx_unknown (c : GovCtrler) (tx : TxIn) (ctx : TrxContext)
    (unm : Hex → Option String) (hotfix : Hex → Hex) (iv : Bool) (htx : ctx.tx = trxOf tx)
    (h4 : tx.type ≠ TRX_PROPOSAL) (h5 : tx.type ≠ TRX_VOTING) :
    Gen.GovCtrler_ValidateTrx c ctx iv unm hotfix = .ok (some "ErrUnknownTrxType") := by
  unfold Gen.GovCtrler_ValidateTrx
  unfold TRX_PROPOSAL at h4
  unfold TRX_VOTING at h5
  cases hx : ctx.exec <;>
  · simp only [htx, Trx_GetType_eq, bind, Except.bind]
    simp [h4, h5, pure, Except.pure]

/-- the part of the model's `validateTrx` that is the governance controller's `ValidateTrx` -/
def govValidate (s : St) (exec : Bool) (height : Int) (tx : TxIn) : Step St :=
  if tx.type = TRX_PROPOSAL then validateProposal s exec height tx
  else if tx.type = TRX_VOTING then validateVoting s exec height tx
  else throw (.err "unknowntype")

/-- Go error of the model's failure kinds, per transaction type -/
def govLabel (type : Int) (k : String) : Option String :=
  if type = TRX_PROPOSAL then govPropLabel k
  else if type = TRX_VOTING then govVoteLabel k
  else if k = "unknowntype" then some "ErrUnknownTrxType" else none

/-- for a governance transaction that passed the common validation, `validateTrx` is `govValidate` -/
theorem govV_validateTrx_gov (s : St) (exec : Bool) (height : Int) (tx : TxIn) (sender receiver : Account)
    (hty : tx.type = TRX_PROPOSAL ∨ tx.type = TRX_VOTING)
    (h0 : commonValidation0 s exec tx = .ok ()) (h1 : commonValidation1 sender tx = .ok ()) :
    validateTrx s exec height tx sender receiver = govValidate s exec height tx := by
  unfold validateTrx govValidate
  simp only [h0, h1, bind, Except.bind]
  rcases hty with h | h <;> simp [h, TRX_PROPOSAL, TRX_VOTING]

/-- **`(*GovCtrler).ValidateTrx`** = the governance part of the model's `validateTrx`, outcome for outcome.
    Hypotheses (each only for the transaction type that needs it):
    * `hto`  : the `to` field is a byte string (even number of hex digits) — the model tests
               "20 bytes, all zero", Go compares with the 20 zero bytes;
    * `htie` : the `json.Unmarshal` / `hotfixOption` oracles are the parses recorded in the options;
    * (no hypothesis on the heights of a proposal: the model computes the two sums in int64 as Go does);
    * `hlen` : the proposal voted on has fewer than 2^31 options (`int32(len(prop.Options))`). -/
theorem GovCtrler_ValidateTrx_eq (s : St) (exec : Bool) (height : Int) (tx : TxIn) (ctx : TrxContext)
    (unm : Hex → Option String) (hotfix : Hex → Hex)
    (htx : ctx.tx = trxOf tx) (hex : ctx.exec = exec) (hh : ctx.height = height) (hhash : ctx.txHash = tx.hash)
    (hto : tx.type = TRX_PROPOSAL ∨ tx.type = TRX_VOTING → EvenHex tx.to)
    (htie : tx.type = TRX_PROPOSAL → OracleTied unm hotfix (govParamOpts tx.payload))
    (hlen : tx.type = TRX_VOTING → VotedOptsI32 s exec tx) :
    Gen.GovCtrler_ValidateTrx (govCtrlOf s) ctx (s.isValidator tx.from_) unm hotfix =
      .ok (errOf (govLabel tx.type) (govValidate s exec height tx)) := by
  unfold govValidate
  by_cases h4 : tx.type = TRX_PROPOSAL
  · rw [GovCtrler_ValidateTrx_proposal s exec height tx ctx unm hotfix htx hex hh hhash h4 (hto (.inl h4)) (htie h4)]
    have : govLabel tx.type = govPropLabel := by funext k; simp only [govLabel, if_pos h4]
    rw [this, if_pos h4]
  by_cases h5 : tx.type = TRX_VOTING
  · rw [GovCtrler_ValidateTrx_voting s exec height tx ctx unm hotfix _ htx hex hh h5 (hto (.inr h5)) (hlen h5)]
    have : govLabel tx.type = govVoteLabel := by funext k; simp only [govLabel, if_neg h4, if_pos h5]
    rw [this, if_neg h4, if_pos h5]
  · rw [GovCtrler_ValidateTrx_unknown _ tx ctx unm hotfix _ htx h4 h5]
    simp [h4, h5, errOf, govLabel, throw, throwThe, MonadExceptOf.throw]

/-! ### the model never panics here, every failure kind has a Go error: accept ↔ no error -/

theorem govV_validateProposal_kinds (s : St) (exec : Bool) (height : Int) (tx : TxIn) (f : Fail)
    (h : validateProposal s exec height tx = .error f) :
    f = .err "tozero" ∨ f = .err "noright" ∨ f = .err "payloadtype" ∨ f = .err "dupkey" ∨
      f = .err "payloadparams" := by
  unfold validateProposal at h
  simp only [bind, Except.bind, pure, Except.pure, throw, throwThe, MonadExceptOf.throw] at h
  repeat' split at h
  all_goals (cases h <;> simp_all)

theorem govV_validateVoting_kinds (s : St) (exec : Bool) (height : Int) (tx : TxIn) (f : Fail)
    (h : validateVoting s exec height tx = .error f) :
    f = .err "tozero" ∨ f = .err "payloadtype" ∨ f = .err "notfound" ∨ f = .err "noright" ∨
      f = .err "payloadparams" ∨ f = .err "notvoting" := by
  unfold validateVoting at h
  simp only [bind, Except.bind, pure, Except.pure, throw, throwThe, MonadExceptOf.throw] at h
  repeat' split at h
  all_goals (cases h <;> simp_all)

theorem govValidate_label_some (s : St) (exec : Bool) (height : Int) (tx : TxIn) (f : Fail)
    (h : govValidate s exec height tx = .error f) :
    ∃ l, errOf (govLabel tx.type) (.error f : Step St) = some l := by
  unfold govValidate at h
  by_cases h4 : tx.type = TRX_PROPOSAL
  · rw [if_pos h4] at h
    rcases govV_validateProposal_kinds s exec height tx f h with e | e | e | e | e <;> subst e <;>
      simp [errOf, govLabel, h4, govPropLabel]
  by_cases h5 : tx.type = TRX_VOTING
  · rw [if_neg h4, if_pos h5] at h
    rcases govV_validateVoting_kinds s exec height tx f h with e | e | e | e | e | e <;> subst e <;>
      (simp only [errOf, govLabel, if_neg h4, if_pos h5]; simp [govVoteLabel])
  · rw [if_neg h4, if_neg h5] at h
    cases h
    simp [errOf, govLabel, h4, h5]

/-- the model accepts exactly when the Go code returns no error -/
theorem GovCtrler_ValidateTrx_ok_iff (s : St) (exec : Bool) (height : Int) (tx : TxIn) (ctx : TrxContext)
    (unm : Hex → Option String) (hotfix : Hex → Hex)
    (htx : ctx.tx = trxOf tx) (hex : ctx.exec = exec) (hh : ctx.height = height) (hhash : ctx.txHash = tx.hash)
    (hto : tx.type = TRX_PROPOSAL ∨ tx.type = TRX_VOTING → EvenHex tx.to)
    (htie : tx.type = TRX_PROPOSAL → OracleTied unm hotfix (govParamOpts tx.payload))
    (hlen : tx.type = TRX_VOTING → VotedOptsI32 s exec tx) :
    (∃ s', govValidate s exec height tx = .ok s') ↔
      Gen.GovCtrler_ValidateTrx (govCtrlOf s) ctx (s.isValidator tx.from_) unm hotfix = .ok none := by
  rw [GovCtrler_ValidateTrx_eq s exec height tx ctx unm hotfix htx hex hh hhash hto htie hlen]
  cases hm : govValidate s exec height tx with
  | ok s' => simp [errOf]
  | error f =>
    obtain ⟨l, hl⟩ := govValidate_label_some s exec height tx f hm
    simp [hl]

/-- on success the model's state is unchanged (`ValidateTrx` has no receiver update either) -/
theorem govValidate_ok_state (s s' : St) (exec : Bool) (height : Int) (tx : TxIn)
    (h : govValidate s exec height tx = .ok s') : s' = s := by
  unfold govValidate validateProposal validateVoting at h
  simp only [bind, Except.bind, pure, Except.pure, throw, throwThe, MonadExceptOf.throw] at h
  repeat' split at h
  all_goals (cases h <;> rfl)

/-! ### examples: the hypotheses are satisfiable, the conclusions compute -/

def exGovVal : Hex := "00000000000000000000000000000000000000aa"

/-- a proposal with two options, one voter, voting open from 5 to 20 -/
def exGovProp : Proposal :=
  { hash := "ab", start := 5, end_ := 20, applying := 30, total := 10, majority := 7, optType := 0,
    voters := [{ addr := exGovVal, power := 10 }],
    options := [{ raw := "01", parsedV := none, parsedA := none }, { raw := "02", parsedV := none, parsedA := none }] }

/-- one validator, voting periods of 10 to 100 blocks, 5 blocks before applying, the proposal above -/
def exGovS : St :=
  { lastVals := [{ addr := exGovVal, pub := "" }],
    active := { (default : Params) with minVotingPeriodBlocks := 10, maxVotingPeriodBlocks := 100, lazyApplyingBlocks := 5 },
    props := { chk := ({} : KMap Proposal).insert (ledgerKey "ab") exGovProp } }

/-- the oracle of the examples: `7b7d` ("{}") parses, nothing else does -/
def exGovUnm : Hex → Option String := fun h => if h = "7b7d" then none else some "bad json"

def exGovPropTx (opts : List VoteOpt) : TxIn :=
  { hash := "cd", from_ := exGovVal, to := zeroAddr, type := TRX_PROPOSAL,
    payload := .proposal "" 8 10 23 PROPOSAL_GOVPARAMS opts }

def exGovCtx (tx : TxIn) (height : Int) : TrxContext :=
  { height := height, txHash := tx.hash, tx := trxOf tx, exec := false, senderPubKey := "",
    sender := { addr := tx.from_ }, receiver := { addr := tx.to }, gasUsed := 0, chainId := "" }

theorem exGovS_get : exGovS.props.get false (ledgerKey "ab") = some exGovProp := by
  simp [exGovS, Led.get]

theorem exGovS_get_cd : exGovS.props.get false (ledgerKey "cd") = none := by
  have : ledgerKey "cd" ≠ ledgerKey "ab" := by decide
  simp [exGovS, Led.get, Std.ExtTreeMap.getElem?_insert, this.symm]

/-- the sums of the examples are int64 values -/
theorem govV_wrapI64_18 : wrapInt64 18 = 18 := by decide
theorem govV_wrapI64_23 : wrapInt64 23 = 23 := by decide

def exGovTx1 : TxIn := exGovPropTx [{ raw := "7b7d", parsedV := some default, parsedA := some default }]

/-- a governance-parameters proposal whose option parses in both forms is accepted … -/
example : Gen.GovCtrler_ValidateTrx (govCtrlOf exGovS) (exGovCtx exGovTx1 7) (exGovS.isValidator exGovTx1.from_)
      exGovUnm id = .ok none := by
  rw [GovCtrler_ValidateTrx_proposal exGovS false 7 exGovTx1 (exGovCtx exGovTx1 7) exGovUnm id rfl rfl rfl rfl rfl
    (by decide) (by decide)]
  have hv : exGovS.isValidator exGovVal = true := by decide
  have hz : (byteLen zeroAddr == 20) = true ∧ isZeroAddr zeroAddr = true :=
    (govV_isZero_iff zeroAddr (by decide)).mpr rfl
  simp [validateProposal, exGovTx1, exGovPropTx, exGovS_get_cd, hv, hz, errOf, bind, Except.bind, pure, Except.pure,
    PROPOSAL_GOVPARAMS]
  simp [exGovS, govV_wrapI64_18, govV_wrapI64_23]

/-- … and one whose option does not parse after the hot-fix is refused -/
def exGovTx2 : TxIn := exGovPropTx [{ raw := "7b7d", parsedV := some default, parsedA := none }]

example : Gen.GovCtrler_ValidateTrx (govCtrlOf exGovS) (exGovCtx exGovTx2 7) (exGovS.isValidator exGovTx2.from_)
      exGovUnm (fun h => h ++ "00") = .ok (some "ErrInvalidTrxPayloadParams") := by
  rw [GovCtrler_ValidateTrx_proposal exGovS false 7 exGovTx2 (exGovCtx exGovTx2 7) exGovUnm _ rfl rfl rfl rfl rfl
    (by decide) (by decide)]
  have hv : exGovS.isValidator exGovVal = true := by decide
  have hz : (byteLen zeroAddr == 20) = true ∧ isZeroAddr zeroAddr = true :=
    (govV_isZero_iff zeroAddr (by decide)).mpr rfl
  simp [validateProposal, exGovTx2, exGovPropTx, exGovS_get_cd, hv, hz, errOf, bind, Except.bind, pure, Except.pure,
    PROPOSAL_GOVPARAMS, throw, throwThe, MonadExceptOf.throw, govPropLabel]

/-- a vote for option 1 of the proposal `ab` at height 7 is accepted, a vote for option 2 is not -/
def exGovVoteTx (choice : Int) : TxIn :=
  { hash := "ef", from_ := exGovVal, to := zeroAddr, type := TRX_VOTING, payload := .voting "ab" choice }

theorem exGovVote_len (c : Int) : VotedOptsI32 exGovS false (exGovVoteTx c) := by
  simp [VotedOptsI32, exGovVoteTx, exGovS_get, exGovProp]

example : Gen.GovCtrler_ValidateTrx (govCtrlOf exGovS) (exGovCtx (exGovVoteTx 1) 7) true exGovUnm id = .ok none := by
  rw [GovCtrler_ValidateTrx_voting exGovS false 7 (exGovVoteTx 1) (exGovCtx (exGovVoteTx 1) 7) exGovUnm id true
    rfl rfl rfl rfl (by decide) (exGovVote_len 1)]
  have hz : (byteLen zeroAddr == 20) = true ∧ isZeroAddr zeroAddr = true :=
    (govV_isZero_iff zeroAddr (by decide)).mpr rfl
  simp [validateVoting, exGovVoteTx, exGovS_get, hz, errOf, bind, Except.bind, pure, Except.pure, exGovProp]

example : Gen.GovCtrler_ValidateTrx (govCtrlOf exGovS) (exGovCtx (exGovVoteTx 2) 7) true exGovUnm id =
    .ok (some "ErrInvalidTrxPayloadParams") := by
  rw [GovCtrler_ValidateTrx_voting exGovS false 7 (exGovVoteTx 2) (exGovCtx (exGovVoteTx 2) 7) exGovUnm id true
    rfl rfl rfl rfl (by decide) (exGovVote_len 2)]
  have hz : (byteLen zeroAddr == 20) = true ∧ isZeroAddr zeroAddr = true :=
    (govV_isZero_iff zeroAddr (by decide)).mpr rfl
  simp [validateVoting, exGovVoteTx, exGovS_get, hz, errOf, bind, Except.bind, pure, Except.pure, exGovProp,
    throw, throwThe, MonadExceptOf.throw, govVoteLabel]

/-! ### differences -/

/-- Go's test of the `to` field whatever its length -/
theorem GovCtrler_ValidateTrx_proposal_toNonZero (c : GovCtrler) (tx : TxIn) (ctx : TrxContext)
    (unm : Hex → Option String) (hotfix : Hex → Hex) (iv : Bool) (htx : ctx.tx = trxOf tx)
    (hty : tx.type = TRX_PROPOSAL) (h : tx.to ≠ zeroAddr) :
    Gen.GovCtrler_ValidateTrx c ctx iv unm hotfix = .ok (some "ErrInvalidTrx") := by
  unfold Gen.GovCtrler_ValidateTrx
  cases hx : ctx.exec <;>
  · simp only [htx, Trx_GetType_eq, bind, Except.bind]
    simp [hty, TRX_PROPOSAL, trxOf, cmpBytes_eq_zero, zeroAddress20, h, pure, Except.pure]

/-- the model's test "20 bytes, all zero" and Go's comparison with the zero address differ exactly on the
    string of 41 zero digits (not a byte string) -/
theorem govV_toCheck_exact (h : Hex) :
    (decide (h ≠ zeroAddr) = !decide ((byteLen h == 20) = true ∧ isZeroAddr h = true)) ↔
      ¬ (h.length = 41 ∧ isZeroAddr h = true) := by
  by_cases hz : h = zeroAddr
  · have := (govV_allZero_iff h).mpr hz
    have h2 : byteLen h = 20 := by unfold byteLen; rw [this.2]
    subst hz
    simp [h2, this.1]
    rw [this.2]; decide
  · have h40 : ¬ (isZeroAddr h = true ∧ h.length = 40) := fun c => hz ((govV_allZero_iff h).mp c)
    unfold byteLen
    by_cases ha : isZeroAddr h = true
    · have : h.length ≠ 40 := fun c => h40 ⟨ha, c⟩
      simp only [hz, ha, ne_eq, not_false_eq_true, decide_true, and_true, beq_iff_eq]
      constructor
      · intro e c
        have : h.length / 2 = 20 := by omega
        simp [this] at e
      · intro c
        have : ¬ (h.length / 2 = 20) := by omega
        simp [this]
    · simp [hz, ha]

def exOddTo : Hex := "00000000000000000000000000000000000000000"

theorem exOddTo_zero : isZeroAddr exOddTo = true := by
  unfold isZeroAddr; rw [String.all_bool_eq]; decide

/-- **difference** (not a byte string, not reachable): `to` = 41 zero digits.  The model's test
    `byteLen to == 20 ∧ isZeroAddr to` passes and the model accepts the proposal, Go's
    `bytes.Compare(to, ZeroAddress()) != 0` refuses it.  A decoded transaction has an even number of hex digits. -/
theorem GovCtrler_ValidateTrx_differs_oddTo :
    ∃ (s : St) (tx : TxIn) (ctx : TrxContext) (unm : Hex → Option String) (hotfix : Hex → Hex),
      ctx.tx = trxOf tx ∧ ctx.txHash = tx.hash ∧ tx.type = TRX_PROPOSAL ∧
      OracleTied unm hotfix (govParamOpts tx.payload) ∧ ¬ EvenHex tx.to ∧
      Gen.GovCtrler_ValidateTrx (govCtrlOf s) ctx (s.isValidator tx.from_) unm hotfix = .ok (some "ErrInvalidTrx") ∧
      validateProposal s ctx.exec ctx.height tx = .ok s := by
  refine ⟨exGovS, { exGovTx1 with to := exOddTo }, exGovCtx { exGovTx1 with to := exOddTo } 7, exGovUnm, id,
    rfl, rfl, rfl, by decide, by decide, ?_, ?_⟩
  · exact GovCtrler_ValidateTrx_proposal_toNonZero _ { exGovTx1 with to := exOddTo } _ _ _ _ rfl rfl (by decide)
  · have hv : exGovS.isValidator exGovVal = true := by decide
    have hb : (byteLen exOddTo == 20) = true := by decide
    simp [validateProposal, exGovCtx, exGovTx1, exGovPropTx, exGovS_get_cd, hv, hb, exOddTo_zero, bind, Except.bind,
      pure, Except.pure, PROPOSAL_GOVPARAMS]
    simp [exGovS, govV_wrapI64_18, govV_wrapI64_23]

/-- 2^31 options -/
def exBigOpts : List VoteOpt := List.replicate 2147483648 { raw := "", parsedV := none, parsedA := none }

theorem exBigOpts_length : exBigOpts.length = 2147483648 := List.length_replicate

def exBigProp : Proposal := { exGovProp with options := exBigOpts }

def exBigS : St := { exGovS with props := { chk := ({} : KMap Proposal).insert (ledgerKey "ab") exBigProp } }

theorem exBigS_get : exBigS.props.get false (ledgerKey "ab") = some exBigProp := by
  simp [exBigS, Led.get]

theorem govV_wrapI32_big : wrapI32 (2147483648 : Int) = -2147483648 := by decide

/-- **difference** (not reachable: a proposal cannot carry 2^31 options): the proposal voted on has 2^31
    options and the vote is for option 0.  Go compares the choice with `int32(len(prop.Options))` = -2^31 and
    answers `ErrInvalidTrxPayloadParams`; the model compares with the length and accepts. -/
theorem GovCtrler_ValidateTrx_differs_int32 :
    ∃ (s : St) (tx : TxIn) (ctx : TrxContext) (unm : Hex → Option String) (hotfix : Hex → Hex),
      ctx.tx = trxOf tx ∧ ctx.txHash = tx.hash ∧ tx.type = TRX_VOTING ∧ EvenHex tx.to ∧
      ¬ VotedOptsI32 s ctx.exec tx ∧
      Gen.GovCtrler_ValidateTrx (govCtrlOf s) ctx (s.isValidator tx.from_) unm hotfix =
        .ok (some "ErrInvalidTrxPayloadParams") ∧
      validateVoting s ctx.exec ctx.height tx = .ok s := by
  have hz : (byteLen zeroAddr == 20) = true ∧ isZeroAddr zeroAddr = true :=
    (govV_isZero_iff zeroAddr (by decide)).mpr rfl
  refine ⟨exBigS, exGovVoteTx 0, exGovCtx (exGovVoteTx 0) 7, exGovUnm, id, rfl, rfl, rfl, by decide, ?_, ?_, ?_⟩
  · simp [VotedOptsI32, exGovCtx, exGovVoteTx, exBigS_get, exBigProp, exBigOpts_length]
  · rw [GovCtrler_ValidateTrx_votingI32 exBigS false 7 (exGovVoteTx 0) (exGovCtx (exGovVoteTx 0) 7) exGovUnm id _
      rfl rfl rfl rfl (by decide)]
    simp [validateVotingI32, exGovVoteTx, exBigS_get, hz, errOf, bind, Except.bind, pure, Except.pure, exBigProp,
      exGovProp, exBigOpts_length, govV_wrapI32_big, throw, throwThe, MonadExceptOf.throw, govVoteLabel]
  · simp [validateVoting, exGovCtx, exGovVoteTx, exBigS_get, hz, bind, Except.bind, pure, Except.pure, exBigProp,
      exGovProp, exBigOpts_length]

/-- one validator, voting period exactly 10 blocks, 10 blocks before applying -/
def exWrapS : St :=
  { exGovS with active := { (default : Params) with minVotingPeriodBlocks := 10, maxVotingPeriodBlocks := 10,
                                                    lazyApplyingBlocks := 10 } }

/-- voting from 2^63 - 11 for 10 blocks (end = 2^63 - 1), applying at 2^63 - 1 -/
def exWrapTx : TxIn :=
  { hash := "cd", from_ := exGovVal, to := zeroAddr, type := TRX_PROPOSAL,
    payload := .proposal "" 9223372036854775797 10 9223372036854775807 PROPOSAL_GOVPARAMS
      [{ raw := "7b7d", parsedV := some default, parsedA := some default }] }

theorem exWrapS_get_cd : exWrapS.props.get false (ledgerKey "cd") = none := exGovS_get_cd

theorem govV_wrapI64_ex1 : wrapInt64 9223372036854775807 = 9223372036854775807 := by decide
theorem govV_wrapI64_ex2 : wrapInt64 9223372036854775817 = -9223372036854775799 := by decide

/-- the model accepts the proposal: `minApplyingHeight` wraps to -2^63 + 9 -/
theorem exWrap_accepts : validateProposal exWrapS false 1 exWrapTx = .ok exWrapS := by
  have hv : exWrapS.isValidator exGovVal = true := by decide
  have hz : (byteLen zeroAddr == 20) = true ∧ isZeroAddr zeroAddr = true :=
    (govV_isZero_iff zeroAddr (by decide)).mpr rfl
  simp [validateProposal, exWrapTx, exWrapS_get_cd, hv, hz, bind, Except.bind, pure, Except.pure,
    PROPOSAL_GOVPARAMS, throw, throwThe, MonadExceptOf.throw, govV_wrapI64_ex1, govV_wrapI64_ex2]
  simp [exWrapS, govV_wrapI64_ex1, govV_wrapI64_ex2]

/-- **agreement on the former difference** (`GovCtrler_ValidateTrx_differs_wrap` before the model followed Go's
    int64 arithmetic).  REACHABLE input (any validator can submit it): the int64 addition
    `endVotingHeight + LazyApplyingBlocks()` is not guarded against overflow (the first addition,
    `StartVotingHeight + VotingPeriodBlocks`, is since issue #51).  Parameters: voting period 10..10,
    `lazyApplyingBlocks` 10; at height 1 a validator proposes start = 2^63 - 11, period 10, applying = 2^63 - 1.
    `endVotingHeight` = 2^63 - 1 fits, `minApplyingHeight` wraps to -2^63 + 9, so neither
    `applying < minApplyingHeight` nor `endVotingHeight > applying` holds: Go returns nil and the proposal is
    stored although `applying ≥ end + lazyApplyingBlocks` is violated (`¬ ProposalHeightsFit`).  The model now
    ACCEPTS it too (it used to answer "payloadparams").  Effect: the proposal can never open for voting
    (start ≈ 9.2e18) and stays in the proposal ledger forever.  (Confirmed on the real Go code by a probe.) -/
theorem GovCtrler_ValidateTrx_agrees_wrap :
    ∃ (s : St) (tx : TxIn) (ctx : TrxContext) (unm : Hex → Option String) (hotfix : Hex → Hex),
      ctx.tx = trxOf tx ∧ ctx.txHash = tx.hash ∧ tx.type = TRX_PROPOSAL ∧ EvenHex tx.to ∧
      OracleTied unm hotfix (govParamOpts tx.payload) ∧ ¬ ProposalHeightsFit s tx ∧ ¬ SumsFit s tx ∧
      Gen.GovCtrler_ValidateTrx (govCtrlOf s) ctx (s.isValidator tx.from_) unm hotfix = .ok none ∧
      validateProposal s ctx.exec ctx.height tx = .ok s ∧
      validateProposalOld s ctx.exec ctx.height tx = .error (.err "payloadparams") := by
  refine ⟨exWrapS, exWrapTx, exGovCtx exWrapTx 1, exGovUnm, id, rfl, rfl, rfl, by decide, by decide, by decide,
    by decide, ?_, exWrap_accepts, ?_⟩
  · rw [GovCtrler_ValidateTrx_proposal exWrapS false 1 exWrapTx (exGovCtx exWrapTx 1) exGovUnm id
      rfl rfl rfl rfl rfl (by decide) (by decide), exWrap_accepts]
    rfl
  · have hv : exWrapS.isValidator exGovVal = true := by decide
    have hz : (byteLen zeroAddr == 20) = true ∧ isZeroAddr zeroAddr = true :=
      (govV_isZero_iff zeroAddr (by decide)).mpr rfl
    simp [validateProposalOld, exGovCtx, exWrapTx, exWrapS_get_cd, hv, hz, bind, Except.bind, pure, Except.pure,
      PROPOSAL_GOVPARAMS, throw, throwThe, MonadExceptOf.throw]
    simp [exWrapS]

end Rigo.GenEq
