/-
  Round 3: `(*StakeCtrler).exeUnstaking` (ctrlers/stake/ctrler.go) = the model's `Rigo.execUnstaking`.

  * `unst_gen_core`      : the generated function past its checks, as ledger operations (no hypothesis on
                           the ledgers): frozen-ledger writes = the found stake first, then (self power 0)
                           the remaining stakes in list order; delete under `delegatee.Key()` when the total
                           is 0, with the read error of `Del` / `DelFinality` made explicit;
  * `unst_gen_*`         : the failure paths (controller unchanged);
  * `StakeCtrler_exeUnstaking_eq` : outcome for outcome against `execUnstaking`, under `DelegKeyOK`;
  * `StakeCtrler_exeUnstaking_differs` : the disagreement when `DelegKeyOK` fails.

  Points compared (all agree): the stake frozen is the FIRST stake with the payload's hash (`FindStake` /
  `findStake`), with `refund := height + lazyRewardBlocks`, under `ledgerKey st.hash`; `DelStake` removes that
  same first stake; with self power 0 every remaining stake is frozen in list order AFTER the found one
  (later writes win on equal keys: with several zero-hash genesis stakes the last one survives, in both);
  `DelAllStakes` leaves the self power alone; the delegatee is deleted / stored under `ledgerKey d.addr`
  (`delStake` / `delAllStakes` keep the address).
-/
import RigoProofs.GenFuncsCtrlBase

set_option linter.unusedSimpArgs false

namespace Rigo.GenEq
open Rigo Rigo.Gen

/-- mirror of the write-back loop -/
def unstL (e : Bool) (refund : Int) : List Stake → StakeCtrler × List Stake → StakeCtrler × List Stake
  | xs, (c, wb) =>
    ({ c with frozenLedger := xs.foldl (fun acc st => acc.set e (ledgerKey st.hash) { st with refund := refund }) c.frozenLedger },
     wb ++ xs.map (fun st => { st with refund := refund }))

theorem unst_foldl_ledOf (e : Bool) (refund : Int) (xs : List Stake) (fr : Led Stake) :
    xs.foldl (fun acc st => GLedger.set acc e (ledgerKey st.hash) { st with refund := refund }) (ledOf id fr) =
      ledOf id (freezeAll fr e xs refund) := by
  induction xs generalizing fr with
  | nil => rfl
  | cons x xs ih =>
    simp only [List.foldl_cons, freezeAll]
    have := ledOf_set id fr e (ledgerKey x.hash) { x with refund := refund }
    simp only [id] at this
    rw [this, ih]; rfl

theorem unst_FindStake (d : Delegatee) (hash : Hex) :
    ∃ i, Delegatee_FindStake d hash = .ok (i, d.findStake hash) := by
  have h := Delegatee_findStake_snd d hash
  unfold Delegatee_FindStake
  cases h' : Delegatee_findStake d hash with
  | error e => rw [h'] at h; simp [Except.map] at h
  | ok v =>
    rw [h'] at h; simp [Except.map] at h
    exact ⟨v.1, by simp [bind, Except.bind, pure, Except.pure, ← h]⟩

theorem unst_delStake_addr (d : Delegatee) (hash : Hex) : (d.delStake hash).addr = d.addr := by
  unfold Delegatee.delStake; split <;> rfl

/-- the frozen-ledger writes of the loop over the remaining stakes -/
def unstFreeze (e : Bool) (refund : Int) (xs : List Stake) (fl : GLedger Stake) : GLedger Stake :=
  xs.foldl (fun acc st => acc.set e (ledgerKey st.hash) { st with refund := refund }) fl

set_option hygiene false in
local macro "unst_core_tac" b:term : tactic => `(tactic| (
    simp only [toLedgerKey_eq] at *
    simp only [h1, h2, h3, h4, hi, hlen, hc, if_true, gnotFound_some, gassert, Delegatee_DelStake_eq, HexBytes_Compare_eq, Stake_Key_eq, Delegatee_Key_eq, Delegatee_DelAllStakes_eq, bind, Except.bind, pure, Except.pure, throw, throwThe, MonadExceptOf.throw, gderef, Bool.false_eq_true, if_false, Option.isSome_none, Option.isNone_some, ne_eq, not_true_eq_false]
    rw [forIn_eq_pure _ (unstL $b (ctx.height + lrb)) (by intro s; simp [unstL]) (by intro x xs ⟨c, wb⟩; simp [unstL, bind, Except.bind, pure, Except.pure])]
    simp only [pure, Except.pure, unstL, ha1, ha2, unstFreeze]
    cases hx : c.delegateeLedger.get $b (ledgerKey d.addr) <;>
    by_cases hs : (d.delStake txhash).self = 0 <;> by_cases ht : (d.delStake txhash).total = 0 <;>
      by_cases ht2 : (d.delStake txhash).delAllStakes.fst.total = 0 <;> simp [hs, ht, ht2]))

/-- the generated function past its checks, in terms of the ledgers' operations only: the found stake
    goes to the frozen ledger first, then (self power 0) the remaining stakes in list order; the delegatee
    is deleted under its own key when its total power is 0 — and this is the one place where an error
    can still come back (with the writes done): `Del` / `DelFinality` read the key first -/
theorem unst_gen_core (c : StakeCtrler) (ctx : TrxContext) (lrb : Int) (d : Delegatee) (st : Stake) (txhash : Hex)
    (e : Bool) (h1 : ctx.exec = e) (h2 : GLedger.get c.delegateeLedger e (ledgerKey ctx.tx.to) = some d)
    (h3 : TrxPayload.asUnstaking ctx.tx.payload = some ⟨txhash⟩)
    (hlen : ¬ (txhash = "" ∨ hexLen txhash ≠ 32))
    (h4 : d.findStake txhash = some st) (hown : ctx.tx.from_ = st.owner) :
    Gen.StakeCtrler_exeUnstaking c ctx lrb =
      .ok (let refund := ctx.height + lrb
           let d1 := d.delStake txhash
           let fr1 := c.frozenLedger.set e (ledgerKey st.hash) { st with refund := refund }
           let d2 := if d1.self = 0 then d1.delAllStakes.1 else d1
           let fr2 := if d1.self = 0 then unstFreeze e refund d1.delAllStakes.2 fr1 else fr1
           ({ c with delegateeLedger := if d2.total = 0 then c.delegateeLedger.del e (ledgerKey d.addr)
                                        else c.delegateeLedger.set e (ledgerKey d.addr) d2,
                     frozenLedger := fr2 },
            if d2.total = 0 then gnotFound (c.delegateeLedger.get e (ledgerKey d.addr)) else none)) := by
  unfold Gen.StakeCtrler_exeUnstaking
  obtain ⟨i, hi⟩ := unst_FindStake d txhash
  have hc : cmpBytes ctx.tx.from_ st.owner = 0 := (cmpBytes_eq_zero _ _).mpr hown
  have ha1 : (d.delStake txhash).delAllStakes.fst.addr = d.addr := unst_delStake_addr d txhash
  have ha2 := unst_delStake_addr d txhash
  cases e
  · unst_core_tac false
  · unst_core_tac true

/-! ### the failure paths of the generated function (the controller is returned unchanged) -/

theorem unst_gen_notfound (c : StakeCtrler) (ctx : TrxContext) (lrb : Int) (e : Bool) (h1 : ctx.exec = e)
    (h2 : GLedger.get c.delegateeLedger e (ledgerKey ctx.tx.to) = none) :
    Gen.StakeCtrler_exeUnstaking c ctx lrb = .ok (c, some "ErrNotFoundResult") := by
  unfold Gen.StakeCtrler_exeUnstaking
  cases e <;> simp [h1, h2, bind, Except.bind, pure, Except.pure]

theorem unst_gen_panic (c : StakeCtrler) (ctx : TrxContext) (lrb : Int) (e : Bool) (d : Delegatee) (h1 : ctx.exec = e)
    (h2 : GLedger.get c.delegateeLedger e (ledgerKey ctx.tx.to) = some d)
    (h3 : TrxPayload.asUnstaking ctx.tx.payload = none) :
    G.panics (Gen.StakeCtrler_exeUnstaking c ctx lrb) := by
  unfold Gen.StakeCtrler_exeUnstaking
  cases e <;> simp [h1, h2, h3, gassert, bind, Except.bind, pure, Except.pure, throw, throwThe, MonadExceptOf.throw]

theorem unst_gen_params (c : StakeCtrler) (ctx : TrxContext) (lrb : Int) (e : Bool) (d : Delegatee) (txhash : Hex)
    (h1 : ctx.exec = e) (h2 : GLedger.get c.delegateeLedger e (ledgerKey ctx.tx.to) = some d)
    (h3 : TrxPayload.asUnstaking ctx.tx.payload = some ⟨txhash⟩)
    (hlen : txhash = "" ∨ hexLen txhash ≠ 32) :
    Gen.StakeCtrler_exeUnstaking c ctx lrb = .ok (c, some "ErrInvalidTrxPayloadParams") := by
  unfold Gen.StakeCtrler_exeUnstaking
  cases e <;> simp [h1, h2, h3, hlen, gassert, bind, Except.bind, pure, Except.pure]

theorem unst_gen_nostake (c : StakeCtrler) (ctx : TrxContext) (lrb : Int) (e : Bool) (d : Delegatee) (txhash : Hex)
    (h1 : ctx.exec = e) (h2 : GLedger.get c.delegateeLedger e (ledgerKey ctx.tx.to) = some d)
    (h3 : TrxPayload.asUnstaking ctx.tx.payload = some ⟨txhash⟩)
    (hlen : ¬ (txhash = "" ∨ hexLen txhash ≠ 32)) (h4 : d.findStake txhash = none) :
    Gen.StakeCtrler_exeUnstaking c ctx lrb = .ok (c, some "ErrNotFoundStake") := by
  unfold Gen.StakeCtrler_exeUnstaking
  obtain ⟨i, hi⟩ := unst_FindStake d txhash
  cases e <;> simp [h1, h2, h3, h4, hi, hlen, gassert, gderef, bind, Except.bind, pure, Except.pure]

theorem unst_gen_notowner (c : StakeCtrler) (ctx : TrxContext) (lrb : Int) (e : Bool) (d : Delegatee) (txhash : Hex)
    (st : Stake) (h1 : ctx.exec = e) (h2 : GLedger.get c.delegateeLedger e (ledgerKey ctx.tx.to) = some d)
    (h3 : TrxPayload.asUnstaking ctx.tx.payload = some ⟨txhash⟩)
    (hlen : ¬ (txhash = "" ∨ hexLen txhash ≠ 32)) (h4 : d.findStake txhash = some st)
    (hown : ctx.tx.from_ ≠ st.owner) :
    Gen.StakeCtrler_exeUnstaking c ctx lrb = .ok (c, some "ErrNotFoundStake") := by
  unfold Gen.StakeCtrler_exeUnstaking
  obtain ⟨i, hi⟩ := unst_FindStake d txhash
  have hc : ¬ cmpBytes ctx.tx.from_ st.owner = 0 := fun h => hown ((cmpBytes_eq_zero _ _).mp h)
  cases e <;> simp [h1, h2, h3, h4, hi, hlen, hc, HexBytes_Compare_eq, gassert, gderef, bind, Except.bind, pure, Except.pure]

/-! ### the statement -/

/-- the Go error of each failure kind of the model's `execUnstaking` -/
def unstLabel (k : String) : Option String :=
  if k = "notfound" then some "ErrNotFoundResult"
  else if k = "payloadparams" then some "ErrInvalidTrxPayloadParams"
  else if k = "nostake" ∨ k = "notowner" then some "ErrNotFoundStake"
  else none

/-- the controller after the transaction: the delegatee and frozen ledgers of the new model state -/
def unstCtrl (c : StakeCtrler) (s' : St) : StakeCtrler :=
  { c with delegateeLedger := ledOf id s'.delegs, frozenLedger := ledOf id s'.frozen }

/-- Ledger invariant "an item is stored under its own key", for the one delegatee the transaction
    reads: the delegatee read under `ledgerKey tx.to` is readable under its own key `ledgerKey d.addr`
    (`delegatee.Key()`), which is where `Del` / `DelFinality` look it up again before deleting.  -/
def DelegKeyOK (s : St) (exec : Bool) (tx : TxIn) : Prop :=
  match s.delegs.get exec (ledgerKey tx.to) with
  | some d => (s.delegs.get exec (ledgerKey d.addr)).isSome = true
  | none => True

instance (s : St) (exec : Bool) (tx : TxIn) : Decidable (DelegKeyOK s exec tx) := by
  unfold DelegKeyOK; split <;> infer_instance

/-- the usual form of the invariant: the key of the stored delegatee is the key it is stored under -/
theorem delegKeyOK_of_key (s : St) (exec : Bool) (tx : TxIn)
    (h : ∀ d, s.delegs.get exec (ledgerKey tx.to) = some d → ledgerKey d.addr = ledgerKey tx.to) :
    DelegKeyOK s exec tx := by
  unfold DelegKeyOK
  split
  · next d hd => rw [h d hd, hd]; rfl
  · trivial

/-- `exeUnstaking(ctx)` with `ctx.GovHandler.LazyRewardBlocks()` = the active parameter: outcome for
    outcome the model's `execUnstaking`.  Success: no error and the controller of the model's new state
    (`unstCtrl`: the delegatee and frozen ledgers are the `ledOf` of the new ledgers, the rest untouched);
    a failure kind `k`: the Go error `unstLabel k` with the controller unchanged; the model's panic (the
    payload is not an unstaking payload: the unchecked type assertion): a Go panic. -/
theorem StakeCtrler_exeUnstaking_eq (c : StakeCtrler) (s : St) (exec : Bool) (height : Int) (tx : TxIn)
    (ctx : TrxContext) (hrel : StakeRel c s) (htx : ctx.tx = trxOf tx) (hex : ctx.exec = exec)
    (hh : ctx.height = height) (hkey : DelegKeyOK s exec tx) :
    match Rigo.execUnstaking s exec height tx with
    | .ok r => Gen.StakeCtrler_exeUnstaking c ctx s.active.lazyRewardBlocks = .ok (unstCtrl c r.st, none) ∧
                 StakeRel (unstCtrl c r.st) r.st
    | .error (.err k) => Gen.StakeCtrler_exeUnstaking c ctx s.active.lazyRewardBlocks = .ok (c, unstLabel k)
    | .error (.panic _) => G.panics (Gen.StakeCtrler_exeUnstaking c ctx s.active.lazyRewardBlocks) := by
  obtain ⟨ha, hl, hd, hf, hr, hlim⟩ := hrel
  have hto : ctx.tx.to = tx.to := by rw [htx]; rfl
  have hfrom : ctx.tx.from_ = tx.from_ := by rw [htx]; rfl
  have hpay : ctx.tx.payload = payOf tx.payload := by rw [htx]; rfl
  have hget : ∀ k, GLedger.get c.delegateeLedger exec k = s.delegs.get exec k := by
    intro k; rw [hd]; simp
  cases hg : s.delegs.get exec (ledgerKey tx.to) with
  | none =>
    have : Rigo.execUnstaking s exec height tx = .error (.err "notfound") := by
      unfold Rigo.execUnstaking; simp [hg, throw, throwThe, MonadExceptOf.throw]
    rw [this]
    exact unst_gen_notfound c ctx _ exec hex (by rw [hto, hget, hg])
  | some d =>
    have h2 : GLedger.get c.delegateeLedger exec (ledgerKey ctx.tx.to) = some d := by rw [hto, hget, hg]
    cases hp : tx.payload with
    | unstaking hash =>
      have h3 : TrxPayload.asUnstaking ctx.tx.payload = some ⟨hash⟩ := by rw [hpay, hp]; rfl
      by_cases hlen : byteLen hash ≠ 32
      · have : Rigo.execUnstaking s exec height tx = .error (.err "payloadparams") := by
          unfold Rigo.execUnstaking; simp [hg, hp, hlen, bind, Except.bind, throw, throwThe, MonadExceptOf.throw]
        rw [this]
        exact unst_gen_params c ctx _ exec d hash hex h2 h3 (Or.inr (by unfold hexLen; omega))
      · have hlen' : ¬ (hash = "" ∨ hexLen hash ≠ 32) := by
          intro h; rcases h with h | h
          · subst h; exact hlen (by decide)
          · unfold hexLen at h; omega
        cases h4 : d.findStake hash with
        | none =>
          have : Rigo.execUnstaking s exec height tx = .error (.err "nostake") := by
            unfold Rigo.execUnstaking; simp [hg, hp, hlen, h4, bind, Except.bind, pure, Except.pure, throw, throwThe, MonadExceptOf.throw]
          rw [this]
          exact unst_gen_nostake c ctx _ exec d hash hex h2 h3 hlen' h4
        | some st =>
          by_cases hown : tx.from_ ≠ st.owner
          · have : Rigo.execUnstaking s exec height tx = .error (.err "notowner") := by
              unfold Rigo.execUnstaking; simp [hg, hp, hlen, h4, hown, bind, Except.bind, pure, Except.pure, throw, throwThe, MonadExceptOf.throw]
            rw [this]
            exact unst_gen_notowner c ctx _ exec d hash st hex h2 h3 hlen' h4 (by rw [hfrom]; exact hown)
          · have hown' : ctx.tx.from_ = st.owner := by rw [hfrom]; exact Decidable.not_not.mp hown
            have hk : (GLedger.get c.delegateeLedger exec (ledgerKey d.addr)).isSome = true := by
              unfold DelegKeyOK at hkey; rw [hg] at hkey; rw [hget]; exact hkey
            obtain ⟨x, hx⟩ := Option.isSome_iff_exists.mp hk
            rw [unst_gen_core c ctx _ d st hash exec hex h2 h3 hlen' h4 hown', hx]
            unfold Rigo.execUnstaking
            simp only [hg, hp, hlen, h4, hown, bind, Except.bind, pure, Except.pure, if_false, hh]
            have ha1 : (d.delStake hash).delAllStakes.fst.addr = d.addr := unst_delStake_addr d hash
            have ha2 := unst_delStake_addr d hash
            have hset := fun k v => ledOf_set id s.delegs exec k v
            have hfset := fun k v => ledOf_set id s.frozen exec k v
            simp only [id] at hset hfset
            refine ⟨?_, ⟨ha, hl, rfl, rfl, hr, hlim⟩⟩
            by_cases hs : (d.delStake hash).self = 0 <;>
              by_cases ht : (d.delStake hash).total = 0 <;>
              by_cases ht2 : (d.delStake hash).delAllStakes.fst.total = 0 <;>
              simp only [hs, ht, ht2, if_true, if_false, gnotFound_some, unstCtrl, unstFreeze, hd, hf, ha1, ha2, hset, hfset,
                ledOf_del, unst_foldl_ledOf]
    | _ =>
      have h3 : TrxPayload.asUnstaking ctx.tx.payload = none := by rw [hpay, hp]; rfl
      have : ∃ m, Rigo.execUnstaking s exec height tx = .error (.panic m) := by
        unfold Rigo.execUnstaking; simp [hg, hp, throw, throwThe, MonadExceptOf.throw]
      obtain ⟨m, hm⟩ := this
      rw [hm]
      exact unst_gen_panic c ctx _ exec d hex h2 h3

/-- success of the model ↦ success of the Go code, on a controller of the model's new state -/
theorem StakeCtrler_exeUnstaking_ok (c : StakeCtrler) (s : St) (exec : Bool) (height : Int) (tx : TxIn)
    (ctx : TrxContext) (r : RunOut) (hrel : StakeRel c s) (htx : ctx.tx = trxOf tx) (hex : ctx.exec = exec)
    (hh : ctx.height = height) (hkey : DelegKeyOK s exec tx)
    (hm : Rigo.execUnstaking s exec height tx = .ok r) :
    ∃ c', Gen.StakeCtrler_exeUnstaking c ctx s.active.lazyRewardBlocks = .ok (c', none) ∧ StakeRel c' r.st := by
  have := StakeCtrler_exeUnstaking_eq c s exec height tx ctx hrel htx hex hh hkey
  rw [hm] at this
  exact ⟨_, this⟩

/-- every failure kind of the model has a Go error -/
theorem unst_model_kinds (s : St) (exec : Bool) (height : Int) (tx : TxIn) (k : String)
    (h : Rigo.execUnstaking s exec height tx = .error (.err k)) : (unstLabel k).isSome = true := by
  unfold Rigo.execUnstaking at h
  simp only [bind, Except.bind, pure, Except.pure, throw, throwThe, MonadExceptOf.throw] at h
  repeat' split at h
  all_goals first | (cases h; decide) | (cases h)

/-- the Go code returns no error exactly when the model succeeds -/
theorem StakeCtrler_exeUnstaking_ok_iff (c : StakeCtrler) (s : St) (exec : Bool) (height : Int) (tx : TxIn)
    (ctx : TrxContext) (hrel : StakeRel c s) (htx : ctx.tx = trxOf tx) (hex : ctx.exec = exec)
    (hh : ctx.height = height) (hkey : DelegKeyOK s exec tx) :
    (∃ r, Rigo.execUnstaking s exec height tx = .ok r) ↔
      ∃ c', Gen.StakeCtrler_exeUnstaking c ctx s.active.lazyRewardBlocks = .ok (c', none) := by
  have := StakeCtrler_exeUnstaking_eq c s exec height tx ctx hrel htx hex hh hkey
  cases hm : Rigo.execUnstaking s exec height tx with
  | ok r => rw [hm] at this; exact ⟨fun _ => ⟨_, this.1⟩, fun _ => ⟨r, rfl⟩⟩
  | error f =>
    rw [hm] at this
    cases f with
    | err k =>
      have hk := unst_model_kinds s exec height tx k hm
      simp only at this
      constructor
      · rintro ⟨r, hr⟩; cases hr
      · rintro ⟨c', hc⟩
        rw [this] at hc
        injection hc with hc
        have : unstLabel k = none := by injection hc
        rw [this] at hk; cases hk
    | panic m =>
      simp only at this
      constructor
      · rintro ⟨r, hr⟩; cases hr
      · rintro ⟨c', hc⟩
        obtain ⟨e, he⟩ := this
        rw [he] at hc; cases hc

/-! ### a concrete run: genesis-style stakes (all with the zero hash) -/

def unstAddr : Hex := "00000000000000000000000000000000000000aa"
def unstH3 : Hex := "1111111111111111111111111111111111111111111111111111111111111111"
/-- the validator's own stake and a delegated one, both with the zero hash (as the genesis stakes), and
    a later delegated stake -/
def unstS1 : Stake := { owner := unstAddr, to := unstAddr, hash := zeroHash, power := 10, start := 1 }
def unstS2 : Stake := { owner := "00000000000000000000000000000000000000bb", to := unstAddr, hash := zeroHash, power := 5, start := 1 }
def unstS3 : Stake := { owner := "00000000000000000000000000000000000000cc", to := unstAddr, hash := unstH3, power := 7, start := 5 }
def unstD : Delegatee := { addr := unstAddr, pub := "02", self := 10, total := 22, stakes := [unstS1, unstS2, unstS3] }
def unstS : St :=
  { delegs := ({} : Led Delegatee).set true (ledgerKey unstAddr) unstD
    active := { (default : Params) with lazyRewardBlocks := 20 } }
def unstTx : TxIn := { from_ := unstAddr, to := unstAddr, type := 3, payload := .unstaking zeroHash }
def unstCtx : TrxContext :=
  { height := 100, txHash := "", tx := trxOf unstTx, exec := true, senderPubKey := "",
    sender := { addr := unstAddr }, receiver := { addr := unstAddr }, gasUsed := 0, chainId := "c" }
def unstSl : StakeLimiter := { indi := 0, upd := 0, maxCnt := 0, objs := [], base := 0, updated := 0 }

example : DelegKeyOK unstS true unstTx := by decide

/-- the validator unstakes its (zero-hash) self stake: self power 0, all stakes are frozen, the total
    becomes 0 and the delegatee is deleted.  All hypotheses hold; the Go code succeeds and the frozen
    ledger holds, under the zero hash, the LAST zero-hash stake written (the delegator's; the
    validator's own stake, written first, is overwritten — in the model and in the Go code alike). -/
example : ∃ c', Gen.StakeCtrler_exeUnstaking (stakeCtrlOf unstS unstSl) unstCtx 20 = .ok (c', none) ∧
    c'.delegateeLedger.get true (ledgerKey unstAddr) = none ∧
    c'.frozenLedger.get true (ledgerKey zeroHash) = some { unstS2 with refund := 120 } ∧
    c'.frozenLedger.get true (ledgerKey unstH3) = some { unstS3 with refund := 120 } := by
  have hm : ∃ r, Rigo.execUnstaking unstS true 100 unstTx = .ok r ∧
      r.st.delegs.get true (ledgerKey unstAddr) = none ∧
      r.st.frozen.get true (ledgerKey zeroHash) = some { unstS2 with refund := 120 } ∧
      r.st.frozen.get true (ledgerKey unstH3) = some { unstS3 with refund := 120 } := by
    refine ⟨_, rfl, ?_, ?_, ?_⟩ <;> decide
  obtain ⟨r, hr, h1, h2, h3⟩ := hm
  have := StakeCtrler_exeUnstaking_eq (stakeCtrlOf unstS unstSl) unstS true 100 unstTx unstCtx
    (stakeRel_of _ _ rfl) rfl rfl rfl (by decide)
  rw [hr] at this
  exact ⟨_, this.1, by simp [unstCtrl, h1], by simp [unstCtrl, h2], by simp [unstCtrl, h3]⟩

/-! ### the difference excluded by `DelegKeyOK` -/

def unstBadTo : Hex := "00000000000000000000000000000000000000dd"
/-- a delegatee whose address is `…aa`, with one delegated stake -/
def unstBadD : Delegatee := { addr := unstAddr, pub := "02", self := 0, total := 7, stakes := [unstS3] }
/-- … stored under the key of the address `…dd` (no reachable state: `Set` stores under `Key()`) -/
def unstBadS : St :=
  { delegs := ({} : Led Delegatee).set true (ledgerKey unstBadTo) unstBadD
    active := { (default : Params) with lazyRewardBlocks := 20 } }
def unstBadTx : TxIn := { from_ := unstS3.owner, to := unstBadTo, type := 3, payload := .unstaking unstH3 }
def unstBadCtx : TrxContext := { unstCtx with tx := trxOf unstBadTx }

/-- Without `DelegKeyOK`: the delegatee read under `ledgerKey tx.to` carries another address; its last
    stake is unstaked, the total power becomes 0 and `DelFinality(delegatee.Key())` looks for a key that
    is not there.  The Go code returns `ErrNotFoundResult` (after the frozen-ledger write), the model,
    which deletes without reading, succeeds. -/
theorem StakeCtrler_exeUnstaking_differs :
    ∃ (s : St) (tx : TxIn) (ctx : TrxContext) (c c' : StakeCtrler) (r : RunOut),
      StakeRel c s ∧ ctx.tx = trxOf tx ∧ ctx.exec = true ∧ ctx.height = 100 ∧ ¬ DelegKeyOK s true tx ∧
      Rigo.execUnstaking s true 100 tx = .ok r ∧
      Gen.StakeCtrler_exeUnstaking c ctx s.active.lazyRewardBlocks = .ok (c', some "ErrNotFoundResult") := by
  have hgen : ∃ c', Gen.StakeCtrler_exeUnstaking (stakeCtrlOf unstBadS unstSl) unstBadCtx
      unstBadS.active.lazyRewardBlocks = .ok (c', some "ErrNotFoundResult") := by
    rw [unst_gen_core (stakeCtrlOf unstBadS unstSl) unstBadCtx _ unstBadD unstS3 unstH3 true rfl (by decide) rfl
      (by decide) (by decide) (by decide)]
    exact ⟨_, rfl⟩
  obtain ⟨c', hc'⟩ := hgen
  exact ⟨unstBadS, unstBadTx, unstBadCtx, stakeCtrlOf unstBadS unstSl, c', _, stakeRel_of _ _ rfl, rfl, rfl, rfl,
    by decide, rfl, hc'⟩

end Rigo.GenEq
