/-
  Equality theorems for the stake limiter, second part (ctrlers/stake/limiter.go):
  `checkUpdatablePowerLimit`, `checkLimit`, `CheckLimit`, `EvaluateLimit` against the model's
  `Limiter.check`, for ANY sort that satisfies the contract of `sort.Sort` (`SortOf`).

  * `sortOf_eq_mergeSort`: `objLess` is a strict total order on all of `Hex × Int`, so every
    admissible sort computes the model's `mergeSort`; `mergeSortOf` inhabits the contract.
  * `StakeLimiter_checkUpdatablePowerLimit_first` / `StakeLimiter_checkLimit_first` (no hypothesis):
    the Go code is the model's stages with the FIRST entry of the delegatee's address updated
    (`updFirst`; `findPowerObj` returns a pointer to the first match).
  * `…_eq` (hypothesis `ObjsDistinct`: one entry per address): the model updates EVERY entry with
    that address (`modelObjs`); the two agree when addresses are distinct
    (`updFirst_eq_modelObjs`), and differ otherwise (`StakeLimiter_checkLimit_differs`).
-/
import RigoProofs.GenFuncsLimiter
import RigoProofs.C01Sort

set_option linter.unusedSimpArgs false

namespace Rigo.GenEq
open Rigo Rigo.Gen Rigo.Determinism

/-! ### the order of the power objects: a strict total order on all of `Hex × Int` -/

/-- `Less(1, 0)` on the two-element list `[a, b]` is `objLess b a` -/
theorem orderedPowerObj_Less_pair (a b : Hex × Int) :
    orderedPowerObj_Less [a, b] 1 0 = .ok (Limiter.objLess b a) :=
  orderedPowerObj_Less_eq [a, b] 1 0 b a rfl rfl

theorem objLess_strictTotalAll (os : List (Hex × Int)) : StrictTotalOn Limiter.objLess os := by
  refine ⟨?_, ?_, ?_⟩
  · intro a _; simp [Limiter.objLess]
  · intro a _ b _ c _ h1 h2
    unfold Limiter.objLess at *
    by_cases e1 : a.2 = b.2 <;> by_cases e2 : b.2 = c.2 <;> simp_all
    all_goals repeat' split
    all_goals first
      | omega
      | exact String.lt_trans h2 h1
  · intro a _ b _ h
    unfold Limiter.objLess
    by_cases e1 : a.2 = b.2
    · have hne : a.1 ≠ b.1 := fun e => h (Prod.ext e e1)
      have := String.lt_or_gt_of_ne hne
      simp_all
      rcases this with h | h
      · exact Or.inr h
      · exact Or.inl h
    · have : ¬ b.2 = a.2 := fun e => e1 e.symm
      simp_all; omega

/-- the model's sort of the power objects -/
abbrev objSort (xs : List (Hex × Int)) : List (Hex × Int) :=
  xs.mergeSort (fun a b => Limiter.objLess a b || a == b)

/-- any sort that satisfies the contract of `sort.Sort` for `orderedPowerObj.Less` computes the
    model's `mergeSort` -/
theorem sortOf_eq_mergeSort (srt : SortOf orderedPowerObj_Less) (xs : List (Hex × Int)) :
    srt.sort xs = xs.mergeSort (fun a b => Limiter.objLess a b || a == b) := by
  refine sorted_perm_unique (lt := Limiter.objLess) (l := xs) (objLess_strictTotalAll xs).total ?_
    (sorted_mergeSort_ltOrEq (objLess_strictTotalAll xs)) (srt.perm xs) (List.mergeSort_perm _ _)
  unfold Sorted
  refine List.Pairwise.imp ?_ (srt.sorted xs)
  intro a b h
  rw [orderedPowerObj_Less_pair] at h
  cases hb : Limiter.objLess b a with
  | false => rfl
  | true => rw [hb] at h; exact absurd rfl h

/-- the contract is satisfiable: `mergeSort` -/
def mergeSortOf : SortOf orderedPowerObj_Less where
  sort := objSort
  perm := fun xs => List.mergeSort_perm _ _
  sorted := fun xs => by
    have h := sorted_mergeSort_ltOrEq (objLess_strictTotalAll xs)
    unfold Sorted at h
    refine List.Pairwise.imp ?_ h
    intro a b hab
    rw [orderedPowerObj_Less_pair, hab]
    intro h; cases h

/-! ### the verdict relation -/

/-- the generated result `g` (started on `sl`) corresponds to the model's verdict `v` -/
def LimiterMatches (g : G (StakeLimiter × Option String)) (sl : StakeLimiter) (v : Limiter.Verdict) : Prop :=
  match v with
  | .ok l => ∃ sl', g = .ok (sl', none) ∧ toLimiter sl' = l
  | .reject _ => ∃ e, g = .ok (sl, some e)
  | .panic _ => G.panics g

@[simp] theorem LimiterMatches_ok (g : G (StakeLimiter × Option String)) (sl : StakeLimiter) (l : Limiter) :
    LimiterMatches g sl (.ok l) ↔ ∃ sl', g = .ok (sl', none) ∧ toLimiter sl' = l := Iff.rfl
@[simp] theorem LimiterMatches_reject (g : G (StakeLimiter × Option String)) (sl : StakeLimiter) (w : String) :
    LimiterMatches g sl (.reject w) ↔ ∃ e, g = .ok (sl, some e) := Iff.rfl
@[simp] theorem LimiterMatches_panic (g : G (StakeLimiter × Option String)) (sl : StakeLimiter) (w : String) :
    LimiterMatches g sl (.panic w) ↔ G.panics g := Iff.rfl

/-! ### the updatable stage of the model, with the updated list as a parameter -/

/-- the part of `Limiter.check` after the individual stage; `objs'` is the list of power objects
    after the update of the delegatee's entry (before sorting) -/
def updStage (l : Limiter) (dAddr : Hex) (dTotal : Int) (diff : Int) (apply : Bool)
    (objs' : List (Hex × Int)) : Limiter.Verdict :=
  let ridx : Int := Limiter.idxOf l.objs dAddr
  let objPower : Int := ((l.objs.find? (·.1 == dAddr)).map (·.2)).getD dTotal
  if objPower ≠ dTotal then .reject "power-mismatch" else
  let u1 : Res Int :=
    if ridx ≥ 0 ∧ ridx < l.maxCnt ∧ diff < 0 then
      if (l.objs.length : Int) > l.maxCnt then
        match l.objs[l.maxCnt.toNat]? with
        | some cand => if objPower + diff < cand.2 then .ok (l.updated + objPower) else .ok (l.updated - diff)
        | none => .panic "limiter: index out of range"
      else .ok (l.updated - diff)
    else .ok l.updated
  match u1 with
  | .panic s => .panic s
  | .ok u1 =>
  let u2 : Res Int :=
    if (ridx < 0 ∨ ridx ≥ l.maxCnt) ∧ diff > 0 then
      if (l.objs.length : Int) ≥ l.maxCnt then
        if l.maxCnt - 1 < 0 then .panic "limiter: index out of range (maxValidatorCnt-1 < 0)" else
        match l.objs[(l.maxCnt - 1).toNat]? with
        | some lastVal => if objPower + diff > lastVal.2 then .ok (u1 + lastVal.2) else .ok u1
        | none => .panic "limiter: index out of range"
      else .ok u1
    else .ok u1
  match u2 with
  | .panic s => .panic s
  | .ok u2 =>
  if l.upd < (if l.base > 0 then Int.tdiv (u2 * 100) l.base else 0) then .reject "updatable" else
  if objPower + diff < 0 then .reject "negative" else
  if !apply then .ok l else
  .ok { l with objs := objs'.mergeSort (fun a b => Limiter.objLess a b || a == b), updated := u2 }

/-- the model's update: every entry with the delegatee's address -/
def modelObjs (objs : List (Hex × Int)) (dAddr : Hex) (diff : Int) : List (Hex × Int) :=
  if (objs.any (·.1 == dAddr)) then (objs.map fun o => if o.1 == dAddr then (o.1, o.2 + diff) else o) else objs

/-- the individual stage of the model -/
def indiStage (l : Limiter) (dTotal diff : Int) : Option Limiter.Verdict :=
  if diff ≤ 0 then none
  else if l.base + diff = 0 then some (.panic "limiter: division by zero (individual)")
  else if Int.tdiv ((dTotal + diff) * 100) (l.base + diff) > l.indi then some (.reject "individual") else none

/-- `Limiter.check` is: nil test, individual stage, updatable stage on the model's update -/
theorem check_eq_stages (l : Limiter) (dAddr : Hex) (dTotal diff : Int) (apply : Bool) :
    l.check dAddr dTotal diff apply =
      if l.isNil then .ok l else
      match indiStage l dTotal diff with
      | some v => v
      | none => updStage l dAddr dTotal diff apply (modelObjs l.objs dAddr diff) := rfl

/-- the Go update: the first entry with the delegatee's address (`findPowerObj` returns a pointer
    to it) -/
def updFirst (dAddr : Hex) (diff : Int) : List (Hex × Int) → List (Hex × Int)
  | [] => []
  | o :: os => if o.1 == dAddr then (o.1, o.2 + diff) :: os else o :: updFirst dAddr diff os

theorem idxOf_none (objs : List (Hex × Int)) (a : Hex) (h : objs.find? (·.1 == a) = none) :
    Limiter.idxOf objs a = -1 := by
  unfold Limiter.idxOf
  have : objs.findIdx? (·.1 == a) = none := by
    rw [List.findIdx?_eq_none_iff]; rw [List.find?_eq_none] at h; simpa using h
  rw [this]

theorem updFirst_none (objs : List (Hex × Int)) (a : Hex) (diff : Int) (h : objs.find? (·.1 == a) = none) :
    updFirst a diff objs = objs := by
  induction objs with
  | nil => rfl
  | cons o os ih =>
    rw [List.find?_cons] at h
    cases c : o.1 == a with
    | true => rw [c] at h; cases h
    | false => rw [c] at h; simp only [updFirst, c]; rw [ih h]; rfl

theorem isEmpty_mergeSort (xs : List (Hex × Int)) (le : Hex × Int → Hex × Int → Bool) :
    (xs.mergeSort le).isEmpty = xs.isEmpty := by
  have h := (List.mergeSort_perm xs le).length_eq
  generalize xs.mergeSort le = ys at h
  cases ys <;> cases xs <;> simp at h ⊢

theorem length_updFirst (a : Hex) (diff : Int) (objs : List (Hex × Int)) :
    (updFirst a diff objs).length = objs.length := by
  induction objs with
  | nil => rfl
  | cons o os ih => unfold updFirst; split <;> simp [ih]

theorem isEmpty_updFirst (a : Hex) (diff : Int) (objs : List (Hex × Int)) :
    (updFirst a diff objs).isEmpty = objs.isEmpty := by
  cases objs with
  | nil => rfl
  | cons o os => unfold updFirst; split <;> rfl

theorem gset_natCast {α : Type} (xs : List α) (k : Nat) (x : α) (h : k < xs.length) :
    gset xs (k : Int) x = .ok (xs.set k x) := by
  unfold gset
  have : ¬ ((k : Int) < 0 ∨ (xs.length : Int) ≤ (k : Int)) := by omega
  simp [this, h, pure, Except.pure]

theorem find_some_facts (objs : List (Hex × Int)) (a : Hex) (diff : Int) (o : Hex × Int)
    (h : objs.find? (·.1 == a) = some o) :
    ∃ k : Nat, objs.findIdx? (·.1 == a) = some k ∧ k < objs.length ∧
      objs.set k (o.1, o.2 + diff) = updFirst a diff objs := by
  induction objs with
  | nil => cases h
  | cons x xs ih =>
    rw [List.find?_cons] at h
    cases c : x.1 == a with
    | true =>
      rw [c] at h
      cases h
      exact ⟨0, by simp [List.findIdx?_cons, c], by simp, by simp [updFirst, c]⟩
    | false =>
      rw [c] at h
      obtain ⟨k, h1, h2, h3⟩ := ih h
      exact ⟨k + 1, by simp [List.findIdx?_cons, c, h1], by simp; omega, by simp [updFirst, c, h3]⟩

set_option hygiene false in
/-- the common end of `checkUpdatablePowerLimit`: ratio test, negative test, `apply`, update and sort -/
macro "lim_tail" : tactic => `(tactic| (
  by_cases hb : 0 < sl.base
  · have hb0 : ¬ sl.base = 0 := by omega
    simp only [hb, hb0, if_true, if_false]
    split
    · simp
    · split
      · simp
      · cases apply
        · simp [toLimiter]
        · simp [toLimiter, isEmpty_mergeSort, isEmpty_updFirst]
  · simp only [hb, if_true, if_false]
    split
    · simp
    · split
      · simp
      · cases apply
        · simp [toLimiter]
        · simp [toLimiter, isEmpty_mergeSort, isEmpty_updFirst]))

/-- `checkUpdatablePowerLimit` = the updatable stage of the model, on the list in which the FIRST
    entry with the delegatee's address is updated -/
theorem StakeLimiter_checkUpdatablePowerLimit_first (sl : StakeLimiter) (d : Delegatee) (diff : Int)
    (apply : Bool) (srt : SortOf orderedPowerObj_Less) :
    LimiterMatches (StakeLimiter_checkUpdatablePowerLimit sl d diff apply srt) sl
      (updStage (toLimiter sl) d.addr d.total diff apply (updFirst d.addr diff sl.objs)) := by
  unfold StakeLimiter_checkUpdatablePowerLimit
  dsimp only
  rw [StakeLimiter_findPowerObj_model]
  simp only [bind, Except.bind, pure, Except.pure, throw, throwThe, MonadExceptOf.throw, sortOf_eq_mergeSort]
  cases hf : sl.objs.find? (·.1 == d.addr) with
  | none =>
    have hr := idxOf_none _ _ hf
    have hu := updFirst_none _ _ diff hf
    unfold updStage
    simp only [hr, hu, gderef, toLimiter, hf, Option.isNone_none, Option.isSome_some, Option.isSome_none, if_true, if_false,
      bind, Except.bind, pure, Except.pure, throw, throwThe, MonadExceptOf.throw, gdiv, gidx]
    by_cases h2 : diff > 0
    · by_cases h3 : (sl.objs.length : Int) ≥ sl.maxCnt
      · by_cases h4 : sl.maxCnt - 1 < 0
        · simp [h2, h3, h4]
        · cases h5 : sl.objs[(sl.maxCnt-1).toNat]? with
          | none => simp [h2, h3, h4, h5]
          | some lv =>
            by_cases h6 : d.total + diff > lv.2
            · simp [h2, h3, h4, h5, h6]
              lim_tail
            · simp [h2, h3, h4, h5, h6]
              lim_tail
      · simp [h2, h3]
        lim_tail
    · simp [h2]
      lim_tail
  | some o =>
    obtain ⟨k, hk, hlt, hset⟩ := find_some_facts _ _ diff _ hf
    have hr : Limiter.idxOf sl.objs d.addr = (k : Int) := by unfold Limiter.idxOf; rw [hk]; rfl
    have hgs := gset_natCast sl.objs k (o.1, o.2 + diff) hlt
    have hk0 : (k : Int) ≥ 0 := by omega
    have hk0' : ¬ (k : Int) < 0 := by omega
    unfold updStage
    simp only [hr, hgs, hset, hk0, hk0', gderef, toLimiter, hf, Option.isNone_some, Option.isSome_some, Option.isSome_none, if_true, if_false,
      Option.map_some, Option.getD_some, true_and, false_or, Bool.false_eq_true,
      bind, Except.bind, pure, Except.pure, throw, throwThe, MonadExceptOf.throw, gdiv, gidx]
    by_cases hm : o.2 = d.total
    · by_cases h1 : diff < 0
      · have h2 : ¬ diff > 0 := by omega
        have e : sl.updated + -1 * diff = sl.updated - diff := by omega
        have e' : sl.updated + -diff = sl.updated - diff := by omega
        by_cases h3 : (k : Int) < sl.maxCnt
        · have hmx : ¬ sl.maxCnt < 0 := by omega
          by_cases h4 : (sl.objs.length : Int) > sl.maxCnt
          · cases h5 : sl.objs[sl.maxCnt.toNat]? with
            | none => simp [hm, h1, h2, h3, h4, h5, hmx]
            | some cand =>
              by_cases h6 : d.total + diff < cand.2
              · simp [hm, h1, h2, h3, h4, h5, h6, hmx]
                lim_tail
              · simp [hm, h1, h2, h3, h4, h5, h6, hmx, e, e']
                lim_tail
          · simp [hm, h1, h2, h3, h4, e, e']
            lim_tail
        · simp [hm, h1, h2, h3]
          lim_tail
      · by_cases h2 : diff > 0
        · by_cases h3 : (k : Int) ≥ sl.maxCnt
          · by_cases h4 : (sl.objs.length : Int) ≥ sl.maxCnt
            · by_cases h7 : sl.maxCnt - 1 < 0
              · simp [hm, h1, h2, h3, h4, h7]
              · cases h5 : sl.objs[(sl.maxCnt - 1).toNat]? with
                | none => simp [hm, h1, h2, h3, h4, h5, h7]
                | some lv =>
                  by_cases h6 : d.total + diff > lv.2
                  · simp [hm, h1, h2, h3, h4, h5, h6, h7]
                    lim_tail
                  · simp [hm, h1, h2, h3, h4, h5, h6, h7]
                    lim_tail
            · simp [hm, h1, h2, h3, h4]
              lim_tail
          · simp [hm, h1, h2, h3]
            lim_tail
        · simp [hm, h1, h2]
          lim_tail
    · simp [hm]

/-! ### first entry vs every entry: equal when the addresses are distinct -/

/-- one entry per address (as `reset` builds them from a ledger keyed by address) -/
def ObjsDistinct (sl : StakeLimiter) : Prop := (sl.objs.map (·.1)).Nodup
instance (sl : StakeLimiter) : Decidable (ObjsDistinct sl) := inferInstanceAs (Decidable (List.Nodup _))

theorem map_upd_of_not_mem (a : Hex) (diff : Int) (os : List (Hex × Int)) (h : a ∉ os.map (·.1)) :
    (os.map fun o => if o.1 == a then (o.1, o.2 + diff) else o) = os := by
  induction os with
  | nil => rfl
  | cons x xs ih =>
    simp only [List.map_cons, List.mem_cons, not_or] at h
    have c : (x.1 == a) = false := by
      cases c : x.1 == a with
      | false => rfl
      | true => exact absurd (beq_iff_eq.mp c).symm h.1
    simp only [List.map_cons, c]
    rw [ih h.2]; rfl

theorem updFirst_eq_modelObjs (a : Hex) (diff : Int) (os : List (Hex × Int)) (nd : (os.map (·.1)).Nodup) :
    updFirst a diff os = modelObjs os a diff := by
  have hm : modelObjs os a diff = os.map fun o => if o.1 == a then (o.1, o.2 + diff) else o := by
    unfold modelObjs
    split
    · rfl
    · rename_i hany
      symm; apply map_upd_of_not_mem
      intro hmem
      apply hany
      obtain ⟨o, ho, e⟩ := List.mem_map.mp hmem
      exact List.any_eq_true.mpr ⟨o, ho, by simpa using e⟩
  rw [hm]
  clear hm
  induction os with
  | nil => rfl
  | cons x xs ih =>
    simp only [List.map_cons, List.nodup_cons] at nd
    cases c : x.1 == a with
    | true =>
      have e : x.1 = a := beq_iff_eq.mp c
      simp only [updFirst, List.map_cons, c, if_true]
      rw [map_upd_of_not_mem a diff xs (e ▸ nd.1)]
    | false =>
      simp only [updFirst, List.map_cons, c]
      rw [ih nd.2]; rfl

/-! ### the four functions -/

/-- `checkUpdatablePowerLimit` = the updatable stage of `Limiter.check` (`check_eq_stages`) -/
theorem StakeLimiter_checkUpdatablePowerLimit_eq (sl : StakeLimiter) (d : Delegatee) (diff : Int)
    (apply : Bool) (srt : SortOf orderedPowerObj_Less) (hd : ObjsDistinct sl) :
    LimiterMatches (StakeLimiter_checkUpdatablePowerLimit sl d diff apply srt) sl
      (updStage (toLimiter sl) d.addr d.total diff apply (modelObjs (toLimiter sl).objs d.addr diff)) := by
  have h := StakeLimiter_checkUpdatablePowerLimit_first sl d diff apply srt
  rw [updFirst_eq_modelObjs _ _ _ hd] at h
  exact h

/-- the error plumbing of `checkLimit` / `CheckLimit` / `EvaluateLimit` around a result -/
theorem LimiterMatches_wrap (g : G (StakeLimiter × Option String)) (sl : StakeLimiter) (v : Limiter.Verdict) :
    LimiterMatches g sl v →
    LimiterMatches (Except.bind g fun r =>
      if r.snd.isSome = true then Except.ok (r.fst, r.snd) else Except.ok (r.fst, none)) sl v := by
  intro h
  cases v with
  | ok l =>
    obtain ⟨sl', e, ht⟩ := h
    subst e
    exact ⟨sl', by simp [Except.bind], ht⟩
  | reject w =>
    obtain ⟨e, he⟩ := h
    subst he
    exact ⟨e, by simp [Except.bind]⟩
  | panic w =>
    obtain ⟨e, he⟩ := h
    subst he
    exact ⟨e, rfl⟩

theorem LimiterMatches_wrap' (g : G (StakeLimiter × Option String)) (sl : StakeLimiter) (v : Limiter.Verdict) :
    LimiterMatches g sl v →
    LimiterMatches (Except.bind g fun r => Except.ok (r.fst, r.snd)) sl v := by
  intro h
  have e : (Except.bind g fun r => Except.ok (r.fst, r.snd)) = g := by
    cases g <;> rfl
  rw [e]; exact h

/-- `checkLimit` in terms of the FIRST-entry update, without any hypothesis -/
theorem StakeLimiter_checkLimit_first (sl : StakeLimiter) (d : Delegatee) (diff : Int)
    (apply : Bool) (srt : SortOf orderedPowerObj_Less) :
    LimiterMatches (StakeLimiter_checkLimit sl d diff apply srt) sl
      (if sl.objs.isEmpty then .ok (toLimiter sl) else
       match indiStage (toLimiter sl) d.total diff with
       | some v => v
       | none => updStage (toLimiter sl) d.addr d.total diff apply (updFirst d.addr diff sl.objs)) := by
  have hu := LimiterMatches_wrap _ _ _ (StakeLimiter_checkUpdatablePowerLimit_first sl d diff apply srt)
  have hi := StakeLimiter_checkIndividualPowerLimit_eq sl d diff
  have eb : (toLimiter sl).base = sl.base := rfl
  have ei : (toLimiter sl).indi = sl.indi := rfl
  unfold StakeLimiter_checkLimit
  dsimp only
  simp only [bind, Except.bind, pure, Except.pure]
  cases hn : sl.objs.isEmpty with
  | true => simp
  | false =>
    simp only [Bool.false_eq_true, if_false]
    unfold indiStage
    simp only [eb, ei]
    by_cases h1 : diff ≤ 0
    · simp only [h1, if_true, G.matches_ok] at hi
      simp only [hi, h1, if_true, Option.isSome_none, Bool.false_eq_true, if_false]
      exact hu
    · by_cases h2 : sl.base + diff = 0
      · simp only [h1, h2, if_true, if_false, G.matches_panic] at hi
        obtain ⟨e, he⟩ := hi
        simp [he, h1, h2]
      · by_cases h3 : Int.tdiv ((d.total + diff) * 100) (sl.base + diff) > sl.indi
        · simp only [h1, h2, h3, if_true, if_false, G.matches_ok] at hi
          simp [hi, h1, h2, h3]
        · simp only [h1, h2, h3, if_false, G.matches_ok] at hi
          simp only [hi, h1, h2, h3, if_false, Option.isSome_none, Bool.false_eq_true]
          exact hu

/-- `checkLimit(delg, changePower, apply)` = `Limiter.check` -/
theorem StakeLimiter_checkLimit_eq (sl : StakeLimiter) (d : Delegatee) (diff : Int)
    (apply : Bool) (srt : SortOf orderedPowerObj_Less) (hd : ObjsDistinct sl) :
    LimiterMatches (StakeLimiter_checkLimit sl d diff apply srt) sl
      ((toLimiter sl).check d.addr d.total diff apply) := by
  have h := StakeLimiter_checkLimit_first sl d diff apply srt
  rw [updFirst_eq_modelObjs _ _ _ hd] at h
  rw [check_eq_stages]
  exact h

/-- `CheckLimit` = `Limiter.check … true` -/
theorem StakeLimiter_CheckLimit_eq (sl : StakeLimiter) (d : Delegatee) (diff : Int)
    (srt : SortOf orderedPowerObj_Less) (hd : ObjsDistinct sl) :
    LimiterMatches (StakeLimiter_CheckLimit sl d diff srt) sl
      ((toLimiter sl).check d.addr d.total diff true) := by
  unfold StakeLimiter_CheckLimit
  dsimp only
  simp only [bind, Except.bind, pure, Except.pure]
  exact LimiterMatches_wrap' _ _ _ (StakeLimiter_checkLimit_eq sl d diff true srt hd)

/-- `EvaluateLimit` = `Limiter.check … false` (the limiter is left unchanged) -/
theorem StakeLimiter_EvaluateLimit_eq (sl : StakeLimiter) (d : Delegatee) (diff : Int)
    (srt : SortOf orderedPowerObj_Less) (hd : ObjsDistinct sl) :
    LimiterMatches (StakeLimiter_EvaluateLimit sl d diff srt) sl
      ((toLimiter sl).check d.addr d.total diff false) := by
  unfold StakeLimiter_EvaluateLimit
  dsimp only
  simp only [bind, Except.bind, pure, Except.pure]
  exact LimiterMatches_wrap' _ _ _ (StakeLimiter_checkLimit_eq sl d diff false srt hd)


/-! ### the hypothesis `ObjsDistinct` is needed -/

/-- two entries with the same address -/
def dupSl : StakeLimiter :=
  { indi := 1000, upd := 100, maxCnt := 5, objs := [("aa", 5), ("aa", 5)], base := 10, updated := 0 }
def dupD : Delegatee := { addr := "aa", pub := "01", total := 5 }

example : ¬ ObjsDistinct dupSl := by decide

theorem dup_first (X : List (Hex × Int)) :
    (if dupSl.objs.isEmpty then Limiter.Verdict.ok (toLimiter dupSl) else
       match indiStage (toLimiter dupSl) dupD.total (-1) with
       | some v => v
       | none => updStage (toLimiter dupSl) dupD.addr dupD.total (-1) true X) =
      .ok { toLimiter dupSl with objs := objSort X, updated := 1 } := by
  simp [dupSl, dupD, indiStage, updStage, toLimiter, Limiter.idxOf, List.findIdx?_cons, objSort]

/-- with a repeated address the Go code (first entry updated) and the model (every entry updated)
    differ: `ObjsDistinct` cannot be dropped from `StakeLimiter_checkLimit_eq` -/
theorem StakeLimiter_checkLimit_differs : ∃ sl d diff srt, ¬ ObjsDistinct sl ∧
    ¬ LimiterMatches (StakeLimiter_checkLimit sl d diff true srt) sl
        ((toLimiter sl).check d.addr d.total diff true) := by
  refine ⟨dupSl, dupD, -1, mergeSortOf, by decide, ?_⟩
  have h1 := StakeLimiter_checkLimit_first dupSl dupD (-1) true mergeSortOf
  rw [check_eq_stages]
  have en : (toLimiter dupSl).isNil = dupSl.objs.isEmpty := rfl
  rw [en, dup_first] at *
  intro h2
  obtain ⟨s1, e1, t1⟩ := h1
  obtain ⟨s2, e2, t2⟩ := h2
  rw [e1] at e2
  cases e2
  rw [t1] at t2
  have ho := congrArg Limiter.objs t2
  simp only [objSort] at ho
  have hp : (updFirst dupD.addr (-1) dupSl.objs).Perm (modelObjs (toLimiter dupSl).objs dupD.addr (-1)) :=
    (List.mergeSort_perm _ _).symm.trans (by rw [ho]; exact List.mergeSort_perm _ _)
  have hmem : (("aa", 5) : Hex × Int) ∈ updFirst dupD.addr (-1) dupSl.objs := by
    simp [updFirst, dupD, dupSl]
  have := hp.subset hmem
  simp [modelObjs, toLimiter, dupD, dupSl] at this

/-! ### examples -/

def exSl : StakeLimiter :=
  { indi := 50, upd := 50, maxCnt := 2, objs := [("cc", 30), ("bb", 20), ("aa", 10)], base := 50, updated := 0 }
def exD : Delegatee := { addr := "aa", pub := "01", total := 10 }

example : ObjsDistinct exSl := by decide

/-- the model's verdict on the example: "aa" (outside the 2 validators) gains 15 and overtakes "bb" -/
theorem ex_check : (toLimiter exSl).check exD.addr exD.total 15 true =
    .ok { toLimiter exSl with objs := objSort [("cc", 30), ("bb", 20), ("aa", 25)], updated := 20 } := by
  simp [Limiter.check, exSl, exD, toLimiter, Limiter.idxOf, List.findIdx?_cons, objSort]

/-- hence the generated `CheckLimit`, with whatever sort -/
example (srt : SortOf orderedPowerObj_Less) :
    ∃ sl', StakeLimiter_CheckLimit exSl exD 15 srt = .ok (sl', none) ∧ sl'.updated = 20 ∧
      sl'.objs = objSort [("cc", 30), ("bb", 20), ("aa", 25)] := by
  have h := StakeLimiter_CheckLimit_eq exSl exD 15 srt (by decide)
  rw [ex_check] at h
  obtain ⟨sl', e, t⟩ := h
  exact ⟨sl', e, congrArg Limiter.updated t, congrArg Limiter.objs t⟩

/-- a rejected change leaves the limiter as it was -/
example (srt : SortOf orderedPowerObj_Less) :
    ∃ e, StakeLimiter_EvaluateLimit exSl exD (-11) srt = .ok (exSl, some e) := by
  have h := StakeLimiter_EvaluateLimit_eq exSl exD (-11) srt (by decide)
  have ev : (toLimiter exSl).check exD.addr exD.total (-11) false = .reject "negative" := by
    simp [Limiter.check, exSl, exD, toLimiter, Limiter.idxOf, List.findIdx?_cons]
  rw [ev] at h
  exact h

end Rigo.GenEq
