/-
  C07 (part 1): what `restart` rebuilds, the cache-coherence invariant at block boundaries, and
  `restart s ≈ s` at a boundary.

  `restart` reopens every ledger on its last committed version (`fin = chk = committed`), reloads the
  active parameters from the committed parameter ledger, resets `pending`, `blk`, and the two
  in-memory stake-controller fields that are NOT persisted: `allDelegs := []`, `limiter := {}`.
  (`lastVals` IS persisted since the repair 4e17cf4 and survives.)  The application hash is a function
  of the committed ledger versions (IAVL roots are not modelled), so "reports that block's height and
  application hash" is: `lastHeight` and every `hist` are unchanged.
-/
import RigoProofs.C06Isolation
import RigoProofs.C19Query
import RigoProofs.C15Majority

namespace Rigo
namespace C07

open C06 (eraseChk consEq E)

/-- overwrite the two volatile stake-controller fields -/
def W (A : List Delegatee) (L : Limiter) (s : St) : St := { s with allDelegs := A, limiter := L }

/-- the state without the mempool views and without the two in-memory stake-controller fields that
    `restart` resets -/
def eraseVolatile (s : St) : St := W [] {} (eraseChk s)

/-- agreement on everything except `chk` views, `allDelegs`, `limiter` -/
def volEq (s₁ s₂ : St) : Prop := eraseVolatile s₁ = eraseVolatile s₂

theorem volEq.refl (s : St) : volEq s s := rfl
theorem volEq.symm {a b : St} (h : volEq a b) : volEq b a := Eq.symm h
theorem volEq.trans {a b c : St} (h₁ : volEq a b) (h₂ : volEq b c) : volEq a c := Eq.trans h₁ h₂

theorem volEq_of_consEq {a b : St} (h : consEq a b) : volEq a b := by
  unfold volEq eraseVolatile; rw [show eraseChk a = eraseChk b from h]

/-! ### what restart keeps and rebuilds -/

theorem restart_keeps_committed (s : St) :
    (restart s).lastHeight = s.lastHeight ∧
    (restart s).accts.hist = s.accts.hist ∧ (restart s).delegs.hist = s.delegs.hist ∧
    (restart s).frozen.hist = s.frozen.hist ∧ (restart s).rewards.hist = s.rewards.hist ∧
    (restart s).params.hist = s.params.hist ∧ (restart s).props.hist = s.props.hist ∧
    (restart s).fprops.hist = s.fprops.hist := ⟨rfl, rfl, rfl, rfl, rfl, rfl, rfl, rfl⟩

theorem restart_views (s : St) :
    (restart s).accts.fin = s.accts.committed ∧ (restart s).accts.chk = s.accts.committed ∧
    (restart s).delegs.fin = s.delegs.committed ∧ (restart s).delegs.chk = s.delegs.committed ∧
    (restart s).params.fin = s.params.committed ∧ (restart s).props.fin = s.props.committed ∧
    (restart s).pending = none ∧ (restart s).blk = none ∧ (restart s).lastVals = s.lastVals :=
  ⟨rfl, rfl, rfl, rfl, rfl, rfl, rfl, rfl, rfl⟩

/-- `restart` only looks at the non-volatile part -/
theorem restart_eraseVolatile (s : St) : eraseChk (restart s) = eraseChk (restart (eraseVolatile s)) := rfl

theorem restart_consEq_of_volEq {a b : St} (h : volEq a b) : consEq (restart a) (restart b) := by
  show eraseChk (restart a) = eraseChk (restart b)
  rw [restart_eraseVolatile a, restart_eraseVolatile b, show eraseVolatile a = eraseVolatile b from h]

/-! ### cache coherence at block boundaries -/

/-- every consensus view is the last committed version and no parameter change is pending -/
structure Coherent (s : St) : Prop where
  accts : s.accts.fin = s.accts.committed
  delegs : s.delegs.fin = s.delegs.committed
  frozen : s.frozen.fin = s.frozen.committed
  rewards : s.rewards.fin = s.rewards.committed
  params : s.params.fin = s.params.committed
  props : s.props.fin = s.props.committed
  fprops : s.fprops.fin = s.fprops.committed
  pending : s.pending = none

/-- between blocks: no open block, and (once something was committed) coherent -/
def Idle (s : St) : Prop := s.blk = none ∧ (1 ≤ s.lastHeight → Coherent s)

def PhaseInv : Phase → St → Prop
  | .idle, s => Idle s
  | _, s => Idle s ∨ s.blk.isSome = true

theorem coherent_of_consEq {a b : St} (h : consEq a b) (hb : Coherent b) : Coherent a := by
  have h' : eraseChk a = eraseChk b := h
  have e1 := congrArg (fun s => (s.accts.fin, s.accts.hist)) h'
  have e2 := congrArg (fun s => (s.delegs.fin, s.delegs.hist)) h'
  have e3 := congrArg (fun s => (s.frozen.fin, s.frozen.hist)) h'
  have e4 := congrArg (fun s => (s.rewards.fin, s.rewards.hist)) h'
  have e5 := congrArg (fun s => (s.params.fin, s.params.hist)) h'
  have e6 := congrArg (fun s => (s.props.fin, s.props.hist)) h'
  have e7 := congrArg (fun s => (s.fprops.fin, s.fprops.hist)) h'
  have e8 := congrArg (fun s => s.pending) h'
  simp only [eraseChk, Prod.mk.injEq] at e1 e2 e3 e4 e5 e6 e7 e8
  obtain ⟨c1, c2, c3, c4, c5, c6, c7, c8⟩ := hb
  refine ⟨?_, ?_, ?_, ?_, ?_, ?_, ?_, ?_⟩ <;> simp_all [Led.committed]

theorem idle_of_consEq {a b : St} (h : consEq a b) (hb : Idle b) : Idle a := by
  have h' : eraseChk a = eraseChk b := h
  have e1 : a.blk = b.blk := congrArg (fun s => s.blk) h'
  have e2 : a.lastHeight = b.lastHeight := congrArg (fun s => s.lastHeight) h'
  exact ⟨e1.trans hb.1, fun hl => coherent_of_consEq h (hb.2 (e2 ▸ hl))⟩

theorem blk_of_frame {a b : St} (h : C19.frame a = C19.frame b) : a.blk.isSome = b.blk.isSome := by
  have := congrArg C19.Frame.blkHeight h
  simp only [C19.frame] at this
  cases ha : a.blk <;> cases hb : b.blk <;> simp_all

theorem deliverTx_noblk (s : St) (tx : TxIn) (hb : s.blk = none) :
    deliverTx s tx = (s, { panic := "DeliverTx outside a block" }) := by
  unfold deliverTx; rw [hb]

theorem endBlock_noblk (s : St) (hb : s.blk = none) :
    endBlock s = (s, { panic := "EndBlock outside a block" }) := by
  unfold endBlock; rw [hb]

theorem commit_noblk (s : St) (hb : s.blk = none) :
    commit s = (s, { panic := "Commit outside a block" }) := by
  unfold commit; rw [hb]

theorem beginBlock_refused (s : St) (h : Header) (hh : h.height ≠ s.lastHeight + 1) :
    beginBlock s h = (s, { panic := "BeginBlock: error block height" }) := by
  rw [C06.beginBlock_eq, if_pos hh]

theorem beginBlock_accepted_frame (s : St) (h : Header) (hh : h.height = s.lastHeight + 1) :
    C19.frame (beginBlock s h).1 = { C19.frame s with blkHeight := some h.height } := by
  rw [C06.beginBlock_eq, if_neg (by simpa using hh)]
  have hg := C19.bbGov_frame s h
  repeat' split
  all_goals first
    | exact hg
    | (rw [C19.bbStake_frame, C19.bbElig_frame]; exact hg)
    | (rw [C19.bbVotes_frame ‹C06.bbVotes _ _ _ = Res.ok _›, C19.bbStake_frame, C19.bbElig_frame]; exact hg)

theorem beginBlock_accepted_blk (s : St) (h : Header) (hh : h.height = s.lastHeight + 1) :
    (beginBlock s h).1.blk.isSome = true := by
  have := congrArg C19.Frame.blkHeight (beginBlock_accepted_frame s h hh)
  simp only [C19.frame] at this
  cases hb : (beginBlock s h).1.blk <;> simp_all

theorem commit_coherent (s : St) (b : BlockCtx) (hb : s.blk = some b) : Idle (commit s).1 := by
  unfold commit; rw [hb]
  refine ⟨rfl, fun _ => ?_⟩
  refine ⟨?_, ?_, ?_, ?_, ?_, ?_, ?_, rfl⟩ <;> simp [Led.commit, Led.committed]

theorem restart_idle (s : St) : Idle (restart s) :=
  ⟨rfl, fun _ => ⟨rfl, rfl, rfl, rfl, rfl, rfl, rfl, rfl⟩⟩

theorem phaseInv_step {p p' : Phase} {s : St} {op : Op} (hps : phaseStep p op = some p')
    (h : PhaseInv p s) : PhaseInv p' (step s op).1 := by
  have hchk : ∀ tx, PhaseInv p (checkTx s tx).1 := by
    intro tx
    have hc := C06.checkTx_consEq s tx
    have hf := blk_of_frame (C19.checkTx_frame s tx)
    cases p with
    | idle => exact idle_of_consEq hc h
    | inBlock => rcases h with h | h
                 · exact Or.inl (idle_of_consEq hc h)
                 · exact Or.inr (hf.trans h)
    | ended => rcases h with h | h
               · exact Or.inl (idle_of_consEq hc h)
               · exact Or.inr (hf.trans h)
  cases op with
  | init g => cases p <;> simp [phaseStep] at hps
  | check tx =>
    have : p' = p := by cases p <;> simp [phaseStep] at hps <;> exact hps.symm
    subst this; exact hchk tx
  | begin_ hd =>
    cases p <;> simp [phaseStep] at hps
    subst hps
    show Idle (beginBlock s hd).1 ∨ _
    by_cases hh : hd.height = s.lastHeight + 1
    · exact Or.inr (beginBlock_accepted_blk s hd hh)
    · rw [beginBlock_refused s hd hh]; exact Or.inl h
  | deliver tx =>
    cases p <;> simp [phaseStep] at hps
    subst hps
    show Idle (deliverTx s tx).1 ∨ _
    rcases h with h | h
    · rw [deliverTx_noblk s tx h.1]; exact Or.inl h
    · exact Or.inr ((blk_of_frame (C19.deliverTx_frame s tx)).trans h)
  | end_ =>
    cases p <;> simp [phaseStep] at hps
    subst hps
    show Idle (endBlock s).1 ∨ _
    rcases h with h | h
    · rw [endBlock_noblk s h.1]; exact Or.inl h
    · exact Or.inr ((blk_of_frame (C19.endBlock_frame s)).trans h)
  | commit =>
    cases p <;> simp [phaseStep] at hps
    subst hps
    show Idle (commit s).1
    rcases h with h | h
    · rw [commit_noblk s h.1]; exact h
    · cases hb : s.blk with
      | none => rw [hb] at h; cases h
      | some b => exact commit_coherent s b hb
  | restart =>
    cases p <;> simp [phaseStep] at hps
    subst hps
    exact restart_idle s

theorem phaseInv_exec (ops : List Op) {p q : Phase} {s : St} (hp : phaseRun p ops = some q)
    (h : PhaseInv p s) : PhaseInv q (exec s ops) := by
  induction ops generalizing p s with
  | nil => simp [phaseRun] at hp; subst hp; exact h
  | cons op ops ih =>
    unfold phaseRun at hp
    cases hps : phaseStep p op with
    | none => rw [hps] at hp; cases hp
    | some p' =>
      rw [hps] at hp
      rw [exec_cons]
      exact ih hp (phaseInv_step hps h)

theorem initChain_idle (g : Genesis) : Idle (initChain g) := by
  have hf := C19.initChain_frame g
  have h1 : (initChain g).lastHeight = 0 := congrArg C19.Frame.lastHeight hf
  have h2 := congrArg C19.Frame.blkHeight hf
  simp only [C19.frame] at h2
  refine ⟨?_, fun hl => by omega⟩
  cases hb : (initChain g).blk <;> simp_all

theorem reachable_of_boundary {g : Genesis} {s : St} (h : ReachableAtBoundary g s) : Reachable g s := by
  obtain ⟨ops, hp, rfl⟩ := h
  exact ⟨ops, C15.phaseRun_noinit ops _ _ hp, rfl⟩

/-- at every block boundary of a well-phased history: no open block, and after the first commit
    every consensus view equals the committed version and nothing is pending -/
theorem boundary_idle {g : Genesis} {s : St} (h : ReachableAtBoundary g s) : Idle s := by
  obtain ⟨ops, hp, rfl⟩ := h
  exact phaseInv_exec ops hp (initChain_idle g)

/-- `restart` reloads exactly the active parameters (every reachable state) -/
theorem restart_active {g : Genesis} {s : St} (h : Reachable g s) : (restart s).active = s.active := by
  have hw := (C15.govCore_reachable h).paramsW.1
  show ((s.params.reopen).committed[zeroHash]?).getD s.active = s.active
  have : (s.params.reopen).committed = s.params.committed := rfl
  rw [this]
  cases hc : s.params.committed[zeroHash]? with
  | none => rfl
  | some p => rw [hw p hc]; rfl

/-- at a boundary after the first commit, `restart s` and `s` differ only in the mempool views,
    `allDelegs` and `limiter` -/
theorem restart_volEq {g : Genesis} {s : St} (h : ReachableAtBoundary g s) (hl : 1 ≤ s.lastHeight) :
    volEq (restart s) s := by
  obtain ⟨hb, hc⟩ := boundary_idle h
  obtain ⟨c1, c2, c3, c4, c5, c6, c7, c8⟩ := hc hl
  have ha := restart_active (reachable_of_boundary h)
  have ha' : ((s.params.reopen).committed[zeroHash]?).getD s.active = s.active := ha
  unfold volEq eraseVolatile W eraseChk restart
  simp only [St.mk.injEq, Led.reopen, c1, c2, c3, c4, c5, c6, c7, c8, hb, and_self, true_and, and_true]
  exact ha'

end C07
end Rigo
