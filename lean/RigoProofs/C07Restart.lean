/-
  C07: what `restart` rebuilds and what it loses.
  `restart` reopens every ledger on its last committed version (`fin = chk = committed`), reloads the
  active parameters from the committed parameter ledger, and resets `pending`, `blk`, `allDelegs`,
  `lastVals`, `limiter` (as `NewStakeCtrler` does: `allDelegatees = nil`, hence `lastValidators`
  empty, limiter nil).  The application hash is a function of the committed ledger versions (IAVL
  roots are not modelled), so "reports that block's height and application hash" is: `lastHeight`
  and every `hist` are unchanged.
-/
import RigoProofs.C06Isolation

namespace Rigo
namespace C07

open C06 (eraseChk consEq)

/-- the state without the mempool views and without the three in-memory stake-controller fields
    that `restart` resets -/
def eraseVolatile (s : St) : St :=
  { eraseChk s with allDelegs := [], lastVals := [], limiter := {} }

theorem eraseVolatile_of_consEq {a b : St} (h : consEq a b) : eraseVolatile a = eraseVolatile b := by
  unfold eraseVolatile; rw [show eraseChk a = eraseChk b from h]

/-- the parameter ledger's consensus view holds the parameters that become active at the next commit
    (true at genesis; `applyProposals` writes both `params.fin[zeroHash]` and `pending`) -/
def ParamsCoherent (s : St) : Prop := s.params.fin[zeroHash]? = some (s.pending.getD s.active)

theorem getLast?_snoc_getD {α : Type} (l : List α) (a d : α) : (l ++ [a]).getLast?.getD d = a := by simp

/-- right after a Commit, `restart` changes nothing but the mempool views and the three volatile
    stake-controller fields -/
theorem restart_after_commit (s : St) (b : BlockCtx) (hb : s.blk = some b) (hp : ParamsCoherent s) :
    eraseVolatile (restart (commit s).1) = eraseVolatile (commit s).1 := by
  unfold ParamsCoherent at hp
  simp [commit, hb, restart, Led.reopen, Led.commit, Led.committed, eraseVolatile, eraseChk, hp]

theorem restart_consEq {a b : St} (h : consEq a b) : consEq (restart a) (restart b) :=
  (C06.step_consEq h .restart rfl).1

theorem exec_checks_consEq (s : St) (txs : List TxIn) : consEq (exec s (txs.map Op.check)) s := by
  induction txs generalizing s with
  | nil => exact consEq.refl s
  | cons tx txs ih =>
    rw [List.map_cons, exec_cons]
    exact (ih _).trans (C06.checkTx_consEq s tx)

/-- the same at every block boundary reached by a Commit followed by any number of CheckTx calls -/
theorem restart_equiv_boundary (s : St) (b : BlockCtx) (hb : s.blk = some b) (hp : ParamsCoherent s)
    (txs : List TxIn) :
    eraseVolatile (restart (exec (commit s).1 (txs.map Op.check))) =
      eraseVolatile (exec (commit s).1 (txs.map Op.check)) := by
  have h1 := exec_checks_consEq (commit s).1 txs
  rw [eraseVolatile_of_consEq (restart_consEq h1), eraseVolatile_of_consEq h1]
  exact restart_after_commit s b hb hp

/-- `Info` after a restart: same height, same committed versions of every ledger -/
theorem restart_keeps_committed (s : St) :
    (restart s).lastHeight = s.lastHeight ∧
    (restart s).accts.hist = s.accts.hist ∧ (restart s).delegs.hist = s.delegs.hist ∧
    (restart s).frozen.hist = s.frozen.hist ∧ (restart s).rewards.hist = s.rewards.hist ∧
    (restart s).params.hist = s.params.hist ∧ (restart s).props.hist = s.props.hist ∧
    (restart s).fprops.hist = s.fprops.hist := ⟨rfl, rfl, rfl, rfl, rfl, rfl, rfl, rfl⟩

/-- every view is the committed version after a restart -/
theorem restart_views (s : St) :
    (restart s).accts.fin = s.accts.committed ∧ (restart s).accts.chk = s.accts.committed ∧
    (restart s).delegs.fin = s.delegs.committed ∧ (restart s).delegs.chk = s.delegs.committed ∧
    (restart s).params.fin = s.params.committed ∧ (restart s).props.fin = s.props.committed ∧
    (restart s).pending = none ∧ (restart s).blk = none := ⟨rfl, rfl, rfl, rfl, rfl, rfl, rfl, rfl⟩

/-! ### what is lost: `lastVals` -/

theorem restart_lastVals (s : St) : (restart s).lastVals = [] := rfl
theorem restart_isValidator (s : St) (a : Hex) : (restart s).isValidator a = false := rfl

/-- the limiter guard `lastVals.length ≥ 3` is off after a restart: every stake change passes -/
theorem restart_limit_off (s : St) (e : Bool) (a : Hex) (t d : Int) :
    (restart s).limit e a t d = .ok (restart s) := by
  unfold St.limit; simp [restart_lastVals]

/-- The heart of the known defect, on the EndBlock step itself: with one eligible delegatee `d`
    that already is the (announced) validator, the continuously running node announces nothing,
    the restarted node (empty `lastVals`) re-announces `d`. -/
theorem updateValidators_after_restart_differs (s : St) (d : Delegatee) (hm : 1 ≤ s.active.maxValidatorCnt) :
    (match updateValidators { s with allDelegs := [d], lastVals := [d] } with
      | .ok (_, ups) => ups | .panic _ => []) = [] ∧
    (match updateValidators { s with allDelegs := [d], lastVals := [] } with
      | .ok (_, ups) => ups | .panic _ => []) = [(d.pub, d.total)] := by
  have h1 : ¬ s.active.maxValidatorCnt < 0 := by omega
  have h2 : List.take s.active.maxValidatorCnt.toNat [d] = [d] := by
    have : 1 ≤ s.active.maxValidatorCnt.toNat := by omega
    rcases hn : s.active.maxValidatorCnt.toNat with _ | n
    · omega
    · simp
  constructor
  · simp only [updateValidators, selectValidators, h1, if_false, h2, sortByAddr, List.mergeSort_singleton]
    rw [validatorUpdates]
    simp [validatorUpdates]
  · simp only [updateValidators, selectValidators, h1, if_false, h2, sortByAddr, List.mergeSort_singleton,
      List.mergeSort_nil]
    simp [validatorUpdates]

end C07
end Rigo
