/-
  C15 (reachable-state tally invariant), part 2: BeginBlock.
-/
import RigoProofs.C15Reach1

namespace Rigo.C15
open Rigo

/-- a frozen proposal is an open proposal satisfying `PropOK` whose options were sorted by votes
    (so its tallies are those of the open proposal, as a permutation) -/
def FrozenTallyOK (p : Proposal) : Prop :=
  ∃ q, PropOK q ∧ p.voters = q.voters ∧ p.total = q.total ∧ p.majority = q.majority ∧ p.options.Perm q.options

structure GovInv (s : St) : Prop where
  dk : LedAll DKey s.delegs
  ad : DistinctD s.allDelegs
  lv : DistinctD s.lastVals
  props : LedAll (fun _ p => PropOK p) s.props
  fprops : LedAll (fun _ p => FrozenTallyOK p) s.fprops

/-! ### stage B: governance punishment -/

theorem govPunish_props (P : String → Proposal → Prop)
    (hP : ∀ (k : String) (p : Proposal) (a : Hex) (r : Int), P k p → P k (p.doPunish a r).1)
    (s : St) (a : Hex) (h : LedAll P s.props) : LedAll P (govPunish s a).1.props := by
  unfold govPunish
  simp only []
  generalize (List.map (fun x => x.1) (List.filter (fun x => x.2.voters.any (·.addr == a)) s.props.committed.toList)) = targets
  suffices hh : ∀ (acc : St × Int), LedAll P acc.1.props → LedAll P (targets.foldl (fun (x : St × Int) k =>
      match x with
      | (acc, sum) =>
        match acc.props.get true k with
        | none => (acc, sum)
        | some p =>
          let (p', sl) := p.doPunish a acc.active.slashRatio
          ({ acc with props := acc.props.set true k p' }, sum + sl)) acc).1.props from hh (s, 0) h
  induction targets with
  | nil => intro acc h; exact h
  | cons k ks ih =>
    intro acc h
    simp only [List.foldl_cons]
    apply ih
    obtain ⟨acc, sum⟩ := acc
    simp only []
    split
    · exact h
    · rename_i p hp
      exact LedAll.set h _ _ _ (hP k p a _ (h.get hp))

theorem bGov_props (P : String → Proposal → Prop)
    (hP : ∀ (k : String) (p : Proposal) (a : Hex) (r : Int), P k p → P k (p.doPunish a r).1)
    (s : St) (ev : List Hex) (h : LedAll P s.props) : LedAll P (bGov s ev).1.props := by
  unfold bGov
  suffices hh : ∀ (acc : St × List Int), LedAll P acc.1.props → LedAll P (ev.foldl (fun (x : St × List Int) a =>
      match x with
      | (acc, l) => let (acc', sl) := govPunish acc a; (acc', l ++ [sl])) acc).1.props from hh (s, []) h
  induction ev with
  | nil => intro acc h; exact h
  | cons a as ih =>
    intro acc h
    simp only [List.foldl_cons]
    apply ih
    obtain ⟨acc, l⟩ := acc
    exact govPunish_props P hP acc a h

/-! ### stage C: the eligible list comes from a keyed ledger -/

theorem distinct_of_keyed (m : KMap Delegatee) (hm : ∀ (k : String) (d : Delegatee), m[k]? = some d → ledgerKey d.addr = k) :
    DistinctD (m.toList.map (·.2)) := by
  unfold DistinctD
  rw [List.pairwise_map]
  have hk := Std.ExtTreeMap.distinct_keys_toList (t := m)
  refine List.Pairwise.imp_of_mem ?_ hk
  intro a b ha hb hab heq
  apply hab
  have ka := hm a.1 a.2 (Std.ExtTreeMap.mem_toList_iff_getElem?_eq_some.mp ha)
  have kb := hm b.1 b.2 (Std.ExtTreeMap.mem_toList_iff_getElem?_eq_some.mp hb)
  have : a.1 = b.1 := by rw [← ka, ← kb, heq]
  rw [this]; exact Std.ReflCmp.compare_self

theorem DistinctD.perm {l l' : List Delegatee} (h : DistinctD l) (p : l'.Perm l) : DistinctD l' :=
  p.symm.pairwise h (fun hxy => fun e => hxy e.symm)

theorem DistinctD.sublist {l l' : List Delegatee} (h : DistinctD l) (p : l'.Sublist l) : DistinctD l' :=
  List.Pairwise.sublist p h

theorem sortByPower_distinct {l : List Delegatee} (h : DistinctD l) : DistinctD (sortByPower l) :=
  h.perm (List.mergeSort_perm _ _)

theorem bC_allDelegs (s : St) (m : Int) (hk : LedAll DKey s.delegs) : DistinctD (bbC s m).allDelegs := by
  show DistinctD (sortByPower ((s.delegs.committed.toList.map (·.2)).filter fun d => d.self ≥ m))
  apply sortByPower_distinct
  exact (distinct_of_keyed _ hk.committed).sublist List.filter_sublist

/-! ### stage D: stake punishment -/

theorem doSlash_addr (d : Delegatee) (r : Int) : (d.doSlash r).1.addr = d.addr := rfl

theorem stakePunish_delegs (s : St) (a : Hex) (hk : LedAll DKey s.delegs) : LedAll DKey (stakePunish s a).1.delegs := by
  unfold stakePunish
  split
  · exact hk
  · rename_i d hd
    refine hk.set _ _ _ ?_
    show ledgerKey (d.doSlash s.active.slashRatio).1.addr = ledgerKey a
    rw [doSlash_addr]; exact hk.get hd

theorem bStake_delegs (s : St) (ev : List Hex) (hk : LedAll DKey s.delegs) : LedAll DKey (bStake s ev).1.delegs := by
  unfold bStake
  suffices h : ∀ (acc : St × List Int), LedAll DKey acc.1.delegs → LedAll DKey (ev.foldl (fun (x : St × List Int) a =>
      match x with
      | (acc, l) =>
        match stakePunish acc a with
        | (acc', some sl) => (acc', l ++ [sl])
        | (acc', none) => (acc', l)) acc).1.delegs from h (s, []) hk
  induction ev with
  | nil => intro acc h; exact h
  | cons a as ih =>
    intro acc h
    simp only [List.foldl_cons]
    apply ih
    obtain ⟨acc, l⟩ := acc
    have h2 := stakePunish_delegs acc a h
    simp only []
    split
    · rename_i heq; rw [heq] at h2; exact h2
    · rename_i heq; rw [heq] at h2; exact h2

/-! ### stage E: votes -/

theorem processVote_delegs {s s' : St} {height : Int} {rl : KMap Delegatee} {v : VoteIn} {i i' : Nat}
    (h : processVote s height rl v i = .ok (s', i')) (hk : LedAll DKey s.delegs) : LedAll DKey s'.delegs := by
  cases hv : v.signed with
  | true =>
    rw [processVote_signed _ _ _ _ _ hv] at h
    split at h
    · cases h; exact hk
    · split at h
      · cases h; exact hk
      · split at h
        · cases h
        · rename_i hr; cases h
          have := (rewardTo_only hr).1
          rw [this]; exact hk
  | false =>
    rw [processVote_unsigned _ _ _ _ _ hv] at h
    split at h
    · cases h; exact hk
    · split at h
      · cases h; exact (hk.set _ _ _ rfl).del _ _
      · cases h; exact hk.set _ _ _ rfl

theorem foldl_voteStep_delegs (height : Int) (rl : KMap Delegatee) (votes : List VoteIn) (s : St) (i : Nat) (s' : St) (i' : Nat)
    (h : votes.foldl (voteStep height rl) (.ok (s, i)) = .ok (s', i')) (hk : LedAll DKey s.delegs) : LedAll DKey s'.delegs := by
  induction votes generalizing s i with
  | nil => simp only [List.foldl_nil] at h; cases h; exact hk
  | cons v vs ih =>
    simp only [List.foldl_cons] at h
    cases hp : voteStep height rl (.ok (s, i)) v with
    | panic p => rw [hp, foldl_voteStep_panic] at h; cases h
    | ok r =>
      obtain ⟨s2, i2⟩ := r
      rw [hp] at h
      exact ih s2 i2 h (processVote_delegs (by simpa [voteStep] using hp) hk)

/-! ### BeginBlock as a whole -/

theorem propOK_punish : ∀ (k : String) (p : Proposal) (a : Hex) (r : Int),
    (fun (_ : String) p => PropOK p) k p → (fun (_ : String) p => PropOK p) k (p.doPunish a r).1 :=
  fun _ _ a r hp => doPunish_ok hp a r

theorem beginBlock_gov (s : St) (h : Header) (hs : GovInv s) : GovInv (beginBlock s h).1 := by
  -- stage states
  have fA := bbA_fr s h
  have fB := bGov_fr (bbA s h) h.evidence
  have pB : LedAll (fun _ p => PropOK p) (bGov (bbA s h) h.evidence).1.props :=
    bGov_props _ propOK_punish _ _ (by rw [fA.2.2.1]; exact hs.props)
  have iB : GovInv (bGov (bbA s h) h.evidence).1 := by
    refine ⟨?_, ?_, ?_, pB, ?_⟩
    · rw [fB.2.2.1, fA.2.2.2.1]; exact hs.dk
    · rw [fB.2.2.2.2.2.1]; exact hs.ad
    · rw [fB.1.2.2.2.2.1, fA.1.2.2.2.2.1]; exact hs.lv
    · rw [fB.1.2.1, fA.1.2.1]; exact hs.fprops
  have iD : ∀ m, GovInv (bStake (bbC (bGov (bbA s h) h.evidence).1 m) h.evidence).1 := by
    intro m
    have fC := bbC_fr (bGov (bbA s h) h.evidence).1 m
    have fD := bStake_fr (bbC (bGov (bbA s h) h.evidence).1 m) h.evidence
    refine ⟨?_, ?_, ?_, ?_, ?_⟩
    · apply bStake_delegs; rw [fC.2.1.2.2.1]; exact iB.dk
    · rw [fD.2.2.2.2.2.1]; exact bC_allDelegs _ m iB.dk
    · rw [fD.1.2.2.2.2.1, fC.1.2.2.2.2.1]; exact iB.lv
    · rw [fD.2.2.1, fC.2.1.2.1]; exact iB.props
    · rw [fD.1.2.1, fC.1.2.1]; exact iB.fprops
  apply beginBlock_ind s h GovInv hs
  · intro _; exact iB
  · intro _ m _; exact iD m
  · intro _ m rl s' issued _ _ hv
    have fE := bVotes_vfr hv
    have := iD m
    refine ⟨foldl_voteStep_delegs _ _ _ _ _ _ _ hv this.dk, ?_, ?_, ?_, ?_⟩
    · rw [fE.2.2.2.1]; exact this.ad
    · rw [fE.1.2.2.2.2.1]; exact this.lv
    · rw [fE.2.1]; exact this.props
    · rw [fE.1.2.1]; exact this.fprops

end Rigo.C15
