/-
  C09 (the apply-time parse panic of EndBlock is unreachable), part 3: non-vacuity on a concrete run.

  The first blocks of `C10P.exOps` (RigoProofs/C10Params.lean): two empty blocks (after which the genesis validator A
  is in `lastVals`), BeginBlock 3 and DeliverTx of `C10P.txProp`, a PROPOSAL_GOVPARAMS proposal with two options that
  parse both ways.  The state reached holds that proposal in the CONSENSUS view of the open-proposal ledger.

  `decide` cannot run this history: `isZeroAddr` (= `String.all`) and `List.mergeSort` (the validator list) do not
  reduce in the kernel.  The state before the transaction is evaluated lazily (`decide` / `rfl` never has to look
  inside the sorted validator list), the validator list is obtained as an unevaluated sort of a singleton and
  normalised by `simp`, and the transaction itself goes through two general ACCEPTANCE lemmas (the converse
  direction of `C15.validateProposal_ok` / `C15.proposal_success`): `validateProposal_accept` also shows that the
  repaired check rejects nothing but options that fail a parse.
-/
import RigoProofs.C09ApplyStep
import RigoProofs.C10Params

open Std

namespace Rigo.C09A
open Rigo Rigo.C15 Rigo.C10P

/-! ### acceptance lemmas (any state) -/

/-- the conditions under which `validateProposal` accepts, on either path (`hsum`, `hlo`: the model computes the two
    height sums in int64 as the Go code does; the sums of this proposal are int64 values / do not underflow) -/
theorem validateProposal_accept {s : St} {e : Bool} {h : Int} {tx : TxIn}
    {msg : Hex} {start period applying optType : Int} {opts : List VoteOpt}
    (hpay : tx.payload = .proposal msg start period applying optType opts)
    (hto : byteLen tx.to = 20 ∧ isZeroAddr tx.to = true)
    (hval : s.isValidator tx.from_ = true)
    (hfresh : s.props.get e (ledgerKey tx.hash) = none)
    (hfut : start > h) (hmin : s.active.minVotingPeriodBlocks ≤ period) (hmax : period ≤ s.active.maxVotingPeriodBlocks)
    (hper : 0 ≤ period) (hlazy : applying ≥ start + period + s.active.lazyApplyingBlocks) (hend : start + period ≤ applying)
    (hsum : I64 (start + period)) (hlo : -9223372036854775808 ≤ start + period + s.active.lazyApplyingBlocks)
    (hne : opts ≠ [])
    (hparse : optType = PROPOSAL_GOVPARAMS → ∀ o ∈ opts, o.parsedV.isSome = true ∧ o.parsedA.isSome = true) :
    validateProposal s e h tx = .ok s := by
  unfold validateProposal
  rw [hpay]
  simp only [bind, Except.bind, pure, Except.pure, throw, throwThe, MonadExceptOf.throw]
  rw [if_neg (by simp [hto.1, hto.2]), if_neg (by simp [hval])]
  rw [if_neg (by simp [hfresh]), if_neg (by omega), if_neg (by omega)]
  have hp : ¬ (optType = PROPOSAL_GOVPARAMS ∧ (opts.any fun o => o.parsedV.isNone || o.parsedA.isNone) = true) := by
    rintro ⟨h1, h2⟩
    rw [List.any_eq_true] at h2
    obtain ⟨o, ho, h3⟩ := h2
    obtain ⟨a, b⟩ := hparse h1 o ho
    cases hv : o.parsedV <;> cases ha : o.parsedA <;> simp [hv, ha] at a b h3
  rw [if_neg hp]
  have hw := wrapInt64_le hlo
  rw [wrapInt64_fit hsum]
  rw [if_neg (by omega), if_neg (by omega), if_neg (by cases opts <;> simp_all)]


/-- a TRX_PROPOSAL that passes the three validation stages and can pay its fee is answered with code 0 -/
theorem proposal_code0 {s : St} {e : Bool} {h : Int} {tx : TxIn} {sender : Account}
    {msg : Hex} {start period applying optType : Int} {opts : List VoteOpt}
    (hd : tx.decodable = true) (hty : tx.type = TRX_PROPOSAL)
    (hpay : tx.payload = .proposal msg start period applying optType opts)
    (hfind : s.findAcct e tx.from_ = some sender)
    (hc0 : commonValidation0 (s.findOrNewAcct e tx.to).1 e tx = .ok ())
    (hc1 : commonValidation1 sender tx = .ok ())
    (hvp : validateProposal (s.findOrNewAcct e tx.to).1 e h tx = .ok (s.findOrNewAcct e tx.to).1)
    (hfee : ∃ snd a1, (s.findOrNewAcct e tx.to).1.findAcct e tx.from_ = some snd ∧
      subBalance snd (wmul tx.price tx.gas) = some a1) :
    (handleTx s e h tx).2.code = 0 := by
  have hval : validateTrx (s.findOrNewAcct e tx.to).1 e h tx sender (s.findOrNewAcct e tx.to).2 =
      .ok (s.findOrNewAcct e tx.to).1 := by
    rw [validateTrx_proposal _ _ _ _ _ _ hty, hc0, hc1, hvp]; rfl
  obtain ⟨snd, a1, hf, hsub⟩ := hfee
  have hrun : ∃ s2, runTrx (s.findOrNewAcct e tx.to).1 e h tx (s.findOrNewAcct e tx.to).2 = .ok (s2, tx.gas, none) := by
    rw [runTrx_eq, execBody_proposal _ _ _ _ _ hty, Rigo.C15.execProposal_ok hpay]
    simp only [bind, Except.bind]
    unfold runTail
    have hf' : ({ (s.findOrNewAcct e tx.to).1 with props := ((s.findOrNewAcct e tx.to).1.props.set e (ledgerKey tx.hash)
        (snapshotProposal (s.findOrNewAcct e tx.to).1 tx start period applying optType opts)) } : St).findAcct e tx.from_ = some snd := hf
    simp [hty, TRX_PROPOSAL, TRX_CONTRACT, TRX_TRANSFER, hf', hsub, pure, Except.pure]
  obtain ⟨s2, hrun⟩ := hrun
  rw [handleTx_goodlen (cv0_to_len hc0)]
  unfold handleTxOld
  simp only [hd, Bool.not_true, Bool.false_eq_true, if_false]
  rw [hfind]
  simp only []
  rw [hval]
  simp only []
  rw [hrun]

/-! ### the concrete run -/

/-- blocks 1 and 2 (empty), BeginBlock 3 -/
def pre3 : List Op := exBlock 1 [] ++ exBlock 2 [] ++ [.begin_ { height := 3 }]
/-- … and the proposal transaction delivered in block 3 -/
def opsProp : List Op := pre3 ++ [.deliver txProp]

def s3 : St := exec (initChain exG) pre3
def sProp : St := exec (initChain exG) opsProp

/-- the run is the beginning of `C10P.exOps` -/
theorem opsProp_prefix :
    exOps = opsProp ++ ([.end_, .commit] ++ exBlock 4 [txVote] ++ exBlock 5 [] ++ exBlock 6 [] ++ exBlock 7 []) := by
  simp [exOps, opsProp, pre3, exBlock]

theorem sProp_reachable : Reachable exG sProp := ⟨opsProp, by decide, rfl⟩

theorem sProp_phase : phaseRun .idle opsProp = some .inBlock := by decide

/-- the genesis validator as BeginBlock 2 read it from the committed delegatee ledger -/
def dA : Delegatee :=
  { addr := addrA, pub := addrA, self := 10, total := 10,
    stakes := [{ owner := addrA, to := addrA, hash := zeroHash, power := 10, start := 1 }] }

theorem s3_blk : s3.blk = some { height := 3 } := by decide
theorem s3_sender : s3.findAcct true addrA = some { addr := addrA, bal := 1000 } := by decide
/-- lazily: the kernel never looks inside the sort -/
theorem s3_lastVals_raw : s3.lastVals = sortByPower (List.take 10 (sortByPower [dA])) := rfl
theorem s3_lastVals : s3.lastVals = [dA] := by
  rw [s3_lastVals_raw]; simp [sortByPower]

/-- the state validation sees: the receiver (the zero address) got its account record -/
def s3z : St := (s3.findOrNewAcct true txProp.to).1

theorem s3z_validator : s3z.isValidator txProp.from_ = true := by
  have h : s3z.lastVals = s3.lastVals := (findOrNewAcct_frAll s3 true txProp.to).1.2.2.2.2.1
  unfold St.isValidator
  rw [h, s3_lastVals]
  decide

theorem s3z_accepts : validateProposal s3z true 3 txProp = .ok s3z :=
  validateProposal_accept (msg := "") (start := 4) (period := 1) (applying := 6) (optType := PROPOSAL_GOVPARAMS)
    (opts := [voA, voB]) rfl ⟨by decide, by simp [isZeroAddr, txProp, addrZ]⟩ s3z_validator (by decide) (by decide)
    (by decide) (by decide) (by decide) (by decide) (by decide) (by decide) (by decide) (by simp)
    (by intro _ o ho; simp at ho; rcases ho with rfl | rfl <;> exact ⟨rfl, rfl⟩)

/-- DeliverTx of the proposal is answered with code 0 -/
theorem txProp_code0 : (handleTx s3 true 3 txProp).2.code = 0 :=
  proposal_code0 (sender := { addr := addrA, bal := 1000 }) (msg := "") (start := 4) (period := 1) (applying := 6)
    (optType := PROPOSAL_GOVPARAMS) (opts := [voA, voB]) rfl rfl rfl s3_sender rfl rfl s3z_accepts
    ⟨{ addr := addrA, bal := 1000 }, { addr := addrA, bal := 999 }, by decide, by decide⟩

theorem deliverTx_props {s : St} {b : BlockCtx} (hb : s.blk = some b) (tx : TxIn) :
    (deliverTx s tx).1.props = (handleTx s true b.height tx).1.props := by
  unfold deliverTx
  rw [hb]
  simp only []
  generalize handleTx s true b.height tx = res
  obtain ⟨s', o⟩ := res
  simp only []
  split
  · rfl
  · split <;> rfl

/-- the open-proposal ledger after the delivery -/
theorem sProp_props :
    sProp.props = s3.props.set true (ledgerKey "b0") (snapshotProposal s3 txProp 4 1 6 PROPOSAL_GOVPARAMS [voA, voB]) := by
  have h1 : sProp = (step s3 (.deliver txProp)).1 := exec_snoc _ _ _
  rw [h1]
  show (deliverTx s3 txProp).1.props = _
  rw [deliverTx_props s3_blk]
  obtain ⟨msg, start, period, applying, optType, opts, acc, hprops⟩ := proposal_successW (s := s3) (e := true) (h := 3) rfl txProp_code0
  have hp := acc.payload
  have hp' : Payload.proposal "" 4 1 6 PROPOSAL_GOVPARAMS [voA, voB] = Payload.proposal msg start period applying optType opts := hp
  cases hp'
  exact hprops

/-- **non-vacuity**: a reachable state (a well-phased history, inside block 3) whose open-proposal ledger holds, in
    the consensus view, a PROPOSAL_GOVPARAMS proposal with two options — every one of which has an apply-time parse,
    as `OptsParse` says -/
theorem sProp_has_proposal :
    ∃ p, sProp.props.fin[ledgerKey "b0"]? = some p ∧ p.optType = PROPOSAL_GOVPARAMS ∧
      p.options.map (·.parsedA) = [some optA, some optB] ∧ p.applying = 6 := by
  refine ⟨snapshotProposal s3 txProp 4 1 6 PROPOSAL_GOVPARAMS [voA, voB], ?_, rfl, rfl, rfl⟩
  rw [sProp_props]
  simp

/-- what the invariant says about it -/
theorem sProp_optsP {p : Proposal} (hp : sProp.props.fin[ledgerKey "b0"]? = some p) (hty : p.optType = PROPOSAL_GOVPARAMS) :
    ∀ o ∈ p.options, o.parsedA.isSome = true :=
  (optsParse_reachable sProp_reachable).props.1 _ p hp hty

/-! ### the frozen side, on a hand-made state: the invariant holds and the apply step goes through -/

theorem ledAll_single {α : Type} {P : String → α → Prop} (k : String) (v : α) (hv : P k v) :
    LedAll P ({ hist := [({} : KMap α).insert k v], fin := ({} : KMap α).insert k v, chk := ({} : KMap α).insert k v } : Led α) := by
  have one : ∀ (k' : String) (v' : α), (({} : KMap α).insert k v)[k']? = some v' → P k' v' := by
    intro k' v' h
    rw [Std.ExtTreeMap.getElem?_insert] at h
    split at h
    · rename_i hk
      have hk' : k = k' := by simpa using hk
      subst hk'
      cases h; exact hv
    · simp at h
  refine ⟨one, one, ?_⟩
  intro m hm
  simp only [List.mem_singleton] at hm
  subst hm
  exact one

/-- `C10P.sApply` (block 7 open, the winning two-option proposal frozen and committed) satisfies the invariant … -/
theorem sApply_optsParse : OptsParse sApply := by
  refine ⟨LedAll.empty _, ledAll_single _ _ ⟨?_, ?_⟩⟩
  · intro _ o ho
    have ho' : o ∈ [{ voA with votes := 10 }, voB] := ho
    simp at ho'
    rcases ho' with rfl | rfl <;> rfl
  · intro m hm
    have hm' : some { voA with votes := 10 } = some m := hm
    cases hm'
    exact List.mem_cons_self

/-- … and there `applyProposals` reads the major option and succeeds -/
example : (match applyProposals sApply 7 with | .ok s => s.pending.isSome | .panic _ => false) = true := by decide

end Rigo.C09A
