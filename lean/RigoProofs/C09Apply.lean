/-
  C09 — the apply-time parse panic of EndBlock is UNREACHABLE (property theorems).

  Before the repair a governance-parameter option that was valid JSON as submitted but not in the form
  `applyProposals` reads it (`parsedV = some _`, `parsedA = none`) passed `validateProposal`; once such a proposal had
  won its vote, `EndBlock` panicked on every node (`unrepaired_witness` shows that outcome on a hand-built state).
  With the repaired validation the invariant `OptsParse` (RigoProofs/C09ApplyInv.lean, C09ApplyStep.lean) holds in
  every reachable state, and under it `applyProposals` / `endBlock` cannot answer with that panic.
-/
import RigoProofs.C09ApplyStep
import RigoProofs.C09ApplyEx

open Std

namespace Rigo.C09A
open Rigo Rigo.C15

/-- the other panic outcome of `applyProposals` (a phase-discipline matter, not an input matter: it needs two EndBlocks
    without a Commit in between) -/
def gonePanic : String := "EndBlock: DelFinality of a frozen proposal that is gone"

/-! ### panics of a fold of panicking steps -/

theorem foldl_resStep_panic_of {β : Type} (f : St → β → Res St) (E : String → Prop) (l : List β)
    (hf : ∀ s b e, b ∈ l → f s b = .panic e → E e) :
    ∀ s e, l.foldl (resStep f) (.ok s) = .panic e → E e := by
  induction l with
  | nil => intro s e h; simp only [List.foldl_nil] at h; cases h
  | cons b l ih =>
    intro s e h
    simp only [List.foldl_cons] at h
    cases hb : resStep f (.ok s) b with
    | panic e' =>
      rw [hb, foldl_resStep_panic] at h
      cases h
      exact hf s b e (by simp) (by simpa [resStep] using hb)
    | ok s1 =>
      rw [hb] at h
      exact ih (fun s b e hb' => hf s b e (List.mem_cons_of_mem _ hb')) s1 e h

/-! ### `applyProposals` -/

/-- all panic outcomes of one apply step, in ANY state -/
theorem applyOne_panic_any {height : Int} {s : St} {kp : String × Proposal} {e : String}
    (h : applyOne height s kp = .panic e) : e = gonePanic ∨ e = parsePanic := by
  unfold applyOne at h
  split at h
  · split at h
    · cases h; exact Or.inl rfl
    · simp only [] at h
      split at h
      · cases h
      · split at h
        · split at h
          · cases h; exact Or.inr rfl
          · cases h
        · cases h
  · cases h

/-- one apply step on a frozen proposal satisfying `FrozOK`: the parse panic is excluded -/
theorem applyOne_panic {height : Int} {s : St} {kp : String × Proposal} {e : String} (hk : FrozOK kp.1 kp.2)
    (h : applyOne height s kp = .panic e) : e = gonePanic := by
  unfold applyOne at h
  split at h
  · split at h
    · cases h; rfl
    · simp only [] at h
      split at h
      · cases h
      · rename_i m hm
        split at h
        · rename_i hty
          split at h
          · rename_i hpa
            have := hk.major hty hm
            rw [hpa] at this
            cases this
          · cases h
        · cases h
  · cases h

/-- all panic outcomes of `applyProposals`, in ANY state: one of two sites -/
theorem applyProposals_panic_any {s : St} {height : Int} {e : String} (h : applyProposals s height = .panic e) :
    e = gonePanic ∨ e = parsePanic := by
  rw [applyProposals_eq] at h
  exact foldl_resStep_panic_of (applyOne height) (fun e => e = gonePanic ∨ e = parsePanic) _
    (fun _ _ _ _ hp => applyOne_panic_any hp) s e h

/-- all panic outcomes of `applyProposals` when the frozen ledger satisfies the invariant: only the "gone" site
    is left (the list folded over is the COMMITTED version of the frozen ledger, which is one of `hist`) -/
theorem applyProposals_panic_cases {s : St} (hs : LedAll FrozOK s.fprops) {height : Int} {e : String}
    (h : applyProposals s height = .panic e) : e = gonePanic := by
  rw [applyProposals_eq] at h
  refine foldl_resStep_panic_of (applyOne height) (fun e => e = gonePanic) _ ?_ s e h
  intro x kp e' hmem hp
  exact applyOne_panic (hs.committed kp.1 kp.2 (Std.ExtTreeMap.mem_toList_iff_getElem?_eq_some.mp hmem)) hp

theorem gone_ne_parse : gonePanic ≠ parsePanic := by decide

/-- under the invariant, at any height -/
theorem applyProposals_no_parse_panic {s : St} (hs : OptsParse s) (height : Int) :
    applyProposals s height ≠ .panic "EndBlock: option does not unmarshal at apply time" := by
  intro h
  exact gone_ne_parse (applyProposals_panic_cases hs.fprops h).symm

/-- **apply_never_fails_to_parse**: in every reachable state, at every height, `applyProposals` does not answer
    with the apply-time parse panic.  No hypothesis beyond reachability. -/
theorem apply_never_fails_to_parse {g : Genesis} {s : St} (hr : Reachable g s) (height : Int) :
    applyProposals s height ≠ .panic "EndBlock: option does not unmarshal at apply time" :=
  applyProposals_no_parse_panic (optsParse_reachable hr) height

/-- in a reachable state every committed frozen GOVPARAMS proposal that `applyProposals` will read carries a major
    option with an apply-time parse (the positive form of the above) -/
theorem frozen_major_parses {g : Genesis} {s : St} (hr : Reachable g s) {k : String} {p : Proposal} {m : VoteOpt}
    (hk : s.fprops.committed[k]? = some p) (hty : p.optType = PROPOSAL_GOVPARAMS) (hm : p.major = some m) :
    ∃ o, m.parsedA = some o := by
  have := ((optsParse_reachable hr).fprops.committed k p hk).major hty hm
  cases hpa : m.parsedA with
  | none => rw [hpa] at this; cases this
  | some o => exact ⟨o, rfl⟩

/-! ### `endBlock` -/

theorem freezeOne_panic {height : Int} {s : St} {kp : String × Proposal} {e : String}
    (h : freezeOne height s kp = .panic e) :
    e = "EndBlock: DelFinality of a proposal that is gone" ∨ e = "index out of range: proposal without options" := by
  unfold freezeOne at h
  split at h
  · split at h
    · cases h; exact Or.inl rfl
    · simp only [] at h
      split at h
      · cases h; exact Or.inr rfl
      · split at h <;> cases h
  · cases h

theorem freezeProposals_panic {s : St} {height : Int} {e : String} (h : freezeProposals s height = .panic e) :
    e = "EndBlock: DelFinality of a proposal that is gone" ∨ e = "index out of range: proposal without options" := by
  rw [freezeProposals_eq] at h
  exact foldl_resStep_panic_of (freezeOne height) _ _ (fun _ _ _ _ hp => freezeOne_panic hp) s e h

theorem feeHandover_panic {s : St} {b : BlockCtx} {e : String} (h : feeHandover s b = .panic e) :
    e = "EndBlock: AddBalance failed" := by
  unfold feeHandover at h
  split at h
  · simp only [] at h
    split at h
    · cases h; rfl
    · cases h
  · cases h

theorem unfreeze_panic {s : St} {height : Int} {e : String} (h : unfreeze s height = .panic e) :
    e = "EndBlock: refund to a missing account" := by
  rw [unfreeze_eq] at h
  refine foldl_resStep_panic_of (unfreezeOne height) (fun e => e = "EndBlock: refund to a missing account") _ ?_ s e h
  intro x kst e' _ hp
  unfold unfreezeOne at hp
  split at hp
  · split at hp
    · cases hp; rfl
    · cases hp
  · cases hp

theorem updateValidators_panic {s : St} {e : String} (h : updateValidators s = .panic e) :
    e = "selectValidators: slice bounds out of range" := by
  unfold updateValidators at h
  split at h
  · rename_i e' hsel
    cases h
    unfold selectValidators at hsel
    split at hsel
    · cases hsel; rfl
    · cases hsel
  · cases h

/-- every answer `endBlock` can give in its panic field when the state satisfies the invariant ("" = no panic) -/
def endBlockPanics : List String :=
  ["", "EndBlock outside a block", "EndBlock: DelFinality of a proposal that is gone",
   "index out of range: proposal without options", gonePanic, "EndBlock: AddBalance failed",
   "EndBlock: refund to a missing account", "selectValidators: slice bounds out of range"]

theorem endBlock_panic_cases {s : St} (hs : OptsParse s) : (endBlock s).2.panic ∈ endBlockPanics := by
  unfold endBlock
  split
  · simp [endBlockPanics]
  · rename_i b hb
    split
    · rename_i e he
      rcases freezeProposals_panic he with h | h <;> simp [endBlockPanics, h]
    · rename_i s1 hs1
      have hs1' := freezeProposals_optsParse hs1 hs
      split
      · rename_i e he
        simp [endBlockPanics, applyProposals_panic_cases hs1'.fprops he]
      · split
        · rename_i e he
          simp [endBlockPanics, feeHandover_panic he]
        · split
          · rename_i e he
            simp [endBlockPanics, unfreeze_panic he]
          · split
            · rename_i e he
              simp [endBlockPanics, updateValidators_panic he]
            · simp [endBlockPanics]

theorem parsePanic_not_endBlockPanics : parsePanic ∉ endBlockPanics := by decide

theorem endBlock_no_parse_panic {s : St} (hs : OptsParse s) :
    (endBlock s).2.panic ≠ "EndBlock: option does not unmarshal at apply time" := by
  intro h
  have := endBlock_panic_cases hs
  rw [h] at this
  exact parsePanic_not_endBlockPanics this

/-- **endBlock_parse_panic_unreachable**: EndBlock in a reachable state never answers with the apply-time parse
    panic (the proposals frozen by the same EndBlock included: `applyProposals` runs on the state after
    `freezeProposals`, which satisfies the invariant as well). -/
theorem endBlock_parse_panic_unreachable {g : Genesis} {s : St} (hr : Reachable g s) :
    (endBlock s).2.panic ≠ "EndBlock: option does not unmarshal at apply time" :=
  endBlock_no_parse_panic (optsParse_reachable hr)

/-- the same for the `step` function and the EndBlock operation -/
theorem step_end_parse_panic_unreachable {g : Genesis} {s : St} (hr : Reachable g s) :
    (step s .end_).2.panic ≠ "EndBlock: option does not unmarshal at apply time" :=
  endBlock_parse_panic_unreachable hr

/-! ### what the repair removed -/

/-- an option that is valid as submitted but not in the form read at apply time -/
def badOpt : VoteOpt := { raw := "7b", parsedV := some C10P.unsetOpt, parsedA := none, votes := 10 }

/-- a frozen GOVPARAMS proposal whose major option is `badOpt`, to be applied at height 6 -/
def pBad : Proposal :=
  { hash := "b0", start := 4, end_ := 5, applying := 6, total := 10, majority := 6, optType := PROPOSAL_GOVPARAMS,
    voters := [{ addr := C10P.addrA, power := 10, choice := 0 }], options := [badOpt], major := some badOpt }

/-- block 7 is open, the frozen proposal is committed (hand-built: NOT reachable any more) -/
def sBad : St :=
  { chainId := "c09a", active := C10P.exG.params, lastHeight := 6, blk := some { height := 7 },
    fprops := { hist := [({} : KMap Proposal).insert (ledgerKey "b0") pBad],
                fin := ({} : KMap Proposal).insert (ledgerKey "b0") pBad,
                chk := ({} : KMap Proposal).insert (ledgerKey "b0") pBad } }

/-- **unrepaired_witness**: the panic the repair made unreachable.  In a state holding a frozen GOVPARAMS proposal
    whose major option has `parsedA = none` and `applying ≤ height`, `applyProposals` — and `endBlock` — do answer
    with it.  Such a state could be reached before the repair (the option passed validation on `parsedV` alone). -/
theorem unrepaired_witness :
    pBad.applying ≤ 7 ∧ (pBad.major.bind (·.parsedA)) = none ∧ (pBad.major.bind (·.parsedV)).isSome = true ∧
    applyProposals sBad 7 = .panic "EndBlock: option does not unmarshal at apply time" ∧
    (endBlock sBad).2.panic = "EndBlock: option does not unmarshal at apply time" := by
  exact ⟨by decide, by decide, by decide, rfl, by decide⟩

/-- the witness state violates the invariant (as it must), and is therefore not reachable from any genesis -/
theorem sBad_not_optsParse : ¬ OptsParse sBad := fun h =>
  applyProposals_no_parse_panic h 7 unrepaired_witness.2.2.2.1

theorem sBad_unreachable (g : Genesis) : ¬ Reachable g sBad := fun h => sBad_not_optsParse (optsParse_reachable h)

/-! ### non-vacuity (RigoProofs/C09ApplyEx.lean) -/

/-- the invariant does not speak about empty ledgers only: a reachable state (the first blocks of `C10P.exOps`, a
    well-phased history) holds a two-option PROPOSAL_GOVPARAMS proposal in the consensus view of `props`, and every
    option of it has an apply-time parse -/
example : ∃ (g : Genesis) (s : St) (k : String) (p : Proposal), Reachable g s ∧ s.props.fin[k]? = some p ∧
    p.optType = PROPOSAL_GOVPARAMS ∧ p.options.length = 2 ∧ ∀ o ∈ p.options, o.parsedA.isSome = true := by
  obtain ⟨p, hp, hty, hopts, _⟩ := sProp_has_proposal
  refine ⟨C10P.exG, sProp, ledgerKey "b0", p, sProp_reachable, hp, hty, ?_, sProp_optsP hp hty⟩
  have := congrArg List.length hopts
  simpa using this

/-- the theorems apply to that state -/
example : (endBlock sProp).2.panic ≠ "EndBlock: option does not unmarshal at apply time" :=
  endBlock_parse_panic_unreachable sProp_reachable

end Rigo.C09A
