/-
  C15, the int64 overflow that `GovCtrler.ValidateTrx` does not catch — witness on a REACHABLE state.

  The Go code computes `minApplyingHeight := endVotingHeight + LazyApplyingBlocks()` in int64 and does not guard the
  addition (the first one, `StartVotingHeight + VotingPeriodBlocks`, is guarded since issue #51).  The model follows
  the code (`Rigo.wrapInt64` in `validateProposal`).  Here: voting periods of exactly 10 blocks, 10 blocks before
  applying; inside block 3 the validator A proposes start = 2^63 - 11, period 10, applying = 2^63 - 1.  The end of
  voting 2^63 - 1 fits, `minApplyingHeight` wraps to -2^63 + 9, the proposal is accepted (DeliverTx code 0) and stored
  with `applying < start + period + lazyApplyingBlocks`.  It can never open for voting (start ≈ 9.2e18), so no listed
  property of the application is violated; only the unbounded reading "applying ≥ end + lazy" of an accepted
  proposal needs the hypothesis `ProposalHeightsFit` (RigoProofs/WrapI64.lean).

  The run is evaluated as in RigoProofs/C09ApplyEx.lean (lazily up to BeginBlock 3, the transaction through general
  acceptance lemmas); `validateProposal_acceptW` is the exact converse of `validateProposal_okW`.
-/
import RigoProofs.C09ApplyEx

namespace Rigo.C15
open Rigo Rigo.C10P Rigo.C09A

/-- the conditions under which `validateProposal` accepts, on either path, with the height tests as the code
    performs them (int64): the converse of `validateProposal_okW`, no side condition on the sums -/
theorem validateProposal_acceptW {s : St} {e : Bool} {h : Int} {tx : TxIn}
    {msg : Hex} {start period applying optType : Int} {opts : List VoteOpt}
    (hpay : tx.payload = .proposal msg start period applying optType opts)
    (hto : byteLen tx.to = 20 ∧ isZeroAddr tx.to = true)
    (hval : s.isValidator tx.from_ = true)
    (hfresh : s.props.get e (ledgerKey tx.hash) = none)
    (hfut : start > h) (hmin : s.active.minVotingPeriodBlocks ≤ period) (hmax : period ≤ s.active.maxVotingPeriodBlocks)
    (hh : HeightsAccepted start period s.active.lazyApplyingBlocks applying)
    (hne : opts ≠ [])
    (hparse : optType = PROPOSAL_GOVPARAMS → ∀ o ∈ opts, o.parsedV.isSome = true ∧ o.parsedA.isSome = true) :
    validateProposal s e h tx = .ok s := by
  obtain ⟨h1, h2, h3⟩ := hh
  unfold validateProposal
  rw [hpay]
  simp only [bind, Except.bind, pure, Except.pure, throw, throwThe, MonadExceptOf.throw]
  rw [if_neg (by simp [hto.1, hto.2]), if_neg (by simp [hval])]
  rw [if_neg (by simp [hfresh]), if_neg (by omega), if_neg (by omega)]
  have hp : ¬ (optType = PROPOSAL_GOVPARAMS ∧ (opts.any fun o => o.parsedV.isNone || o.parsedA.isNone) = true) := by
    rintro ⟨h1, h2⟩
    rw [List.any_eq_true] at h2
    obtain ⟨o, ho, h3⟩ := h2
    obtain ⟨a, b⟩ := hparse h1 o ho
    cases hv : o.parsedV <;> cases ha : o.parsedA <;> simp [hv, ha] at a b h3
  rw [if_neg hp]
  rw [if_neg (by omega), if_neg (by omega), if_neg (by cases opts <;> simp_all)]

/-! ### the concrete run -/

/-- `C10P.exG` with voting periods of exactly 10 blocks and 10 blocks between the end of voting and applying -/
def ovG : Genesis :=
  { exG with params := { exG.params with minVotingPeriodBlocks := 10, maxVotingPeriodBlocks := 10,
                                         lazyApplyingBlocks := 10 } }

/-- voting from 2^63 - 11 for 10 blocks (end = 2^63 - 1), applying at 2^63 - 1 -/
def ovTx : TxIn :=
  { hash := "b0", sigOk := true, from_ := addrA, to := addrZ, gas := 1, price := 1, type := TRX_PROPOSAL,
    payload := .proposal "" 9223372036854775797 10 9223372036854775807 PROPOSAL_GOVPARAMS [voA, voB] }

/-- blocks 1 and 2 (empty), BeginBlock 3 … -/
def ovS3 : St := exec (initChain ovG) pre3
/-- … and the proposal delivered in block 3 -/
def ovSP : St := exec (initChain ovG) (pre3 ++ [.deliver ovTx])

theorem ovS3_reachable : Reachable ovG ovS3 := ⟨pre3, by decide, rfl⟩
theorem ovSP_reachable : Reachable ovG ovSP := ⟨pre3 ++ [.deliver ovTx], by decide, rfl⟩
theorem ovSP_phase : phaseRun .idle (pre3 ++ [.deliver ovTx]) = some .inBlock := by decide

theorem ovS3_blk : ovS3.blk = some { height := 3 } := by decide
theorem ovS3_lazy : ovS3.active.lazyApplyingBlocks = 10 := by decide
theorem ovS3_sender : ovS3.findAcct true addrA = some { addr := addrA, bal := 1000 } := by decide
theorem ovS3_lastVals_raw : ovS3.lastVals = sortByPower (List.take 10 (sortByPower [dA])) := rfl
theorem ovS3_lastVals : ovS3.lastVals = [dA] := by
  rw [ovS3_lastVals_raw]; simp [sortByPower]

/-- the state validation sees: the receiver (the zero address) got its account record -/
def ovS3z : St := (ovS3.findOrNewAcct true ovTx.to).1

theorem ovS3z_validator : ovS3z.isValidator ovTx.from_ = true := by
  have h : ovS3z.lastVals = ovS3.lastVals := (findOrNewAcct_frAll ovS3 true ovTx.to).1.2.2.2.2.1
  unfold St.isValidator
  rw [h, ovS3_lastVals]
  decide

theorem ovS3z_lazy : ovS3z.active.lazyApplyingBlocks = 10 := by decide

/-- the three height tests pass: the second sum wraps to -2^63 + 9 -/
theorem ov_heights : HeightsAccepted 9223372036854775797 10 ovS3z.active.lazyApplyingBlocks 9223372036854775807 := by
  rw [ovS3z_lazy]
  exact ⟨by decide, by decide, by decide⟩

example : wrapInt64 (wrapInt64 (9223372036854775797 + 10) + 10) = -9223372036854775799 := by decide

theorem ovS3z_accepts : validateProposal ovS3z true 3 ovTx = .ok ovS3z :=
  validateProposal_acceptW (msg := "") (start := 9223372036854775797) (period := 10) (applying := 9223372036854775807)
    (optType := PROPOSAL_GOVPARAMS) (opts := [voA, voB]) rfl ⟨by decide, by simp [isZeroAddr, ovTx, addrZ]⟩
    ovS3z_validator (by decide) (by decide) (by decide) (by decide) ov_heights (by simp)
    (by intro _ o ho; simp at ho; rcases ho with rfl | rfl <;> exact ⟨rfl, rfl⟩)

/-- the former model function (unbounded integers) refused it -/
theorem ovS3z_old_rejects : validateProposalOld ovS3z true 3 ovTx = .error (.err "payloadparams") := by
  have hz : (byteLen ovTx.to == 20) = true ∧ isZeroAddr ovTx.to = true := ⟨by decide, by simp [isZeroAddr, ovTx, addrZ]⟩
  have hf : ovS3z.props.get true (ledgerKey ovTx.hash) = none := by decide
  have h1 : ovS3z.active.maxVotingPeriodBlocks = 10 := by decide
  have h2 : ovS3z.active.minVotingPeriodBlocks = 10 := by decide
  have hpay : ovTx.payload = .proposal "" 9223372036854775797 10 9223372036854775807 PROPOSAL_GOVPARAMS [voA, voB] := rfl
  unfold validateProposalOld
  rw [hpay]
  simp only [bind, Except.bind, pure, Except.pure, throw, throwThe, MonadExceptOf.throw]
  rw [if_neg (by simp [hz.1, hz.2]), if_neg (by simp [ovS3z_validator])]
  rw [if_neg (by simp [hf]), if_neg (by decide), if_neg (by rw [h1, h2]; decide)]
  rw [if_neg (by simp [voA, voB]), if_neg (by decide), if_pos (by rw [ovS3z_lazy]; decide)]

/-- DeliverTx of the proposal is answered with code 0 -/
theorem ovTx_code0 : (handleTx ovS3 true 3 ovTx).2.code = 0 :=
  proposal_code0 (sender := { addr := addrA, bal := 1000 }) (msg := "") (start := 9223372036854775797) (period := 10)
    (applying := 9223372036854775807) (optType := PROPOSAL_GOVPARAMS) (opts := [voA, voB]) rfl rfl rfl ovS3_sender
    rfl rfl ovS3z_accepts
    ⟨{ addr := addrA, bal := 1000 }, { addr := addrA, bal := 999 }, by decide, by decide⟩

/-- the open-proposal ledger after the transaction -/
theorem ovTx_props :
    (handleTx ovS3 true 3 ovTx).1.props = ovS3.props.set true (ledgerKey "b0")
      (snapshotProposal ovS3 ovTx 9223372036854775797 10 9223372036854775807 PROPOSAL_GOVPARAMS [voA, voB]) := by
  obtain ⟨msg, start, period, applying, optType, opts, acc, hprops⟩ :=
    proposal_successW (s := ovS3) (e := true) (h := 3) rfl ovTx_code0
  have hp := acc.payload
  have hp' : Payload.proposal "" 9223372036854775797 10 9223372036854775807 PROPOSAL_GOVPARAMS [voA, voB] =
      Payload.proposal msg start period applying optType opts := hp
  cases hp'
  exact hprops

theorem ovSP_props :
    ovSP.props = ovS3.props.set true (ledgerKey "b0")
      (snapshotProposal ovS3 ovTx 9223372036854775797 10 9223372036854775807 PROPOSAL_GOVPARAMS [voA, voB]) := by
  have h1 : ovSP = (step ovS3 (.deliver ovTx)).1 := exec_snoc _ _ _
  rw [h1]
  show (deliverTx ovS3 ovTx).1.props = _
  rw [deliverTx_props ovS3_blk]
  exact ovTx_props

/-- the hypothesis of `proposal_success` fails on this input (int64 fields, but the whole sum is 2^63 + 9) -/
theorem ov_not_fit : ¬ ProposalHeightsFit ovS3 ovTx := by
  unfold ProposalHeightsFit
  show ¬ (I64 9223372036854775797 ∧ I64 10 ∧ I64 ovS3.active.lazyApplyingBlocks ∧
    HeightsFit 9223372036854775797 10 ovS3.active.lazyApplyingBlocks)
  rw [ovS3_lazy]
  decide

/-- the stored proposal -/
theorem ov_stored :
    ∃ p, (handleTx ovS3 true 3 ovTx).1.props.get true (ledgerKey ovTx.hash) = some p ∧
      ovSP.props.fin[ledgerKey ovTx.hash]? = some p ∧
      p.start = 9223372036854775797 ∧ p.end_ = 9223372036854775807 ∧ p.applying = 9223372036854775807 ∧
      p.applying < p.start + 10 + ovS3.active.lazyApplyingBlocks := by
  refine ⟨snapshotProposal ovS3 ovTx 9223372036854775797 10 9223372036854775807 PROPOSAL_GOVPARAMS [voA, voB],
    ?_, ?_, rfl, by decide, rfl, ?_⟩
  · rw [ovTx_props]
    show (ovS3.props.set true (ledgerKey "b0") _).get true (ledgerKey "b0") = _
    simp [Led.get, Led.set]
  · rw [ovSP_props]
    show (ovS3.props.set true (ledgerKey "b0") _).fin[ledgerKey "b0"]? = _
    simp [Led.set]
  · rw [ovS3_lazy]
    show (9223372036854775807 : Int) < 9223372036854775797 + 10 + 10
    decide

end Rigo.C15
