/-
  C10 — `beginBlock` recomputes the eligible delegatees from the committed ledger and leaves `lastVals` alone.
-/
import RigoProofs.C10Mirror
import RigoProofs.C14Frame
import RigoProofs.C14Jail
open Std

namespace Rigo.TM

open Rigo.C14L

theorem rewardTo_lists (s : St) (d : Delegatee) (H : Int) (s' : St) (n : Nat) (h : rewardTo s d H = .ok (s', n)) :
    s'.allDelegs = s.allDelegs ∧ s'.lastVals = s.lastVals ∧ s'.active = s.active ∧ s'.delegs = s.delegs := by
  unfold rewardTo at h
  have key : ∀ (ss : List Stake) (G : Res (St × Nat) → Stake → Res (St × Nat)),
      (∀ e x, G (.panic e) x = .panic e) →
      (∀ s n x s' n', G (.ok (s, n)) x = .ok (s', n') →
        s'.allDelegs = s.allDelegs ∧ s'.lastVals = s.lastVals ∧ s'.active = s.active ∧ s'.delegs = s.delegs) →
      ∀ (acc : Res (St × Nat)) (s' : St) (n : Nat), ss.foldl G acc = .ok (s', n) →
      ∃ s0 n0, acc = .ok (s0, n0) ∧ s'.allDelegs = s0.allDelegs ∧ s'.lastVals = s0.lastVals ∧ s'.active = s0.active ∧
        s'.delegs = s0.delegs := by
    intro ss G hG0 hG
    induction ss with
    | nil => intro acc s' n h; exact ⟨s', n, h, rfl, rfl, rfl, rfl⟩
    | cons st ss ih =>
      intro acc s' n h
      rw [List.foldl_cons] at h
      obtain ⟨s1, n1, h1, ha, hl, hact, hd⟩ := ih _ s' n h
      cases acc with
      | panic p => rw [hG0] at h1; cases h1
      | ok a =>
        obtain ⟨s0, n0⟩ := a
        obtain ⟨g1, g2, g3, g4⟩ := hG s0 n0 st s1 n1 h1
        exact ⟨s0, n0, rfl, ha.trans g1, hl.trans g2, hact.trans g3, hd.trans g4⟩
  obtain ⟨s0, n0, h0, ha, hl, hact, hd⟩ := key d.stakes _ (fun _ _ => rfl)
    (by
      intro s n x s' n' hG
      simp only at hG
      split at hG
      · cases hG
      · cases hG; exact ⟨rfl, rfl, rfl, rfl⟩) _ s' n h
  cases h0
  exact ⟨ha, hl, hact, hd⟩

theorem processVote_lists (s : St) (H : Int) (rl : KMap Delegatee) (v : VoteIn) (issued : Nat) (s' : St) (n : Nat)
    (h : processVote s H rl v issued = .ok (s', n)) :
    s'.allDelegs = s.allDelegs ∧ s'.lastVals = s.lastVals ∧ s'.active = s.active := by
  unfold processVote at h
  split at h
  · split at h
    · cases h; exact ⟨rfl, rfl, rfl⟩
    · split at h
      · cases h; exact ⟨rfl, rfl, rfl⟩
      · split at h
        · cases h
        · rename_i s1 i hr
          cases h
          have := rewardTo_lists _ _ _ _ _ hr
          exact ⟨this.1, this.2.1, this.2.2.1⟩
  · split at h
    · cases h; exact ⟨rfl, rfl, rfl⟩
    · simp only at h
      split at h <;> split at h <;> (cases h; exact ⟨rfl, rfl, rfl⟩)

theorem votePhase_lists (s : St) (h : Header) (pS pG : List Int) :
    (votePhase s h pS pG).1.allDelegs = s.allDelegs ∧ (votePhase s h pS pG).1.lastVals = s.lastVals ∧
    (votePhase s h pS pG).1.active = s.active := by
  unfold votePhase
  split
  · exact ⟨rfl, rfl, rfl⟩
  · simp only
    split
    · exact ⟨rfl, rfl, rfl⟩
    · rename_i rl _
      have key : ∀ (vs : List VoteIn) (acc : Res (St × Nat)) (s' : St) (n : Nat),
          vs.foldl (fun acc v =>
            match acc with
            | .panic p => .panic p
            | .ok (s, issued) => processVote s h.height rl v issued) acc = .ok (s', n) →
          ∃ s0 n0, acc = .ok (s0, n0) ∧ s'.allDelegs = s0.allDelegs ∧ s'.lastVals = s0.lastVals ∧ s'.active = s0.active := by
        intro vs
        induction vs with
        | nil => intro acc s' n h; exact ⟨s', n, h, rfl, rfl, rfl⟩
        | cons v vs ih =>
          intro acc s' n h
          rw [List.foldl_cons] at h
          obtain ⟨s1, n1, h1, ha, hl, hact⟩ := ih _ s' n h
          cases acc with
          | panic p => simp at h1
          | ok a =>
            obtain ⟨s0, n0⟩ := a
            simp only at h1
            obtain ⟨g1, g2, g3⟩ := processVote_lists _ _ _ _ _ _ _ h1
            exact ⟨s0, n0, rfl, ha.trans g1, hl.trans g2, hact.trans g3⟩
      split
      · exact ⟨rfl, rfl, rfl⟩
      · rename_i s' issued hr
        obtain ⟨s0, n0, h0, ha, hl, hact⟩ := key _ _ _ _ hr
        cases h0
        exact ⟨ha, hl, hact⟩

/-- **`beginBlock` and the validator lists**: `lastVals` and the active parameters are never touched; when the
    block is accepted (`height = lastHeight + 1`, and the minimum validator stake converts to a power)
    `allDelegs` becomes the committed delegatees with `self ≥ minPower`, power-sorted. -/
theorem beginBlock_lists (s : St) (h : Header) :
    (beginBlock s h).1.lastVals = s.lastVals ∧ (beginBlock s h).1.active = s.active ∧
    ((beginBlock s h).1.allDelegs = s.allDelegs ∨
      ∃ minPower, amountToPower s.active.minValidatorStake = .ok minPower ∧
        (beginBlock s h).1.allDelegs = eligible s minPower) := by
  by_cases hh : h.height = s.lastHeight + 1
  · rw [beginBlock_phases s h hh]
    have hg := govFold_frame h.evidence { s with blk := some { height := h.height, time := h.time, proposer := h.proposer } }
    simp only at hg
    obtain ⟨g1, g2, g3, g4, g5, g6, g7, g8, g9, g10, g11, g12, g13, g14⟩ := hg
    have hact : (afterGovPunish s h).1.active = s.active := g7
    rw [hact]
    cases hmp : amountToPower s.active.minValidatorStake with
    | panic p => exact ⟨g8, g7, Or.inl g9⟩
    | ok minPower =>
      simp only
      obtain ⟨v1, v2, v3⟩ := votePhase_lists (afterPunish s h minPower).1 h (afterPunish s h minPower).2 (afterGovPunish s h).2
      have hs := stakeFold_frame h.evidence
        { (afterGovPunish s h).1 with
            allDelegs := eligible (afterGovPunish s h).1 minPower,
            limiter := Limiter.reset (eligible (afterGovPunish s h).1 minPower) (afterGovPunish s h).1.active.maxValidatorCnt
              (afterGovPunish s h).1.active.maxIndividualStakeRatio (afterGovPunish s h).1.active.maxUpdatableStakeRatio }
      simp only at hs
      obtain ⟨h1, h2, h3, h4, h5, h6, h7, h8, h9, _⟩ := hs
      refine ⟨v2.trans (h8.trans g8), v3.trans (h7.trans g7), Or.inr ⟨minPower, rfl, ?_⟩⟩
      rw [v1]
      unfold afterPunish
      rw [h9]
      unfold eligible
      have : (afterGovPunish s h).1.delegs = s.delegs := g2
      rw [this]
  · unfold beginBlock
    rw [if_pos hh]
    exact ⟨rfl, rfl, Or.inl rfl⟩

end Rigo.TM
