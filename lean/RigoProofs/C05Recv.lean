/-
  C05 — "later transactions observe the unchanged state" after repair 26f8ae4 (a receiver of a wrong
  length gets no account record): the collision hypotheses of `failed_tx_invisible_partial` /
  `failed_tx_invisible_wf` are needed for 20-byte receivers only.

  * a failed transaction whose receiver is not 20 bytes long returns the state it was given
    (`deliverTx_badlen`), so nothing has to be assumed about it;
  * a later transaction whose receiver is not 20 bytes long fails in validation without touching the
    state, before and after the failed transaction alike.
  What remains is: receivers are hex strings of whole bytes (`EvenHex`; every decoded transaction is),
  and the addresses the EVM result lists are 20-byte addresses (an oracle fact: go-ethereum addresses).
-/
import RigoProofs.C05CongrMain
open Std
set_option linter.unusedSimpArgs false
set_option linter.unusedVariables false
namespace Rigo.C05C
open Rigo

/-- **A receiver of a wrong length is invisible, unconditionally**: the delivery returns the state it
    was given, so every later delivery behaves exactly as if it had never happened. -/
theorem wrong_length_receiver_invisible (s : St) (tx : TxIn) (hl : byteLen tx.to ≠ 20) (later : TxIn) :
    deliverTx (deliverTx s tx).1 later = deliverTx s later := by
  rw [deliverTx_badlen hl]

/-- **failed_tx_invisible, receiver hypotheses for 20-byte receivers only.**  As
    `failed_tx_invisible_partial`, but `KeyCompat` / `CreatedListed` are asked for only when BOTH receivers
    are 20 bytes long.  (Failed receiver of another length: no record was created at all.  Later receiver
    of another length: the later transaction fails in validation, with the state unchanged, either way.) -/
theorem failed_tx_invisible_recv :
    ∀ (g : Genesis) (s : St), Reachable g s → ∀ tx : TxIn, FeeSane s → 0 < s.active.minTrxFee →
    (∀ a, s.accts.fin[ledgerKey tx.from_]? = some a → a.bal < 2 ^ 256) →
    (∀ o, (deliverTx s tx).2.tx = some o → o.code ≠ 0) →
    ∀ later : TxIn, (byteLen tx.to = 20 → byteLen later.to = 20 → KeyCompat tx later) →
      (byteLen tx.to = 20 → byteLen later.to = 20 → CreatedListed tx later) →
      ((deliverTx (deliverTx s tx).1 later).2.tx.map (·.code)) = ((deliverTx s later).2.tx.map (·.code)) ∧
      obs (deliverTx (deliverTx s tx).1 later).1 = obs (deliverTx s later).1 := by
  intro g s hr tx hF hm hB hf later hK hC
  by_cases hl : byteLen tx.to = 20
  case neg => rw [deliverTx_badlen hl]; exact ⟨rfl, rfl⟩
  by_cases hl2 : byteLen later.to = 20
  case pos => exact failed_tx_invisible_partial g s hr tx hF hm hB hf later (hK hl hl2) (hC hl hl2)
  have ho : obs (deliverTx s tx).1 = obs s := deliverTx_fail_obs (AcctInv_reachable hr).1 hF hB hf
  have hb : (deliverTx s tx).1.blk = s.blk := congrArg Obs.blk ho
  rw [deliverTx_badlen_codes hl2, deliverTx_badlen_codes hl2, deliverTx_badlen hl2, deliverTx_badlen hl2, hb]
  exact ⟨rfl, ho⟩

/-- a hex string of whole bytes (every decoded address is one) -/
def EvenHex (a : Hex) : Prop := a.length % 2 = 0

/-- the addresses the EVM synced in while running `t` are 20-byte addresses -/
def EvmIn20 (t : TxIn) : Prop := ∀ o, t.evm = some o → ∀ a ∈ o.accessed, a.length = 40

/-- the addresses the EVM synced in or out while running `t` are 20-byte addresses -/
def EvmAddrs20 (t : TxIn) : Prop :=
  ∀ o, t.evm = some o → ∀ a ∈ o.accessed ++ o.synced.map (·.1), a.length = 40

theorem len40_of_byteLen {a : Hex} (he : EvenHex a) (hl : byteLen a = 20) : a.length = 40 := by
  unfold EvenHex at he; unfold byteLen at hl; omega

theorem Addrs20.evenHex {t : TxIn} (h : Addrs20 t) : EvenHex t.to := by
  unfold EvenHex; rw [h t.to (by simp [touched])]

theorem Addrs20.evm {t : TxIn} (h : Addrs20 t) : EvmAddrs20 t := by
  intro o ho a ha
  exact h a (by simp only [touched, ho, List.mem_cons]; exact Or.inr ha)

theorem EvmAddrs20.in20 {t : TxIn} (h : EvmAddrs20 t) : EvmIn20 t :=
  fun o ho a ha => h o ho a (List.mem_append_left _ ha)

/-- **failed_tx_invisible without a length hypothesis on the receivers.**  As `failed_tx_invisible_wf`,
    but nothing is assumed about the LENGTH of either receiver: receivers are hex strings of whole bytes,
    the addresses listed by the EVM results are 20-byte addresses (for the failed transaction only those
    synced in matter), and a deployment's created address is listed. -/
theorem failed_tx_invisible_recv20 :
    ∀ (g : Genesis) (s : St), Reachable g s → ∀ tx : TxIn, FeeSane s → 0 < s.active.minTrxFee →
    (∀ a, s.accts.fin[ledgerKey tx.from_]? = some a → a.bal < 2 ^ 256) →
    (∀ o, (deliverTx s tx).2.tx = some o → o.code ≠ 0) → EvenHex tx.to → EvmIn20 tx →
    ∀ later : TxIn, EvenHex later.to → EvmAddrs20 later → EvmCreatedListed later →
      ((deliverTx (deliverTx s tx).1 later).2.tx.map (·.code)) = ((deliverTx s later).2.tx.map (·.code)) ∧
      obs (deliverTx (deliverTx s tx).1 later).1 = obs (deliverTx s later).1 := by
  intro g s hr tx hF hm hB hf he hin later he' hev hC
  refine failed_tx_invisible_recv g s hr tx hF hm hB hf later ?_ ?_
  · intro hl hl2 x hx a ha hk
    have hx40 : x.length = 40 := by
      unfold freshAddrs at hx
      rcases List.mem_cons.1 hx with rfl | hx
      · exact len40_of_byteLen he hl
      · cases ho : tx.evm with
        | none => rw [ho] at hx; cases hx
        | some o => rw [ho] at hx; exact hin o ho x hx
    have ha40 : a.length = 40 := by
      unfold touched at ha
      rcases List.mem_cons.1 ha with rfl | ha
      · exact len40_of_byteLen he' hl2
      · cases ho : later.evm with
        | none => rw [ho] at ha; cases ha
        | some o => rw [ho] at ha; exact hev o ho a ha
    exact ledgerKey_inj40' hx40 ha40 hk
  · intro _ _ o ho hok hz
    rcases hC o ho hok hz with h | h
    · exact Or.inl h
    · exact Or.inr (Or.inl h)

/-- `failed_tx_invisible_wf` is the special case of 20-byte receivers -/
theorem failed_tx_invisible_wf_of_recv20 :
    ∀ (g : Genesis) (s : St), Reachable g s → ∀ tx : TxIn, FeeSane s → 0 < s.active.minTrxFee →
    (∀ a, s.accts.fin[ledgerKey tx.from_]? = some a → a.bal < 2 ^ 256) →
    (∀ o, (deliverTx s tx).2.tx = some o → o.code ≠ 0) → Addrs20 tx →
    ∀ later : TxIn, Addrs20 later → EvmCreatedListed later →
      ((deliverTx (deliverTx s tx).1 later).2.tx.map (·.code)) = ((deliverTx s later).2.tx.map (·.code)) ∧
      obs (deliverTx (deliverTx s tx).1 later).1 = obs (deliverTx s later).1 :=
  fun g s hr tx hF hm hB hf hw later hw' hC =>
    failed_tx_invisible_recv20 g s hr tx hF hm hB hf hw.evenHex hw.evm.in20 later hw'.evenHex hw'.evm hC

end Rigo.C05C
