/-
  C13 / pipeline (4): `votes_match_ledger` — the former trusted-harness assumption of C13 — as a theorem.

  Chain: validator set in force at block H−1
           = genesis set changed by the answers of EndBlock(1..H−3)                    [+2 rule, `tmValset`]
           = ∅ changed by the same answers                                             [`GenesisCovered`]
           = set standing for `lastVals` after EndBlock(H−3)                            [C10 `valset_mirror_run`]
           = top-N eligible records of the ledger version committed by block H−4       [`block_lastVals`]
         and `hopOf H = H − 4` for H ≥ 5.
-/
import RigoProofs.C13PipelineStep
import RigoProofs.C13Issuance

open Std

namespace Rigo.C13P
open Rigo Rigo.TM Rigo.C14L Rigo.C19

/-- the hypotheses on a run, bundled: the C10 input hypotheses (`InputsOK`: genesis validator addresses are 40 hex
    digits with key `f address` and non-negative power; delivered transactions carry even-length hex targets, self-staking
    transactions the key `f sender`), sane active parameters along the run (`ParamsAlong`; follows from the inputs by
    `C10P.paramsAlong_of_inputs`), the ABCI call order, no panic answer, and the genesis set announced by block 2. -/
structure RunOK (f : Hex → Hex) (g : Genesis) (ops : List Op) : Prop where
  inputs : InputsOK f g ops
  params : ParamsAlong (initChain g) ops
  phased : ∃ q, phaseRun .idle ops = some q
  noPanic : NoPanic g ops
  covered : GenesisCovered g ops

theorem reachable_prefix (g : Genesis) {p : Phase} {a b : List Op} {q : Phase} (h : phaseRun p (a ++ b) = some q) :
    Reachable g (exec (initChain g) a) :=
  ⟨a, fun op ho => phaseRun_notInit h op (by simp [ho]), rfl⟩

theorem committed_eq_last {α : Type} (l : Led α) (n : Int) (h1 : 1 ≤ n) (hl : l.hist.length = n.toNat) :
    atH l.hist n = some l.committed := by
  rw [atH_of_pos _ _ h1]
  unfold Led.committed
  rw [List.getLast?_eq_getElem?, hl]
  cases hx : l.hist[n.toNat - 1]? with
  | none => exfalso; rw [List.getElem?_eq_none_iff] at hx; omega
  | some m => rfl

theorem committed_mem_hist {α : Type} (l : Led α) (h : l.hist ≠ []) : l.committed ∈ l.hist := by
  unfold Led.committed
  cases hl : l.hist.getLast? with
  | none => exact absurd (List.getLast?_eq_none_iff.mp hl) h
  | some m => exact List.mem_of_getLast? hl

theorem mem_flatten_take {α : Type} {l : List (List α)} {n : Nat} {u : α} (h : u ∈ (l.take n).flatten) : u ∈ l.flatten := by
  obtain ⟨x, hx, hu⟩ := List.mem_flatten.mp h
  exact List.mem_flatten.mpr ⟨x, List.mem_of_mem_take hx, hu⟩

/-- **the pipeline at an explicit position**: the run is cut as
    `p0 ++ [BeginBlock hd3] ++ mid ++ [EndBlock] ++ p2 ++ [BeginBlock hdr] ++ post` where `mid` are the transactions of
    the block opened by `hd3` and `p2` contains exactly two EndBlock calls (so `hd3` opens block `H − 3`,
    `H = hdr.height`).  Then `H ≥ 5`, the state `exec (initChain g) p0` at BeginBlock(H−3) has last height `H − 4`, the
    ledger version `H − 4` read at BeginBlock(H) is the version committed in that state, and the validator set
    Tendermint has in force for block `H − 1` stands for the first `maxValidatorCnt` eligible records of that version. -/
theorem pipeline_at {f : Hex → Hex} (finj : Injective f) {g : Genesis} {ops : List Op} (ok : RunOK f g ops)
    {p0 mid p2 post : List Op} {hd3 hdr : Header}
    (e : ops = (p0 ++ .begin_ hd3 :: mid ++ .end_ :: p2) ++ .begin_ hdr :: post)
    (hmid : ∀ op ∈ mid, isTx op = true) (hc2 : endCount p2 = 2) (h5 : 5 ≤ hdr.height) :
    ∃ mp : Int,
      (exec (initChain g) p0).lastHeight = hdr.height - 4 ∧
      amountToPower (exec (initChain g) p0).active.minValidatorStake = .ok mp ∧
      (exec (initChain g) (p0 ++ .begin_ hd3 :: mid ++ .end_ :: p2)).delegs.at? (hdr.height - 4) =
        some (exec (initChain g) p0).delegs.committed ∧
      tmValset g (p0 ++ .begin_ hd3 :: mid ++ .end_ :: p2) (hdr.height - 1) =
        asSet (sortByPower ((eligible (exec (initChain g) p0) mp).take (exec (initChain g) p0).active.maxValidatorCnt.toNat)) ∧
      hdr.height = (exec (initChain g) (p0 ++ .begin_ hd3 :: mid ++ .end_ :: p2)).lastHeight + 1 := by
  obtain ⟨q, hph⟩ := ok.phased
  subst e
  have hpre : phaseRun .idle (p0 ++ .begin_ hd3 :: mid ++ .end_ :: p2) = some .idle := before_begin_idle hph
  have hnp : NoPanicFrom (initChain g) ((p0 ++ .begin_ hd3 :: mid ++ .end_ :: p2) ++ .begin_ hdr :: post) := ok.noPanic
  obtain ⟨np1, np2⟩ := hnp.append
  have hH : hdr.height = (exec (initChain g) (p0 ++ .begin_ hd3 :: mid ++ .end_ :: p2)).lastHeight + 1 :=
    beginBlock_height_of_noPanic _ _ np2.cons.1
  have hh := heights g _ .idle hpre np1
  simp only [HInv] at hh
  have hp1 : phaseRun .idle (p0 ++ .begin_ hd3 :: mid) = some .inBlock := before_end_inBlock hpre
  have hp0 : phaseRun .idle p0 = some .idle := before_begin_idle hp1
  -- panic-freedom of that block's BeginBlock and EndBlock
  obtain ⟨np3, np4⟩ := np1.append
  have hend : (endBlock (exec (initChain g) (p0 ++ .begin_ hd3 :: mid))).2.panic = "" := np4.cons.1
  obtain ⟨np5, np6⟩ := np3.append
  have hbeg : (beginBlock (exec (initChain g) p0) hd3).2.panic = "" := np6.cons.1
  rw [exec_append] at hend
  obtain ⟨hh3, mp, hmp, hlv, _⟩ := block_lastVals hmid hbeg hend
  -- heights at BeginBlock(H−3)
  have hh0 := heights g p0 .idle hp0 np5
  simp only [HInv] at hh0
  have hcm : endCount (Op.begin_ hd3 :: mid) = 0 := by
    rw [endCount_cons_other _ _ rfl]; exact endCount_txs mid hmid
  have hcpre : endCount (p0 ++ Op.begin_ hd3 :: mid ++ Op.end_ :: p2) = endCount p0 + 1 + endCount p2 := by
    rw [endCount_append, endCount_append, hcm, endCount_cons_end]; omega
  have hL : (exec (initChain g) p0).lastHeight = hdr.height - 4 := by omega
  refine ⟨mp, hL, hmp, ?_, ?_, hH⟩
  · -- the ledger version
    have hr : Reachable g (exec (initChain g) p0) :=
      ⟨p0, phaseRun_notInit hp0, rfl⟩
    have hv := versions_agree_of_reachable hr
    have hlen : (exec (initChain g) p0).delegs.hist.length = (hdr.height - 4).toNat := by
      have := hv.2.2.1
      simp only [frame] at this
      rw [this, hL]
    have hpfx : (exec (initChain g) p0).delegs.hist <+:
        (exec (initChain g) (p0 ++ Op.begin_ hd3 :: mid ++ Op.end_ :: p2)).delegs.hist := by
      rw [List.append_assoc, exec_append]
      exact (exec_prefix _ (fun op ho => phaseRun_notInit hpre op
        (by rw [List.append_assoc]; exact List.mem_append_right _ ho)) _).2.1
    rw [at?_eq_atH, atH_prefix hpfx _ (by omega) (by omega)]
    exact committed_eq_last _ _ (by omega) hlen
  · -- the engine's set
    have hn : (hdr.height - 1 - 2).toNat = endCount p0 + 1 := by omega
    unfold tmValset
    rw [hn, take_endUpdates _ _ _ _ (by rw [endCount_append, hcm]; omega) (by omega), ← updatesOf_run]
    have hcov : ∀ k, (genesisSet g)[k]? ≠ none →
        ∃ u ∈ updatesOf (run (initChain g) (p0 ++ Op.begin_ hd3 :: mid ++ [Op.end_])).2, u.1 = k := by
      intro k hk
      obtain ⟨v, hv, rfl⟩ := genesisSet_keys g k hk
      obtain ⟨u, hu, hu1⟩ := ok.covered v hv
      refine ⟨u, ?_, hu1⟩
      rw [updatesOf_run]
      have e' : p0 ++ Op.begin_ hd3 :: mid ++ Op.end_ :: p2 ++ Op.begin_ hdr :: post =
          (p0 ++ Op.begin_ hd3 :: mid ++ [Op.end_]) ++ (p2 ++ Op.begin_ hdr :: post) := by simp
      rw [e', endUpdates_append, List.take_append_of_le_length
        (by
          rw [endUpdates_length, endCount_append, endCount_append, hcm, endCount_cons_end]
          have : endCount ([] : List Op) = 0 := rfl
          omega)] at hu
      exact mem_flatten_take hu
    rw [applyUpdates_covered _ _ hcov]
    have hm := valset_mirror_run finj (p0 ++ Op.begin_ hd3 :: mid ++ [Op.end_]) (initChain g)
      (fun op ho => phaseRun_notInit hph op (by
        simp only [List.mem_append, List.mem_cons] at ho ⊢
        rcases ho with (ho | ho | ho) | ho
        · exact Or.inl (Or.inl (Or.inl ho))
        · exact Or.inl (Or.inl (Or.inr (Or.inl ho)))
        · exact Or.inl (Or.inl (Or.inr (Or.inr ho)))
        · simp at ho; subst ho; exact Or.inl (Or.inr (Or.inl rfl))))
      (initChain_valsetOK f g)
      (fun pre' post' e' => eligibleOK_along ok.inputs ok.params pre' (post' ++ (p2 ++ Op.begin_ hdr :: post))
        (by rw [← List.append_assoc, ← e']; simp))
    rw [(initChain_lists g).2.1] at hm
    have hnil : asSet ([] : List Delegatee) = ∅ := rfl
    rw [hnil] at hm
    rw [hm.1, List.append_assoc, exec_append]
    exact congrArg asSet hlv

/-- every BeginBlock of height `H ≥ 5` of a good run sits at such a position -/
theorem position_exists {g : Genesis} {ops : List Op} (hph : ∃ q, phaseRun .idle ops = some q) (hnp : NoPanic g ops)
    {pre : List Op} {hdr : Header} {post : List Op} (e : ops = pre ++ .begin_ hdr :: post) (h5 : 5 ≤ hdr.height) :
    ∃ p0 hd3 mid p2, pre = p0 ++ .begin_ hd3 :: mid ++ .end_ :: p2 ∧ (∀ op ∈ mid, isTx op = true) ∧ endCount p2 = 2 := by
  obtain ⟨q, hph⟩ := hph
  subst e
  have hpre : phaseRun .idle pre = some .idle := before_begin_idle hph
  have hnp' : NoPanicFrom (initChain g) (pre ++ .begin_ hdr :: post) := hnp
  obtain ⟨np1, np2⟩ := hnp'.append
  have hH : hdr.height = (exec (initChain g) pre).lastHeight + 1 :=
    beginBlock_height_of_noPanic _ _ np2.cons.1
  have hh := heights g pre .idle hpre np1
  simp only [HInv] at hh
  obtain ⟨p1, p2, e1, hc1⟩ := split_at_end pre (endCount pre - 2) (by omega) (by omega)
  subst e1
  have hp1 : phaseRun .idle p1 = some .inBlock := before_end_inBlock hpre
  obtain ⟨p0, hd3, mid, e0, hp0, hmid⟩ := inBlock_shape p1 hp1
  subst e0
  refine ⟨p0, hd3, mid, p2, rfl, hmid, ?_⟩
  have hcm : endCount (Op.begin_ hd3 :: mid) = 0 := by
    rw [endCount_cons_other _ _ rfl]; exact endCount_txs mid hmid
  have hcpre : endCount (p0 ++ Op.begin_ hd3 :: mid ++ Op.end_ :: p2) = endCount p0 + 1 + endCount p2 := by
    rw [endCount_append, endCount_append, hcm, endCount_cons_end]; omega
  rw [endCount_append, hcm] at hc1
  omega

/-- **the pipeline, state level**: at the BeginBlock of height `H ≥ 5` of a good run, with `pb` the part of the run
    before BeginBlock(H−3): the ledger version `H − 4` read by the reward code is the version committed when
    BeginBlock(H−3) ran, and the validator set Tendermint has in force for block `H − 1` is the set standing for
    the first `maxValidatorCnt` eligible records of that version. -/
theorem pipeline_core {f : Hex → Hex} (finj : Injective f) {g : Genesis} {ops : List Op} (ok : RunOK f g ops)
    {pre : List Op} {hdr : Header} {post : List Op} (e : ops = pre ++ .begin_ hdr :: post) (h5 : 5 ≤ hdr.height) :
    ∃ (pb rest : List Op) (mp : Int), pre = pb ++ rest ∧
      (exec (initChain g) pb).lastHeight = hdr.height - 4 ∧
      amountToPower (exec (initChain g) pb).active.minValidatorStake = .ok mp ∧
      (exec (initChain g) pre).delegs.at? (hdr.height - 4) = some (exec (initChain g) pb).delegs.committed ∧
      tmValset g pre (hdr.height - 1) =
        asSet (sortByPower ((eligible (exec (initChain g) pb) mp).take (exec (initChain g) pb).active.maxValidatorCnt.toNat)) ∧
      hdr.height = (exec (initChain g) pre).lastHeight + 1 := by
  obtain ⟨p0, hd3, mid, p2, e1, hmid, hc2⟩ := position_exists ok.phased ok.noPanic e h5
  subst e1
  obtain ⟨mp, h1, h3, h4, h5', h6⟩ := pipeline_at finj ok e hmid hc2 h5
  exact ⟨p0, Op.begin_ hd3 :: mid ++ Op.end_ :: p2, mp, by simp, h1, h3, h4, h5', h6⟩

/-- the selection EndBlock makes from a ledger version `rl`: eligible (self power ≥ `mp`), power-ranked, first `N` -/
def selected (rl : KMap Delegatee) (mp : Int) (N : Nat) : List Delegatee :=
  (sortByPower ((rl.toList.map (·.2)).filter fun d => d.self ≥ mp)).take N

/-- **valset_in_force** (ledger level): for `H ≥ 5` the validator set Tendermint has in force for block `H − 1` is
    exactly the selection (`selected`: eligible, power-ranked, truncated — with the minimum power `mp` and the count
    `N` that were active during block `H − 3`) from ledger version `H − 4`, each member with voting power = total
    bonded power in THAT version; the selected records have distinct addresses, key `f address`, positive total and
    sit under `ledgerKey address`. -/
theorem valset_in_force {f : Hex → Hex} (finj : Injective f) {g : Genesis} {ops : List Op} (ok : RunOK f g ops)
    {pre : List Op} {hdr : Header} {post : List Op} (e : ops = pre ++ .begin_ hdr :: post) (h5 : 5 ≤ hdr.height) :
    ∃ (rl : KMap Delegatee) (mp : Int) (N : Nat),
      (exec (initChain g) pre).delegs.at? (hdr.height - 4) = some rl ∧
      tmValset g pre (hdr.height - 1) = asSet (selected rl mp N) ∧
      (∀ pub p, (asSet (selected rl mp N))[pub]? = some p ↔ ∃ d ∈ selected rl mp N, d.pub = pub ∧ d.total = p) ∧
      ∀ d ∈ selected rl mp N, rl[ledgerKey d.addr]? = some d ∧ d.pub = f d.addr ∧ 0 < d.total ∧ d.self ≥ mp := by
  obtain ⟨pb, rest, mp, e1, hL, hmp, hat, hset, _⟩ := pipeline_core finj ok e h5
  subst e; subst e1
  refine ⟨(exec (initChain g) pb).delegs.committed, mp, (exec (initChain g) pb).active.maxValidatorCnt.toNat, hat, ?_, ?_, ?_⟩
  all_goals
    have hel := eligibleOK_along ok.inputs ok.params pb (rest ++ Op.begin_ hdr :: post) (by simp) mp hmp
    obtain ⟨hdist, hpub, hpos⟩ := hel
    have hsub : (selected (exec (initChain g) pb).delegs.committed mp (exec (initChain g) pb).active.maxValidatorCnt.toNat).Sublist
        (eligible (exec (initChain g) pb) mp) := List.take_sublist _ _
    have hpd : (selected (exec (initChain g) pb).delegs.committed mp (exec (initChain g) pb).active.maxValidatorCnt.toNat).Pairwise
        (fun a b => a.pub ≠ b.pub) := (pub_distinct_of_addr finj hdist hpub).sublist hsub
  · rw [hset]
    exact (asSet_perm (sortByPower_perm _) ((sortByPower_perm _).pairwise_iff (fun hab e => hab e.symm) |>.mpr hpd))
  · intro pub p
    constructor
    · intro h
      have : ∃ d ∈ selected (exec (initChain g) pb).delegs.committed mp (exec (initChain g) pb).active.maxValidatorCnt.toNat, d.pub = pub := by
        apply Classical.byContradiction
        intro hn
        rw [getElem?_asSet_of_not_mem _ pub (fun d hd e => hn ⟨d, hd, e⟩)] at h
        cases h
      obtain ⟨d, hd, rfl⟩ := this
      rw [getElem?_asSet_of_mem _ hpd d hd] at h
      exact ⟨d, hd, rfl, Option.some.inj h⟩
    · rintro ⟨d, hd, rfl, rfl⟩
      exact getElem?_asSet_of_mem _ hpd d hd
  · intro d hd
    have hde := hsub.subset hd
    obtain ⟨⟨k, hk⟩, hself⟩ := mem_eligible hde
    have hne : (exec (initChain g) pb).delegs.hist ≠ [] := by
      have hr : Reachable g (exec (initChain g) pb) :=
        ⟨pb, fun op ho => (ok.inputs.hist op (by simp [ho])).1, rfl⟩
      have := (versions_agree_of_reachable hr).2.2.1
      simp only [frame] at this
      intro h0; rw [h0] at this; simp at this; omega
    have hok := (history_delegsOK ok.inputs.genLen pb (History_prefix (pre := pb) (post := rest ++ Op.begin_ hdr :: post)
      (by rw [← List.append_assoc]; exact ok.inputs.hist))).2 _ (committed_mem_hist _ hne) k d hk
    rw [← hok.2.1]
    exact ⟨hk, hpub d hde, hpos d hde, hself⟩

/-- **votes_match_ledger** — the assumption C13 used to leave to the trusted harness.  In a good (`RunOK`), TM-faithful
    run, at every BeginBlock of height `H ≥ 5` (`pre` = the run before it, `exec (initChain g) pre` = the state it
    runs in) the delegatee ledger version `hopOf H = H − 4` exists and every vote of the header — signed or not — finds
    there, under the ledger key of its address, a delegatee whose total power EQUALS the vote's power. -/
theorem votes_match_ledger {f : Hex → Hex} (finj : Injective f) {g : Genesis} {ops : List Op} (ok : RunOK f g ops)
    (htm : TMFaithful f g ops) {pre : List Op} {hdr : Header} {post : List Op}
    (e : ops = pre ++ .begin_ hdr :: post) (h5 : 5 ≤ hdr.height) :
    ∃ rl, (exec (initChain g) pre).delegs.at? (hopOf hdr.height) = some rl ∧
      ∀ v ∈ hdr.votes, ∃ d, rl[ledgerKey v.addr]? = some d ∧ d.total = v.power ∧ d.addr = v.addr := by
  obtain ⟨rl, mp, N, hat, hset, hiff, hrec⟩ := valset_in_force finj ok e h5
  have hhop : hopOf hdr.height = hdr.height - 4 := by unfold hopOf; rw [if_neg (by omega)]
  refine ⟨rl, by rw [hhop]; exact hat, ?_⟩
  intro v hv
  have ht := htm pre hdr post e
  rw [if_neg (by omega)] at ht
  have h1 : (tmValset g pre (hdr.height - 1))[f v.addr]? = some v.power := (ht _ _).mpr ⟨v, hv, rfl, rfl⟩
  rw [hset] at h1
  obtain ⟨d, hd, hp, ht⟩ := (hiff _ _).mp h1
  obtain ⟨hk, hpub, _, _⟩ := hrec d hd
  have ha : d.addr = v.addr := finj _ _ (by rw [← hpub, hp])
  exact ⟨d, by rw [← ha]; exact hk, ht, ha⟩

/-- conversely ("exactly the validators of block H−1"): every selected record of version `H − 4` has a vote -/
theorem ledger_match_votes {f : Hex → Hex} (finj : Injective f) {g : Genesis} {ops : List Op} (ok : RunOK f g ops)
    (htm : TMFaithful f g ops) {pre : List Op} {hdr : Header} {post : List Op}
    (e : ops = pre ++ .begin_ hdr :: post) (h5 : 5 ≤ hdr.height) :
    ∃ rl mp N, (exec (initChain g) pre).delegs.at? (hopOf hdr.height) = some rl ∧
      ∀ d ∈ selected rl mp N, ∃ v ∈ hdr.votes, v.addr = d.addr ∧ v.power = d.total := by
  obtain ⟨rl, mp, N, hat, hset, hiff, hrec⟩ := valset_in_force finj ok e h5
  have hhop : hopOf hdr.height = hdr.height - 4 := by unfold hopOf; rw [if_neg (by omega)]
  refine ⟨rl, mp, N, by rw [hhop]; exact hat, ?_⟩
  intro d hd
  have ht := htm pre hdr post e
  rw [if_neg (by omega), hset] at ht
  obtain ⟨v, hv, hp, hpw⟩ := (ht _ _).mp ((hiff _ _).mpr ⟨d, hd, rfl, rfl⟩)
  exact ⟨v, hv, finj _ _ (by rw [hp, (hrec d hd).2.1]), hpw⟩

end Rigo.C13P
