/-
  C09 (run level), part 2: the side invariant `Aux` (limiter sanity, block-context height, reward record
  heights, non-negative committed delegatee powers) is kept by every operation.
-/
import RigoProofs.C09RunSide
import RigoProofs.C02Deep
open Std
set_option linter.unusedSimpArgs false
set_option linter.unusedVariables false

namespace Rigo.C09R
open Rigo

/-- every reward record of the view is of height ≤ `H` and stored under the key of its own address -/
def RewOK (H : Int) (m : KMap Reward) : Prop :=
  ∀ (k : String) (r : Reward), m[k]? = some r → r.height ≤ H ∧ ledgerKey r.addr = k

theorem RewOK.mono {H H' : Int} {m : KMap Reward} (h : RewOK H m) (hh : H ≤ H') : RewOK H' m := by
  intro k r hk; obtain ⟨a, b⟩ := h k r hk; exact ⟨by omega, b⟩

/-- what `StateOK` needs besides parameters, balances and delegatee powers -/
structure Aux (s : St) : Prop where
  /-- limiter nil, or base ≥ 0 and validator count ≥ 1 -/
  lim : LimOK s.limiter
  /-- a block in execution has height `lastHeight + 1` -/
  blkH : ∀ (b : BlockCtx), s.blk = some b → b.height = s.lastHeight + 1
  /-- reward records of both views are not above the height in execution (and sit under their key) -/
  rewFin : RewOK (s.lastHeight + 1) s.rewards.fin
  rewChk : RewOK (s.lastHeight + 1) s.rewards.chk
  /-- committed reward records are not above the committed height -/
  rewCom : RewOK s.lastHeight s.rewards.committed
  /-- committed delegatees have non-negative total power (input of the limiter reset) -/
  delCom : ∀ (k : String) (d : Delegatee), s.delegs.committed[k]? = some d → 0 ≤ d.total

/-! ### limiter reset -/

theorem sum_nonneg_of {l : List Int} (h : ∀ x ∈ l, 0 ≤ x) : 0 ≤ l.sum := by
  induction l with
  | nil => simp
  | cons a l ih =>
    simp only [List.sum_cons]
    have h1 := h a (by simp)
    have h2 := ih (fun x hx => h x (List.mem_cons_of_mem _ hx))
    omega

theorem LimOK_reset (ds : List Delegatee) (mc i u : Int) (hd : ∀ d ∈ ds, 0 ≤ d.total) (hm : 1 ≤ mc) :
    LimOK (Limiter.reset ds mc i u) := by
  unfold LimOK Limiter.reset
  right
  simp only []
  refine ⟨sum_nonneg_of ?_, hm⟩
  intro x hx
  simp only [List.mem_map, List.mem_filter] at hx
  obtain ⟨⟨d, j⟩, ⟨hmem, _⟩, rfl⟩ := hx
  rw [List.mk_mem_zipIdx_iff_getElem?] at hmem
  exact hd d (List.mem_of_getElem? hmem)

theorem LimOK_bbC {s : St} {m : Int} (hd : ∀ (k : String) (d : Delegatee), s.delegs.committed[k]? = some d → 0 ≤ d.total)
    (hm : 1 ≤ s.active.maxValidatorCnt) : LimOK (bbC s m).limiter := by
  unfold bbC
  simp only []
  apply LimOK_reset _ _ _ _ _ hm
  intro d hdm
  unfold sortByPower at hdm
  rw [List.mem_mergeSort] at hdm
  simp only [List.mem_filter, List.mem_map] at hdm
  obtain ⟨⟨⟨k, d'⟩, hkd, rfl⟩, _⟩ := hdm
  exact hd k d' (ExtTreeMap.mem_toList_iff_getElem?_eq_some.mp hkd)

/-! ### rewards in the vote loop -/

/-- the reward ledger after (part of) the vote loop at height `H`: committed versions and mempool view
    untouched, every consensus record is an old one or carries height `H` -/
def RewFin (H : Int) (l l' : Led Reward) : Prop :=
  l'.hist = l.hist ∧ l'.chk = l.chk ∧
  ∀ (k : String) (r : Reward), l'.fin[k]? = some r → l.fin[k]? = some r ∨ (r.height = H ∧ ledgerKey r.addr = k)

def KeysOK (m : KMap Reward) : Prop := ∀ (k : String) (r : Reward), m[k]? = some r → ledgerKey r.addr = k

theorem RewFin.keys {H : Int} {l l' : Led Reward} (h : RewFin H l l') (hk : KeysOK l.fin) : KeysOK l'.fin := by
  intro k r hr
  rcases h.2.2 k r hr with h1 | h1
  · exact hk k r h1
  · exact h1.2

theorem RewFin.refl (H : Int) (l : Led Reward) : RewFin H l l := ⟨rfl, rfl, fun _ _ h => Or.inl h⟩

theorem RewFin.trans {H : Int} {a b c : Led Reward} (h1 : RewFin H a b) (h2 : RewFin H b c) : RewFin H a c := by
  obtain ⟨a1, a2, a3⟩ := h1
  obtain ⟨b1, b2, b3⟩ := h2
  refine ⟨b1.trans a1, b2.trans a2, ?_⟩
  intro k r hk
  rcases b3 k r hk with h | h
  · exact a3 k r h
  · exact Or.inr h

theorem RewFin_set {H : Int} (l : Led Reward) (k : String) (w : Reward) (hw : w.height = H)
    (hkey : ledgerKey w.addr = k) : RewFin H l (l.set true k w) := by
  refine ⟨by simp, by simp [Led.set], ?_⟩
  intro k' r hk
  simp only [Led.set_fin_true] at hk
  rw [kmap_get_insert] at hk
  split at hk
  · rename_i hkk; injection hk with hk; subst hk; exact Or.inr ⟨hw, hkey.trans hkk⟩
  · exact Or.inl hk

theorem issue_addr {w w' : Reward} {r : Nat} {h : Int} (hw : w.issue r h = .ok w') : w'.addr = w.addr := by
  unfold Reward.issue at hw
  split at hw
  · cases hw; rfl
  · split at hw
    · cases hw; rfl
    · cases hw

theorem rewardStep_rew {height : Int} {s s' : St} {i i' : Nat} {st : Stake} (hk : KeysOK s.rewards.fin)
    (h : rewardStep height (.ok (s, i)) st = .ok (s', i')) : RewFin height s.rewards s'.rewards := by
  unfold rewardStep at h
  simp only [] at h
  split at h
  · cases h
  · rename_i w' hw
    cases h
    refine RewFin_set _ _ _ (issue_height hw) ?_
    rw [issue_addr hw]
    cases hg : s.rewards.get true (ledgerKey st.owner) with
    | none => rfl
    | some w0 =>
      simp only [Option.getD_some]
      have : s.rewards.fin[ledgerKey st.owner]? = some w0 := by simpa [Led.get] using hg
      exact hk _ _ this

theorem rewardTo_rew {s s' : St} {d : Delegatee} {height : Int} {i : Nat} (hk : KeysOK s.rewards.fin)
    (h : rewardTo s d height = .ok (s', i)) : RewFin height s.rewards s'.rewards := by
  rw [rewardTo_eq] at h
  refine C02.res_pair_fold (fun x => RewFin height s.rewards x.rewards) (rewardStep height) (fun _ _ => rfl) ?_
    d.stakes s 0 s' i (RewFin.refl _ _) h
  intro a j x a' j' ha hx
  exact ha.trans (rewardStep_rew (ha.keys hk) hx)

theorem processVote_rew {s s' : St} {height : Int} {rl : KMap Delegatee} {v : VoteIn} {i i' : Nat}
    (hk : KeysOK s.rewards.fin)
    (h : processVote s height rl v i = .ok (s', i')) : RewFin height s.rewards s'.rewards := by
  cases hv : v.signed with
  | true =>
    rw [processVote_signed _ _ _ _ _ hv] at h
    split at h
    · cases h; exact RewFin.refl _ _
    · split at h
      · cases h; exact RewFin.refl _ _
      · split at h
        · cases h
        · rename_i hr; cases h; exact rewardTo_rew hk hr
  | false =>
    rw [processVote_unsigned _ _ _ _ _ hv] at h
    split at h
    · cases h; exact RewFin.refl _ _
    · split at h
      · cases h; exact RewFin.refl _ _
      · cases h; exact RewFin.refl _ _

theorem bVotes_rew {s s' : St} {height : Int} {rl : KMap Delegatee} {votes : List VoteIn} {i' : Nat}
    (hk : KeysOK s.rewards.fin)
    (h : bVotes s height rl votes = .ok (s', i')) : RewFin height s.rewards s'.rewards := by
  unfold bVotes at h
  refine C02.res_pair_fold (fun x => RewFin height s.rewards x.rewards) (voteStep height rl) (fun _ _ => rfl) ?_
    votes s 0 s' i' (RewFin.refl _ _) h
  intro a j x a' j' ha hx
  exact ha.trans (processVote_rew (ha.keys hk) (by simpa [voteStep] using hx))

/-! ### BeginBlock -/

theorem aux_begin {s : St} (h : Header) (ha : Aux s) (hm : 1 ≤ s.active.maxValidatorCnt) : Aux (beginBlock s h).1 := by
  have key : LimOK (beginBlock s h).1.limiter ∧ (beginBlock s h).1.lastHeight = s.lastHeight ∧
      (∀ (b : BlockCtx), (beginBlock s h).1.blk = some b → b.height = s.lastHeight + 1) ∧
      (beginBlock s h).1.delegs.hist = s.delegs.hist ∧
      (s.lastHeight + 1 = h.height → RewFin h.height s.rewards (beginBlock s h).1.rewards) ∧
      (s.lastHeight + 1 ≠ h.height → (beginBlock s h).1.rewards = s.rewards) := by
    apply beginBlock_ind s h (fun x => LimOK x.limiter ∧ x.lastHeight = s.lastHeight ∧
      (∀ (b : BlockCtx), x.blk = some b → b.height = s.lastHeight + 1) ∧ x.delegs.hist = s.delegs.hist ∧
      (s.lastHeight + 1 = h.height → RewFin h.height s.rewards x.rewards) ∧
      (s.lastHeight + 1 ≠ h.height → x.rewards = s.rewards))
    · exact ⟨ha.lim, rfl, ha.blkH, rfl, fun _ => RewFin.refl _ _, fun _ => rfl⟩
    · intro hh
      obtain ⟨bf, e1, e2, _, e4, _, e6⟩ := bGov_fr (bbA s h) h.evidence
      obtain ⟨_, _, _, _, _, b6, _, _, b9, _, _, _⟩ := bf
      refine ⟨by rw [e6]; exact ha.lim, b6, ?_, by rw [b9]; rfl, fun _ => by rw [e1]; exact RewFin.refl _ _,
        fun hne => absurd hh.symm hne⟩
      intro b hb
      rw [e4] at hb
      simp only [bbA, Option.some.injEq] at hb
      subst hb; exact hh
    · intro hh m _
      obtain ⟨bf, e1, e2, _, e4, _, e6⟩ := bGov_fr (bbA s h) h.evidence
      obtain ⟨_, _, g3, _, _, b6, _, _, b9, _, _, _⟩ := bf
      obtain ⟨cf, ⟨c1, _, c3, _⟩, c5⟩ := bbC_fr (bGov (bbA s h) h.evidence).1 m
      obtain ⟨_, _, _, _, _, cb6, _, _, cb9, _, _, _⟩ := cf
      obtain ⟨df, d1, _, _, d4, _, d6⟩ := bStake_fr (bbC (bGov (bbA s h) h.evidence).1 m) h.evidence
      obtain ⟨_, _, _, _, _, db6, _, _, db9, _, _, _⟩ := df
      have hlim : LimOK (bbC (bGov (bbA s h) h.evidence).1 m).limiter := by
        apply LimOK_bbC
        · intro k d hk
          have : (bGov (bbA s h) h.evidence).1.delegs.committed = s.delegs.committed := by
            unfold Led.committed; rw [b9]; rfl
          rw [this] at hk
          exact ha.delCom k d hk
        · rw [g3]; exact hm
      refine ⟨by rw [d6]; exact hlim, by rw [db6, cb6, b6]; rfl, ?_, by rw [db9, cb9, b9]; rfl,
        fun _ => by rw [d1, c1, e1]; exact RewFin.refl _ _, fun hne => absurd hh.symm hne⟩
      intro b hb
      rw [d4, c5, e4] at hb
      simp only [bbA, Option.some.injEq] at hb
      subst hb; exact hh
    · intro hh m rl s' issued _ _ hv
      obtain ⟨bf, e1, e2, _, e4, _, e6⟩ := bGov_fr (bbA s h) h.evidence
      obtain ⟨_, _, g3, _, _, b6, _, _, b9, _, _, _⟩ := bf
      obtain ⟨cf, ⟨c1, _, c3, _⟩, c5⟩ := bbC_fr (bGov (bbA s h) h.evidence).1 m
      obtain ⟨_, _, _, _, _, cb6, _, _, cb9, _, _, _⟩ := cf
      obtain ⟨df, d1, _, _, d4, _, d6⟩ := bStake_fr (bbC (bGov (bbA s h) h.evidence).1 m) h.evidence
      obtain ⟨_, _, _, _, _, db6, _, _, db9, _, _, _⟩ := df
      obtain ⟨vf, _, v3, _, v5⟩ := bVotes_vfr hv
      obtain ⟨_, _, _, _, _, vb6, _, _, vb9, _, _, _⟩ := vf
      have hlim : LimOK (bbC (bGov (bbA s h) h.evidence).1 m).limiter := by
        apply LimOK_bbC
        · intro k d hk
          have : (bGov (bbA s h) h.evidence).1.delegs.committed = s.delegs.committed := by
            unfold Led.committed; rw [b9]; rfl
          rw [this] at hk
          exact ha.delCom k d hk
        · rw [g3]; exact hm
      have hrew := bVotes_rew (by rw [d1, c1, e1]; exact fun k r hk => (ha.rewFin k r hk).2) hv
      rw [d1, c1, e1] at hrew
      refine ⟨by rw [v5, d6]; exact hlim, by rw [vb6, db6, cb6, b6]; rfl, ?_, by rw [vb9, db9, cb9, b9]; rfl,
        fun _ => hrew, fun hne => absurd hh.symm hne⟩
      intro b hb
      rw [v3, d4, c5, e4] at hb
      simp only [bbA, Option.some.injEq] at hb
      subst hb; exact hh
  obtain ⟨k1, k2, k3, k4, k5, k6⟩ := key
  have hcomR : (beginBlock s h).1.rewards.committed = s.rewards.committed ∧
      (beginBlock s h).1.rewards.chk = s.rewards.chk ∧
      ∀ (k : String) (r : Reward), (beginBlock s h).1.rewards.fin[k]? = some r →
        s.rewards.fin[k]? = some r ∨ (r.height = s.lastHeight + 1 ∧ ledgerKey r.addr = k) := by
    by_cases hh : s.lastHeight + 1 = h.height
    · obtain ⟨r1, r2, r3⟩ := k5 hh
      refine ⟨by unfold Led.committed; rw [r1], r2, ?_⟩
      intro k r hk
      rw [hh]; exact r3 k r hk
    · rw [k6 hh]; exact ⟨rfl, rfl, fun _ _ hk => Or.inl hk⟩
  obtain ⟨q1, q2, q3⟩ := hcomR
  refine ⟨k1, ?_, ?_, ?_, ?_, ?_⟩
  · intro b hb; rw [k2]; exact k3 b hb
  · intro k r hk
    rw [k2]
    rcases q3 k r hk with h1 | h1
    · exact ha.rewFin k r h1
    · exact ⟨by omega, h1.2⟩
  · intro k r hk; rw [k2]; rw [q2] at hk; exact ha.rewChk k r hk
  · intro k r hk; rw [k2]; rw [q1] at hk; exact ha.rewCom k r hk
  · intro k d hk
    have : (beginBlock s h).1.delegs.committed = s.delegs.committed := by unfold Led.committed; rw [k4]
    rw [this] at hk; exact ha.delCom k d hk


/-! ### EndBlock leaves limiter, rewards, delegatees, block context and height alone -/

def EQ (s s' : St) : Prop :=
  s'.limiter = s.limiter ∧ s'.rewards = s.rewards ∧ s'.delegs = s.delegs ∧ s'.blk = s.blk ∧ s'.lastHeight = s.lastHeight ∧
  s'.accts.chk = s.accts.chk

theorem EQ.refl (s : St) : EQ s s := ⟨rfl, rfl, rfl, rfl, rfl, rfl⟩
theorem EQ.trans {a b c : St} (h1 : EQ a b) (h2 : EQ b c) : EQ a c := by unfold EQ at *; simp_all

theorem freezeProposals_eq' {s s' : St} {height : Int} (h : freezeProposals s height = .ok s') : EQ s s' := by
  rw [C15.freezeProposals_eq] at h
  refine C15.foldl_resStep_inv (C15.freezeOne height) (fun x => EQ s x) _ ?_ s s' (EQ.refl s) h
  intro x kp x' _ q hx
  unfold C15.freezeOne at hx
  refine q.trans ?_
  simp only [] at hx
  repeat' split at hx
  all_goals first | cases hx | skip
  all_goals exact ⟨rfl, rfl, rfl, rfl, rfl, rfl⟩

theorem applyProposals_eq' {s s' : St} {height : Int} (h : applyProposals s height = .ok s') : EQ s s' := by
  rw [C15.applyProposals_eq] at h
  refine C15.foldl_resStep_inv (C15.applyOne height) (fun x => EQ s x) _ ?_ s s' (EQ.refl s) h
  intro x kp x' _ q hx
  unfold C15.applyOne at hx
  refine q.trans ?_
  simp only [] at hx
  repeat' split at hx
  all_goals first | cases hx | skip
  all_goals exact ⟨rfl, rfl, rfl, rfl, rfl, rfl⟩

theorem EQ_setAcct (s : St) (a : Account) : EQ s (s.setAcct true a) :=
  ⟨rfl, rfl, rfl, rfl, rfl, by simp [St.setAcct, Led.set]⟩

theorem EQ_reward {s s1 : St} {a : Hex} {amt : Nat} (h : s.reward true a amt = some s1) : EQ s s1 := by
  unfold St.reward at h
  split at h
  · cases h
  · split at h
    · cases h
    · cases h; exact EQ_setAcct _ _

theorem feeHandover_eq' {s s' : St} {b : BlockCtx} (h : feeHandover s b = .ok s') : EQ s s' := by
  unfold feeHandover at h
  split at h
  · simp only [] at h
    split at h
    · cases h
    · cases h; exact EQ_setAcct _ _
  · cases h; exact ⟨rfl, rfl, rfl, rfl, rfl, rfl⟩

theorem unfreeze_eq' {s s' : St} {height : Int} (h : unfreeze s height = .ok s') : EQ s s' := by
  rw [C15.unfreeze_eq] at h
  refine C15.foldl_resStep_inv (C15.unfreezeOne height) (fun x => EQ s x) _ ?_ s s' (EQ.refl s) h
  intro x kst x' _ q hx
  unfold C15.unfreezeOne at hx
  split at hx
  · split at hx
    · cases hx
    · rename_i s1 hs1
      cases hx
      refine q.trans ((EQ_reward hs1).trans ?_)
      exact ⟨rfl, rfl, rfl, rfl, rfl, rfl⟩
  · cases hx; exact q

theorem updateValidators_eq' {s s' : St} {ups : List ValUpdate} (h : updateValidators s = .ok (s', ups)) : EQ s s' := by
  unfold updateValidators at h
  split at h
  · cases h
  · cases h; exact ⟨rfl, rfl, rfl, rfl, rfl, rfl⟩

theorem endBlock_eq' (s : St) : EQ s (endBlock s).1 := by
  unfold endBlock
  split
  · exact EQ.refl s
  · split
    · exact EQ.refl s
    · rename_i s1 h1
      have e1 := freezeProposals_eq' h1
      split
      · exact e1
      · rename_i s2 h2
        have e2 := e1.trans (applyProposals_eq' h2)
        split
        · exact e2
        · rename_i s3 h3
          have e3 := e2.trans (feeHandover_eq' h3)
          split
          · exact e3
          · rename_i s4 h4
            have e4 := e3.trans (unfreeze_eq' h4)
            split
            · exact e4
            · rename_i s5 ups h5
              exact e4.trans (updateValidators_eq' h5)

theorem aux_congr {s s' : St} (ha : Aux s) (h : EQ s s') : Aux s' := by
  obtain ⟨e1, e2, e3, e4, e5, _⟩ := h
  refine ⟨by rw [e1]; exact ha.lim, ?_, ?_, ?_, ?_, ?_⟩
  · intro b hb; rw [e4] at hb; rw [e5]; exact ha.blkH b hb
  · intro k r hk; rw [e2] at hk; rw [e5]; exact ha.rewFin k r hk
  · intro k r hk; rw [e2] at hk; rw [e5]; exact ha.rewChk k r hk
  · intro k r hk; rw [e2] at hk; rw [e5]; exact ha.rewCom k r hk
  · intro k d hk; rw [e3] at hk; exact ha.delCom k d hk

theorem aux_end {s : St} (ha : Aux s) : Aux (endBlock s).1 := aux_congr ha (endBlock_eq' s)

/-! ### transactions -/

theorem aux_of_tx {s s' : St} {e : Bool} {H : Int} (hH : H = s.lastHeight + 1) (ha : Aux s) (hl : LimOK s'.limiter)
    (hr : RewStep e H s.rewards s'.rewards) (hlh : s'.lastHeight = s.lastHeight)
    (hb : ∀ (b : BlockCtx), s'.blk = some b → b.height = s.lastHeight + 1)
    (hd : s'.delegs.hist = s.delegs.hist) : Aux s' := by
  subst hH
  have hcomD : s'.delegs.committed = s.delegs.committed := by unfold Led.committed; rw [hd]
  refine ⟨hl, by rw [hlh]; exact hb, ?_, ?_, ?_, by rw [hcomD]; exact ha.delCom⟩
  · intro k r hk
    rw [hlh]
    rcases hr with hr | ⟨r', hr, hh⟩
    · rw [hr] at hk; exact ha.rewFin k r hk
    · rw [hr] at hk
      unfold Led.set at hk
      split at hk
      · simp only [] at hk
        rw [kmap_get_insert] at hk
        split at hk
        · rename_i hkk; injection hk with hk; subst hk; exact ⟨by omega, hkk⟩
        · exact ha.rewFin k r hk
      · exact ha.rewFin k r hk
  · intro k r hk
    rw [hlh]
    rcases hr with hr | ⟨r', hr, hh⟩
    · rw [hr] at hk; exact ha.rewChk k r hk
    · rw [hr] at hk
      unfold Led.set at hk
      split at hk
      · exact ha.rewChk k r hk
      · simp only [] at hk
        rw [kmap_get_insert] at hk
        split at hk
        · rename_i hkk; injection hk with hk; subst hk; exact ⟨by omega, hkk⟩
        · exact ha.rewChk k r hk
  · intro k r hk
    rw [hlh]
    have : s'.rewards.committed = s.rewards.committed := by
      rcases hr with hr | ⟨r', hr, hh⟩
      · rw [hr]
      · rw [hr]; unfold Led.committed; simp
    rw [this] at hk; exact ha.rewCom k r hk

theorem aux_check {s : St} (tx : TxIn) (ha : Aux s) : Aux (checkTx s tx).1 := by
  have hs := handleTx_side s false (s.lastHeight + 1) tx ha.lim
  have hf := (handleTx_frame s false (s.lastHeight + 1) tx).1
  obtain ⟨_, _, _, _, _, _, f7, f8, _, f10, _, _⟩ := hf
  show Aux (handleTx s false (s.lastHeight + 1) tx).1
  exact aux_of_tx rfl ha hs.1 hs.2 f8 (by rw [f7]; exact ha.blkH) f10

theorem aux_deliver {s : St} (tx : TxIn) (ha : Aux s) : Aux (deliverTx s tx).1 := by
  unfold deliverTx
  split
  · exact ha
  · rename_i b hb
    have hH := ha.blkH b hb
    have hs := handleTx_side s true b.height tx ha.lim
    have hf := (handleTx_frame s true b.height tx).1
    obtain ⟨_, _, _, _, _, _, f7, f8, _, f10, _, _⟩ := hf
    have h1 : Aux (handleTx s true b.height tx).1 :=
      aux_of_tx hH ha hs.1 hs.2 f8 (by rw [f7]; exact ha.blkH) f10
    simp only []
    split
    · exact h1
    · split
      · refine ⟨h1.lim, ?_, h1.rewFin, h1.rewChk, h1.rewCom, h1.delCom⟩
        intro b' hb'
        simp only [Option.some.injEq] at hb'
        subst hb'
        show b.height = (handleTx s true b.height tx).1.lastHeight + 1
        rw [f8]; exact hH
      · exact h1

/-! ### Commit and restart -/

theorem committed_commit {α : Type} (l : Led α) : l.commit.committed = l.fin := by
  simp [Led.commit, Led.committed]

theorem aux_commit {s : St} (ha : Aux s)
    (hd : ∀ (k : String) (d : Delegatee), s.delegs.fin[k]? = some d → 0 ≤ d.total) : Aux (commit s).1 := by
  unfold commit
  split
  · exact ha
  · rename_i b hb
    have hH := ha.blkH b hb
    refine ⟨ha.lim, ?_, ?_, ?_, ?_, ?_⟩
    · intro b' hb'; cases hb'
    · intro k r hk
      have := ha.rewFin k r hk
      show r.height ≤ b.height + 1 ∧ _
      exact ⟨by omega, this.2⟩
    · intro k r hk
      have := ha.rewFin k r hk
      show r.height ≤ b.height + 1 ∧ _
      exact ⟨by omega, this.2⟩
    · intro k r hk
      have hk' : s.rewards.commit.committed[k]? = some r := hk
      rw [committed_commit] at hk'
      have := ha.rewFin k r hk'
      show r.height ≤ b.height ∧ _
      exact ⟨by omega, this.2⟩
    · intro k d hk
      have hk' : s.delegs.commit.committed[k]? = some d := hk
      rw [committed_commit] at hk'
      exact hd k d hk'

theorem aux_restart {s : St} (ha : Aux s) : Aux (restart s) := by
  refine ⟨Or.inl rfl, ?_, ?_, ?_, ?_, ?_⟩
  · intro b' hb'; cases hb'
  · exact ha.rewCom.mono (show s.lastHeight ≤ s.lastHeight + 1 by omega)
  · exact ha.rewCom.mono (show s.lastHeight ≤ s.lastHeight + 1 by omega)
  · exact ha.rewCom
  · intro k d hk; exact ha.delCom k d hk

/-- **`Aux` is inductive**: kept by every operation but `init`, given two facts about the state before
    the step that come from the other invariants (`C02.Inv0`: delegatee totals are sums of non-negative
    stake powers; `ParamsSane`: `1 ≤ maxValidatorCnt`) -/
theorem aux_step {s : St} {op : Op} (ha : Aux s) (hop : op.isInit = false)
    (hd : ∀ (k : String) (d : Delegatee), s.delegs.fin[k]? = some d → 0 ≤ d.total)
    (hm : 1 ≤ s.active.maxValidatorCnt) : Aux (step s op).1 := by
  cases op with
  | init g => cases hop
  | begin_ h => exact aux_begin h ha hm
  | deliver tx => exact aux_deliver tx ha
  | check tx => exact aux_check tx ha
  | end_ => exact aux_end ha
  | commit => exact aux_commit ha hd
  | restart => exact aux_restart ha

/-- after `InitChain`: nothing committed, no rewards, nil limiter, no block -/
theorem initChain_side (g : Genesis) : (initChain g).limiter = {} ∧ (initChain g).rewards = {} ∧
    (initChain g).blk = none ∧ (initChain g).delegs.hist = [] ∧ (initChain g).lastHeight = 0 := by
  unfold initChain
  simp only
  apply C02.foldl_inv (fun x : St => x.limiter = {} ∧ x.rewards = {} ∧ x.blk = none ∧ x.delegs.hist = [] ∧ x.lastHeight = 0)
  · rintro acc ⟨pub, addr, power⟩ _ ⟨h1, h2, h3, h4, h5⟩
    simp only
    obtain ⟨a, b⟩ := side_eq (side_findOrNewAcct acc true addr)
    obtain ⟨f, _, _, d⟩ := findOrNewAcct_frAll acc true addr
    refine ⟨a.trans h1, b.trans h2, f.2.2.2.2.2.2.1.trans h3, ?_, f.2.2.2.2.2.2.2.1.trans h5⟩
    show (Led.set _ true _ _).hist = []
    rw [Led.set_hist, d]; exact h4
  · apply C02.foldl_inv (fun x : St => x.limiter = {} ∧ x.rewards = {} ∧ x.blk = none ∧ x.delegs.hist = [] ∧ x.lastHeight = 0)
    · rintro acc ⟨a, b⟩ _ h
      exact h
    · exact ⟨rfl, rfl, rfl, rfl, rfl⟩

theorem aux_init (g : Genesis) : Aux (initChain g) := by
  obtain ⟨h1, h2, h3, h4, h5⟩ := initChain_side g
  refine ⟨by rw [h1]; exact Or.inl rfl, (by rw [h3]; intro b hb; cases hb), ?_, ?_, ?_, ?_⟩
  · intro k r hk; rw [h2] at hk
    have hk' : ({} : KMap Reward)[k]? = some r := hk
    simp at hk'
  · intro k r hk; rw [h2] at hk
    have hk' : ({} : KMap Reward)[k]? = some r := hk
    simp at hk'
  · intro k r hk; rw [h2] at hk
    have hk' : ({} : KMap Reward)[k]? = some r := hk
    simp at hk'
  · intro k d hk
    unfold Led.committed at hk; rw [h4] at hk
    simp at hk

end Rigo.C09R
