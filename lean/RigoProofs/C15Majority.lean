/-
  C15: the active parameters change only at Commit, to the pending parameters; pending parameters
  arise only in EndBlock from a committed frozen proposal whose first option held the majority when
  voting closed; the governance query returns the active parameters.
-/
import RigoProofs.C15Params

namespace Rigo.C15
open Rigo Rigo.Render

/-- `np` results from applying, at `height`, a committed frozen proposal that is closed, whose first
    (highest-voted) option holds at least the majority, to the active parameters -/
def AppliedByMajority (s : St) (height : Int) (np : Params) : Prop :=
  ∃ (k : String) (p : Proposal) (m : VoteOpt) (o : POpt),
    s.fprops.committed[k]? = some p ∧ p.applying ≤ height ∧ p.end_ ≤ s.lastHeight ∧
    p.major = some m ∧ p.options.head? = some m ∧ m.votes ≥ p.majority ∧
    p.optType = PROPOSAL_GOVPARAMS ∧ m.parsedA = some o ∧ np = mergeParams s.active o

theorem active_change_step {s : St} (hs : GovCore s) (op : Op) (hop : op.isInit = false)
    (hne : (step s op).1.active ≠ s.active) :
    op = .commit ∧ ∃ np, s.pending = some np ∧ (step s op).1.active = np := by
  cases op with
  | init g => simp [Op.isInit] at hop
  | begin_ h => exact absurd (beginBlock_bfr s h).2.2.1 hne
  | deliver tx => exact absurd (deliverTx_frame s tx).1.2.2.1 hne
  | check tx => exact absurd (handleTx_frame s false (s.lastHeight + 1) tx).1.2.2.1 hne
  | end_ =>
    have hP : ∀ b, s.blk = some b → ∀ (k : String) (p : Proposal) (top : VoteOpt), p.end_ < b.height → top.votes ≥ p.majority →
        (sortOptions p.options).head? = some top → True := fun _ _ _ _ _ _ _ _ => trivial
    exact absurd (endBlock_spec s (fun _ _ => True) hP ⟨fun _ _ _ => trivial, fun _ _ _ => trivial, fun _ _ _ _ _ => trivial⟩).1 hne
  | commit =>
    refine ⟨rfl, ?_⟩
    have hne' : (commit s).1.active ≠ s.active := hne
    show ∃ np, s.pending = some np ∧ (commit s).1.active = np
    unfold commit at hne' ⊢
    split
    · rename_i hb; simp [hb] at hne'
    · rename_i b hb
      simp only [hb] at hne'
      cases hp : s.pending with
      | none => simp [hp] at hne'
      | some np => exact ⟨np, rfl, by simp⟩
  | restart =>
    exfalso
    apply hne
    show (s.params.reopen.committed[zeroHash]?).getD s.active = s.active
    have : s.params.reopen.committed = s.params.committed := rfl
    rw [this]
    cases hc : s.params.committed[zeroHash]? with
    | none => rfl
    | some p => simp [hs.paramsW.1 p hc]

theorem pending_set_step {s : St} (hs : GovCore s) (op : Op) (hop : op.isInit = false) (np : Params)
    (hnew : (step s op).1.pending = some np) (hold : s.pending ≠ some np) :
    op = .end_ ∧ ∃ b, s.blk = some b ∧ AppliedByMajority s b.height np := by
  cases op with
  | init g => simp [Op.isInit] at hop
  | begin_ h =>
    have : (beginBlock s h).1.pending = s.pending := (beginBlock_bfr s h).2.2.2.1
    exact absurd (this ▸ hnew) hold
  | deliver tx =>
    have : (deliverTx s tx).1.pending = s.pending := (deliverTx_frame s tx).1.2.2.2.1
    exact absurd (this ▸ hnew) hold
  | check tx =>
    have : (checkTx s tx).1.pending = s.pending := (handleTx_frame s false (s.lastHeight + 1) tx).1.2.2.2.1
    exact absurd (this ▸ hnew) hold
  | end_ =>
    refine ⟨rfl, ?_⟩
    have hnew' : (endBlock s).1.pending = some np := hnew
    have hP : ∀ b, s.blk = some b → ∀ (k : String) (p : Proposal) (top : VoteOpt), p.end_ < b.height → top.votes ≥ p.majority →
        (sortOptions p.options).head? = some top → True := fun _ _ _ _ _ _ _ _ => trivial
    obtain ⟨_, _, _, _, _, hc⟩ := endBlock_spec s (fun _ _ => True) hP
      ⟨fun _ _ _ => trivial, fun _ _ _ => trivial, fun _ _ _ _ _ => trivial⟩
    rcases hc with ⟨_, c2⟩ | ⟨b, np', hb, ⟨k, p, m, o, a1, a2, a3, a4, a5, a6⟩, c2, _⟩
    · rw [c2] at hnew'; exact absurd hnew' hold
    · rw [c2] at hnew'; cases hnew'
      obtain ⟨⟨m', hm', hv, hh⟩, hend⟩ := hs.frozen.committed k p a1
      rw [a3] at hm'; cases hm'
      exact ⟨b, hb, k, p, m, o, a1, a2, hend, a3, hh, hv, a4, a5, a6⟩
  | commit =>
    exfalso
    have hnew' : (commit s).1.pending = some np := hnew
    unfold commit at hnew'
    split at hnew'
    · exact hold hnew'
    · cases hnew'
  | restart =>
    have hnew' : (restart s).pending = some np := hnew
    cases hnew'

/-! ### the governance query -/

/-- the parameter ledger has an entry in the consensus view, and in the last commit if there is one -/
def ParamsE (s : St) : Prop :=
  (s.params.fin[zeroHash]?).isSome ∧ (s.params.hist ≠ [] → (s.params.committed[zeroHash]?).isSome)

theorem paramsE_init (g : Genesis) : ParamsE (initChain g) := by
  obtain ⟨hfr, _, _⟩ := initChain_ifr g
  unfold ParamsE; rw [hfr.1]
  simp [initBase, Led.set]

theorem paramsE_step {s : St} (hs : GovCore s) (he : ParamsE s) (op : Op) (hop : op.isInit = false)
    (hr : op = .restart → s.lastHeight ≥ 1) : ParamsE (step s op).1 := by
  have same : ∀ s' : St, s'.params = s.params → ParamsE s' := by
    intro s' h; unfold ParamsE; rw [h]; exact he
  cases op with
  | init g => simp [Op.isInit] at hop
  | begin_ h => exact same _ (beginBlock_bfr s h).1
  | deliver tx => exact same _ (deliverTx_frame s tx).1.1
  | check tx => exact same _ (handleTx_frame s false (s.lastHeight + 1) tx).1.1
  | end_ =>
    have hP : ∀ b, s.blk = some b → ∀ (k : String) (p : Proposal) (top : VoteOpt), p.end_ < b.height → top.votes ≥ p.majority →
        (sortOptions p.options).head? = some top → True := fun _ _ _ _ _ _ _ _ => trivial
    obtain ⟨_, _, _, eh, _, hc⟩ := endBlock_spec s (fun _ _ => True) hP
      ⟨fun _ _ _ => trivial, fun _ _ _ => trivial, fun _ _ _ _ _ => trivial⟩
    show ParamsE (endBlock s).1
    rcases hc with ⟨c1, _⟩ | ⟨b, np, _, _, _, c3⟩
    · exact same _ c1
    · have hcomm : (endBlock s).1.params.committed = s.params.committed := by unfold Led.committed; rw [eh]
      unfold ParamsE; rw [hcomm, eh, c3]
      exact ⟨by simp, he.2⟩
  | commit =>
    show ParamsE (commit s).1
    unfold commit
    split
    · exact he
    · refine ⟨?_, fun _ => ?_⟩
      · show (s.params.commit.fin[zeroHash]?).isSome; exact he.1
      · show (s.params.commit.committed[zeroHash]?).isSome; rw [committed_snoc]; exact he.1
  | restart =>
    show ParamsE (restart s)
    have hl := hr rfl
    have hne : s.params.hist ≠ [] := by
      intro h; have := hs.heights.1; rw [h] at this; simp at this; omega
    exact ⟨he.2 hne, fun _ => he.2 hne⟩

/-- every restart happens after at least one commit -/
def RestartsAfterCommit (s : St) : List Op → Prop
  | [] => True
  | op :: ops => (op = .restart → s.lastHeight ≥ 1) ∧ RestartsAfterCommit (step s op).1 ops

theorem paramsE_exec (ops : List Op) (s : St) (hs : GovCore s) (he : ParamsE s)
    (hno : ∀ op ∈ ops, op.isInit = false) (hr : RestartsAfterCommit s ops) :
    GovCore (exec s ops) ∧ ParamsE (exec s ops) := by
  induction ops generalizing s with
  | nil => exact ⟨hs, he⟩
  | cons op ops ih =>
    rw [exec_cons]
    have hop := hno op (by simp)
    exact ih _ (govCore_step hs op hop) (paramsE_step hs he op hop hr.1)
      (fun o ho => hno o (List.mem_cons_of_mem _ ho)) hr.2

/-- the query at the latest height reads the last committed version of the parameter ledger -/
theorem query_gov_params (s : St) (hs : GovCore s) (hl : s.lastHeight ≥ 1) :
    query s "gov_params" "" 0 =
      match s.params.committed[zeroHash]? with
      | some p => { value := "G:" ++ showParams p }
      | none => { code := ErrCodeQuery } := by
  have hlen := hs.heights.1
  have hat : s.params.at? s.lastHeight = some s.params.committed := by
    unfold Led.at? Led.committed
    rw [if_neg (by omega)]
    have : s.lastHeight.toNat - 1 = s.params.hist.length - 1 := by omega
    rw [this, List.getLast?_eq_getElem?]
    cases hh : s.params.hist[s.params.hist.length - 1]? with
    | none =>
      exfalso
      have := List.getElem?_eq_none_iff.mp hh
      omega
    | some m => simp
  simp only [query, qHeight, if_true, hat]
  cases s.params.committed[zeroHash]? <;> rfl

/-- weak form, every reachable state: the query fails or returns the active parameters -/
theorem query_active_weak {s : St} (hs : GovCore s) (hl : s.lastHeight ≥ 1) :
    query s "gov_params" "" 0 = { code := ErrCodeQuery } ∨
    query s "gov_params" "" 0 = { value := "G:" ++ showParams s.active } := by
  rw [query_gov_params s hs hl]
  cases hc : s.params.committed[zeroHash]? with
  | none => exact Or.inl rfl
  | some p => right; rw [hs.paramsW.1 p hc]

theorem query_active {s : St} (hs : GovCore s) (he : ParamsE s) (hl : s.lastHeight ≥ 1) :
    s.params.committed[zeroHash]? = some s.active ∧
    query s "gov_params" "" 0 = { value := "G:" ++ showParams s.active } := by
  have hne : s.params.hist ≠ [] := by
    intro h; have := hs.heights.1; rw [h] at this; simp at this; omega
  have := he.2 hne
  cases hc : s.params.committed[zeroHash]? with
  | none => rw [hc] at this; cases this
  | some p =>
    have hp := hs.paramsW.1 p hc
    subst hp
    refine ⟨rfl, ?_⟩
    rw [query_gov_params s hs hl, hc]

theorem phaseRun_noinit (ops : List Op) (p q : Phase) (h : phaseRun p ops = some q) : ∀ op ∈ ops, op.isInit = false := by
  induction ops generalizing p with
  | nil => intro op ho; cases ho
  | cons o ops ih =>
    intro op ho
    unfold phaseRun at h
    cases hps : phaseStep p o with
    | none => rw [hps] at h; cases h
    | some p' =>
      rw [hps] at h
      rcases List.mem_cons.mp ho with rfl | ho
      · cases op <;> first | rfl | (cases p <;> simp [phaseStep] at hps)
      · exact ih p' h op ho

end Rigo.C15
