/-
  C13 / pipeline (7d): direct evaluation of the example run (kernel evaluation): ledger versions read by the reward
  code and amounts issued at BeginBlock 4, 5, 6, 7.
-/
import RigoProofs.C13PipelineExDefs
open Std
namespace Rigo.C13P.Ex
open Rigo Rigo.TM Rigo.C14L Rigo.C19 Rigo.C13 Rigo.C13P

def pre5 : List Op := b1 ++ b2 ++ b3 ++ b4
def pre6 : List Op := b1 ++ b2 ++ b3 ++ b4 ++ b5
def pre7 : List Op := b1 ++ b2 ++ b3 ++ b4 ++ b5 ++ b6

/-- the ledger versions read at BeginBlock 5 and 6: totals 10 / 9 in version 1, 15 / 9 in version 2 -/
theorem eval5_6 :
    (((exec S0 pre5).delegs.at? (hopOf 5)).bind (·[ledgerKey addrA]?)).map (·.total) = some 10 ∧
    (((exec S0 pre5).delegs.at? (hopOf 5)).bind (·[ledgerKey addrB]?)).map (·.total) = some 9 ∧
    (((exec S0 pre6).delegs.at? (hopOf 6)).bind (·[ledgerKey addrA]?)).map (·.total) = some 15 ∧
    (((exec S0 pre6).delegs.at? (hopOf 6)).bind (·[ledgerKey addrB]?)).map (·.total) = some 9 := by decide +kernel

/-- BeginBlock(4): the latest version (3) has A at 15, the vote says 10: A is skipped, 27 = 9 × 3 issued -/
theorem eval4 :
    rewardedDeleg (exec S0 (b1 ++ b2 ++ b3)).delegs.committed (vote addrA 10) = none ∧
    (((exec S0 (b1 ++ b2 ++ b3)).delegs.committed)[ledgerKey addrA]?).map (·.total) = some 15 ∧
    (beginBlock (exec S0 (b1 ++ b2 ++ b3)) (hdr 4 genVotes)).2.issued = some 27 := by decide +kernel

end Rigo.C13P.Ex
