/-
  C11 helpers: where the bonded stakes of the state after an operation come from
  (`power_changes_only_by_slash`).
-/
import RigoProofs.C11Inv

namespace Rigo
open Delegatee

/-- same owner, target, hash, start height and refund field -/
def SameId (a b : Stake) : Prop :=
  a.owner = b.owner ∧ a.to = b.to ∧ a.hash = b.hash ∧ a.start = b.start ∧ a.refund = b.refund

theorem SameId.refl (a : Stake) : SameId a a := ⟨rfl, rfl, rfl, rfl, rfl⟩

theorem SameId.trans {a b c : Stake} (h1 : SameId a b) (h2 : SameId b c) : SameId a c :=
  ⟨h1.1.trans h2.1, h1.2.1.trans h2.2.1, h1.2.2.1.trans h2.2.2.1, h1.2.2.2.1.trans h2.2.2.2.1,
   h1.2.2.2.2.trans h2.2.2.2.2⟩

/-- every bonded stake of `c'` descends from a bonded stake of `c` under the same delegatee key, with the
    same identity; its power is unchanged unless the delegatee is named by the evidence of `h` -/
def Descends (h : Header) (c c' : Core) : Prop :=
  ∀ (k : String) (d' : Delegatee) (st' : Stake), c'.dfin[k]? = some d' → st' ∈ d'.stakes →
    ∃ d st, c.dfin[k]? = some d ∧ st ∈ d.stakes ∧ SameId st st' ∧
      (st'.power = st.power ∨ (st'.power < st.power ∧ ∃ a ∈ h.evidence, k = ledgerKey a))

theorem Descends.refl (h : Header) (c : Core) : Descends h c c :=
  fun _ d' st' h1 h2 => ⟨d', st', h1, h2, SameId.refl _, Or.inl rfl⟩

theorem Descends.trans {h : Header} {a b c : Core} (h1 : Descends h a b) (h2 : Descends h b c) : Descends h a c := by
  intro k d'' st'' hk hst
  obtain ⟨d', st', a1, a2, a3, a4⟩ := h2 k d'' st'' hk hst
  obtain ⟨d, st, b1, b2, b3, b4⟩ := h1 k d' st' a1 a2
  refine ⟨d, st, b1, b2, b3.trans a3, ?_⟩
  rcases a4 with a4 | ⟨a4, ev⟩
  · rcases b4 with b4 | ⟨b4, ev⟩
    · left; omega
    · right; exact ⟨by omega, ev⟩
  · rcases b4 with b4 | ⟨b4, _⟩
    · right; exact ⟨by omega, ev⟩
    · right; exact ⟨by omega, ev⟩

theorem BeginAtom.descends {h : Header} {c c' : Core} (ha : BeginAtom h c c') (hd : DelegsOK c) : Descends h c c' := by
  cases ha with
  | slash a d hev hda =>
    intro k d' st' hk hst
    dsimp only at hk
    rw [Std.ExtTreeMap.getElem?_insert] at hk
    by_cases e : ledgerKey a = k
    · simp [e] at hk; subst hk; subst e
      obtain ⟨st, h1, h2, h3, h4, h5, h6, h7, _⟩ := doSlash_mem hst
      refine ⟨d, st, hda, h1, ⟨h2.symm, h3.symm, h4.symm, h5.symm, h6.symm⟩, ?_⟩
      by_cases hp : st'.power = st.power
      · exact Or.inl hp
      · exact Or.inr ⟨by omega, a, hev, rfl⟩
    · simp [e] at hk; exact ⟨d', st', hk, hst, SameId.refl _, Or.inl rfl⟩
  | mark k0 d ns hd0 =>
    obtain ⟨_, hk0, _⟩ := hd.1 _ _ hd0
    intro k d' st' hk hst
    dsimp only at hk
    rw [Std.ExtTreeMap.getElem?_insert, ← hk0] at hk
    by_cases e : k0 = k
    · simp [e] at hk; subst hk; subst e
      exact ⟨d, st', hd0, hst, SameId.refl _, Or.inl rfl⟩
    · simp [e] at hk; exact ⟨d', st', hk, hst, SameId.refl _, Or.inl rfl⟩
  | jail k0 d ns hd0 =>
    intro k d' st' hk hst
    dsimp only at hk
    rw [Std.ExtTreeMap.getElem?_erase, Std.ExtTreeMap.getElem?_insert] at hk
    by_cases e : ledgerKey d.addr = k
    · simp [e] at hk
    · simp [e] at hk; exact ⟨d', st', hk, hst, SameId.refl _, Or.inl rfl⟩

/-- origin of every bonded stake after one operation -/
theorem OpCore.lineage {nk : List Hex} {op : Op} {c c' : Core} (hop : OpCore nk op c c') (hd : DelegsOK c)
    (k : String) (d' : Delegatee) (st' : Stake) (hk : c'.dfin[k]? = some d') (hst : st' ∈ d'.stakes) :
    -- it was bonded before, same delegatee, same identity; power changed only by slashing
    (∃ d st, c.dfin[k]? = some d ∧ st ∈ d.stakes ∧ SameId st st' ∧
      (st'.power = st.power ∨ (st'.power < st.power ∧ ∃ h a, op = .begin_ h ∧ a ∈ h.evidence ∧ k = ledgerKey a))) ∨
    -- or it is the stake a successful staking transaction has just created
    (∃ tx ht power, op = .deliver tx ∧ tx.type = TRX_STAKING ∧ tx.sigOk = true ∧ c.height = some ht ∧
      amountToPower tx.amount = .ok power ∧ st' = newStake tx power ht ∧ k = ledgerKey tx.to) ∨
    -- or a restart re-opened the last committed version
    (op = .restart ∧ c.dcommitted[k]? = some d') := by
  have same : c.dfin[k]? = some d' → ∃ d st, c.dfin[k]? = some d ∧ st ∈ d.stakes ∧ SameId st st' ∧
      (st'.power = st.power ∨ (st'.power < st.power ∧ ∃ h a, op = .begin_ h ∧ a ∈ h.evidence ∧ k = ledgerKey a)) :=
    fun h => ⟨d', st', h, hst, SameId.refl _, Or.inl rfl⟩
  cases hop with
  | same => exact Or.inl (same hk)
  | begin_ h _ _ _ hs =>
    left
    have := Steps.inv (P := fun x => Descends h { c with height := some h.height } x ∧ DelegsOK x)
      (fun a b hab ⟨h1, h2⟩ => ⟨h1.trans (hab.descends h2), hab.delegsOK h2⟩) hs ⟨Descends.refl _ _, hd⟩
    obtain ⟨d, st, a1, a2, a3, a4⟩ := this.1 k d' st' hk hst
    refine ⟨d, st, a1, a2, a3, ?_⟩
    rcases a4 with a4 | ⟨a4, a, ha, hka⟩
    · exact Or.inl a4
    · exact Or.inr ⟨a4, h, a, rfl, ha, hka⟩
  | stake tx _ ht d power hh hty hsig hto htgt hp hin =>
    dsimp only at hk
    rw [Std.ExtTreeMap.getElem?_insert] at hk
    by_cases e : ledgerKey d.addr = k
    · simp [e] at hk; subst hk
      simp only [Delegatee.addStake, List.mem_append, List.mem_singleton] at hst
      have hkto : k = ledgerKey tx.to := by
        rcases htgt with h1 | ⟨_, hft, rfl⟩
        · rw [← e]; exact ((hd.1 _ _ h1).2.1).symm
        · rw [← e, ← hft]
      rcases hst with hst | hst
      · left
        rcases htgt with h1 | ⟨_, _, rfl⟩
        · have : c.dfin[k]? = some d := by rw [hkto]; exact h1
          exact ⟨d, st', this, hst, SameId.refl _, Or.inl rfl⟩
        · cases hst
      · right; left
        exact ⟨tx, ht, power, rfl, hty, hsig, hh, hp, hst, hkto⟩
    · simp [e] at hk; exact Or.inl (same hk)
  | unstake tx _ ht d hash st hh hty hsig hpay hdK hst0 hown =>
    left
    obtain ⟨_, hK, _⟩ := hd.1 _ _ hdK
    have haddr : (if (d.delStake hash).self = 0 then (d.delStake hash).delAllStakes.1 else d.delStake hash).addr = d.addr := by
      split <;> simp [delStake_addr, delAllStakes_fst]
    have hsub2 : (if (d.delStake hash).self = 0 then (d.delStake hash).delAllStakes.1 else d.delStake hash).stakes.Sublist d.stakes := by
      split
      · simp [delAllStakes_fst]
      · exact delStake_stakes_sublist d hash
    unfold unstakeCore at hk
    dsimp only at hk
    generalize (if (d.delStake hash).self = 0 then (d.delStake hash).delAllStakes.1 else d.delStake hash) = d2 at hk haddr hsub2
    rw [haddr, ← hK] at hk
    by_cases e : ledgerKey tx.to = k
    · subst e
      by_cases h0 : d2.total = 0
      · simp [h0] at hk
      · simp [h0] at hk; subst hk
        exact ⟨d, st', hdK, hsub2.subset hst, SameId.refl _, Or.inl rfl⟩
    · by_cases h0 : d2.total = 0
      · simp only [h0, if_true] at hk
        rw [Std.ExtTreeMap.getElem?_erase] at hk; simp [e] at hk
        exact same hk
      · simp only [h0, if_false] at hk
        rw [Std.ExtTreeMap.getElem?_insert] at hk; simp [e] at hk
        exact same hk
  | end_ _ ht hh =>
    obtain ⟨f1, _⟩ := unfreezeFold_frame c.fcommitted.toList ht c
    unfold unfreezeCore at hk; rw [f1] at hk
    exact Or.inl (same hk)
  | commit => exact Or.inl (same hk)
  | restart => exact Or.inr (Or.inr ⟨rfl, hk⟩)

end Rigo
