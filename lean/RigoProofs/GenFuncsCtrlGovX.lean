/-
  Round 3, the governance controller's execution functions (ctrlers/gov/ctrler.go):
  `execProposing`, `execVoting`, `ExecuteTrx` against the model's `execProposal`, `execVoting`
  and the governance branch of `runTrx`.

  * `GovCtrler_execProposing_eq` (hypothesis `ValsDistinct s.lastVals`): the Go map of voters, filled
    by a loop over `Validators()` (`govxFill`: `mapSet` = insertion in key order, a repeated address
    replaces the earlier entry), is the model's `mergeSort` by address of the validators
    (`govxFill_eq`: both are the sorted permutation, unique when the addresses are distinct);
    the proposal of `NewGovProposal` is the model's record and is stored under `ledgerKey tx.hash` in
    the view chosen by `ctx.Exec`.  `GovCtrler_execProposing_differs`: a repeated address.
  * `GovCtrler_execVoting_eq` (hypothesis `VotingOK`, needed only when the sender is a voter of the
    proposal): read, `DoVote`, write back under the proposal's own key; "notfound" ↦ ErrNotFoundResult,
    "other" (not a voter) ↦ "not found voter".  `GovCtrler_execVoting_differs` (negative choice),
    `GovCtrler_execVoting_differs_range` (choice ≥ number of options: the Go code panics).
  * `GovCtrler_ExecuteTrx_eq`: the switch, between generated terms; `GovCtrler_ExecuteTrx_model`:
    against `govxExec`, the governance branch of the model's `runTrx` (`govxExec_runTrx`).
  * a payload of the wrong dynamic type (the model's panic "nil payload in …"): the generated function
    throws "nil pointer dereference" (`txpayload.OptType` / `txpayload.TxHash` on a nil pointer).
-/
import RigoProofs.GenFuncsCtrlBase
import RigoProofs.GenFuncsGovMisc
import RigoProofs.GenFuncsGov
import RigoProofs.TxCommon

set_option linter.unusedSimpArgs false

namespace Rigo.GenEq
open Rigo Rigo.Gen

/-! ### the voters' map built by `execProposing` -/

/-- the voter `execProposing` records for a validator `(address, power)`: no choice yet (`NOT_CHOICE`) -/
def govxVoter (v : Hex × Int) : Voter := { addr := v.1, power := v.2, choice := -1 }

/-- the loop of `execProposing` over the validators -/
def govxFill (vals : List (Hex × Int)) (acc : GMap Voter) : GMap Voter :=
  vals.foldl (fun m v => mapSet m (hexStr v.1) (govxVoter v)) acc

/-- keys strictly increasing -/
def govxSorted (m : GMap Voter) : Prop := m.Pairwise (fun a b => a.1 < b.1)

theorem govx_mapIns_perm (m : GMap Voter) (k : String) (v : Voter) : (mapIns m k v).Perm ((k, v) :: m) := by
  induction m with
  | nil => exact List.Perm.refl _
  | cons e m ih =>
    unfold mapIns
    by_cases h : k < e.1
    · simp only [h, if_true]; exact List.Perm.refl _
    · simp only [h, if_false]
      exact (List.Perm.cons e ih).trans (List.Perm.swap _ _ _)

theorem govx_mapIns_sorted (m : GMap Voter) (k : String) (v : Voter) (hs : govxSorted m)
    (hk : ∀ e ∈ m, e.1 ≠ k) : govxSorted (mapIns m k v) := by
  induction m with
  | nil => simp [mapIns, govxSorted]
  | cons e m ih =>
    unfold govxSorted at hs ⊢
    rw [List.pairwise_cons] at hs
    unfold mapIns
    by_cases h : k < e.1
    · simp only [h, if_true]
      rw [List.pairwise_cons]
      refine ⟨?_, List.pairwise_cons.mpr hs⟩
      intro a ha
      rcases List.mem_cons.mp ha with rfl | ha
      · exact h
      · exact String.lt_trans h (hs.1 a ha)
    · simp only [h, if_false]
      rw [List.pairwise_cons]
      refine ⟨?_, ih hs.2 (fun a ha => hk a (List.mem_cons_of_mem _ ha))⟩
      intro a ha
      have ha' := (govx_mapIns_perm m k v).subset ha
      rcases List.mem_cons.mp ha' with rfl | ha'
      · have hne : e.1 ≠ k := hk e (List.mem_cons_self)
        rcases Rigo.Determinism.String.lt_or_gt_of_ne hne with h1 | h1
        · exact h1
        · exact absurd h1 h
      · exact hs.1 a ha'

theorem govx_mapSet_new (m : GMap Voter) (k : String) (v : Voter) (hk : ∀ e ∈ m, e.1 ≠ k) :
    mapSet m k v = mapIns m k v := by
  unfold mapSet
  have : m.any (fun e => e.1 == k) = false := by
    rw [List.any_eq_false]; intro e he; simpa using hk e he
  simp [this]

/-- with pairwise distinct validator addresses (and none of them in the map yet) the loop inserts
    every validator: the result is a permutation with strictly increasing keys -/
theorem govxFill_spec (vals : List (Hex × Int)) (acc : GMap Voter)
    (hd : vals.Pairwise (fun a b => a.1 ≠ b.1)) (hs : govxSorted acc)
    (hk : ∀ x ∈ vals, ∀ e ∈ acc, e.1 ≠ x.1) :
    (govxFill vals acc).Perm (vals.map (fun v => (hexStr v.1, govxVoter v)) ++ acc) ∧
      govxSorted (govxFill vals acc) := by
  induction vals generalizing acc with
  | nil => exact ⟨List.Perm.refl _, hs⟩
  | cons x xs ih =>
    rw [List.pairwise_cons] at hd
    have hx : ∀ e ∈ acc, e.1 ≠ hexStr x.1 := fun e he => hk x List.mem_cons_self e he
    have e1 : mapSet acc (hexStr x.1) (govxVoter x) = mapIns acc (hexStr x.1) (govxVoter x) :=
      govx_mapSet_new _ _ _ hx
    have hp := govx_mapIns_perm acc (hexStr x.1) (govxVoter x)
    have := ih (mapIns acc (hexStr x.1) (govxVoter x)) hd.2 (govx_mapIns_sorted _ _ _ hs hx)
      (by
        intro y hy e he
        rcases List.mem_cons.mp (hp.subset he) with rfl | he
        · exact hd.1 y hy
        · exact hk y (List.mem_cons_of_mem _ hy) e he)
    unfold govxFill at this ⊢
    rw [List.foldl_cons, e1]
    refine ⟨this.1.trans ?_, this.2⟩
    rw [List.map_cons, List.cons_append]
    exact (List.Perm.append_left _ hp).trans List.perm_middle

/-- one validator per address.  `lastValidators` is selected from the delegatee ledger's items, whose
    keys are the addresses, so every reachable state satisfies it. -/
def ValsDistinct (ds : List Delegatee) : Prop := ds.Pairwise (fun a b => a.addr ≠ b.addr)

instance (ds : List Delegatee) : Decidable (ValsDistinct ds) := by unfold ValsDistinct; infer_instance

/-- the result of `StakeCtrler.Validators()` on the model state: (address, power) of the last
    validators and the sum of their powers -/
def govxValidators (s : St) : List (Hex × Int) × Int :=
  (s.lastVals.map (fun v => (v.addr, v.total)), (s.lastVals.map (·.total)).sum)

/-- the voters `execProposal` records -/
def govxModelVoters (ds : List Delegatee) : List Voter :=
  (ds.map fun v => ({ addr := v.addr, power := v.total } : Voter)).mergeSort (fun a b => a.addr ≤ b.addr)

theorem govx_distinct_inj {ds : List Delegatee} (hd : ValsDistinct ds) {a b : Delegatee}
    (ha : a ∈ ds) (hb : b ∈ ds) (e : a.addr = b.addr) : a = b := by
  induction ds with
  | nil => cases ha
  | cons x xs ih =>
    unfold ValsDistinct at hd
    rw [List.pairwise_cons] at hd
    have ha' := List.mem_cons.mp ha
    have hb' := List.mem_cons.mp hb
    clear ha hb
    rcases ha' with rfl | ha' <;> rcases hb' with rfl | hb'
    · rfl
    · exact absurd e (hd.1 b hb')
    · exact absurd e.symm (hd.1 a ha')
    · exact ih hd.2 ha' hb'

/-- the Go map built by the loop (insertion in key order) is the model's voter list (merge sort by
    address) when no two validators share an address -/
theorem govxFill_eq (ds : List Delegatee) (hd : ValsDistinct ds) :
    govxFill (ds.map (fun v => (v.addr, v.total))) [] = votersOf (govxModelVoters ds) := by
  obtain ⟨hp, hs⟩ := govxFill_spec (ds.map (fun v => (v.addr, v.total))) []
    (by rw [List.pairwise_map]; exact hd) List.Pairwise.nil (by intro _ _ e he; cases he)
  have hbase : (ds.map (fun v => (v.addr, v.total))).map (fun v => (hexStr v.1, govxVoter v)) =
      (ds.map fun v => ({ addr := v.addr, power := v.total } : Voter)).map (fun v => (hexStr v.addr, v)) := by
    simp only [List.map_map]; rfl
  have hp2 : (votersOf (govxModelVoters ds)).Perm
      ((ds.map (fun v => (v.addr, v.total))).map (fun v => (hexStr v.1, govxVoter v))) := by
    rw [hbase]; exact (List.mergeSort_perm _ _).map _
  rw [List.append_nil] at hp
  refine List.Perm.eq_of_pairwise (le := fun a b => a.1 ≤ b.1) ?_ ?_ ?_ (hp.trans hp2.symm)
  · intro a b ha hb h1 h2
    have hk : a.1 = b.1 := String.le_antisymm h1 h2
    obtain ⟨x, hx, rfl⟩ := List.mem_map.mp (hp.subset ha)
    obtain ⟨y, hy, rfl⟩ := List.mem_map.mp (hp2.subset hb)
    obtain ⟨d1, hd1, rfl⟩ := List.mem_map.mp hx
    obtain ⟨d2, hd2, rfl⟩ := List.mem_map.mp hy
    have : d1 = d2 := govx_distinct_inj hd hd1 hd2 hk
    subst this; rfl
  · exact List.Pairwise.imp (fun h => String.not_lt.mp (String.lt_asymm h)) hs
  · unfold votersOf govxModelVoters
    rw [List.pairwise_map]
    have h := List.pairwise_mergeSort (le := fun (a b : Voter) => decide (a.addr ≤ b.addr))
      (by intro a b c h1 h2; simp only [decide_eq_true_eq] at *; exact String.le_trans h1 h2)
      (by intro a b; simp only [Bool.or_eq_true, decide_eq_true_eq]; exact String.le_total _ _)
      (ds.map fun v => ({ addr := v.addr, power := v.total } : Voter))
    refine List.Pairwise.imp ?_ h
    intro a b hab; simpa using hab

/-! ### `execProposing` -/

/-- `execProposing(ctx)` with `validators` = the result of `StakeCtrler.Validators()` on the model state:
    the controller afterwards is the controller of `execProposal`'s result state (only the proposal
    ledger changes: the new proposal under `ledgerKey tx.hash`, in the consensus view for a DeliverTx,
    the mempool view for a CheckTx), no error.  `execProposal` has no failure kind (the `.err` line
    is never taken, see `GovCtrler_ExecuteTrx_model`); its panic for a payload that is not a proposal
    is the Go nil dereference of `txpayload`. -/
theorem GovCtrler_execProposing_eq (s : St) (exec : Bool) (tx : TxIn) (ctx : TrxContext)
    (htx : ctx.tx = trxOf tx) (hex : ctx.exec = exec) (hh : ctx.txHash = tx.hash)
    (hd : ValsDistinct s.lastVals) :
    GovCtrler_execProposing (govCtrlOf s) ctx (govxValidators s) =
      match execProposal s exec tx with
      | .ok r => .ok (govCtrlOf r.st, none)
      | .error (.err _) => .ok (govCtrlOf s, none)
      | .error (.panic _) => .error "nil pointer dereference" := by
  unfold GovCtrler_execProposing execProposal
  dsimp only
  rw [forIn_eq_pure _ (fun (xs : List (Hex × Int)) (acc : GMap Voter) => govxFill xs acc)]
  · simp only [htx, hex, hh, trxOf]
    cases hp : tx.payload <;>
      simp only [payOf, TrxPayload.asProposal, gderef, bind, Except.bind, pure, Except.pure, throw, throwThe,
        MonadExceptOf.throw]
    all_goals try (cases exec <;> rfl)
    rename_i msg start period applying optType opts
    have hv : govxFill (govxValidators s).fst [] = votersOf (govxModelVoters s.lastVals) := govxFill_eq _ hd
    have hn := NewGovProposal_eq tx.hash optType start period (govxValidators s).snd applying
      (govxModelVoters s.lastVals) opts
    rw [hv, hn]
    simp only [GovProposal_Key_eq, Option.isSome_none, Bool.false_eq_true, if_false, ite_self]
    simp only [govCtrlOf, ledOf_set]
    cases exec <;> rfl
  · intro s; rfl
  · intro x xs s; rfl

/-- a state whose last validators contain the address "aa" twice (powers 1 and 2) -/
def govxDupSt : St :=
  { lastVals := [{ addr := "aa", pub := "", total := 1 }, { addr := "aa", pub := "", total := 2 }] }

def govxPropTx : TxIn :=
  { hash := "h", from_ := "aa", type := 4,
    payload := .proposal "m" 10 20 40 0 [{ raw := "01", parsedV := none, parsedA := none, votes := 0 }] }

def govxPropCtx (s : St) (tx : TxIn) : TrxContext := ctxOf s true 5 tx { addr := tx.from_ } { addr := tx.to }

/-- the voters the generated function stored under the proposal's key -/
def govxStoredVoters (r : G (GovCtrler × Option String)) (k : String) : Option (GMap Voter) :=
  match r with
  | .ok (g, _) => (g.proposalLedger.get true k).map (·.header.voters)
  | .error _ => none

theorem govxDup_go : govxStoredVoters (GovCtrler_execProposing (govCtrlOf govxDupSt)
    (govxPropCtx govxDupSt govxPropTx) (govxValidators govxDupSt)) (ledgerKey "h") =
      some [("aa", { addr := "aa", power := 2, choice := -1 })] := by
  decide

theorem govxDup_model : ∃ r, execProposal govxDupSt true govxPropTx = .ok r ∧
    govxStoredVoters (.ok (govCtrlOf r.st, none)) (ledgerKey "h") =
      some [("aa", { addr := "aa", power := 1, choice := -1 }), ("aa", { addr := "aa", power := 2, choice := -1 })] := by
  refine ⟨_, rfl, ?_⟩
  simp [govxStoredVoters, govCtrlOf, Led.get_set, govxPropTx, govxDupSt, propOf, votersOf, List.mergeSort]

/-- without `ValsDistinct` the two differ: with the address "aa" twice among the last validators
    (powers 1 and 2) the Go map keeps ONE voter "aa" (the later one, power 2) while the model's list
    keeps both; the total power (3) and the majority are the same.  Not reachable: `lastValidators`
    is a selection of the delegatee ledger's items, one per address. -/
theorem GovCtrler_execProposing_differs : ∃ s exec tx ctx, ctx.tx = trxOf tx ∧ ctx.exec = exec ∧
    ctx.txHash = tx.hash ∧ ¬ ValsDistinct s.lastVals ∧ ∃ r, execProposal s exec tx = .ok r ∧
      GovCtrler_execProposing (govCtrlOf s) ctx (govxValidators s) ≠ .ok (govCtrlOf r.st, none) := by
  obtain ⟨r, hr, hm⟩ := govxDup_model
  refine ⟨govxDupSt, true, govxPropTx, govxPropCtx govxDupSt govxPropTx, rfl, rfl, rfl, by decide, r, hr, ?_⟩
  intro h
  have hg := govxDup_go
  rw [h, hm] at hg
  revert hg
  decide

/-! ### `execVoting` -/

/-- the Go error of each failure kind of the model's `execVoting` -/
def govxVoteLabel (k : String) : Option String :=
  if k = "notfound" then some "ErrNotFoundResult"
  else if k = "other" then some "not found voter"
  else none

/-- what `DoVote` needs of the proposal voted on when the sender is one of its voters (see
    `GovProposal_DoVote_eq`): one voter per address (a Go map), recorded choices and the new choice
    index an option (`validateVoting` checks the new choice; the Go code panics with an index out of
    range otherwise), and `VoteFits` (a negative choice is recorded as -1 by the Go code; `validateVoting`
    rejects negative choices). -/
def VotingOK (s : St) (exec : Bool) (tx : TxIn) : Prop :=
  match tx.payload with
  | .voting hash choice => ∀ p, s.props.get exec (ledgerKey hash) = some p →
      (p.voters.any (·.addr == tx.from_) = true →
        VotersDistinct p.voters ∧ ChoicesOK p ∧ choice < (p.options.length : Int) ∧ VoteFits p tx.from_ choice)
  | _ => True

instance (s : St) (exec : Bool) (tx : TxIn) : Decidable (VotingOK s exec tx) := by
  unfold VotingOK; split <;> infer_instance

theorem govx_doVote_hash (p : Proposal) (a : Hex) (c : Int) : (p.doVote a c).hash = p.hash := by
  unfold Proposal.doVote; split <;> rfl

/-- `DoVote` by an address that is not a voter: the error, the proposal unchanged (no hypothesis) -/
theorem govx_DoVote_notVoter (p : Proposal) (addr : Hex) (choice : Int)
    (h : p.voters.any (·.addr == addr) = false) :
    GovProposal_DoVote (propOf p) addr choice = .ok (propOf p, some "not found voter") := by
  have hf : p.voters.find? (·.addr == addr) = none := by
    rw [List.find?_eq_none]; rw [List.any_eq_false] at h; exact h
  unfold GovProposal_DoVote
  simp only [propOf_voters, mapGet_votersOf, hf, Option.isNone_none, if_true, pure, Except.pure]

/-- `execVoting(ctx)`: the proposal is read, `DoVote` applied, and the result stored under its key -/
theorem GovCtrler_execVoting_eq (s : St) (exec : Bool) (tx : TxIn) (ctx : TrxContext)
    (htx : ctx.tx = trxOf tx) (hex : ctx.exec = exec) (hok : VotingOK s exec tx) :
    GovCtrler_execVoting (govCtrlOf s) ctx =
      match execVoting s exec tx with
      | .ok r => .ok (govCtrlOf r.st, none)
      | .error (.err k) => .ok (govCtrlOf s, govxVoteLabel k)
      | .error (.panic _) => .error "nil pointer dereference" := by
  unfold GovCtrler_execVoting execVoting
  dsimp only
  simp only [htx, hex, trxOf]
  unfold VotingOK at hok
  cases hp : tx.payload <;> rw [hp] at hok <;>
    simp only [payOf, TrxPayload.asVoting, gderef, bind, Except.bind, pure, Except.pure, throw, throwThe,
      MonadExceptOf.throw]
  all_goals try (cases exec <;> rfl)
  rename_i hash choice
  have hok' : ∀ p, s.props.get exec (ledgerKey hash) = some p →
      (p.voters.any (·.addr == tx.from_) = true →
        VotersDistinct p.voters ∧ ChoicesOK p ∧ choice < (p.options.length : Int) ∧ VoteFits p tx.from_ choice) := hok
  clear hok
  have hgl : ∀ e, (govCtrlOf s).proposalLedger.get e (toLedgerKey hash) =
      (s.props.get e (ledgerKey hash)).map propOf := fun e => rfl
  simp only [hgl]
  cases exec
  all_goals
    simp only [Bool.false_eq_true, if_false, if_true]
    cases hg : s.props.get _ (ledgerKey hash) with
    | none => simp [govxVoteLabel]
    | some p =>
      simp only [Option.map_some, gnotFound_some, Option.isSome_none, Bool.false_eq_true, if_false]
      by_cases hv : p.voters.any (·.addr == tx.from_) = true
      · obtain ⟨h1, h2, h3, h4⟩ := hok' p hg hv
        rw [GovProposal_DoVote_eq p tx.from_ choice h1 h2 h3 h4]
        simp only [hv, if_true, Option.isSome_none, Bool.false_eq_true, if_false, GovProposal_Key_eq,
          govx_doVote_hash, ite_self, Bool.not_true]
        simp only [govCtrlOf, ledOf_set]
      · have hv' : p.voters.any (·.addr == tx.from_) = false := by simpa using hv
        rw [govx_DoVote_notVoter p tx.from_ choice hv']
        simp [hv', govxVoteLabel]

/-- a state whose proposal ledger (consensus view) holds `exProposal` (voters "aa": 10, chose option 0;
    "bb": 20, no choice; two options) under its key -/
def govxVoteSt : St := { props := ({} : Led Proposal).set true (ledgerKey "h") exProposal }

def govxVoteTx (from_ : Hex) (choice : Int) : TxIn :=
  { hash := "v", from_ := from_, type := 5, payload := .voting "h" choice }

/-- the proposal the generated function stored under a key, as (voters, options) -/
def govxStored (r : G (GovCtrler × Option String)) (k : String) : Option (GMap Voter × List VoteOption) :=
  match r with
  | .ok (g, _) => (g.proposalLedger.get true k).map (fun p => (p.header.voters, p.options))
  | .error _ => none

theorem govxNeg_go : govxStored (GovCtrler_execVoting (govCtrlOf govxVoteSt)
    (govxPropCtx govxVoteSt (govxVoteTx "bb" (-2)))) (ledgerKey "h") =
      some ([("aa", { addr := "aa", power := 10, choice := 0 }), ("bb", { addr := "bb", power := 20, choice := -1 })],
            [{ option := "01", votes := 10 }, { option := "02", votes := 0 }]) := by
  decide

theorem govxNeg_model : ∃ r, execVoting govxVoteSt true (govxVoteTx "bb" (-2)) = .ok r ∧
    govxStored (.ok (govCtrlOf r.st, none)) (ledgerKey "h") =
      some ([("aa", { addr := "aa", power := 10, choice := 0 }), ("bb", { addr := "bb", power := 20, choice := -2 })],
            [{ option := "01", votes := 10 }, { option := "02", votes := 0 }]) := by
  refine ⟨_, rfl, ?_⟩
  decide

/-- without `VoteFits` the two differ: a vote with choice -2 by "bb" (who has not voted): the Go code
    leaves the voter's choice at -1, the model records -2 (the difference of `GovProposal_DoVote_differs`
    seen through the controller).  Not reachable: `validateVoting` rejects a negative choice
    ("payloadparams") before `execVoting` runs. -/
theorem GovCtrler_execVoting_differs : ∃ s exec tx ctx, ctx.tx = trxOf tx ∧ ctx.exec = exec ∧
    ¬ VotingOK s exec tx ∧ ∃ r, execVoting s exec tx = .ok r ∧
      GovCtrler_execVoting (govCtrlOf s) ctx ≠ .ok (govCtrlOf r.st, none) := by
  obtain ⟨r, hr, hm⟩ := govxNeg_model
  refine ⟨govxVoteSt, true, govxVoteTx "bb" (-2), govxPropCtx govxVoteSt (govxVoteTx "bb" (-2)), rfl, rfl,
    by decide, r, hr, ?_⟩
  intro h
  have hg := govxNeg_go
  rw [h, hm] at hg
  revert hg
  decide

/-- without `choice < options.length` the two differ as well: a vote for option 5 (of 2) makes the Go
    code panic (`prop.Options[choice]`: index out of range) while the model's `execVoting` records the
    choice and changes no option.  Not reachable through `validateVoting` either ("payloadparams"). -/
theorem GovCtrler_execVoting_differs_range : ∃ s exec tx ctx, ctx.tx = trxOf tx ∧ ctx.exec = exec ∧
    ¬ VotingOK s exec tx ∧ (∃ r, execVoting s exec tx = .ok r) ∧
      GovCtrler_execVoting (govCtrlOf s) ctx = .error "index out of range" := by
  refine ⟨govxVoteSt, true, govxVoteTx "bb" 5, govxPropCtx govxVoteSt (govxVoteTx "bb" 5), rfl, rfl,
    by decide, ⟨_, rfl⟩, ?_⟩
  rfl

/-! ### `ExecuteTrx` -/

/-- `ExecuteTrx(ctx)`: the switch on the transaction type -/
theorem GovCtrler_ExecuteTrx_eq (c : GovCtrler) (ctx : TrxContext) (vals : List (Hex × Int) × Int) :
    GovCtrler_ExecuteTrx c ctx vals =
      if ctx.tx.type = 4 then GovCtrler_execProposing c ctx vals
      else if ctx.tx.type = 5 then GovCtrler_execVoting c ctx
      else .ok (c, some "ErrUnknownTrxType") := by
  unfold GovCtrler_ExecuteTrx Trx_GetType
  simp only [bind, Except.bind, pure, Except.pure]
  by_cases h4 : ctx.tx.type = 4
  · simp only [h4, if_true]
    cases GovCtrler_execProposing c ctx vals <;> rfl
  · simp only [h4, if_false]
    by_cases h5 : ctx.tx.type = 5
    · simp only [h5, if_true]
      cases GovCtrler_execVoting c ctx <;> rfl
    · simp only [h5, if_false]

/-- the governance controller's part of the model's `runTrx` (the branch of `Rigo.execNative`) -/
def govxExec (s : St) (exec : Bool) (tx : TxIn) : Step RunOut :=
  if tx.type = TRX_PROPOSAL then execProposal s exec tx
  else if tx.type = TRX_VOTING then execVoting s exec tx
  else throw (.err "unknowntype")

/-- for a proposal or voting transaction `runTrx` is `govxExec` followed by the fee step -/
theorem govxExec_runTrx (s : St) (exec : Bool) (ht : Int) (tx : TxIn) (recv : Account)
    (h : tx.type = TRX_PROPOSAL ∨ tx.type = TRX_VOTING) :
    runTrx s exec ht tx recv =
      (govxExec s exec tx).bind fun r => if r.fail.isSome then .ok (r.st, 0, r.fail) else feeStep r.st exec tx := by
  have hn : ¬ viaEvm tx recv := by
    unfold viaEvm; rcases h with h | h <;> simp [h, TRX_PROPOSAL, TRX_VOTING, TRX_CONTRACT, TRX_TRANSFER]
  rw [runTrx_native hn]
  unfold execNative govxExec
  rcases h with h | h <;> simp [h, TRX_PROPOSAL, TRX_VOTING]

/-- the Go error of each failure kind of `govxExec` -/
def govxExecLabel (k : String) : Option String :=
  if k = "unknowntype" then some "ErrUnknownTrxType" else govxVoteLabel k

/-- `ExecuteTrx(ctx)` against the model: outcome for outcome -/
theorem GovCtrler_ExecuteTrx_model (s : St) (exec : Bool) (tx : TxIn) (ctx : TrxContext)
    (htx : ctx.tx = trxOf tx) (hex : ctx.exec = exec) (hh : ctx.txHash = tx.hash)
    (hd : tx.type = TRX_PROPOSAL → ValsDistinct s.lastVals) (hok : tx.type = TRX_VOTING → VotingOK s exec tx) :
    GovCtrler_ExecuteTrx (govCtrlOf s) ctx (govxValidators s) =
      match govxExec s exec tx with
      | .ok r => .ok (govCtrlOf r.st, none)
      | .error (.err k) => .ok (govCtrlOf s, govxExecLabel k)
      | .error (.panic _) => .error "nil pointer dereference" := by
  rw [GovCtrler_ExecuteTrx_eq]
  have ht : ctx.tx.type = tx.type := by rw [htx]; rfl
  unfold govxExec
  simp only [ht, TRX_PROPOSAL, TRX_VOTING] at hd hok ⊢
  by_cases h4 : tx.type = 4
  · simp only [h4, if_true]
    rw [GovCtrler_execProposing_eq s exec tx ctx htx hex hh (hd h4)]
    unfold execProposal
    cases tx.payload <;> rfl
  · simp only [h4, if_false]
    by_cases h5 : tx.type = 5
    · simp only [h5, if_true]
      rw [GovCtrler_execVoting_eq s exec tx ctx htx hex (hok h5)]
      cases hr : execVoting s exec tx with
      | ok r => rfl
      | error e =>
        cases e with
        | panic _ => rfl
        | err k =>
          have hk : k = "notfound" ∨ k = "other" := by
            unfold execVoting at hr
            simp only [bind, Except.bind, pure, Except.pure, throw, throwThe, MonadExceptOf.throw] at hr
            repeat' split at hr
            all_goals (cases hr; try simp)
          rcases hk with rfl | rfl <;> rfl
    · simp only [h5, if_false]; rfl

/-! ### the hypotheses are satisfiable, the conclusions compute -/

/-- two validators given in the order "bb", "aa" -/
def govxSt2 : St :=
  { lastVals := [{ addr := "bb", pub := "", total := 5 }, { addr := "aa", pub := "", total := 7 }] }

/-- `execProposing` on `govxSt2`: the hypotheses hold and the stored proposal has the voters sorted by
    address with their powers and no choice -/
example : ValsDistinct govxSt2.lastVals ∧
    govxStoredVoters (GovCtrler_execProposing (govCtrlOf govxSt2) (govxPropCtx govxSt2 govxPropTx)
      (govxValidators govxSt2)) (ledgerKey "h") =
      some [("aa", { addr := "aa", power := 7, choice := -1 }), ("bb", { addr := "bb", power := 5, choice := -1 })] := by
  refine ⟨by decide, ?_⟩
  rw [GovCtrler_execProposing_eq govxSt2 true govxPropTx _ rfl rfl rfl (by decide)]
  simp [execProposal, govxStoredVoters, govCtrlOf, Led.get_set, govxPropTx, govxSt2, propOf, votersOf,
    List.mergeSort, pure, Except.pure]

/-- `execVoting` on `govxVoteSt`: "aa" changes its vote from option 0 to option 1 -/
example : VotingOK govxVoteSt true (govxVoteTx "aa" 1) ∧
    govxStored (GovCtrler_execVoting (govCtrlOf govxVoteSt) (govxPropCtx govxVoteSt (govxVoteTx "aa" 1)))
      (ledgerKey "h") =
      some ([("aa", { addr := "aa", power := 10, choice := 1 }), ("bb", { addr := "bb", power := 20, choice := -1 })],
            [{ option := "01", votes := 0 }, { option := "02", votes := 10 }]) := by
  refine ⟨by decide, ?_⟩
  rw [GovCtrler_execVoting_eq govxVoteSt true (govxVoteTx "aa" 1) _ rfl rfl (by decide)]
  decide

/-- a sender who is not a voter, and a proposal that does not exist -/
example : GovCtrler_execVoting (govCtrlOf govxVoteSt) (govxPropCtx govxVoteSt (govxVoteTx "cc" 1)) =
    .ok (govCtrlOf govxVoteSt, some "not found voter") := by
  rw [GovCtrler_execVoting_eq govxVoteSt true (govxVoteTx "cc" 1) _ rfl rfl (by decide)]
  rfl

end Rigo.GenEq
