/-
  C15 (reachable-state tally invariant), part 1: how one transaction touches the open proposals and
  the delegatee ledger.
-/
import RigoProofs.C15EndBlock
import RigoProofs.C15Snapshot
import RigoProofs.C15Punish
import RigoProofs.TxCommon

namespace Rigo.C15
open Rigo

/-- delegatee ledgers store every delegatee under the ledger key of its own address -/
def DKey : String → Delegatee → Prop := fun k d => ledgerKey d.addr = k

theorem LedAll.mono {α : Type} {P Q : String → α → Prop} {l : Led α} (h : LedAll P l) (hpq : ∀ k v, P k v → Q k v) :
    LedAll Q l :=
  ⟨fun k v hk => hpq k v (h.1 k v hk), fun k v hk => hpq k v (h.2.1 k v hk), fun m hm k v hk => hpq k v (h.2.2 m hm k v hk)⟩

/-! ### bodies -/

theorem execProposal_nofail {s : St} {e : Bool} {tx : TxIn} {r : RunOut} (h : execProposal s e tx = .ok r) : r.fail = none := by
  unfold execProposal at h
  simp only [bind, Except.bind, pure, Except.pure, throw, throwThe, MonadExceptOf.throw] at h
  split at h
  · cases h; rfl
  · cases h

theorem execVoting_nofail {s : St} {e : Bool} {tx : TxIn} {r : RunOut} (h : execVoting s e tx = .ok r) : r.fail = none := by
  unfold execVoting at h
  simp only [bind, Except.bind, pure, Except.pure, throw, throwThe, MonadExceptOf.throw] at h
  repeat' split at h
  all_goals first | cases h | skip
  all_goals rfl

theorem execStaking_delegs {s : St} {e : Bool} {ht : Int} {tx : TxIn} {r : RunOut} (h : execStaking s e ht tx = .ok r) :
    ∃ d', r.st.delegs = s.delegs.set e (ledgerKey d'.addr) d' := by
  unfold execStaking at h
  simp only [bind, Except.bind, pure, Except.pure, throw, throwThe, MonadExceptOf.throw] at h
  repeat' split at h
  all_goals first | cases h | skip
  all_goals exact ⟨_, rfl⟩

theorem execUnstaking_delegs {s : St} {e : Bool} {ht : Int} {tx : TxIn} {r : RunOut} (h : execUnstaking s e ht tx = .ok r) :
    ∃ d2, r.st.delegs = s.delegs.del e (ledgerKey d2.addr) ∨ r.st.delegs = s.delegs.set e (ledgerKey d2.addr) d2 := by
  unfold execUnstaking at h
  simp only [bind, Except.bind, pure, Except.pure, throw, throwThe, MonadExceptOf.throw] at h
  repeat' split at h
  all_goals first | cases h | skip
  all_goals first | exact ⟨_, Or.inl rfl⟩ | exact ⟨_, Or.inr rfl⟩

theorem execBody_delegs {s : St} {e : Bool} {ht : Int} {tx : TxIn} {rc : Account} {r : RunOut}
    (h : execBody s e ht tx rc = .ok r) (hk : LedAll DKey s.delegs) : LedAll DKey r.st.delegs := by
  by_cases h1 : tx.type = TRX_STAKING
  · have : execBody s e ht tx rc = execStaking s e ht tx := by
      unfold execBody; simp [h1, TRX_STAKING, TRX_CONTRACT, TRX_PROPOSAL, TRX_VOTING, TRX_TRANSFER, TRX_SETDOC]
    rw [this] at h
    obtain ⟨d', hd⟩ := execStaking_delegs h
    rw [hd]; exact hk.set _ _ _ rfl
  by_cases h2 : tx.type = TRX_UNSTAKING
  · have : execBody s e ht tx rc = execUnstaking s e ht tx := by
      unfold execBody; simp [h2, TRX_UNSTAKING, TRX_STAKING, TRX_CONTRACT, TRX_PROPOSAL, TRX_VOTING, TRX_TRANSFER, TRX_SETDOC]
    rw [this] at h
    obtain ⟨d2, hd | hd⟩ := execUnstaking_delegs h
    · rw [hd]; exact hk.del _ _
    · rw [hd]; exact hk.set _ _ _ rfl
  · have := (execBody_frame h).2.2.2 ⟨h1, h2⟩
    unfold FrD at this; rw [this]; exact hk

theorem runTrx_delegs {s : St} {e : Bool} {ht : Int} {tx : TxIn} {rc : Account} {s2 : St} {g : Nat} {k : Option String}
    (h : runTrx s e ht tx rc = .ok (s2, g, k)) (hk : LedAll DKey s.delegs) : LedAll DKey s2.delegs := by
  rw [runTrx_eq] at h
  simp only [bind, Except.bind] at h
  split at h
  · cases h
  · rename_i r hr
    have hb := execBody_delegs hr hk
    rcases runTail_cases h with ⟨_, _, h1⟩ | ⟨_, h1⟩ | ⟨_, _, _, _, sender, a1, _, _, h1⟩
    · rw [h1]; exact hb
    · rw [h1]; exact hb
    · rw [h1]; exact hb

/-- any transaction, any outcome, either path: the delegatee ledger stays keyed by address -/
theorem handleTx_delegs (s : St) (e : Bool) (ht : Int) (tx : TxIn) (hk : LedAll DKey s.delegs) :
    LedAll DKey (handleTx s e ht tx).1.delegs := by
  have h0 : (s.findOrNewAcct e tx.to).1.delegs = s.delegs := (findOrNewAcct_frAll s e tx.to).2.2.2
  by_cases hc : (handleTx s e ht tx).2.code = 0
  · obtain ⟨_, sender, s1, s2, g, _, hval, hrun, hres⟩ := handleTx_success hc
    obtain ⟨l, rfl⟩ := validateTrx_limiter hval
    rw [hres]
    exact runTrx_delegs hrun (by show LedAll DKey (s.findOrNewAcct e tx.to).1.delegs; rw [h0]; exact hk)
  · rcases handleTx_fail_inv hc with h1 | h1 | ⟨sender, s1, _, hval, h1⟩
    · rw [h1]; exact hk
    · rw [h1, h0]; exact hk
    · obtain ⟨l, rfl⟩ := validateTrx_limiter hval
      have hk1 : LedAll DKey ({ (s.findOrNewAcct e tx.to).1 with limiter := l } : St).delegs := by
        show LedAll DKey (s.findOrNewAcct e tx.to).1.delegs; rw [h0]; exact hk
      rcases h1 with ⟨er, _, h2⟩ | ⟨s2, g, k, hrun, h2⟩
      · rw [h2]; exact hk1
      · rw [h2]; exact runTrx_delegs hrun hk1

/-! ### open proposals -/

/-- a failed TRX_PROPOSAL / TRX_VOTING (and any transaction of another type) leaves the open proposals alone -/
theorem handleTx_props_fail (s : St) (e : Bool) (ht : Int) (tx : TxIn) (hc : (handleTx s e ht tx).2.code ≠ 0) :
    (handleTx s e ht tx).1.props = s.props := by
  have h0 : (s.findOrNewAcct e tx.to).1.props = s.props := (findOrNewAcct_frAll s e tx.to).2.2.1
  rcases handleTx_fail_inv hc with h1 | h1 | ⟨sender, s1, _, hval, h1⟩
  · rw [h1]
  · rw [h1, h0]
  · obtain ⟨l, rfl⟩ := validateTrx_limiter hval
    rcases h1 with ⟨er, _, h2⟩ | ⟨s2, g, k, hrun, h2⟩
    · rw [h2]; exact h0
    · rw [h2]
      by_cases hty : tx.type ≠ TRX_PROPOSAL ∧ tx.type ≠ TRX_VOTING
      · have := (runTrx_frame hrun).2.2.1 hty
        unfold FrP at this; rw [this]; exact h0
      · exfalso
        rw [runTrx_eq] at hrun
        simp only [bind, Except.bind] at hrun
        split at hrun
        · cases hrun
        · rename_i r hr
          have hnf : r.fail = none := by
            by_cases h1 : tx.type = TRX_PROPOSAL
            · rw [execBody_proposal _ _ _ _ _ h1] at hr; exact execProposal_nofail hr
            · have h2 : tx.type = TRX_VOTING := by
                by_cases h2 : tx.type = TRX_VOTING
                · exact h2
                · exact absurd ⟨h1, h2⟩ hty
              rw [execBody_voting _ _ _ _ _ h2] at hr; exact execVoting_nofail hr
          rcases runTail_cases hrun with ⟨hf, _, _⟩ | ⟨hv, _⟩ | ⟨hk, _⟩
          · rw [hnf] at hf; cases hf
          · rcases hv with hv | ⟨hv, _⟩
            · apply hty; rw [hv]; exact ⟨by decide, by decide⟩
            · apply hty; rw [hv]; exact ⟨by decide, by decide⟩
          · cases hk

/-- any transaction keeps `PropOK` on every entry of the open-proposal ledger, given distinct validators -/
theorem handleTx_propsOK (s : St) (e : Bool) (ht : Int) (tx : TxIn) (hp : LedAll (fun _ p => PropOK p) s.props)
    (hd : DistinctD s.lastVals) : LedAll (fun _ p => PropOK p) (handleTx s e ht tx).1.props := by
  by_cases hc : (handleTx s e ht tx).2.code = 0
  · by_cases h1 : tx.type = TRX_PROPOSAL
    · obtain ⟨msg, start, period, applying, optType, opts, _, hprops⟩ := proposal_successW h1 hc
      rw [hprops]
      exact hp.set _ _ _ (snapshot_ok s tx start period applying optType opts hd).1
    by_cases h2 : tx.type = TRX_VOTING
    · obtain ⟨hash, choice, p, acc, hprops⟩ := voting_success h2 hc
      rw [hprops]
      have hpo : PropOK p := hp.get acc.found
      exact hp.set _ _ _ (doVote_ok hpo tx.from_ choice (Or.inr ⟨acc.choiceLo, acc.choiceHi⟩))
    · have := (handleTx_frame s e ht tx).2.2.1 ⟨h1, h2⟩
      unfold FrP at this; rw [this]; exact hp
  · rw [handleTx_props_fail s e ht tx hc]; exact hp

end Rigo.C15
