/-
  C02 helper: the EVM path `execEvm s true tx` of the model.  It only touches the consensus view of
  the account ledger: accounts are found-or-created (balance 0), overwritten on sync-out, and the
  created contract gets its code.  Keys stay canonical, no account disappears, and when the call
  fails (nothing is synced out) the sum of balances is unchanged.
-/
import RigoProofs.C02Defs

namespace Rigo.C02

open Std

/-- the account part of `Inv0` -/
def AcctKey (s : St) : Prop :=
  ∀ (k : String) (a : Account), s.accts.fin[k]? = some a → ledgerKey a.addr = k

/-- `s'` differs from `s` at most in the consensus view of the accounts, whose keys are canonical
    and include all the keys of `s` -/
structure Keep (s s' : St) : Prop where
  hist : s'.accts.hist = s.accts.hist
  delegs : s'.delegs = s.delegs
  frozen : s'.frozen = s.frozen
  ghost : s'.ghost = s.ghost
  blk : s'.blk = s.blk
  active : s'.active = s.active
  key : AcctKey s'
  mono : ∀ (k : String) (a : Account), s.accts.fin[k]? = some a → ∃ a', s'.accts.fin[k]? = some a'

theorem Keep.refl {s : St} (h : AcctKey s) : Keep s s :=
  ⟨rfl, rfl, rfl, rfl, rfl, rfl, h, fun _ a ha => ⟨a, ha⟩⟩

theorem Keep.trans {s₁ s₂ s₃ : St} (h₁ : Keep s₁ s₂) (h₂ : Keep s₂ s₃) : Keep s₁ s₃ where
  hist := h₂.hist.trans h₁.hist
  delegs := h₂.delegs.trans h₁.delegs
  frozen := h₂.frozen.trans h₁.frozen
  ghost := h₂.ghost.trans h₁.ghost
  blk := h₂.blk.trans h₁.blk
  active := h₂.active.trans h₁.active
  key := h₂.key
  mono := fun k a ha => by
    obtain ⟨a', ha'⟩ := h₁.mono k a ha
    exact h₂.mono k a' ha'

theorem setAcct_fin (s : St) (a : Account) :
    (s.setAcct true a).accts.fin = s.accts.fin.insert (ledgerKey a.addr) a := by
  simp [St.setAcct, Led.set]

theorem setAcct_keep {s : St} (h : AcctKey s) (a : Account) : Keep s (s.setAcct true a) where
  hist := by simp [St.setAcct, Led.set]
  delegs := rfl
  frozen := rfl
  ghost := rfl
  blk := rfl
  active := rfl
  key := by
    intro k b hb
    rw [setAcct_fin, ExtTreeMap.getElem?_insert] at hb
    split at hb
    · rename_i hk
      have : a = b := by simpa using hb
      subst this
      exact compare_eq_iff_eq.mp hk
    · exact h k b hb
  mono := by
    intro k b hb
    rw [setAcct_fin, ExtTreeMap.getElem?_insert]
    split
    · exact ⟨a, rfl⟩
    · exact ⟨b, hb⟩

theorem findAcct_key {s : St} (h : AcctKey s) {addr : Hex} {a : Account}
    (hf : s.findAcct true addr = some a) : ledgerKey a.addr = ledgerKey addr := by
  simp only [St.findAcct, Led.get] at hf
  exact h _ _ hf

/-- `FindOrNewAccount` on the consensus view: a frame step that keeps the sum of balances, and the
    returned account lives (in the new state) under the key of the requested address -/
theorem findOrNew_keep {s : St} (h : AcctKey s) (addr : Hex) :
    Keep s (s.findOrNewAcct true addr).1 ∧
    sumBal (s.findOrNewAcct true addr).1.accts.fin = sumBal s.accts.fin ∧
    ledgerKey (s.findOrNewAcct true addr).2.addr = ledgerKey addr := by
  unfold St.findOrNewAcct
  split
  · rename_i a hf
    exact ⟨Keep.refl h, rfl, findAcct_key h hf⟩
  · rename_i hf
    refine ⟨setAcct_keep h _, ?_, rfl⟩
    simp only [St.findAcct, Led.get] at hf
    simp only [setAcct_fin, sumBal]
    rw [msum_insert, fAt_none _ (by simpa using hf)]
    simp

/-! ### the two folds of `execEvm` -/

/-- body of the sync-in fold -/
def accIn (acc : St) (a : Hex) : St := (acc.findOrNewAcct true a).1

/-- body of the sync-out fold -/
def accOut (acc : St) (x : Hex × Nat × Nat) : St :=
  (acc.findOrNewAcct true x.1).1.setAcct true { (acc.findOrNewAcct true x.1).2 with bal := x.2.1, nonce := x.2.2 }

theorem foldIn_keep (l : List Hex) {s : St} (h : AcctKey s) :
    Keep s (l.foldl accIn s) ∧ sumBal (l.foldl accIn s).accts.fin = sumBal s.accts.fin := by
  induction l generalizing s with
  | nil => exact ⟨Keep.refl h, rfl⟩
  | cons a l ih =>
    obtain ⟨k1, e1, _⟩ := findOrNew_keep h a
    obtain ⟨k2, e2⟩ := ih (s := accIn s a) k1.key
    exact ⟨k1.trans k2, e2.trans e1⟩

theorem accOut_keep {s : St} (h : AcctKey s) (x : Hex × Nat × Nat) : Keep s (accOut s x) := by
  obtain ⟨k1, _, _⟩ := findOrNew_keep h x.1
  exact k1.trans (setAcct_keep k1.key _)

theorem foldOut_keep (l : List (Hex × Nat × Nat)) {s : St} (h : AcctKey s) :
    Keep s (l.foldl accOut s) := by
  induction l generalizing s with
  | nil => exact Keep.refl h
  | cons x l ih =>
    have k1 := accOut_keep h x
    exact k1.trans (ih (s := accOut s x) k1.key)

/-! ### the EVM path -/

theorem execEvm_keep {s : St} {tx : TxIn} {r : RunOut} (h : execEvm s true tx = .ok r) (hk : AcctKey s) :
    Keep s r.st ∧ (r.fail.isSome → sumBal r.st.accts.fin = sumBal s.accts.fin) := by
  simp only [execEvm, bind, Except.bind, pure, Except.pure] at h
  simp only [Bool.not_true, Bool.false_eq_true, if_false] at h
  split at h
  · rename_i o ho
    have kin := foldIn_keep o.accessed hk
    have kout := foldOut_keep o.synced kin.1.key
    split at h
    · cases h
      exact ⟨kin.1, fun _ => kin.2⟩
    · split at h
      · split at h
        · rename_i c hc
          cases h
          refine ⟨(kin.1.trans kout).trans (setAcct_keep kout.key _), by simp⟩
        · simp [throw, throwThe, MonadExceptOf.throw] at h
      · cases h
        exact ⟨kin.1.trans kout, by simp⟩
  · simp [throw, throwThe, MonadExceptOf.throw] at h

theorem execEvm_ok {s : St} {tx : TxIn} {r : RunOut} (h : execEvm s true tx = .ok r) (hi : Inv0 s) :
    Inv0 r.st ∧ Frame s r.st ∧ r.st.delegs = s.delegs ∧ r.st.frozen = s.frozen ∧ r.st.ghost = s.ghost ∧
    (r.fail.isSome → sumBal r.st.accts.fin = sumBal s.accts.fin) ∧
    (∀ (k : String) (a : Account), s.accts.fin[k]? = some a → ∃ a', r.st.accts.fin[k]? = some a') := by
  obtain ⟨k, hs⟩ := execEvm_keep h hi.acctKey
  refine ⟨⟨k.key, ?_, ?_⟩, ⟨k.hist, ?_, ?_, k.blk, k.active, ?_⟩, k.delegs, k.frozen, k.ghost, hs, k.mono⟩
  · rw [k.delegs]; exact hi.delegKey
  · rw [k.frozen]; exact hi.frozenKey
  · rw [k.delegs]
  · rw [k.frozen]
  · rw [k.ghost]

end Rigo.C02
