/-
  C01 helpers: folds over the entries of a map in an arbitrary visiting order (Go map ranges).
-/
import RigoProofs.C01Sort
open Std

namespace Rigo.Determinism
open Rigo.Ledger

section generic
variable {κ β : Type} {cmp : κ → κ → Ordering} [TransCmp cmp] [LawfulEqCmp cmp]

theorem insert_comm (m : ExtTreeMap κ β cmp) {k₁ k₂ : κ} (h : k₁ ≠ k₂) (v₁ v₂ : β) :
    (m.insert k₁ v₁).insert k₂ v₂ = (m.insert k₂ v₂).insert k₁ v₁ := by
  apply ExtTreeMap.ext_getElem?
  intro k
  simp only [ExtTreeMap.getElem?_insert, LawfulEqCmp.compare_eq_iff_eq]
  by_cases e1 : k₁ = k <;> by_cases e2 : k₂ = k <;> simp_all

theorem erase_comm (m : ExtTreeMap κ β cmp) (k₁ k₂ : κ) :
    (m.erase k₁).erase k₂ = (m.erase k₂).erase k₁ := by
  apply ExtTreeMap.ext_getElem?
  intro k
  simp only [ExtTreeMap.getElem?_erase]
  by_cases e1 : cmp k₁ k = .eq <;> by_cases e2 : cmp k₂ k = .eq <;> simp_all

/-- writing the entries of a duplicate-free list: the order is irrelevant -/
theorem foldl_insert_perm {l₁ l₂ : List (κ × β)} (p : l₁.Perm l₂) (nd : (l₁.map (·.1)).Nodup)
    (m : ExtTreeMap κ β cmp) :
    l₁.foldl (fun acc kv => acc.insert kv.1 kv.2) m = l₂.foldl (fun acc kv => acc.insert kv.1 kv.2) m := by
  refine List.Perm.foldl_eq' p ?_ m
  intro x hx y hy z
  by_cases e : x.1 = y.1
  · have := eq_of_mem_of_nodup_map (·.1) nd hx hy e
    subst this; rfl
  · exact insert_comm z e _ _

theorem foldl_erase_perm {l₁ l₂ : List κ} (p : l₁.Perm l₂) (m : ExtTreeMap κ β cmp) :
    l₁.foldl (fun acc k => acc.erase k) m = l₂.foldl (fun acc k => acc.erase k) m :=
  List.Perm.foldl_eq' p (fun x _ y _ z => erase_comm z x y) m

theorem nodup_of_nodup_map {α γ : Type} (f : α → γ) {l : List α} (h : (l.map f).Nodup) : l.Nodup := by
  rw [List.Nodup, List.pairwise_map] at h
  exact h.imp fun h e => h (congrArg f e)

theorem getElem?_foldl_erase [DecidableEq κ] (l : List κ) (m : ExtTreeMap κ β cmp) (k : κ) :
    (l.foldl (fun acc k => acc.erase k) m)[k]? = if k ∈ l then none else m[k]? := by
  induction l generalizing m with
  | nil => simp
  | cons x xs ih =>
    simp only [List.foldl_cons, ih, ExtTreeMap.getElem?_erase, LawfulEqCmp.compare_eq_iff_eq, List.mem_cons]
    by_cases e1 : k ∈ xs <;> by_cases e2 : x = k <;> simp_all
    all_goals first
      | done
      | (intro e; exact absurd e.symm e2)
      | skip

theorem getElem?_foldl_insert_of_mem [BEq κ] [LawfulBEqCmp cmp] {l : List (κ × β)} (m : ExtTreeMap κ β cmp)
    (nd : (l.map (·.1)).Nodup) {k : κ} {v : β} (h : (k, v) ∈ l) :
    (l.foldl (fun acc kv => acc.insert kv.1 kv.2) m)[k]? = some v := by
  rw [← ExtTreeMap.insertMany_list_eq_foldl]
  refine ExtTreeMap.getElem?_insertMany_list_of_mem (LawfulEqCmp.compare_eq_iff_eq.mpr rfl) ?_ h
  rw [List.Nodup, List.pairwise_map] at nd
  exact nd.imp fun h c => h (LawfulEqCmp.compare_eq_iff_eq.mp c)

omit [LawfulEqCmp cmp] in
theorem getElem?_foldl_insert_of_not_mem [BEq κ] [LawfulBEq κ] [LawfulBEqCmp cmp] {l : List (κ × β)}
    (m : ExtTreeMap κ β cmp) {k : κ} (h : k ∉ l.map (·.1)) :
    (l.foldl (fun acc kv => acc.insert kv.1 kv.2) m)[k]? = m[k]? := by
  rw [← ExtTreeMap.insertMany_list_eq_foldl]
  refine ExtTreeMap.getElem?_insertMany_list_of_contains_eq_false ?_
  simpa using h

/-- writing every entry of `upd` over `base`, in any order, is the union (right-biased) -/
theorem foldl_insert_toList_eq_union [BEq κ] [LawfulBEq κ] [LawfulBEqCmp cmp] (base upd : ExtTreeMap κ β cmp)
    {order : List (κ × β)} (p : order.Perm upd.toList) :
    order.foldl (fun acc kv => acc.insert kv.1 kv.2) base = base ∪ upd := by
  have nd : (order.map (·.1)).Nodup := by
    refine (p.map (·.1)).nodup_iff.mpr ?_
    rw [List.Nodup, List.pairwise_map]
    exact (ExtTreeMap.distinct_keys_toList (t := upd)).imp fun h e => h (LawfulEqCmp.compare_eq_iff_eq.mpr e)
  apply ExtTreeMap.ext_getElem?
  intro k
  rw [ExtTreeMap.getElem?_union]
  cases hk : upd[k]? with
  | some v =>
    have : (k, v) ∈ order := p.symm.subset (ExtTreeMap.mem_toList_iff_getElem?_eq_some.mpr hk)
    rw [getElem?_foldl_insert_of_mem base nd this]; rfl
  | none =>
    have : k ∉ order.map (·.1) := by
      intro hm
      rcases List.mem_map.mp hm with ⟨⟨k', v⟩, hkv, rfl⟩
      have := ExtTreeMap.mem_toList_iff_getElem?_eq_some.mp (p.subset hkv)
      simp_all
    rw [getElem?_foldl_insert_of_not_mem base this]; rfl

end generic

/-! ### lookup in an entry list -/

theorem lookup_eq_some_iff_mem {β : Type} {l : List (Key × β)} (nd : NodupKeys l) (k : Key) (v : β) :
    l.lookup k = some v ↔ (k, v) ∈ l := by
  induction l with
  | nil => simp
  | cons x xs ih =>
    obtain ⟨k', v'⟩ := x
    have nd' : (xs.map (·.1)).Nodup ∧ k' ∉ xs.map (·.1) := by
      have : ((k', v') :: xs).map (·.1) = k' :: xs.map (·.1) := rfl
      unfold NodupKeys at nd
      rw [this, List.nodup_cons] at nd
      exact ⟨nd.2, nd.1⟩
    simp only [List.lookup_cons, List.mem_cons, Prod.mk.injEq]
    by_cases e : k = k'
    · subst e
      simp only [beq_self_eq_true, Option.some.injEq, true_and]
      constructor
      · intro h; exact Or.inl h.symm
      · rintro (h | h)
        · exact h.symm
        · exact absurd (List.mem_map.mpr ⟨(k, v), h, rfl⟩) nd'.2
    · have : (k == k') = false := by simpa using e
      simp only [this, ih nd'.1, e, false_and, false_or]

theorem lookup_perm {β : Type} {l₁ l₂ : List (Key × β)} (p : l₁.Perm l₂) (nd : NodupKeys l₁) (k : Key) :
    l₁.lookup k = l₂.lookup k := by
  have nd2 : NodupKeys l₂ := show (l₂.map (·.1)).Nodup from (p.map (·.1)).nodup (show (l₁.map (·.1)).Nodup from nd)
  apply Option.ext
  intro v
  rw [lookup_eq_some_iff_mem nd, lookup_eq_some_iff_mem nd2]
  exact p.mem_iff

theorem sortedKeys_perm_eq {l₁ l₂ : List (Key × Val)} (p : l₁.Perm l₂) : sortedKeys l₁ = sortedKeys l₂ :=
  sorted_perm_unique (keyDesc_strictTotal (l₁.map (·.1))).total (sortedKeys_sorted l₁) (sortedKeys_sorted l₂)
    (sortedKeys_isSort l₁).1 ((sortedKeys_isSort l₂).1.trans (p.map (·.1)).symm)

theorem sortedWrites_perm_eq {l₁ l₂ : List (Key × Val)} (p : l₁.Perm l₂) (nd : NodupKeys l₁) :
    sortedWrites l₁ = sortedWrites l₂ := by
  unfold sortedWrites
  rw [sortedKeys_perm_eq p]
  congr 1
  funext k
  rw [lookup_perm p nd k]

theorem mem_sortedWrites {l : List (Key × Val)} (nd : NodupKeys l) (k : Key) (v : Val) :
    (k, v) ∈ sortedWrites l ↔ (k, v) ∈ l := by
  unfold sortedWrites
  simp only [List.mem_filterMap, Option.map_eq_some_iff, Prod.mk.injEq]
  constructor
  · rintro ⟨k', _, v', hl, rfl, rfl⟩
    exact (lookup_eq_some_iff_mem nd _ _).mp hl
  · intro h
    refine ⟨k, ?_, v, (lookup_eq_some_iff_mem nd _ _).mpr h, rfl, rfl⟩
    unfold sortedKeys
    rw [List.mem_mergeSort]
    exact List.mem_map.mpr ⟨(k, v), h, rfl⟩

theorem sortedKeys_nodup {l : List (Key × Val)} (nd : NodupKeys l) : (sortedKeys l).Nodup :=
  (sortedKeys_isSort l).1.nodup_iff.mpr nd

theorem map_fst_sortedWrites {l : List (Key × Val)} (nd : NodupKeys l) :
    (sortedWrites l).map (·.1) = sortedKeys l := by
  unfold sortedWrites
  have hk : ∀ k ∈ sortedKeys l, ∃ v, l.lookup k = some v := by
    intro k hk
    unfold sortedKeys at hk
    rw [List.mem_mergeSort] at hk
    rcases List.mem_map.mp hk with ⟨⟨k', v⟩, h, rfl⟩
    exact ⟨v, (lookup_eq_some_iff_mem nd _ _).mpr h⟩
  generalize sortedKeys l = ks at hk
  induction ks with
  | nil => rfl
  | cons k ks ih =>
    obtain ⟨v, hv⟩ := hk k (List.mem_cons_self)
    simp only [List.filterMap_cons, hv, Option.map_some, List.map_cons]
    rw [ih (fun k' h' => hk k' (List.mem_cons_of_mem _ h'))]

/-- every entry is written exactly once -/
theorem sortedWrites_perm_self {l : List (Key × Val)} (nd : NodupKeys l) : (sortedWrites l).Perm l := by
  have ndl : l.Nodup := nodup_of_nodup_map (·.1) (show (l.map (·.1)).Nodup from nd)
  have ndw : (sortedWrites l).Nodup := by
    refine nodup_of_nodup_map (·.1) ?_
    rw [map_fst_sortedWrites nd]; exact sortedKeys_nodup nd
  rw [List.perm_ext_iff_of_nodup ndw ndl]
  rintro ⟨k, v⟩
  exact mem_sortedWrites nd k v

/-! ### commit -/

theorem foldl_apply_remove (t : Map) (ks : List Key) :
    (ks.map TreeOp.remove).foldl TreeOp.apply t = eraseAll t ks := by
  unfold eraseAll
  rw [List.foldl_map]; rfl

theorem foldl_apply_set (t : Map) (ws : List (Key × Val)) :
    (ws.map fun kv => TreeOp.set kv.1 kv.2).foldl TreeOp.apply t = ws.foldl (fun acc kv => acc.insert kv.1 kv.2) t := by
  rw [List.foldl_map]; rfl

theorem commitWrites_eq (tree : Map) (removed : List Key) (updated : List (Key × Val)) :
    commitWrites tree removed updated =
      (sortedWrites updated).foldl (fun acc kv => acc.insert kv.1 kv.2) (eraseAll tree removed) := by
  unfold commitWrites commitOps
  rw [List.foldl_append, foldl_apply_remove, foldl_apply_set]

/-! ### Finish -/

/-- one `Finish` iteration with the values read from the EVM made explicit -/
def syncStep (m : KMap Account) (x : Hex × Nat × Nat) : KMap Account :=
  m.insert (ledgerKey x.1) { ((m[ledgerKey x.1]?).getD { addr := x.1 }) with bal := x.2.1, nonce := x.2.2 }

theorem syncOutOne_eq (evm : EvmView) (m : KMap Account) (a : Hex) :
    syncOutOne evm m a = syncStep m (a, evm.balance a, evm.nonce a) := rfl

theorem syncStep_comm (m : KMap Account) {x y : Hex × Nat × Nat} (h : ledgerKey x.1 ≠ ledgerKey y.1) :
    syncStep (syncStep m x) y = syncStep (syncStep m y) x := by
  unfold syncStep
  have h' : ledgerKey y.1 ≠ ledgerKey x.1 := fun e => h e.symm
  have e1 : ((m.insert (ledgerKey x.1) { ((m[ledgerKey x.1]?).getD { addr := x.1 }) with bal := x.2.1, nonce := x.2.2 })[ledgerKey y.1]?) = m[ledgerKey y.1]? := by
    rw [ExtTreeMap.getElem?_insert]; simp [h]
  have e2 : ((m.insert (ledgerKey y.1) { ((m[ledgerKey y.1]?).getD { addr := y.1 }) with bal := y.2.1, nonce := y.2.2 })[ledgerKey x.1]?) = m[ledgerKey x.1]? := by
    rw [ExtTreeMap.getElem?_insert]; simp [h']
  rw [e1, e2]
  exact insert_comm m h _ _

theorem foldl_syncStep_perm {l₁ l₂ : List (Hex × Nat × Nat)} (p : l₁.Perm l₂)
    (nd : (l₁.map fun x => ledgerKey x.1).Nodup) (m : KMap Account) :
    l₁.foldl syncStep m = l₂.foldl syncStep m := by
  refine List.Perm.foldl_eq' p ?_ m
  intro x hx y hy z
  by_cases e : ledgerKey x.1 = ledgerKey y.1
  · have := eq_of_mem_of_nodup_map (fun x : Hex × Nat × Nat => ledgerKey x.1) nd hx hy e
    subst this; rfl
  · exact syncStep_comm z e

theorem finishSync_eq (evm : EvmView) (m : KMap Account) (order : List Hex) :
    finishSync evm m order = (order.map fun a => (a, evm.balance a, evm.nonce a)).foldl syncStep m := by
  unfold finishSync
  rw [List.foldl_map]; rfl

/-- every account is stored under the ledger key of its own address -/
def AcctsKeyed (m : KMap Account) : Prop :=
  ∀ (k : String) (v : Account), m[k]? = some v → k = ledgerKey v.addr

theorem acctsKeyed_empty : AcctsKeyed {} := by
  intro k v h; simp at h

theorem syncStep_keyed {m : KMap Account} (h : AcctsKeyed m) (x : Hex × Nat × Nat) : AcctsKeyed (syncStep m x) := by
  intro k v hk
  unfold syncStep at hk
  rw [ExtTreeMap.getElem?_insert] at hk
  split at hk
  · rename_i e
    have e := LawfulEqCmp.compare_eq_iff_eq.mp e
    simp only [Option.some.injEq] at hk
    subst hk
    cases hm : m[ledgerKey x.1]? with
    | none => simp [← e]
    | some a =>
      have := h _ _ hm
      simp only [Option.getD_some]
      rw [← e]; exact this
  · exact h k v hk

/-- the model's sync-out step only touches the consensus view of the account ledger -/
theorem modelSyncOut_step (s : St) (hk : AcctsKeyed s.accts.fin) (x : Hex × Nat × Nat) :
    (let (acc', ac) := s.findOrNewAcct true x.1
     acc'.setAcct true { ac with bal := x.2.1, nonce := x.2.2 })
      = { s with accts := { s.accts with fin := syncStep s.accts.fin x } } := by
  unfold St.findOrNewAcct St.findAcct Led.get
  simp only [if_true]
  cases hm : s.accts.fin[ledgerKey x.1]? with
  | some a =>
    have := hk _ _ hm
    simp only [St.setAcct, Led.set, if_true, syncStep, hm, Option.getD_some, ← this]
  | none =>
    simp only [St.setAcct, Led.set, if_true, syncStep, hm, Option.getD_none]
    congr 2
    apply ExtTreeMap.ext_getElem?
    intro k
    simp only [ExtTreeMap.getElem?_insert]
    split <;> rfl

theorem modelSyncOut_eq (s : St) (hk : AcctsKeyed s.accts.fin) (l : List (Hex × Nat × Nat)) :
    modelSyncOut s l = { s with accts := { s.accts with fin := l.foldl syncStep s.accts.fin } } := by
  unfold modelSyncOut
  induction l generalizing s with
  | nil => rfl
  | cons x xs ih =>
    rw [List.foldl_cons]
    have := modelSyncOut_step s hk x
    obtain ⟨a, bal, nonce⟩ := x
    simp only at this ⊢
    rw [this, ih _ (syncStep_keyed hk _)]
    rfl

/-! ### `ledgerKey` is injective on fixed-length addresses -/

theorem ledgerKey_inj_of_length {a b : Hex} {n : Nat} (hn : n ≤ 64) (ha : a.length = n) (hb : b.length = n)
    (h : ledgerKey a = ledgerKey b) : a = b := by
  unfold ledgerKey at h
  have h := String.ofList_injective h
  have la : a.toList.length = n := by rw [String.length_toList]; exact ha
  have lb : b.toList.length = n := by rw [String.length_toList]; exact hb
  rw [List.take_of_length_le (by omega), List.take_of_length_le (by omega)] at h
  have := List.append_inj_left h (by omega)
  exact String.ext this

end Rigo.Determinism
