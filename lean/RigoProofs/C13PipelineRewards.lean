/-
  C13 / pipeline (5): consequences for the rewards.
    * `signers_all_rewarded` — from height 5 on no signer is skipped: the reward event pays, to every account,
      exactly `stakeRwd` of every stake of every signer as recorded in ledger version `H − 4`, and nothing else;
    * `votes_early_heights` — what holds at heights 2, 3, 4 (the recorded finding `issuance-early-heights`): the
      votes are the GENESIS set, but the code reads version 1 (heights 2, 3) / the latest version (height 4).
-/
import RigoProofs.C13PipelineMain

open Std

namespace Rigo.C13P
open Rigo Rigo.TM Rigo.C14L Rigo.C19 Rigo.C13

/-! ### the reward specification without the code's power comparison -/

/-- reward of account key `k` for one vote, by the property's words: a SIGNED vote earns for every stake of that
    validator recorded in `rl` (owned by `k`); no comparison of powers -/
def signerRwd (rl : KMap Delegatee) (rpp : Nat) (k : String) (v : VoteIn) : Nat :=
  if v.signed then
    match rl[ledgerKey v.addr]? with
    | some d => delegRwd rpp k d.stakes
    | none => 0
  else 0

def signerRwdAll (rl : KMap Delegatee) (rpp : Nat) (v : VoteIn) : Nat :=
  if v.signed then
    match rl[ledgerKey v.addr]? with
    | some d => delegRwdAll rpp d.stakes
    | none => 0
  else 0

/-- when the vote's power matches the ledger the code's reward is the specification's -/
theorem voteRwd_eq_signerRwd (rl : KMap Delegatee) (rpp : Nat) (k : String) (v : VoteIn)
    (h : ∃ d, rl[ledgerKey v.addr]? = some d ∧ d.total = v.power) :
    voteRwd rl rpp k v = signerRwd rl rpp k v ∧ voteRwdAll rl rpp v = signerRwdAll rl rpp v := by
  obtain ⟨d, hd, ht⟩ := h
  unfold voteRwd voteRwdAll signerRwd signerRwdAll rewardedDeleg
  cases v.signed <;> simp [hd, ht]

/-- **signers_all_rewarded** (C13, first sentence, from height 5 on, no harness assumption left).  In a good,
    TM-faithful run, at every BeginBlock of height `H ≥ 5`, with `rl` = delegatee ledger version `H − 4`:
    (i) every vote matches its record in `rl` (`votes_match_ledger`), so no signer is skipped: `rewardedDeleg` finds
    every signed vote's delegatee;
    (ii) when the reward event fires (`issued = some n`), every account key `k` gains exactly the sum, over the SIGNED
    votes, of `stakeRwd rpp st` for the stakes `st` of that validator in `rl` owned by `k` (no-wrap bound explicit) —
    in particular an account owning no stake of a signer gains 0: nobody else earns anything —, and `n` is the sum
    over all stakes of all signers (mod 2^256). -/
theorem signers_all_rewarded {f : Hex → Hex} (finj : Injective f) {g : Genesis} {ops : List Op} (ok : RunOK f g ops)
    (htm : TMFaithful f g ops) {pre : List Op} {hdr : Header} {post : List Op}
    (e : ops = pre ++ .begin_ hdr :: post) (h5 : 5 ≤ hdr.height) :
    ∃ rl, (exec (initChain g) pre).delegs.at? (hopOf hdr.height) = some rl ∧
      (∀ v ∈ hdr.votes, v.signed = true → ∃ d, rl[ledgerKey v.addr]? = some d ∧ d.total = v.power ∧
        rewardedDeleg rl v = some d) ∧
      ∀ n, (beginBlock (exec (initChain g) pre) hdr).2.issued = some n →
        n = ((hdr.votes.map (signerRwdAll rl (exec (initChain g) pre).active.rewardPerPower)).sum) % two256 ∧
        ∀ k, cumOf (exec (initChain g) pre) k +
              (hdr.votes.map (signerRwd rl (exec (initChain g) pre).active.rewardPerPower k)).sum < two256 →
          cumOf (beginBlock (exec (initChain g) pre) hdr).1 k =
            cumOf (exec (initChain g) pre) k +
              (hdr.votes.map (signerRwd rl (exec (initChain g) pre).active.rewardPerPower k)).sum := by
  obtain ⟨rl, hat, hm⟩ := votes_match_ledger finj ok htm e h5
  refine ⟨rl, hat, ?_, ?_⟩
  · intro v hv hs
    obtain ⟨d, hd, ht, _⟩ := hm v hv
    exact ⟨d, hd, ht, by simp [rewardedDeleg, hs, hd, ht]⟩
  · intro n hi
    obtain ⟨rl', hat', hn, hcum⟩ := issuance_core hi
    have : rl' = rl := Option.some.inj (hat'.symm.trans hat)
    subst this
    have e1 : hdr.votes.map (voteRwdAll rl' (exec (initChain g) pre).active.rewardPerPower) =
        hdr.votes.map (signerRwdAll rl' (exec (initChain g) pre).active.rewardPerPower) :=
      List.map_congr_left (fun v hv => by
        obtain ⟨d, hd, ht, _⟩ := hm v hv
        exact (voteRwd_eq_signerRwd _ _ "" v ⟨d, hd, ht⟩).2)
    have e2 : ∀ k, hdr.votes.map (voteRwd rl' (exec (initChain g) pre).active.rewardPerPower k) =
        hdr.votes.map (signerRwd rl' (exec (initChain g) pre).active.rewardPerPower k) := fun k =>
      List.map_congr_left (fun v hv => by
        obtain ⟨d, hd, ht, _⟩ := hm v hv
        exact (voteRwd_eq_signerRwd _ _ k v ⟨d, hd, ht⟩).1)
    refine ⟨by rw [← e1]; exact hn, fun k hb => ?_⟩
    rw [← e2 k] at hb ⊢
    exact hcum k hb

/-! ### heights 2, 3, 4 -/

theorem tmValset_le3 (g : Genesis) (pre : List Op) (H : Int) (h : H ≤ 3) : tmValset g pre (H - 1) = genesisSet g := by
  unfold tmValset
  have : (H - 1 - 2).toNat = 0 := by omega
  rw [this]; rfl

theorem eligible_empty (s : St) (mp : Int) (h : s.delegs.hist = []) : eligible s mp = [] := by
  unfold eligible Led.committed
  rw [h]
  have : (([] : List (KMap Delegatee)).getLast?.getD {}).toList = [] := ExtTreeMap.toList_eq_nil_iff.mpr rfl
  rw [this]
  simp [sortByPower]

/-- the first EndBlock of a panic-free well-phased run answers with no validator update (the committed ledger is
    still empty when BeginBlock(1) builds the eligible list: the genesis delegatees are announced by block 2) -/
theorem first_endBlock_silent {g : Genesis} {p1 p2 : List Op} {q : Phase}
    (hph : phaseRun .idle (p1 ++ .end_ :: p2) = some q) (hnp : NoPanic g (p1 ++ .end_ :: p2)) (hc : endCount p1 = 0) :
    (endBlock (exec (initChain g) p1)).2.valUpdates = [] := by
  have hp1 : phaseRun .idle p1 = some .inBlock := before_end_inBlock hph
  obtain ⟨p0, hd, mid, e0, hp0, hmid⟩ := inBlock_shape p1 hp1
  subst e0
  have hnp' : NoPanicFrom (initChain g) ((p0 ++ .begin_ hd :: mid) ++ .end_ :: p2) := hnp
  obtain ⟨np1, np2⟩ := hnp'.append
  have hend : (endBlock (exec (initChain g) (p0 ++ .begin_ hd :: mid))).2.panic = "" := np2.cons.1
  obtain ⟨np3, np4⟩ := np1.append
  have hbeg : (beginBlock (exec (initChain g) p0) hd).2.panic = "" := np4.cons.1
  rw [exec_append] at hend ⊢
  obtain ⟨_, mp, _, _, hu⟩ := block_lastVals hmid hbeg hend
  rw [hu]
  rw [endCount_append] at hc
  have hc0 : endCount p0 = 0 := by omega
  have hl : (exec (initChain g) p0).lastVals = [] := by
    rw [exec_lastVals_noEnd p0 (phaseRun_notInit hp0) hc0]; exact (initChain_lists g).2.1
  have hh0 := heights g p0 .idle hp0 np3
  simp only [HInv, hc0] at hh0
  have hv := versions_agree_of_reachable (⟨p0, phaseRun_notInit hp0, rfl⟩ : Reachable g (exec (initChain g) p0))
  have hhist : (exec (initChain g) p0).delegs.hist = [] := by
    have := hv.2.2.1
    simp only [frame, hh0] at this
    exact List.length_eq_zero_iff.mp (by simpa using this)
  rw [hl, eligible_empty _ _ hhist]
  simp [sortByAddr, validatorUpdates]

/-- for blocks 1–3 (votes of BeginBlock 2, 3, 4) the validator set in force is the genesis set: no update has taken
    effect yet (EndBlock(1) answers nothing, EndBlock(2) takes effect at block 4) -/
theorem tmValset_early {g : Genesis} {ops : List Op} (hph : ∃ q, phaseRun .idle ops = some q)
    (hnp : NoPanic g ops) {pre : List Op} {hdr : Header} {post : List Op}
    (e : ops = pre ++ .begin_ hdr :: post) (h4 : hdr.height ≤ 4) :
    tmValset g pre (hdr.height - 1) = genesisSet g := by
  by_cases h3 : hdr.height ≤ 3
  · exact tmValset_le3 g pre _ h3
  · have h4' : hdr.height = 4 := by omega
    obtain ⟨q, hph⟩ := hph
    subst e
    have hpre : phaseRun .idle pre = some .idle := before_begin_idle hph
    have hnp' : NoPanicFrom (initChain g) (pre ++ .begin_ hdr :: post) := hnp
    obtain ⟨np1, np2⟩ := hnp'.append
    have hH : hdr.height = (exec (initChain g) pre).lastHeight + 1 :=
      beginBlock_height_of_noPanic _ _ np2.cons.1
    have hh := heights g pre .idle hpre np1
    simp only [HInv] at hh
    obtain ⟨p1, p2, e1, hc1⟩ := split_at_end pre 1 (by omega) (by omega)
    subst e1
    have hs := first_endBlock_silent hpre np1 (by omega)
    unfold tmValset
    have hn : (hdr.height - 1 - 2).toNat = 1 := by omega
    rw [hn, take_endUpdates _ _ _ 1 (by omega) (by omega), endUpdates_append]
    have hz : endUpdates (initChain g) p1 = [] :=
      List.length_eq_zero_iff.mp (by rw [endUpdates_length]; omega)
    rw [hz, endUpdates_end, hs]
    rfl

/-- **votes_early_heights** (finding `issuance-early-heights`, stated precisely).  In a panic-free well-phased
    TM-faithful run, the votes of BeginBlock(H) for `H = 2, 3, 4` are exactly the GENESIS validator set with the
    genesis powers (no update has taken effect yet: EndBlock(1) answers nothing, EndBlock(2) takes effect at block 4
    and is first seen in the votes of block 5).  The reward code however reads ledger version `hopOf H`: version 1
    for `H = 2, 3` and version 0 = the LATEST committed version (3) for `H = 4`.  A genesis validator whose total
    power in that version differs from its genesis power (any (un)delegation in block 1, resp. blocks 1–3) is
    silently skipped — `RigoProofs/C13PipelineEx.lean` exhibits this at height 4. -/
theorem votes_early_heights {f : Hex → Hex} {g : Genesis} {ops : List Op} (hph : ∃ q, phaseRun .idle ops = some q)
    (hnp : NoPanic g ops) (htm : TMFaithful f g ops) {pre : List Op} {hdr : Header} {post : List Op}
    (e : ops = pre ++ .begin_ hdr :: post) (h2 : 2 ≤ hdr.height) (h4 : hdr.height ≤ 4) :
    VotesOf f (genesisSet g) hdr.votes ∧
    (exec (initChain g) pre).delegs.at? (hopOf hdr.height) =
      if hdr.height = 4 then some (exec (initChain g) pre).delegs.committed
      else (exec (initChain g) pre).delegs.hist[0]? := by
  constructor
  · have ht := htm pre hdr post e
    rw [if_neg (by omega)] at ht
    rwa [tmValset_early hph hnp e h4] at ht
  · have : hdr.height = 2 ∨ hdr.height = 3 ∨ hdr.height = 4 := by omega
    rcases this with h | h | h <;> rw [h] <;> simp [hopOf, Led.at?]

end Rigo.C13P
