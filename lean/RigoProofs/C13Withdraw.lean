/-
  C13: a TRX_WITHDRAW on the DeliverTx path succeeds exactly when the common validations pass, the
  amount is zero, the payload is a withdraw request, the sender has a reward record whose cumulated
  reward covers the request (and the uint256 sign checks of AddBalance/SubBalance pass); it then
  credits exactly the requested amount, debits the record by it and pays the fee.
-/
import RigoProofs.C13C15TxFrame
namespace Rigo

theorem cv1_ok_iff (sender : Account) (tx : TxIn) :
    commonValidation1 sender tx = .ok () ↔
      wadd (wmul tx.price tx.gas) tx.amount ≤ sender.bal ∧ sender.nonce = tx.nonce := by
  unfold commonValidation1
  simp only [bind, Except.bind, pure, Except.pure, throw, throwThe, MonadExceptOf.throw]
  by_cases h1 : wadd (wmul tx.price tx.gas) tx.amount > sender.bal
  · simp [h1]; omega
  · by_cases h2 : sender.nonce ≠ tx.nonce
    · simp [h1, h2]
    · simp [h1, h2]; omega

theorem cv0_active (s s0 : St) (e : Bool) (tx : TxIn) (h : s0.active = s.active) :
    commonValidation0 s0 e tx = commonValidation0 s e tx := by
  unfold commonValidation0; rw [h]

theorem validateTrx_withdraw (s : St) (e : Bool) (ht : Int) (tx : TxIn) (snd rcv : Account) (htype : tx.type = TRX_WITHDRAW) :
    validateTrx s e ht tx snd rcv =
      (commonValidation0 s e tx >>= fun _ => commonValidation1 snd tx >>= fun _ => validateWithdraw s e tx) := by
  unfold validateTrx
  simp [htype, TRX_WITHDRAW, TRX_PROPOSAL, TRX_VOTING, TRX_TRANSFER, TRX_SETDOC, TRX_STAKING, TRX_UNSTAKING]

theorem execBody_withdraw (s : St) (e : Bool) (ht : Int) (tx : TxIn) (rcv : Account) (htype : tx.type = TRX_WITHDRAW) :
    execBody s e ht tx rcv = execWithdraw s e ht tx := by
  unfold execBody
  simp [htype, TRX_WITHDRAW, TRX_PROPOSAL, TRX_VOTING, TRX_TRANSFER, TRX_SETDOC, TRX_STAKING, TRX_UNSTAKING, TRX_CONTRACT]

def AcctKeyed (s : St) : Prop := ∀ (k : String) (a : Account), s.accts.fin[k]? = some a → ledgerKey a.addr = k
def RewardKeyed (s : St) : Prop := ∀ (k : String) (r : Reward), s.rewards.fin[k]? = some r → ledgerKey r.addr = k

structure WithdrawOk (s : St) (h : Int) (tx : TxIn) (sender : Account) (req : Nat) (r : Reward) : Prop where
  decodable : tx.decodable = true
  senderAt : s.accts.fin[ledgerKey tx.from_]? = some sender
  cv0 : commonValidation0 s true tx = .ok ()
  cv1 : commonValidation1 sender tx = .ok ()
  amount : tx.amount = 0
  payload : tx.payload = .withdraw req
  record : s.rewards.fin[ledgerKey tx.from_]? = some r
  enough : req ≤ r.cumulated
  height : r.height ≤ h
  reqPos : req < two255
  feePos : wmul tx.price tx.gas < two255

theorem findOrNew_facts (s : St) (tx : TxIn) (sender : Account) (hs : s.accts.fin[ledgerKey tx.from_]? = some sender) :
    (s.findOrNewAcct true tx.to).1.accts.fin[ledgerKey tx.from_]? = some sender := by
  unfold St.findOrNewAcct
  split
  · exact hs
  · rename_i hn
    simp only [St.setAcct, Led.set_fin_true]
    simp only [St.findAcct, Led.get, if_true] at hn
    have : ledgerKey tx.to ≠ ledgerKey tx.from_ := by
      intro h; rw [h, hs] at hn; cases hn
    grind

/-- the reward record after `Reward.withdraw` -/
def Reward.afterWithdraw (r : Reward) (req : Nat) (h : Int) : Reward :=
  if r.height < h then { r with withdrawn := req, height := h, cumulated := wsub r.cumulated req }
  else { r with withdrawn := wadd r.withdrawn req, cumulated := wsub r.cumulated req }

theorem withdraw_ok_eq (r : Reward) (req : Nat) (h : Int) (hh : r.height ≤ h) :
    r.withdraw req h = .ok (Reward.afterWithdraw r req h) := by
  unfold Reward.withdraw Reward.afterWithdraw
  by_cases h1 : r.height < h
  · simp [h1]
  · have : r.height = h := by omega
    simp [this]

/-- state after the body of a successful withdrawal (reward record debited, balance credited) -/
def wdMid (s0 : St) (tx : TxIn) (sender : Account) (req : Nat) (r : Reward) (h : Int) : St :=
  { s0 with rewards := s0.rewards.set true (ledgerKey tx.from_) (Reward.afterWithdraw r req h),
            accts := s0.accts.set true (ledgerKey tx.from_) { sender with bal := sender.bal + req },
            ghost := { s0.ghost with withdrawn := s0.ghost.withdrawn + req } }

/-- ... and after the fee / nonce step -/
def wdPost (s0 : St) (tx : TxIn) (sender : Account) (req : Nat) (r : Reward) (h : Int) : St :=
  (wdMid s0 tx sender req r h).setAcct true
    { sender with bal := sender.bal + req - wmul tx.price tx.gas, nonce := sender.nonce + 1 }

theorem withdraw_run {s : St} {h : Int} {tx : TxIn} {sender : Account} {req : Nat} {r : Reward}
    (htype : tx.type = TRX_WITHDRAW) (ok : WithdrawOk s h tx sender req r)
    (hka : ledgerKey sender.addr = ledgerKey tx.from_) (hkr : ledgerKey r.addr = ledgerKey tx.from_)
    (hnw : sender.bal + req < two256) :
    (handleTx s true h tx).2 = { code := 0, kind := "ok", gasUsed := tx.gas, gasWanted := tx.gas } ∧
    (handleTx s true h tx).1.accts.fin[ledgerKey tx.from_]? =
      some { sender with bal := sender.bal + req - wmul tx.price tx.gas, nonce := sender.nonce + 1 } ∧
    (handleTx s true h tx).1.rewards.fin = s.rewards.fin.insert (ledgerKey tx.from_) (Reward.afterWithdraw r req h) ∧
    (handleTx s true h tx).1.ghost.withdrawn = s.ghost.withdrawn + req := by
  have hfind : s.findAcct true tx.from_ = some sender := by simp [St.findAcct, Led.get, ok.senderAt]
  have h0 := findOrNewAcct_frAll s true tx.to
  have hs0 := findOrNew_facts s tx sender ok.senderAt
  obtain ⟨hfr, ⟨hrw, hgh⟩, _, _⟩ := h0
  have hact := hfr.2.2.1
  generalize hs0def : (s.findOrNewAcct true tx.to) = pr at *
  obtain ⟨s0, rcv⟩ := pr
  simp only [] at hs0 hrw hgh hact
  have hval : validateTrx s0 true h tx sender rcv = .ok s0 := by
    rw [validateTrx_withdraw _ _ _ _ _ _ htype, cv0_active s s0 true tx hact, ok.cv0, ok.cv1]
    simp only [bind, Except.bind]
    unfold validateWithdraw
    simp [ok.amount, ok.payload, Led.get, hrw, ok.record, ok.enough, pure, Except.pure]
  have hcv1 := (cv1_ok_iff sender tx).mp ok.cv1
  have hfee : wmul tx.price tx.gas ≤ sender.bal := by
    have := hcv1.1; rw [ok.amount] at this
    unfold wadd at this
    have h2 : wmul tx.price tx.gas < two256 := by unfold wmul; exact Nat.mod_lt _ (by unfold two256; omega)
    rw [Nat.add_zero, Nat.mod_eq_of_lt h2] at this; exact this
  have e1 : ¬ two255 ≤ req := by have := ok.reqPos; omega
  have e2 : wadd sender.bal req = sender.bal + req := Nat.mod_eq_of_lt hnw
  have e3 : (Reward.afterWithdraw r req h).addr = r.addr := by unfold Reward.afterWithdraw; split <;> rfl
  have hexec : execWithdraw s0 true h tx = .ok { st := wdMid s0 tx sender req r h } := by
    unfold execWithdraw wdMid
    simp [ok.payload, Led.get, hrw, ok.record, bind, Except.bind, pure, Except.pure, withdraw_ok_eq r req h ok.height, ofRes,
      St.reward, St.findAcct, hs0, addBalance, isNeg256, St.setAcct, e1, e2, e3, hka, hkr]
  have e4 : ¬ two255 ≤ wmul tx.price tx.gas := by have := ok.feePos; omega
  have e5 : wsub (sender.bal + req) (wmul tx.price tx.gas) = sender.bal + req - wmul tx.price tx.gas := by
    unfold wsub
    have h2 : wmul tx.price tx.gas < two256 := by unfold wmul; exact Nat.mod_lt _ (by unfold two256; omega)
    rw [Nat.mod_eq_of_lt h2]
    have : sender.bal + req + two256 - wmul tx.price tx.gas = (sender.bal + req - wmul tx.price tx.gas) + two256 := by omega
    rw [this, Nat.add_mod_right, Nat.mod_eq_of_lt (by omega)]
  have e6 : ¬ (sender.bal + req < wmul tx.price tx.gas) := by omega
  have hrun : runTrx s0 true h tx rcv = .ok (wdPost s0 tx sender req r h, tx.gas, none) := by
    rw [runTrx_eq, execBody_withdraw _ _ _ _ _ htype, hexec]
    simp only [bind, Except.bind]
    unfold runTail wdPost wdMid
    simp [htype, TRX_WITHDRAW, TRX_CONTRACT, TRX_TRANSFER, pure, Except.pure, St.findAcct, Led.get, Led.set,
      subBalance, isNeg256, e4, e5, e6, St.setAcct, hka]
  have hres : handleTx s true h tx =
      (wdPost s0 tx sender req r h, { code := 0, kind := "ok", gasUsed := tx.gas, gasWanted := tx.gas }) := by
    rw [handleTx_goodlen (cv0_to_len ok.cv0)]
    unfold handleTxOld
    simp [ok.decodable, hfind, hs0def, hval, hrun]
  rw [hres]
  refine ⟨rfl, ?_, ?_, ?_⟩
  · simp [wdPost, wdMid, St.setAcct, hka]
  · simp [wdPost, wdMid, St.setAcct, hrw]
  · simp [wdPost, wdMid, St.setAcct, hgh]

/-- a request above the cumulated reward fails in validation: only the receiver find-or-create survives -/
theorem withdraw_too_much {s : St} {h : Int} {tx : TxIn} {sender : Account} {req : Nat} {r : Reward}
    (htype : tx.type = TRX_WITHDRAW) (hdec : tx.decodable = true)
    (hsnd : s.accts.fin[ledgerKey tx.from_]? = some sender)
    (cv0 : commonValidation0 s true tx = .ok ()) (cv1 : commonValidation1 sender tx = .ok ())
    (hamt : tx.amount = 0) (hpay : tx.payload = .withdraw req)
    (hrec : s.rewards.fin[ledgerKey tx.from_]? = some r) (hmore : req > r.cumulated) :
    handleTx s true h tx = ((s.findOrNewAcct true tx.to).1, { code := 5, kind := "noreward" }) := by
  have hfind : s.findAcct true tx.from_ = some sender := by simp [St.findAcct, Led.get, hsnd]
  obtain ⟨hfr, ⟨hrw, hgh⟩, _, _⟩ := findOrNewAcct_frAll s true tx.to
  have hact := hfr.2.2.1
  generalize hs0def : (s.findOrNewAcct true tx.to) = pr at *
  obtain ⟨s0, rcv⟩ := pr
  simp only [] at hrw hgh hact
  have hval : validateTrx s0 true h tx sender rcv = .error (.err "noreward") := by
    rw [validateTrx_withdraw _ _ _ _ _ _ htype, cv0_active s s0 true tx hact, cv0, cv1]
    simp only [bind, Except.bind]
    unfold validateWithdraw
    simp [hamt, hpay, Led.get, hrw, hrec, hmore, throw, throwThe, MonadExceptOf.throw]
  rw [handleTx_goodlen (cv0_to_len cv0)]
  unfold handleTxOld
  simp [hdec, hfind, hs0def, hval]

/-- conversely, success implies every precondition -/
theorem withdraw_success_pre {s : St} {h : Int} {tx : TxIn} (htype : tx.type = TRX_WITHDRAW)
    (hc : (handleTx s true h tx).2.code = 0) : ∃ sender req r, WithdrawOk s h tx sender req r := by
  rw [handleTx_goodlen (handleTx_ok_len hc)] at hc
  unfold handleTxOld at hc
  simp only [] at hc
  have hdec : tx.decodable = true := by
    by_cases hd : tx.decodable = true
    · exact hd
    · simp [hd] at hc
  cases hfind : s.findAcct true tx.from_ with
  | none => simp [hdec, hfind] at hc
  | some sender =>
    obtain ⟨hfr, ⟨hrw, hgh⟩, _, _⟩ := findOrNewAcct_frAll s true tx.to
    have hact := hfr.2.2.1
    generalize hs0def : (s.findOrNewAcct true tx.to) = pr at *
    obtain ⟨s0, rcv⟩ := pr
    simp only [] at hrw hgh hact
    simp only [hdec, hfind, Bool.not_true, Bool.false_eq_true, if_false] at hc
    cases hval : validateTrx s0 true h tx sender rcv with
    | error er => rw [hval] at hc; cases er <;> simp at hc
    | ok s1 =>
      rw [hval] at hc
      simp only [] at hc
      cases hrun : runTrx s1 true h tx rcv with
      | error er => rw [hrun] at hc; cases er <;> simp at hc
      | ok res =>
        obtain ⟨s2, g, k⟩ := res
        rw [hrun] at hc
        cases k with
        | some kk => simp at hc
        | none =>
          -- validation
          rw [validateTrx_withdraw _ _ _ _ _ _ htype, cv0_active s s0 true tx hact] at hval
          simp only [bind, Except.bind] at hval
          cases cv0 : commonValidation0 s true tx with
          | error er => rw [cv0] at hval; cases hval
          | ok u0 =>
            rw [cv0] at hval; simp only [] at hval
            cases cv1 : commonValidation1 sender tx with
            | error er => rw [cv1] at hval; cases hval
            | ok u1 =>
              rw [cv1] at hval; simp only [] at hval
              have hs1 := validateWithdraw_eq hval
              subst hs1
              unfold validateWithdraw at hval
              simp only [bind, Except.bind, pure, Except.pure, throw, throwThe, MonadExceptOf.throw] at hval
              have hamt : tx.amount = 0 := by
                by_cases ha : tx.amount = 0
                · exact ha
                · simp [ha] at hval
              cases hpay : tx.payload with
              | withdraw req =>
                rw [hpay] at hval
                simp only [hamt, ne_eq, not_true_eq_false, if_false, Led.get, if_true, hrw] at hval
                cases hrec : s.rewards.fin[ledgerKey tx.from_]? with
                | none => rw [hrec] at hval; cases hval
                | some r =>
                  rw [hrec] at hval
                  simp only [] at hval
                  by_cases hen : req > r.cumulated
                  · simp [hen] at hval
                  -- execution
                  rw [runTrx_eq, execBody_withdraw _ _ _ _ _ htype] at hrun
                  simp only [bind, Except.bind] at hrun
                  cases hex : execWithdraw s1 true h tx with
                  | error er => rw [hex] at hrun; cases hrun
                  | ok rr =>
                    rw [hex] at hrun; simp only [] at hrun
                    unfold execWithdraw at hex
                    simp only [hpay, Led.get, if_true, hrw, hrec, bind, Except.bind, pure, Except.pure, throw, throwThe,
                      MonadExceptOf.throw] at hex
                    have hht : r.height ≤ h := by
                      by_cases hh : r.height ≤ h
                      · exact hh
                      · exfalso
                        have : r.withdraw req h = .panic "Reward.Withdraw: height regression" := by
                          unfold Reward.withdraw
                          have a : ¬ r.height < h := by omega
                          have b : ¬ r.height = h := by omega
                          simp [a, b]
                        rw [this] at hex; simp [ofRes] at hex
                    rw [withdraw_ok_eq r req h hht] at hex
                    simp only [ofRes] at hex
                    have hsa : s1.accts.fin[ledgerKey tx.from_]? = some sender := by
                      have := findOrNew_facts s tx sender (by simpa [St.findAcct, Led.get] using hfind)
                      rw [hs0def] at this; exact this
                    have hreq : req < two255 := by
                      by_cases hq : req < two255
                      · exact hq
                      · exfalso
                        have : two255 ≤ req := by omega
                        simp [St.reward, St.findAcct, Led.get, hsa, addBalance, isNeg256, this] at hex
                    have hq' : ¬ two255 ≤ req := by omega
                    simp only [St.reward, St.findAcct, Led.get, if_true, hsa, addBalance, isNeg256, ge_iff_le, decide_eq_true_eq,
                      hq', if_false] at hex
                    cases hex
                    rcases runTail_cases hrun with ⟨hf, _, _⟩ | ⟨hv, _⟩ | ⟨_, _, _, _, snd2, a1, _, hsub, _⟩
                    · simp at hf
                    · simp [htype, TRX_WITHDRAW, TRX_CONTRACT, TRX_TRANSFER] at hv
                    · have hfee : wmul tx.price tx.gas < two255 := by
                        by_cases hq : wmul tx.price tx.gas < two255
                        · exact hq
                        · exfalso
                          have : two255 ≤ wmul tx.price tx.gas := by omega
                          simp [subBalance, isNeg256, this] at hsub
                      exact ⟨sender, req, r, hdec, by simpa [St.findAcct, Led.get] using hfind, cv0, cv1, hamt, hpay, hrec,
                        by omega, hht, hreq, hfee⟩
              | none => rw [hpay] at hval; simp [hamt] at hval
              | unstaking _ => rw [hpay] at hval; simp [hamt] at hval
              | proposal _ _ _ _ _ _ => rw [hpay] at hval; simp [hamt] at hval
              | voting _ _ => rw [hpay] at hval; simp [hamt] at hval
              | contract _ => rw [hpay] at hval; simp [hamt] at hval
              | setdoc _ _ _ _ => rw [hpay] at hval; simp [hamt] at hval

end Rigo
