/-
  Governance voting (ctrlers/gov/proposal/proposal.go): the generated `voteOption.DoVote/CancelVote/Votes`,
  `GovProposal.cancelVote/doVote/DoVote` against the model's `Proposal.doVote` (Rigo/App.lean).
-/
import RigoProofs.GenFuncsGovBase

set_option linter.unusedSimpArgs false

namespace Rigo.GenEq
open Rigo Rigo.Gen

/-! ### vote options -/

theorem voteOption_DoVote_eq (o : VoteOpt) (power : Int) :
    voteOption_DoVote (optOf o) power = .ok (optOf { o with votes := o.votes + power }, o.votes + power) := rfl

theorem voteOption_CancelVote_eq (o : VoteOpt) (power : Int) :
    voteOption_CancelVote (optOf o) power = .ok (optOf { o with votes := o.votes - power }, o.votes - power) := rfl

theorem voteOption_Votes_eq (o : VoteOpt) : voteOption_Votes (optOf o) = .ok o.votes := rfl

/-! ### the option list: `xs[c]` / `xs[c] = x` on the image of the model's options -/

/-- the model's "apply `f` to the option with index `c`" (`g` is the model's pair-pattern lambda) -/
theorem zipIdx_map_eq_set (xs : List VoteOpt) (n : Nat) (hn : n < xs.length) (f : VoteOpt → VoteOpt)
    (g : VoteOpt × Nat → VoteOpt) (hg : ∀ o i, g (o, i) = if (i : Int) = (n : Int) then f o else o) :
    xs.zipIdx.map g = xs.set n (f xs[n]) := by
  apply List.ext_getElem
  · simp
  · intro i h1 h2
    simp only [List.getElem_map, List.getElem_zipIdx, hg, List.getElem_set, Nat.zero_add]
    by_cases h : n = i
    · subst h; simp
    · have : ¬ ((i : Int) = (n : Int)) := by omega
      simp [h, this]

/-- reading option `c` and writing back `f` of it, on the generated list -/
theorem gidx_gset_opts (xs : List VoteOpt) (c : Int) (h0 : 0 ≤ c) (hc : c < (xs.length : Int))
    (f : VoteOpt → VoteOpt) (g : VoteOpt × Nat → VoteOpt)
    (hg : ∀ o i, g (o, i) = if (i : Int) = c then f o else o) :
    ∃ o, gidx (xs.map optOf) c = .ok (optOf o) ∧
      gset (xs.map optOf) c (optOf (f o)) = .ok ((xs.zipIdx.map g).map optOf) := by
  have hn : c.toNat < xs.length := by omega
  have hcn : ((c.toNat : Nat) : Int) = c := Int.toNat_of_nonneg h0
  refine ⟨xs[c.toNat], ?_, ?_⟩
  · have := gidx_eq (xs.map optOf) c.toNat (optOf xs[c.toNat]) (by simp [hn])
    rwa [hcn] at this
  · rw [zipIdx_map_eq_set xs c.toNat hn f g (by intro o i; rw [hg, hcn])]
    unfold gset
    have : ¬ (c < 0 ∨ ((xs.map optOf).length : Int) ≤ c) := by simp; omega
    rw [if_neg this, List.map_set]; rfl

/-! ### projections and updates of `propOf` -/

@[simp] theorem propOf_options (p : Proposal) : (propOf p).options = p.options.map optOf := rfl
@[simp] theorem propOf_voters (p : Proposal) : (propOf p).header.voters = votersOf p.voters := rfl
@[simp] theorem propOf_total (p : Proposal) : (propOf p).header.total = p.total := rfl

theorem propOf_setOptions (p : Proposal) (os : List VoteOpt) :
    { propOf p with options := os.map optOf } = propOf { p with options := os } := rfl

theorem propOf_setVoters (p : Proposal) (vs : List Voter) :
    { propOf p with header.voters := votersOf vs } = propOf { p with voters := vs } := rfl

theorem propOf_setTotal (p : Proposal) (t : Int) :
    { propOf p with header.total := t } = propOf { p with total := t } := rfl

theorem propOf_setMajority (p : Proposal) (t : Int) :
    { propOf p with header.majority := t } = propOf { p with majority := t } := rfl

/-! ### the two stages of a vote -/

/-- `cancelVote`: the voter's power leaves the option it had chosen (if any), its choice becomes -1 -/
theorem GovProposal_cancelVote_eq (p : Proposal) (v : Voter) (hc : v.choice < (p.options.length : Int)) :
    GovProposal_cancelVote (propOf p) v = .ok
      (propOf { p with options :=
          if v.choice ≥ 0 then
            p.options.zipIdx.map (fun (o, i) => if (i : Int) = v.choice then { o with votes := o.votes - v.power } else o)
          else p.options },
       { v with choice := if v.choice ≥ 0 then -1 else v.choice }) := by
  unfold GovProposal_cancelVote
  by_cases h0 : v.choice ≥ 0
  · obtain ⟨o, h1, h2⟩ := gidx_gset_opts p.options v.choice h0 hc
      (fun o => { o with votes := o.votes - v.power })
      (fun (o, i) => if (i : Int) = v.choice then { o with votes := o.votes - v.power } else o)
      (fun _ _ => rfl)
    simp only [h0, if_true, propOf_options, h1, voteOption_CancelVote_eq, h2, bind, Except.bind, pure,
      Except.pure, propOf_setOptions]
  · simp only [h0, if_false, pure, Except.pure]

/-- `doVote`: the voter's power joins option `choice` (if not negative), which becomes its choice -/
theorem GovProposal_doVote_eq (p : Proposal) (v : Voter) (choice : Int)
    (hc : choice < (p.options.length : Int)) :
    GovProposal_doVote (propOf p) v choice = .ok
      (propOf { p with options :=
          if choice ≥ 0 then
            p.options.zipIdx.map (fun (o, i) => if (i : Int) = choice then { o with votes := o.votes + v.power } else o)
          else p.options },
       { v with choice := if choice ≥ 0 then choice else v.choice }) := by
  unfold GovProposal_doVote
  by_cases h0 : choice ≥ 0
  · obtain ⟨o, h1, h2⟩ := gidx_gset_opts p.options choice h0 hc
      (fun o => { o with votes := o.votes + v.power })
      (fun (o, i) => if (i : Int) = choice then { o with votes := o.votes + v.power } else o)
      (fun _ _ => rfl)
    simp only [h0, if_true, propOf_options, h1, voteOption_DoVote_eq, h2, bind, Except.bind, pure,
      Except.pure, propOf_setOptions, gderef, Option.isNone_some, Bool.false_eq_true, if_false]
  · simp only [h0, if_false, pure, Except.pure]

/-! ### the voter list: replacing the entry of one address -/

/-- the entry of address `a` replaced by `c` (the Go `m[a] = c` on an existing key) -/
def setV (vs : List Voter) (a : Hex) (c : Voter) : List Voter := vs.map fun w => if w.addr == a then c else w

theorem find_addr {vs : List Voter} {a : Hex} {v : Voter} (hf : vs.find? (·.addr == a) = some v) : v.addr = a := by
  have := List.find?_some (p := fun x : Voter => x.addr == a) hf; simpa using this

theorem find_any {vs : List Voter} {a : Hex} {v : Voter} (hf : vs.find? (·.addr == a) = some v) :
    vs.any (·.addr == a) = true := by
  rw [List.any_eq_true]
  exact ⟨v, List.mem_of_find?_eq_some hf, List.find?_some (p := fun x : Voter => x.addr == a) hf⟩

theorem find_none_any {vs : List Voter} {a : Hex} (hf : vs.find? (·.addr == a) = none) :
    vs.any (·.addr == a) = false := by
  rw [List.find?_eq_none] at hf
  rw [List.any_eq_false]; exact hf

/-- with one entry per address, the entry found is the only one of that address -/
theorem distinct_unique {vs : List Voter} {a : Hex} {v : Voter} (hd : VotersDistinct vs)
    (hf : vs.find? (·.addr == a) = some v) : ∀ w ∈ vs, (w.addr == a) = true → w = v := by
  induction vs with
  | nil => intro w hw; cases hw
  | cons x xs ih =>
    unfold VotersDistinct at hd
    rw [List.pairwise_cons] at hd
    intro w hw hwa
    have hwa' : w.addr = a := by simpa using hwa
    rw [List.find?_cons] at hf
    by_cases hx : (x.addr == a) = true
    · rw [hx] at hf
      have hxv : x = v := by simpa using hf
      rcases List.mem_cons.mp hw with rfl | hmem
      · exact hxv
      · exact absurd (hwa'.trans (by simpa using hx : x.addr = a).symm).symm (hd.1 w hmem)
    · have hx' : (x.addr == a) = false := by simpa using hx
      rw [hx'] at hf
      rcases List.mem_cons.mp hw with rfl | hmem
      · exact absurd hwa hx
      · exact ih hd.2 hf w hmem hwa

/-- an update of the entries of address `a` is the replacement of the one entry -/
theorem map_upd_eq_setV {vs : List Voter} {a : Hex} {v : Voter} (hd : VotersDistinct vs)
    (hf : vs.find? (·.addr == a) = some v) (g : Voter → Voter) :
    (vs.map fun w => if w.addr == a then g w else w) = setV vs a (g v) := by
  unfold setV
  apply List.map_congr_left
  intro w hw
  by_cases h : (w.addr == a) = true
  · rw [distinct_unique hd hf w hw h]
  · simp [h]

theorem setV_map_upd (vs : List Voter) (a : Hex) (c : Voter) (hc : c.addr = a) (g : Voter → Voter) :
    ((setV vs a c).map fun w => if w.addr == a then g w else w) = setV vs a (g c) := by
  unfold setV
  rw [List.map_map]
  apply List.map_congr_left
  intro w _
  by_cases h : (w.addr == a) = true
  · simp only [Function.comp, h, if_true, hc, beq_self_eq_true]
  · simp only [Function.comp, h, if_false, Bool.false_eq_true]

theorem setV_setV (vs : List Voter) (a : Hex) (c c' : Voter) (hc : c.addr = a) :
    setV (setV vs a c) a c' = setV vs a c' := setV_map_upd vs a c hc (fun _ => c')

theorem find_setV {vs : List Voter} {a : Hex} {v : Voter} (hf : vs.find? (·.addr == a) = some v)
    (c : Voter) (hc : c.addr = a) : (setV vs a c).find? (·.addr == a) = some c := by
  unfold setV
  induction vs with
  | nil => cases hf
  | cons x xs ih =>
    rw [List.find?_cons] at hf
    by_cases hx : (x.addr == a) = true
    · simp only [List.map_cons, hx, if_true, List.find?_cons, hc, beq_self_eq_true]
    · have hx' : (x.addr == a) = false := by simpa using hx
      rw [hx'] at hf
      simp only [List.map_cons, hx', List.find?_cons, Bool.false_eq_true, if_false]
      exact ih hf

theorem distinct_setV {vs : List Voter} (hd : VotersDistinct vs) (a : Hex) (c : Voter) (hc : c.addr = a) :
    VotersDistinct (setV vs a c) := by
  unfold VotersDistinct setV at *
  refine List.Pairwise.map _ ?_ hd
  intro x y hxy
  have e : ∀ w : Voter, (if (w.addr == a) = true then c else w).addr = w.addr := by
    intro w; by_cases h : (w.addr == a) = true
    · have : w.addr = a := by simpa using h
      simp [h, hc, this]
    · simp [h]
  rw [e, e]; exact hxy

theorem filter_setV (vs : List Voter) (a : Hex) (c : Voter) (hc : c.addr = a) :
    (setV vs a c).filter (·.addr != a) = vs.filter (·.addr != a) := by
  unfold setV
  induction vs with
  | nil => rfl
  | cons x xs ih =>
    by_cases hx : (x.addr == a) = true
    · simp only [List.map_cons, hx, if_true, List.filter_cons, bne, hc, beq_self_eq_true, Bool.not_true,
        Bool.false_eq_true, if_false]
      exact ih
    · have hx' : (x.addr == a) = false := by simpa using hx
      simp only [List.map_cons, hx', Bool.false_eq_true, if_false, List.filter_cons, bne, Bool.not_false, if_true]
      exact congrArg _ ih

/-- the Go write-back `voters[a] = w` of a known voter -/
theorem mapSet_votersOf_setV {vs : List Voter} {a : Hex} {v : Voter}
    (hf : vs.find? (·.addr == a) = some v) (w : Voter) (hw : w.addr = a) :
    mapSet (votersOf vs) (hexStr a) w = votersOf (setV vs a w) :=
  mapSet_votersOf vs a w hw (find_any hf)

/-! ### the model's vote in terms of `subAt` / `addAt` / `setV` -/

/-- the model's cancellation of `pw` votes on option `c` (nothing for a negative `c`) -/
def subAt (xs : List VoteOpt) (c pw : Int) : List VoteOpt :=
  if c ≥ 0 then xs.zipIdx.map (fun (o, i) => if (i : Int) = c then { o with votes := o.votes - pw } else o) else xs

/-- the model's addition of `pw` votes to option `c` (nothing for a negative `c`) -/
def addAt (xs : List VoteOpt) (c pw : Int) : List VoteOpt :=
  if c ≥ 0 then xs.zipIdx.map (fun (o, i) => if (i : Int) = c then { o with votes := o.votes + pw } else o) else xs

@[simp] theorem length_subAt (xs : List VoteOpt) (c pw : Int) : (subAt xs c pw).length = xs.length := by
  unfold subAt; split <;> simp

@[simp] theorem length_addAt (xs : List VoteOpt) (c pw : Int) : (addAt xs c pw).length = xs.length := by
  unfold addAt; split <;> simp

theorem subAt_neg (xs : List VoteOpt) (c pw : Int) (h : ¬ c ≥ 0) : subAt xs c pw = xs := by
  unfold subAt; rw [if_neg h]

theorem addAt_neg (xs : List VoteOpt) (c pw : Int) (h : ¬ c ≥ 0) : addAt xs c pw = xs := by
  unfold addAt; rw [if_neg h]

/-- the voter after `cancelVote` -/
def cancelled (v : Voter) : Voter := { v with choice := if v.choice ≥ 0 then -1 else v.choice }

/-- the voter after `doVote` -/
def voted (v : Voter) (choice : Int) : Voter := { v with choice := if choice ≥ 0 then choice else v.choice }

@[simp] theorem cancelled_addr (v : Voter) : (cancelled v).addr = v.addr := rfl
@[simp] theorem cancelled_power (v : Voter) : (cancelled v).power = v.power := rfl
@[simp] theorem voted_addr (v : Voter) (c : Int) : (voted v c).addr = v.addr := rfl
@[simp] theorem voted_power (v : Voter) (c : Int) : (voted v c).power = v.power := rfl

theorem cancelVote_sub (p : Proposal) (v : Voter) (hc : v.choice < (p.options.length : Int)) :
    GovProposal_cancelVote (propOf p) v = .ok
      (propOf { p with options := subAt p.options v.choice v.power }, cancelled v) :=
  GovProposal_cancelVote_eq p v hc

theorem doVote_add (p : Proposal) (v : Voter) (choice : Int) (hc : choice < (p.options.length : Int)) :
    GovProposal_doVote (propOf p) v choice = .ok
      (propOf { p with options := addAt p.options choice v.power }, voted v choice) :=
  GovProposal_doVote_eq p v choice hc

/-- `Proposal.doVote` for a listed voter -/
theorem doVote_found (p : Proposal) (addr : Hex) (choice : Int) (v : Voter)
    (hd : VotersDistinct p.voters) (hf : p.voters.find? (·.addr == addr) = some v) :
    p.doVote addr choice =
      { p with options := addAt (subAt p.options v.choice v.power) choice v.power
               voters := setV p.voters addr { v with choice := choice } } := by
  have h := map_upd_eq_setV hd hf (fun w => { w with choice := choice })
  rw [← h]
  unfold Proposal.doVote
  rw [hf]
  rfl

theorem doVote_notfound (p : Proposal) (addr : Hex) (choice : Int)
    (hf : p.voters.find? (·.addr == addr) = none) : p.doVote addr choice = p := by
  unfold Proposal.doVote
  rw [hf]

/-! ### `DoVote` -/

/-- the choice recorded by `DoVote` is the one the model records: a negative `choice` (no option is
    voted for) leaves the choice at the -1 of the cancellation, or at the old negative value -/
def VoteFits (p : Proposal) (addr : Hex) (choice : Int) : Prop :=
  ∀ v, p.voters.find? (·.addr == addr) = some v →
    choice < 0 → choice = if v.choice ≥ 0 then -1 else v.choice

instance decForallSome {α : Type} (o : Option α) (P : α → Prop) [∀ a, Decidable (P a)] :
    Decidable (∀ v, o = some v → P v) :=
  match o with
  | none => isTrue (fun _ h => by cases h)
  | some a => if h : P a then isTrue (fun v hv => by cases hv; exact h) else isFalse (fun H => h (H a rfl))

instance (p : Proposal) (addr : Hex) (choice : Int) : Decidable (VoteFits p addr choice) := by
  unfold VoteFits; infer_instance

theorem VoteFits_of_nonneg (p : Proposal) (addr : Hex) (choice : Int) (h : 0 ≤ choice) : VoteFits p addr choice :=
  fun _ _ hneg => by omega

/-- `DoVote(addr, choice)` = `doVote` (error exactly for an unlisted voter, the proposal is then unchanged) -/
theorem GovProposal_DoVote_eq (p : Proposal) (addr : Hex) (choice : Int)
    (hd : VotersDistinct p.voters) (hc : ChoicesOK p) (hch : choice < (p.options.length : Int))
    (hv : VoteFits p addr choice) :
    GovProposal_DoVote (propOf p) addr choice =
      .ok (propOf (p.doVote addr choice),
           if p.voters.any (·.addr == addr) then none else some "not found voter") := by
  unfold GovProposal_DoVote
  simp only [propOf_voters, mapGet_votersOf]
  cases hf : p.voters.find? (·.addr == addr) with
  | none =>
    simp only [Option.isNone_none, if_true, pure, Except.pure, doVote_notfound p addr choice hf,
      find_none_any hf, Bool.false_eq_true, if_false]
  | some v =>
    have hva : v.addr = addr := find_addr hf
    have hlt := hc v (List.mem_of_find?_eq_some hf)
    have hf1 : (setV p.voters addr (cancelled v)).find? (·.addr == addr) = some (cancelled v) :=
      find_setV hf _ hva
    have e2 := doVote_add
      { p with options := subAt p.options v.choice v.power, voters := setV p.voters addr (cancelled v) }
      (cancelled v) choice (by simpa using hch)
    have hv2 : voted (cancelled v) choice = { v with choice := choice } := by
      show ({ v with choice := if choice ≥ 0 then choice else if v.choice ≥ 0 then -1 else v.choice } : Voter) = _
      by_cases h0 : choice ≥ 0
      · simp only [h0, if_true]
      · simp only [h0, if_false]
        rw [← hv v hf (by omega)]
    simp only [Option.isNone_some, Bool.false_eq_true, if_false, gderef, bind, Except.bind, pure, Except.pure,
      cancelVote_sub p v hlt, propOf_voters, mapSet_votersOf_setV hf (cancelled v) hva, propOf_setVoters, e2,
      mapSet_votersOf_setV hf1 { v with choice := choice } hva, find_any hf, if_true, doVote_found p addr choice v hd hf, hv2, cancelled_power]
    rw [setV_setV (c := cancelled v) (hc := hva)]

/-- results of generated functions on closed inputs can be compared by evaluation -/
instance decEqExcept {ε α : Type} [DecidableEq ε] [DecidableEq α] : DecidableEq (Except ε α)
  | .ok a, .ok b => if h : a = b then isTrue (h ▸ rfl) else isFalse (fun e => h (Except.ok.inj e))
  | .error a, .error b => if h : a = b then isTrue (h ▸ rfl) else isFalse (fun e => h (Except.error.inj e))
  | .ok _, .error _ => isFalse (fun e => by cases e)
  | .error _, .ok _ => isFalse (fun e => by cases e)

/-- a proposal with two voters and two options, the first voter has chosen option 0 -/
def exProposal : Proposal :=
  { hash := "h", start := 1, end_ := 10, applying := 20, total := 30, majority := 20, optType := 0,
    voters := [{ addr := "aa", power := 10, choice := 0 }, { addr := "bb", power := 20, choice := -1 }],
    options := [{ raw := "01", parsedV := none, parsedA := none, votes := 10 },
                { raw := "02", parsedV := none, parsedA := none, votes := 0 }] }

/-- without `VoteFits` the two differ: a vote with `choice = -2` by a voter that has not voted leaves
    the Go voter's choice at -1 (nothing is cancelled, nothing is voted), the model records -2.
    (`validateVoting` rejects negative choices and `DoPunish` only re-votes choices ≥ 0, so no
    transaction reaches this input.) -/
theorem GovProposal_DoVote_differs : ∃ p addr choice, VotersDistinct p.voters ∧ ChoicesOK p ∧
    choice < (p.options.length : Int) ∧ ¬ VoteFits p addr choice ∧
    GovProposal_DoVote (propOf p) addr choice ≠ .ok (propOf (p.doVote addr choice), none) := by
  exact ⟨exProposal, "bb", -2, by decide, by decide, by decide, by decide, by decide⟩

/-- the hypotheses are satisfiable, and both sides agree on a change of vote from option 0 to 1 -/
example : VotersDistinct exProposal.voters ∧ ChoicesOK exProposal ∧ VoteFits exProposal "aa" 1 ∧
    VoteFits exProposal "aa" (-1) ∧ VoteFits exProposal "bb" (-1) := by decide

example : GovProposal_DoVote (propOf exProposal) "aa" 1 =
    .ok (propOf { exProposal with
      voters := [{ addr := "aa", power := 10, choice := 1 }, { addr := "bb", power := 20, choice := -1 }]
      options := [{ raw := "01", parsedV := none, parsedA := none, votes := 0 },
                  { raw := "02", parsedV := none, parsedA := none, votes := 10 }] }, none) := by
  rw [GovProposal_DoVote_eq _ _ _ (by decide) (by decide) (by decide) (by decide)]
  exact congrArg Except.ok (by decide)

end Rigo.GenEq
