/-
  Equality theorems for the generated functions that contain loops (delegatee bookkeeping,
  block marker).  Each `for … range` loop of the Go source is a `forIn` over the list; the rule
  `forIn_eq_pure` (GenFuncsBase) reduces it to a structurally recursive mirror function `L`, which
  is then related to the model's list expression by induction.
-/
import RigoProofs.GenFuncsSimple

set_option linter.unusedSimpArgs false

namespace Rigo.GenEq
open Rigo Rigo.Gen

/-! ### `sumPowerOf` -/

theorem sumPower_cons (s : Stake) (xs : List Stake) :
    Delegatee.sumPower (s :: xs) = s.power + Delegatee.sumPower xs := by
  simp [Delegatee.sumPower]

/-- `sumPowerOf(nil)` (nil = empty address) = `sumPower` of all stakes -/
theorem Delegatee_sumPowerOf_nil_eq (d : Delegatee) :
    Delegatee_sumPowerOf d "" = .ok (Delegatee.sumPower d.stakes) := by
  unfold Delegatee_sumPowerOf
  dsimp only
  rw [forIn_eq_pure _ (fun xs p => p + Delegatee.sumPower xs)]
  · simp [pure, Except.pure, bind, Except.bind]
  · intro s; simp [Delegatee.sumPower]
  · intro x xs p
    simp [sumPower_cons, pure, Except.pure, bind, Except.bind]; omega

/-- `sumPowerOf(addr)` for a non-empty address = `sumPowerOf` of the model -/
theorem Delegatee_sumPowerOf_eq (d : Delegatee) (addr : Hex) (h : addr ≠ "") :
    Delegatee_sumPowerOf d addr = .ok (Delegatee.sumPowerOf d.stakes addr) := by
  unfold Delegatee_sumPowerOf Delegatee.sumPowerOf
  dsimp only
  rw [forIn_eq_pure _ (fun xs p => p + Delegatee.sumPower (xs.filter (·.owner == addr)))]
  · simp [pure, Except.pure, bind, Except.bind]
  · intro s; simp [Delegatee.sumPower]
  · intro x xs p
    by_cases c : addr = x.owner
    · have c' : x.owner = addr := c.symm
      simp [h, cmpBytes_eq_zero, c, List.filter_cons, sumPower_cons, pure, Except.pure, bind, Except.bind]; omega
    · have c' : ¬ x.owner = addr := fun e => c e.symm
      simp [h, cmpBytes_eq_zero, c, c', List.filter_cons, pure, Except.pure, bind, Except.bind]

example : Delegatee_sumPowerOf
    { addr := "aa", pub := "", stakes := [{ owner := "aa", to := "aa", hash := "01", power := 3, start := 1 },
                                        { owner := "bb", to := "aa", hash := "02", power := 4, start := 1 }] } "aa" = .ok 3 := by
  rw [Delegatee_sumPowerOf_eq _ _ (by decide)]; simp [Delegatee.sumPowerOf, Delegatee.sumPower]

/-! ### `DelAllStakes` -/

theorem Delegatee_DelAllStakes_eq (d : Delegatee) :
    Delegatee_DelAllStakes d = .ok d.delAllStakes := by
  unfold Delegatee_DelAllStakes Delegatee.delAllStakes
  dsimp only
  rw [forIn_eq_pure _ (fun xs (e : Delegatee) => { e with total := e.total - Delegatee.sumPower xs })]
  · simp [pure, Except.pure, bind, Except.bind, Delegatee.sumPower]
  · intro e; simp [Delegatee.sumPower]
  · intro x xs e
    simp [sumPower_cons, pure, Except.pure, bind, Except.bind]; omega

/-! ### `findStake` -/

/-- mirror of the loop of `findStake` / `findPowerObj`: (early result, index) -/
def findL {α : Type} (p : α → Prop) [DecidablePred p] : List α → Option (Int × Option α) × Int → Option (Int × Option α) × Int
  | [], st => st
  | x :: xs, (_, i) => if p x then (some (i + 1, some x), i + 1) else findL p xs (none, i + 1)

theorem findL_fst {α : Type} (p : α → Prop) [DecidablePred p] (xs : List α) (i : Int) :
    (findL p xs (none, i)).1 =
      match xs.findIdx? (fun x => decide (p x)) with
      | some k => some (i + 1 + (k : Int), xs[k]?)
      | none => none := by
  induction xs generalizing i with
  | nil => simp [findL]
  | cons x xs ih =>
    by_cases c : p x
    · simp [findL, c, List.findIdx?_cons]
    · simp only [findL, c, if_false, ih, List.findIdx?_cons, decide_false]
      cases h : xs.findIdx? (fun x => decide (p x)) with
      | none => simp
      | some k => simp; omega

/-- `findStake(hash)`: index and stake of the first stake with that hash, or `(-1, nil)` -/
theorem Delegatee_findStake_eq (d : Delegatee) (hash : Hex) :
    Delegatee_findStake d hash = .ok (match d.stakes.findIdx? (fun s => decide (hash = s.hash)) with
      | some k => ((k : Int), d.stakes[k]?)
      | none => (-1, none)) := by
  unfold Delegatee_findStake
  dsimp only
  rw [forIn_eq_pure _ (findL (fun s : Stake => hash = s.hash))]
  · simp only [bind, Except.bind, pure, Except.pure, findL_fst]
    cases h : d.stakes.findIdx? (fun s => decide (hash = s.hash)) with
    | none => simp
    | some k => simp
  · intro s; rfl
  · intro x xs ⟨r, i⟩
    by_cases c : hash = x.hash <;> simp [findL, c, cmpBytes_eq_zero, pure, Except.pure, bind, Except.bind]

/-- the stake component is the model's `findStake` -/
theorem Delegatee_findStake_snd (d : Delegatee) (hash : Hex) :
    (Delegatee_findStake d hash).map (·.2) = .ok (d.findStake hash) := by
  rw [Delegatee_findStake_eq]
  simp only [Except.map, Delegatee.findStake]
  congr 1
  induction d.stakes with
  | nil => simp
  | cons x xs ih =>
    by_cases c : hash = x.hash
    · simp [List.findIdx?_cons, c]
    · have c' : ¬ x.hash = hash := fun e => c e.symm
      have c'' : (x.hash == hash) = false := by simp [c']
      simp only [List.findIdx?_cons, c, decide_false, List.find?_cons, c'']
      cases h : xs.findIdx? (fun s => decide (hash = s.hash)) with
      | none => simp [h] at ih ⊢; exact ih
      | some k => simp [h] at ih ⊢; exact ih

/-! ### `delStakeByIdx`, `delStakeByHash`, `DelStake` -/

theorem gslice_eq {α : Type} (xs : List α) (a b : Nat) (h1 : a ≤ b) (h2 : b ≤ xs.length) :
    gslice xs (a : Int) (b : Int) = .ok ((xs.take b).drop a) := by
  unfold gslice
  have : ¬ ((a : Int) < 0 ∨ (b : Int) < (a : Int) ∨ (xs.length : Int) < (b : Int)) := by omega
  rw [if_neg this]; simp [pure, Except.pure]

/-- `delStakeByIdx(idx)` for a non-negative index: the element is removed and returned; an index
    past the end leaves the list alone and returns nil -/
theorem Delegatee_delStakeByIdx_eq (d : Delegatee) (idx : Nat) :
    Delegatee_delStakeByIdx d (idx : Int) =
      .ok ({ d with stakes := d.stakes.eraseIdx idx }, d.stakes[idx]?) := by
  unfold Delegatee_delStakeByIdx
  dsimp only
  by_cases h : (idx : Int) ≥ (d.stakes.length : Int)
  · have h' : d.stakes.length ≤ idx := by omega
    simp [h, pure, Except.pure, List.eraseIdx_of_length_le h', List.getElem?_eq_none h']
  · have h' : idx < d.stakes.length := by omega
    have e1 : gidx d.stakes (idx : Int) = .ok d.stakes[idx] := gidx_eq _ _ _ (by simp [h'])
    have e2 := gslice_eq d.stakes 0 idx (by omega) (by omega)
    have e3 : gslice d.stakes ((idx : Int) + 1) (d.stakes.length : Int) = .ok ((d.stakes.take d.stakes.length).drop (idx + 1)) := by
      have := gslice_eq d.stakes (idx + 1) d.stakes.length (by omega) (by omega)
      simpa using this
    simp only [Int.natCast_zero] at e2
    simp only [h, if_false, e1, e2, e3, bind, Except.bind, pure, Except.pure]
    simp [List.eraseIdx_eq_take_drop_succ, h']

/-- a negative index (below the length) is Go's index panic -/
theorem Delegatee_delStakeByIdx_neg (d : Delegatee) (idx : Int) (h : idx < 0) :
    G.panics (Delegatee_delStakeByIdx d idx) := by
  unfold Delegatee_delStakeByIdx
  dsimp only
  have : ¬ (idx ≥ (d.stakes.length : Int)) := by omega
  simp [this, gidx, h, bind, Except.bind, throw, throwThe, MonadExceptOf.throw]

theorem hashPred_eq (hash : Hex) :
    (fun s : Stake => decide (hash = s.hash)) = (fun s : Stake => s.hash == hash) := by
  funext s; by_cases c : hash = s.hash
  · simp [c]
  · have : ¬ s.hash = hash := fun e => c e.symm
    simp [c, this]

/-- `delStakeByHash(hash)`: the first stake with that hash is removed and returned -/
theorem Delegatee_delStakeByHash_eq (d : Delegatee) (hash : Hex) :
    Delegatee_delStakeByHash d hash =
      .ok ({ d with stakes := d.stakes.eraseP (·.hash == hash) }, d.stakes.find? (·.hash == hash)) := by
  unfold Delegatee_delStakeByHash
  dsimp only
  rw [Delegatee_findStake_eq, hashPred_eq, List.eraseP_eq_eraseIdx, List.find?_eq_bind_findIdx?_getElem?]
  cases h : d.stakes.findIdx? (fun s => s.hash == hash) with
  | none => simp [bind, Except.bind, pure, Except.pure]
  | some k =>
    obtain ⟨hk, -, -⟩ := List.findIdx?_eq_some_iff_getElem.mp h
    have h0 : ¬ ((k : Int) < 0) := by omega
    simp [bind, Except.bind, pure, Except.pure, h0, hk, Delegatee_delStakeByIdx_eq]

/-- `DelStake(hash)` = the model's `delStake` (with the removed stake = `findStake`) -/
theorem Delegatee_DelStake_eq (d : Delegatee) (hash : Hex) :
    Delegatee_DelStake d hash = .ok (d.delStake hash, d.findStake hash) := by
  unfold Delegatee_DelStake Delegatee.delStake Delegatee.findStake
  dsimp only
  rw [Delegatee_delStakeByHash_eq]
  cases h : d.stakes.find? (fun s => s.hash == hash) with
  | none =>
    have : d.stakes.eraseP (fun x => x.hash == hash) = d.stakes :=
      List.eraseP_of_forall_not (by simpa using h)
    simp [bind, Except.bind, pure, Except.pure, this]
  | some s =>
    simp only [bind, Except.bind, pure, Except.pure, Option.isSome_some, if_true, gderef, Stake_IsSelfStake_eq]
    by_cases c : Delegatee.isSelf s = true <;> simp [c]

/-! ### block marker (`Mark`, `CountInWindow`) -/

/-- `Mark(h)` = `mark`; the error is returned exactly when the height does not increase -/
theorem BlockMarker_Mark_eq (hs : List Int) (h : Int) :
    BlockMarker_Mark ⟨hs⟩ h = .ok (⟨Delegatee.mark hs h⟩,
      match hs.getLast? with
      | some l => if l ≥ h then some "height must bigger than last marked height" else none
      | none => none) := by
  unfold BlockMarker_Mark Delegatee.mark
  dsimp only
  cases hl : hs.getLast? with
  | none =>
    have : hs = [] := by simpa using hl
    subst this
    simp [bind, Except.bind, pure, Except.pure]
  | some l =>
    have hne : hs ≠ [] := by intro e; subst e; simp at hl
    have hlen : 0 < hs.length := List.length_pos_iff.mpr hne
    have hidx : hs[hs.length - 1]? = some l := by
      rw [List.getLast?_eq_getElem?] at hl; exact hl
    have e : ((hs.length : Int) - 1) = ((hs.length - 1 : Nat) : Int) := by omega
    have h0 : ((hs.length : Int) - 1 ≥ 0) := by omega
    rw [e] at *
    simp only [gidx_eq hs _ l hidx, bind, Except.bind, pure, Except.pure]
    by_cases c : l ≥ h <;> simp [h0, c]

/-- mirror of the loop of `CountInWindow`: state (count, preIdx, i), `i` incremented first -/
def cwL (h0 h1 : Int) : List Int → Int × Int × Int → Int × Int × Int
  | [], s => s
  | h :: rest, (cnt, pre, i) =>
    let pre' := if h < h0 then i + 1 else pre
    let cnt' := if h ≥ h0 ∧ h ≤ h1 then cnt + 1 else cnt
    if h ≥ h1 then (cnt', pre', i + 1) else cwL h0 h1 rest (cnt', pre', i + 1)

theorem cwL_eq (h0 h1 : Int) (hs : List Int) (k cnt : Nat) (pre : Int) :
    (cwL h0 h1 hs ((cnt : Int), pre, (k : Int) - 1)).1 = ((Delegatee.countLoop h0 h1 hs k pre cnt).1 : Int) ∧
    (cwL h0 h1 hs ((cnt : Int), pre, (k : Int) - 1)).2.1 = (Delegatee.countLoop h0 h1 hs k pre cnt).2 := by
  induction hs generalizing k cnt pre with
  | nil => simp [cwL, Delegatee.countLoop]
  | cons x xs ih =>
    simp only [cwL, Delegatee.countLoop, Int.sub_add_cancel]
    have e : (k : Int) = ((k + 1 : Nat) : Int) - 1 := by omega
    by_cases c3 : x ≥ h1
    · simp only [c3, if_true]
      by_cases c2 : x ≥ h0 ∧ x ≤ h1 <;> simp [c2]
    · simp only [c3, if_false]
      by_cases c2 : x ≥ h0 ∧ x ≤ h1
      · simp only [c2, if_true]
        have := ih (k + 1) (cnt + 1) (if x < h0 then (k : Int) else pre)
        rw [← e] at this
        simpa using this
      · simp only [c2, if_false]
        have := ih (k + 1) cnt (if x < h0 then (k : Int) else pre)
        rw [← e] at this
        simpa using this

theorem countLoop_snd_lt (h0 h1 : Int) (hs : List Int) (k cnt : Nat) (pre : Int) (hp : pre < k) :
    (Delegatee.countLoop h0 h1 hs k pre cnt).2 < (k : Int) + hs.length := by
  induction hs generalizing k cnt pre with
  | nil => simp [Delegatee.countLoop]; omega
  | cons x xs ih =>
    simp only [Delegatee.countLoop]
    have hp' : (if x < h0 then (k : Int) else pre) < ((k + 1 : Nat) : Int) := by split <;> omega
    split
    · simp only [List.length_cons]; split <;> omega
    · have := ih (k + 1) (if x ≥ h0 ∧ x ≤ h1 then cnt + 1 else cnt) _ hp'
      simp only [List.length_cons]; omega

/-- `CountInWindow(h0, h1, true)` = `countInWindow`: the count and the pruned heights -/
theorem BlockMarker_CountInWindow_eq (hs : List Int) (h0 h1 : Int) :
    BlockMarker_CountInWindow ⟨hs⟩ h0 h1 true =
      .ok (⟨(Delegatee.countInWindow hs h0 h1).2⟩, ((Delegatee.countInWindow hs h0 h1).1 : Int)) := by
  unfold BlockMarker_CountInWindow Delegatee.countInWindow
  dsimp only
  by_cases h : h0 > h1
  · simp [h, pure, Except.pure]
  · simp only [h, if_false]
    rw [forIn_eq_pure _ (cwL h0 h1) (by intro s; rfl)]
    · have hc := cwL_eq h0 h1 hs 0 0 (-1)
      have hb := countLoop_snd_lt h0 h1 hs 0 0 (-1) (by omega)
      simp only [Int.natCast_zero, Int.zero_sub] at hc hb
      obtain ⟨hc1, hc2⟩ := hc
      simp only [bind, Except.bind, pure, Except.pure, hc1, hc2, true_and]
      generalize Delegatee.countLoop h0 h1 hs 0 (-1) 0 = r at *
      obtain ⟨cnt, pre⟩ := r
      simp only at hb ⊢
      by_cases hp : pre > 0
      · have e1 : pre + 1 = ((pre.toNat + 1 : Nat) : Int) := by omega
        have := gslice_eq hs (pre.toNat + 1) hs.length (by omega) (by omega)
        rw [← e1] at this
        simp [hp, this]
      · simp [hp]
    · intro x xs ⟨cnt, pre, i⟩
      simp only [cwL]
      by_cases c1 : x < h0 <;> by_cases c2 : x ≥ h0 ∧ x ≤ h1 <;> by_cases c3 : x ≥ h1 <;>
        simp [c1, c2, c3, bind, Except.bind, pure, Except.pure]

example : BlockMarker_CountInWindow ⟨[1, 3, 5, 7]⟩ 4 7 true = .ok (⟨[5, 7]⟩, 2) := by
  rw [BlockMarker_CountInWindow_eq]; simp [Delegatee.countInWindow, Delegatee.countLoop]

end Rigo.GenEq
