/-
  C13 / pipeline (8): why `GenesisCovered` is a hypothesis.  A genesis validator key that no EndBlock answer ever names
  stays in Tendermint's set with its genesis power for ever, while the application's reported list (`lastVals`, the
  fold of the answers over ∅) does not contain it — the C10 finding "block 1 announces nothing, a genesis validator
  that is not eligible at block 2 (unbonded in block 1, self power below `minValidatorStake`, or beyond
  `maxValidatorCnt`) is never reported as removed".  Such a validator keeps appearing in `LastCommitInfo` with its
  genesis power; the reward code pays it while its ledger total still equals that power and silently skips it afterwards.
-/
import RigoProofs.C13PipelineDefs

open Std

namespace Rigo.C13P
open Rigo Rigo.TM

/-- a key of the starting set that no update names: unchanged in the engine's set, absent from the fold over ∅ -/
theorem uncovered_key_stays (G : ValSet) (us : List ValUpdate) (k : Hex) (p : Int) (hk : G[k]? = some p)
    (hn : ∀ u ∈ us, u.1 ≠ k) :
    (applyUpdates G us)[k]? = some p ∧ (applyUpdates ∅ us)[k]? = none := by
  rw [getElem?_applyUpdates_not_named _ _ _ hn, getElem?_applyUpdates_not_named _ _ _ hn]
  exact ⟨hk, rfl⟩

/-- hence, for the validator set of the +2 rule: a genesis key not named by the first `H − 2` answers is still in force
    at block `H` with its genesis power -/
theorem uncovered_genesis_validator (g : Genesis) (ops : List Op) (H : Int) (k : Hex) (p : Int)
    (hk : (genesisSet g)[k]? = some p)
    (hn : ∀ u ∈ ((endUpdates (initChain g) ops).take (H - 2).toNat).flatten, u.1 ≠ k) :
    (tmValset g ops H)[k]? = some p :=
  (uncovered_key_stays _ _ k p hk hn).1

end Rigo.C13P
