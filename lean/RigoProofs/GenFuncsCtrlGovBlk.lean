/-
  Round 3, the governance controller's block functions (ctrlers/gov/ctrler.go):

  * `GovCtrler_doPunish_eq`        (GenFuncsCtrlGovBlk1)  `doPunish`        = `Rigo.govPunish`
  * `GovCtrler_freezeProposals_eq` (GenFuncsCtrlGovBlk2)  `freezeProposals` = `Rigo.freezeProposals`

  This file: non-vacuity examples and the `_differs` witnesses of `freezeProposals`.
-/
import RigoProofs.GenFuncsCtrlGovBlk2

set_option linter.unusedSimpArgs false

namespace Rigo.GenEq
open Rigo Rigo.Gen

theorem govBlk_sortOptions_single (o : VoteOpt) : sortOptions [o] = [o] := by simp [sortOptions]

/-- `updateMajorOption` on a proposal with exactly one option, for any admissible sort -/
theorem govBlk_updateMajorOption_single (p : Proposal) (o : VoteOpt) (srt : SortOf powerOrderVoteOptions_Less)
    (hp : p.options = [o]) :
    GovProposal_updateMajorOption (propOf p) srt =
      .ok ({ propOf p with options := [optOf o],
                           major := if o.votes ≥ p.majority then some (optOf o) else p.major.map optOf },
           if o.votes ≥ p.majority then some (optOf o) else p.major.map optOf) := by
  obtain ⟨top', rest', top, rest, _, hperm, hso, _, he⟩ :=
    GovProposal_updateMajorOption_eq p srt (by rw [hp]; simp)
  rw [hp, govBlk_sortOptions_single] at hso
  obtain ⟨h1, h2⟩ := List.cons.inj hso
  subst h1 h2
  rw [hp] at hperm
  have : top' :: rest' = [optOf o] := List.perm_singleton.mp hperm
  obtain ⟨h3, h4⟩ := List.cons.inj this
  subst h3 h4
  rw [he]

/-! ### `freezeProposals`: the hypotheses are satisfiable and the result is the expected one -/

def exOptA : VoteOpt := { raw := "01", parsedV := none, parsedA := none, votes := 3 }
def exOptB : VoteOpt := { raw := "02", parsedV := none, parsedA := none, votes := 25 }

/-- expired at height 11, option "02" has 25 ≥ 20 votes: is frozen -/
def exPropF : Proposal :=
  { hash := "h", start := 1, end_ := 10, applying := 20, total := 30, majority := 20, optType := 0,
    voters := [{ addr := "aa", power := 10, choice := 0 }, { addr := "bb", power := 20, choice := 1 }],
    options := [exOptA, exOptB] }

/-- not expired at height 11 -/
def exPropO : Proposal := { exGovProposal2 with hash := "h3", end_ := 30 }

def exFrzProps : KMap Proposal :=
  ((({} : KMap Proposal).insert (ledgerKey "h") exPropF).insert (ledgerKey "h2") exGovProposal2).insert (ledgerKey "h3") exPropO

/-- three committed open proposals: one to freeze, one to remove (`exGovProposal2`: no votes), one still open -/
def exFrzSt : St := { props := { hist := [exFrzProps], fin := exFrzProps, chk := exFrzProps } }

theorem exFrzSt_toList : exFrzSt.props.committed.toList =
    [(ledgerKey "h", exPropF), (ledgerKey "h2", exGovProposal2), (ledgerKey "h3", exPropO)] := by decide

example : PropKeysOK exFrzSt.props ∧ OpenNoMajor exFrzSt 11 := by decide

theorem exPropF_sorted : sortOptions exPropF.options = [exOptB, exOptA] := by
  simp [sortOptions, List.mergeSort, exPropF, exOptA, exOptB]

/-- the model's result on the example -/
def exFrzSt' : St :=
  { exFrzSt with
    props := (exFrzSt.props.del true (ledgerKey "h")).del true (ledgerKey "h2")
    fprops := exFrzSt.fprops.set true (ledgerKey "h") { exPropF with options := [exOptB, exOptA], major := some exOptB } }

theorem exFrzSt_model : freezeProposals exFrzSt 11 = .ok exFrzSt' := by
  rw [govFreezeProposals_fold, exFrzSt_toList]
  simp only [List.foldl]
  rw [govFreezeStep_frozen 11 _ _ exPropF exPropF exOptB [exOptA] (by decide) (by decide) exPropF_sorted (by decide)]
  rw [govFreezeStep_removed 11 _ _ exGovProposal2 exGovProposal2 _ [] (by decide) (by decide) (govBlk_sortOptions_single _) (by decide)]
  rw [govFreezeStep_skip 11 _ _ exPropO (by decide)]
  rfl

/-- both sides on the example: "h" is frozen with the sorted options and its major option, "h2" is
    removed, "h3" stays -/
example : GovCtrler_freezeProposals (govCtrlOf exFrzSt) 11 mergeSortOfOptions =
      .ok (govCtrlOf exFrzSt', ["h"], ["h2"], none) ∧
    exFrzSt'.fprops.get true (ledgerKey "h") =
      some { exPropF with options := [exOptB, exOptA], major := some exOptB } ∧
    exFrzSt'.props.get true (ledgerKey "h") = none ∧ exFrzSt'.props.get true (ledgerKey "h2") = none ∧
    exFrzSt'.props.get true (ledgerKey "h3") = some exPropO := by
  refine ⟨?_, by decide, by decide, by decide, by decide⟩
  rw [GovCtrler_freezeProposals_ok exFrzSt exFrzSt' 11 _ (by decide) (by decide) (optionSortAgrees_mergeSort _ _) exFrzSt_model,
    exFrzSt_toList]
  have hw1 : govWillFreeze exPropF = true := by unfold govWillFreeze; rw [exPropF_sorted]; decide
  have hw2 : govWillFreeze exGovProposal2 = false := by
    unfold govWillFreeze; rw [show exGovProposal2.options = [_] from rfl, govBlk_sortOptions_single]; decide
  have he1 : decide (exPropF.end_ < 11) = true := by decide
  have he2 : decide (exGovProposal2.end_ < 11) = true := by decide
  have he3 : decide (exPropO.end_ < 11) = false := by decide
  have hh1 : exPropF.hash = "h" := rfl
  have hh2 : exGovProposal2.hash = "h2" := rfl
  simp only [govFrozenOfList, govRemovedOfList, List.filter_cons, List.filter_nil, hw1, hw2, he1, he2, he3, Bool.and_self,
    Bool.and_false, Bool.false_and, Bool.not_true, Bool.not_false, Bool.and_true, Bool.false_eq_true, if_true, if_false,
    List.map_cons, List.map_nil, hh1, hh2]

/-! ### DIFFERENCE 1: an open proposal that already has a major option -/

def exOptOld : VoteOpt := { raw := "0f", parsedV := none, parsedA := none, votes := 0 }

/-- expired at height 11, its only option has 0 < 13 votes, but a major option is already recorded -/
def exPropM : Proposal := { exGovProposal2 with hash := "hm", major := some exOptOld }

def exMajProps : KMap Proposal := ({} : KMap Proposal).insert (ledgerKey "hm") exPropM

def exMajSt : St := { props := { hist := [exMajProps], fin := exMajProps, chk := exMajProps } }

/-- what the Go code computes on `exMajSt`: the proposal is in the frozen ledger, with its old major option -/
def exMajCtrl : GovCtrler :=
  { govCtrlOf exMajSt with
    proposalLedger := (govCtrlOf exMajSt).proposalLedger.del true (ledgerKey "hm")
    frozenLedger := (govCtrlOf exMajSt).frozenLedger.set true (ledgerKey "hm") (propOf exPropM) }

theorem optionSortAgrees_single (srt : SortOf powerOrderVoteOptions_Less) (o : VoteOpt) :
    srt.sort ([o].map optOf) = (sortOptions [o]).map optOf := by
  rw [govBlk_sortOptions_single]
  exact List.perm_singleton.mp (srt.perm _)

/-- needs `OpenNoMajor`: an expired open proposal WITHOUT a majority but with a major option already
    recorded: `UpdateMajorOption()` returns the old `MajorOption` (non-nil), so the Go code freezes the
    proposal (hash in `frozen`, record in the frozen ledger, old major option); the model removes it.
    For every admissible sort. -/
theorem GovCtrler_freezeProposals_differs : ∃ s height k, PropKeysOK s.props ∧ ¬ OpenNoMajor s height ∧
    ∀ srt : SortOf powerOrderVoteOptions_Less, OptionSortAgrees srt s height ∧
      (∃ c, GovCtrler_freezeProposals (govCtrlOf s) height srt = .ok (c, ["hm"], [], none) ∧
        (c.frozenLedger.get true k).isSome = true) ∧
      (∃ s', freezeProposals s height = .ok s' ∧ s'.fprops.get true k = none ∧
        govFrozenOfList height s.props.committed.toList = [] ∧
        govRemovedOfList height s.props.committed.toList = ["hm"]) := by
  have htl : exMajSt.props.committed.toList = [(ledgerKey "hm", exPropM)] := by decide
  have hw : govWillFreeze exPropM = false := by
    unfold govWillFreeze; rw [show exPropM.options = [_] from rfl, govBlk_sortOptions_single]; decide
  refine ⟨exMajSt, 11, ledgerKey "hm", by decide, by decide, fun srt => ⟨?_, ?_, ?_⟩⟩
  · intro kp hkp _
    rw [htl] at hkp
    simp only [List.mem_singleton] at hkp
    subst hkp
    exact optionSortAgrees_single srt _
  · have hget : (govCtrlOf exMajSt).proposalLedger.get true (ledgerKey (propOf exPropM).header.hash) =
        some (propOf exPropM) := by decide
    have hend : (propOf exPropM).header.end_ < 11 := by decide
    refine ⟨exMajCtrl, ?_, ?_⟩
    · rw [GovCtrler_freezeProposals_loop, htl]
      simp only [List.map_cons, List.map_nil, govFreezeL, hend, if_true, hget,
        govBlk_updateMajorOption_single exPropM _ srt rfl]
      rfl
    · decide
  · refine ⟨{ exMajSt with props := exMajSt.props.del true (ledgerKey "hm") }, ?_, by decide, ?_, ?_⟩
    · rw [govFreezeProposals_fold, htl]
      simp only [List.foldl]
      exact govFreezeStep_removed 11 _ _ exPropM exPropM _ [] (by decide) (by decide) (govBlk_sortOptions_single _) (by decide)
    · rw [htl]; simp [govFrozenOfList, hw]
    · have he : decide (exPropM.end_ < 11) = true := by decide
      have hh : exPropM.hash = "hm" := rfl
      rw [htl]
      simp only [govRemovedOfList, List.filter_cons, List.filter_nil, hw, he, Bool.not_false, Bool.and_self, if_true,
        List.map_cons, List.map_nil, hh]

/-! ### DIFFERENCE 2: tied options and another admissible sort -/

/-- another sort that satisfies Go's contract: ties come out in the reverse order -/
def revSortOfOptions : SortOf powerOrderVoteOptions_Less where
  sort xs := xs.reverse.mergeSort (fun a b => decide (a.votes ≥ b.votes))
  perm xs := (List.mergeSort_perm _ _).trans (List.reverse_perm xs)
  sorted xs := mergeSortOfOptions.sorted xs.reverse

def exOptT1 : VoteOpt := { raw := "01", parsedV := none, parsedA := none, votes := 10 }
def exOptT2 : VoteOpt := { raw := "02", parsedV := none, parsedA := none, votes := 10 }

/-- expired at height 11, two options tied at 10 ≥ 5 votes -/
def exPropT : Proposal :=
  { hash := "ht", start := 1, end_ := 10, applying := 20, total := 30, majority := 5, optType := 0,
    voters := [{ addr := "aa", power := 10, choice := 0 }, { addr := "bb", power := 10, choice := 1 }],
    options := [exOptT1, exOptT2] }

def exTieProps : KMap Proposal := ({} : KMap Proposal).insert (ledgerKey "ht") exPropT

def exTieSt : St := { props := { hist := [exTieProps], fin := exTieProps, chk := exTieProps } }

/-- what the Go code computes on `exTieSt` with `revSortOfOptions`: option "02" is the major option -/
def exTieCtrl : GovCtrler :=
  { govCtrlOf exTieSt with
    proposalLedger := (govCtrlOf exTieSt).proposalLedger.del true (ledgerKey "ht")
    frozenLedger := (govCtrlOf exTieSt).frozenLedger.set true (ledgerKey "ht")
      { propOf exPropT with options := [optOf exOptT2, optOf exOptT1], major := some (optOf exOptT2) } }

theorem exPropT_sorted : sortOptions exPropT.options = [exOptT1, exOptT2] := by
  simp [sortOptions, List.mergeSort, exPropT, exOptT1, exOptT2]

theorem exPropT_revSorted :
    revSortOfOptions.sort (exPropT.options.map optOf) = [optOf exOptT2, optOf exOptT1] := by
  simp [revSortOfOptions, List.mergeSort, exPropT, exOptT1, exOptT2, optOf]

/-- needs `OptionSortAgrees`: with two options tied at the top, an admissible sort other than the stable one
    records the OTHER option as the major option of the frozen proposal -/
theorem GovCtrler_freezeProposals_differs_tie : ∃ s height k srt, PropKeysOK s.props ∧ OpenNoMajor s height ∧
    ¬ OptionSortAgrees srt s height ∧
    (∃ c, GovCtrler_freezeProposals (govCtrlOf s) height srt = .ok (c, ["ht"], [], none) ∧
      (c.frozenLedger.get true k).map (·.major) = some (some (optOf exOptT2))) ∧
    (∃ s', freezeProposals s height = .ok s' ∧
      ((govCtrlOf s').frozenLedger.get true k).map (·.major) = some (some (optOf exOptT1))) := by
  have htl : exTieSt.props.committed.toList = [(ledgerKey "ht", exPropT)] := by decide
  refine ⟨exTieSt, 11, ledgerKey "ht", revSortOfOptions, by decide, by decide, ?_, ?_, ?_⟩
  · intro h
    have := h (ledgerKey "ht", exPropT) (by rw [htl]; simp) (by decide)
    simp only at this
    rw [exPropT_revSorted, exPropT_sorted] at this
    revert this; decide
  · have hget : (govCtrlOf exTieSt).proposalLedger.get true (ledgerKey (propOf exPropT).header.hash) =
        some (propOf exPropT) := by decide
    have hend : (propOf exPropT).header.end_ < 11 := by decide
    obtain ⟨top', rest', top, rest, hsort, _, hso, _, he⟩ :=
      GovProposal_updateMajorOption_eq exPropT revSortOfOptions (by decide)
    rw [exPropT_revSorted] at hsort
    obtain ⟨h1, h2⟩ := List.cons.inj hsort
    rw [exPropT_sorted] at hso
    obtain ⟨h3, h4⟩ := List.cons.inj hso
    subst h1 h2 h3 h4
    have hmaj : exOptT1.votes ≥ exPropT.majority := by decide
    simp only [hmaj, if_true] at he
    refine ⟨exTieCtrl, ?_, ?_⟩
    · rw [GovCtrler_freezeProposals_loop, htl]
      simp only [List.map_cons, List.map_nil, govFreezeL, hend, if_true, hget, he]
      rfl
    · decide
  · refine ⟨{ exTieSt with
        props := exTieSt.props.del true (ledgerKey "ht")
        fprops := exTieSt.fprops.set true (ledgerKey "ht")
          { exPropT with options := [exOptT1, exOptT2], major := some exOptT1 } }, ?_, ?_⟩
    · rw [govFreezeProposals_fold, htl]
      simp only [List.foldl]
      exact govFreezeStep_frozen 11 _ _ exPropT exPropT _ _ (by decide) (by decide) exPropT_sorted (by decide)
    · decide

end Rigo.GenEq
