/-
  C19 (part 4): what each query path answers (`answer` over the `Snapshot` of one committed version),
  stability of answers for past heights, error codes.
-/
import RigoProofs.C19Query

namespace Rigo
namespace C19
open Rigo.Render

theorem atH_some {α : Type} (hist : List (KMap α)) (n : Int) (h1 : 1 ≤ n) (h2 : n ≤ hist.length) :
    atH hist n = some ((hist[n.toNat - 1]?).getD {}) := by
  rw [atH_of_pos _ _ h1]
  have : n.toNat - 1 < hist.length := by omega
  rw [List.getElem?_eq_getElem this]; rfl

theorem qHeight_zero (s : St) : qHeight s 0 = s.lastHeight := rfl
theorem qHeight_ne (s : St) (h : Int) (hh : h ≠ 0) : qHeight s h = h := by unfold qHeight; rw [if_neg hh]

theorem query_stable_of_prefix (s s' : St) (hp : FramePrefix (frame s) (frame s')) (hv : VersionsAgree s)
    (path : String) (data : Hex) (h : Int) (h1 : 1 ≤ h) (h2 : h ≤ s.lastHeight) :
    query s' path data h = query s path data h := by
  obtain ⟨p1, p2, _, p4, p5, p6, p7⟩ := hp
  obtain ⟨v0, v1, v2, _, v4, v5, v6, v7, _⟩ := hv
  simp only [frame] at p1 p2 p4 p5 p6 p7 v0 v1 v2 v4 v5 v6 v7
  have e1 := atH_prefix p1 h h1 (by omega)
  have e2 := atH_prefix p2 h h1 (by omega)
  have e4 := atH_prefix p4 h h1 (by omega)
  have e5 := atH_prefix p5 h h1 (by omega)
  have e6 := atH_prefix p6 h h1 (by omega)
  have e7 := atH_prefix p7 h h1 (by omega)
  unfold query
  simp only [qHeight_ne _ h (by omega), at?_eq_atH, e1, e2, e4, e5, e6, e7]

/-- the maps of one committed version that queries read -/
structure Snapshot where
  accts : KMap Account
  delegs : KMap Delegatee
  rewards : KMap Reward
  params : KMap Params
  props : KMap Proposal
  fprops : KMap Proposal

/-- version `n` (= the state committed by block `n`) -/
def snapshotAt (s : St) (n : Nat) : Snapshot :=
  { accts := (s.accts.hist[n - 1]?).getD {}, delegs := (s.delegs.hist[n - 1]?).getD {},
    rewards := (s.rewards.hist[n - 1]?).getD {}, params := (s.params.hist[n - 1]?).getD {},
    props := (s.props.hist[n - 1]?).getD {}, fprops := (s.fprops.hist[n - 1]?).getD {} }

/-- the specified answer of each path over one committed version -/
def answer (sn : Snapshot) (path : String) (data : Hex) : QOut :=
  let fail : QOut := { code := ErrCodeQuery }
  match path with
  | "account" => { value := showAccount ((sn.accts[ledgerKey data]?).getD { addr := data }) }
  | "delegatee" =>
    match sn.delegs[ledgerKey data]? with
    | some d => { value := showDelegatee d }
    | none => fail
  | "stakes" =>
    { value := "S:" ++ joinOr (((sn.delegs.toList.map fun (_, d) => d.stakes.filter (·.owner == data)).flatten).map (showStake "/")) ";" }
  | "stakes/total_power" => { value := toString ((sn.delegs.toList.map fun (_, d) => d.total).sum) }
  | "reward" =>
    match sn.rewards[ledgerKey data]? with
    | some r => { value := showReward r }
    | none => fail
  | "proposal" =>
    if data == "" then
      { value := "PL:" ++ joinOr ((sn.props.toList.map fun (_, p) => showProposal "P" p) ++ (sn.fprops.toList.map fun (_, p) => showProposal "FP" p)) "|" }
    else match sn.props[ledgerKey data]? with
      | some p => { value := showProposal "P" p }
      | none => match sn.fprops[ledgerKey data]? with
        | some p => { value := showProposal "FP" p }
        | none => fail
  | "gov_params" =>
    match sn.params[zeroHash]? with
    | some p => { value := "G:" ++ showParams p }
    | none => fail
  | _ => { code := ErrCodeInvalidQueryPath }

theorem query_eq_answer (s : St) (hv : VersionsAgree s) (path : String) (data : Hex) (h : Int)
    (h1 : 1 ≤ qHeight s h) (h2 : qHeight s h ≤ s.lastHeight) :
    query s path data h = answer (snapshotAt s (qHeight s h).toNat) path data := by
  obtain ⟨v0, v1, v2, _, v4, v5, v6, v7, _⟩ := hv
  simp only [frame] at v0 v1 v2 v4 v5 v6 v7
  generalize hn : qHeight s h = n at h1 h2
  have e1 := atH_some s.accts.hist n h1 (by omega)
  have e2 := atH_some s.delegs.hist n h1 (by omega)
  have e4 := atH_some s.rewards.hist n h1 (by omega)
  have e5 := atH_some s.params.hist n h1 (by omega)
  have e6 := atH_some s.props.hist n h1 (by omega)
  have e7 := atH_some s.fprops.hist n h1 (by omega)
  unfold query answer snapshotAt
  simp only [hn, at?_eq_atH, e1, e2, e4, e5, e6, e7]
  split <;> first | rfl | (simp; done)

def knownPaths : List String :=
  ["account", "delegatee", "stakes", "stakes/total_power", "reward", "proposal", "gov_params"]

theorem query_beyond (s : St) (hv : VersionsAgree s) (path : String) (data : Hex) (h : Int)
    (hb : s.lastHeight < qHeight s h) (hp : path ∈ knownPaths) :
    query s path data h = { code := ErrCodeQuery } := by
  obtain ⟨v0, v1, v2, _, v4, v5, v6, v7, _⟩ := hv
  simp only [frame] at v0 v1 v2 v4 v5 v6 v7
  generalize hn : qHeight s h = n at hb
  have e1 := atH_beyond s.accts.hist n (by omega)
  have e2 := atH_beyond s.delegs.hist n (by omega)
  have e4 := atH_beyond s.rewards.hist n (by omega)
  have e5 := atH_beyond s.params.hist n (by omega)
  have e6 := atH_beyond s.props.hist n (by omega)
  have e7 := atH_beyond s.fprops.hist n (by omega)
  unfold query
  simp only [hn, at?_eq_atH, e1, e2, e4, e5, e6, e7]
  simp only [knownPaths, List.mem_cons, List.not_mem_nil, or_false] at hp
  rcases hp with rfl | rfl | rfl | rfl | rfl | rfl | rfl <;> rfl

theorem query_unknown_path (s : St) (path : String) (data : Hex) (h : Int) (hp : path ∉ knownPaths) :
    query s path data h = { code := ErrCodeInvalidQueryPath } := by
  simp only [knownPaths, List.mem_cons, List.not_mem_nil, or_false, not_or] at hp
  obtain ⟨p1, p2, p3, p4, p5, p6, p7⟩ := hp
  unfold query
  split <;> first | contradiction | rfl

end C19
end Rigo
