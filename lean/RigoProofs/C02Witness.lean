/-
  C02 witnesses: (a) a concrete four-block history with a transfer, a delegation, a reward withdrawal,
  an unstaking, a refund, a failed transaction, a CheckTx and a restart on which all hypotheses of
  `conservation_partial` hold (checked by `decide +kernel` through the decidable checker `runOK1B`);
  (b) the jailing variant of the unbonding-key collision.
-/
import RigoProofs.C02Deep
import RigoProofs.C02Counter

namespace Rigo.C02.Wit

open Rigo Rigo.C02 Rigo.C02.Cex

def addrC : Hex := "cccccccccccccccccccccccccccccccccccccccc"
def hashS : Hex := "1111111111111111111111111111111111111111111111111111111111111111"
def E18 : Nat := 1000000000000000000
/-- unbonding period 1 block -/
def PW : Params := { P with lazyRewardBlocks := 1 }
def GW : Genesis :=
  { chainId := "c", params := PW, holders := [(addrA, 5 * E18), (addrB, 100)], vals := [("pa", addrA, 10), ("pb", addrB, 10)] }
def txTransfer : TxIn :=
  { hash := "t1", sigOk := true, from_ := addrA, to := addrC, nonce := 0, amount := 2 * E18, gas := 1, price := 1, type := TRX_TRANSFER }
def txDelegate : TxIn :=
  { hash := hashS, sigOk := true, from_ := addrC, to := addrA, nonce := 0, amount := E18, gas := 1, price := 1, type := TRX_STAKING }
def txWithdraw : TxIn :=
  { hash := "w1", sigOk := true, from_ := addrA, to := addrA, nonce := 1, amount := 0, gas := 1, price := 1, type := TRX_WITHDRAW,
    payload := .withdraw 7 }
def txUnstake : TxIn :=
  { hash := "u1", sigOk := true, from_ := addrC, to := addrA, nonce := 1, gas := 1, price := 1, type := TRX_UNSTAKING,
    payload := .unstaking hashS }
/-- fails: wrong nonce -/
def txBad : TxIn :=
  { hash := "b1", sigOk := true, from_ := addrC, to := addrA, nonce := 7, gas := 1, price := 1, type := TRX_TRANSFER, amount := 1 }

/-- block 1: transfer A→C.  Block 2 (both validators voted, no proposer): CheckTx + DeliverTx of C's
    delegation to A, a failing transfer, A withdraws 7 of its reward, C unstakes again.  Restart.
    Block 3: the unbonded stake is refunded.  Block 4: empty.
    (Staking transactions are kept in blocks 1–2 because from block 3 on `lastVals` is a `mergeSort` of a
    non-empty list, which the kernel cannot evaluate; nothing in the theorems depends on that.) -/
def HW : List Op := [
  .begin_ { height := 1, proposer := addrB }, .deliver txTransfer, .end_, .commit,
  .begin_ { height := 2, votes := [{ addr := addrA, power := 10, signed := true }, { addr := addrB, power := 10, signed := true }] },
     .check txDelegate, .deliver txDelegate, .deliver txBad, .deliver txWithdraw, .deliver txUnstake, .end_, .commit,
  .restart,
  .begin_ { height := 3, proposer := addrB }, .end_, .commit,
  .begin_ { height := 4, proposer := addrB }, .end_, .commit]

theorem sane : GenesisSane GW := by decide
theorem phases : phaseRun .idle HW = some .idle := by decide
theorem genesis_total : genesisTotal GW = 25000000000000000100 := by decide +kernel
/-- all side conditions (incl. `UniqueFrozenKeys`) hold, withdrawn rewards never exceed 7 -/
theorem checker : runOK1B 7 (initChain GW) HW = true := by decide +kernel
theorem outcomes : (run (initChain GW) HW).2.filterMap (fun o => o.tx.map (·.kind)) =
    ["ok", "ok", "ok", "nonce", "ok", "ok"] := by decide +kernel
theorem refund_happened : (exec (initChain GW) HW).ghost.refunds = [(hashS, addrC, 1, 3)] := by decide +kernel
theorem final_total : total (exec (initChain GW) HW) = 25000000000000000104 := by decide +kernel
theorem final_ghost : (exec (initChain GW) HW).ghost.withdrawn = 7 ∧ (exec (initChain GW) HW).ghost.feeBurn = 3 := by
  decide +kernel

/-! ### jailing variant of the collision -/

def PJ : Params := { P with signedBlocksWindow := 1, minSignedBlocks := 1 }
def GJ : Genesis := { G with params := PJ }
/-- block 1 empty; in block 2 both genesis validators are reported as not having signed block 1 -/
def HJ : List Op := [.begin_ { height := 1 }, .end_, .commit,
  .begin_ { height := 2, votes := [{ addr := addrA, power := 10, signed := false }, { addr := addrB, power := 10, signed := false }] },
  .end_, .commit]

theorem j_sane : GenesisSane GJ := by decide
theorem j_phases : phaseRun .idle HJ = some .idle := by decide
theorem j_run_ok0 : runOK0 (initChain GJ) HJ = true := by decide +kernel
theorem j_genesis_total : genesisTotal GJ = 20000000000000000200 := by decide +kernel
theorem j_final_total : total (exec (initChain GJ) HJ) = 10000000000000000200 := by decide +kernel
theorem j_burns : slashBurnRun (initChain GJ) HJ = 0 ∧ evmBurnRun (initChain GJ) HJ = 0 ∧
    (exec (initChain GJ) HJ).ghost.feeBurn = 0 ∧ (exec (initChain GJ) HJ).ghost.withdrawn = 0 := by decide +kernel
/-- both validators are gone from the bonded ledger, only B's stake is in the unbonding ledger -/
theorem j_frozen : (exec (initChain GJ) HJ).frozen.fin.toList.map (fun kv => (kv.2.owner, kv.2.power)) = [(addrB, 10)] ∧
    (exec (initChain GJ) HJ).delegs.fin.toList.length = 0 := by decide +kernel

end Rigo.C02.Wit
