import RigoProofs.C05Recv
open Std
set_option linter.unusedSimpArgs false
set_option linter.unusedVariables false
namespace Rigo.C05C
open Rigo

/-! ### a receiver of a wrong length leaves no record (repair 26f8ae4)

Before the repair a failed transaction whose receiver is a *19-byte* address `X` (it fails the
address-length check, but `NewTrxContext` had already run `FindOrNewAccount(X)`) left a record with
address `X` under the ledger key `X‖00…`.  The 20-byte address `X‖00` has the same ledger key, so a later
transfer to `X‖00` credited that record — whose address field stayed the 19-byte `X` — whereas without
the failed transaction the record is created with address `X‖00`: the unrestricted statement
`failed_tx_invisible_statement` was false in the old model (witness: `gX`, `txShort`, `txLong` below).

With the repair the receiver record is found-or-created only for a 20-byte receiver.  The facts below
replace the old witness: the same genesis and transactions now behave as the statement demands, and a
delivery with a receiver of a wrong length is invisible to EVERY later delivery, unconditionally. -/

/- The general fact is `wrong_length_receiver_invisible` (RigoProofs/C05Recv.lean): a delivery whose
   receiver is not 20 bytes long returns the state it was given, so every later delivery behaves exactly
   (same state, same answer) as if it had never been delivered — without any hypothesis. -/

def gX : Genesis :=
  { chainId := "t", params := { (default : Params) with gasPrice := 10, minTrxGas := 1 },
    holders := [("aa00000000000000000000000000000000000001", 1000)], vals := [] }
def sX : St := exec (initChain gX) [.begin_ { height := 1 }]
/-- 19 bytes -/
def x19 : Hex := "dd000000000000000000000000000000000000"
/-- the 20-byte address `x19 ‖ 00` -/
def x20 : Hex := "dd00000000000000000000000000000000000000"
/-- fails: receiver address is not 20 bytes long -/
def txShort : TxIn :=
  { sigOk := true, from_ := "aa00000000000000000000000000000000000001", to := x19,
    amount := 5, gas := 2, price := 10, type := TRX_TRANSFER }
/-- an ordinary transfer to the 20-byte address -/
def txLong : TxIn :=
  { sigOk := true, from_ := "aa00000000000000000000000000000000000001", to := x20,
    amount := 5, gas := 2, price := 10, type := TRX_TRANSFER }

/-- The old witness, evaluated in the repaired model: the failed transfer to the 19-byte receiver leaves
    no record under the (shared) ledger key, and the later transfer to the 20-byte address stores the
    account with the 20-byte address — with or without the failed transaction before it. -/
theorem wrong_length_receiver_leaves_no_record :
    x19.length = 38 ∧ x20.length = 40 ∧ ledgerKey x19 = ledgerKey x20 ∧
    ((deliverTx sX txShort).2.tx.map fun t => (t.code, t.kind)) = some (5, "address") ∧
    (deliverTx sX txShort).1.accts.fin[ledgerKey x19]? = none ∧
    ((deliverTx sX txLong).2.tx.map fun t => (t.code, t.kind)) = some (0, "ok") ∧
    ((deliverTx (deliverTx sX txShort).1 txLong).2.tx.map fun t => (t.code, t.kind)) = some (0, "ok") ∧
    (deliverTx sX txLong).1.accts.fin[ledgerKey x20]? = some { addr := x20, bal := 5 } ∧
    (deliverTx (deliverTx sX txShort).1 txLong).1.accts.fin[ledgerKey x20]? = some { addr := x20, bal := 5 } := by
  decide +kernel

/-- the old counter-example to `failed_tx_invisible_statement` is gone: on the old witness the later
    transfer answers the same code and ends in an observably equal (indeed the same) state -/
theorem old_collision_witness_gone :
    ((deliverTx (deliverTx sX txShort).1 txLong).2.tx.map (·.code)) = ((deliverTx sX txLong).2.tx.map (·.code)) ∧
    obs (deliverTx (deliverTx sX txShort).1 txLong).1 = obs (deliverTx sX txLong).1 := by
  have hl : byteLen txShort.to ≠ 20 := by decide
  rw [wrong_length_receiver_invisible sX txShort hl txLong]
  exact ⟨rfl, rfl⟩

/-! ### other wrong lengths

The old model had the same collision for every receiver `X ≠ Y` with `ledgerKey X = ledgerKey Y`: `Y`
with trailing zero bytes removed, `Y` followed by up to 12 zero bytes, and (truncation to 32 bytes)
`Y ‖ 00¹² ‖ anything`.  None of them gets a record any more. -/

/-- 21 bytes: `x20 ‖ 00` -/
def x21 : Hex := "dd0000000000000000000000000000000000000000"
/-- 33 bytes: `x20 ‖ 00¹² ‖ ff` (the 33rd byte is cut off by the ledger key) -/
def x33 : Hex := "dd00000000000000000000000000000000000000000000000000000000000000ff"

def tx21 : TxIn :=
  { sigOk := true, from_ := "aa00000000000000000000000000000000000001", to := x21,
    amount := 5, gas := 2, price := 10, type := TRX_TRANSFER }
def tx33 : TxIn :=
  { sigOk := true, from_ := "aa00000000000000000000000000000000000001", to := x33,
    amount := 5, gas := 2, price := 10, type := TRX_TRANSFER }

theorem other_wrong_lengths_leave_no_record :
    x21.length = 42 ∧ x33.length = 66 ∧ ledgerKey x21 = ledgerKey x20 ∧ ledgerKey x33 = ledgerKey x20 ∧
    ((deliverTx sX tx21).2.tx.map fun t => (t.code, t.kind)) = some (5, "address") ∧
    ((deliverTx sX tx33).2.tx.map fun t => (t.code, t.kind)) = some (5, "address") ∧
    (deliverTx sX tx21).1.accts.fin[ledgerKey x20]? = none ∧
    (deliverTx sX tx33).1.accts.fin[ledgerKey x20]? = none ∧
    (deliverTx (deliverTx sX tx21).1 txLong).1.accts.fin[ledgerKey x20]?
      = some { addr := x20, bal := 5 } ∧
    (deliverTx (deliverTx sX tx33).1 txLong).1.accts.fin[ledgerKey x20]?
      = some { addr := x20, bal := 5 } := by
  decide +kernel

/-- the committed state (what the account query reads) agrees as well: after `end`/`commit` of block 1 the
    record under the key of `x20` carries the 20-byte address, with or without the failed transaction -/
theorem committed_record_has_20_byte_address :
    (exec (deliverTx (deliverTx sX txShort).1 txLong).1 [.end_, .commit]).accts.committed[ledgerKey x20]?
      = some { addr := x20, bal := 5 } ∧
    (exec (deliverTx sX txLong).1 [.end_, .commit]).accts.committed[ledgerKey x20]?
      = some { addr := x20, bal := 5 } := by
  decide +kernel

end Rigo.C05C
