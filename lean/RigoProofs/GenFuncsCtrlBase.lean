/-
  Round 3, the controllers' stateful functions: common definitions.

  The generated functions work on the Go controllers (`Rigo.Gen.GovCtrler`, `StakeCtrler`, `AcctCtrler`:
  generated structures whose ledger fields are `GLedger V`, the caller's view of a finality ledger) and
  on the transaction context `TrxContext`.  The theorems relate them to the model's application state
  `St` through

  * `ledOf f l`     : the `GLedger` of a model ledger `l : Led V` (items seen through `f`, e.g. `propOf`);
                      `ledOf_set / ledOf_del` show that the prelude's `GLedger.set / del` (written
                      independently of the model) are the model's `Led.set / Led.del`;
  * `govCtrlOf s`, `acctCtrlOf s`, `StakeRel c s` : the controllers of a model state;
  * `OutcomeIs g lab r` : outcome for outcome, a generated `(.., error)` result against the model's `Step`.
-/
import RigoProofs.GenFuncsTx
import RigoProofs.GenFuncsGovBase
import RigoProofs.GenFuncsLimiter2

set_option linter.unusedSimpArgs false

namespace Rigo.GenEq
open Rigo Rigo.Gen

/-! ### ledgers -/

/-- the controllers' view of a model ledger; `f` maps the model's item to the Go item -/
def ledOf {V W : Type} (f : V → W) (l : Led V) : GLedger W :=
  { get := fun e k => (l.get e k).map f
    uncached := fun _ k => (l.committed[k]?).map f
    items := l.committed.toList.map (fun kv => f kv.2) }

@[simp] theorem ledOf_get {V W : Type} (f : V → W) (l : Led V) (e : Bool) (k : String) :
    (ledOf f l).get e k = (l.get e k).map f := rfl

@[simp] theorem ledOf_items {V W : Type} (f : V → W) (l : Led V) :
    (ledOf f l).items = l.committed.toList.map (fun kv => f kv.2) := rfl

theorem GLedger.ext' {V : Type} (a b : GLedger V) (h1 : a.get = b.get) (h2 : a.uncached = b.uncached)
    (h3 : a.items = b.items) : a = b := by
  cases a; cases b; simp_all

theorem Led.committed_set {V : Type} (l : Led V) (e : Bool) (k : String) (v : V) :
    (l.set e k v).committed = l.committed := by
  unfold Led.set Led.committed; cases e <;> rfl

theorem Led.committed_del {V : Type} (l : Led V) (e : Bool) (k : String) :
    (l.del e k).committed = l.committed := by
  unfold Led.del Led.committed; cases e <;> rfl

theorem Led.get_set {V : Type} (l : Led V) (e e' : Bool) (k k' : String) (v : V) :
    (l.set e k v).get e' k' = if e' = e ∧ k' = k then some v else l.get e' k' := by
  unfold Led.set Led.get
  cases e <;> cases e' <;> simp <;> grind

theorem Led.get_del {V : Type} (l : Led V) (e e' : Bool) (k k' : String) :
    (l.del e k).get e' k' = if k' = k ∧ (e = true ∨ e' = false) then none else l.get e' k' := by
  unfold Led.del Led.get
  cases e <;> cases e' <;> simp <;> grind

/-- `GLedger.set` of the generated prelude is the model's `Led.set` -/
theorem ledOf_set {V W : Type} (f : V → W) (l : Led V) (e : Bool) (k : String) (v : V) :
    (ledOf f l).set e k (f v) = ledOf f (l.set e k v) := by
  apply GLedger.ext'
  · funext e' k'
    simp only [GLedger.set, ledOf_get, Led.get_set]
    split <;> simp
  · simp only [GLedger.set, ledOf, Led.committed_set]
  · simp only [GLedger.set, ledOf, Led.committed_set]

/-- `GLedger.del` of the generated prelude is the model's `Led.del` (`DelFinality` also removes the
    key from the mempool view) -/
theorem ledOf_del {V W : Type} (f : V → W) (l : Led V) (e : Bool) (k : String) :
    (ledOf f l).del e k = ledOf f (l.del e k) := by
  apply GLedger.ext'
  · funext e' k'
    simp only [GLedger.del, ledOf_get, Led.get_del]
    split <;> simp
  · simp only [GLedger.del, ledOf, Led.committed_del]
  · simp only [GLedger.del, ledOf, Led.committed_del]

@[simp] theorem gnotFound_none {α : Type} : gnotFound (none : Option α) = some "ErrNotFoundResult" := rfl
@[simp] theorem gnotFound_some {α : Type} (a : α) : gnotFound (some a) = none := rfl

/-! ### keys -/

@[simp] theorem toLedgerKey_eq (h : Hex) : toLedgerKey h = ledgerKey h := rfl
@[simp] theorem hexArray32_eq (h : Hex) : hexArray32 h = ledgerKey h := rfl

theorem Delegatee_Key_eq (d : Delegatee) : Delegatee_Key d = .ok (ledgerKey d.addr) := rfl
theorem Stake_Key_eq (st : Stake) : Stake_Key st = .ok (ledgerKey st.hash) := rfl
theorem Reward_Key_eq (r : Reward) : Reward_Key r = .ok (ledgerKey r.addr) := rfl
theorem Account_Key_eq (a : Account) : Account_Key a = .ok (ledgerKey a.addr) := rfl
theorem GovProposal_Key_eq (p : Proposal) : GovProposal_Key (propOf p) = .ok (ledgerKey p.hash) := rfl

/-! ### controllers and contexts of a model state -/

/-- the governance controller of a model state -/
def govCtrlOf (s : St) : GovCtrler :=
  { params := s.active
    paramsLedger := ledOf id s.params
    proposalLedger := ledOf propOf s.props
    frozenLedger := ledOf propOf s.fprops }

/-- the account controller of a model state -/
def acctCtrlOf (s : St) : AcctCtrler := { acctLedger := ledOf id s.accts }

/-- the Go stake controller `c` holds the stake part of the model state `s`
    (the limiter through `toLimiter`, as in round 2) -/
structure StakeRel (c : StakeCtrler) (s : St) : Prop where
  all : c.allDelegatees = s.allDelegs
  last : c.lastValidators = s.lastVals
  delegs : c.delegateeLedger = ledOf id s.delegs
  frozen : c.frozenLedger = ledOf id s.frozen
  rewards : c.rewardLedger = ledOf id s.rewards
  limiter : toLimiter c.stakeLimiter = s.limiter

/-- a stake controller of a model state, given the Go limiter object -/
def stakeCtrlOf (s : St) (sl : StakeLimiter) : StakeCtrler :=
  { allDelegatees := s.allDelegs, lastValidators := s.lastVals, delegateeLedger := ledOf id s.delegs,
    frozenLedger := ledOf id s.frozen, rewardLedger := ledOf id s.rewards, stakeLimiter := sl }

theorem stakeRel_of (s : St) (sl : StakeLimiter) (h : toLimiter sl = s.limiter) : StakeRel (stakeCtrlOf s sl) s :=
  ⟨rfl, rfl, rfl, rfl, rfl, h⟩

/-- the transaction context the executor builds for `tx` on the given path -/
def ctxOf (s : St) (exec : Bool) (height : Int) (tx : TxIn) (sender receiver : Account) : TrxContext :=
  { height := height, txHash := tx.hash, tx := trxOf tx, exec := exec,
    senderPubKey := if exec then tx.pub else "", sender := sender, receiver := receiver,
    gasUsed := 0, chainId := s.chainId }

/-! ### outcomes -/

/-- the error a generated function returns for the model's verdict: none on success, the Go error
    label of the failure kind (`lab`) otherwise; a panic of the model has no error value -/
def errOf {α : Type} (lab : String → Option String) : Step α → Option String
  | .ok _ => none
  | .error (.err k) => lab k
  | .error (.panic _) => none

/-- even number of hex digits (a byte string) -/
def EvenHex (h : Hex) : Prop := h.length % 2 = 0
instance (h : Hex) : Decidable (EvenHex h) := by unfold EvenHex; infer_instance

end Rigo.GenEq
