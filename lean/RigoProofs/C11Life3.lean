/-
  C11/C12 helpers (7): `Life` across EndBlock (refunds), Commit and restart; the step theorem and its
  lift to well-phased histories with unique stake keys.
-/
import RigoProofs.C11Life2

namespace Rigo
open Delegatee

/-! ### what `unfreezeFold` does -/

def due (ht : Int) (x : String × Stake) : Bool := decide (x.2.refund ≤ ht)

theorem unfreezeFold_refunds (l : List (String × Stake)) (ht : Int) (c : Core) :
    (unfreezeFold l ht c).refunds = c.refunds ++ (l.filter (due ht)).map (fun x => refundEntry x.2 ht) := by
  unfold unfreezeFold
  induction l generalizing c with
  | nil => simp
  | cons x l ih =>
    simp only [List.foldl_cons]
    rw [ih]
    by_cases hd : x.2.refund ≤ ht
    · simp [hd, due]
    · simp [hd, due]

theorem unfreezeFold_ffin (l : List (String × Stake)) (ht : Int) (c : Core) (k : String) :
    (unfreezeFold l ht c).ffin[k]? =
      if (∃ x ∈ l, due ht x = true ∧ skey x.2 = k) then none else c.ffin[k]? := by
  unfold unfreezeFold
  induction l generalizing c with
  | nil => simp
  | cons x l ih =>
    simp only [List.foldl_cons]
    rw [ih]
    by_cases hd : x.2.refund ≤ ht
    · simp only [hd, if_true]
      by_cases hk : skey x.2 = k
      · have : ∃ y ∈ x :: l, due ht y = true ∧ skey y.2 = k := ⟨x, by simp, by simp [due, hd], hk⟩
        rw [if_pos this]
        split
        · rfl
        · rw [Std.ExtTreeMap.getElem?_erase]; simp [show ledgerKey x.2.hash = k from hk]
      · have : (∃ y ∈ x :: l, due ht y = true ∧ skey y.2 = k) ↔ (∃ y ∈ l, due ht y = true ∧ skey y.2 = k) := by
          constructor
          · rintro ⟨y, hy, h1, h2⟩
            simp only [List.mem_cons] at hy
            rcases hy with rfl | hy
            · exact absurd h2 hk
            · exact ⟨y, hy, h1, h2⟩
          · rintro ⟨y, hy, h1, h2⟩; exact ⟨y, by simp [hy], h1, h2⟩
        simp only [this]
        split
        · rfl
        · rw [Std.ExtTreeMap.getElem?_erase]; simp [show ¬ ledgerKey x.2.hash = k from hk]
    · have : (∃ y ∈ x :: l, due ht y = true ∧ skey y.2 = k) ↔ (∃ y ∈ l, due ht y = true ∧ skey y.2 = k) := by
        constructor
        · rintro ⟨y, hy, h1, h2⟩
          simp only [List.mem_cons] at hy
          rcases hy with rfl | hy
          · simp [due, hd] at h1
          · exact ⟨y, hy, h1, h2⟩
        · rintro ⟨y, hy, h1, h2⟩; exact ⟨y, by simp [hy], h1, h2⟩
      simp only [hd, if_false, this]

/-- among entries with pairwise distinct map keys that are stored under their own stake key, at most
    one carries a given key -/
theorem count_key_le_one (l : List (String × Stake)) (ht : Int) (k : String)
    (hp : l.Pairwise (fun a b => a.1 ≠ b.1)) (hk : ∀ x ∈ l, x.1 = skey x.2) :
    (((l.filter (due ht)).map (fun x => refundEntry x.2 ht)).filter (fun e => ledgerKey e.1 == k)).length ≤ 1 ∧
    ((((l.filter (due ht)).map (fun x => refundEntry x.2 ht)).filter (fun e => ledgerKey e.1 == k)).length ≠ 0 →
      ∃ x ∈ l, due ht x = true ∧ skey x.2 = k) := by
  induction l with
  | nil => simp
  | cons x l ih =>
    obtain ⟨hx, hp'⟩ := List.pairwise_cons.mp hp
    obtain ⟨ih1, ih2⟩ := ih hp' (fun y hy => hk y (by simp [hy]))
    by_cases hd : due ht x = true
    · by_cases hkx : skey x.2 = k
      · -- the rest has no entry with this key
        have hzero : (((l.filter (due ht)).map (fun x => refundEntry x.2 ht)).filter (fun e => ledgerKey e.1 == k)).length = 0 := by
          apply Classical.byContradiction
          intro hne
          obtain ⟨y, hy, _, hyk⟩ := ih2 hne
          have h1 := hk x (by simp)
          have h2 := hk y (by simp [hy])
          exact hx y hy (by rw [h1, h2, hkx, hyk])
        refine ⟨?_, fun _ => ⟨x, by simp, hd, hkx⟩⟩
        simp only [List.filter_cons, hd, if_true, List.map_cons, refundEntry]
        have : (ledgerKey x.2.hash == k) = true := by simpa [skey] using hkx
        simp only [this, if_true, List.length_cons]
        simp only [refundEntry] at hzero
        omega
      · have : (ledgerKey x.2.hash == k) = false := by simpa [skey] using hkx
        simp only [List.filter_cons, hd, if_true, List.map_cons, refundEntry, this]
        refine ⟨ih1, fun hne => ?_⟩
        obtain ⟨y, hy, h1, h2⟩ := ih2 hne
        exact ⟨y, by simp [hy], h1, h2⟩
    · simp only [List.filter_cons, hd]
      refine ⟨ih1, fun hne => ?_⟩
      obtain ⟨y, hy, h1, h2⟩ := ih2 hne
      exact ⟨y, by simp [hy], h1, h2⟩

theorem logCount_zero {c : Core} {k : String} (h : ¬ Logged c k) : logCount c k = 0 := by
  unfold logCount
  rw [List.length_eq_zero_iff, List.filter_eq_nil_iff]
  intro e he hk
  exact h ⟨e, he, by simpa using hk⟩

theorem fcommitted_ok {c : Core} (hf : FrozenOK c) : FrozenMapOK c.fcommitted := by
  unfold Core.fcommitted
  cases hl : c.fhist.getLast? with
  | none => exact FrozenMapOK.empty
  | some m => exact hf.2 m (List.mem_of_getLast? hl)

theorem toList_facts {m : KMap Stake} (hm : FrozenMapOK m) :
    m.toList.Pairwise (fun a b => a.1 ≠ b.1) ∧ (∀ x ∈ m.toList, x.1 = skey x.2) ∧
    (∀ x ∈ m.toList, m[x.1]? = some x.2) := by
  refine ⟨?_, ?_, ?_⟩
  · have := Std.ExtTreeMap.distinct_keys_toList (t := m)
    refine this.imp ?_
    intro a b hab he
    exact hab (by rw [he]; simp)
  · intro x hx
    exact hm x.1 x.2 (Std.ExtTreeMap.mem_toList_iff_getElem?_eq_some.mp hx)
  · intro x hx
    exact Std.ExtTreeMap.mem_toList_iff_getElem?_eq_some.mp hx

/-! ### EndBlock -/

theorem Life.unfreeze {U : List String} {c : Core} (h : Life U .inBlock c) (hf : FrozenOK c) (ht : Int)
    (hh : c.height ≠ none) : Life U .ended (unfreezeCore c ht) := by
  obtain ⟨hpw, hkeys, hget⟩ := toList_facts (fcommitted_ok hf)
  obtain ⟨f1, f2, f3, f4, f5, f6⟩ := unfreezeFold_frame c.fcommitted.toList ht c
  have hff := unfreezeFold_ffin c.fcommitted.toList ht c
  have hrf := unfreezeFold_refunds c.fcommitted.toList ht c
  -- a due committed entry with a non-zero key is still in the consensus view, hence not yet logged
  have hdue : ∀ x ∈ c.fcommitted.toList, skey x.2 ≠ zeroKey → c.ffin[skey x.2]? = some x.2 := by
    intro x hx hz
    have := hget x hx
    rw [hkeys x hx] at this
    exact h.inblock rfl _ _ hz this
  have bkeq : ∀ k, BondedKey (unfreezeCore c ht) k ↔ BondedKey c k := by
    intro k; unfold BondedKey unfreezeCore; rw [f1]
  have lg : ∀ k, Logged (unfreezeCore c ht) k ↔ (Logged c k ∨ ∃ x ∈ c.fcommitted.toList, due ht x = true ∧ skey x.2 = k) := by
    intro k
    unfold Logged unfreezeCore
    rw [hrf]
    constructor
    · rintro ⟨e, he, hk⟩
      simp only [List.mem_append, List.mem_map, List.mem_filter] at he
      rcases he with he | ⟨x, ⟨hx, hd⟩, rfl⟩
      · exact Or.inl ⟨e, he, hk⟩
      · exact Or.inr ⟨x, hx, hd, hk⟩
    · rintro (⟨e, he, hk⟩ | ⟨x, hx, hd, hk⟩)
      · exact ⟨e, by simp [he], hk⟩
      · exact ⟨refundEntry x.2 ht, by simp only [List.mem_append, List.mem_map, List.mem_filter]; exact Or.inr ⟨x, ⟨hx, hd⟩, rfl⟩, hk⟩
  have ffnone : ∀ k : String, c.ffin[k]? = none → (unfreezeCore c ht).ffin[k]? = none := by
    intro k hk; unfold unfreezeCore; rw [hff]; split <;> simp [hk]
  have ffsome : ∀ k : String, (unfreezeCore c ht).ffin[k]? ≠ none → c.ffin[k]? ≠ none := fun k hk hn => hk (ffnone k hn)
  refine ⟨?_, ?_, ?_, ?_, ?_, ?_, ?_, ?_, ?_⟩
  · intro k hk hp
    rcases hp with hp | hp | hp
    · exact h.used k hk (Or.inl ((bkeq k).mp hp))
    · exact h.used k hk (Or.inr (Or.inl (ffsome k hp)))
    · rcases (lg k).mp hp with hp | ⟨x, hx, _, rfl⟩
      · exact h.used k hk (Or.inr (Or.inr hp))
      · exact h.used _ hk (Or.inr (Or.inl (by rw [hdue x hx hk]; simp)))
  · intro kd d hd; exact h.nodup kd d (by unfold unfreezeCore at hd; rw [f1] at hd; exact hd)
  · intro k1 k2 d1 d2 st1 st2 h1 h2
    unfold unfreezeCore at h1 h2; rw [f1] at h1 h2
    exact h.across k1 k2 d1 d2 st1 st2 h1 h2
  · intro kd d st h1 h2 hz
    unfold unfreezeCore at h1; rw [f1] at h1
    exact ffnone _ (h.excl kd d st h1 h2 hz)
  · intro k hk
    obtain ⟨c1, c2⟩ := count_key_le_one c.fcommitted.toList ht k hpw hkeys
    unfold logCount unfreezeCore
    rw [hrf, List.filter_append, List.length_append]
    by_cases hz : (((c.fcommitted.toList.filter (due ht)).map (fun x => refundEntry x.2 ht)).filter (fun e => ledgerKey e.1 == k)).length = 0
    · have := h.once k hk; unfold logCount at this; omega
    · obtain ⟨x, hx, _, rfl⟩ := c2 hz
      have hin := hdue x hx hk
      have hnl : ¬ Logged c (skey x.2) := by
        intro hl; have := (h.gone _ hk hl).2; rw [hin] at this; cases this
      have := logCount_zero hnl; unfold logCount at this; omega
  · intro k hk hl
    rcases (lg k).mp hl with hl | ⟨x, hx, hd, rfl⟩
    · obtain ⟨g1, g2⟩ := h.gone k hk hl
      exact ⟨fun hb => g1 ((bkeq k).mp hb), ffnone k g2⟩
    · have hin := hdue x hx hk
      refine ⟨?_, ?_⟩
      · rintro hb
        obtain ⟨kd, d, st, h1, h2, h3⟩ := (bkeq _).mp hb
        have := h.excl kd d st h1 h2 (by rw [h3]; exact hk)
        rw [h3, hin] at this; cases this
      · unfold unfreezeCore; rw [hff, if_pos ⟨x, hx, hd, rfl⟩]
  · intro hn; unfold unfreezeCore at hn; rw [f5] at hn; exact absurd hn hh
  · intro hp; cases hp
  · intro hp; cases hp

/-! ### Commit, restart, no-ops -/

theorem Life.commit {U : List String} {p : Phase} {c : Core} (h : Life U p c) (act : Params) (ht : Int) :
    Life U .idle { c with dhist := c.dhist ++ [c.dfin], fhist := c.fhist ++ [c.ffin], active := act,
                          height := none, lastHeight := ht } :=
  { used := h.used, nodup := h.nodup, across := h.across, excl := h.excl, once := h.once, gone := h.gone,
    boundary := fun _ => ⟨by simp [Core.fcommitted], Or.inl (by simp [Core.dcommitted])⟩,
    idle := fun _ => rfl,
    inblock := fun hp => by cases hp }

theorem Life.restart {U : List String} {c : Core} (h : Life U .idle c) (act : Params) :
    Life U .idle { c with dfin := c.dcommitted, ffin := c.fcommitted, active := act, height := none } := by
  obtain ⟨b1, b2⟩ := h.boundary (h.idle rfl)
  rcases b2 with b2 | b2
  · have e : ({ c with dfin := c.dcommitted, ffin := c.fcommitted, active := act, height := none } : Core) =
        { c with active := act, height := none } := by rw [← b1, ← b2]
    rw [e]
    exact { used := h.used, nodup := h.nodup, across := h.across, excl := h.excl, once := h.once, gone := h.gone,
            boundary := fun _ => ⟨b1, Or.inl b2⟩, idle := fun _ => rfl, inblock := fun hp => by cases hp }
  · have e0 : c.dcommitted = {} := by simp [Core.dcommitted, b2]
    have nb : ∀ k, ¬ BondedKey { c with dfin := c.dcommitted, ffin := c.fcommitted, active := act, height := none } k := by
      rintro k ⟨kd, d, st, h1, _⟩
      dsimp only at h1; rw [e0] at h1; simp at h1
    refine ⟨?_, ?_, ?_, ?_, h.once, ?_, fun _ => ⟨rfl, Or.inl rfl⟩, fun _ => rfl, fun hp => by cases hp⟩
    · intro k hk hp
      rcases hp with hp | hp | hp
      · exact absurd hp (nb k)
      · exact h.used k hk (Or.inr (Or.inl (by rw [b1]; exact hp)))
      · exact h.used k hk (Or.inr (Or.inr hp))
    · intro kd d h1; dsimp only at h1; rw [e0] at h1; simp at h1
    · intro k1 k2 d1 d2 st1 st2 h1; dsimp only at h1; rw [e0] at h1; simp at h1
    · intro kd d st h1; dsimp only at h1; rw [e0] at h1; simp at h1
    · intro k hk hl
      exact ⟨nb k, by have := (h.gone k hk hl).2; rw [b1] at this; exact this⟩

theorem Life.same {U : List String} {p p' : Phase} {op : Op} {c : Core} (h : Life U p c)
    (hph : phaseStep p op = some p') (hc : op = .commit → c.height = none) : Life U p' c := by
  have mk : (p' = .idle → c.height = none) →
      (p' = .inBlock → ∀ (k : String) (st : Stake), k ≠ zeroKey → c.fcommitted[k]? = some st → c.ffin[k]? = some st) →
      Life U p' c := fun h1 h2 =>
    { used := h.used, nodup := h.nodup, across := h.across, excl := h.excl, once := h.once, gone := h.gone,
      boundary := h.boundary, idle := h1, inblock := h2 }
  cases p <;> cases op <;> simp only [phaseStep, Option.some.injEq, reduceCtorEq] at hph <;> subst hph
  -- idle, begin_
  · refine mk (fun hp => by cases hp) (fun _ k st _ hk => ?_)
    rw [(h.boundary (h.idle rfl)).1]; exact hk
  -- idle, check
  · exact h
  -- idle, restart
  · exact h
  -- inBlock, deliver
  · exact h
  -- inBlock, check
  · exact h
  -- inBlock, end_
  · exact mk (fun hp => by cases hp) (fun hp => by cases hp)
  -- ended, check
  · exact h
  -- ended, commit
  · exact mk (fun _ => hc rfl) (fun hp => by cases hp)

/-! ### the step theorem -/

theorem OpCore.life {U : List String} {nk : List Hex} {op : Op} {p p' : Phase} {c c' : Core}
    (hop : OpCore nk op c c') (hl : Life U p c) (hd : DelegsOK c) (hf : FrozenOK c)
    (hph : phaseStep p op = some p') (hx : op.HexOK)
    (hfresh : ∀ x ∈ nk, ledgerKey x ∉ U ∧ ledgerKey x ≠ zeroKey) : Life (U ++ nk.map ledgerKey) p' c' := by
  have hmono : ∀ k ∈ U, k ∈ U ++ nk.map ledgerKey := fun k hk => List.mem_append_left _ hk
  cases hop with
  | same _ _ hc => exact (hl.same hph hc).mono hmono
  | begin_ h _ _ hht hs =>
    have hp : p = .idle ∧ p' = .inBlock := by
      cases p <;> simp [phaseStep] at hph <;> simp [hph]
    obtain ⟨rfl, rfl⟩ := hp
    have h0 : Life U .inBlock { c with height := some h.height } :=
      { used := hl.used, nodup := hl.nodup, across := hl.across, excl := hl.excl, once := hl.once, gone := hl.gone,
        boundary := fun hn => (by cases hn), idle := fun hp => (by cases hp),
        inblock := fun _ k st _ hk => (by
          show c.ffin[k]? = some st
          rw [(hl.boundary (hl.idle rfl)).1]; exact hk) }
    have := Steps.inv (P := fun c => Life U .inBlock c ∧ c.height ≠ none ∧ DelegsOK c)
      (fun a b hab ⟨h1, h2, h3⟩ => ⟨(hab.life h1 h2 h3).1, (hab.life h1 h2 h3).2, hab.delegsOK h3⟩) hs
      ⟨h0, by simp, hd⟩
    exact this.1.mono hmono
  | stake tx _ ht d power hh hty hsig hto htgt hp hin =>
    have hp2 : p = .inBlock ∧ p' = .inBlock := by
      cases p <;> simp [phaseStep] at hph <;> simp [hph]
    obtain ⟨rfl, rfl⟩ := hp2
    obtain ⟨f1, f2⟩ := hfresh _ hin
    refine (hl.stake hd tx ht d power (by rw [hh]; simp) htgt f1 f2).mono ?_
    intro k hk
    simp only [List.mem_append, List.mem_singleton] at hk
    rcases hk with hk | rfl
    · exact hmono k hk
    · exact List.mem_append_right _ (List.mem_map_of_mem hin)
  | unstake tx _ ht d hash st hh hty hsig hpay hdK hst hown =>
    have hp2 : p = .inBlock ∧ p' = .inBlock := by
      cases p <;> simp [phaseStep] at hph <;> simp [hph]
    obtain ⟨rfl, rfl⟩ := hp2
    exact (hl.unstake hd (by rw [hh]; simp) _ d st hash ht hdK hst).mono hmono
  | end_ _ ht hh =>
    have hp2 : p = .inBlock ∧ p' = .ended := by
      cases p <;> simp [phaseStep] at hph <;> simp [hph]
    obtain ⟨rfl, rfl⟩ := hp2
    exact (hl.unfreeze hf ht (by rw [hh]; simp)).mono hmono
  | commit _ ht act hh =>
    have hp2 : p' = .idle := by
      cases p <;> simp [phaseStep] at hph <;> simp [hph]
    subst hp2
    exact (hl.commit act ht).mono hmono
  | restart _ act =>
    have hp2 : p = .idle ∧ p' = .idle := by
      cases p <;> simp [phaseStep] at hph <;> simp [hph]
    obtain ⟨rfl, rfl⟩ := hp2
    exact (hl.restart act).mono hmono

/-! ### histories -/

/-- hashes of the stakes created along a history started in `s` -/
def stakedLog (s : St) : List Op → List Hex
  | [] => []
  | op :: ops => stakedBy s op ++ stakedLog (step s op).1 ops

theorem stakedLog_append (s : St) (a b : List Op) :
    stakedLog s (a ++ b) = stakedLog s a ++ stakedLog (exec s a) b := by
  induction a generalizing s with
  | nil => simp [stakedLog, exec_nil]
  | cons op a ih => simp [stakedLog, ih, exec_cons]

theorem stakedLog_snoc (s : St) (a : List Op) (op : Op) :
    stakedLog s (a ++ [op]) = stakedLog s a ++ stakedBy (exec s a) op := by
  rw [stakedLog_append]; simp [stakedLog]

theorem phaseRun_snoc (p : Phase) (a : List Op) (op : Op) :
    phaseRun p (a ++ [op]) = (phaseRun p a).bind (fun q => phaseStep q op) := by
  induction a generalizing p with
  | nil => simp [phaseRun]; cases phaseStep p op <;> rfl
  | cons x a ih =>
    simp only [List.cons_append, phaseRun]
    cases phaseStep p x with
    | none => rfl
    | some q => exact ih q

/-- ledger keys of the stakes created along a history from genesis -/
def usedKeys (g : Genesis) (ops : List Op) : List String := (stakedLog (initChain g) ops).map ledgerKey

/-- the successful staking transactions of the history have pairwise distinct 32-byte hashes, none
    of them the all-zero hash of the genesis stakes (an assumption about SHA-256 and Tendermint's
    duplicate-transaction handling) -/
def UniqueStakeKeys (g : Genesis) (ops : List Op) : Prop := (zeroKey :: usedKeys g ops).Nodup

instance (g : Genesis) (ops : List Op) : Decidable (UniqueStakeKeys g ops) := by
  unfold UniqueStakeKeys; infer_instance

theorem genesis_dfin_values (g : Genesis) :
    ∀ (k : String) (d : Delegatee), (genesisCore g).dfin[k]? = some d → ∃ v ∈ g.vals, d = genesisDeleg v := by
  simp only [genesisCore]
  have : ∀ (l : List (Hex × Hex × Int)) (m : KMap Delegatee),
      (∀ (k : String) (d : Delegatee), m[k]? = some d → ∃ v ∈ g.vals, d = genesisDeleg v) → (∀ v ∈ l, v ∈ g.vals) →
      ∀ (k : String) (d : Delegatee), (l.foldl (fun m v => m.insert (ledgerKey v.2.1) (genesisDeleg v)) m)[k]? = some d →
        ∃ v ∈ g.vals, d = genesisDeleg v := by
    intro l
    induction l with
    | nil => intro m hm _; exact hm
    | cons v l ih =>
      intro m hm hl
      simp only [List.foldl_cons]
      apply ih _ _ (fun w hw => hl w (by simp [hw]))
      intro k d hk
      rw [Std.ExtTreeMap.getElem?_insert] at hk
      by_cases e : ledgerKey v.2.1 = k
      · simp [e] at hk; exact ⟨v, hl v (by simp), hk.symm⟩
      · simp [e] at hk; exact hm k d hk
  exact this g.vals {} (by intro k d h; simp at h) (fun v hv => hv)

theorem genesis_life (g : Genesis) : Life [] .idle (genesisCore g) := by
  have hz : ∀ (k : String) (d : Delegatee) (st : Stake), (genesisCore g).dfin[k]? = some d → st ∈ d.stakes → skey st = zeroKey := by
    intro k d st hk hst
    obtain ⟨v, _, rfl⟩ := genesis_dfin_values g k d hk
    simp [genesisDeleg, Delegatee.addStake] at hst
    subst hst; rfl
  have nl : ∀ k, ¬ Logged (genesisCore g) k := by rintro k ⟨e, he, _⟩; simp [genesisCore] at he
  have ff : ∀ k : String, (genesisCore g).ffin[k]? = none := by intro k; simp [genesisCore]
  refine ⟨?_, ?_, ?_, ?_, ?_, ?_, ?_, ?_, ?_⟩
  · intro k hk hp
    rcases hp with ⟨kd, d, st, h1, h2, h3⟩ | hp | hp
    · exact absurd (h3 ▸ hz kd d st h1 h2) hk
    · exact absurd (ff k) hp
    · exact absurd hp (nl k)
  · intro kd d hd
    have : (d.stakes.map skey).filter (fun k => decide (k ≠ zeroKey)) = [] := by
      rw [List.filter_eq_nil_iff]
      intro k hk
      simp only [List.mem_map] at hk
      obtain ⟨st, hst, rfl⟩ := hk
      simp [hz kd d st hd hst]
    rw [this]; exact List.nodup_nil
  · intro k1 k2 d1 d2 st1 st2 h1 _ m1 _ _ hne
    exact absurd (hz k1 d1 st1 h1 m1) hne
  · intro kd d st _ _ _; exact ff _
  · intro k _; simp [logCount, genesisCore]
  · intro k _ hl; exact absurd hl (nl k)
  · intro _; exact ⟨by simp [genesisCore, Core.fcommitted], Or.inr rfl⟩
  · intro _; rfl
  · intro _ k st _ hk; simp [genesisCore, Core.fcommitted] at hk

theorem history_life {g : Genesis} (hg : GenesisOK g) :
    ∀ ops, History ops → ∀ p, phaseRun .idle ops = some p → UniqueStakeKeys g ops →
      Life (usedKeys g ops) p (exec (initChain g) ops).core := by
  apply list_snoc_induction
  · intro _ p hp _
    simp only [phaseRun, Option.some.injEq] at hp
    subst hp
    rw [exec_nil, initChain_core]
    exact genesis_life g
  · intro ops op ih hist p' hp' hu
    obtain ⟨h1, h2, h3⟩ := hist.snoc
    rw [phaseRun_snoc] at hp'
    cases hq : phaseRun .idle ops with
    | none => rw [hq] at hp'; cases hp'
    | some p =>
      rw [hq] at hp'
      simp only [Option.bind_some] at hp'
      have hU : usedKeys g (ops ++ [op]) = usedKeys g ops ++ (stakedBy (exec (initChain g) ops) op).map ledgerKey := by
        simp [usedKeys, stakedLog_snoc]
      unfold UniqueStakeKeys at hu
      rw [hU] at hu ⊢
      have hu0 : UniqueStakeKeys g ops := by
        unfold UniqueStakeKeys
        exact hu.sublist (List.Sublist.cons_cons _ (List.sublist_append_left _ _))
      have hfresh : ∀ x ∈ stakedBy (exec (initChain g) ops) op, ledgerKey x ∉ usedKeys g ops ∧ ledgerKey x ≠ zeroKey := by
        intro x hx
        obtain ⟨hz, hnd⟩ := List.nodup_cons.mp hu
        obtain ⟨_, _, hdisj⟩ := List.nodup_append.mp hnd
        have hm : ledgerKey x ∈ (stakedBy (exec (initChain g) ops) op).map ledgerKey := List.mem_map_of_mem hx
        exact ⟨fun hin => hdisj _ hin _ hm rfl, fun he => hz (by rw [← he]; exact List.mem_append_right _ hm)⟩
      rw [exec_snoc]
      exact (step_core _ op h2).life (ih h1 p hq hu0) (history_delegsOK hg ops h1)
        (history_frozenOK g ops (fun o ho => (h1 o ho).1)) hp' h3 hfresh

end Rigo
