/-
  C10 (parameter hypothesis reduced to the inputs), part 1: the invariant.

  `valset_mirror_inputs` needs `ParamsAlong`: the ACTIVE parameters of every state of the history satisfy
  `RatioOK` (slash ratio in 0..100) and `MinStakeOK` (10^18 ≤ minValidatorStake < 2^64·10^18).  Here we show
  that this follows from hypotheses on the inputs alone: the genesis parameters are OK and every option of every
  DELIVERED proposal transaction is "good".

  The invariant `PInv Q G s` (for a predicate `Q` on parameters and `G` on parsed options with
  `Q base → G po → Q (mergeParams base po)`):
    * the active parameters and the pending parameters (if any) satisfy `Q`;
    * every option of every open proposal in the CONSENSUS view and in every committed version of the proposal
      ledger has a good apply-time parse (`parsedA` — that is the form `applyProposals` merges; `parsedV` is only
      looked at by `validateProposal`);  the mempool view is excluded on purpose: CheckTx writes proposals there
      that no hypothesis speaks about, and nothing ever flows from the mempool view into the consensus view;
    * the recorded major option of every frozen proposal (all views and versions) has a good apply-time parse.
  Restart reloads the active parameters from the parameter ledger; that this is the value they had is C15's
  `GovCore.paramsW`, which is reused here.
-/
import RigoProofs.C15Reach3
import RigoProofs.C10Ledger

open Std

namespace Rigo.C10P
open Rigo Rigo.C15

/-! ### a predicate on the consensus view and the committed versions of a ledger -/

def LedF {α : Type} (P : String → α → Prop) (l : Led α) : Prop :=
  (∀ (k : String) (v : α), l.fin[k]? = some v → P k v) ∧
  (∀ m ∈ l.hist, ∀ (k : String) (v : α), m[k]? = some v → P k v)

theorem LedF.empty {α : Type} (P : String → α → Prop) : LedF P ({} : Led α) := by
  refine ⟨?_, ?_⟩ <;> simp

/-- a write on the mempool path is invisible; a write on the consensus path needs `P` of the new value -/
theorem LedF.set {α : Type} {P : String → α → Prop} {l : Led α} (h : LedF P l) (e : Bool) (k : String) (v : α)
    (hv : e = true → P k v) : LedF P (l.set e k v) := by
  obtain ⟨h1, h3⟩ := h
  unfold Led.set
  split
  · rename_i he
    refine ⟨?_, h3⟩
    intro k' v' hk
    by_cases hkk : k = k'
    · subst hkk; simp at hk; subst hk; exact hv he
    · rw [Std.ExtTreeMap.getElem?_insert] at hk; simp [hkk] at hk; exact h1 k' v' hk
  · exact ⟨h1, h3⟩

theorem LedF.del {α : Type} {P : String → α → Prop} {l : Led α} (h : LedF P l) (e : Bool) (k : String) :
    LedF P (l.del e k) := by
  obtain ⟨h1, h3⟩ := h
  unfold Led.del
  split
  · refine ⟨?_, h3⟩
    intro k' v hk
    simp only [] at hk
    rw [Std.ExtTreeMap.getElem?_erase] at hk
    split at hk
    · cases hk
    · exact h1 k' v hk
  · exact ⟨h1, h3⟩

theorem LedF.commit {α : Type} {P : String → α → Prop} {l : Led α} (h : LedF P l) : LedF P l.commit := by
  obtain ⟨h1, h3⟩ := h
  refine ⟨h1, ?_⟩
  intro m hm
  simp only [Led.commit, List.mem_append, List.mem_singleton] at hm
  rcases hm with hm | hm
  · exact h3 m hm
  · subst hm; exact h1

theorem LedF.committed {α : Type} {P : String → α → Prop} {l : Led α} (h : LedF P l) :
    ∀ (k : String) (v : α), l.committed[k]? = some v → P k v := by
  intro k v hk
  unfold Led.committed at hk
  cases hl : l.hist.getLast? with
  | none => rw [hl] at hk; simp at hk
  | some m =>
    rw [hl] at hk
    exact h.2 m (List.mem_of_getLast? hl) k v hk

theorem LedF.reopen {α : Type} {P : String → α → Prop} {l : Led α} (h : LedF P l) : LedF P l.reopen :=
  ⟨h.committed, h.2⟩

theorem LedF.get_true {α : Type} {P : String → α → Prop} {l : Led α} (h : LedF P l) {k : String} {v : α}
    (hg : l.get true k = some v) : P k v := by
  unfold Led.get at hg
  simp only [if_true] at hg
  exact h.1 k v hg

/-! ### options -/

/-- every option of the list has a good apply-time parse -/
def OptsG (G : POpt → Prop) (os : List VoteOpt) : Prop := ∀ o ∈ os, ∀ po, o.parsedA = some po → G po

def PropG (G : POpt → Prop) : String → Proposal → Prop := fun _ p => OptsG G p.options

def MajorG (G : POpt → Prop) : String → Proposal → Prop :=
  fun _ p => ∀ m, p.major = some m → ∀ po, m.parsedA = some po → G po

/-- what the hypothesis says about one delivered transaction: every option of a proposal payload is good -/
def TxOptsOK (G : POpt → Prop) (tx : TxIn) : Prop :=
  ∀ msg st pe ap ty opts, tx.payload = Payload.proposal msg st pe ap ty opts → OptsG G opts

theorem OptsG.zipIdx_map {G : POpt → Prop} {l : List VoteOpt} (h : OptsG G l) (f : VoteOpt × Nat → VoteOpt)
    (hf : ∀ x, (f x).parsedA = x.1.parsedA) : OptsG G (l.zipIdx.map f) := by
  intro o' ho' po hpo
  obtain ⟨x, hx, rfl⟩ := List.mem_map.mp ho'
  obtain ⟨o, i⟩ := x
  rw [hf] at hpo
  exact h o (List.fst_mem_of_mem_zipIdx hx) po hpo

theorem doVote_optsG {G : POpt → Prop} {p : Proposal} (h : OptsG G p.options) (a : Hex) (c : Int) :
    OptsG G (p.doVote a c).options := by
  unfold Proposal.doVote
  split
  · exact h
  · rename_i v _
    simp only []
    have h1 : OptsG G (if v.choice ≥ 0 then p.options.zipIdx.map (fun (o, i) =>
        if (i : Int) = v.choice then { o with votes := o.votes - v.power } else o) else p.options) := by
      split
      · apply h.zipIdx_map
        intro x; obtain ⟨o, i⟩ := x; simp only []; split <;> rfl
      · exact h
    split
    · apply h1.zipIdx_map
      intro x; obtain ⟨o, i⟩ := x; simp only []; split <;> rfl
    · exact h1

theorem doPunish_optsG {G : POpt → Prop} {p : Proposal} (h : OptsG G p.options) (a : Hex) (r : Int) :
    OptsG G (p.doPunish a r).1.options := by
  unfold Proposal.doPunish
  split
  · exact h
  · rename_i v _
    have h1 : OptsG G (if v.choice ≥ 0 then p.doVote a (-1) else p).options := by
      split
      · exact doVote_optsG h a (-1)
      · exact h
    simp only []
    split
    · exact h1
    · split
      · apply doVote_optsG; exact doVote_optsG h a (-1)
      · exact h

theorem snapshot_optsG {G : POpt → Prop} {opts : List VoteOpt} (h : OptsG G opts) (s : St) (tx : TxIn) (a b c d : Int) :
    OptsG G (snapshotProposal s tx a b c d opts).options := by
  intro o' ho' po hpo
  have : o' ∈ opts.map (fun o => { o with votes := 0 }) := ho'
  obtain ⟨o, ho, rfl⟩ := List.mem_map.mp this
  exact h o ho po hpo

theorem sortOptions_optsG {G : POpt → Prop} {os : List VoteOpt} (h : OptsG G os) : OptsG G (sortOptions os) :=
  fun o ho => h o ((List.mergeSort_perm _ _).mem_iff.mp ho)

/-! ### the invariant -/

structure PInv (Q : Params → Prop) (G : POpt → Prop) (s : St) : Prop where
  active : Q s.active
  pending : ∀ p, s.pending = some p → Q p
  props : LedF (PropG G) s.props
  fprops : LedAll (MajorG G) s.fprops

end Rigo.C10P
