/-
  C10 — the consensus engine's side of validator updates.

  A small executable specification transcribing the acceptance rules and the effect of
  Tendermint v0.34 `ValidatorSet.UpdateWithChangeSet` (types/validator_set.go):
    * `processChanges`: no duplicate addresses in the change list, no negative power;
    * `verifyRemovals`: a removal (power 0) must name a member of the current set;
    * `updateWithChangeSet`: the resulting set must not be empty;
    * effect: set the power of a member / insert a new member / remove a member.
  (The total-voting-power overflow check `MaxTotalVotingPower = MaxInt64/8` is NOT modelled.)

  Validators are keyed by their public key here (Tendermint derives the address from the key;
  the application sends public keys).  The set is a finite map key ↦ power.
-/
import Rigo.Block
open Std

namespace Rigo.TM

/-- the engine's validator set: public key ↦ voting power -/
abbrev ValSet := KMap Int

/-- effect of one change: power 0 removes, anything else sets / inserts -/
def applyUpdate (m : ValSet) (u : ValUpdate) : ValSet :=
  if u.2 = 0 then m.erase u.1 else m.insert u.1 u.2

def applyUpdates (m : ValSet) (us : List ValUpdate) : ValSet := us.foldl applyUpdate m

/-- acceptance of a change list by the engine -/
def tmAccepts (m : ValSet) (us : List ValUpdate) : Prop :=
  (us.map (·.1)).Nodup ∧ (∀ u ∈ us, 0 ≤ u.2) ∧ (∀ u ∈ us, u.2 = 0 → u.1 ∈ m) ∧
    (applyUpdates m us).isEmpty = false

instance (m : ValSet) (us : List ValUpdate) : Decidable (tmAccepts m us) := by
  unfold tmAccepts; infer_instance

/-- the set a list of delegatees stands for: public key ↦ total bonded power -/
def asSet (ds : List Delegatee) : ValSet := ds.foldl (fun m d => m.insert d.pub d.total) ∅

@[simp] theorem applyUpdates_nil (m : ValSet) : applyUpdates m [] = m := rfl
@[simp] theorem applyUpdates_cons (m : ValSet) (u : ValUpdate) (us : List ValUpdate) :
    applyUpdates m (u :: us) = applyUpdates (applyUpdate m u) us := rfl
theorem applyUpdates_append (m : ValSet) (a b : List ValUpdate) :
    applyUpdates m (a ++ b) = applyUpdates (applyUpdates m a) b := by
  simp [applyUpdates, List.foldl_append]

theorem getElem?_applyUpdate (m : ValSet) (u : ValUpdate) (k : Hex) :
    (applyUpdate m u)[k]? = if u.1 = k then (if u.2 = 0 then none else some u.2) else m[k]? := by
  unfold applyUpdate
  by_cases h0 : u.2 = 0 <;> by_cases hk : u.1 = k <;>
    simp [h0, hk, ExtTreeMap.getElem?_insert, ExtTreeMap.getElem?_erase]

/-- a symmetric pairwise relation holds between any two different members -/
theorem pairwise_of_mem_ne {α : Type} {R : α → α → Prop} {l : List α} (symm : ∀ a b, R a b → R b a)
    (h : l.Pairwise R) : ∀ x ∈ l, ∀ y ∈ l, x ≠ y → R x y := by
  induction h with
  | nil => simp
  | cons hr _ ih =>
    intro x hx y hy hne
    rcases List.mem_cons.mp hx with hx1 | hx1 <;> rcases List.mem_cons.mp hy with hy1 | hy1
    · exact absurd (hx1.trans hy1.symm) hne
    · rw [hx1]; exact hr _ hy1
    · rw [hy1]; exact symm _ _ (hr _ hx1)
    · exact ih x hx1 y hy1 hne

/-- lookup in a fold of inserts -/
theorem getElem?_foldl_insert (ds : List Delegatee) (m : ValSet) (k : Hex) :
    (ds.foldl (fun m d => m.insert d.pub d.total) m)[k]? =
      match ds.reverse.find? (·.pub == k) with
      | some d => some d.total
      | none => m[k]? := by
  induction ds generalizing m with
  | nil => simp
  | cons d ds ih =>
    simp only [List.foldl_cons, ih, List.reverse_cons, List.find?_append]
    cases h : ds.reverse.find? (·.pub == k) with
    | some x => simp
    | none =>
      by_cases hk : d.pub = k
      · simp [hk]
      · simp [hk, ExtTreeMap.getElem?_insert]

theorem getElem?_asSet_of_not_mem (ds : List Delegatee) (k : Hex) (h : ∀ d ∈ ds, d.pub ≠ k) :
    (asSet ds)[k]? = none := by
  unfold asSet
  rw [getElem?_foldl_insert]
  have : ds.reverse.find? (·.pub == k) = none := by
    simp only [List.find?_eq_none, List.mem_reverse]; intro d hd; simpa using h d hd
  simp [this]

theorem getElem?_asSet_of_mem (ds : List Delegatee) (hnd : ds.Pairwise (fun a b => a.pub ≠ b.pub))
    (d : Delegatee) (hd : d ∈ ds) : (asSet ds)[d.pub]? = some d.total := by
  unfold asSet
  rw [getElem?_foldl_insert]
  cases h : ds.reverse.find? (·.pub == d.pub) with
  | none =>
    simp only [List.find?_eq_none, List.mem_reverse] at h
    have := h d hd; simp at this
  | some x =>
    have hx := List.mem_of_find?_eq_some h
    have hp := List.find?_some h
    simp only [List.mem_reverse] at hx
    simp only [beq_iff_eq] at hp
    have : x = d := by
      apply Classical.byContradiction; intro hne
      exact pairwise_of_mem_ne (fun _ _ h e => h e.symm) hnd x hx d hd hne hp
    simp [this]

end Rigo.TM
