/-
  C10 — the ledger invariant behind `EligibleOK`: every stored delegatee has `pub = f addr` and
  non-negative stake powers.  Together with C11's `DelegsOK` (bookkeeping sums, key = `ledgerKey addr`,
  40-hex addresses) and sane active parameters this yields `EligibleOK` at every point of a history.
-/
import RigoProofs.C11Inv
import RigoProofs.C14Slash
import RigoProofs.C10Witness
open Std

namespace Rigo.TM

open Rigo.Delegatee Rigo.C14L

/-! ### the extra per-delegatee invariant -/

/-- public key fixed by the address, and no negative stake power -/
def DelegX (f : Hex → Hex) (d : Delegatee) : Prop := d.pub = f d.addr ∧ ∀ st ∈ d.stakes, 0 ≤ st.power

def DelegMapX (f : Hex → Hex) (m : KMap Delegatee) : Prop :=
  ∀ (k : String) (d : Delegatee), m[k]? = some d → DelegX f d

def DelegsX (f : Hex → Hex) (c : Core) : Prop := DelegMapX f c.dfin ∧ ∀ m ∈ c.dhist, DelegMapX f m

theorem DelegMapX.empty (f : Hex → Hex) : DelegMapX f {} := by intro k d h; simp at h

theorem DelegMapX.insert {f : Hex → Hex} {m : KMap Delegatee} (hm : DelegMapX f m) (k0 : String) {d : Delegatee}
    (hd : DelegX f d) : DelegMapX f (m.insert k0 d) := by
  intro k d' h
  rw [ExtTreeMap.getElem?_insert] at h
  split at h
  · cases h; exact hd
  · exact hm k d' h

theorem DelegMapX.erase {f : Hex → Hex} {m : KMap Delegatee} (hm : DelegMapX f m) (k0 : String) :
    DelegMapX f (m.erase k0) := by
  intro k d h
  rw [ExtTreeMap.getElem?_erase] at h
  split at h
  · cases h
  · exact hm k d h

/-- active parameters under which slashing keeps powers non-negative -/
def RatioOK (p : Params) : Prop := 0 ≤ p.slashRatio ∧ p.slashRatio ≤ 100

instance (p : Params) : Decidable (RatioOK p) := by unfold RatioOK; infer_instance

theorem foldl_eraseP_sublist (rem : List Stake) (xs : List Stake) :
    (rem.foldl (fun acc r => acc.eraseP (·.hash == r.hash)) xs).Sublist xs := by
  induction rem generalizing xs with
  | nil => exact List.Sublist.refl _
  | cons r rem ih => rw [List.foldl_cons]; exact (ih _).trans List.eraseP_sublist

theorem doSlash_nonneg (d : Delegatee) (ratio : Int) (hr : 0 ≤ ratio) (hr' : ratio ≤ 100)
    (hp : ∀ st ∈ d.stakes, 0 ≤ st.power) : ∀ st ∈ (d.doSlash ratio).1.stakes, 0 ≤ st.power := by
  intro st hst
  unfold doSlash at hst
  simp only at hst
  have hsub := (foldl_eraseP_sublist
    (d.stakes.filter fun s => Int.tdiv (s.power * ratio) 100 < 1)
    (d.stakes.map fun s => let sl := Int.tdiv (s.power * ratio) 100; if sl < 1 then s else { s with power := s.power - sl })).subset hst
  obtain ⟨s, hs, rfl⟩ := List.mem_map.mp hsub
  have h0 := hp s hs
  have hb := slashOf_bounds (s := s) h0 hr hr'
  unfold slashOf at hb
  simp only
  split
  · exact h0
  · simp only; omega

theorem DelegX.doSlash {f : Hex → Hex} {d : Delegatee} (h : DelegX f d) (ratio : Int) (hr : 0 ≤ ratio) (hr' : ratio ≤ 100) :
    DelegX f (d.doSlash ratio).1 :=
  ⟨h.1, doSlash_nonneg d ratio hr hr' h.2⟩

theorem DelegX.notSigned {f : Hex → Hex} {d : Delegatee} (h : DelegX f d) (ns : List Int) :
    DelegX f { d with notSigned := ns } := h

theorem amountToPower_nonneg {amt : Nat} {p : Int} (h : amountToPower amt = .ok p) : 0 ≤ p := by
  unfold amountToPower at h
  simp only at h
  split at h
  · cases h
  · cases h; exact Int.natCast_nonneg _

theorem DelegX.addStake {f : Hex → Hex} {d : Delegatee} (h : DelegX f d) (st : Stake) (hp : 0 ≤ st.power) :
    DelegX f (d.addStake st) := by
  refine ⟨h.1, ?_⟩
  intro x hx
  simp only [Delegatee.addStake, List.mem_append, List.mem_singleton] at hx
  rcases hx with hx | rfl
  · exact h.2 x hx
  · exact hp

theorem DelegX.delStake {f : Hex → Hex} {d : Delegatee} (h : DelegX f d) (hash : Hex) : DelegX f (d.delStake hash) := by
  refine ⟨?_, fun x hx => h.2 x ((delStake_stakes_sublist d hash).subset hx)⟩
  have : (d.delStake hash).pub = d.pub := by unfold Delegatee.delStake; split <;> rfl
  rw [this, delStake_addr]; exact h.1

theorem DelegX.delAllStakes {f : Hex → Hex} {d : Delegatee} (h : DelegX f d) : DelegX f d.delAllStakes.1 :=
  ⟨h.1, by intro x hx; simp [Delegatee.delAllStakes] at hx⟩

/-! ### preservation along the abstract transition system -/

theorem BeginAtom.delegsX {f : Hex → Hex} {h : Header} {c c' : Core} (ha : BeginAtom h c c') (hr : RatioOK c.active)
    (hc : DelegsX f c) : DelegsX f c' ∧ c'.active = c.active := by
  obtain ⟨hf, hh⟩ := hc
  cases ha with
  | slash a d _ hd => exact ⟨⟨hf.insert _ ((hf _ _ hd).doSlash _ hr.1 hr.2), hh⟩, rfl⟩
  | mark k d ns hd => exact ⟨⟨hf.insert _ ((hf _ _ hd).notSigned ns), hh⟩, rfl⟩
  | jail k d ns hd => exact ⟨⟨(hf.insert _ ((hf _ _ hd).notSigned ns)).erase _, hh⟩, rfl⟩

/-- the inputs of a delivered self-staking transaction: the recovered public key is `f sender` -/
def Op.PubOK (f : Hex → Hex) : Op → Prop
  | .deliver tx => tx.type = TRX_STAKING → tx.from_ = tx.to → tx.pub = f tx.from_
  | _ => True

theorem OpCore.delegsX {f : Hex → Hex} {nk : List Hex} {op : Op} {c c' : Core} (h : OpCore nk op c c')
    (hx : Op.PubOK f op) (hr : RatioOK c.active) (hc : DelegsX f c) : DelegsX f c' := by
  cases h with
  | same => exact hc
  | begin_ h _ _ _ hs =>
    have key : ∀ {a b : Core}, Steps (BeginAtom h) a b → RatioOK a.active → DelegsX f a → DelegsX f b ∧ b.active = a.active := by
      intro a b hs
      induction hs with
      | refl => intro _ hp; exact ⟨hp, rfl⟩
      | tail _ r ih =>
        intro hr hp
        obtain ⟨h1, h2⟩ := ih hr hp
        obtain ⟨h3, h4⟩ := BeginAtom.delegsX r (h2 ▸ hr) h1
        exact ⟨h3, h4.trans h2⟩
    exact (key hs hr hc).1
  | stake tx _ ht d power _ hty _ hto hd hpw _ =>
    refine ⟨?_, hc.2⟩
    apply hc.1.insert
    have hdx : DelegX f d := by
      rcases hd with hd | ⟨_, hft, rfl⟩
      · exact hc.1 _ _ hd
      · exact ⟨hx hty hft, by intro st hst; cases hst⟩
    exact hdx.addStake _ (by simpa [newStake] using amountToPower_nonneg hpw)
  | unstake tx _ ht d hash st _ _ _ _ hd _ _ =>
    have hdx := hc.1 _ _ hd
    refine ⟨?_, hc.2⟩
    show DelegMapX f (unstakeCore c d st hash ht).dfin
    unfold unstakeCore
    dsimp only
    have h2 : DelegX f (if (d.delStake hash).self = 0 then (d.delStake hash).delAllStakes.1 else d.delStake hash) := by
      split
      · exact (hdx.delStake hash).delAllStakes
      · exact hdx.delStake hash
    generalize (if (d.delStake hash).self = 0 then (d.delStake hash).delAllStakes.1 else d.delStake hash) = d2 at h2
    split
    · exact hc.1.erase _
    · exact hc.1.insert _ h2
  | end_ _ ht _ =>
    obtain ⟨h1, h2, _⟩ := unfreezeFold_frame c.fcommitted.toList ht c
    unfold unfreezeCore DelegsX
    rw [h1, h2]; exact hc
  | commit _ ht act _ =>
    refine ⟨hc.1, ?_⟩
    intro m hm
    simp only [List.mem_append, List.mem_singleton] at hm
    rcases hm with hm | rfl
    · exact hc.2 m hm
    · exact hc.1
  | restart _ act =>
    refine ⟨?_, hc.2⟩
    show DelegMapX f c.dcommitted
    unfold Core.dcommitted
    cases hl : c.dhist.getLast? with
    | none => exact DelegMapX.empty f
    | some m => exact hc.2 m (List.mem_of_getLast? hl)

/-- genesis entries: key = `f address`, non-negative power -/
def GenesisPubOK (f : Hex → Hex) (g : Genesis) : Prop := ∀ v ∈ g.vals, v.1 = f v.2.1 ∧ 0 ≤ v.2.2

theorem genesis_delegsX {f : Hex → Hex} {g : Genesis} (hg : GenesisPubOK f g) : DelegsX f (genesisCore g) := by
  refine ⟨?_, by intro m hm; simp [genesisCore] at hm⟩
  simp only [genesisCore]
  have : ∀ (l : List (Hex × Hex × Int)) (m : KMap Delegatee), (∀ v ∈ l, v.1 = f v.2.1 ∧ 0 ≤ v.2.2) → DelegMapX f m →
      DelegMapX f (l.foldl (fun m v => m.insert (ledgerKey v.2.1) (genesisDeleg v)) m) := by
    intro l
    induction l with
    | nil => intro m _ hm; exact hm
    | cons v l ih =>
      intro m hl hm
      simp only [List.foldl_cons]
      apply ih _ (fun w hw => hl w (by simp [hw]))
      apply hm.insert
      have hv := hl v (by simp)
      exact (show DelegX f { addr := v.2.1, pub := v.1 } from ⟨hv.1, by intro st hst; cases hst⟩).addStake _ hv.2
  exact this _ _ hg (DelegMapX.empty f)

/-- the slash ratio is in 0..100 at every point of the history -/
def RatioAlong (s0 : St) (ops : List Op) : Prop := ∀ pre post, ops = pre ++ post → RatioOK (exec s0 pre).active

theorem history_delegsX {f : Hex → Hex} {g : Genesis} (hg : GenesisPubOK f g) :
    ∀ ops, (∀ op ∈ ops, op.isInit = false ∧ Op.PubOK f op) → RatioAlong (initChain g) ops →
      DelegsX f (exec (initChain g) ops).core := by
  apply list_snoc_induction
  · intro _ _; rw [exec_nil, initChain_core]; exact genesis_delegsX hg
  · intro ops op ih h hr
    have h1 : ∀ o ∈ ops, o.isInit = false ∧ Op.PubOK f o := fun o ho => h o (by simp [ho])
    have h2 := h op (by simp)
    have hr1 : RatioAlong (initChain g) ops := fun pre post e => hr pre (post ++ [op]) (by rw [e, List.append_assoc])
    rw [exec_snoc]
    exact OpCore.delegsX (step_core _ op h2.1) h2.2 (hr ops [op] rfl) (ih h1 hr1)

/-! ### from the ledger invariants to `EligibleOK` -/

/-- the minimum validator stake converts to at least one unit of power -/
def MinStakeOK (p : Params) : Prop := amountPerPower ≤ p.minValidatorStake ∧ p.minValidatorStake < two64 * amountPerPower

instance (p : Params) : Decidable (MinStakeOK p) := by unfold MinStakeOK; infer_instance

theorem minPower_pos {p : Params} (h : MinStakeOK p) {mp : Int} (hmp : amountToPower p.minValidatorStake = .ok mp) : 1 ≤ mp := by
  unfold amountToPower at hmp
  simp only at hmp
  split at hmp
  · cases hmp
  · cases hmp
    obtain ⟨h1, h2⟩ := h
    have hpos : 0 < amountPerPower := by unfold amountPerPower; omega
    have hq1 : 1 ≤ p.minValidatorStake / amountPerPower := (Nat.le_div_iff_mul_le hpos).mpr (by omega)
    have hq2 : p.minValidatorStake / amountPerPower < two64 := (Nat.div_lt_iff_lt_mul hpos).mpr h2
    rw [Nat.mod_eq_of_lt hq2]
    show (1 : Int) ≤ ((p.minValidatorStake / amountPerPower : Nat) : Int)
    exact_mod_cast hq1

theorem sumPower_filter_le (ss : List Stake) (p : Stake → Bool) (h : ∀ st ∈ ss, 0 ≤ st.power) :
    sumPower (ss.filter p) ≤ sumPower ss := by
  induction ss with
  | nil => simp [sumPower]
  | cons st ss ih =>
    have ih' := ih (fun x hx => h x (List.mem_cons_of_mem _ hx))
    have h0 := h st (by simp)
    unfold sumPower at *
    rw [List.filter_cons]
    split <;> simp only [List.map_cons, List.sum_cons] <;> omega

theorem total_ge_self {f : Hex → Hex} {d : Delegatee} (h1 : DelegOK d) (h2 : DelegX f d) : d.self ≤ d.total := by
  rw [h1.1, h1.2.1]
  exact sumPower_filter_le _ _ h2.2

theorem eligibleOK_of_inv {f : Hex → Hex} (s : St) (h1 : DelegsOK s.core) (h2 : DelegsX f s.core)
    (hmin : MinStakeOK s.active) : EligibleOK f s := by
  intro mp hmp
  have hmp1 := minPower_pos hmin hmp
  -- the committed delegatee map satisfies both invariants
  have hm : DelegMapOK s.delegs.committed ∧ DelegMapX f s.delegs.committed := by
    show DelegMapOK (s.delegs.hist.getLast?.getD {}) ∧ DelegMapX f (s.delegs.hist.getLast?.getD {})
    cases hl : s.delegs.hist.getLast? with
    | none => exact ⟨DelegMapOK.empty, DelegMapX.empty f⟩
    | some m => exact ⟨h1.2 m (List.mem_of_getLast? hl), h2.2 m (List.mem_of_getLast? hl)⟩
  obtain ⟨hm1, hm2⟩ := hm
  have hmem : ∀ x ∈ s.delegs.committed.toList, s.delegs.committed[x.1]? = some x.2 := by
    intro x hx
    exact ExtTreeMap.mem_toList_iff_getElem?_eq_some.mp hx
  have hdist : AddrDistinct (s.delegs.committed.toList.map (·.2)) := by
    unfold AddrDistinct
    rw [List.pairwise_map]
    have hk := ExtTreeMap.distinct_keys_toList (t := s.delegs.committed)
    refine List.Pairwise.imp_of_mem ?_ hk
    intro a b ha hb hab e
    have ka := (hm1 _ _ (hmem a ha)).2.1
    have kb := (hm1 _ _ (hmem b hb)).2.1
    apply hab
    rw [ka, kb, e]
    exact Std.ReflCmp.compare_self
  have hfil : ((s.delegs.committed.toList.map (·.2)).filter fun d => d.self ≥ mp).Sublist (s.delegs.committed.toList.map (·.2)) :=
    List.filter_sublist
  have hperm := sortByPower_perm ((s.delegs.committed.toList.map (·.2)).filter fun d => d.self ≥ mp)
  have hall : ∀ d ∈ eligible s mp, (∃ k : String, s.delegs.committed[k]? = some d) ∧ d.self ≥ mp := by
    intro d hd
    have hd' := hperm.mem_iff.mp hd
    obtain ⟨hd1, hd2⟩ := List.mem_filter.mp hd'
    obtain ⟨x, hx, rfl⟩ := List.mem_map.mp hd1
    exact ⟨⟨x.1, hmem x hx⟩, by simpa using hd2⟩
  refine ⟨(hdist.sublist hfil).perm hperm, ?_, ?_⟩
  · intro d hd
    obtain ⟨⟨k, hk⟩, _⟩ := hall d hd
    exact (hm2 k d hk).1
  · intro d hd
    obtain ⟨⟨k, hk⟩, hself⟩ := hall d hd
    have := total_ge_self (hm1 k d hk).1 (hm2 k d hk)
    omega

/-- the active parameters are sane (slash ratio in 0..100, minimum validator stake ≥ one unit of power and
    below 2^64 units) at every point of the history -/
def ParamsAlong (s0 : St) (ops : List Op) : Prop :=
  ∀ pre post, ops = pre ++ post → RatioOK (exec s0 pre).active ∧ MinStakeOK (exec s0 pre).active

/-- input hypotheses of the history-level theorem: genesis entries and the inputs of delivered transactions -/
structure InputsOK (f : Hex → Hex) (g : Genesis) (ops : List Op) : Prop where
  genLen : GenesisOK g
  genPub : GenesisPubOK f g
  hist : History ops
  txPub : ∀ op ∈ ops, Op.PubOK f op

theorem History_prefix {pre post : List Op} (h : History (pre ++ post)) : History pre :=
  fun o ho => h o (by simp [ho])

/-- **`EligibleOK` holds at every point of a history** under input hypotheses and sane active parameters -/
theorem eligibleOK_along {f : Hex → Hex} {g : Genesis} {ops : List Op} (hin : InputsOK f g ops)
    (hp : ParamsAlong (initChain g) ops) :
    ∀ pre post, ops = pre ++ post → EligibleOK f (exec (initChain g) pre) := by
  intro pre post e
  subst e
  have h1 := history_delegsOK hin.genLen pre (History_prefix hin.hist)
  have h2 := history_delegsX hin.genPub pre
    (fun o ho => ⟨(hin.hist o (by simp [ho])).1, hin.txPub o (by simp [ho])⟩)
    (fun p q e => (hp p (q ++ post) (by rw [e, List.append_assoc])).1)
  exact eligibleOK_of_inv _ h1 h2 (hp pre post rfl).2

/-- **valset_mirror under input hypotheses only** (plus sane active parameters along the history) -/
theorem valset_mirror_inputs {f : Hex → Hex} (finj : Injective f) (g : Genesis) (ops : List Op)
    (hin : InputsOK f g ops) (hp : ParamsAlong (initChain g) ops) :
    applyUpdates (asSet (initChain g).lastVals) (updatesOf (run (initChain g) ops).2) = asSet (exec (initChain g) ops).lastVals ∧
    ValsetOK f (exec (initChain g) ops) :=
  valset_mirror_run finj ops (initChain g) (fun op ho => (hin.hist op ho).1) (initChain_valsetOK f g)
    (eligibleOK_along hin hp)

/-! ### relation to the genesis validator set -/

/-- the validator set the consensus engine starts from: genesis key ↦ genesis power -/
def genesisSet (g : Genesis) : ValSet := asSet (g.vals.map genesisDeleg)

theorem applyUpdates_announce (N : List Delegatee) (hpos : ∀ n ∈ N, n.total ≠ 0) (M : ValSet) :
    applyUpdates M (N.map fun n => (n.pub, n.total)) = N.foldl (fun m d => m.insert d.pub d.total) M := by
  induction N generalizing M with
  | nil => rfl
  | cons n N ih =>
    rw [List.map_cons, applyUpdates_cons, List.foldl_cons, ih (fun x hx => hpos x (List.mem_cons_of_mem _ hx))]
    have := hpos n (by simp)
    simp [applyUpdate, this]

/-- announcing a set to an engine that already holds exactly that set changes nothing -/
theorem announce_absorbed (N : List Delegatee) (hd : N.Pairwise (fun a b => a.pub ≠ b.pub)) (hpos : ∀ n ∈ N, n.total ≠ 0) :
    applyUpdates (asSet N) (N.map fun n => (n.pub, n.total)) = asSet N ∧
    applyUpdates ∅ (N.map fun n => (n.pub, n.total)) = asSet N := by
  refine ⟨?_, applyUpdates_announce N hpos ∅⟩
  rw [applyUpdates_announce N hpos]
  apply ExtTreeMap.ext_getElem?
  intro k
  rw [getElem?_foldl_insert]
  cases hf : N.reverse.find? (·.pub == k) with
  | none => rfl
  | some x =>
    have hx : x ∈ N := by simpa using List.mem_of_find?_eq_some hf
    have hp : x.pub = k := by simpa using List.find?_some hf
    rw [← hp, getElem?_asSet_of_mem N hd x hx]

/-- the first validator updates the application emits are the announcement of a list `N` that stands for
    the genesis set (this is what happens when block 1 leaves the genesis delegatees unchanged: block 1 announces
    nothing because the committed ledger is still empty at its BeginBlock, block 2 announces all of them) -/
def GenesisAnnouncedFirst (g : Genesis) (ops : List Op) : Prop :=
  ∃ (N : List Delegatee) (rest : List ValUpdate),
    updatesOf (run (initChain g) ops).2 = (N.map fun n => (n.pub, n.total)) ++ rest ∧
    asSet N = genesisSet g ∧ N.Pairwise (fun a b => a.pub ≠ b.pub) ∧ ∀ n ∈ N, n.total ≠ 0

/-- **valset_mirror_from_genesis**: when the genesis set is what gets announced first, folding all updates over the
    GENESIS set (what the engine really does) gives the set of `lastVals` -/
theorem valset_mirror_from_genesis {f : Hex → Hex} (finj : Injective f) (g : Genesis) (ops : List Op)
    (hin : InputsOK f g ops) (hp : ParamsAlong (initChain g) ops) (hfirst : GenesisAnnouncedFirst g ops) :
    applyUpdates (genesisSet g) (updatesOf (run (initChain g) ops).2) = asSet (exec (initChain g) ops).lastVals := by
  have h := (valset_mirror_inputs finj g ops hin hp).1
  rw [(initChain_lists g).2.1] at h
  obtain ⟨N, rest, hu, hN, hd, hpos⟩ := hfirst
  obtain ⟨a1, a2⟩ := announce_absorbed N hd hpos
  rw [← h, hu, applyUpdates_append, applyUpdates_append, ← hN, a1]
  have : asSet ([] : List Delegatee) = ∅ := rfl
  rw [this, a2]

end Rigo.TM
