/-
  Round 3, the account controller (ctrlers/account/ctrler.go, ctrlers/types/account.go):
  `findAccount`, `setAccountCommittable`, `FindOrNewAccount`, `Reward`, `transfer`, `setDoc`,
  `ValidateTrx`, `ExecuteTrx`, `EndBlock` against the model's `St.findAcct`, `St.setAcct`,
  `St.findOrNewAcct`, `St.reward`, `execTransfer`, `execSetDoc`, `validateTrx` (SETDOC branch) and
  `feeHandover`.
-/
import RigoProofs.GenFuncsCtrlBase

set_option linter.unusedSimpArgs false
set_option linter.unusedVariables false

namespace Rigo.GenEq
open Rigo Rigo.Gen

/-! ### ledger helpers (items seen through `id`) -/

@[simp] theorem acct_ledOf_id_get {V : Type} (l : Led V) (e : Bool) (k : String) :
    (ledOf id l).get e k = l.get e k := by simp [ledOf_get]

theorem acct_ledOf_id_set {V : Type} (l : Led V) (e : Bool) (k : String) (v : V) :
    (ledOf id l).set e k v = ledOf id (l.set e k v) := ledOf_set id l e k v

/-- writing back the value a view already holds under that key changes nothing the controllers can see -/
theorem acct_ledOf_set_same {V : Type} (l : Led V) (e : Bool) (k : String) (v : V)
    (h : l.get e k = some v) : (ledOf id l).set e k v = ledOf id l := by
  apply GLedger.ext'
  · funext e' k'
    simp only [GLedger.set, acct_ledOf_id_get]
    split
    · next hc => rw [hc.1, hc.2, h]
    · rfl
  · rfl
  · rfl

theorem acctCtrlOf_setAcct (s : St) (exec : Bool) (a : Account) :
    acctCtrlOf (s.setAcct exec a) = { acctLedger := (ledOf id s.accts).set exec (ledgerKey a.addr) a } := by
  simp [acctCtrlOf, St.setAcct, acct_ledOf_id_set]

theorem acct_findAcct_setAcct (s : St) (e e' : Bool) (a : Account) (addr : Hex) :
    (s.setAcct e a).findAcct e' addr =
      if e' = e ∧ ledgerKey addr = ledgerKey a.addr then some a else s.findAcct e' addr := by
  simp [St.findAcct, St.setAcct, Led.get_set]

/-- re-setting an account that the view holds under its own key: the controller is unchanged -/
theorem acctCtrlOf_setAcct_same (s : St) (exec : Bool) (a : Account)
    (h : s.accts.get exec (ledgerKey a.addr) = some a) : acctCtrlOf (s.setAcct exec a) = acctCtrlOf s := by
  rw [acctCtrlOf_setAcct, acct_ledOf_set_same _ _ _ _ h]; rfl

/-! ### `Account.SetName`, `Account.SetDocURL`, `NewAccountWithName` -/

theorem Account_SetName_eq (a : Account) (n : String) :
    Account_SetName a n = .ok { a with name := n } := rfl

theorem Account_SetDocURL_eq (a : Account) (u : String) :
    Account_SetDocURL a u = .ok { a with doc := u } := rfl

/-- `NewAccountWithName(addr, name)`: address and name; nonce 0, balance 0, no code, no document URL.
    With `name = ""` this is the model's fresh account `{ addr := addr }` -/
theorem NewAccountWithName_eq (addr : Hex) (name : String) :
    NewAccountWithName addr name = .ok ({ addr := addr, name := name } : Account) := by
  unfold NewAccountWithName; rw [NewAccount_eq]; rfl

/-! ### `findAccount`, `setAccountCommittable`, `FindOrNewAccount`, `Reward` -/

/-- `findAccount(addr, exec)` is the model's `findAcct` (nil = `none`) -/
theorem AcctCtrler_findAccount_eq (s : St) (addr : Hex) (exec : Bool) :
    AcctCtrler_findAccount (acctCtrlOf s) addr exec = .ok (s.findAcct exec addr) := by
  unfold AcctCtrler_findAccount St.findAcct acctCtrlOf
  cases exec <;> cases h : s.accts.get _ (ledgerKey addr) <;>
    simp [h, bind, Except.bind, pure, Except.pure, gnotFound]

/-- `setAccountCommittable(acct, exec)` is the model's `setAcct`; it never fails -/
theorem AcctCtrler_setAccountCommittable_eq (s : St) (a : Account) (exec : Bool) :
    AcctCtrler_setAccountCommittable (acctCtrlOf s) a exec = .ok (acctCtrlOf (s.setAcct exec a), none) := by
  unfold AcctCtrler_setAccountCommittable
  rw [acctCtrlOf_setAcct]
  cases exec <;> simp [Account_Key_eq, acctCtrlOf, bind, Except.bind, pure, Except.pure]

/-- `FindOrNewAccount(addr, exec)` is the model's `findOrNewAcct`: the new account is `{ addr := addr }`
    and is written to the view at once -/
theorem AcctCtrler_FindOrNewAccount_eq (s : St) (addr : Hex) (exec : Bool) :
    AcctCtrler_FindOrNewAccount (acctCtrlOf s) addr exec =
      .ok (acctCtrlOf (s.findOrNewAcct exec addr).1, some (s.findOrNewAcct exec addr).2) := by
  unfold AcctCtrler_FindOrNewAccount St.findOrNewAcct
  simp only [AcctCtrler_findAccount_eq]
  cases h : s.findAcct exec addr with
  | some a => simp [bind, Except.bind, pure, Except.pure]
  | none =>
    simp only [bind, Except.bind, pure, Except.pure, NewAccountWithName_eq,
      AcctCtrler_setAccountCommittable_eq]
    simp

/-- the Go error of a failed `Reward` -/
def acctRewardLabel (s : St) (exec : Bool) (to : Hex) : String :=
  if (s.findAcct exec to).isNone then "ErrNotFoundAccount" else "ErrInvalidAmount"

/-- `Reward(to, amt, exec)` is the model's `St.reward`; the model's `none` is `ErrNotFoundAccount` when the
    account is missing and `ErrInvalidAmount` when `AddBalance` refuses the amount; the controller is
    unchanged then -/
theorem AcctCtrler_Reward_eq (s : St) (to : Hex) (amt : Nat) (exec : Bool) :
    AcctCtrler_Reward (acctCtrlOf s) to amt exec = .ok (match s.reward exec to amt with
      | some s' => (acctCtrlOf s', none)
      | none => (acctCtrlOf s, some (acctRewardLabel s exec to))) := by
  unfold AcctCtrler_Reward St.reward acctRewardLabel
  simp only [AcctCtrler_findAccount_eq]
  cases h : s.findAcct exec to with
  | none => simp [bind, Except.bind, pure, Except.pure]
  | some a =>
    simp only [bind, Except.bind, pure, Except.pure, gderef, Account_AddBalance_eq]
    cases h2 : addBalance a amt with
    | none => simp
    | some a' => simp [AcctCtrler_setAccountCommittable_eq, bind, Except.bind, pure, Except.pure]

/-! ### `transfer`, `setDoc` -/

/-- the Go error of a failed `SubBalance` -/
def acctSubBalanceLabel (amt : Nat) : String :=
  if isNeg256 amt then "ErrInvalidAmount" else "ErrInsufficientFund"

/-- the sender after the "refund" of a transfer whose `to.AddBalance(amt)` failed: `from.AddBalance(amt)` on
    the debited sender `a1`, its error ignored -/
def acctRefundedSender (a1 : Account) (amt : Nat) : Account :=
  match addBalance a1 amt with
  | some a' => a'
  | none => a1

/-- `transfer(from, to, amt)`: `SubBalance` on the sender then `AddBalance` on the receiver (the balance
    part of the model's `execTransfer`, distinct objects); a failed `SubBalance` leaves both untouched,
    a failed `AddBalance` "refunds" the sender -/
theorem AcctCtrler_transfer_eq (c : AcctCtrler) (a b : Account) (amt : Nat) :
    AcctCtrler_transfer c a b amt = .ok (match subBalance a amt with
      | none => (a, b, some (acctSubBalanceLabel amt))
      | some a1 => match addBalance b amt with
        | none => (acctRefundedSender a1 amt, b, some "ErrInvalidAmount")
        | some b1 => (a1, b1, none)) := by
  unfold AcctCtrler_transfer acctRefundedSender acctSubBalanceLabel
  simp only [bind, Except.bind, pure, Except.pure, Account_SubBalance_eq, Account_AddBalance_eq]
  cases h1 : subBalance a amt with
  | none => simp
  | some a1 =>
    cases h2 : addBalance b amt with
    | none => cases h3 : addBalance a1 amt <;> simp [h3]
    | some b1 => simp

/-- the `AddBalance` of a transfer cannot fail once the `SubBalance` of the same amount has succeeded
    (both test the sign of the amount): the refund branch of `transfer` is dead code -/
theorem acct_transfer_add_isSome (a a1 b : Account) (amt : Nat) (h : subBalance a amt = some a1) :
    (addBalance b amt).isSome = true := by
  unfold subBalance at h
  unfold addBalance
  by_cases hn : isNeg256 amt = true
  · simp [hn] at h
  · simp [hn]

/-- ... and if it could, the refund would fail for the same reason: the sender would stay debited -/
theorem acctRefundedSender_of_fail (a1 b : Account) (amt : Nat) (h : addBalance b amt = none) :
    acctRefundedSender a1 amt = a1 := by
  unfold addBalance at h
  unfold acctRefundedSender addBalance
  by_cases hn : isNeg256 amt = true
  · simp [hn]
  · simp [hn] at h

/-- `transfer` without the dead branch -/
theorem AcctCtrler_transfer_eq' (c : AcctCtrler) (a b : Account) (amt : Nat) :
    AcctCtrler_transfer c a b amt = .ok (match subBalance a amt with
      | none => (a, b, some (acctSubBalanceLabel amt))
      | some a1 => (a1, { b with bal := wadd b.bal amt }, none)) := by
  rw [AcctCtrler_transfer_eq]
  cases h1 : subBalance a amt with
  | none => rfl
  | some a1 =>
    have h2 := acct_transfer_add_isSome a a1 b amt h1
    unfold addBalance at h2 ⊢
    by_cases hn : isNeg256 amt = true
    · simp [hn] at h2
    · simp [hn]

/-- `setDoc(acct, name, url)`: name and document URL are replaced -/
theorem AcctCtrler_setDoc_eq (c : AcctCtrler) (a : Account) (name url : String) :
    AcctCtrler_setDoc c a name url = .ok { a with name := name, doc := url } := rfl

/-! ### `ValidateTrx` -/

/-- the account controller's part of the model's `validateTrx`: the TRX_SETDOC branch (length limits of
    the name and the URL; a payload of another type panics), nothing for the other types -/
def acctValidateTrx (tx : TxIn) : Step Unit :=
  if tx.type = TRX_SETDOC then
    match tx.payload with
    | .setdoc _ _ nl ul => do
      if nl > MAX_ACCT_NAME then throw (.err "payloadparams")
      if ul > MAX_ACCT_NAME then throw (.err "payloadparams")
      pure ()
    | _ => throw (.panic "type assertion: payload is not TrxPayloadSetDoc")
  else pure ()

/-- the observed lengths that a SetDoc payload of the model carries next to its strings are the byte
    lengths of these strings (Go: `len(name)`, `len(url)`) -/
def SetDocLensOK (p : Payload) : Prop :=
  match p with
  | .setdoc name url nl ul => name.utf8ByteSize = nl ∧ url.utf8ByteSize = ul
  | _ => True

instance (p : Payload) : Decidable (SetDocLensOK p) := by
  unfold SetDocLensOK; cases p <;> infer_instance

/-- the Go error of the model's failure kinds in the account controller's validation -/
def acctValidateLabel (kind : String) : Option String :=
  if kind = "payloadparams" then some "ErrInvalidTrxPayloadParams" else none

/-- outcome for outcome: no error / `ErrInvalidTrxPayloadParams` / the type assertion panics -/
def AcctValidateIs (g : G (Option String)) (r : Step Unit) : Prop :=
  match r with
  | .ok _ => g = .ok none
  | .error (.err k) => g = .ok (acctValidateLabel k)
  | .error (.panic _) => G.panics g

theorem AcctCtrler_ValidateTrx_eq (c : AcctCtrler) (ctx : TrxContext) (tx : TxIn)
    (htx : ctx.tx = trxOf tx) (hlen : SetDocLensOK tx.payload) :
    AcctValidateIs (AcctCtrler_ValidateTrx c ctx) (acctValidateTrx tx) := by
  unfold AcctCtrler_ValidateTrx acctValidateTrx AcctValidateIs
  simp only [htx, Trx_GetType_eq, bind, Except.bind, pure, Except.pure]
  by_cases h7 : tx.type = TRX_SETDOC
  · have h7' : tx.type = 7 := h7
    simp only [h7', TRX_SETDOC, if_true]
    cases hp : tx.payload
    case setdoc name url nl ul =>
      rw [hp] at hlen
      obtain ⟨hn, hu⟩ := hlen
      simp only [trxOf, payOf, hp, TrxPayload.asSetdoc, gassert, bind, Except.bind, pure, Except.pure,
        strLen, hn, hu, MAX_ACCT_NAME]
      by_cases c1 : nl > 2048
      · have : (2048 : Int) < (nl : Int) := by omega
        simp [c1, this, acctValidateLabel, throw, throwThe, MonadExceptOf.throw, bind, Except.bind]
      · have n1 : ¬ (2048 : Int) < (nl : Int) := by omega
        by_cases c2 : ul > 2048
        · have : (2048 : Int) < (ul : Int) := by omega
          simp [c1, n1, c2, this, acctValidateLabel, throw, throwThe, MonadExceptOf.throw, bind, Except.bind,
            pure, Except.pure]
        · have n2 : ¬ (2048 : Int) < (ul : Int) := by omega
          simp [c1, n1, c2, n2, bind, Except.bind, pure, Except.pure]
    all_goals
      simp [trxOf, payOf, hp, TrxPayload.asSetdoc, gassert, throw, throwThe, MonadExceptOf.throw,
        bind, Except.bind, pure, Except.pure]
  · have h7' : ¬ tx.type = 7 := h7
    simp [h7, h7']

/-! #### the hypotheses of `AcctCtrler_ValidateTrx_eq` hold on a concrete SetDoc, and the conclusion computes -/

def acctExDocTx : TxIn :=
  { from_ := "00000000000000000000000000000000000000aa", to := "00000000000000000000000000000000000000bb",
    type := 7, gas := 10, price := 3, payload := .setdoc "alice" "http://a.io" 5 11 }

example : SetDocLensOK acctExDocTx.payload := by decide
example : acctValidateTrx acctExDocTx = .ok () := rfl
example (c : AcctCtrler) (ctx : TrxContext) (h : ctx.tx = trxOf acctExDocTx) :
    AcctCtrler_ValidateTrx c ctx = .ok none :=
  AcctCtrler_ValidateTrx_eq c ctx acctExDocTx h (by decide)
/-- a SetDoc transaction without a SetDoc payload: the type assertion panics, as in the model -/
example (c : AcctCtrler) (ctx : TrxContext) (h : ctx.tx = trxOf { acctExDocTx with payload := .none }) :
    G.panics (AcctCtrler_ValidateTrx c ctx) :=
  AcctCtrler_ValidateTrx_eq c ctx { acctExDocTx with payload := .none } h (by decide)
/-- a name of 2049 bytes is refused, one of 2048 bytes is accepted (`>`, in Go and in the model) -/
example (c : AcctCtrler) (ctx : TrxContext) (name url : String) (hn : name.utf8ByteSize = 2049)
    (h : ctx.tx = trxOf { acctExDocTx with payload := .setdoc name url 2049 url.utf8ByteSize }) :
    AcctCtrler_ValidateTrx c ctx = .ok (some "ErrInvalidTrxPayloadParams") :=
  AcctCtrler_ValidateTrx_eq c ctx { acctExDocTx with payload := .setdoc name url 2049 url.utf8ByteSize } h ⟨hn, rfl⟩
example (c : AcctCtrler) (ctx : TrxContext) (name : String) (hn : name.utf8ByteSize = 2048)
    (h : ctx.tx = trxOf { acctExDocTx with payload := .setdoc name "" 2048 0 }) :
    AcctCtrler_ValidateTrx c ctx = .ok none :=
  AcctCtrler_ValidateTrx_eq c ctx { acctExDocTx with payload := .setdoc name "" 2048 0 } h ⟨hn, rfl⟩

/-- link with the model: for the two transaction types the executor hands to the account controller,
    `validateTrx` is the two common validations followed by `acctValidateTrx` -/
theorem validateTrx_acct (s : St) (exec : Bool) (height : Int) (tx : TxIn) (sender receiver : Account)
    (hty : tx.type = TRX_TRANSFER ∨ tx.type = TRX_SETDOC) :
    validateTrx s exec height tx sender receiver = (do
      Rigo.commonValidation0 s exec tx
      Rigo.commonValidation1 sender tx
      acctValidateTrx tx
      pure s) := by
  unfold validateTrx acctValidateTrx
  rcases hty with h | h
  · simp [h, TRX_TRANSFER, TRX_PROPOSAL, TRX_VOTING, TRX_SETDOC]
  · simp only [h, TRX_TRANSFER, TRX_PROPOSAL, TRX_VOTING, TRX_SETDOC]
    cases hp : tx.payload <;> simp [bind, Except.bind, pure, Except.pure, throw, throwThe, MonadExceptOf.throw]
    cases Rigo.commonValidation0 s exec tx <;> cases Rigo.commonValidation1 sender tx <;> simp
    split
    · rfl
    · split <;> rfl

/-! ### `ExecuteTrx` -/

/-- the account controller's part of the model's `runTrx`: `execTransfer`, `execSetDoc`; for any other type
    the Go code only writes the two (unchanged) accounts back -/
def acctExecuteTrx (s : St) (exec : Bool) (tx : TxIn) : Step RunOut :=
  if tx.type = TRX_TRANSFER then execTransfer s exec tx
  else if tx.type = TRX_SETDOC then execSetDoc s exec tx
  else pure { st := s }

/-- the sender and receiver objects of the context once `ExecuteTrx` has run (Go mutates `ctx.Sender` /
    `ctx.Receiver` in place): debited / credited by a successful transfer, untouched by a transfer whose
    `SubBalance` failed, name and URL replaced by a SetDoc -/
def acctExecObjs (tx : TxIn) (sender receiver : Account) : Account × Account :=
  if tx.type = TRX_TRANSFER then
    match subBalance sender tx.amount with
    | none => (sender, receiver)
    | some a1 => match addBalance receiver tx.amount with
      | none => (acctRefundedSender a1 tx.amount, receiver)
      | some r1 => (a1, r1)
  else if tx.type = TRX_SETDOC then
    match tx.payload with
    | .setdoc name url _ _ => ({ sender with name := name, doc := url }, receiver)
    | _ => (sender, receiver)
  else (sender, receiver)

/-- the Go error of the model's failure kinds of `execTransfer`: a failed `SubBalance` ("funds") is
    `ErrInsufficientFund`, or `ErrInvalidAmount` for an amount with the top bit set; a failed `AddBalance`
    ("amount") is `ErrInvalidAmount` -/
def acctExecLabel (tx : TxIn) (kind : String) : Option String :=
  if kind = "funds" then some (acctSubBalanceLabel tx.amount)
  else if kind = "amount" then some "ErrInvalidAmount"
  else none

/-- outcome for outcome: success = the controller of the model's new state, no error; a failure kind of the
    model = its Go error, returned BEFORE the accounts are written back: the controller is unchanged;
    a panic of the model (SetDoc payload of another type) = the type assertion panics -/
def AcctExecuteIs (g : G (AcctCtrler × TrxContext × Option String)) (s : St) (ctx : TrxContext) (tx : TxIn)
    (r : Step RunOut) : Prop :=
  let objs := acctExecObjs tx ctx.sender ctx.receiver
  let ctx' := { ctx with sender := objs.1, receiver := objs.2 }
  match r with
  | .ok o => g = .ok (acctCtrlOf o.st, ctx', none)
  | .error (.err k) => g = .ok (acctCtrlOf s, ctx', acctExecLabel tx k)
  | .error (.panic _) => G.panics g

/-- writing the receiver back after the sender was written: nothing changes when the receiver is the item
    the view holds under its own key and that key is not the sender's -/
theorem acct_reset_receiver (s : St) (exec : Bool) (a r : Account)
    (hr : s.accts.get exec (ledgerKey r.addr) = some r) (hne : ledgerKey a.addr ≠ ledgerKey r.addr) :
    acctCtrlOf ((s.setAcct exec a).setAcct exec r) = acctCtrlOf (s.setAcct exec a) := by
  apply acctCtrlOf_setAcct_same
  have : ¬ ledgerKey r.addr = ledgerKey a.addr := fun h => hne h.symm
  simp [St.setAcct, Led.get_set, this, hr]

theorem acct_subBalance_addr (a a1 : Account) (amt : Nat) (h : subBalance a amt = some a1) : a1.addr = a.addr := by
  unfold subBalance at h
  split at h
  · cases h
  · split at h
    · cases h
    · cases h; rfl

theorem acct_addBalance_addr (a a1 : Account) (amt : Nat) (h : addBalance a amt = some a1) : a1.addr = a.addr := by
  unfold addBalance at h
  split at h
  · cases h
  · cases h; rfl

/-- `ExecuteTrx(ctx)`: the model's `execTransfer` / `execSetDoc`, outcome for outcome.  Hypotheses:
    * `htx`, `hex`: the context is the one of `tx` on the path `exec`;
    * `hs`, `hr`: `ctx.Sender` / `ctx.Receiver` are the view's items of `tx.from_` / `tx.to` (the executor
      fills them with `FindAccount` / `FindOrNewAccount` just before);
    * `hks`, `hkr`: these items are stored under the key of their own address (the ledger stores every item
      under `item.Key()`).  Used for TRX_SETDOC and the other types only, where the Go code writes back an
      account the model does not touch (SetDoc: the receiver; other types: both): the write is invisible
      exactly because the view already holds that value under that key.  The transfer case does not use them;
    * `hne`: sender and receiver are DISTINCT items.  In Go `ctx.Sender` and `ctx.Receiver` are one object when
      the keys coincide, which the value semantics of the translation cannot express
      (see `AcctCtrler_ExecuteTrx_alias_differs`).
    On a failure of `transfer` the Go code returns before the accounts are written back: the controller is
    the unchanged `acctCtrlOf s` (`AcctExecuteIs`). -/
theorem AcctCtrler_ExecuteTrx_eq (s : St) (exec : Bool) (tx : TxIn) (ctx : TrxContext)
    (htx : ctx.tx = trxOf tx) (hex : ctx.exec = exec)
    (hs : s.findAcct exec tx.from_ = some ctx.sender) (hr : s.findAcct exec tx.to = some ctx.receiver)
    (hks : ledgerKey ctx.sender.addr = ledgerKey tx.from_) (hkr : ledgerKey ctx.receiver.addr = ledgerKey tx.to)
    (hne : ledgerKey tx.from_ ≠ ledgerKey tx.to) :
    AcctExecuteIs (AcctCtrler_ExecuteTrx (acctCtrlOf s) ctx) s ctx tx (acctExecuteTrx s exec tx) := by
  obtain ⟨height, txHash, ctxtx, exec0, pk, sender, receiver, gasUsed, chainId⟩ := ctx
  simp only at htx hex hs hr hks hkr
  subst htx; subst hex
  have hne' : ledgerKey sender.addr ≠ ledgerKey receiver.addr := by rw [hks, hkr]; exact hne
  have hs' : s.accts.get exec0 (ledgerKey sender.addr) = some sender := by rw [hks]; exact hs
  have hr' : s.accts.get exec0 (ledgerKey receiver.addr) = some receiver := by rw [hkr]; exact hr
  unfold AcctCtrler_ExecuteTrx acctExecuteTrx AcctExecuteIs acctExecObjs
  simp only [Trx_GetType_eq, bind, Except.bind, pure, Except.pure]
  by_cases h1 : tx.type = TRX_TRANSFER
  · have h1' : tx.type = 1 := h1
    unfold execTransfer
    simp only [h1', TRX_TRANSFER, if_true, hs, hr, AcctCtrler_transfer_eq, trxOf, bind, Except.bind, pure, Except.pure]
    have hb : (ledgerKey tx.from_ == ledgerKey tx.to) = false := by simp [hne]
    simp only [hb]
    cases hsub : subBalance sender tx.amount with
    | none => simp [acctExecLabel, throw, throwThe, MonadExceptOf.throw]
    | some a1 =>
      cases hadd : addBalance receiver tx.amount with
      | none => simp [acctExecLabel, throw, throwThe, MonadExceptOf.throw]
      | some r1 => simp [AcctCtrler_setAccountCommittable_eq, bind, Except.bind, pure, Except.pure]
  · have h1' : ¬ tx.type = 1 := h1
    by_cases h7 : tx.type = TRX_SETDOC
    · have h7' : tx.type = 7 := h7
      unfold execSetDoc
      simp only [h7', TRX_TRANSFER, TRX_SETDOC, if_true, hs, trxOf, bind, Except.bind, pure, Except.pure]
      cases hp : tx.payload
      case setdoc name url nl ul =>
        have := acct_reset_receiver s exec0 { sender with name := name, doc := url } receiver hr' hne'
        simp [payOf, TrxPayload.asSetdoc, gassert, AcctCtrler_setDoc_eq, AcctCtrler_setAccountCommittable_eq,
          bind, Except.bind, pure, Except.pure, this]
      all_goals
        simp [payOf, TrxPayload.asSetdoc, gassert, throw, throwThe, MonadExceptOf.throw,
          bind, Except.bind, pure, Except.pure]
    · have h7' : ¬ tx.type = 7 := h7
      have e1 := acct_reset_receiver s exec0 sender receiver hr' hne'
      have e2 := e1.trans (acctCtrlOf_setAcct_same s exec0 sender hs')
      simp [h1, h1', h7, h7', AcctCtrler_setAccountCommittable_eq, bind, Except.bind, pure, Except.pure, e2]

/-- the model's `execTransfer` never fails with "amount": after a successful `SubBalance` the `AddBalance`
    of the same amount succeeds (dead branch of the Go `transfer`) -/
theorem execTransfer_ne_amount (s : St) (exec : Bool) (tx : TxIn) :
    execTransfer s exec tx ≠ .error (.err "amount") := by
  unfold execTransfer
  simp only [bind, Except.bind, pure, Except.pure, throw, throwThe, MonadExceptOf.throw]
  cases hs : s.findAcct exec tx.from_ with
  | none => simp
  | some sender =>
    cases hk : (ledgerKey tx.from_ == ledgerKey tx.to) with
    | true =>
      cases hsub : subBalance sender tx.amount with
      | none => simp [hsub]
      | some a1 =>
        have := acct_transfer_add_isSome sender a1 a1 tx.amount hsub
        cases hadd : addBalance a1 tx.amount with
        | none => simp [hadd] at this
        | some a2 => simp [hsub, hadd]
    | false =>
      cases hr : s.findAcct exec tx.to with
      | none => simp
      | some receiver =>
        cases hsub : subBalance sender tx.amount with
        | none => simp [hsub]
        | some a1 =>
          have := acct_transfer_add_isSome sender a1 receiver tx.amount hsub
          cases hadd : addBalance receiver tx.amount with
          | none => simp [hadd] at this
          | some a2 => simp [hsub, hadd]

/-- after a successful `ExecuteTrx` the context's sender and receiver are again the view's items of
    `tx.from_` and `tx.to` in the new state (what `postRunTrx` relies on) -/
theorem acctExecObjs_are_items (s : St) (exec : Bool) (tx : TxIn) (sender receiver : Account) (o : RunOut)
    (hs : s.findAcct exec tx.from_ = some sender) (hr : s.findAcct exec tx.to = some receiver)
    (hks : ledgerKey sender.addr = ledgerKey tx.from_) (hkr : ledgerKey receiver.addr = ledgerKey tx.to)
    (hne : ledgerKey tx.from_ ≠ ledgerKey tx.to) (ho : acctExecuteTrx s exec tx = .ok o) :
    o.st.findAcct exec tx.from_ = some (acctExecObjs tx sender receiver).1 ∧
    o.st.findAcct exec tx.to = some (acctExecObjs tx sender receiver).2 := by
  have hne2 : ¬ ledgerKey tx.to = ledgerKey tx.from_ := fun h => hne h.symm
  unfold acctExecuteTrx at ho
  unfold acctExecObjs
  by_cases h1 : tx.type = TRX_TRANSFER
  · simp only [h1, if_true] at ho ⊢
    unfold execTransfer at ho
    have hb : (ledgerKey tx.from_ == ledgerKey tx.to) = false := by simp [hne]
    simp only [hs, hr, hb, bind, Except.bind, pure, Except.pure, throw, throwThe, MonadExceptOf.throw] at ho
    cases hsub : subBalance sender tx.amount with
    | none => simp [hsub] at ho
    | some a1 =>
      cases hadd : addBalance receiver tx.amount with
      | none => simp [hsub, hadd] at ho
      | some r1 =>
        simp [hsub, hadd] at ho
        subst ho
        have ka := acct_subBalance_addr _ _ _ hsub
        have kr := acct_addBalance_addr _ _ _ hadd
        simp [acct_findAcct_setAcct, ka, kr, hks, hkr, hne, hne2]
  · by_cases h7 : tx.type = TRX_SETDOC
    · have hd : ¬ TRX_SETDOC = TRX_TRANSFER := by decide
      simp only [h7, hd, if_true, if_false] at ho ⊢
      unfold execSetDoc at ho
      simp only [hs, bind, Except.bind, pure, Except.pure, throw, throwThe, MonadExceptOf.throw] at ho
      cases hp : tx.payload
      case setdoc name url nl ul =>
        simp [hp] at ho
        subst ho
        simp [acct_findAcct_setAcct, hks, hne2, hr]
      all_goals simp [hp] at ho
    · simp only [h1, h7, if_false, pure, Except.pure] at ho ⊢
      cases ho
      exact ⟨hs, hr⟩

/-! #### all hypotheses of `AcctCtrler_ExecuteTrx_eq` hold on a concrete transfer, and the conclusion computes -/

def acctExAddrA : Hex := "00000000000000000000000000000000000000aa"
def acctExAddrB : Hex := "00000000000000000000000000000000000000bb"
def acctExA : Account := { addr := acctExAddrA, bal := 100, nonce := 3 }
def acctExB : Account := { addr := acctExAddrB, bal := 5 }
/-- a state whose consensus view holds the two accounts -/
def acctExSt : St := (({} : St).setAcct true acctExA).setAcct true acctExB
def acctExXferTx : TxIn := { from_ := acctExAddrA, to := acctExAddrB, amount := 30, type := 1, gas := 10, price := 3 }
def acctExXferCtx : TrxContext := ctxOf acctExSt true 7 acctExXferTx acctExA acctExB

theorem acctExKeys_ne : ledgerKey acctExAddrA ≠ ledgerKey acctExAddrB := by decide

theorem acctExSt_A : acctExSt.findAcct true acctExAddrA = some acctExA := by
  simp [acctExSt, acct_findAcct_setAcct, acctExA, acctExB, acctExKeys_ne]

theorem acctExSt_B : acctExSt.findAcct true acctExAddrB = some acctExB := by
  simp [acctExSt, acct_findAcct_setAcct, acctExA, acctExB]

example : AcctExecuteIs (AcctCtrler_ExecuteTrx (acctCtrlOf acctExSt) acctExXferCtx) acctExSt acctExXferCtx acctExXferTx
    (acctExecuteTrx acctExSt true acctExXferTx) :=
  AcctCtrler_ExecuteTrx_eq acctExSt true acctExXferTx acctExXferCtx rfl rfl acctExSt_A acctExSt_B rfl rfl acctExKeys_ne

/-- ... the sender is debited, the receiver credited, both written to the consensus view -/
example : acctExecuteTrx acctExSt true acctExXferTx =
    .ok { st := (acctExSt.setAcct true { acctExA with bal := 70 }).setAcct true { acctExB with bal := 35 } } := by
  unfold acctExecuteTrx execTransfer
  have hb : (ledgerKey acctExXferTx.from_ == ledgerKey acctExXferTx.to) = false := by decide
  have h1 : subBalance acctExA 30 = some { acctExA with bal := 70 } := by decide
  have h2 : addBalance acctExB 30 = some { acctExB with bal := 35 } := by decide
  simp only [show acctExXferTx.type = TRX_TRANSFER from rfl, if_true, hb, bind, Except.bind, pure, Except.pure,
    show acctExXferTx.from_ = acctExAddrA from rfl, show acctExXferTx.to = acctExAddrB from rfl, acctExSt_A, acctExSt_B,
    show acctExXferTx.amount = 30 from rfl, h1, h2]
  rfl

/-- a SetDoc of A (receiver B, a distinct item): the sender's name and URL are replaced in the consensus view;
    the Go code also writes the unchanged receiver back, which the controller's views do not show -/
example : AcctExecuteIs (AcctCtrler_ExecuteTrx (acctCtrlOf acctExSt) (ctxOf acctExSt true 7 acctExDocTx acctExA acctExB))
    acctExSt (ctxOf acctExSt true 7 acctExDocTx acctExA acctExB) acctExDocTx
    (.ok { st := acctExSt.setAcct true { acctExA with name := "alice", doc := "http://a.io" } }) := by
  have := AcctCtrler_ExecuteTrx_eq acctExSt true acctExDocTx (ctxOf acctExSt true 7 acctExDocTx acctExA acctExB) rfl rfl
    acctExSt_A acctExSt_B rfl rfl acctExKeys_ne
  have hm : acctExecuteTrx acctExSt true acctExDocTx =
      .ok { st := acctExSt.setAcct true { acctExA with name := "alice", doc := "http://a.io" } } := by
    unfold acctExecuteTrx execSetDoc
    have hd : ¬ (acctExDocTx.type = TRX_TRANSFER) := by decide
    simp only [hd, show acctExDocTx.type = TRX_SETDOC from rfl, if_true, if_false, bind, Except.bind, pure, Except.pure,
      show acctExDocTx.from_ = acctExAddrA from rfl, acctExSt_A]
    rfl
  rw [hm] at this
  exact this

/-! #### the limit of the translation: sender and receiver are ONE object in Go when the keys coincide -/

/-- a state whose consensus view holds account A only -/
def acctExSelfSt : St := ({} : St).setAcct true acctExA
/-- A sends 30 to itself -/
def acctExSelfTx : TxIn := { from_ := acctExAddrA, to := acctExAddrA, amount := 30, type := 1, gas := 10, price := 3 }
def acctExSelfCtx : TrxContext := ctxOf acctExSelfSt true 7 acctExSelfTx acctExA acctExA

theorem acctExSelfSt_A : acctExSelfSt.findAcct true acctExAddrA = some acctExA := by
  simp [acctExSelfSt, acct_findAcct_setAcct, acctExA]

/-- A self-transfer (`tx.from_ = tx.to`; all other hypotheses of `AcctCtrler_ExecuteTrx_eq` hold): the
    generated function, fed the same account value as sender and as receiver, debits one copy (70) and
    credits the other (130) and writes both under the one key: the account ends with balance 130.  The model's
    `execTransfer` has the branch for this case (one object: debit then credit, balance 100), which is what
    the Go code does, `ctx.Sender` and `ctx.Receiver` being the same pointer (the cached ledger item).
    This is NOT a defect of the Go code: it is the limit of the translator's value semantics (distinct
    pointer inputs are assumed not to alias). -/
theorem AcctCtrler_ExecuteTrx_alias_differs :
    acctExSelfCtx.tx = trxOf acctExSelfTx ∧ acctExSelfCtx.exec = true ∧
    acctExSelfSt.findAcct true acctExSelfTx.from_ = some acctExSelfCtx.sender ∧
    acctExSelfSt.findAcct true acctExSelfTx.to = some acctExSelfCtx.receiver ∧
    ledgerKey acctExSelfCtx.sender.addr = ledgerKey acctExSelfTx.from_ ∧
    ledgerKey acctExSelfCtx.receiver.addr = ledgerKey acctExSelfTx.to ∧
    ∃ (c' : AcctCtrler) (ctx' : TrxContext) (o : RunOut),
      AcctCtrler_ExecuteTrx (acctCtrlOf acctExSelfSt) acctExSelfCtx = .ok (c', ctx', none) ∧
      acctExecuteTrx acctExSelfSt true acctExSelfTx = .ok o ∧
      c'.acctLedger.get true (ledgerKey acctExAddrA) = some { acctExA with bal := 130 } ∧
      (acctCtrlOf o.st).acctLedger.get true (ledgerKey acctExAddrA) = some { acctExA with bal := 100 } ∧
      c' ≠ acctCtrlOf o.st := by
  refine ⟨rfl, rfl, acctExSelfSt_A, acctExSelfSt_A, rfl, rfl, ?_⟩
  have h1 : subBalance acctExA 30 = some { acctExA with bal := 70 } := by decide
  have h2 : addBalance acctExA 30 = some { acctExA with bal := 130 } := by decide
  have h3 : addBalance { acctExA with bal := 70 } 30 = some { acctExA with bal := 100 } := by decide
  have hg : AcctCtrler_ExecuteTrx (acctCtrlOf acctExSelfSt) acctExSelfCtx =
      .ok (acctCtrlOf ((acctExSelfSt.setAcct true { acctExA with bal := 70 }).setAcct true { acctExA with bal := 130 }),
        { acctExSelfCtx with sender := { acctExA with bal := 70 }, receiver := { acctExA with bal := 130 } }, none) := by
    unfold AcctCtrler_ExecuteTrx
    simp only [show acctExSelfCtx.tx = trxOf acctExSelfTx from rfl, Trx_GetType_eq, bind, Except.bind, pure, Except.pure,
      show acctExSelfTx.type = 1 from rfl, if_true, AcctCtrler_transfer_eq,
      show acctExSelfCtx.sender = acctExA from rfl, show acctExSelfCtx.receiver = acctExA from rfl,
      show (trxOf acctExSelfTx).amount = 30 from rfl, h1, h2]
    simp [AcctCtrler_setAccountCommittable_eq, bind, Except.bind, pure, Except.pure,
      show acctExSelfCtx.exec = true from rfl]
  have hm : acctExecuteTrx acctExSelfSt true acctExSelfTx = .ok { st := acctExSelfSt.setAcct true { acctExA with bal := 100 } } := by
    unfold acctExecuteTrx execTransfer
    simp only [show acctExSelfTx.type = TRX_TRANSFER from rfl, if_true, bind, Except.bind, pure, Except.pure,
      show acctExSelfTx.from_ = acctExAddrA from rfl, show acctExSelfTx.to = acctExAddrA from rfl, beq_self_eq_true,
      acctExSelfSt_A, show acctExSelfTx.amount = 30 from rfl, h1, h3]
  have g1 : (acctCtrlOf ((acctExSelfSt.setAcct true { acctExA with bal := 70 }).setAcct true
      { acctExA with bal := 130 })).acctLedger.get true (ledgerKey acctExAddrA) = some { acctExA with bal := 130 } := by
    simp [acctCtrlOf, St.setAcct, Led.get_set, acctExA]
  have g2 : (acctCtrlOf (acctExSelfSt.setAcct true { acctExA with bal := 100 })).acctLedger.get true (ledgerKey acctExAddrA) =
      some { acctExA with bal := 100 } := by
    simp [acctCtrlOf, St.setAcct, Led.get_set, acctExA]
  refine ⟨_, _, _, hg, hm, g1, g2, ?_⟩
  intro h
  rw [h, g2] at g1
  revert g1
  decide

/-- the Go error of a failed `SubBalance` is `ErrInvalidAmount`, not `ErrInsufficientFund`, for an amount with
    the top bit set, where the model's `execTransfer` says "funds" in both cases.  Not reachable: the common
    validation (`commonValidation0`) rejects such an amount ("amount", `ErrInvalidAmount`) before. -/
theorem AcctCtrler_transfer_label_differs :
    ∃ (c : AcctCtrler) (a b : Account) (amt : Nat), subBalance a amt = none ∧
      AcctCtrler_transfer c a b amt = .ok (a, b, some "ErrInvalidAmount") := by
  refine ⟨acctCtrlOf {}, acctExA, acctExB, two255, by decide, ?_⟩
  rw [AcctCtrler_transfer_eq']
  have : subBalance acctExA two255 = none := by decide
  simp [this, acctSubBalanceLabel, isNeg256]

/-! ### `EndBlock` -/

theorem acct_sign256_pos (a : Nat) : sign256 a > 0 ↔ (a > 0 ∧ (!isNeg256 a) = true) := by
  unfold sign256 isNeg256
  by_cases h0 : a = 0
  · subst h0; simp
  · by_cases h1 : a ≥ two255
    · simp [h0, h1]
    · simp [h0, h1]; omega

/-- the model's panic branch of `feeHandover` ("EndBlock: AddBalance failed") is unreachable: the guard
    has already excluded a fee sum with the top bit set -/
theorem feeHandover_no_panic (s : St) (b : BlockCtx) : ∃ s', feeHandover s b = .ok s' := by
  unfold feeHandover
  split
  · next h =>
    have hn : isNeg256 b.feeSum = false := by
      have := h.2.2; simpa using this
    simp [addBalance, hn]
  · exact ⟨_, rfl⟩

/-- `EndBlock` with the header's proposer address and the block's fee sum: the model's `feeHandover`.
    The new controller is the account controller of the model's new state (the ghost counter `feeBurn` is
    not part of the Go state).  Where the model panics ("EndBlock: AddBalance failed") the Go code returns
    the error `ErrInvalidAmount` with the controller unchanged; by `feeHandover_no_panic` that does not
    happen. -/
theorem AcctCtrler_EndBlock_eq (s : St) (b : BlockCtx) (bc : BlockContext) :
    AcctCtrler_EndBlock (acctCtrlOf s) bc b.proposer b.feeSum = .ok (match feeHandover s b with
      | .ok s' => (acctCtrlOf s', [], none)
      | .panic _ => (acctCtrlOf s, [], some "ErrInvalidAmount")) := by
  unfold AcctCtrler_EndBlock feeHandover
  simp only [acct_sign256_pos, AcctCtrler_findAccount_eq, bind, Except.bind, pure, Except.pure]
  by_cases hg : b.proposer ≠ "" ∧ b.feeSum > 0 ∧ (!isNeg256 b.feeSum) = true
  · simp only [if_pos hg]
    cases hf : s.findAcct true b.proposer with
    | none =>
      simp only [Option.isNone_none, if_true, NewAccount_eq, gderef, Account_AddBalance_eq, Option.getD_none,
        bind, Except.bind, pure, Except.pure]
      cases hadd : addBalance { addr := b.proposer } b.feeSum with
      | none => simp
      | some a' => simp [AcctCtrler_setAccountCommittable_eq, bind, Except.bind, pure, Except.pure]
    | some a =>
      simp only [Option.isNone_some, gderef, Account_AddBalance_eq, Option.getD_some,
        bind, Except.bind, pure, Except.pure]
      cases hadd : addBalance a b.feeSum with
      | none => simp
      | some a' => simp [AcctCtrler_setAccountCommittable_eq, bind, Except.bind, pure, Except.pure]
  · simp only [if_neg hg]
    rfl

/-- `EndBlock` never returns an error -/
theorem AcctCtrler_EndBlock_no_error (s : St) (b : BlockCtx) (bc : BlockContext) :
    ∃ s', feeHandover s b = .ok s' ∧
      AcctCtrler_EndBlock (acctCtrlOf s) bc b.proposer b.feeSum = .ok (acctCtrlOf s', [], none) := by
  obtain ⟨s', h⟩ := feeHandover_no_panic s b
  exact ⟨s', h, by rw [AcctCtrler_EndBlock_eq, h]⟩

/-- a block of proposer B with fee sum 12: B's balance goes from 5 to 17 in the consensus view -/
example : ∃ s', feeHandover acctExSt { height := 9, proposer := acctExAddrB, feeSum := 12 } = .ok s' ∧
    AcctCtrler_EndBlock (acctCtrlOf acctExSt) {} acctExAddrB 12 = .ok (acctCtrlOf s', [], none) ∧
    s'.findAcct true acctExAddrB = some { acctExB with bal := 17 } := by
  have h2 : addBalance acctExB 12 = some { acctExB with bal := 17 } := by decide
  refine ⟨acctExSt.setAcct true { acctExB with bal := 17 }, ?_, ?_, ?_⟩
  · unfold feeHandover
    have hg : (acctExAddrB ≠ "" ∧ 12 > 0 ∧ (!isNeg256 12) = true) := by decide
    simp only [if_pos hg, acctExSt_B, Option.getD_some, h2]
  · have := AcctCtrler_EndBlock_eq acctExSt { height := 9, proposer := acctExAddrB, feeSum := 12 } {}
    rw [this]
    unfold feeHandover
    have hg : (acctExAddrB ≠ "" ∧ 12 > 0 ∧ (!isNeg256 12) = true) := by decide
    simp only [if_pos hg, acctExSt_B, Option.getD_some, h2]
  · simp [acct_findAcct_setAcct, acctExB]

end Rigo.GenEq
