/-
  C13 / C15: frame lemmas — which parts of the state one transaction (`handleTx`) can change.
  No transaction touches the governance parameters (ledger, active, pending), the frozen proposals,
  the validator lists, the block context or any committed history; rewards and the withdrawal ghost
  counter change only through TRX_WITHDRAW, open proposals only through TRX_PROPOSAL / TRX_VOTING,
  delegatees only through TRX_STAKING / TRX_UNSTAKING.
-/
import Rigo.Block

namespace Rigo

@[simp] theorem Led.set_hist {α : Type} (l : Led α) (e : Bool) (k : String) (v : α) : (l.set e k v).hist = l.hist := by
  unfold Led.set; split <;> rfl
@[simp] theorem Led.del_hist {α : Type} (l : Led α) (e : Bool) (k : String) : (l.del e k).hist = l.hist := by
  unfold Led.del; split <;> rfl
@[simp] theorem Led.set_fin_false {α : Type} (l : Led α) (k : String) (v : α) : (l.set false k v).fin = l.fin := by
  simp [Led.set]
@[simp] theorem Led.del_fin_false {α : Type} (l : Led α) (k : String) : (l.del false k).fin = l.fin := by
  simp [Led.del]
@[simp] theorem Led.set_fin_true {α : Type} (l : Led α) (k : String) (v : α) : (l.set true k v).fin = l.fin.insert k v := by
  simp [Led.set]
@[simp] theorem Led.del_fin_true {α : Type} (l : Led α) (k : String) : (l.del true k).fin = l.fin.erase k := by
  simp [Led.del]

/-- what no transaction ever changes -/
def Fr (s s' : St) : Prop :=
  s'.params = s.params ∧ s'.fprops = s.fprops ∧ s'.active = s.active ∧ s'.pending = s.pending ∧
  s'.lastVals = s.lastVals ∧ s'.allDelegs = s.allDelegs ∧ s'.blk = s.blk ∧ s'.lastHeight = s.lastHeight ∧
  s'.chainId = s.chainId ∧ s'.delegs.hist = s.delegs.hist ∧ s'.rewards.hist = s.rewards.hist ∧
  s'.props.hist = s.props.hist

/-- rewards and the withdrawal ghost counter untouched -/
def FrR (s s' : St) : Prop := s'.rewards = s.rewards ∧ s'.ghost = s.ghost
/-- open proposals untouched -/
def FrP (s s' : St) : Prop := s'.props = s.props
/-- delegatees untouched -/
def FrD (s s' : St) : Prop := s'.delegs = s.delegs

theorem Fr.refl (s : St) : Fr s s := by simp [Fr]
theorem Fr.trans {a b c : St} (h1 : Fr a b) (h2 : Fr b c) : Fr a c := by
  unfold Fr at *; simp_all
theorem FrR.refl (s : St) : FrR s s := by simp [FrR]
theorem FrR.trans {a b c : St} (h1 : FrR a b) (h2 : FrR b c) : FrR a c := by unfold FrR at *; simp_all
theorem FrP.refl (s : St) : FrP s s := rfl
theorem FrP.trans {a b c : St} (h1 : FrP a b) (h2 : FrP b c) : FrP a c := by unfold FrP at *; simp_all
theorem FrD.refl (s : St) : FrD s s := rfl
theorem FrD.trans {a b c : St} (h1 : FrD a b) (h2 : FrD b c) : FrD a c := by unfold FrD at *; simp_all

/-- everything but the account ledger untouched -/
def FrAll (s s' : St) : Prop := Fr s s' ∧ FrR s s' ∧ FrP s s' ∧ FrD s s'
theorem FrAll.refl (s : St) : FrAll s s := ⟨Fr.refl s, FrR.refl s, FrP.refl s, FrD.refl s⟩
theorem FrAll.trans {a b c : St} (h1 : FrAll a b) (h2 : FrAll b c) : FrAll a c :=
  ⟨h1.1.trans h2.1, h1.2.1.trans h2.2.1, h1.2.2.1.trans h2.2.2.1, h1.2.2.2.trans h2.2.2.2⟩

theorem setAcct_frAll (s : St) (e : Bool) (a : Account) : FrAll s (s.setAcct e a) := by
  simp [FrAll, Fr, FrR, FrP, FrD, St.setAcct]

theorem findOrNewAcct_frAll (s : St) (e : Bool) (a : Hex) : FrAll s (s.findOrNewAcct e a).1 := by
  unfold St.findOrNewAcct
  split
  · exact FrAll.refl s
  · exact setAcct_frAll _ _ _

theorem reward_frAll {s s' : St} {e : Bool} {to : Hex} {amt : Nat} (h : s.reward e to amt = some s') : FrAll s s' := by
  unfold St.reward at h
  split at h
  · cases h
  · split at h
    · cases h
    · cases h; exact setAcct_frAll _ _ _

/-! ### validation changes the limiter only -/

theorem limit_eq {s s1 : St} {e : Bool} {a : Hex} {t d : Int} (h : s.limit e a t d = .ok s1) :
    ∃ l, s1 = { s with limiter := l } := by
  unfold St.limit at h
  split at h
  · split at h
    · cases h; exact ⟨_, rfl⟩
    · cases h
    · cases h
  · cases h; exact ⟨s.limiter, rfl⟩

theorem validateStaking_eq {s s1 : St} {e : Bool} {tx : TxIn} (h : validateStaking s e tx = .ok s1) :
    ∃ l, s1 = { s with limiter := l } := by
  unfold validateStaking at h
  simp only [bind, Except.bind, pure, Except.pure, throw, throwThe, MonadExceptOf.throw] at h
  repeat' split at h
  all_goals first | cases h | exact limit_eq h

theorem validateUnstaking_eq {s s1 : St} {e : Bool} {tx : TxIn} (h : validateUnstaking s e tx = .ok s1) :
    ∃ l, s1 = { s with limiter := l } := by
  unfold validateUnstaking at h
  simp only [bind, Except.bind, pure, Except.pure, throw, throwThe, MonadExceptOf.throw] at h
  repeat' split at h
  all_goals first | cases h | exact limit_eq h

theorem validateWithdraw_eq {s s1 : St} {e : Bool} {tx : TxIn} (h : validateWithdraw s e tx = .ok s1) : s1 = s := by
  unfold validateWithdraw at h
  simp only [bind, Except.bind, pure, Except.pure, throw, throwThe, MonadExceptOf.throw] at h
  repeat' split at h
  all_goals first | cases h | skip
  all_goals rfl

theorem validateProposal_eq {s s1 : St} {e : Bool} {ht : Int} {tx : TxIn} (h : validateProposal s e ht tx = .ok s1) : s1 = s := by
  unfold validateProposal at h
  simp only [bind, Except.bind, pure, Except.pure, throw, throwThe, MonadExceptOf.throw] at h
  repeat' split at h
  all_goals first | cases h | skip
  all_goals rfl

theorem validateVoting_eq {s s1 : St} {e : Bool} {ht : Int} {tx : TxIn} (h : validateVoting s e ht tx = .ok s1) : s1 = s := by
  unfold validateVoting at h
  simp only [bind, Except.bind, pure, Except.pure, throw, throwThe, MonadExceptOf.throw] at h
  repeat' split at h
  all_goals first | cases h | skip
  all_goals rfl

theorem validateEvm_eq {s s1 : St} {tx : TxIn} {rc : Account} (h : validateEvm s tx rc = .ok s1) : s1 = s := by
  unfold validateEvm at h
  simp only [bind, Except.bind, pure, Except.pure, throw, throwThe, MonadExceptOf.throw] at h
  repeat' split at h
  all_goals first | cases h | skip
  all_goals rfl

theorem validateTrx_limiter {s s1 : St} {e : Bool} {ht : Int} {tx : TxIn} {snd rcv : Account}
    (h : validateTrx s e ht tx snd rcv = .ok s1) : ∃ l, s1 = { s with limiter := l } := by
  unfold validateTrx at h
  simp only [bind, Except.bind, pure, Except.pure, throw, throwThe, MonadExceptOf.throw] at h
  split at h
  · cases h
  split at h
  · cases h
  split at h
  · exact ⟨s.limiter, validateProposal_eq h⟩
  split at h
  · exact ⟨s.limiter, validateVoting_eq h⟩
  split at h
  · cases h; exact ⟨s.limiter, rfl⟩
  split at h
  · repeat' split at h
    all_goals first | cases h | skip
    all_goals exact ⟨s.limiter, rfl⟩
  split at h
  · exact validateStaking_eq h
  split at h
  · exact validateUnstaking_eq h
  split at h
  · exact ⟨s.limiter, validateWithdraw_eq h⟩
  split at h
  · exact ⟨s.limiter, validateEvm_eq h⟩
  · cases h

theorem limiter_frAll (s : St) (l : Limiter) : FrAll s { s with limiter := l } := by
  simp [FrAll, Fr, FrR, FrP, FrD]

/-! ### execution bodies -/

theorem execTransfer_fr {s : St} {e : Bool} {tx : TxIn} {r : RunOut} (h : execTransfer s e tx = .ok r) : FrAll s r.st := by
  unfold execTransfer at h
  simp only [bind, Except.bind, pure, Except.pure, throw, throwThe, MonadExceptOf.throw] at h
  repeat' split at h
  all_goals first | cases h | skip
  all_goals simp_all [St.setAcct, FrAll, Fr, FrR, FrP, FrD]

theorem execSetDoc_fr {s : St} {e : Bool} {tx : TxIn} {r : RunOut} (h : execSetDoc s e tx = .ok r) : FrAll s r.st := by
  unfold execSetDoc at h
  simp only [bind, Except.bind, pure, Except.pure, throw, throwThe, MonadExceptOf.throw] at h
  repeat' split at h
  all_goals first | cases h | skip
  all_goals simp_all [St.setAcct, FrAll, Fr, FrR, FrP, FrD]

theorem execStaking_fr {s : St} {e : Bool} {ht : Int} {tx : TxIn} {r : RunOut} (h : execStaking s e ht tx = .ok r) :
    Fr s r.st ∧ FrR s r.st ∧ FrP s r.st := by
  unfold execStaking at h
  simp only [bind, Except.bind, pure, Except.pure, throw, throwThe, MonadExceptOf.throw] at h
  repeat' split at h
  all_goals first | cases h | skip
  all_goals simp_all [St.setAcct, Fr, FrR, FrP]

theorem execUnstaking_fr {s : St} {e : Bool} {ht : Int} {tx : TxIn} {r : RunOut} (h : execUnstaking s e ht tx = .ok r) :
    Fr s r.st ∧ FrR s r.st ∧ FrP s r.st := by
  unfold execUnstaking at h
  simp only [bind, Except.bind, pure, Except.pure, throw, throwThe, MonadExceptOf.throw] at h
  repeat' split at h
  all_goals first | cases h | skip
  all_goals simp_all [St.setAcct, Fr, FrR, FrP]

theorem execProposal_fr {s : St} {e : Bool} {tx : TxIn} {r : RunOut} (h : execProposal s e tx = .ok r) :
    Fr s r.st ∧ FrR s r.st ∧ FrD s r.st := by
  unfold execProposal at h
  simp only [bind, Except.bind, pure, Except.pure, throw, throwThe, MonadExceptOf.throw] at h
  repeat' split at h
  all_goals first | cases h | skip
  all_goals simp_all [Fr, FrR, FrD]

theorem execVoting_fr {s : St} {e : Bool} {tx : TxIn} {r : RunOut} (h : execVoting s e tx = .ok r) :
    Fr s r.st ∧ FrR s r.st ∧ FrD s r.st := by
  unfold execVoting at h
  simp only [bind, Except.bind, pure, Except.pure, throw, throwThe, MonadExceptOf.throw] at h
  repeat' split at h
  all_goals first | cases h | skip
  all_goals simp_all [Fr, FrR, FrD]

theorem execWithdraw_fr {s : St} {e : Bool} {ht : Int} {tx : TxIn} {r : RunOut} (h : execWithdraw s e ht tx = .ok r) :
    Fr s r.st ∧ FrP s r.st ∧ FrD s r.st := by
  unfold execWithdraw at h
  simp only [bind, Except.bind, pure, Except.pure, throw, throwThe, MonadExceptOf.throw] at h
  repeat' split at h
  all_goals first | cases h | skip
  all_goals
    have := reward_frAll (by assumption)
    simp_all [FrAll, Fr, FrR, FrP, FrD]

theorem foldl_frAll {β : Type} (f : St → β → St) (hf : ∀ acc x, FrAll acc (f acc x)) (l : List β) (s : St) :
    FrAll s (l.foldl f s) := by
  induction l generalizing s with
  | nil => exact FrAll.refl s
  | cons a l ih => exact (hf s a).trans (ih _)

theorem execEvm_fr {s : St} {e : Bool} {tx : TxIn} {r : RunOut} (h : execEvm s e tx = .ok r) : FrAll s r.st := by
  unfold execEvm at h
  simp only [bind, Except.bind, pure, Except.pure, throw, throwThe, MonadExceptOf.throw] at h
  have hA : ∀ (l : List Hex) (s : St), FrAll s (l.foldl (fun acc a => (acc.findOrNewAcct true a).1) s) :=
    fun l s => foldl_frAll _ (fun acc a => findOrNewAcct_frAll acc true a) l s
  repeat' split at h
  all_goals first | cases h | skip
  · exact FrAll.refl s
  · exact hA _ _
  · refine ((hA _ _).trans (foldl_frAll _ ?_ _ _)).trans (setAcct_frAll _ _ _)
    intro acc x; exact (findOrNewAcct_frAll acc true x.1).trans (setAcct_frAll _ _ _)
  · refine (hA _ _).trans (foldl_frAll _ ?_ _ _)
    intro acc x; exact (findOrNewAcct_frAll acc true x.1).trans (setAcct_frAll _ _ _)

end Rigo
