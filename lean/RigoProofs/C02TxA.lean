/-
  C02 helper: conservation for the bodies of the account-only transactions (transfer, set-doc,
  proposal, voting, reward withdrawal) and for the fee debit of `runTrx`.
-/
import RigoProofs.C02Basic

namespace Rigo.C02

open Std Rigo.Delegatee

/-- result of a transaction body on the consensus path: invariants kept, `holdings` grows exactly by
    the withdrawn reward `dW` (0 for everything except a reward withdrawal) -/
structure BodyOK (s r : St) (dW : Nat) : Prop where
  inv0 : Inv0 r
  frame : Frame s r
  sync : FrozenSync s → FrozenSync r
  hold : holdings r = holdings s + dW
  wd : r.ghost.withdrawn = s.ghost.withdrawn + dW
  small : dW < two255

theorem bal_lt_of_bound {s : St} (hi : Inv0 s) {B : Int} (hb : holdings s < B) {k : String} {a : Account}
    (h : s.accts.fin[k]? = some a) : (a.bal : Int) < B := by
  have h1 := bal_le_sumBal s.accts.fin h
  have h2 := sumBal_le_holdings hi
  omega

theorem sync_setAcct {s : St} (a : Account) (h : FrozenSync s) : FrozenSync (s.setAcct true a) := h

/-- replace the account stored under `k` (same address): `holdings` changes by the balance difference -/
theorem holdings_update {s : St} (hi : Inv0 s) {k : String} {a a' : Account} (h : s.accts.fin[k]? = some a)
    (haddr : a'.addr = a.addr) : holdings (s.setAcct true a') = holdings s - a.bal + a'.bal := by
  rw [holdings_setAcct, haddr, hi.acctKey k a h, fAt_some _ h]

/-- `hold_upd hi, hs` rewrites `holdings (s.setAcct true a')` in a goal `holdings _ = _` -/
macro "hold_upd " hi:term ", " hs:term : tactic =>
  `(tactic| (refine Eq.trans (holdings_update $hi $hs ?_) ?_; · rfl))

theorem execTransfer_ok {s : St} {tx : TxIn} {r : RunOut} (h : execTransfer s true tx = .ok r)
    (hi : Inv0 s) (hb : holdings s < (two255 : Int)) : BodyOK s r.st 0 ∧ r.fail = none := by
  simp only [execTransfer, pure, Except.pure, throw, throwThe, MonadExceptOf.throw] at h
  split at h
  case h_2 => cases h
  rename_i sender hs
  rw [findAcct_true] at hs
  have hsb := bal_lt_of_bound hi hb hs
  have h255 := two255_lt
  split at h
  · -- sender and receiver are the same ledger item
    split at h; · cases h
    rename_i a1 h1
    split at h; · cases h
    rename_i a2 h2
    injection h with h; subst h
    obtain ⟨e1, hle⟩ := subBalance_exact h1 (by omega)
    have e2 := addBalance_exact h2 (by subst e1; simp; omega)
    subst e1; subst e2
    refine ⟨⟨inv0_setAcct hi _, frame_setAcct _ _, sync_setAcct _, ?_, by simp, by decide⟩, rfl⟩
    hold_upd hi, hs
    simp; omega
  · rename_i hne
    split at h
    case h_2 => cases h
    rename_i receiver hr
    rw [findAcct_true] at hr
    split at h; · cases h
    rename_i a1 h1
    split at h; · cases h
    rename_i r1 h2
    injection h with h; subst h
    have hne' : ledgerKey tx.from_ ≠ ledgerKey tx.to := by simpa using hne
    have h2b := two_bal_le_sumBal s.accts.fin hne' hs hr
    have h3 := sumBal_le_holdings hi
    obtain ⟨e1, hle⟩ := subBalance_exact h1 (by omega)
    have e2 := addBalance_exact h2 (by omega)
    subst e1; subst e2
    have hi1 := inv0_setAcct hi { sender with bal := sender.bal - tx.amount }
    have hr' : (s.setAcct true { sender with bal := sender.bal - tx.amount }).accts.fin[ledgerKey tx.to]? = some receiver := by
      rw [setAcct_accts_fin, ExtTreeMap.getElem?_insert]
      have : ledgerKey sender.addr = ledgerKey tx.from_ := hi.acctKey _ _ hs
      simp [this, hne', hr]
    refine ⟨⟨inv0_setAcct hi1 _, (frame_setAcct _ _).trans (frame_setAcct _ _), fun h => h, ?_, by simp, by decide⟩, rfl⟩
    hold_upd hi1, hr'
    rw [holdings_update hi hs (a' := { sender with bal := sender.bal - tx.amount }) rfl]; simp; omega

theorem execSetDoc_ok {s : St} {tx : TxIn} {r : RunOut} (h : execSetDoc s true tx = .ok r)
    (hi : Inv0 s) : BodyOK s r.st 0 ∧ r.fail = none := by
  simp only [execSetDoc, pure, Except.pure, throw, throwThe, MonadExceptOf.throw] at h
  split at h
  case h_2 => cases h
  rename_i sender hs
  rw [findAcct_true] at hs
  split at h
  case h_2 => cases h
  injection h with h; subst h
  refine ⟨⟨inv0_setAcct hi _, frame_setAcct _ _, sync_setAcct _, ?_, by simp, by decide⟩, rfl⟩
  hold_upd hi, hs
  simp

/-- a state that differs only in the proposal ledger -/
theorem bodyOK_of_valEq {s r : St} (h : ValEq s r) (hi : Inv0 s) : BodyOK s r 0 :=
  ⟨h.inv0 hi, h.frame, h.sync, by rw [h.holdings]; simp, by rw [h.ghost]; simp, by decide⟩

theorem execProposal_ok {s : St} {tx : TxIn} {r : RunOut} (h : execProposal s true tx = .ok r)
    (hi : Inv0 s) : BodyOK s r.st 0 ∧ r.fail = none := by
  simp only [execProposal, pure, Except.pure, throw, throwThe, MonadExceptOf.throw] at h
  split at h
  case h_2 => cases h
  injection h with h; subst h
  exact ⟨bodyOK_of_valEq ⟨rfl, rfl, rfl, rfl, rfl, rfl, rfl⟩ hi, rfl⟩

theorem execVoting_ok {s : St} {tx : TxIn} {r : RunOut} (h : execVoting s true tx = .ok r)
    (hi : Inv0 s) : BodyOK s r.st 0 ∧ r.fail = none := by
  simp only [execVoting, pure, Except.pure, throw, throwThe, MonadExceptOf.throw, bind, Except.bind] at h
  split at h
  case h_2 => cases h
  split at h
  · cases h
  split at h
  · cases h
  injection h with h; subst h
  exact ⟨bodyOK_of_valEq ⟨rfl, rfl, rfl, rfl, rfl, rfl, rfl⟩ hi, rfl⟩

theorem execWithdraw_ok {s : St} {tx : TxIn} {r : RunOut} {height : Int}
    (h : execWithdraw s true height tx = .ok r)
    (hi : Inv0 s) (hb : holdings s < (two255 : Int)) : ∃ dW, BodyOK s r.st dW ∧ r.fail = none := by
  simp only [execWithdraw, pure, Except.pure, throw, throwThe, MonadExceptOf.throw, bind, Except.bind, ↓reduceIte] at h
  split at h
  case h_2 => cases h
  rename_i req hpay
  split at h
  · cases h
  rename_i w hw
  split at h
  · cases h
  rename_i w' hw'
  split at h
  case h_2 => cases h
  rename_i s2 hs2
  injection h with h; subst h
  unfold St.reward at hs2
  split at hs2; · cases hs2
  rename_i a ha
  split at hs2; · cases hs2
  rename_i a' ha'
  injection hs2 with hs2; subst hs2
  rw [findAcct_true] at ha
  have ha0 : s.accts.fin[ledgerKey tx.from_]? = some a := ha
  have hab := bal_lt_of_bound hi hb ha0
  have hreq := addBalance_lt ha'
  have h255 := two255_lt
  have e := addBalance_exact ha' (by rw [two256_eq]; omega)
  subst e
  refine ⟨req, ⟨?_, ?_, fun h => h, ?_, by simp, hreq⟩, rfl⟩
  · have := inv0_setAcct (s := { s with rewards := s.rewards.set true (ledgerKey w'.addr) w' })
      ⟨hi.acctKey, hi.delegKey, hi.frozenKey⟩ { a with bal := a.bal + req }
    exact ⟨this.acctKey, this.delegKey, this.frozenKey⟩
  · exact ⟨by simp [St.setAcct, Led.set], rfl, rfl, rfl, rfl, rfl⟩
  · have hh := holdings_update (s := { s with rewards := s.rewards.set true (ledgerKey w'.addr) w' })
      ⟨hi.acctKey, hi.delegKey, hi.frozenKey⟩ (a' := { a with bal := a.bal + req }) ha0 rfl
    refine Eq.trans hh ?_
    show holdings s - (a.bal : Int) + ((a.bal + req : Nat) : Int) = holdings s + (req : Int)
    push_cast; omega

/-- the fee debit at the end of `runTrx` -/
theorem feeDebit_ok {s : St} {from_ : Hex} {fee : Nat} {sender a1 : Account}
    (hs : s.findAcct true from_ = some sender) (h1 : subBalance sender fee = some a1)
    (hi : Inv0 s) (hb : holdings s < (two256 : Int)) :
    let r := s.setAcct true { a1 with nonce := a1.nonce + 1 }
    Inv0 r ∧ Frame s r ∧ (FrozenSync s → FrozenSync r) ∧ holdings r = holdings s - fee ∧
      r.ghost = s.ghost ∧ (fee : Int) ≤ holdings s := by
  rw [findAcct_true] at hs
  have hsb := bal_lt_of_bound hi hb hs
  obtain ⟨e1, hle⟩ := subBalance_exact h1 (by omega)
  subst e1
  have h1 := bal_le_sumBal s.accts.fin hs
  have h2 := sumBal_le_holdings hi
  refine ⟨inv0_setAcct hi _, frame_setAcct _ _, fun h => h, ?_, rfl, by omega⟩
  hold_upd hi, hs
  simp; omega

end Rigo.C02
