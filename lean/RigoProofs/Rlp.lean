/-
  Helper lemmas for C03: minimal big-endian bytes, RLP headers, unique prefix-decodability of the
  RLP encoder.
-/
import Rigo.RLP
namespace Rigo.RLP

/-! ### minimal big-endian bytes -/

theorem beF_fuel : ∀ (f g n : Nat), n ≤ f → n ≤ g → beF f n = beF g n := by
  intro f
  induction f with
  | zero =>
    intro g n hf _
    have : n = 0 := by omega
    subst this
    cases g <;> simp [beF]
  | succ f ih =>
    intro g n hf hg
    cases g with
    | zero =>
      have : n = 0 := by omega
      subst this; simp [beF]
    | succ g =>
      simp only [beF]
      by_cases h0 : n = 0
      · simp [h0]
      · simp only [h0, if_false]
        rw [ih g (n / 256) (by omega) (by omega)]

theorem beBytes_eq (n : Nat) :
    beBytes n = if n = 0 then [] else beBytes (n / 256) ++ [n % 256] := by
  unfold beBytes
  cases n with
  | zero => simp [beF]
  | succ m =>
    simp only [beF]
    have : ¬ (m + 1 = 0) := by omega
    simp only [this, if_false]
    rw [beF_fuel m ((m + 1) / 256) ((m + 1) / 256) (by omega) (Nat.le_refl _)]

theorem beBytes_zero : beBytes 0 = [] := by rw [beBytes_eq]; simp

theorem beBytes_pos {n : Nat} (h : n ≠ 0) : beBytes n = beBytes (n / 256) ++ [n % 256] := by
  rw [beBytes_eq]; simp [h]

theorem ofBe_append (a : Bytes) (x : Nat) : ofBe (a ++ [x]) = ofBe a * 256 + x := by
  simp [ofBe, List.foldl_append]

theorem ofBe_beBytes (n : Nat) : ofBe (beBytes n) = n := by
  induction n using Nat.strongRecOn with
  | _ n ih =>
    by_cases h : n = 0
    · subst h; rw [beBytes_zero]; rfl
    · rw [beBytes_pos h, ofBe_append, ih (n / 256) (by omega)]
      omega

theorem beBytes_injective {a b : Nat} (h : beBytes a = beBytes b) : a = b := by
  have := congrArg ofBe h
  rwa [ofBe_beBytes, ofBe_beBytes] at this

theorem beBytes_length_pos {n : Nat} (h : n ≠ 0) : 1 ≤ (beBytes n).length := by
  rw [beBytes_pos h]; simp

theorem beBytes_length_le : ∀ (k n : Nat), n < 256 ^ k → (beBytes n).length ≤ k := by
  intro k
  induction k with
  | zero => intro n h; have : n = 0 := by simpa using h
            subst this; rw [beBytes_zero]; simp
  | succ k ih =>
    intro n h
    by_cases h0 : n = 0
    · subst h0; rw [beBytes_zero]; simp
    · rw [beBytes_pos h0]
      have : n / 256 < 256 ^ k := by
        rw [Nat.pow_succ] at h
        exact Nat.div_lt_of_lt_mul (by rw [Nat.mul_comm]; exact h)
      have := ih _ this
      simp; omega

theorem beBytes_length_le_8 {n : Nat} (h : n < 18446744073709551616) : (beBytes n).length ≤ 8 :=
  beBytes_length_le 8 n (by simpa using h)

/-- every byte produced is a byte -/
theorem beBytes_lt (n : Nat) : ∀ x ∈ beBytes n, x < 256 := by
  induction n using Nat.strongRecOn with
  | _ n ih =>
    by_cases h : n = 0
    · subst h; rw [beBytes_zero]; simp
    · rw [beBytes_pos h]
      intro x hx
      rcases List.mem_append.mp hx with hx | hx
      · exact ih _ (by omega) x hx
      · simp at hx; omega

/-! ### headers -/

theorem encLen_ne_nil (off n : Nat) : encLen off n ≠ [] := by
  unfold encLen; split <;> simp

/-- the first byte of a length header lies in `[off, off + 55 + len(BE n)]` -/
theorem encLen_head (off n : Nat) :
    ∃ h t, encLen off n = h :: t ∧ off ≤ h ∧ h ≤ off + 55 + (beBytes n).length := by
  unfold encLen
  split
  · exact ⟨_, _, rfl, by omega, by omega⟩
  · exact ⟨_, _, rfl, by omega, by omega⟩

/-- a length header determines the length and where it ends (same offset on both sides) -/
theorem encLen_prefix {off n₁ n₂ : Nat} {r₁ r₂ : Bytes}
    (h : encLen off n₁ ++ r₁ = encLen off n₂ ++ r₂) : n₁ = n₂ ∧ r₁ = r₂ := by
  unfold encLen at h
  by_cases h1 : n₁ < 56 <;> by_cases h2 : n₂ < 56
  · simp only [h1, h2, if_true, List.cons_append, List.nil_append, List.cons.injEq] at h
    exact ⟨by omega, h.2⟩
  · simp only [h1, h2, if_true, if_false, List.cons_append, List.nil_append, List.cons.injEq] at h
    have := beBytes_length_pos (n := n₂) (by omega)
    omega
  · simp only [h1, h2, if_true, if_false, List.cons_append, List.nil_append, List.cons.injEq] at h
    have := beBytes_length_pos (n := n₁) (by omega)
    omega
  · simp only [h1, h2, if_false, List.cons_append, List.cons.injEq] at h
    have hl : (beBytes n₁).length = (beBytes n₂).length := by omega
    obtain ⟨e1, e2⟩ := List.append_inj h.2 hl
    exact ⟨beBytes_injective e1, e2⟩

/-! ### byte strings -/

/-- the two shapes of a string encoding -/
theorem encStr_cases (s : Bytes) :
    (∃ x, s = [x] ∧ x < 128 ∧ encStr s = [x]) ∨
    (encStr s = encLen 128 s.length ++ s ∧ ∀ x, s = [x] → 128 ≤ x) := by
  match s with
  | [] => right; exact ⟨rfl, by simp⟩
  | [x] =>
    by_cases hx : x < 128
    · left; exact ⟨x, rfl, hx, by simp [encStr, hx]⟩
    · right; refine ⟨by simp [encStr, hx, encLen], ?_⟩
      intro y hy; simp at hy; omega
  | _ :: _ :: _ => right; exact ⟨rfl, by simp⟩

theorem encStr_ne_nil (s : Bytes) : encStr s ≠ [] := by
  rcases encStr_cases s with ⟨x, _, _, h⟩ | ⟨h, _⟩
  · rw [h]; simp
  · rw [h]; simp [encLen_ne_nil]

/-- first byte of a string encoding: below 0xc0 as long as the length fits 8 bytes -/
theorem encStr_head (s : Bytes) (hs : s.length < 18446744073709551616) :
    ∃ h t, encStr s = h :: t ∧ h < 192 := by
  rcases encStr_cases s with ⟨x, _, hx, h⟩ | ⟨h, _⟩
  · exact ⟨x, [], h, by omega⟩
  · obtain ⟨a, t, e, _, hle⟩ := encLen_head 128 s.length
    have := beBytes_length_le_8 hs
    exact ⟨a, t ++ s, by rw [h, e]; rfl, by omega⟩

/-- a string encoding determines the string and where it ends -/
theorem encStr_prefix {s₁ s₂ r₁ r₂ : Bytes}
    (h : encStr s₁ ++ r₁ = encStr s₂ ++ r₂) : s₁ = s₂ ∧ r₁ = r₂ := by
  rcases encStr_cases s₁ with ⟨x₁, e₁, hx₁, h₁⟩ | ⟨h₁, g₁⟩ <;>
  rcases encStr_cases s₂ with ⟨x₂, e₂, hx₂, h₂⟩ | ⟨h₂, g₂⟩
  · rw [h₁, h₂] at h
    simp only [List.cons_append, List.nil_append, List.cons.injEq] at h
    exact ⟨by rw [e₁, e₂, h.1], h.2⟩
  · rw [h₁, h₂] at h
    obtain ⟨a, t, e, ha, _⟩ := encLen_head 128 s₂.length
    rw [e] at h
    simp only [List.cons_append, List.nil_append, List.cons.injEq] at h
    omega
  · rw [h₁, h₂] at h
    obtain ⟨a, t, e, ha, _⟩ := encLen_head 128 s₁.length
    rw [e] at h
    simp only [List.cons_append, List.nil_append, List.cons.injEq] at h
    omega
  · rw [h₁, h₂, List.append_assoc, List.append_assoc] at h
    obtain ⟨hl, h'⟩ := encLen_prefix h
    exact List.append_inj h' hl

theorem encStr_injective {s₁ s₂ : Bytes} (h : encStr s₁ = encStr s₂) : s₁ = s₂ := by
  have : encStr s₁ ++ [] = encStr s₂ ++ [] := by simp [h]
  exact (encStr_prefix this).1

/-! ### items -/

theorem encode_list_head (l : List Item) : ∃ h t, encode (.list l) = h :: t ∧ 192 ≤ h := by
  obtain ⟨a, t, e, ha, _⟩ := encLen_head 192 (encodeList l).length
  exact ⟨a, t ++ encodeList l, by simp [encode, e], ha⟩

theorem encode_ne_nil (a : Item) : encode a ≠ [] := by
  cases a with
  | str s => simpa [encode] using encStr_ne_nil s
  | list l => obtain ⟨h, t, e, _⟩ := encode_list_head l; rw [e]; simp

mutual
  /-- `Separable a b`: wherever a byte string of one item faces a list of the other, that string is
      shorter than 2^64 bytes (so that its header byte stays below 0xc0).  Nothing is required
      where string faces string or list faces list. -/
  def Separable : Item → Item → Prop
    | .str _, .str _ => True
    | .str s, .list _ => s.length < 18446744073709551616
    | .list _, .str s => s.length < 18446744073709551616
    | .list l, .list l' => SeparableList l l'
  def SeparableList : List Item → List Item → Prop
    | [], _ => True
    | _ :: _, [] => True
    | x :: xs, y :: ys => Separable x y ∧ SeparableList xs ys
end

mutual
  /-- every byte string inside the item is shorter than 2^64 bytes (always true of a Go slice) -/
  def Small : Item → Prop
    | .str s => s.length < 18446744073709551616
    | .list l => SmallList l
  def SmallList : List Item → Prop
    | [] => True
    | x :: xs => Small x ∧ SmallList xs
end

mutual
  theorem sep_of_small : ∀ (a b : Item), Small a → Small b → Separable a b
    | .str _, .str _, _, _ => by simp [Separable]
    | .str _, .list _, h, _ => by simpa [Separable, Small] using h
    | .list _, .str _, _, h => by simpa [Separable, Small] using h
    | .list l, .list l', h, h' => by
        simp only [Separable]; simp only [Small] at h h'
        exact sepList_of_small l l' h h'
  theorem sepList_of_small : ∀ (l l' : List Item), SmallList l → SmallList l' → SeparableList l l'
    | [], _, _, _ => by simp [SeparableList]
    | _ :: _, [], _, _ => by simp [SeparableList]
    | x :: xs, y :: ys, h, h' => by
        simp only [SmallList] at h h'
        simp only [SeparableList]
        exact ⟨sep_of_small x y h.1 h'.1, sepList_of_small xs ys h.2 h'.2⟩
end

mutual
  /-- unique prefix-decodability: an encoding determines the item and where it ends -/
  theorem encode_prefix : ∀ (a b : Item) (r₁ r₂ : Bytes), Separable a b →
      encode a ++ r₁ = encode b ++ r₂ → a = b ∧ r₁ = r₂
    | .str s, .str s', r₁, r₂, _, h => by
        simp only [encode] at h
        obtain ⟨e, e'⟩ := encStr_prefix h
        exact ⟨by rw [e], e'⟩
    | .str s, .list l', r₁, r₂, hs, h => by
        simp only [Separable] at hs
        obtain ⟨a, t, e, ha⟩ := encStr_head s hs
        obtain ⟨a', t', e', ha'⟩ := encode_list_head l'
        rw [e'] at h; simp only [encode] at h; rw [e] at h
        simp only [List.cons_append, List.cons.injEq] at h
        omega
    | .list l, .str s', r₁, r₂, hs, h => by
        simp only [Separable] at hs
        obtain ⟨a, t, e, ha⟩ := encStr_head s' hs
        obtain ⟨a', t', e', ha'⟩ := encode_list_head l
        rw [e'] at h; simp only [encode] at h; rw [e] at h
        simp only [List.cons_append, List.cons.injEq] at h
        omega
    | .list l, .list l', r₁, r₂, hs, h => by
        simp only [Separable] at hs
        simp only [encode, List.append_assoc] at h
        obtain ⟨hl, h₂⟩ := encLen_prefix h
        obtain ⟨h₃, h₄⟩ := List.append_inj h₂ hl
        have := encodeList_inj l l' hs h₃
        exact ⟨by rw [this], h₄⟩
  theorem encodeList_inj : ∀ (l l' : List Item), SeparableList l l' →
      encodeList l = encodeList l' → l = l'
    | [], [], _, _ => rfl
    | [], y :: ys, _, h => by
        simp only [encodeList] at h
        cases he : encode y with
        | nil => exact absurd he (encode_ne_nil y)
        | cons a t => rw [he] at h; simp at h
    | x :: xs, [], _, h => by
        simp only [encodeList] at h
        cases he : encode x with
        | nil => exact absurd he (encode_ne_nil x)
        | cons a t => rw [he] at h; simp at h
    | x :: xs, y :: ys, hs, h => by
        simp only [SeparableList] at hs
        simp only [encodeList] at h
        obtain ⟨e₁, e₂⟩ := encode_prefix x y _ _ hs.1 h
        have := encodeList_inj xs ys hs.2 e₂
        rw [e₁, this]
end

theorem sepList_map_str : ∀ (a b : List Bytes), SeparableList (a.map .str) (b.map .str)
  | [], _ => by simp [SeparableList]
  | _ :: _, [] => by simp [SeparableList]
  | x :: xs, y :: ys => by
      simp only [List.map, SeparableList, Separable, true_and]
      exact sepList_map_str xs ys

theorem map_str_injective {a b : List Bytes} (h : a.map Item.str = b.map Item.str) : a = b := by
  induction a generalizing b with
  | nil => cases b <;> simp_all
  | cons x xs ih =>
    cases b with
    | nil => simp at h
    | cons y ys =>
      simp only [List.map, List.cons.injEq, Item.str.injEq] at h
      rw [h.1, ih h.2]

end Rigo.RLP
