/-
  C15: `endBlock` — what `freezeProposals` / `applyProposals` do to the frozen proposals, the
  parameter ledger and the pending parameters; generic "all entries of a ledger satisfy P" predicate.
-/
import RigoProofs.C13C15Begin

namespace Rigo.C15
open Rigo

/-! ### a predicate on every entry of every view and version of a ledger -/

def LedAll {α : Type} (P : String → α → Prop) (l : Led α) : Prop :=
  (∀ (k : String) (v : α), l.fin[k]? = some v → P k v) ∧
  (∀ (k : String) (v : α), l.chk[k]? = some v → P k v) ∧
  (∀ m ∈ l.hist, ∀ (k : String) (v : α), m[k]? = some v → P k v)

theorem LedAll.empty {α : Type} (P : String → α → Prop) : LedAll P ({} : Led α) := by
  refine ⟨?_, ?_, ?_⟩ <;> simp

theorem LedAll.set {α : Type} {P : String → α → Prop} {l : Led α} (h : LedAll P l) (e : Bool) (k : String) (v : α)
    (hv : P k v) : LedAll P (l.set e k v) := by
  obtain ⟨h1, h2, h3⟩ := h
  unfold Led.set
  split
  · refine ⟨?_, h2, h3⟩
    intro k' v' hk
    by_cases hkk : k = k'
    · subst hkk; simp at hk; subst hk; exact hv
    · rw [Std.ExtTreeMap.getElem?_insert] at hk; simp [hkk] at hk; exact h1 k' v' hk
  · refine ⟨h1, ?_, h3⟩
    intro k' v' hk
    by_cases hkk : k = k'
    · subst hkk; simp at hk; subst hk; exact hv
    · rw [Std.ExtTreeMap.getElem?_insert] at hk; simp [hkk] at hk; exact h2 k' v' hk

theorem LedAll.del {α : Type} {P : String → α → Prop} {l : Led α} (h : LedAll P l) (e : Bool) (k : String) :
    LedAll P (l.del e k) := by
  obtain ⟨h1, h2, h3⟩ := h
  have erase : ∀ (m : KMap α), (∀ (k : String) (v : α), m[k]? = some v → P k v) →
      ∀ (k' : String) (v : α), (m.erase k)[k']? = some v → P k' v := by
    intro m hm k' v hk
    rw [Std.ExtTreeMap.getElem?_erase] at hk
    split at hk
    · cases hk
    · exact hm k' v hk
  unfold Led.del
  split
  · exact ⟨erase _ h1, erase _ h2, h3⟩
  · exact ⟨h1, erase _ h2, h3⟩

theorem LedAll.commit {α : Type} {P : String → α → Prop} {l : Led α} (h : LedAll P l) : LedAll P l.commit := by
  obtain ⟨h1, h2, h3⟩ := h
  refine ⟨h1, h1, ?_⟩
  intro m hm
  simp only [Led.commit, List.mem_append, List.mem_singleton] at hm
  rcases hm with hm | hm
  · exact h3 m hm
  · subst hm; exact h1

theorem LedAll.committed {α : Type} {P : String → α → Prop} {l : Led α} (h : LedAll P l) :
    ∀ (k : String) (v : α), l.committed[k]? = some v → P k v := by
  intro k v hk
  unfold Led.committed at hk
  cases hl : l.hist.getLast? with
  | none => rw [hl] at hk; simp at hk
  | some m =>
    rw [hl] at hk
    exact h.2.2 m (List.mem_of_getLast? hl) k v hk

theorem LedAll.reopen {α : Type} {P : String → α → Prop} {l : Led α} (h : LedAll P l) : LedAll P l.reopen :=
  ⟨h.committed, h.committed, h.2.2⟩

theorem LedAll.get {α : Type} {P : String → α → Prop} {l : Led α} (h : LedAll P l) {e : Bool} {k : String} {v : α}
    (hg : l.get e k = some v) : P k v := by
  unfold Led.get at hg
  split at hg
  · exact h.1 k v hg
  · exact h.2.1 k v hg

/-! ### folding a panicking step over a list -/

def resStep {β : Type} (f : St → β → Res St) (acc : Res St) (b : β) : Res St :=
  match acc with
  | .panic e => .panic e
  | .ok s => f s b

theorem foldl_resStep_panic {β : Type} (f : St → β → Res St) (l : List β) (e : String) :
    l.foldl (resStep f) (.panic e) = .panic e := by
  induction l with
  | nil => rfl
  | cons a l ih => simp only [List.foldl_cons, resStep]; exact ih

theorem foldl_resStep_inv {β : Type} (f : St → β → Res St) (Q : St → Prop) (l : List β)
    (hf : ∀ s b s', b ∈ l → Q s → f s b = .ok s' → Q s') :
    ∀ s s', Q s → l.foldl (resStep f) (.ok s) = .ok s' → Q s' := by
  induction l with
  | nil => intro s s' hq h; simp only [List.foldl_nil] at h; cases h; exact hq
  | cons b l ih =>
    intro s s' hq h
    simp only [List.foldl_cons] at h
    cases hb : resStep f (.ok s) b with
    | panic e => rw [hb, foldl_resStep_panic] at h; cases h
    | ok s1 =>
      rw [hb] at h
      exact ih (fun s b s' hb' => hf s b s' (List.mem_cons_of_mem _ hb')) s1 s'
        (hf s b s1 (by simp) hq (by simpa [resStep] using hb)) h

/-! ### freezeProposals -/

/-- a frozen proposal carries its winning option: first after sorting, with at least the majority -/
def FrozenOK (p : Proposal) : Prop :=
  ∃ m, p.major = some m ∧ m.votes ≥ p.majority ∧ p.options.head? = some m

def freezeOne (height : Int) (s : St) (kp : String × Proposal) : Res St :=
  if kp.2.end_ < height then
    if (s.props.get true kp.1).isNone then .panic "EndBlock: DelFinality of a proposal that is gone" else
    let s1 := { s with props := s.props.del true kp.1 }
    let sorted := sortOptions kp.2.options
    match sorted with
    | [] => .panic "index out of range: proposal without options"
    | top :: _ =>
      if top.votes ≥ kp.2.majority then
        .ok { s1 with fprops := s1.fprops.set true kp.1 { kp.2 with options := sorted, major := some top } }
      else .ok s1
  else .ok s

theorem freezeProposals_eq (s : St) (height : Int) :
    freezeProposals s height = s.props.committed.toList.foldl (resStep (freezeOne height)) (.ok s) := rfl

/-- what the end-of-block governance steps leave alone -/
def EFr (s s' : St) : Prop :=
  s'.active = s.active ∧ s'.lastHeight = s.lastHeight ∧ s'.blk = s.blk ∧ s'.lastVals = s.lastVals ∧
  s'.allDelegs = s.allDelegs ∧ s'.fprops.hist = s.fprops.hist ∧ s'.params.hist = s.params.hist ∧
  s'.props.hist = s.props.hist ∧ s'.delegs = s.delegs ∧ s'.rewards = s.rewards ∧ s'.chainId = s.chainId

theorem EFr.refl (s : St) : EFr s s := by simp [EFr]
theorem EFr.trans {a b c : St} (h1 : EFr a b) (h2 : EFr b c) : EFr a c := by unfold EFr at *; simp_all

theorem freezeOne_spec {height : Int} {s s' : St} {kp : String × Proposal} (h : freezeOne height s kp = .ok s') :
    EFr s s' ∧ s'.params = s.params ∧ s'.pending = s.pending ∧
    (s'.fprops = s.fprops ∨
      ∃ top, top.votes ≥ kp.2.majority ∧ (sortOptions kp.2.options).head? = some top ∧ kp.2.end_ < height ∧
        s'.fprops = s.fprops.set true kp.1 { kp.2 with options := sortOptions kp.2.options, major := some top }) ∧
    (s'.props = s.props ∨ s'.props = s.props.del true kp.1) := by
  unfold freezeOne at h
  split at h
  · split at h
    · cases h
    · simp only [] at h
      split at h
      · cases h
      · rename_i top rest hso
        split at h
        · rename_i hv
          cases h
          refine ⟨by simp [EFr], rfl, rfl, Or.inr ⟨top, hv, by rw [hso]; rfl, by assumption, by rw [hso]⟩, Or.inr rfl⟩
        · cases h
          exact ⟨by simp [EFr], rfl, rfl, Or.inl rfl, Or.inr rfl⟩
  · cases h; exact ⟨EFr.refl _, rfl, rfl, Or.inl rfl, Or.inl rfl⟩

theorem freezeProposals_spec {s s' : St} {height : Int} (P : String → Proposal → Prop)
    (hP : ∀ (k : String) (p : Proposal) (top : VoteOpt), p.end_ < height → top.votes ≥ p.majority →
      (sortOptions p.options).head? = some top → P k { p with options := sortOptions p.options, major := some top })
    (h : freezeProposals s height = .ok s') (hf : LedAll P s.fprops) :
    EFr s s' ∧ s'.params = s.params ∧ s'.pending = s.pending ∧ LedAll P s'.fprops := by
  rw [freezeProposals_eq] at h
  refine foldl_resStep_inv (freezeOne height)
    (fun x => EFr s x ∧ x.params = s.params ∧ x.pending = s.pending ∧ LedAll P x.fprops)
    _ ?_ s s' ⟨EFr.refl s, rfl, rfl, hf⟩ h
  intro x kp x' _ ⟨q1, q2, q3, q4⟩ hx
  obtain ⟨e1, e2, e3, e4, _⟩ := freezeOne_spec hx
  refine ⟨q1.trans e1, by rw [e2, q2], by rw [e3, q3], ?_⟩
  rcases e4 with e4 | ⟨top, hv, hhead, hend, e4⟩
  · rw [e4]; exact q4
  · rw [e4]; exact q4.set _ _ _ (hP kp.1 kp.2 top hend hv hhead)

/-! ### applyProposals -/

def applyOne (height : Int) (s : St) (kp : String × Proposal) : Res St :=
  if kp.2.applying ≤ height then
    if (s.fprops.get true kp.1).isNone then .panic "EndBlock: DelFinality of a frozen proposal that is gone" else
    let s1 := { s with fprops := s.fprops.del true kp.1 }
    match kp.2.major with
    | none => .ok s1
    | some m =>
      if kp.2.optType = PROPOSAL_GOVPARAMS then
        match m.parsedA with
        | none => .panic "EndBlock: option does not unmarshal at apply time"
        | some o =>
          let np := mergeParams s1.active o
          .ok { s1 with params := s1.params.set true zeroHash np, pending := some np }
      else .ok s1
  else .ok s

theorem applyProposals_eq (s : St) (height : Int) :
    applyProposals s height = s.fprops.committed.toList.foldl (resStep (applyOne height)) (.ok s) := rfl

/-- the parameters `np` were produced by applying the committed frozen proposal `p` (key `k`) at `height` -/
def AppliedBy (s : St) (height : Int) (np : Params) : Prop :=
  ∃ (k : String) (p : Proposal) (m : VoteOpt) (o : POpt),
    s.fprops.committed[k]? = some p ∧ p.applying ≤ height ∧ p.major = some m ∧
    p.optType = PROPOSAL_GOVPARAMS ∧ m.parsedA = some o ∧ np = mergeParams s.active o

theorem applyOne_spec {height : Int} {s s' : St} {kp : String × Proposal} (h : applyOne height s kp = .ok s') :
    EFr s s' ∧ (s'.fprops = s.fprops ∨ s'.fprops = s.fprops.del true kp.1) ∧ s'.props = s.props ∧
    ((s'.params = s.params ∧ s'.pending = s.pending) ∨
      ∃ m o, kp.2.applying ≤ height ∧ kp.2.major = some m ∧ kp.2.optType = PROPOSAL_GOVPARAMS ∧ m.parsedA = some o ∧
        s'.pending = some (mergeParams s.active o) ∧
        s'.params = s.params.set true zeroHash (mergeParams s.active o)) := by
  unfold applyOne at h
  split at h
  · rename_i happ
    split at h
    · cases h
    · simp only [] at h
      split at h
      · cases h; exact ⟨by simp [EFr], Or.inr rfl, rfl, Or.inl ⟨rfl, rfl⟩⟩
      · rename_i m hm
        split at h
        · rename_i hty
          split at h
          · cases h
          · rename_i o ho
            cases h
            exact ⟨by simp [EFr], Or.inr rfl, rfl, Or.inr ⟨m, o, happ, hm, hty, ho, rfl, rfl⟩⟩
        · cases h; exact ⟨by simp [EFr], Or.inr rfl, rfl, Or.inl ⟨rfl, rfl⟩⟩
  · cases h; exact ⟨EFr.refl _, Or.inl rfl, rfl, Or.inl ⟨rfl, rfl⟩⟩

theorem applyProposals_spec {s s' : St} {height : Int} (P : String → Proposal → Prop)
    (h : applyProposals s height = .ok s') (hf : LedAll P s.fprops) :
    EFr s s' ∧ s'.props = s.props ∧ LedAll P s'.fprops ∧
    ((s'.params = s.params ∧ s'.pending = s.pending) ∨
      ∃ np, AppliedBy s height np ∧ s'.pending = some np ∧ s'.params.fin = s.params.fin.insert zeroHash np ∧
        s'.params.hist = s.params.hist) := by
  rw [applyProposals_eq] at h
  refine foldl_resStep_inv (applyOne height)
    (fun x => EFr s x ∧ x.props = s.props ∧ LedAll P x.fprops ∧
      ((x.params = s.params ∧ x.pending = s.pending) ∨
        ∃ np, AppliedBy s height np ∧ x.pending = some np ∧ x.params.fin = s.params.fin.insert zeroHash np ∧
          x.params.hist = s.params.hist))
    _ ?_ s s' ⟨EFr.refl s, rfl, hf, Or.inl ⟨rfl, rfl⟩⟩ h
  intro x kp x' hmem ⟨q1, q2, q3, q4⟩ hx
  obtain ⟨e1, e2, e3, e4⟩ := applyOne_spec hx
  refine ⟨q1.trans e1, by rw [e3, q2], ?_, ?_⟩
  · rcases e2 with e2 | e2
    · rw [e2]; exact q3
    · rw [e2]; exact q3.del _ _
  · rcases e4 with ⟨e4, e5⟩ | ⟨m, o, happ, hm, hty, ho, e4, e5⟩
    · rw [e4, e5]; exact q4
    · right
      refine ⟨mergeParams x.active o, ⟨kp.1, kp.2, m, o, ?_, happ, hm, hty, ho, by rw [q1.1]⟩, e4, ?_, ?_⟩
      · exact Std.ExtTreeMap.mem_toList_iff_getElem?_eq_some.mp hmem
      · rw [e5]
        rcases q4 with ⟨q4, _⟩ | ⟨np0, _, _, q4, _⟩
        · rw [q4]; simp
        · simp only [Led.set_fin_true]; rw [q4]
          apply Std.ExtTreeMap.ext_getElem?
          intro k; simp [Std.ExtTreeMap.getElem?_insert]; split <;> rfl
      · rw [e5]
        rcases q4 with ⟨q4, _⟩ | ⟨np0, _, _, _, q4⟩
        · rw [q4]; simp
        · simp [q4]

end Rigo.C15
