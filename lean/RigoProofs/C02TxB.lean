/-
  C02 helper: conservation for staking / delegating and for unstaking (including the forced
  unbonding of all delegators when the validator's self stake reaches zero); `freezeAll`.
-/
import RigoProofs.C02TxA

namespace Rigo.C02

open Std Rigo.Delegatee

/-! ### powers and amounts -/

theorem amountToPower_ok {amt : Nat} {p : Int} (h : amountToPower amt = .ok p) :
    PowerOK p ∧ p = ((amt / amountPerPower % two64 : Nat) : Int) := by
  unfold amountToPower at h
  simp only at h
  split at h; · cases h
  rename_i hlt
  injection h with h; subst h
  have : amt / amountPerPower % two64 < two63 := by omega
  exact ⟨⟨Int.natCast_nonneg _, Int.ofNat_lt.mpr this⟩, rfl⟩

/-- a staked amount that is a whole number of power units and below 2^63·10^18 converts exactly -/
theorem amountToPower_exact {amt : Nat} {p : Int} (h : amountToPower amt = .ok p)
    (hm : amt % amountPerPower = 0) (hb : amt < two63 * amountPerPower) :
    (amountPerPower : Int) * p = amt := by
  obtain ⟨_, hp⟩ := amountToPower_ok h
  have h1 : amt / amountPerPower < two63 := Nat.div_lt_of_lt_mul (by rw [Nat.mul_comm]; exact hb)
  have h2 : amt / amountPerPower % two64 = amt / amountPerPower :=
    Nat.mod_eq_of_lt (by have : two63 < two64 := by decide
                         omega)
  rw [hp, h2]
  have := Nat.div_add_mod amt amountPerPower
  rw [hm] at this
  have h3 : amountPerPower * (amt / amountPerPower) = amt := by omega
  exact_mod_cast h3

theorem powerToAmount_exact {p : Int} (h : PowerOK p) : (powerToAmount p : Int) = (amountPerPower : Int) * p := by
  obtain ⟨h0, h1⟩ := h
  unfold powerToAmount wmul
  have e63 : (two63 : Int) < (two64 : Int) := by decide
  have hm : p % (two64 : Int) = p := Int.emod_eq_of_lt h0 (by omega)
  rw [hm]
  have hp : (p.toNat : Int) = p := Int.toNat_of_nonneg h0
  have hlt : p.toNat < two63 := by
    have : (p.toNat : Int) < (two63 : Int) := by omega
    exact Int.ofNat_lt.mp this
  have : p.toNat * amountPerPower < two256 := by
    calc p.toNat * amountPerPower < two63 * amountPerPower := Nat.mul_lt_mul_of_pos_right hlt (by decide)
      _ < two256 := by decide
  rw [Nat.mod_eq_of_lt this]
  push_cast; rw [hp, Int.mul_comm]

/-! ### freezing a list of stakes -/

theorem freezeAll_cons (fr : Led Stake) (a : Stake) (l : List Stake) (refund : Int) :
    freezeAll fr true (a :: l) refund =
      freezeAll (fr.set true (ledgerKey a.hash) { a with refund := refund }) true l refund := rfl

theorem freezeAll_ok (ss : List Stake) (refund : Int) : ∀ (fr : Led Stake), FreezeSafe fr.fin ss →
    (freezeAll fr true ss refund).hist = fr.hist ∧
    unbonding (freezeAll fr true ss refund).fin = unbonding fr.fin + sumPower ss ∧
    (∀ (k : String) (st : Stake), fr.fin[k]? = some st → (freezeAll fr true ss refund).fin[k]? = some st) ∧
    (∀ (k : String) (st : Stake), (freezeAll fr true ss refund).fin[k]? = some st →
      fr.fin[k]? = some st ∨ (ledgerKey st.hash = k ∧ ∃ st0 ∈ ss, st = { st0 with refund := refund })) := by
  induction ss with
  | nil => intro fr _; simp [freezeAll, sumPower]
  | cons a l ih =>
    intro fr hs
    rw [freezeAll_cons]
    obtain ⟨hnd, hfree⟩ := hs
    simp only [List.map_cons, List.nodup_cons] at hnd
    have hsafe : FreezeSafe (fr.set true (ledgerKey a.hash) { a with refund := refund }).fin l := by
      refine ⟨hnd.2, ?_⟩
      intro st hst
      have hne : ledgerKey a.hash ≠ ledgerKey st.hash := by
        intro e; apply hnd.1; rw [e]; exact List.mem_map.mpr ⟨st, hst, rfl⟩
      simp only [Led.set, if_true]
      rw [ExtTreeMap.getElem?_insert]
      simp [hne, hfree st (List.mem_cons_of_mem _ hst)]
    obtain ⟨h1, h2, h3, h4⟩ := ih _ hsafe
    have hfa : fr.fin[ledgerKey a.hash]? = none := hfree a (by simp)
    refine ⟨by rw [h1]; simp [Led.set], ?_, ?_, ?_⟩
    · rw [h2]
      simp only [Led.set, if_true, unbonding]
      rw [msum_insert, fAt_none _ hfa, sumPower_cons]; simp; omega
    · intro k st hk
      apply h3
      simp only [Led.set, if_true]
      rw [ExtTreeMap.getElem?_insert]
      split
      · rename_i e; simp at e; rw [← e, hfa] at hk; cases hk
      · exact hk
    · intro k st hk
      rcases h4 k st hk with h | ⟨hk', st0, hst0, e⟩
      · simp only [Led.set, if_true] at h
        rw [ExtTreeMap.getElem?_insert] at h
        split at h
        · rename_i e; simp at e
          injection h with h
          right; subst h; exact ⟨e, a, by simp, rfl⟩
        · left; exact h
      · right; exact ⟨hk', st0, List.mem_cons_of_mem _ hst0, e⟩

/-! ### staking -/

theorem ofRes_ok {α : Type} {x : Res α} {v : α} (h : ofRes x = .ok v) : x = .ok v := by
  unfold ofRes at h
  split at h
  · injection h with h; subst h; rfl
  · cases h

theorem execStaking_inv {s : St} {tx : TxIn} {r : RunOut} {height : Int}
    (h : execStaking s true height tx = .ok r) :
    ∃ d sender a1 v,
      (s.delegs.fin[ledgerKey tx.to]? = some d ∨
        (s.delegs.fin[ledgerKey tx.to]? = none ∧ tx.from_ = tx.to ∧ d = { addr := tx.from_, pub := tx.pub })) ∧
      s.findAcct true tx.from_ = some sender ∧ subBalance sender tx.amount = some a1 ∧
      amountToPower tx.amount = .ok v ∧
      r.st = { s.setAcct true a1 with
        delegs := s.delegs.set true (ledgerKey d.addr)
          (d.addStake { owner := tx.from_, to := tx.to, hash := tx.hash, power := v, start := height + 1 }) } ∧
      r.fail = none := by
  simp only [execStaking, bind, Except.bind, pure, Except.pure, throw, throwThe, MonadExceptOf.throw] at h
  split at h
  · rename_i d hd
    split at h
    case h_2 => cases h
    rename_i sender hs
    split at h; · cases h
    rename_i a1 h1
    split at h; · cases h
    rename_i v hv
    injection h with h; subst h
    exact ⟨d, sender, a1, v, Or.inl (by simpa [Led.get] using hd), hs, h1, ofRes_ok hv, rfl, rfl⟩
  · rename_i hd
    split at h
    · rename_i heq
      split at h
      case h_2 => cases h
      rename_i sender hs
      split at h; · cases h
      rename_i a1 h1
      split at h; · cases h
      rename_i v hv
      injection h with h; subst h
      exact ⟨_, sender, a1, v, Or.inr ⟨by simpa [Led.get] using hd, by simpa using heq, rfl⟩, hs, h1,
        ofRes_ok hv, rfl, rfl⟩
    · cases h

theorem execStaking_ok {s : St} {tx : TxIn} {r : RunOut} {height : Int}
    (h : execStaking s true height tx = .ok r) (hi : Inv0 s)
    (hb : holdings s < ((two63 * amountPerPower : Nat) : Int)) (hm : tx.amount % amountPerPower = 0) :
    BodyOK s r.st 0 ∧ r.fail = none := by
  obtain ⟨d, sender, a1, v, hd, hs, h1, hv, hr, hf⟩ := execStaking_inv h
  refine ⟨?_, hf⟩
  rw [hr]
  rw [findAcct_true] at hs
  have hlt : ((two63 * amountPerPower : Nat) : Int) < (two255 : Int) := by decide
  have hsb := bal_lt_of_bound hi hb hs
  have h255 := two255_lt
  obtain ⟨e1, hle⟩ := subBalance_exact h1 (by omega)
  subst e1
  have hamt : tx.amount < two63 * amountPerPower := by omega
  have hex := amountToPower_exact hv hm hamt
  obtain ⟨hpow, _⟩ := amountToPower_ok hv
  have hi1 := inv0_setAcct hi { sender with bal := sender.bal - tx.amount }
  -- the delegatee key
  have hkey : ledgerKey d.addr = ledgerKey tx.to := by
    rcases hd with hd | ⟨_, he, hd⟩
    · exact (hi.delegKey _ _ hd).1
    · subst hd; simp [he]
  have hdtot : d.total = sumPower d.stakes ∧ ∀ st ∈ d.stakes, PowerOK st.power := by
    rcases hd with hd | ⟨_, _, hd⟩
    · exact (hi.delegKey _ _ hd).2
    · subst hd; simp [sumPower]
  have hfat : fAt (fun d : Delegatee => sumPower d.stakes) s.delegs.fin (ledgerKey tx.to) = sumPower d.stakes := by
    rcases hd with hd | ⟨hn, _, hd⟩
    · exact fAt_some _ hd
    · subst hd; rw [fAt_none _ hn]; simp [sumPower]
  refine ⟨⟨?_, ?_, ?_⟩, ⟨by simp, ?_, rfl, rfl, rfl, rfl⟩, fun h => h, ?_, by simp, by decide⟩
  · exact hi1.acctKey
  · intro k d' hk
    simp only [Led.set, if_true] at hk
    rw [ExtTreeMap.getElem?_insert] at hk
    split at hk
    · rename_i e; simp at e
      injection hk with hk; subst hk
      refine ⟨e, ?_, ?_⟩
      · simp [addStake, sumPower_append, sumPower_cons, sumPower_nil, hdtot.1]
      · intro st hst
        simp only [addStake, List.mem_append, List.mem_singleton] at hst
        rcases hst with hst | hst
        · exact hdtot.2 st hst
        · subst hst; exact hpow
    · exact hi.delegKey k d' hk
  · exact hi.frozenKey
  · simp [Led.set]
  · have hh := holdings_update hi hs (a' := { sender with bal := sender.bal - tx.amount }) rfl
    simp only [holdings] at hh ⊢
    simp only [Led.set, if_true, bonded, setAcct_frozen]
    rw [msum_insert, hkey, hfat]
    simp only [addStake, sumPower_append, sumPower_cons, sumPower_nil]
    simp only [bonded] at hh
    have hmul : (amountPerPower : Int) *
        (msum (fun d : Delegatee => sumPower d.stakes) s.delegs.fin - sumPower d.stakes + (sumPower d.stakes + (v + 0)) +
          unbonding s.frozen.fin) =
        (amountPerPower : Int) * (msum (fun d : Delegatee => sumPower d.stakes) s.delegs.fin + unbonding s.frozen.fin) +
          (amountPerPower : Int) * v := by
      rw [← Int.mul_add]; congr 1; omega
    rw [hmul, hex]
    simp only [setAcct_delegs, setAcct_frozen] at hh
    omega

/-! ### unstaking -/

theorem delStake_of_find {d : Delegatee} {hash : Hex} {st : Stake} (h : d.findStake hash = some st) :
    d.delStake hash = { d with stakes := d.stakes.eraseP (·.hash == hash),
                               self := if isSelf st then d.self - st.power else d.self,
                               total := d.total - st.power } := by
  unfold delStake; rw [h]

/-- the delegatee left behind by a successful unstaking -/
def unstakeRest (d : Delegatee) (hash : Hex) : Delegatee :=
  if (d.delStake hash).self = 0 then (d.delStake hash).delAllStakes.1 else d.delStake hash

theorem execUnstaking_inv {s : St} {tx : TxIn} {r : RunOut} {height : Int}
    (h : execUnstaking s true height tx = .ok r) :
    ∃ d hash st, s.delegs.fin[ledgerKey tx.to]? = some d ∧ tx.payload = .unstaking hash ∧
      d.findStake hash = some st ∧
      r.st = { s with
        delegs := if (unstakeRest d hash).total = 0 then s.delegs.del true (ledgerKey (unstakeRest d hash).addr)
                  else s.delegs.set true (ledgerKey (unstakeRest d hash).addr) (unstakeRest d hash),
        frozen := freezeAll s.frozen true (unstakeMoved d hash) (height + s.active.lazyRewardBlocks) } ∧
      r.fail = none := by
  simp only [execUnstaking, bind, Except.bind, pure, Except.pure, throw, throwThe, MonadExceptOf.throw] at h
  split at h; · cases h
  rename_i d hd
  split at h
  case h_2 => cases h
  rename_i hash hp
  split at h; · cases h
  split at h; · cases h
  rename_i st hst
  split at h; · cases h
  injection h with h; subst h
  refine ⟨d, hash, st, by simpa [Led.get] using hd, hp, hst, ?_, rfl⟩
  unfold unstakeRest unstakeMoved
  rw [hst]
  by_cases h0 : (d.delStake hash).self = 0
  · simp only [h0, if_true, freezeAll_cons]; rfl
  · simp only [h0, if_false, freezeAll_cons]; rfl

theorem execUnstaking_ok {s : St} {tx : TxIn} {r : RunOut} {height : Int}
    (h : execUnstaking s true height tx = .ok r) (hi : Inv0 s)
    (hf : ∀ (d : Delegatee) (hash : Hex), s.delegs.fin[ledgerKey tx.to]? = some d → tx.payload = .unstaking hash →
      FreezeSafe s.frozen.fin (unstakeMoved d hash)) :
    BodyOK s r.st 0 ∧ r.fail = none := by
  obtain ⟨d, hash, st, hd, hp, hst, hr, hfail⟩ := execUnstaking_inv h
  refine ⟨?_, hfail⟩
  rw [hr]
  have hsafe := hf d hash hd hp
  obtain ⟨f1, f2, f3, f4⟩ := freezeAll_ok (unstakeMoved d hash) (height + s.active.lazyRewardBlocks) s.frozen hsafe
  obtain ⟨dk, dtot, dpow⟩ := hi.delegKey _ _ hd
  have hdel := delStake_of_find hst
  have hfind : d.stakes.find? (·.hash == hash) = some st := hst
  have hsum1 : sumPower (d.delStake hash).stakes = sumPower d.stakes - st.power := by
    rw [hdel]; exact sumPower_eraseP _ _ _ hfind
  have hmem1 : ∀ x ∈ (d.delStake hash).stakes, x ∈ d.stakes := by
    rw [hdel]; intro x hx; exact List.mem_of_mem_eraseP hx
  have hstmem : st ∈ d.stakes := List.mem_of_find?_eq_some hfind
  -- facts about the rest and the moved stakes
  have hrest : (unstakeRest d hash).addr = d.addr ∧ (unstakeRest d hash).total = sumPower (unstakeRest d hash).stakes ∧
      (∀ x ∈ (unstakeRest d hash).stakes, x ∈ d.stakes) ∧
      sumPower (unstakeRest d hash).stakes + sumPower (unstakeMoved d hash) = sumPower d.stakes ∧
      (∀ x ∈ unstakeMoved d hash, x ∈ d.stakes) := by
    unfold unstakeRest unstakeMoved
    rw [hst]
    by_cases h0 : (d.delStake hash).self = 0
    · simp only [h0, if_true, delAllStakes]
      refine ⟨by rw [hdel], ?_, by simp, ?_, ?_⟩
      · show (d.delStake hash).total - sumPower (d.delStake hash).stakes = sumPower []
        rw [hsum1]; rw [hdel]; simp [sumPower_nil]; omega
      · rw [sumPower_cons, hsum1, sumPower_nil]; omega
      · intro x hx
        rcases List.mem_cons.mp hx with e | hx
        · subst e; exact hstmem
        · exact hmem1 x hx
    · simp only [h0, if_false]
      refine ⟨by rw [hdel], ?_, hmem1, ?_, ?_⟩
      · rw [hsum1]; rw [hdel]; simp; omega
      · rw [sumPower_cons, hsum1, sumPower_nil]; omega
      · intro x hx
        rcases List.mem_cons.mp hx with e | hx
        · subst e; exact hstmem
        · cases hx
  obtain ⟨ra, rtot, rmem, rsum, mmem⟩ := hrest
  have rkey : ledgerKey (unstakeRest d hash).addr = ledgerKey tx.to := by rw [ra]; exact dk
  refine ⟨⟨hi.acctKey, ?_, ?_⟩, ⟨rfl, ?_, f1, rfl, rfl, rfl⟩, ?_, ?_, rfl, by decide⟩
  · -- delegatee invariant
    intro k d' hk
    simp only at hk
    rw [rkey] at hk
    split at hk
    · simp only [Led.del, if_true] at hk
      rw [ExtTreeMap.getElem?_erase] at hk
      split at hk
      · cases hk
      · exact hi.delegKey k d' hk
    · simp only [Led.set, if_true] at hk
      rw [ExtTreeMap.getElem?_insert] at hk
      split at hk
      · rename_i e; simp at e
        injection hk with hk; subst hk
        exact ⟨by rw [ra, dk]; exact e, rtot, fun x hx => dpow x (rmem x hx)⟩
      · exact hi.delegKey k d' hk
  · -- frozen invariant
    intro k x hk
    rcases f4 k x hk with h | ⟨hk', st0, hst0, e⟩
    · exact hi.frozenKey k x h
    · subst e; exact ⟨hk', dpow st0 (mmem st0 hst0)⟩
  · simp only; split <;> simp [Led.del, Led.set]
  · intro hs k x hk
    apply f3
    apply hs
    simpa [Led.committed, f1] using hk
  · -- conservation
    simp only [holdings, Int.natCast_zero, Int.add_zero]
    rw [f2, rkey]
    have hb : bonded (if (unstakeRest d hash).total = 0 then s.delegs.del true (ledgerKey tx.to)
        else s.delegs.set true (ledgerKey tx.to) (unstakeRest d hash)).fin =
        bonded s.delegs.fin - sumPower d.stakes + sumPower (unstakeRest d hash).stakes := by
      split
      · rename_i h0
        simp only [Led.del, if_true, bonded]
        rw [msum_erase, fAt_some _ hd, ← rtot, h0]; omega
      · simp only [Led.set, if_true, bonded]
        rw [msum_insert, fAt_some _ hd]
    rw [hb]
    congr 1; congr 1; omega

end Rigo.C02
