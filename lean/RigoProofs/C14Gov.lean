/-
  C14 — exact effect of `GovProposal.DoPunish` on one open proposal.
-/
import Rigo.Block
open Std

namespace Rigo.C14L

/-- the slashed voting power as the code computes it (uint256 product, uint64 truncations) -/
def govSlashOf (power ratio : Int) : Int :=
  Int.ofNat ((((power % (two64 : Int)).toNat * (ratio % (two64 : Int)).toNat) % two256 / 100) % two64)

/-- for a power in the int64 range and a ratio in 0..100 this is `⌊power·ratio/100⌋` -/
theorem govSlashOf_eq_floor {power ratio : Int} (hp : 0 ≤ power) (hp' : power < (two63 : Int)) (hr : 0 ≤ ratio) (hr' : ratio ≤ 100) :
    govSlashOf power ratio = power * ratio / 100 := by
  unfold govSlashOf
  have e1 : power % (two64 : Int) = power := Int.emod_eq_of_lt hp (by unfold two63 two64 at *; omega)
  have e2 : ratio % (two64 : Int) = ratio := Int.emod_eq_of_lt hr (by unfold two64; omega)
  rw [e1, e2]
  obtain ⟨a, rfl⟩ := Int.eq_ofNat_of_zero_le hp
  obtain ⟨b, rfl⟩ := Int.eq_ofNat_of_zero_le hr
  simp only [Int.toNat_natCast]
  have ha : a < 2 ^ 63 := by unfold two63 at hp'; omega
  have hb : b ≤ 100 := by omega
  have hab : a * b ≤ 2 ^ 63 * 100 := Nat.mul_le_mul (Nat.le_of_lt ha) hb
  have h1 : a * b % two256 = a * b := Nat.mod_eq_of_lt (Nat.lt_of_le_of_lt hab (by unfold two256; decide))
  have h2 : a * b / 100 % two64 = a * b / 100 := Nat.mod_eq_of_lt (by
    have : a * b / 100 ≤ 2 ^ 63 := by omega
    unfold two64; omega)
  have h3 : (a * b % two256 / 100) % two64 = a * b / 100 := by
    simp only [h1, h2]
  simp only [h3, Int.ofNat_eq_natCast, Int.natCast_ediv, Int.natCast_mul, Int.cast_ofNat_Int]

/-- change the vote count of the option with index `c` -/
def updAt (os : List VoteOpt) (c : Int) (g : VoteOpt → VoteOpt) : List VoteOpt :=
  os.zipIdx.map (fun (o, i) => if (i : Int) = c then g o else o)

theorem updAt_length (os : List VoteOpt) (c : Int) (g : VoteOpt → VoteOpt) : (updAt os c g).length = os.length := by
  simp [updAt]

theorem updAt_getElem (os : List VoteOpt) (c : Int) (g : VoteOpt → VoteOpt) (i : Nat) (h : i < (updAt os c g).length) :
    (updAt os c g)[i] = if (i : Int) = c then g (os[i]'(by simpa [updAt] using h)) else os[i]'(by simpa [updAt] using h) := by
  simp [updAt]

theorem updAt_updAt (os : List VoteOpt) (c : Int) (g g' : VoteOpt → VoteOpt) :
    updAt (updAt os c g) c g' = updAt os c (g' ∘ g) := by
  apply List.ext_getElem
  · simp [updAt_length]
  · intro i h1 h2
    rw [updAt_getElem, updAt_getElem, updAt_getElem]
    split <;> simp

theorem updAt_id (os : List VoteOpt) (c : Int) (g : VoteOpt → VoteOpt) (hg : ∀ o, g o = o) : updAt os c g = os := by
  apply List.ext_getElem
  · simp [updAt_length]
  · intro i h1 h2
    rw [updAt_getElem]; split <;> simp [hg]

theorem updAt_neg (os : List VoteOpt) (c : Int) (g : VoteOpt → VoteOpt) (hc : c < 0) : updAt os c g = os := by
  apply List.ext_getElem
  · simp [updAt_length]
  · intro i h1 h2
    rw [updAt_getElem]
    have : ¬ ((i : Int) = c) := by omega
    simp [this]

/-- voters of a proposal have pairwise different addresses (the Go map is keyed by address) -/
def VotersDistinct (vs : List Voter) : Prop := vs.Pairwise (fun a b => a.addr ≠ b.addr)

theorem doVote_of_find (p : Proposal) (addr : Hex) (c : Int) (v : Voter)
    (hf : p.voters.find? (·.addr == addr) = some v) :
    p.doVote addr c =
      { p with
        options :=
          (if c ≥ 0 then
            updAt (if v.choice ≥ 0 then updAt p.options v.choice (fun o => { o with votes := o.votes - v.power }) else p.options)
              c (fun o => { o with votes := o.votes + v.power })
          else (if v.choice ≥ 0 then updAt p.options v.choice (fun o => { o with votes := o.votes - v.power }) else p.options)),
        voters := p.voters.map fun w => if w.addr == addr then { w with choice := c } else w } := by
  unfold Proposal.doVote
  rw [hf]
  rfl

theorem eq_of_find_of_mem {vs : List Voter} (hd : VotersDistinct vs) {addr : Hex} {v w : Voter}
    (hf : vs.find? (·.addr == addr) = some v) (hw : w ∈ vs) (hwa : w.addr = addr) : w = v := by
  have hv := List.mem_of_find?_eq_some hf
  have hp := List.find?_some hf
  simp only [beq_iff_eq] at hp
  apply Classical.byContradiction; intro hne
  have key : ∀ {l : List Voter}, l.Pairwise (fun a b => a.addr ≠ b.addr) → ∀ x ∈ l, ∀ y ∈ l, x ≠ y → x.addr ≠ y.addr := by
    intro l h
    induction h with
    | nil => simp
    | cons hr _ ih =>
      intro x hx y hy hne
      rcases List.mem_cons.mp hx with hx1 | hx1 <;> rcases List.mem_cons.mp hy with hy1 | hy1
      · exact absurd (hx1.trans hy1.symm) hne
      · rw [hx1]; exact hr _ hy1
      · rw [hy1]; exact fun e => hr _ hx1 e.symm
      · exact ih x hx1 y hy1 hne
  exact key hd w hw v hv hne (hwa.trans hp.symm)

theorem doPunish_of_find (p : Proposal) (addr : Hex) (ratio : Int) (v : Voter)
    (hf : p.voters.find? (·.addr == addr) = some v) :
    p.doPunish addr ratio =
      (let sl := govSlashOf v.power ratio
       let p1 := if v.choice ≥ 0 then p.doVote addr (-1) else p
       let p2 : Proposal :=
         if v.power - sl ≤ 0 then { p1 with voters := p1.voters.filter (·.addr != addr) }
         else
           let p1' : Proposal := { p1 with voters := p1.voters.map fun w => if w.addr == addr then { w with power := v.power - sl } else w }
           if v.choice ≥ 0 then p1'.doVote addr v.choice else p1'
       ({ p2 with total := p2.total - sl, majority := Int.tdiv ((p2.total - sl) * 2) 3 }, sl)) := by
  unfold Proposal.doPunish
  rw [hf]
  rfl

/-- **gov_punish_exact**: `DoPunish` on one proposal whose voters list contains `v` for the validator:
    * the returned slashed power is `govSlashOf v.power ratio` (= `⌊power·ratio/100⌋`, see `govSlashOf_eq_floor`);
    * `v` keeps `power − slashed` (same choice), or is removed when that is `≤ 0`; other voters untouched;
    * the tally of `v`'s chosen option drops by the slashed power (by `v`'s whole former power when it
      is removed); other options untouched, nothing changes when `v` had not voted;
    * `total` drops by the slashed power and `majority = ⌊2·total/3⌋` (Go truncation) is recomputed;
    * nothing else in the proposal changes. -/
theorem gov_punish_exact (p : Proposal) (addr : Hex) (ratio : Int) (v : Voter)
    (hf : p.voters.find? (·.addr == addr) = some v) (hd : VotersDistinct p.voters) :
    (p.doPunish addr ratio).2 = govSlashOf v.power ratio ∧
    (p.doPunish addr ratio).1.total = p.total - govSlashOf v.power ratio ∧
    (p.doPunish addr ratio).1.majority = Int.tdiv ((p.total - govSlashOf v.power ratio) * 2) 3 ∧
    (p.doPunish addr ratio).1.voters =
        (if v.power - govSlashOf v.power ratio ≤ 0 then p.voters.filter (·.addr != addr)
         else p.voters.map fun w => if w.addr == addr then { w with power := v.power - govSlashOf v.power ratio } else w) ∧
    (p.doPunish addr ratio).1.options = updAt p.options v.choice
        (fun o => { o with votes := o.votes - (if v.power - govSlashOf v.power ratio ≤ 0 then v.power else govSlashOf v.power ratio) }) ∧
    (p.doPunish addr ratio).1.hash = p.hash ∧ (p.doPunish addr ratio).1.start = p.start ∧
    (p.doPunish addr ratio).1.end_ = p.end_ ∧ (p.doPunish addr ratio).1.applying = p.applying ∧
    (p.doPunish addr ratio).1.optType = p.optType ∧ (p.doPunish addr ratio).1.major = p.major := by
  rw [doPunish_of_find p addr ratio v hf]
  generalize govSlashOf v.power ratio = sl
  have hva : v.addr = addr := by simpa using List.find?_some hf
  have hfilter : ∀ (g : Voter → Voter), (∀ w, (g w).addr = w.addr) → (∀ w, w.addr ≠ addr → g w = w) →
      (p.voters.map g).filter (·.addr != addr) = p.voters.filter (·.addr != addr) := by
    intro g hg1 hg2
    rw [List.filter_map]
    have : ((fun x : Voter => x.addr != addr) ∘ g) = (fun x : Voter => x.addr != addr) := by
      funext w; simp [Function.comp, hg1]
    rw [this]
    conv => rhs; rw [← List.map_id (List.filter (fun x => x.addr != addr) p.voters)]
    apply List.map_congr_left
    intro w hw
    have := (List.mem_filter.mp hw).2
    simp only [bne_iff_ne, ne_eq] at this
    simp [hg2 w this]
  have hneg : ¬ ((-1 : Int) ≥ 0) := by omega
  by_cases hc : v.choice ≥ 0
  · have h1 := doVote_of_find p addr (-1) v hf
    simp only [hneg, if_false, hc, if_true] at h1
    by_cases hn : v.power - sl ≤ 0
    · simp only [hc, if_true, hn, h1]
      and_intros <;> (try first | trivial | rfl)
      apply hfilter
      · intro w; split <;> rfl
      · intro w hw; simp [hw]
    · simp only [hc, if_true, hn, if_false, h1]
      have hfind' : (List.map (fun w : Voter => if w.addr == addr then { w with power := v.power - sl } else w)
            (List.map (fun w : Voter => if w.addr == addr then { w with choice := -1 } else w) p.voters)).find? (·.addr == addr)
          = some { v with choice := -1, power := v.power - sl } := by
        simp only [List.map_map, List.find?_map]
        have : ((fun x : Voter => x.addr == addr) ∘ ((fun w : Voter => if w.addr == addr then { w with power := v.power - sl } else w) ∘
            fun w : Voter => if w.addr == addr then { w with choice := -1 } else w)) = (fun x : Voter => x.addr == addr) := by
          funext w
          simp only [Function.comp]
          by_cases hw : w.addr = addr <;> simp [hw]
        rw [this, hf]
        simp [hva]
      rw [doVote_of_find _ addr v.choice _ hfind']
      simp only [hneg, if_false, hc, if_true]
      and_intros <;> (try first | trivial | rfl)
      · simp only [List.map_map]
        apply List.map_congr_left
        intro w hw
        simp only [Function.comp]
        by_cases hwa : w.addr = addr
        · have := eq_of_find_of_mem hd hf hw hwa
          subst this
          simp [hwa]
        · simp [hwa]
      · rw [updAt_updAt]
        congr 1
        funext o
        simp only [Function.comp]
        congr 1
        omega
  · have hopt : ∀ g, updAt p.options v.choice g = p.options := fun g => updAt_neg _ _ _ (by omega)
    by_cases hn : v.power - sl ≤ 0
    · simp only [hc, if_false, hn, if_true, hopt]
      and_intros <;> (try first | trivial | rfl)
    · simp only [hc, if_false, hn, hopt]
      and_intros <;> (try first | trivial | rfl)

/-- a validator that is not a voter of the proposal: nothing happens -/
theorem gov_punish_absent (p : Proposal) (addr : Hex) (ratio : Int)
    (hf : p.voters.find? (·.addr == addr) = none) : p.doPunish addr ratio = (p, 0) := by
  unfold Proposal.doPunish; rw [hf]

end Rigo.C14L
