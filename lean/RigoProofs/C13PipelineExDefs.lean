/-
  C13 / pipeline (7a): a concrete run for the non-vacuity of the pipeline theorems — seven blocks, two genesis
  validators A (power 10) and B (power 9), account C delegates 5 to A in block 2 — and the facts about it that are
  established by kernel evaluation (`decide +kernel`; the sorted validator lists are never forced).

  Tendermint's view of this run: EndBlock(1) answers nothing, EndBlock(2) announces A:10, B:9 (in force from block 4),
  EndBlock(3) announces A:15 (in force from block 5).  Hence the votes of BeginBlock 2–5 are the genesis set and the
  votes of BeginBlock 6, 7 are A:15, B:9 (B does not sign block 5).
-/
import RigoProofs.C13PipelineConcrete
import RigoProofs.C10Params
open Std
namespace Rigo.C13P.Ex
open Rigo Rigo.TM Rigo.C14L Rigo.C19 Rigo.C13 Rigo.C13P

def addrA : Hex := "aaaaaaaaaaaaaaaaaaaaaaaaaaaaaaaaaaaaaaaa"
def addrB : Hex := "bbbbbbbbbbbbbbbbbbbbbbbbbbbbbbbbbbbbbbbb"
def addrC : Hex := "cccccccccccccccccccccccccccccccccccccccc"
def RIGO : Nat := 1000000000000000000

def G : Genesis :=
  { chainId := "c13p", holders := [(addrA, 1000), (addrB, 1000), (addrC, 100 * RIGO)],
    vals := [(addrA, addrA, 10), (addrB, addrB, 9)],
    params := { maxValidatorCnt := 10, minValidatorStake := RIGO, minDelegatorStake := 0,
                rewardPerPower := 3, lazyRewardBlocks := 2, lazyApplyingBlocks := 1, gasPrice := 1,
                minTrxGas := 1, maxTrxGas := 1000, maxBlockGas := 100000, minVotingPeriodBlocks := 1,
                maxVotingPeriodBlocks := 100, minSelfStakeRatio := 50, maxUpdatableStakeRatio := 30,
                maxIndividualStakeRatio := 100, slashRatio := 50, signedBlocksWindow := 100, minSignedBlocks := 5,
                version := 1 } }

def txDeleg : TxIn :=
  { hash := "d1", sigOk := true, from_ := addrC, to := addrA, amount := 5 * RIGO, gas := 1, price := 1, type := TRX_STAKING }

def vote (a : Hex) (p : Int) (s : Bool := true) : VoteIn := { addr := a, power := p, signed := s }
def hdr (n : Int) (vs : List VoteIn) : Header := { height := n, votes := vs }
def genVotes : List VoteIn := [vote addrA 10, vote addrB 9]
def newVotes (bSigned : Bool) : List VoteIn := [vote addrA 15, vote addrB 9 bSigned]

def b1 : List Op := [.begin_ (hdr 1 []), .end_, .commit]
def b2 : List Op := [.begin_ (hdr 2 genVotes), .deliver txDeleg, .end_, .commit]
def b3 : List Op := [.begin_ (hdr 3 genVotes), .end_, .commit]
def b4 : List Op := [.begin_ (hdr 4 genVotes), .end_, .commit]
def b5 : List Op := [.begin_ (hdr 5 genVotes), .end_, .commit]
def b6 : List Op := [.begin_ (hdr 6 (newVotes false)), .end_, .commit]
def b7 : List Op := [.begin_ (hdr 7 (newVotes true)), .end_, .commit]
def ops : List Op := b1 ++ b2 ++ b3 ++ b4 ++ b5 ++ b6 ++ b7

def S0 : St := initChain G

theorem ops_phased : phaseRun .idle ops = some .idle := by decide

theorem ops_inputsOK : InputsOK id G ops := by
  refine ⟨by decide, ?_, by decide, ?_⟩
  · intro v hv; simp [G] at hv; rcases hv with rfl | rfl <;> exact ⟨rfl, by decide⟩
  · intro op hop
    cases op with
    | deliver tx =>
      simp [ops, b1, b2, b3, b4, b5, b6, b7] at hop
      subst hop
      intro _ h; exact absurd h (by decide)
    | _ => trivial

theorem ops_params : ParamsAlong (initChain G) ops :=
  C10P.paramsAlong_of_inputs G ops (fun op ho => (ops_inputsOK.hist op ho).1) (by decide) (by decide)
    (C10P.optionsOK_of_check (by decide))


/-! ### the eligible records at the three BeginBlocks that matter, checked by evaluation -/

/-- a decidable summary of a state at a block boundary: the eligible records of the committed ledger are at most `N`,
    have distinct keys and carry exactly the (key, total power) pairs `expect`, in ledger order -/
def stateCheck (s : St) (mp : Int) (N : Nat) (expect : List (Hex × Int)) : Prop :=
  (((s.delegs.committed.toList.map (·.2)).filter (fun d => d.self ≥ mp)).length ≤ N) ∧
  ((((s.delegs.committed.toList.map (·.2)).filter (fun d => d.self ≥ mp)).map (·.pub)).Nodup) ∧
  (((s.delegs.committed.toList.map (·.2)).filter (fun d => d.self ≥ mp)).map (fun d => (d.pub, d.total)) = expect)

instance (s : St) (mp : Int) (N : Nat) (expect : List (Hex × Int)) : Decidable (stateCheck s mp N expect) := by
  unfold stateCheck; infer_instance

theorem reported_of_check {s : St} {mp : Int} {votes : List VoteIn}
    (h : stateCheck s mp s.active.maxValidatorCnt.toNat (votes.map fun v => (v.addr, v.power))) :
    VotesOf id (asSet (sortByPower ((eligible s mp).take s.active.maxValidatorCnt.toNat))) votes ∧
    ∀ pub p, (pub, p) ∈ (votes.map fun v => (v.addr, v.power)) →
      ∃ d ∈ (eligible s mp).take s.active.maxValidatorCnt.toNat, d.pub = pub := by
  obtain ⟨h1, h2, h3⟩ := h
  have hpd : ((s.delegs.committed.toList.map (·.2)).filter (fun d => d.self ≥ mp)).Pairwise (fun a b => a.pub ≠ b.pub) := by
    have := h2; unfold List.Nodup at this; rwa [List.pairwise_map] at this
  obtain ⟨e1, e2⟩ := asSet_reported s mp _ rfl h1 hpd
  have hmem : ∀ pub p, (∃ d ∈ (s.delegs.committed.toList.map (·.2)).filter (fun d => d.self ≥ mp), d.pub = pub ∧ d.total = p) ↔
      (pub, p) ∈ (votes.map fun v => (v.addr, v.power)) := by
    intro pub p
    rw [← h3]
    simp only [List.mem_map, Prod.mk.injEq]
  constructor
  · rw [e1]
    apply votesOf_asSet _ hpd
    intro pub p
    rw [hmem]
    simp only [List.mem_map, Prod.mk.injEq, id]
  · intro pub p hp
    obtain ⟨d, hd, hdp, _⟩ := (hmem pub p).mpr hp
    exact ⟨d, by rw [e2]; exact (sortByPower_perm _).mem_iff.mpr hd, hdp⟩

theorem minPower_G (mp : Int) (h : amountToPower G.params.minValidatorStake = .ok mp) : mp = 1 := by
  have : amountToPower G.params.minValidatorStake = .ok 1 := by rfl
  rw [this] at h; cases h; rfl

end Rigo.C13P.Ex
