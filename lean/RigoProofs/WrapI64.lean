/-
  Go's int64 wrap-around in `validateProposal` (Rigo/App.lean).

  `GovCtrler.ValidateTrx` computes `endVotingHeight := start + period` and
  `minApplyingHeight := endVotingHeight + LazyApplyingBlocks()` in int64.  The overflow of the first sum is caught
  (issue #51: `start > endVotingHeight` rejects), the overflow of the second is not.  The model follows the code
  (`wrapInt64`).  This file has

  * the arithmetic of `wrapInt64` (`wrapInt64_range`, `_fit`, `_ge`, `_le`);
  * `validateProposalOld`, the former model function on unbounded integers, and `validateProposal_eq_old`: the two
    agree when both sums are int64 values (`SumsFit`);
  * `ProposalHeightsFit`, the hypothesis under which a successful validation still yields
    `applying ≥ start + period + lazyApplyingBlocks`: int64 fields and no overflow of the whole sum (`HeightsFit`);
  * `validateProposal_heights` (what a successful validation says about the heights, no hypothesis) and
    `validateProposal_heights_fit` (the unbounded inequalities, under `HeightsFit`).
-/
import Rigo.App

namespace Rigo

/-- an int64 value -/
def I64 (x : Int) : Prop := -9223372036854775808 ≤ x ∧ x < 9223372036854775808

instance (x : Int) : Decidable (I64 x) := by unfold I64; infer_instance

/-- `wrapInt64` with the powers of two written out (the form `omega` can work with) -/
theorem wrapInt64_def (x : Int) :
    wrapInt64 x = if x % 18446744073709551616 < 9223372036854775808 then x % 18446744073709551616
      else x % 18446744073709551616 - 18446744073709551616 := by
  unfold wrapInt64
  have e64 : ((two64 : Nat) : Int) = 18446744073709551616 := by decide
  have e63 : ((two63 : Nat) : Int) = 9223372036854775808 := by decide
  rw [e64, e63]

/-- the result is an int64 value … -/
theorem wrapInt64_range (x : Int) : I64 (wrapInt64 x) := by
  unfold I64; rw [wrapInt64_def]; split <;> omega

/-- … congruent to the argument modulo 2^64 … -/
theorem wrapInt64_mod (x : Int) : wrapInt64 x % 18446744073709551616 = x % 18446744073709551616 := by
  rw [wrapInt64_def]; split <;> omega

/-- … and the argument itself when that is an int64 value -/
theorem wrapInt64_fit {x : Int} (h : I64 x) : wrapInt64 x = x := by
  unfold I64 at h; rw [wrapInt64_def]; split <;> omega

/-- without overflow (underflow allowed) the wrapped value is not smaller -/
theorem wrapInt64_ge {x : Int} (h : x < 9223372036854775808) : x ≤ wrapInt64 x := by
  rw [wrapInt64_def]; split <;> omega

/-- without underflow (overflow allowed) the wrapped value is not larger -/
theorem wrapInt64_le {x : Int} (h : -9223372036854775808 ≤ x) : wrapInt64 x ≤ x := by
  rw [wrapInt64_def]; split <;> omega

/-- one overflow: the value minus 2^64 -/
theorem wrapInt64_hi {x : Int} (h1 : 9223372036854775808 ≤ x) (h2 : x < 27670116110564327424) :
    wrapInt64 x = x - 18446744073709551616 := by
  rw [wrapInt64_def]; split <;> omega

/-- one underflow: the value plus 2^64 -/
theorem wrapInt64_lo {x : Int} (h1 : -27670116110564327424 ≤ x) (h2 : x < -9223372036854775808) :
    wrapInt64 x = x + 18446744073709551616 := by
  rw [wrapInt64_def]; split <;> omega

/-! ### the former model function -/

/-- `validateProposal` as it was before the model followed Go's int64 arithmetic: both sums on unbounded integers -/
def validateProposalOld (s : St) (exec : Bool) (height : Int) (tx : TxIn) : Step St := do
  if !(byteLen tx.to == 20 ∧ isZeroAddr tx.to) then throw (.err "tozero")
  if !s.isValidator tx.from_ then throw (.err "noright")
  match tx.payload with
  | .proposal _ start period applying optType opts =>
    if (s.props.get exec (ledgerKey tx.hash)).isSome then throw (.err "dupkey")
    if start ≤ height then throw (.err "payloadparams")
    if period > s.active.maxVotingPeriodBlocks ∨ period < s.active.minVotingPeriodBlocks then throw (.err "payloadparams")
    if optType = PROPOSAL_GOVPARAMS ∧ opts.any (fun o => o.parsedV.isNone || o.parsedA.isNone) then throw (.err "payloadparams")
    let endH := start + period
    let minApplying := endH + s.active.lazyApplyingBlocks
    if start > endH then throw (.err "payloadparams")
    if applying < minApplying ∨ endH > applying then throw (.err "payloadparams")
    if opts.isEmpty then throw (.err "payloadparams")
    pure s
  | _ => throw (.err "payloadtype")

/-- both sums that `ValidateTrx` computes are int64 values -/
def SumsFit (s : St) (tx : TxIn) : Prop :=
  match tx.payload with
  | .proposal _ start period _ _ _ => I64 (start + period) ∧ I64 (start + period + s.active.lazyApplyingBlocks)
  | _ => True

instance (s : St) (tx : TxIn) : Decidable (SumsFit s tx) := by unfold SumsFit; split <;> infer_instance

/-- when both sums fit, the int64 arithmetic changes nothing -/
theorem validateProposal_eq_old (s : St) (exec : Bool) (height : Int) (tx : TxIn) (hfit : SumsFit s tx) :
    validateProposal s exec height tx = validateProposalOld s exec height tx := by
  unfold validateProposal validateProposalOld
  cases hp : tx.payload with
  | proposal msg start period applying optType opts =>
    unfold SumsFit at hfit
    rw [hp] at hfit
    simp only at hfit
    simp only [wrapInt64_fit hfit.1, wrapInt64_fit hfit.2]
  | _ => simp only [hp]

/-! ### what a successful validation says about the heights -/

/-- no overflow of the whole sum `start + period + lazyApplyingBlocks` -/
def HeightsFit (start period lazy : Int) : Prop := start + period + lazy < 9223372036854775808

instance (a b c : Int) : Decidable (HeightsFit a b c) := by unfold HeightsFit; infer_instance

/-- the hypothesis on a TRX_PROPOSAL under which acceptance implies `applying ≥ start + period + lazyApplyingBlocks`:
    `start`, `period` and the parameter `lazyApplyingBlocks` are int64 values (the Go types guarantee that; the model
    carries unbounded `Int`s) and their sum does not overflow int64 (`HeightsFit`; NOT guaranteed by the Go code:
    `proposal_overflow_accepted`).  True of every transaction that is not a proposal. -/
def ProposalHeightsFit (s : St) (tx : TxIn) : Prop :=
  match tx.payload with
  | .proposal _ start period _ _ _ =>
    I64 start ∧ I64 period ∧ I64 s.active.lazyApplyingBlocks ∧ HeightsFit start period s.active.lazyApplyingBlocks
  | _ => True

instance (s : St) (tx : TxIn) : Decidable (ProposalHeightsFit s tx) := by
  unfold ProposalHeightsFit; split <;> infer_instance

/-- the three height tests of `validateProposal` (and of the Go code), hypothesis-free -/
structure HeightsAccepted (start period lazy applying : Int) : Prop where
  /-- the guard of issue #51: `start + period` did not overflow (as an int64 sum it is not below `start`) -/
  endNoWrap : start ≤ wrapInt64 (start + period)
  /-- the applying height is not before the end of voting -/
  endBeforeApply : wrapInt64 (start + period) ≤ applying
  /-- … and not before `end + lazyApplyingBlocks` AS GO COMPUTES IT (int64) -/
  lazyApplyI64 : wrapInt64 (wrapInt64 (start + period) + lazy) ≤ applying

/-- with int64 fields and no overflow of the whole sum, the accepted heights satisfy the inequalities on unbounded
    integers: `applying ≥ start + period + lazy` and `start + period ≤ applying` -/
theorem HeightsAccepted.unbounded {start period lazy applying : Int} (h : HeightsAccepted start period lazy applying)
    (hs : I64 start) (hp : I64 period) (hl : I64 lazy) (hfit : HeightsFit start period lazy) :
    applying ≥ start + period + lazy ∧ start + period ≤ applying := by
  obtain ⟨h1, h2, h3⟩ := h
  unfold I64 at hs hp hl
  unfold HeightsFit at hfit
  by_cases hA : I64 (start + period)
  · -- the first sum fits: the second does not overflow, its wrapped value is not smaller
    rw [wrapInt64_fit hA] at h1 h2 h3
    have := wrapInt64_ge hfit
    omega
  · unfold I64 at hA
    by_cases hB : 9223372036854775808 ≤ start + period
    · -- overflow of the first sum: Go's guard refuses
      rw [wrapInt64_hi hB (by omega)] at h1
      omega
    · -- underflow of the first sum: the wrapped end is ≥ 0, so is `applying`, while the true sum is negative
      rw [wrapInt64_lo (by omega) (by omega)] at h1 h2
      omega

end Rigo
