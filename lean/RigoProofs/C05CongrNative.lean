/-
  C05 — congruence pass, part 2: the native (non-EVM) transaction bodies and the fee step read the
  consensus account map only at the sender and receiver keys and write records back; on two maps that
  agree there they succeed together and write the same records.
-/
import RigoProofs.C05CongrBase
open Std
set_option linter.unusedSimpArgs false
set_option linter.unusedVariables false
namespace Rigo.C05C
open Rigo

/-- a relation on account maps that survives writing the same record under the same key on both sides -/
def InsClosed (R : KMap Account → KMap Account → Prop) : Prop :=
  ∀ (m m' : KMap Account) (k : String) (v : Account), R m m' → R (m.insert k v) (m'.insert k v)

/-- two results of a transaction body that differ only in the consensus account map -/
def OutRel (R : KMap Account → KMap Account → Prop) (r r' : RunOut) : Prop :=
  r'.fail = r.fail ∧ r'.evmGas = r.evmGas ∧ r'.st = withFin r.st r'.st.accts.fin ∧ R r.st.accts.fin r'.st.accts.fin

@[simp] theorem setAcct_withFin (s : St) (m : KMap Account) (a : Account) :
    (withFin s m).setAcct true a = withFin s (m.insert (ledgerKey a.addr) a) := by
  rw [setAcct_true]; rfl

macro "fwd_goal" : tactic =>
  `(tactic| (simp only [bind, Except.bind, pure, Except.pure, throw, throwThe, MonadExceptOf.throw,
               if_false, if_true, ↓reduceIte, not_true_eq_false, not_false_eq_true, withFin_withFin',
               findAcct_true, wf_fin, Bool.false_eq_true, Option.some.injEq, reduceCtorEq, *]))

macro "twin_tac" hf:term "," h0:term "," hR:term : tactic =>
  `(tactic| (
    refine ⟨?_, ?_, ?_⟩
    rotate_left
    · try simp only [findAcct_true, wf_fin, $hf:term]
      fwd_goal
      first | rfl | (simp only [*]; rfl)
    · unfold OutRel
      refine ⟨rfl, rfl, rfl, ?_⟩
      try simp only [setAcct_withFin, wf_fin]
      first | exact $h0 | exact $hR _ _ _ _ $h0 | exact $hR _ _ _ _ ($hR _ _ _ _ $h0)))

theorem execStaking_twin {R : KMap Account → KMap Account → Prop} (hR : InsClosed R)
    {s : St} {m m' : KMap Account} {ht : Int} {tx : TxIn} {r : RunOut}
    (h0 : R m m') (hf : m'[ledgerKey tx.from_]? = m[ledgerKey tx.from_]?)
    (h : execStaking (withFin s m) true ht tx = .ok r) :
    ∃ r', execStaking (withFin s m') true ht tx = .ok r' ∧ OutRel R r r' := by
  unfold execStaking at h ⊢
  step_cases h
  all_goals try (exact absurd trivial ‹¬True›)
  all_goals
    simp only [Except.ok.injEq] at h; subst h
    wf_simp
    twin_tac hf, h0, hR


theorem execTransfer_twin {R : KMap Account → KMap Account → Prop} (hR : InsClosed R)
    {s : St} {m m' : KMap Account} {tx : TxIn} {r : RunOut}
    (h0 : R m m') (hf : m'[ledgerKey tx.from_]? = m[ledgerKey tx.from_]?)
    (hto : m'[ledgerKey tx.to]? = m[ledgerKey tx.to]?)
    (h : execTransfer (withFin s m) true tx = .ok r) :
    ∃ r', execTransfer (withFin s m') true tx = .ok r' ∧ OutRel R r r' := by
  unfold execTransfer at h ⊢
  step_cases h
  all_goals
    simp only [Except.ok.injEq] at h; subst h
    wf_simp
    twin_tac hf, h0, hR

theorem execSetDoc_twin {R : KMap Account → KMap Account → Prop} (hR : InsClosed R)
    {s : St} {m m' : KMap Account} {tx : TxIn} {r : RunOut}
    (h0 : R m m') (hf : m'[ledgerKey tx.from_]? = m[ledgerKey tx.from_]?)
    (h : execSetDoc (withFin s m) true tx = .ok r) :
    ∃ r', execSetDoc (withFin s m') true tx = .ok r' ∧ OutRel R r r' := by
  unfold execSetDoc at h ⊢
  step_cases h
  all_goals
    simp only [Except.ok.injEq] at h; subst h
    wf_simp
    twin_tac hf, h0, hR

theorem execUnstaking_twin {R : KMap Account → KMap Account → Prop} (hR : InsClosed R)
    {s : St} {m m' : KMap Account} {ht : Int} {tx : TxIn} {r : RunOut}
    (h0 : R m m') (hf : m'[ledgerKey tx.from_]? = m[ledgerKey tx.from_]?)
    (h : execUnstaking (withFin s m) true ht tx = .ok r) :
    ∃ r', execUnstaking (withFin s m') true ht tx = .ok r' ∧ OutRel R r r' := by
  unfold execUnstaking at h ⊢
  step_cases h
  all_goals
    simp only [Except.ok.injEq] at h; subst h
    wf_simp
    twin_tac hf, h0, hR

theorem execProposal_twin {R : KMap Account → KMap Account → Prop} (hR : InsClosed R)
    {s : St} {m m' : KMap Account} {tx : TxIn} {r : RunOut}
    (h0 : R m m') (hf : m'[ledgerKey tx.from_]? = m[ledgerKey tx.from_]?)
    (h : execProposal (withFin s m) true tx = .ok r) :
    ∃ r', execProposal (withFin s m') true tx = .ok r' ∧ OutRel R r r' := by
  unfold execProposal at h ⊢
  step_cases h
  all_goals
    simp only [Except.ok.injEq] at h; subst h
    wf_simp
    twin_tac hf, h0, hR

theorem execVoting_twin {R : KMap Account → KMap Account → Prop} (hR : InsClosed R)
    {s : St} {m m' : KMap Account} {tx : TxIn} {r : RunOut}
    (h0 : R m m') (hf : m'[ledgerKey tx.from_]? = m[ledgerKey tx.from_]?)
    (h : execVoting (withFin s m) true tx = .ok r) :
    ∃ r', execVoting (withFin s m') true tx = .ok r' ∧ OutRel R r r' := by
  unfold execVoting at h ⊢
  step_cases h
  all_goals
    simp only [Except.ok.injEq] at h; subst h
    wf_simp
    twin_tac hf, h0, hR

theorem reward_twin {t : St} {m' : KMap Account} {to : Hex} {amt : Nat} {x : St}
    (h : t.reward true to amt = some x) (hf : m'[ledgerKey to]? = t.accts.fin[ledgerKey to]?) :
    ∃ x', (withFin t m').reward true to amt = some x' ∧ x' = withFin x x'.accts.fin ∧
      ∀ R, InsClosed R → R t.accts.fin m' → R x.accts.fin x'.accts.fin := by
  obtain ⟨n, a, ha, e⟩ := reward_some h
  subst e
  refine ⟨(withFin t m').setAcct true { a with bal := wadd a.bal amt }, ?_, ?_, ?_⟩
  · unfold St.reward
    simp only [findAcct_true, wf_fin, hf, ha, addBalance_eq_some n]
  · rw [setAcct_true, setAcct_true]; rfl
  · intro R hR h0
    rw [setAcct_true, setAcct_true]
    exact hR _ _ _ _ h0

theorem execWithdraw_twin {R : KMap Account → KMap Account → Prop} (hR : InsClosed R)
    {s : St} {m m' : KMap Account} {ht : Int} {tx : TxIn} {r : RunOut}
    (h0 : R m m') (hf : m'[ledgerKey tx.from_]? = m[ledgerKey tx.from_]?)
    (h : execWithdraw (withFin s m) true ht tx = .ok r) :
    ∃ r', execWithdraw (withFin s m') true ht tx = .ok r' ∧ OutRel R r r' := by
  unfold execWithdraw at h ⊢
  step_cases h
  all_goals try (exact absurd trivial ‹¬True›)
  rename_i _ req _ _ _ _ _ _ _ _ _ hrw _
  simp only [Except.ok.injEq] at h; subst h
  obtain ⟨x', hx', e1, e2⟩ := reward_twin (m' := m') hrw hf
  refine ⟨{ st := { x' with ghost := { x'.ghost with withdrawn := x'.ghost.withdrawn + req } } }, ?_, ?_⟩
  · clear e1 e2
    wf_simp
    fwd_goal
    split
    · rename_i s2 hs2
      have : some s2 = some x' := hs2.symm.trans hx'
      simp only [Option.some.injEq] at this; subst this
      simp
    · rename_i hs2
      have : none = some x' := hs2.symm.trans hx'
      simp at this
  · unfold OutRel
    refine ⟨rfl, rfl, ?_, ?_⟩
    · simp only [if_true]
      rw [e1]; rfl
    · simp only [if_true]
      exact e2 R hR h0


theorem feeStep_twin {R : KMap Account → KMap Account → Prop} (hR : InsClosed R)
    {s : St} {m m' : KMap Account} {tx : TxIn} {x : St} {g : Nat} {k : Option String}
    (h0 : R m m') (hf : m'[ledgerKey tx.from_]? = m[ledgerKey tx.from_]?)
    (h : feeStep (withFin s m) true tx = .ok (x, g, k)) :
    ∃ x', feeStep (withFin s m') true tx = .ok (x', g, k) ∧ x' = withFin x x'.accts.fin ∧
      R x.accts.fin x'.accts.fin := by
  unfold feeStep at h ⊢
  step_cases h
  simp only [Except.ok.injEq, Prod.mk.injEq] at h
  obtain ⟨rfl, rfl, rfl⟩ := h
  wf_simp
  refine ⟨?_, ?_, ?_⟩
  rotate_left
  · simp only [findAcct_true, wf_fin, hf]
    fwd_goal
    rfl
  · refine ⟨rfl, ?_⟩
    simp only [setAcct_withFin, wf_fin]
    exact hR _ _ _ _ h0

theorem execNative_twin {R : KMap Account → KMap Account → Prop} (hR : InsClosed R)
    {s : St} {m m' : KMap Account} {ht : Int} {tx : TxIn} {r : RunOut}
    (h0 : R m m') (hf : m'[ledgerKey tx.from_]? = m[ledgerKey tx.from_]?)
    (hto : m'[ledgerKey tx.to]? = m[ledgerKey tx.to]?)
    (h : execNative (withFin s m) true ht tx = .ok r) :
    ∃ r', execNative (withFin s m') true ht tx = .ok r' ∧ OutRel R r r' := by
  unfold execNative at h ⊢
  split at h
  · rw [if_pos ‹_›]; exact execProposal_twin hR h0 hf h
  rw [if_neg ‹_›]
  split at h
  · rw [if_pos ‹_›]; exact execVoting_twin hR h0 hf h
  rw [if_neg ‹_›]
  split at h
  · rw [if_pos ‹_›]; exact execTransfer_twin hR h0 hf hto h
  rw [if_neg ‹_›]
  split at h
  · rw [if_pos ‹_›]; exact execSetDoc_twin hR h0 hf h
  rw [if_neg ‹_›]
  split at h
  · rw [if_pos ‹_›]; exact execStaking_twin hR h0 hf h
  rw [if_neg ‹_›]
  split at h
  · rw [if_pos ‹_›]; exact execUnstaking_twin hR h0 hf h
  rw [if_neg ‹_›]
  split at h
  · rw [if_pos ‹_›]; exact execWithdraw_twin hR h0 hf h
  · simp [throw, throwThe, MonadExceptOf.throw] at h

/-- a native (non-EVM) transaction body plus fee step: same result on account maps that agree on the
    sender and receiver records -/
theorem runTrx_native_twin {R : KMap Account → KMap Account → Prop} (hR : InsClosed R)
    {s : St} {m m' : KMap Account} {ht : Int} {tx : TxIn} {recv : Account} {x : St} {g : Nat} {k : Option String}
    (hRf : ∀ a b, R a b → b[ledgerKey tx.from_]? = a[ledgerKey tx.from_]?)
    (hRt : ∀ a b, R a b → b[ledgerKey tx.to]? = a[ledgerKey tx.to]?)
    (h0 : R m m') (hn : ¬ viaEvm tx recv)
    (h : runTrx (withFin s m) true ht tx recv = .ok (x, g, k)) :
    ∃ x', runTrx (withFin s m') true ht tx recv = .ok (x', g, k) ∧ x' = withFin x x'.accts.fin ∧
      R x.accts.fin x'.accts.fin := by
  rw [runTrx_native hn] at h ⊢
  cases hr : execNative (withFin s m) true ht tx with
  | error e => rw [hr] at h; simp [Except.bind] at h
  | ok r =>
    rw [hr] at h
    obtain ⟨r', hr', e1, e2, e3, e4⟩ := execNative_twin hR h0 (hRf _ _ h0) (hRt _ _ h0) hr
    rw [hr']
    simp only [Except.bind] at h ⊢
    rw [e1]
    split at h
    · simp only [Except.ok.injEq, Prod.mk.injEq] at h
      obtain ⟨rfl, rfl, rfl⟩ := h
      exact ⟨r'.st, by rw [if_pos ‹_›], e3, e4⟩
    · rw [if_neg ‹_›]
      have hst : r.st = withFin r.st r.st.accts.fin := rfl
      rw [hst] at h
      rw [e3]
      exact feeStep_twin hR e4 (hRf _ _ e4) h

end Rigo.C05C
