/-
  C06 (part 5): BeginBlock commutes with `eraseChk`.  `beginBlock_eq` presents `beginBlock` as its
  phases (`bbGov`: governance punishment, `bbElig`: eligible delegatees + limiter reset, `bbStake`:
  stake punishment, `bbVotes`: rewards / missed-block marks); it is also used by C07.
-/
import RigoProofs.C06ConsDeliver

namespace Rigo
namespace C06

theorem foldl_comm {M α : Type} (m : M → M) (f : M → α → M) (hf : ∀ x a, f (m x) a = m (f x a))
    (l : List α) (x : M) : l.foldl f (m x) = m (l.foldl f x) := by
  induction l generalizing x with
  | nil => rfl
  | cons a l ih => simp only [List.foldl_cons, hf, ih]

/-- erase in the first component -/
def PE {β : Type} (x : St × β) : St × β := (E x.1, x.2)
/-- erase under `Res` -/
def RS : Res St → Res St
  | .ok s => .ok (E s)
  | .panic p => .panic p
def RP {β : Type} : Res (St × β) → Res (St × β)
  | .ok x => .ok (PE x)
  | .panic p => .panic p

section proj2
variable (s : St)
@[simp] theorem E_props_committed : (E s).props.committed = s.props.committed := rfl
@[simp] theorem E_fprops_committed : (E s).fprops.committed = s.fprops.committed := rfl
@[simp] theorem E_delegs_committed : (E s).delegs.committed = s.delegs.committed := rfl
@[simp] theorem E_frozen_committed : (E s).frozen.committed = s.frozen.committed := rfl
@[simp] theorem E_delegs_at (n : Int) : (E s).delegs.at? n = s.delegs.at? n := rfl
@[simp] theorem E_lastHeight : (E s).lastHeight = s.lastHeight := rfl
@[simp] theorem E_blk : (E s).blk = s.blk := rfl
@[simp] theorem E_allDelegs : (E s).allDelegs = s.allDelegs := rfl
@[simp] theorem E_ghost : (E s).ghost = s.ghost := rfl
@[simp] theorem E_pending : (E s).pending = s.pending := rfl
end proj2

macro "bl_close" : tactic => `(tactic| (
  repeat' split
  all_goals try dsimp only
  all_goals repeat' split
  all_goals try (injections; subst_vars)
  all_goals first | rfl | (simp_all [PE, RS, RP, eraseChk, St.setAcct, St.findAcct, Led.set, Led.get, Led.del, erase_empty, freezeAll_true_eq]; done) | skip))

theorem govPunish_E (s : St) (a : Hex) : govPunish (E s) a = PE (govPunish s a) := by
  unfold govPunish
  dsimp only [E_props_committed]
  exact foldl_comm (PE) _ (by
    intro x k
    obtain ⟨acc, sum⟩ := x
    dsimp only [PE, E_props_get, E_active]
    bl_close) _ (s, 0)

theorem stakePunish_E (s : St) (a : Hex) : stakePunish (E s) a = PE (stakePunish s a) := by
  unfold stakePunish
  dsimp only [E_delegs_get, E_active]
  bl_close

theorem rewardTo_E (s : St) (d : Delegatee) (ht : Int) : rewardTo (E s) d ht = RP (rewardTo s d ht) := by
  unfold rewardTo
  exact foldl_comm RP _ (by
    intro x st
    cases x with
    | panic p => rfl
    | ok x =>
      obtain ⟨acc, i⟩ := x
      dsimp only [RP, PE, E_rewards_get, E_active]
      bl_close) _ (.ok (s, 0))

theorem processVote_E (s : St) (ht : Int) (rl : KMap Delegatee) (v : VoteIn) (i : Nat) :
    processVote (E s) ht rl v i = RP (processVote s ht rl v i) := by
  unfold processVote
  dsimp (config := { instances := true }) only [E_delegs_get, E_active]
  simp only [rewardTo_E]
  generalize (if ht - 1 - s.active.signedBlocksWindow < 0 then (0 : Int) else ht - 1 - s.active.signedBlocksWindow) = h0
  bl_close


/-! ### BeginBlock in phases -/

def bbGov (s : St) (h : Header) : St × List Int :=
  h.evidence.foldl (fun (x : St × List Int) a => ((govPunish x.1 a).1, x.2 ++ [(govPunish x.1 a).2]))
    ({ s with blk := some { height := h.height, time := h.time, proposer := h.proposer } }, [])

def bbElig (s : St) (minPower : Int) : St :=
  let all := sortByPower ((s.delegs.committed.toList.map (·.2)).filter fun d => d.self ≥ minPower)
  { s with allDelegs := all,
           limiter := Limiter.reset all s.active.maxValidatorCnt s.active.maxIndividualStakeRatio s.active.maxUpdatableStakeRatio }

def bbStake (s : St) (h : Header) : St × List Int :=
  h.evidence.foldl (fun (x : St × List Int) a =>
    match stakePunish x.1 a with
    | (acc', some sl) => (acc', x.2 ++ [sl])
    | (acc', none) => (acc', x.2)) (s, [])

def bbVotes (s : St) (h : Header) (rl : KMap Delegatee) : Res (St × Nat) :=
  h.votes.foldl (fun acc v =>
      match acc with
      | .panic p => .panic p
      | .ok (s, issued) => processVote s h.height rl v issued) (Res.ok (s, 0))

theorem beginBlock_eq (s : St) (h : Header) : beginBlock s h =
    if h.height ≠ s.lastHeight + 1 then (s, { panic := "BeginBlock: error block height" }) else
    match amountToPower (bbGov s h).1.active.minValidatorStake with
    | .panic p => ((bbGov s h).1, { panic := p })
    | .ok mp =>
      if h.votes.isEmpty then ((bbStake (bbElig (bbGov s h).1 mp) h).1, { punishG := (bbGov s h).2 }) else
      match (bbStake (bbElig (bbGov s h).1 mp) h).1.delegs.at? (if h.height - 4 < 0 then 1 else h.height - 4) with
      | none => ((bbStake (bbElig (bbGov s h).1 mp) h).1, { panic := "BeginBlock: reward ledger version does not exist" })
      | some rl =>
        match bbVotes (bbStake (bbElig (bbGov s h).1 mp) h).1 h rl with
        | .panic p => ((bbStake (bbElig (bbGov s h).1 mp) h).1, { panic := p })
        | .ok (s', issued) => (s', { issued := some issued, punishS := (bbStake (bbElig (bbGov s h).1 mp) h).2, punishG := (bbGov s h).2 }) := by
  unfold beginBlock
  split
  · rfl
  · rfl


theorem bbGov_E (s : St) (h : Header) : bbGov (E s) h = PE (bbGov s h) := by
  unfold bbGov
  exact foldl_comm PE _ (by intro x a; simp only [PE, govPunish_E]) h.evidence
    ({ s with blk := some { height := h.height, time := h.time, proposer := h.proposer } }, [])

theorem bbElig_E (s : St) (mp : Int) : bbElig (E s) mp = E (bbElig s mp) := rfl

theorem bbStake_E (s : St) (h : Header) : bbStake (E s) h = PE (bbStake s h) := by
  unfold bbStake
  exact foldl_comm PE _ (by
    intro x a
    simp only [PE, stakePunish_E]
    cases hsp : stakePunish x.1 a with
    | mk acc' o => cases o <;> rfl) h.evidence (s, [])

theorem bbVotes_E (s : St) (h : Header) (rl : KMap Delegatee) : bbVotes (E s) h rl = RP (bbVotes s h rl) := by
  unfold bbVotes
  exact foldl_comm RP _ (by
    intro x v
    cases x with
    | panic p => rfl
    | ok x => obtain ⟨acc, i⟩ := x; simp only [RP, PE, processVote_E]) h.votes (.ok (s, 0))

theorem beginBlock_E (s : St) (h : Header) : beginBlock (E s) h = PE (beginBlock s h) := by
  rw [beginBlock_eq, beginBlock_eq]
  simp only [bbGov_E, PE, bbElig_E, bbStake_E, bbVotes_E, E_active, E_lastHeight, E_delegs_at]
  split
  · rfl
  · cases amountToPower (bbGov s h).1.active.minValidatorStake with
    | panic p => rfl
    | ok mp =>
      dsimp only
      split
      · rfl
      · cases (bbStake (bbElig (bbGov s h).1 mp) h).1.delegs.at? (if h.height - 4 < 0 then 1 else h.height - 4) with
        | none => rfl
        | some rl =>
          dsimp only
          cases bbVotes (bbStake (bbElig (bbGov s h).1 mp) h).1 h rl with
          | panic p => rfl
          | ok x => rfl

end C06
end Rigo
