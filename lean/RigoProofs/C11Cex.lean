/-
  C11/C12: concrete histories (closed terms, evaluated by the kernel) used as counter-examples and as
  non-vacuity witnesses.
-/
import RigoProofs.C12Refund

namespace Rigo.Cex
open Rigo

def A : Hex := "aaaaaaaaaaaaaaaaaaaaaaaaaaaaaaaaaaaaaaaa"
def B : Hex := "bbbbbbbbbbbbbbbbbbbbbbbbbbbbbbbbbbbbbbbb"
def D : Hex := "dddddddddddddddddddddddddddddddddddddddd"
def H1 : Hex := "1111111111111111111111111111111111111111111111111111111111111111"
def H2 : Hex := "2222222222222222222222222222222222222222222222222222222222222222"
def rigo : Nat := 1000000000000000000

/-- governance parameters: unbonding period 2 blocks, slashing ratio 50 % -/
def P0 : Params := {
  maxValidatorCnt := 21
  minValidatorStake := 1000000000000000000
  minDelegatorStake := 1000000000000000000
  rewardPerPower := 1
  lazyRewardBlocks := 2
  lazyApplyingBlocks := 1
  gasPrice := 1
  minTrxGas := 1
  maxTrxGas := 1000000
  maxBlockGas := 10000000
  minVotingPeriodBlocks := 1
  maxVotingPeriodBlocks := 10
  minSelfStakeRatio := 50
  maxUpdatableStakeRatio := 33
  maxIndividualStakeRatio := 33
  slashRatio := 50
  signedBlocksWindow := 10000
  minSignedBlocks := 500
  version := 1 }

/-- two genesis validators with power 10 each, one further account holder -/
def G : Genesis :=
  { chainId := "c", params := P0, holders := [(A, 100), (B, 100), (D, 5 * rigo)],
    vals := [("pa", A, 10), ("pb", B, 10)] }

def unstakeTx (frm to : Hex) (n : Nat) (hash : Hex) : TxIn :=
  { hash := "", sigOk := true, nonce := n, from_ := frm, to := to, gas := 1, price := 1,
    type := TRX_UNSTAKING, payload := .unstaking hash }

def stakeTx (frm to : Hex) (n : Nat) (amt : Nat) (hash : Hex) : TxIn :=
  { hash := hash, sigOk := true, nonce := n, from_ := frm, to := to, amount := amt, gas := 1, price := 1,
    type := TRX_STAKING }

def emptyBlock (h : Int) : List Op := [.begin_ { height := h }, .end_, .commit]

/-- both genesis validators unstake their (zero-hash) genesis stake, in consecutive blocks -/
def collide : List Op :=
  [.begin_ { height := 1 }, .deliver (unstakeTx A A 0 zeroHash), .end_, .commit,
   .begin_ { height := 2 }, .deliver (unstakeTx B B 0 zeroHash), .end_, .commit] ++
  emptyBlock 3 ++ emptyBlock 4 ++ emptyBlock 5 ++ emptyBlock 6

/-- a delegator bonds 1 RIGO to validator A in block 1; A is slashed (evidence) in block 2 -/
def forfeit : List Op :=
  [.begin_ { height := 1 }, .deliver (stakeTx D A 0 rigo H1), .end_, .commit,
   .begin_ { height := 2, evidence := [A] }, .end_, .commit] ++ emptyBlock 3 ++ emptyBlock 4 ++ emptyBlock 5

/-- a delegator bonds 2 RIGO, later unbonds them, and is refunded after the unbonding period -/
def lifecycle : List Op :=
  [.begin_ { height := 1 }, .deliver (stakeTx D A 0 (2 * rigo) H1), .end_, .commit,
   .begin_ { height := 2 }, .deliver (unstakeTx B A 0 H1), .deliver (unstakeTx D A 1 H1), .end_, .commit] ++
  emptyBlock 3 ++ emptyBlock 4 ++ emptyBlock 5

end Rigo.Cex
