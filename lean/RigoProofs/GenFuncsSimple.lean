/-
  Equality of the generated definitions (Rigo/Generated/Funcs.lean, translated from the Go source
  by /verif/extract on every check run) with the hand-written model.  One theorem per whitelisted
  function of expect/funcs.json; a semantic change of the Go function changes the generated
  definition and breaks the corresponding proof.
-/
import RigoProofs.GenFuncsBase
import Rigo.App

set_option linter.unusedSimpArgs false

namespace Rigo.GenEq
open Rigo Rigo.Gen

/-! ### amounts and powers (ctrlers/types/gov_params.go) -/

theorem amountPerPower_eq : ctrlers_types_amountPerPower = amountPerPower := rfl

/-- `AmountToPower` = `amountToPower` (same value, panic exactly when the model panics) -/
theorem AmountToPower_eq (amt : Nat) : G.matches (AmountToPower amt) (amountToPower amt) := by
  unfold AmountToPower amountToPower
  rw [amountPerPower_eq]
  gsimp
  have h : amt / amountPerPower % two64 < two64 := Nat.mod_lt _ (by decide)
  generalize amt / amountPerPower % two64 = u at *
  rw [wrapI64_ofNat u h]
  have h63 : (two63 : Int) < (two64 : Int) := by decide
  by_cases hu : u < two63
  · have : ¬ (u ≥ two63) := by omega
    have h0 : ¬ (Int.ofNat u < 0) := by simp
    simp [hu, this]
  · have : u ≥ two63 := by omega
    have hlt : (Int.ofNat u : Int) < (two64 : Int) := Int.ofNat_lt.mpr h
    have h0 : Int.ofNat u - (two64 : Int) < 0 := by omega
    simp only [hu, if_false, this, if_true, h0, G.matches_panic, G.panics_error]

/-- `PowerToAmount` = `powerToAmount`, and it never panics -/
theorem PowerToAmount_eq (p : Int) : PowerToAmount p = .ok (powerToAmount p) := by
  unfold PowerToAmount powerToAmount wrapU64
  rw [amountPerPower_eq]; rfl

/-! ### delegatee (ctrlers/stake/delegatee.go) -/

/-- `SelfStakeRatio` = `selfStakeRatio` (division by zero panics in both) -/
theorem Delegatee_SelfStakeRatio_eq (d : Delegatee) (added : Int) :
    G.matches (Delegatee_SelfStakeRatio d added) (Delegatee.selfStakeRatio d added) := by
  unfold Delegatee_SelfStakeRatio Delegatee.selfStakeRatio
  gsimp
  split <;> simp_all

/-- `Stake.IsSelfStake` = `isSelf` -/
theorem Stake_IsSelfStake_eq (s : Stake) : Stake_IsSelfStake s = .ok (Delegatee.isSelf s) := by
  unfold Stake_IsSelfStake Delegatee.isSelf
  gsimp
  by_cases h : s.owner = s.to <;> simp [cmpBytes_eq_zero, h]

/-! ### byte comparison (types/bytes/hex_bytes.go) -/

theorem bytes_Compare_eq (a b : Hex) : bytes_Compare a b = .ok (cmpBytes a b) := rfl
theorem HexBytes_Compare_eq (a b : Hex) : HexBytes_Compare a b = .ok (cmpBytes a b) := rfl

/-! ### libs/utils.go -/

theorem libs_MIN_eq (a b : Int) : libs_MIN a b = .ok (min a b) := by
  unfold libs_MIN
  gsimp
  by_cases h : a < b
  · simp [h, Int.min_def]; omega
  · simp [h, Int.min_def]; omega

/-! ### accounts and fees (ctrlers/types/account.go, gov_params.go) -/

/-- `GovParams.MinTrxFee` = `Params.minTrxFee` -/
theorem GovParams_MinTrxFee_eq (p : Params) : GovParams_MinTrxFee p = .ok p.minTrxFee := rfl

/-- `Account.AddBalance` = `addBalance`: error exactly when the model refuses, the account is then unchanged -/
theorem Account_AddBalance_eq (a : Account) (amt : Nat) :
    Account_AddBalance a amt = .ok (match addBalance a amt with
      | some a' => (a', none)
      | none => (a, some "ErrInvalidAmount")) := by
  unfold Account_AddBalance addBalance
  gsimp
  by_cases h : isNeg256 amt = true
  · simp [sign256_neg, h]
  · simp [sign256_neg, h]

/-- `Account.SubBalance` = `subBalance` -/
theorem Account_SubBalance_eq (a : Account) (amt : Nat) :
    Account_SubBalance a amt = .ok (match subBalance a amt with
      | some a' => (a', none)
      | none => (a, some (if isNeg256 amt then "ErrInvalidAmount" else "ErrInsufficientFund"))) := by
  unfold Account_SubBalance subBalance
  gsimp
  by_cases h : isNeg256 amt = true
  · simp [sign256_neg, h]
  · by_cases h2 : amt > a.bal
    · simp [sign256_neg, h, cmp256_pos, h2]
    · simp [sign256_neg, h, cmp256_pos, h2]

theorem Account_CheckBalance_eq (a : Account) (need : Nat) :
    Account_CheckBalance a need = .ok (if need > a.bal then some "ErrInsufficientFund" else none) := by
  unfold Account_CheckBalance
  gsimp
  by_cases h : need > a.bal <;> simp [cmp256_pos, h]

theorem Account_CheckNonce_eq (a : Account) (n : Nat) :
    Account_CheckNonce a n = .ok (if a.nonce ≠ n then some "ErrInvalidNonce" else none) := by
  unfold Account_CheckNonce
  gsimp
  by_cases h : a.nonce = n <;> simp [h]

/-- the model's `commonValidation1` accepts exactly when the two generated checks, applied to the
    amount `gas·price + amount` computed with the generated fee arithmetic, return no error -/
theorem commonValidation1_iff (sender : Account) (tx : TxIn) :
    commonValidation1 sender tx = .ok () ↔
      (Account_CheckBalance sender (wadd (wmul tx.price tx.gas) tx.amount) = .ok none ∧
       Account_CheckNonce sender tx.nonce = .ok none) := by
  rw [Account_CheckBalance_eq, Account_CheckNonce_eq]
  unfold commonValidation1
  simp only [bind, Except.bind, pure, Except.pure, throw, throwThe, MonadExceptOf.throw]
  by_cases h1 : wadd (wmul tx.price tx.gas) tx.amount > sender.bal <;>
    by_cases h2 : sender.nonce = tx.nonce <;> simp [h1, h2]

/-! ### sort orders (ctrlers/stake/delegatee.go, limiter.go) -/

/-- `PowerOrderDelegatees.Less(i, j)` on in-range indices = `powerLess` of the two elements -/
theorem PowerOrderDelegatees_Less_eq (vs : List Delegatee) (i j : Nat) (a b : Delegatee)
    (hi : vs[i]? = some a) (hj : vs[j]? = some b) :
    PowerOrderDelegatees_Less vs i j = .ok (powerLess a b) := by
  unfold PowerOrderDelegatees_Less powerLess
  simp only [gidx_eq vs i a hi, gidx_eq vs j b hj]
  gsimp
  by_cases h1 : a.total = b.total
  · by_cases h2 : a.stakes.length = b.stakes.length
    · by_cases h3 : b.addr < a.addr <;> simp [h1, h2, h3, cmpBytes_pos]
    · have h2' : ¬ ((a.stakes.length : Int) = (b.stakes.length : Int)) := by omega
      simp [h1, h2, h2']
  · simp [h1]

example : PowerOrderDelegatees_Less
    [{ addr := "aa", pub := "01", total := 5 }, { addr := "bb", pub := "02", total := 7 }] ((1 : Nat) : Int) ((0 : Nat) : Int) = .ok true := by
  rw [PowerOrderDelegatees_Less_eq _ 1 0 _ _ rfl rfl]; simp [powerLess]

/-- `AddressOrderDelegatees.Less(i, j)`: strict order of the addresses -/
theorem AddressOrderDelegatees_Less_eq (vs : List Delegatee) (i j : Nat) (a b : Delegatee)
    (hi : vs[i]? = some a) (hj : vs[j]? = some b) :
    AddressOrderDelegatees_Less vs i j = .ok (decide (a.addr < b.addr)) := by
  unfold AddressOrderDelegatees_Less
  simp only [gidx_eq vs i a hi, gidx_eq vs j b hj]
  gsimp
  by_cases h : a.addr < b.addr <;> simp [h, cmpBytes_neg]

/-- `orderedPowerObj.Less(i, j)` = `Limiter.objLess` -/
theorem orderedPowerObj_Less_eq (objs : List (Hex × Int)) (i j : Nat) (a b : Hex × Int)
    (hi : objs[i]? = some a) (hj : objs[j]? = some b) :
    orderedPowerObj_Less objs i j = .ok (Limiter.objLess a b) := by
  unfold orderedPowerObj_Less Limiter.objLess
  simp only [gidx_eq objs i a hi, gidx_eq objs j b hj, bytes_Compare_eq]
  gsimp
  by_cases h1 : a.2 = b.2
  · by_cases h3 : b.1 < a.1 <;> simp [h1, h3, cmpBytes_pos]
  · simp [h1]

/-! ### validator selection (ctrlers/stake/ctrler.go) -/

/-- `selectValidators` = the model's (a negative bound is the slice panic in both) -/
theorem selectValidators_eq (ds : List Delegatee) (maxVals : Int) :
    G.matches (Gen.selectValidators ds maxVals) (Rigo.selectValidators ds maxVals) := by
  unfold Gen.selectValidators Rigo.selectValidators
  simp only [libs_MIN_eq]
  gsimp
  unfold gslice
  by_cases h : maxVals < 0
  · have : min (ds.length : Int) maxVals < 0 := by omega
    simp [h, this]
  · have h1 : ¬ (min (ds.length : Int) maxVals < 0) := by omega
    have h2 : ¬ ((ds.length : Int) < min (ds.length : Int) maxVals) := by omega
    simp only [h, if_false, G.matches_ok]
    simp [h1, h2, pure, Except.pure]
    by_cases h3 : (ds.length : Int) ≤ maxVals
    · have : min (ds.length : Int) maxVals = ds.length := by omega
      rw [this]; simp
      omega
    · have : min (ds.length : Int) maxVals = maxVals := by omega
      rw [this]

/-! ### rewards (ctrlers/stake/reward.go) -/

theorem Reward_Issue_eq (w : Reward) (r : Nat) (h : Int) :
    G.matches (Reward_Issue w r h) (Res.map (fun w' => (w', none)) (Reward.issue w r h)) := by
  unfold Reward_Issue Reward.issue
  gsimp
  by_cases h1 : w.height < h
  · simp [h1, Res.map]
  · by_cases h2 : w.height = h
    · simp [h1, h2, Res.map]
    · simp [h1, h2, Res.map]

theorem Reward_Withdraw_eq (w : Reward) (r : Nat) (h : Int) :
    G.matches (Reward_Withdraw w r h) (Res.map (fun w' => (w', none)) (Reward.withdraw w r h)) := by
  unfold Reward_Withdraw Reward.withdraw
  gsimp
  by_cases h1 : w.height < h
  · simp [h1, Res.map]
  · by_cases h2 : w.height = h
    · simp [h1, h2, Res.map]
    · simp [h1, h2, Res.map]

/-! ### limiter: individual limit (ctrlers/stake/limiter.go) -/

/-- `checkIndividualPowerLimit`, branch for branch as the first stage of `Limiter.check` -/
theorem StakeLimiter_checkIndividualPowerLimit_eq (sl : StakeLimiter) (d : Delegatee) (diff : Int) :
    G.matches (StakeLimiter_checkIndividualPowerLimit sl d diff)
      (if diff ≤ 0 then .ok none
       else if sl.base + diff = 0 then .panic "limiter: division by zero (individual)"
       else if Int.tdiv ((d.total + diff) * 100) (sl.base + diff) > sl.indi then
         .ok (some "StakeLimiter error: exceeding individual power limit - delegatee(%v), power(%v), diff:%v, base(%v), ratio(%v), limit(%v)")
       else .ok none) := by
  unfold StakeLimiter_checkIndividualPowerLimit
  gsimp
  by_cases h1 : diff ≤ 0
  · simp [h1]
  · by_cases h2 : sl.base + diff = 0
    · simp [h1, h2]
    · by_cases h3 : Int.tdiv ((d.total + diff) * 100) (sl.base + diff) > sl.indi <;> simp [h1, h2, h3]

end Rigo.GenEq
