/-
  C09 (run level), part 6: the mempool-view invariant along every admissible history, and `StateOK` on the
  CheckTx path.
-/
import RigoProofs.C09RunChkTx
import RigoProofs.C09RunGood
open Std
set_option linter.unusedSimpArgs false
set_option linter.unusedVariables false

namespace Rigo.C09R
open Rigo Rigo.C02 Rigo.Delegatee

/-- the withdrawable rewards of the consensus view never exceed `R` (state-level hypothesis: reward
    issuance is unbounded in time, the bound must come from outside) -/
def RewardsCapAlong (R : Int) : St → List Op → Prop
  | s, [] => rsum s.rewards.fin ≤ R
  | s, op :: ops => rsum s.rewards.fin ≤ R ∧ RewardsCapAlong R (step s op).1 ops

theorem rewardsCap_head {R : Int} {s : St} {ops : List Op} (h : RewardsCapAlong R s ops) : rsum s.rewards.fin ≤ R := by
  cases ops with
  | nil => exact h
  | cons op ops => exact h.1

/-- the supply bound for the mempool view: genesis value + withdrawn rewards + withdrawable rewards < 2^62 RIGO -/
def SupplyCapChk (g : Genesis) (W R : Int) : Prop := genesisTotal g + W + R < ((stakeCap : Nat) : Int)

theorem stakeCap_lt255 : ((stakeCap : Nat) : Int) < (two255 : Int) := by
  unfold stakeCap two255 amountPerPower; decide

/-! ### consensus-side operations: the mempool view only loses delegatees -/

theorem cinv_of_cfr {B : Int} {s s' : St} (hc : CInv B s) (h : CFr s s') : CInv B s' := by
  obtain ⟨hi, hb⟩ := hc
  obtain ⟨h1, h2, h3⟩ := h
  refine ⟨⟨by rw [h1]; exact hi.acctKey, fun k d hd => hi.delegKey k d (h3.sub hd), by rw [h2]; exact hi.rewKey⟩, ?_⟩
  have hle : bonded s'.delegs.chk ≤ bonded s.delegs.chk :=
    h3.msum_le _ (fun k d hd => sumPower_nonneg _ (hi.delegKey k d hd).2.2)
  have : (amountPerPower : Int) * bonded s'.delegs.chk ≤ (amountPerPower : Int) * bonded s.delegs.chk :=
    Int.mul_le_mul_of_nonneg_left hle (Int.le_of_lt app_pos)
  unfold VC at hb ⊢
  rw [h1, h2]; omega

/-! ### Commit and restart: the mempool view becomes the consensus view -/

def Synced (s : St) : Prop :=
  s.accts.chk = s.accts.fin ∧ s.delegs.chk = s.delegs.fin ∧ s.rewards.chk = s.rewards.fin

theorem cinv_of_synced {W R : Int} {g : Genesis} {p : Phase} {s : St} (hg : Good W g p s) (hs : Synced s)
    (hr : rsum s.rewards.fin ≤ R) : CInv (genesisTotal g + W + R) s := by
  obtain ⟨s1, s2, s3⟩ := hs
  have hi := hg.inv.inv0
  refine ⟨⟨by rw [s1]; exact hi.acctKey, by rw [s2]; exact hi.delegKey,
    by rw [s3]; exact fun k r hk => (hg.aux.rewFin k r hk).2⟩, ?_⟩
  unfold VC
  rw [s1, s2, s3]
  have h1 := holdings_le_valueAt p s
  have h2 := hg.value
  have h3 := hg.wd
  have h4 := unbonding_nonneg hi
  have h5 : 0 ≤ (amountPerPower : Int) * unbonding s.frozen.fin := Int.mul_nonneg (Int.le_of_lt app_pos) h4
  unfold holdings at h1
  rw [Int.mul_add] at h1
  omega

theorem synced_commit {s : St} (hb : s.blk ≠ none) : Synced (commit s).1 := by
  unfold commit
  split
  · rename_i h; exact absurd h hb
  · exact ⟨rfl, rfl, rfl⟩

theorem synced_restart (s : St) : Synced (restart s) := ⟨rfl, rfl, rfl⟩

/-! ### InitChain: empty mempool views -/

theorem cs_initChain (g : Genesis) : cs (initChain g) = ({}, {}, {}) := by
  unfold initChain
  simp only
  apply C02.foldl_inv (fun x : St => cs x = ({}, {}, {}))
  · rintro acc ⟨pub, addr, power⟩ _ h
    simp only
    have h1 := cs_findOrNewAcct acc addr
    rw [h] at h1
    unfold cs at h1 ⊢
    simp only [Prod.mk.injEq] at h1 ⊢
    exact ⟨h1.1, h1.2.1, by simp [Led.set]; exact h1.2.2⟩
  · apply C02.foldl_inv (fun x : St => cs x = ({}, {}, {}))
    · rintro acc ⟨a, b⟩ _ h
      simp only
      rw [cs_setAcct]; exact h
    · rfl

theorem cinv_init (g : Genesis) {B : Int} (hB : 0 ≤ B) : CInv B (initChain g) := by
  have h := cs_initChain g
  unfold cs at h
  simp only [Prod.mk.injEq] at h
  obtain ⟨h1, h2, h3⟩ := h
  refine ⟨⟨?_, ?_, ?_⟩, ?_⟩
  · intro k a hk; rw [h1] at hk; simp at hk
  · intro k a hk; rw [h3] at hk; simp at hk
  · intro k a hk; rw [h2] at hk; simp at hk
  · unfold VC rsum sumBal bonded
    rw [h1, h2, h3]
    simp
    exact hB

/-! ### the run -/

/-- one admissible step keeps the mempool-view invariant -/
theorem cinv_step {W R : Int} {g : Genesis} (hB : SupplyCapChk g W R) {p p' : Phase} {s : St} {op : Op}
    (hg : Good W g p s) (hg' : Good W g p' (step s op).1) (hph : phaseStep p op = some p')
    (hr' : rsum (step s op).1.rewards.fin ≤ R)
    (hc : CInv (genesisTotal g + W + R) s) : CInv (genesisTotal g + W + R) (step s op).1 := by
  have hB255 : genesisTotal g + W + R < (two255 : Int) := by
    have := stakeCap_lt255; unfold SupplyCapChk at hB; omega
  cases op with
  | init g' => cases p <;> simp [phaseStep] at hph
  | begin_ h => exact cinv_of_cfr hc (beginBlock_cfr s h (fun k r hk => (hg.aux.rewFin k r hk).2))
  | deliver tx => exact cinv_of_cfr hc (deliverTx_cfr s tx)
  | check tx => exact checkTx_cinv hB255 s tx hc
  | end_ => exact cinv_of_cfr hc (endBlock_cfr s)
  | commit =>
    cases p <;> simp [phaseStep] at hph
    have hb : s.blk ≠ none := hg.inv.blk.2 (by decide)
    exact cinv_of_synced hg' (synced_commit hb) hr'
  | restart => exact cinv_of_synced hg' (synced_restart s) hr'

theorem supplyCap_of_chk {g : Genesis} {W R : Int} (hB : SupplyCapChk g W R) (hR : 0 ≤ R) : SupplyCap g W := by
  unfold SupplyCap; unfold SupplyCapChk at hB; omega

theorem cinv_run_gen {W R : Int} {g : Genesis} (hB : SupplyCapChk g W R) :
    ∀ (ops : List Op) (p p' : Phase) (s : St), Good W g p s → CInv (genesisTotal g + W + R) s →
      phaseRun p ops = some p' → RunOK1 W s ops → ParamsSaneAlong s ops → RewardsCapAlong R s ops →
      CInv (genesisTotal g + W + R) (exec s ops) := by
  intro ops
  induction ops with
  | nil => intro p p' s _ hc _ _ _ _; exact hc
  | cons op ops ih =>
    intro p p' s hg hc hph hok hpa hra
    have hR : 0 ≤ R := by
      have := rewardsCap_head hra; have := rsum_nonneg s.rewards.fin; omega
    have hB' := supplyCap_of_chk hB hR
    simp only [phaseRun] at hph
    cases h1 : phaseStep p op with
    | none => rw [h1] at hph; cases hph
    | some p1 =>
      rw [h1] at hph; simp only at hph
      obtain ⟨_, ok1, ok2⟩ := hok
      obtain ⟨_, pa2⟩ := hpa
      obtain ⟨_, ra2⟩ := hra
      have hg' := good_step hB' hg h1 ok1 (runOK1_head ok2) (paramsAlong_head pa2)
      rw [exec_cons]
      exact ih p1 p' _ hg' (cinv_step hB hg hg' h1 (rewardsCap_head ra2) hc) hph ok2 pa2 ra2

/-- **the mempool-view invariant along a run** -/
theorem cinv_run {W R : Int} {g : Genesis} (hs : GenesisSane g) (hB : SupplyCapChk g W R) (ops : List Op) (p : Phase)
    (hph : phaseRun .idle ops = some p) (hok : RunOK1 W (initChain g) ops)
    (hpa : ParamsSaneAlong (initChain g) ops) (hra : RewardsCapAlong R (initChain g) ops) :
    CInv (genesisTotal g + W + R) (exec (initChain g) ops) := by
  have hR : 0 ≤ R := by
    have := rewardsCap_head hra; have := rsum_nonneg (initChain g).rewards.fin; omega
  have hW : 0 ≤ W := by
    have := runOK1_head hok
    have : (0 : Int) ≤ ((initChain g).ghost.withdrawn : Int) := Int.natCast_nonneg _
    omega
  have hp0 : ParamsSane g.params := by
    have h1 := paramsAlong_head hpa
    rw [initChain_active] at h1; exact h1
  have hg0 := good_init (W := W) hs hW hp0
  have hT : 0 ≤ genesisTotal g := by
    have h1 := hg0.inv.inv0
    have := sumBal_le_holdings h1
    have := sumBal_nonneg (initChain g).accts.fin
    have := feeInFlight_nonneg (initChain g)
    unfold genesisTotal C02.total; omega
  exact cinv_run_gen hB ops .idle p _ hg0 (cinv_init g (by omega)) hph hok hpa hra

/-! ### layer (a) for the CheckTx path -/

theorem stateOK_chk_of {W R : Int} {g : Genesis} (hB : SupplyCapChk g W R) {p : Phase} {s : St}
    (hg : Good W g p s) (hc : CInv (genesisTotal g + W + R) s) : StateOK s false (s.lastHeight + 1) := by
  obtain ⟨hi, hb⟩ := hc
  obtain ⟨p1, p2, p3, p4⟩ := hg.params
  unfold SupplyCapChk at hB
  refine ⟨p1, p2, p3, ?_, ?_, fun _ => hg.aux.lim, ?_, fun h => by cases h⟩
  · intro k a hk
    have hk' : s.accts.chk[k]? = some a := by simpa [Led.get] using hk
    have := balC_le hi hk'
    omega
  · intro k d hk
    have hk' : s.delegs.chk[k]? = some d := by simpa [Led.get] using hk
    obtain ⟨_, e, hp⟩ := hi.delegKey k d hk'
    have h0 : 0 ≤ sumPower d.stakes := sumPower_nonneg _ hp
    refine ⟨by rw [e]; exact h0, ?_⟩
    have h1 := fAt_le_msum (fun d : Delegatee => sumPower d.stakes) s.delegs.chk
      (fun k d h => sumPower_nonneg _ (hi.delegKey k d h).2.2) k
    rw [fAt_some _ hk'] at h1
    have h2 : sumPower d.stakes ≤ bonded s.delegs.chk := h1
    have h3 := sumBal_nonneg s.accts.chk
    have h4 := rsum_nonneg s.rewards.chk
    have h5 : (amountPerPower : Int) * sumPower d.stakes ≤ (amountPerPower : Int) * bonded s.delegs.chk :=
      Int.mul_le_mul_of_nonneg_left h2 (Int.le_of_lt app_pos)
    unfold VC at hb
    rw [e]
    have h6 : (amountPerPower : Int) * sumPower d.stakes < ((stakeCap : Nat) : Int) := by omega
    unfold stakeCap amountPerPower at h6
    omega
  · intro k r hk
    have hk' : s.rewards.chk[k]? = some r := by simpa [Led.get] using hk
    exact (hg.aux.rewChk k r hk').1

end Rigo.C09R
