/-
  Helper lemmas for C03: Go casts, payload / transaction encodings, framing of the pre-image.
-/
import Rigo.Preimage
import RigoProofs.Rlp
namespace Rigo.Preimage
open Rigo.RLP

deriving instance DecidableEq for Except

/-! ### casts -/

theorem i64ToU64_inj {a b : Int} (ha : InI64 a) (hb : InI64 b) (h : i64ToU64 a = i64ToU64 b) :
    a = b := by
  unfold i64ToU64 at h; unfold InI64 at ha hb; omega

theorem i32ToU64_inj {a b : Int} (ha : InI32 a) (hb : InI32 b) (h : i32ToU64 a = i32ToU64 b) :
    a = b := by
  unfold i32ToU64 at h; unfold InI32 at ha hb; omega

theorem i32ToU32_inj {a b : Int} (ha : InI32 a) (hb : InI32 b) (h : i32ToU32 a = i32ToU32 b) :
    a = b := by
  unfold i32ToU32 at h; unfold InI32 at ha hb; omega

/-! ### items -/

theorem encode_inj_of_sep {a b : Item} (hs : Separable a b) (h : encode a = encode b) : a = b := by
  have : encode a ++ [] = encode b ++ [] := by simp [h]
  exact (encode_prefix a b [] [] hs this).1

/-! ### payloads -/

theorem payloadBytes_inj {p q : Payload} (hp : WFPayload p) (hq : WFPayload q)
    (ht : p.tag = q.tag) (h : payloadBytes p = payloadBytes q) : p = q := by
  cases p <;> cases q <;> simp only [Payload.tag] at ht <;> try omega
  · rfl
  · -- unstaking
    simp only [payloadBytes, payloadItem, encode] at h
    rw [encStr_injective h]
  · -- proposal
    rename_i m s p a o opts m' s' p' a' o' opts'
    simp only [payloadBytes, payloadItem] at h
    have hs : Separable (.list [.str m, .uint (i64ToU64 s), .uint (i64ToU64 p), .uint (i64ToU64 a),
        .uint (i32ToU32 o), .list (opts.map .str)])
        (.list [.str m', .uint (i64ToU64 s'), .uint (i64ToU64 p'), .uint (i64ToU64 a'),
        .uint (i32ToU32 o'), .list (opts'.map .str)]) := by
      simp only [Separable, SeparableList, Item.uint, true_and, and_true]
      exact sepList_map_str _ _
    have e := encode_inj_of_sep hs h
    simp only [Item.list.injEq, List.cons.injEq, Item.str.injEq, Item.uint, and_true] at e
    obtain ⟨e1, e2, e3, e4, e5, e6⟩ := e
    simp only [WFPayload] at hp hq
    rw [e1, i64ToU64_inj hp.1 hq.1 (beBytes_injective e2),
      i64ToU64_inj hp.2.1 hq.2.1 (beBytes_injective e3),
      i64ToU64_inj hp.2.2.1 hq.2.2.1 (beBytes_injective e4),
      i32ToU32_inj hp.2.2.2 hq.2.2.2 (beBytes_injective e5), map_str_injective e6]
  · -- voting
    rename_i hsh c hsh' c'
    simp only [payloadBytes, payloadItem] at h
    have hs : Separable (.list [.str hsh, .uint (i32ToU32 c)]) (.list [.str hsh', .uint (i32ToU32 c')]) := by
      simp [Separable, SeparableList, Item.uint]
    have e := encode_inj_of_sep hs h
    simp only [Item.list.injEq, List.cons.injEq, Item.str.injEq, Item.uint, and_true] at e
    simp only [WFPayload] at hp hq
    rw [e.1, i32ToU32_inj hp hq (beBytes_injective e.2)]
  · -- contract
    simp only [payloadBytes, payloadItem, encode] at h
    rw [encStr_injective h]
  · -- setdoc
    rename_i n u n' u'
    simp only [payloadBytes, payloadItem] at h
    have hs : Separable (.list [.str n, .str u]) (.list [.str n', .str u']) := by
      simp [Separable, SeparableList]
    have e := encode_inj_of_sep hs h
    simp only [Item.list.injEq, List.cons.injEq, Item.str.injEq, and_true] at e
    rw [e.1, e.2]
  · -- withdraw
    simp only [payloadBytes, payloadItem, encode] at h
    rw [beBytes_injective (encStr_injective h)]

/-! ### transactions -/

theorem sep_trxItem (t u : Trx) (s s' : Bytes) : Separable (trxItem t s) (trxItem u s') := by
  simp [trxItem, Separable, SeparableList, Item.uint]

theorem trxItem_inj {t u : Trx} {s s' : Bytes} (ht : WFTrx t) (hu : WFTrx u)
    (h : encode (trxItem t s) = encode (trxItem u s')) :
    signedFields t = signedFields u ∧ s = s' := by
  have e := encode_inj_of_sep (sep_trxItem t u s s') h
  simp only [trxItem, Item.list.injEq, List.cons.injEq, Item.str.injEq, Item.uint, and_true,
    u32ToU64] at e
  obtain ⟨e1, e2, e3, e4, e5, e6, e7, e8, e9, e10, e11⟩ := e
  obtain ⟨_, t2, _, _, _, _, t7, t8, t9⟩ := ht
  obtain ⟨_, u2, _, _, _, _, u7, u8, u9⟩ := hu
  have hty : t.type = u.type := i32ToU64_inj t7 u7 (beBytes_injective e9)
  have hpl : t.payload = u.payload :=
    payloadBytes_inj t8 u8 (by rw [t9, u9, hty]) e10
  refine ⟨?_, e11⟩
  simp only [signedFields]
  rw [beBytes_injective e1, i64ToU64_inj t2 u2 (beBytes_injective e2), beBytes_injective e3, e4, e5,
    beBytes_injective e6, beBytes_injective e7, beBytes_injective e8, hty, hpl]

theorem rlpTrxUnsigned_head (t : Trx) : ∃ a r, rlpTrxUnsigned t = a :: r ∧ 192 ≤ a := by
  unfold rlpTrxUnsigned trxItem
  exact encode_list_head _

/-! ### framing -/

theorem decF_digits : ∀ (f n : Nat), ∀ x ∈ decF f n, x < 58 := by
  intro f
  induction f with
  | zero => intro n x hx; simp [decF] at hx; omega
  | succ f ih =>
    intro n x hx
    simp only [decF] at hx
    split at hx
    · simp at hx; omega
    · rcases List.mem_append.mp hx with hx | hx
      · exact ih _ x hx
      · simp at hx; omega

theorem decBytes_digits (n : Nat) : ∀ x ∈ decBytes n, x < 192 := by
  intro x hx
  have := decF_digits n n x hx
  omega

/-- a run of bytes below 0xc0 followed by something that starts with a byte ≥ 0xc0 splits uniquely -/
theorem digits_split : ∀ (d₁ d₂ r₁ r₂ : Bytes), (∀ x ∈ d₁, x < 192) → (∀ x ∈ d₂, x < 192) →
    (∃ a t, r₁ = a :: t ∧ 192 ≤ a) → (∃ a t, r₂ = a :: t ∧ 192 ≤ a) →
    d₁ ++ r₁ = d₂ ++ r₂ → d₁ = d₂ ∧ r₁ = r₂ := by
  intro d₁
  induction d₁ with
  | nil =>
    intro d₂ r₁ r₂ _ h₂ ⟨a, t, e, ha⟩ _ h
    cases d₂ with
    | nil => exact ⟨rfl, by simpa using h⟩
    | cons y ys =>
      rw [e] at h
      simp only [List.nil_append, List.cons_append, List.cons.injEq] at h
      have := h₂ y (by simp)
      omega
  | cons x xs ih =>
    intro d₂ r₁ r₂ h₁ h₂ hr₁ hr₂ h
    cases d₂ with
    | nil =>
      obtain ⟨a, t, e, ha⟩ := hr₂
      rw [e] at h
      simp only [List.nil_append, List.cons_append, List.cons.injEq] at h
      have := h₁ x (by simp)
      omega
    | cons y ys =>
      simp only [List.cons_append, List.cons.injEq] at h
      obtain ⟨e1, e2⟩ := ih ys r₁ r₂ (fun z hz => h₁ z (by simp [hz]))
        (fun z hz => h₂ z (by simp [hz])) hr₁ hr₂ h.2
      exact ⟨by rw [h.1, e1], e2⟩

/-- `')'` occurs in the separator only as its first byte -/
theorem sep_tail_no_paren : ∀ y ∈ sep.tail, y ≠ 41 := by decide

/-- if one chain id properly extends the other and the framed messages agree, the longer chain id
    contains the separator -/
theorem sep_overlap {c₁ a T₁ T₂ : Bytes} (ha : a ≠ [])
    (h : sep ++ T₁ = a ++ (sep ++ T₂)) : sep <:+: c₁ ++ a := by
  rcases List.append_eq_append_iff.mp h with ⟨a', e, _⟩ | ⟨c', e, e'⟩
  · exact ⟨c₁, a', by rw [e]; simp⟩
  · cases c' with
    | nil => exact ⟨c₁, [], by simp at e; rw [e]; simp⟩
    | cons y c'' =>
      exfalso
      cases a with
      | nil => exact ha rfl
      | cons x a₀ =>
        have hy : y ∈ sep.tail := by
          have : sep.tail = a₀ ++ y :: c'' := by rw [e]; rfl
          rw [this]; simp
        have h41 : y = 41 := by
          have := congrArg List.head? e'
          simpa [sep] using this.symm
        exact sep_tail_no_paren y hy h41

theorem frame_unique {c₁ c₂ d₁ d₂ r₁ r₂ : Bytes} (h₁ : WFChainId c₁) (h₂ : WFChainId c₂)
    (hd₁ : ∀ x ∈ d₁, x < 192) (hd₂ : ∀ x ∈ d₂, x < 192)
    (hr₁ : ∃ a t, r₁ = a :: t ∧ 192 ≤ a) (hr₂ : ∃ a t, r₂ = a :: t ∧ 192 ≤ a)
    (h : c₁ ++ (sep ++ (d₁ ++ r₁)) = c₂ ++ (sep ++ (d₂ ++ r₂))) : c₁ = c₂ ∧ r₁ = r₂ := by
  have key : c₁ = c₂ := by
    rcases List.append_eq_append_iff.mp h with ⟨a, e, e'⟩ | ⟨a, e, e'⟩
    · by_cases ha : a = []
      · rw [e, ha]; simp
      · exact absurd (e ▸ sep_overlap (c₁ := c₁) ha e') h₂
    · by_cases ha : a = []
      · rw [e, ha]; simp
      · exact absurd (e ▸ sep_overlap (c₁ := c₂) ha e') h₁
  rw [key] at h
  have h' := List.append_cancel_left (List.append_cancel_left h)
  exact ⟨key, (digits_split d₁ d₂ r₁ r₂ hd₁ hd₂ hr₁ hr₂ h').2⟩

theorem preimage_inj {c₁ c₂ : Bytes} {t₁ t₂ : Trx} (h₁ : WFChainId c₁) (h₂ : WFChainId c₂)
    (w₁ : WFTrx t₁) (w₂ : WFTrx t₂) (h : preimage c₁ t₁ = preimage c₂ t₂) :
    c₁ = c₂ ∧ signedFields t₁ = signedFields t₂ := by
  unfold preimage at h
  have h' := List.append_cancel_left h
  obtain ⟨ec, er⟩ := frame_unique h₁ h₂ (decBytes_digits _) (decBytes_digits _)
    (rlpTrxUnsigned_head t₁) (rlpTrxUnsigned_head t₂) h'
  exact ⟨ec, (trxItem_inj w₁ w₂ er).1⟩

end Rigo.Preimage
