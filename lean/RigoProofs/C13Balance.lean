/-
  C13: how each operation moves the cumulated reward of an account (step-wise form of
  "withdrawable = issued − withdrawn"): only BeginBlock raises it, only the account's own successful
  DeliverTx withdrawal lowers it (by the requested amount, counted in the ghost counter).
-/
import RigoProofs.C13Withdraw
import RigoProofs.C13Issuance
import RigoProofs.C15Params

namespace Rigo.C13
open Rigo

theorem endBlock_rewards (s : St) : (endBlock s).1.rewards = s.rewards := by
  apply C15.endBlock_ind s (fun x => x.rewards = s.rewards)
  · rfl
  · intro b s1 _ h1
    exact (C15.freezeProposals_spec (fun _ _ => True) (fun _ _ _ _ _ _ => trivial) h1
      ⟨fun _ _ _ => trivial, fun _ _ _ => trivial, fun _ _ _ _ _ => trivial⟩).1.2.2.2.2.2.2.2.2.2.1
  · intro b s1 s2 _ h1 h2
    have e1 := (C15.freezeProposals_spec (fun _ _ => True) (fun _ _ _ _ _ _ => trivial) h1
      ⟨fun _ _ _ => trivial, fun _ _ _ => trivial, fun _ _ _ _ _ => trivial⟩).1.2.2.2.2.2.2.2.2.2.1
    have e2 := (C15.applyProposals_spec (fun _ _ => True) h2
      ⟨fun _ _ _ => trivial, fun _ _ _ => trivial, fun _ _ _ _ _ => trivial⟩).1.2.2.2.2.2.2.2.2.2.1
    rw [e2, e1]
  · intro b s1 s2 s' _ _ _ t p2; rw [t.1.2.2.2.2.2.2.2.2.2.1]; exact p2
  · intro b s1 s2 s4 s5 ups _ _ _ _ p4 hu
    rw [(C15.updateValidators_tfr hu).1.2.2.2.2.2.2.2.2.2.1]; exact p4

theorem endBlock_cum (s : St) (k : String) : cumOf (endBlock s).1 k = cumOf s k := by
  unfold cumOf; rw [endBlock_rewards]

theorem commit_cum (s : St) (k : String) : cumOf (commit s).1 k = cumOf s k := by
  have : (commit s).1.rewards.fin = s.rewards.fin := by
    unfold commit; split <;> rfl
  unfold cumOf; rw [this]

/-- a DeliverTx of any other type leaves rewards and the withdrawal counter alone -/
theorem deliver_other_cum (s : St) (tx : TxIn) (ht : tx.type ≠ TRX_WITHDRAW) (k : String) :
    cumOf (deliverTx s tx).1 k = cumOf s k ∧ (deliverTx s tx).1.ghost.withdrawn = s.ghost.withdrawn := by
  obtain ⟨h1, h2⟩ := (C15.deliverTx_frame s tx).2.2.1 ht
  unfold cumOf; rw [h1, h2]; exact ⟨rfl, rfl⟩

/-- a successful DeliverTx withdrawal lowers the sender's cumulated reward by the request, leaves every
    other account's alone and counts the request in the ghost counter -/
theorem deliver_withdraw_cum {s : St} {b : BlockCtx} {tx : TxIn} {sender : Account} {req : Nat} {r : Reward}
    (hb : s.blk = some b) (htype : tx.type = TRX_WITHDRAW) (ok : WithdrawOk s b.height tx sender req r)
    (hka : ledgerKey sender.addr = ledgerKey tx.from_) (hkr : ledgerKey r.addr = ledgerKey tx.from_)
    (hnw : sender.bal + req < two256) (hcum : r.cumulated < two256) :
    cumOf (deliverTx s tx).1 (ledgerKey tx.from_) = cumOf s (ledgerKey tx.from_) - req ∧
    (∀ k, k ≠ ledgerKey tx.from_ → cumOf (deliverTx s tx).1 k = cumOf s k) ∧
    (deliverTx s tx).1.ghost.withdrawn = s.ghost.withdrawn + req := by
  obtain ⟨h1, _, h3, h4⟩ := withdraw_run htype ok hka hkr hnw
  have hd : (deliverTx s tx).1.rewards = (handleTx s true b.height tx).1.rewards ∧
      (deliverTx s tx).1.ghost = (handleTx s true b.height tx).1.ghost := by
    unfold deliverTx
    rw [hb]
    simp only []
    generalize handleTx s true b.height tx = res at h1
    obtain ⟨s', o⟩ := res
    simp only [] at h1
    subst h1
    simp
  have hc : (Reward.afterWithdraw r req b.height).cumulated = r.cumulated - req := by
    have : (Reward.afterWithdraw r req b.height).cumulated = wsub r.cumulated req := by
      unfold Reward.afterWithdraw; split <;> rfl
    rw [this]
    unfold wsub
    have hreq : req < two256 := by have := ok.enough; omega
    rw [Nat.mod_eq_of_lt hreq]
    have h2 : r.cumulated + two256 - req = (r.cumulated - req) + two256 := by have := ok.enough; omega
    rw [h2, Nat.add_mod_right, Nat.mod_eq_of_lt (by omega)]
  refine ⟨?_, ?_, ?_⟩
  · unfold cumOf; rw [hd.1, h3]; simp [ok.record, hc]
  · intro k hk
    unfold cumOf; rw [hd.1, h3]
    rw [Std.ExtTreeMap.getElem?_insert]
    have : ¬ ledgerKey tx.from_ = k := fun h => hk h.symm
    simp [this]
  · rw [hd.2, h4]

end Rigo.C13
