/-
  Round 3, stake controller (ctrlers/stake/ctrler.go): `Validators`, `NewReward`, `exeStaking`,
  `exeWithdraw`, `doPunish` and the dispatch `ExecuteTrx`, against the model's `execProposal` (the part
  that reads the validators), `execStaking`, `execWithdraw` (Rigo/App.lean) and `stakePunish`
  (Rigo/Block.lean).

  Shape of the theorems: for a Go controller `c` holding the stake part of the model state `s`
  (`StakeRel c s`) and a context built from the model transaction (`ctx.tx = trxOf tx`, …), outcome
  for outcome:
    model `.ok r`            ↦ the generated function returns `StakeX.ctrlWith c r.st` (the controller
                               whose three ledgers are those of `r.st`; `StakeRel` holds again), error `none`;
    model `.error (.err k)`  ↦ the generated function returns the Go error `…Label k`;
    model `.error (.panic _)`↦ the generated function throws (`G.panics`).
  Helpers live in the namespace `Rigo.GenEq.StakeX`.

  Differences found (witnesses at the end of the file):
    * `StakeCtrler_doPunish_differs`            (write-back key; excluded by `StakeX.DelegKeyOK`)
    * `StakeCtrler_exeWithdraw_cancel_differs`  (`CancelSet` on the failure path of `exeWithdraw`)
-/
import RigoProofs.GenFuncsCtrlBase
import RigoProofs.GenFuncsStake2

set_option linter.unusedSimpArgs false

namespace Rigo.GenEq
open Rigo Rigo.Gen

namespace StakeX

theorem Validators_raw (c : StakeCtrler) :
    StakeCtrler_Validators c = .ok (c.lastValidators.map (fun v => (v.addr, v.total)),
      (c.lastValidators.map (·.total)).sum) := by
  unfold StakeCtrler_Validators
  dsimp only
  rw [forIn_eq_pure _ (fun (xs : List Delegatee) st =>
      ⟨st.1 + (xs.map (·.total)).sum, st.2 ++ xs.map (fun v => (v.addr, v.total))⟩)]
  · simp [pure, Except.pure, bind, Except.bind]
  · intro st; simp
  · intro x xs st
    simp [pure, Except.pure, bind, Except.bind]; omega

/-! ### monad plumbing

`simp only [Except.bind]` on the larger generated controllers makes the kernel run out of stack
("deep recursion"); binds are therefore reduced with the two constructor rules only, after the
sub-calls have been rewritten to their `.ok` values. -/

theorem okBind {α β : Type} (a : α) (f : α → G β) : Except.bind (Except.ok a : G α) f = f a := rfl
theorem errBind {α β : Type} (e : String) (f : α → G β) :
    Except.bind (Except.error e : G α) f = .error e := rfl

/-- the delegatee a staking transaction goes to: the one found under `to`, or a fresh one for a
    self-staking sender -/
def target (found : Option Delegatee) (from_ to pub : Hex) : Option Delegatee :=
  match found with
  | some d => some d
  | none => if from_ = to then some { addr := from_, pub := pub } else none

@[simp] theorem addStake_addr (d : Delegatee) (st : Stake) : (d.addStake st).addr = d.addr := rfl

/-- the stake record `exeStaking` creates: owner, delegatee, power, reward start `height + 1`,
    keyed by the transaction hash -/
def stakeOf (ctx : TrxContext) (power : Int) : Stake :=
  { owner := ctx.tx.from_, to := ctx.tx.to, hash := ctx.txHash, power := power, start := ctx.height + 1 }

theorem exeStaking_core (c : StakeCtrler) (ctx : TrxContext) (sc : Option String) :
    StakeCtrler_exeStaking c ctx sc =
      match target (c.delegateeLedger.get ctx.exec (ledgerKey ctx.tx.to)) ctx.tx.from_ ctx.tx.to
          ctx.senderPubKey with
      | none => .ok (c, ctx, some "ErrNotFoundDelegatee")
      | some d =>
        match subBalance ctx.sender ctx.tx.amount with
        | none => .ok (c, ctx, some (if isNeg256 ctx.tx.amount then "ErrInvalidAmount" else "ErrInsufficientFund"))
        | some a1 =>
          (AmountToPower ctx.tx.amount).bind fun power =>
            .ok ({ c with
                   delegateeLedger :=
                     c.delegateeLedger.set ctx.exec (ledgerKey d.addr) (d.addStake (stakeOf ctx power)) },
                 { ctx with sender := a1 }, none) := by
  unfold StakeCtrler_exeStaking
  simp only [bind, pure, Except.pure, bytes_Compare_eq, NewDelegatee_eq, Account_SubBalance_eq,
    NewStakeWithPower_eq, Delegatee_AddStake_eq, Delegatee_Key_eq, toLedgerKey_eq, gderef, okBind, errBind]
  obtain ⟨height, txHash, tx, exec, pk, sender, receiver, gasUsed, chainId⟩ := ctx
  have key : ∀ b : Bool, c.delegateeLedger.get b (ledgerKey tx.to) = none ∨
      ∃ d, c.delegateeLedger.get b (ledgerKey tx.to) = some d := by
    intro b; cases c.delegateeLedger.get b (ledgerKey tx.to) <;> simp
  cases exec
  case' false => rcases key false with hg | ⟨d, hg⟩
  case' true => rcases key true with hg | ⟨d, hg⟩
  all_goals
    simp only [Bool.false_eq_true, if_false, if_true]
    by_cases hft : tx.from_ = tx.to <;>
      cases hs : subBalance sender tx.amount <;>
        cases hp : AmountToPower tx.amount <;>
          simp [target, stakeOf, hg, hs, hp, hft, cmpBytes_eq_zero, okBind, errBind]

/-- the Go stake controller after a model step: the three ledgers are those of the new model state -/
def ctrlWith (c : StakeCtrler) (s' : St) : StakeCtrler :=
  { c with
    delegateeLedger := ledOf id s'.delegs
    frozenLedger := ledOf id s'.frozen
    rewardLedger := ledOf id s'.rewards }

theorem rel_with (c : StakeCtrler) (s s' : St) (h : StakeRel c s) (h1 : s'.allDelegs = s.allDelegs)
    (h2 : s'.lastVals = s.lastVals) (h3 : s'.limiter = s.limiter) : StakeRel (ctrlWith c s') s' :=
  ⟨by rw [h1]; exact h.all, by rw [h2]; exact h.last, rfl, rfl, rfl, by rw [h3]; exact h.limiter⟩

theorem ledOf_set_id {V : Type} (l : Led V) (e : Bool) (k : String) (v : V) :
    (ledOf id l).set e k v = ledOf id (l.set e k v) := ledOf_set id l e k v

/-- handing an account to the account controller (`SetAccountCommittable`) is the model's `setAcct` -/
theorem setAccountCommittable_eq (s : St) (exec : Bool) (a : Account) (s' : St)
    (h : s'.accts = (s.setAcct exec a).accts) :
    AcctCtrler_setAccountCommittable (acctCtrlOf s) a exec = .ok (acctCtrlOf s', none) := by
  unfold AcctCtrler_setAccountCommittable
  cases exec <;>
    simp [Account_Key_eq, acctCtrlOf, h, St.setAcct, ledOf_set_id, bind, pure, Except.pure, okBind]

/-- the Go error of each failure kind of the model's `execStaking` -/
def stakingLabel (amt : Nat) (k : String) : Option String :=
  if k = "nodelegatee" then some "ErrNotFoundDelegatee"
  else if k = "funds" then some (if isNeg256 amt then "ErrInvalidAmount" else "ErrInsufficientFund")
  else none

/-- the model's `execStaking` in the shape of `exeStaking_core` -/
theorem execStaking_core (s : St) (exec : Bool) (height : Int) (tx : TxIn) (sender : Account)
    (hs : s.findAcct exec tx.from_ = some sender) :
    execStaking s exec height tx =
      match target (s.delegs.get exec (ledgerKey tx.to)) tx.from_ tx.to (if exec then tx.pub else "") with
      | none => .error (.err "nodelegatee")
      | some d =>
        match subBalance sender tx.amount with
        | none => .error (.err "funds")
        | some a1 =>
          match amountToPower tx.amount with
          | .panic p => .error (.panic p)
          | .ok power =>
            .ok { st := { s.setAcct exec a1 with
                          delegs := (s.setAcct exec a1).delegs.set exec (ledgerKey d.addr)
                            (d.addStake { owner := tx.from_, to := tx.to, hash := tx.hash, power := power,
                                          start := height + 1 }) } } := by
  unfold execStaking
  simp only [hs, bind, Except.bind, pure, Except.pure, throw, throwThe, MonadExceptOf.throw]
  cases hg : s.delegs.get exec (ledgerKey tx.to) with
  | some d =>
    cases hb : subBalance sender tx.amount <;> cases hp : amountToPower tx.amount <;>
      simp [target, ofRes, hb, hp]
  | none =>
    by_cases hft : tx.from_ = tx.to
    · cases hb : subBalance sender tx.amount <;> cases hp : amountToPower tx.amount <;>
        simp [target, ofRes, hb, hp, hft]
    · simp [target, hft]

/-- with the sender account at hand the model's `execStaking` fails with "nodelegatee" or "funds"
    only ("noacct" cannot occur) -/
theorem execStaking_err_kind (s : St) (exec : Bool) (height : Int) (tx : TxIn) (sender : Account) (k : String)
    (hs : s.findAcct exec tx.from_ = some sender) (h : execStaking s exec height tx = .error (.err k)) :
    k = "nodelegatee" ∨ k = "funds" := by
  rw [execStaking_core s exec height tx sender hs] at h
  repeat' split at h
  all_goals first | (cases h; simp) | cases h

/-- `exeStaking(ctx)` = `execStaking`.
    Hypotheses: `c` holds the stake part of `s`; the context is the one the executor builds for `tx`
    (transaction, path, height, hash; the public key is the recovered one on the DeliverTx path and
    empty on the CheckTx path, where `commonValidation0` does not store it); `ctx.sender` is the
    sender's account as the ledger has it (`NewTrxContext` reads it from there).
    Success: the sender object of the context is the model's debited account `a1`, the stake
    controller is that of the model's new state, and `a1` handed to the account controller
    (`SetAccountCommittable`, whose error the Go code discards: the parameter `setCommittable` is not
    used) gives the account controller of the model's new state.
    Errors: "nodelegatee" ↦ `ErrNotFoundDelegatee`, "funds" ↦ the error of `SubBalance`
    (`ErrInvalidAmount` for an amount ≥ 2^255, else `ErrInsufficientFund`), controller and context
    unchanged.  Panic (`AmountToPower`): both.  `AddStake` never returns an error (`Delegatee_AddStake_eq`),
    so the Go path "sender debited, then `AddStake` fails" does not exist. -/
theorem _root_.Rigo.GenEq.StakeCtrler_exeStaking_eq (c : StakeCtrler) (s : St) (exec : Bool) (height : Int) (tx : TxIn)
    (ctx : TrxContext) (sc : Option String) (hrel : StakeRel c s)
    (htx : ctx.tx = trxOf tx) (hex : ctx.exec = exec) (hh : ctx.height = height) (hhash : ctx.txHash = tx.hash)
    (hpk : ctx.senderPubKey = if exec then tx.pub else "")
    (hsender : s.findAcct exec tx.from_ = some ctx.sender) :
    match execStaking s exec height tx with
    | .ok r => ∃ a1, subBalance ctx.sender tx.amount = some a1 ∧
        StakeCtrler_exeStaking c ctx sc = .ok (ctrlWith c r.st, { ctx with sender := a1 }, none) ∧
        StakeRel (ctrlWith c r.st) r.st ∧
        AcctCtrler_setAccountCommittable (acctCtrlOf s) a1 exec = .ok (acctCtrlOf r.st, none)
    | .error (.err k) => StakeCtrler_exeStaking c ctx sc = .ok (c, ctx, stakingLabel tx.amount k)
    | .error (.panic _) => G.panics (StakeCtrler_exeStaking c ctx sc) := by
  have e1 : ctx.tx.to = tx.to := by rw [htx]; rfl
  have e2 : ctx.tx.from_ = tx.from_ := by rw [htx]; rfl
  have e3 : ctx.tx.amount = tx.amount := by rw [htx]; rfl
  rw [exeStaking_core]
  simp only [e1, e2, e3, hex, hrel.delegs, ledOf_get, Option.map_id, id]
  rw [execStaking_core s exec height tx ctx.sender hsender]
  simp only [hpk]
  cases ht : target (s.delegs.get exec (ledgerKey tx.to)) tx.from_ tx.to (if exec then tx.pub else "") with
  | none => simp [stakingLabel]
  | some d =>
    cases hb : subBalance ctx.sender tx.amount with
    | none => simp [stakingLabel]
    | some a1 =>
      have hp := AmountToPower_eq tx.amount
      cases hm : amountToPower tx.amount with
      | panic p =>
        rw [hm] at hp
        obtain ⟨e, he⟩ := hp
        rw [he]
        exact ⟨e, rfl⟩
      | ok power =>
        rw [hm] at hp
        simp only [G.matches_ok] at hp
        simp only [hp, okBind]
        refine ⟨a1, rfl, ?_, rel_with c s _ hrel rfl rfl rfl, setAccountCommittable_eq s exec a1 _ rfl⟩
        simp [ctrlWith, St.setAcct, stakeOf, e1, e2, hh, hhash, hrel.frozen, hrel.rewards, ledOf_set_id]

/-! ### `exeWithdraw` -/

/-- the controller `exeWithdraw` leaves behind when `AcctCtrler.Reward` fails: the reward was stored,
    then its cached entry dropped (`CancelSet` / `CancelSetFinality`) -/
def withdrawCancelled (c : StakeCtrler) (exec : Bool) (w' : Reward) : StakeCtrler :=
  { c with
    rewardLedger := (c.rewardLedger.set exec (ledgerKey w'.addr) w').cancelSet exec (ledgerKey w'.addr) }

theorem exeWithdraw_core (c : StakeCtrler) (ctx : TrxContext) (rewardErr : Option String) :
    StakeCtrler_exeWithdraw c ctx rewardErr =
      match ctx.tx.payload.asWithdraw with
      | none => .ok (c, some "ErrInvalidTrxPayloadType")
      | some p =>
        match c.rewardLedger.get ctx.exec (ledgerKey ctx.tx.from_) with
        | none => .ok (c, some "ErrNotFoundResult")
        | some w =>
          (Reward_Withdraw w p.reqAmt ctx.height).bind fun r =>
            if r.2.isSome then .ok (c, r.2)
            else if rewardErr.isSome then .ok (withdrawCancelled c ctx.exec r.1, rewardErr)
            else .ok ({ c with rewardLedger := c.rewardLedger.set ctx.exec (ledgerKey r.1.addr) r.1 }, none) := by
  unfold StakeCtrler_exeWithdraw
  simp only [bind, pure, Except.pure, Reward_Key_eq, toLedgerKey_eq, gderef, okBind, errBind]
  obtain ⟨height, txHash, tx, exec, pk, sender, receiver, gasUsed, chainId⟩ := ctx
  have key : ∀ b : Bool, c.rewardLedger.get b (ledgerKey tx.from_) = none ∨
      ∃ d, c.rewardLedger.get b (ledgerKey tx.from_) = some d := by
    intro b; cases c.rewardLedger.get b (ledgerKey tx.from_) <;> simp
  cases hpay : tx.payload.asWithdraw with
  | none => simp [hpay]
  | some p =>
    cases exec
    case' false => rcases key false with hg | ⟨d, hg⟩
    case' true => rcases key true with hg | ⟨d, hg⟩
    all_goals
      simp only [Bool.false_eq_true, if_false, if_true]
      simp [hg, okBind, errBind, withdrawCancelled]

/-- the model's `execWithdraw`, stage by stage -/
theorem execWithdraw_core (s : St) (exec : Bool) (height : Int) (tx : TxIn) :
    execWithdraw s exec height tx =
      match tx.payload with
      | .withdraw req =>
        match s.rewards.get exec (ledgerKey tx.from_) with
        | none => .error (.err "notfound")
        | some w =>
          match w.withdraw req height with
          | .panic p => .error (.panic p)
          | .ok w' =>
            match ({ s with rewards := s.rewards.set exec (ledgerKey w'.addr) w' } : St).reward exec tx.from_ req with
            | some s2 =>
              .ok { st := if exec then { s2 with ghost := { s2.ghost with withdrawn := s2.ghost.withdrawn + req } }
                          else s2 }
            | none => .error (.err "amount")
      | _ => .error (.err "payloadtype") := by
  unfold execWithdraw
  cases tx.payload <;> simp only [bind, Except.bind, pure, Except.pure, throw, throwThe, MonadExceptOf.throw]
  rename_i req
  cases s.rewards.get exec (ledgerKey tx.from_) with
  | none => rfl
  | some w =>
    cases hw : w.withdraw req height with
    | panic p => simp [ofRes, hw]
    | ok w' =>
      simp only [ofRes, hw]
      cases ({ s with rewards := s.rewards.set exec (ledgerKey w'.addr) w' } : St).reward exec tx.from_ req <;> rfl

/-- `AcctCtrler.Reward` only looks at the account ledger -/
theorem reward_isSome_accts (s1 s : St) (exec : Bool) (to : Hex) (amt : Nat) (h : s1.accts = s.accts) :
    (s1.reward exec to amt).isSome = (s.reward exec to amt).isSome := by
  unfold St.reward St.findAcct
  rw [h]
  cases s.accts.get exec (ledgerKey to) with
  | none => rfl
  | some a => dsimp only; cases addBalance a amt <;> rfl

theorem reward_frame (s s2 : St) (exec : Bool) (to : Hex) (amt : Nat) (h : s.reward exec to amt = some s2) :
    ∃ a, s2 = s.setAcct exec a := by
  unfold St.reward at h
  split at h
  · cases h
  · split at h
    · cases h
    · cases h; exact ⟨_, rfl⟩

/-- the Go error of each failure kind of the model's `execWithdraw` (`rewardErr` = the error of
    `AcctCtrler.Reward`) -/
def withdrawLabel (rewardErr : Option String) (k : String) : Option String :=
  if k = "payloadtype" then some "ErrInvalidTrxPayloadType"
  else if k = "notfound" then some "ErrNotFoundResult"
  else if k = "amount" then rewardErr
  else none

theorem execWithdraw_err_kind (s : St) (exec : Bool) (height : Int) (tx : TxIn) (k : String)
    (h : execWithdraw s exec height tx = .error (.err k)) :
    k = "payloadtype" ∨ k = "notfound" ∨ k = "amount" := by
  rw [execWithdraw_core] at h
  repeat' split at h
  all_goals first | (cases h; simp) | cases h

/-- `exeWithdraw(ctx)` = `execWithdraw`.
    `rewardErr` (the error of `ctx.AcctHandler.Reward(sender, reqAmt, exec)`) is any value that is
    `nil` exactly when the model's `St.reward` succeeds (hypothesis `hrew`; `St.reward` reads the account
    ledger only, so it may be evaluated in `s`).
    Success: the reward ledger is that of the model's new state.  Errors: wrong payload type ↦
    `ErrInvalidTrxPayloadType`, no reward record ↦ `ErrNotFoundResult`, both with the controller
    unchanged; failure of `Reward` (model "amount") ↦ `rewardErr`, where the Go controller is
    `StakeX.withdrawCancelled` (set, then `CancelSet`: see `StakeCtrler_exeWithdraw_cancel_differs`)
    while the model drops the state.  Panic (`Reward.Withdraw` on a height regression): both. -/
theorem _root_.Rigo.GenEq.StakeCtrler_exeWithdraw_eq (c : StakeCtrler) (s : St) (exec : Bool) (height : Int) (tx : TxIn)
    (ctx : TrxContext) (rewardErr : Option String) (hrel : StakeRel c s)
    (htx : ctx.tx = trxOf tx) (hex : ctx.exec = exec) (hh : ctx.height = height)
    (hrew : ∀ req, tx.payload = .withdraw req → rewardErr.isNone = (s.reward exec tx.from_ req).isSome) :
    match execWithdraw s exec height tx with
    | .ok r => StakeCtrler_exeWithdraw c ctx rewardErr = .ok (ctrlWith c r.st, none) ∧
        StakeRel (ctrlWith c r.st) r.st
    | .error (.err k) => ∃ c', StakeCtrler_exeWithdraw c ctx rewardErr = .ok (c', withdrawLabel rewardErr k) ∧
        (k ≠ "amount" → c' = c)
    | .error (.panic _) => G.panics (StakeCtrler_exeWithdraw c ctx rewardErr) := by
  have e1 : ctx.tx.payload = payOf tx.payload := by rw [htx]; rfl
  have e2 : ctx.tx.from_ = tx.from_ := by rw [htx]; rfl
  rw [exeWithdraw_core, execWithdraw_core]
  simp only [e1, e2, hex, hh, hrel.rewards, ledOf_get, Option.map_id, id]
  cases hpay : tx.payload
  case withdraw req =>
    simp only [payOf, TrxPayload.asWithdraw]
    cases hg : s.rewards.get exec (ledgerKey tx.from_) with
    | none => exact ⟨c, by simp [withdrawLabel], fun _ => rfl⟩
    | some w =>
      have hw := Reward_Withdraw_eq w req height
      cases hm : w.withdraw req height with
      | panic p =>
        rw [hm] at hw
        obtain ⟨e, he⟩ := hw
        simp only [he, errBind, hm]
        exact ⟨e, rfl⟩
      | ok w' =>
        rw [hm] at hw
        simp only [Res.map, G.matches_ok] at hw
        simp only [hw, okBind, hm]
        have hr := hrew req hpay
        rw [← reward_isSome_accts ({ s with rewards := s.rewards.set exec (ledgerKey w'.addr) w' } : St) s
          exec tx.from_ req rfl] at hr
        cases hs2 : ({ s with rewards := s.rewards.set exec (ledgerKey w'.addr) w' } : St).reward exec tx.from_ req with
        | none =>
          rw [hs2] at hr
          have : rewardErr.isSome = true := by cases rewardErr <;> simp_all
          exact ⟨withdrawCancelled c exec w', by simp [this, withdrawLabel], fun h => absurd rfl h⟩
        | some s2 =>
          rw [hs2] at hr
          have : rewardErr = none := by cases rewardErr <;> simp_all
          subst this
          obtain ⟨a, ha⟩ := reward_frame _ _ _ _ _ hs2
          subst ha
          simp only [hs2]
          refine ⟨?_, ?_⟩
          · cases exec <;>
              simp [ctrlWith, St.setAcct, hrel.delegs, hrel.frozen, hrel.rewards, ledOf_set_id]
          · cases exec <;> exact rel_with c s _ hrel rfl rfl rfl
  all_goals exact ⟨c, by simp [payOf, TrxPayload.asWithdraw, withdrawLabel], fun _ => rfl⟩

/-! ### `doPunish` -/

theorem ctrlWith_self (c : StakeCtrler) (s : St) (h : StakeRel c s) : ctrlWith c s = c := by
  cases c
  simp only [ctrlWith]
  rw [← h.delegs, ← h.frozen, ← h.rewards]

/-- the delegatee stored under the key of `addr` (consensus view) has a non-empty address whose
    ledger key is that key.  Go writes the slashed delegatee back under ITS OWN key (`SetFinality(delegatee)`),
    the model under the key it was read from; `doSlashAll` recomputes the self power with
    `sumPowerOf(delegatee.Addr)`, which for an empty (nil) address sums ALL stakes.  Holds in every
    reachable state (delegatees are only ever stored under the key of their 20-byte address). -/
def DelegKeyOK (s : St) (addr : Hex) : Prop :=
  match s.delegs.get true (ledgerKey addr) with
  | some d => d.addr ≠ "" ∧ ledgerKey d.addr = ledgerKey addr
  | none => True

instance (s : St) (addr : Hex) : Decidable (DelegKeyOK s addr) := by
  unfold DelegKeyOK; split <;> infer_instance

@[simp] theorem doSlash_addr (d : Delegatee) (ratio : Int) : (d.doSlash ratio).1.addr = d.addr := rfl

/-- `doPunish(evi, slashRatio)` = `stakePunish` with the active slash ratio: an unknown validator ↦
    `ErrNotFoundResult`, 0 and the unchanged controller (model: `(s, none)`); else the delegatee
    ledger of the model's new state and the slashed power.  `StakeRel` holds for the new pair. -/
theorem _root_.Rigo.GenEq.StakeCtrler_doPunish_eq (c : StakeCtrler) (s : St) (evi : Evidence) (hrel : StakeRel c s)
    (hk : DelegKeyOK s evi.validator.fst) :
    StakeCtrler_doPunish c evi s.active.slashRatio =
      .ok (match stakePunish s evi.validator.fst with
        | (s', some sl) => (ctrlWith c s', sl, none)
        | (_, none) => (c, 0, some "ErrNotFoundResult")) ∧
    StakeRel (ctrlWith c (stakePunish s evi.validator.fst).1) (stakePunish s evi.validator.fst).1 := by
  unfold StakeCtrler_doPunish stakePunish DelegKeyOK at *
  simp only [bind, pure, Except.pure, toLedgerKey_eq, Delegatee_Key_eq, gderef, okBind, errBind,
    hrel.delegs, ledOf_get, Option.map_id, id]
  cases hg : s.delegs.get true (ledgerKey evi.validator.fst) with
  | none => exact ⟨by simp, rel_with c s _ hrel rfl rfl rfl⟩
  | some d =>
    rw [hg] at hk
    refine ⟨?_, rel_with c s _ hrel rfl rfl rfl⟩
    simp [Delegatee_DoSlash_eq d _ hk.1, okBind, ctrlWith, hrel.frozen, hrel.rewards, ledOf_set_id, hk.2]

/-! ### `Validators`, `NewReward`, `ExecuteTrx` -/

/-- `Validators()`: address and total power of every validator of the last set, in order, and the sum
    of the powers: what `execProposal` reads from `s.lastVals` (voters before sorting, total power) -/
theorem _root_.Rigo.GenEq.StakeCtrler_Validators_eq (c : StakeCtrler) (s : St) (hrel : StakeRel c s) :
    StakeCtrler_Validators c =
      .ok (s.lastVals.map (fun v => (v.addr, v.total)), (s.lastVals.map (·.total)).sum) := by
  rw [Validators_raw, hrel.last]

/-- `NewReward(addr)`: the fresh reward record of `rewardTo` -/
theorem _root_.Rigo.GenEq.NewReward_eq (a : Hex) : NewReward a = .ok ({ addr := a } : Reward) := by
  unfold NewReward; rfl

/-- `ExecuteTrx` dispatches on the transaction type: 2 staking, 3 un-staking, 8 withdrawal (the context
    is handed back; only staking changes it), anything else `ErrUnknownTrxType` -/
theorem _root_.Rigo.GenEq.StakeCtrler_ExecuteTrx_eq (c : StakeCtrler) (ctx : TrxContext) (sc : Option String) (lrb : Int)
    (rewardErr : Option String) :
    StakeCtrler_ExecuteTrx c ctx sc lrb rewardErr =
      if ctx.tx.type = 2 then StakeCtrler_exeStaking c ctx sc
      else if ctx.tx.type = 3 then
        (StakeCtrler_exeUnstaking c ctx lrb).bind fun r => .ok (r.1, ctx, r.2)
      else if ctx.tx.type = 8 then
        (StakeCtrler_exeWithdraw c ctx rewardErr).bind fun r => .ok (r.1, ctx, r.2)
      else .ok (c, ctx, some "ErrUnknownTrxType") := by
  unfold StakeCtrler_ExecuteTrx Trx_GetType
  simp only [bind, pure, Except.pure, okBind]
  by_cases h2 : ctx.tx.type = 2
  · simp only [h2, if_true]
    cases StakeCtrler_exeStaking c ctx sc <;> rfl
  · by_cases h3 : ctx.tx.type = 3
    · simp only [h2, h3, if_true, if_false]
      rfl
    · by_cases h8 : ctx.tx.type = 8
      · simp only [h2, h3, h8, if_true, if_false]
        rfl
      · simp only [h2, h3, h8, if_false]

/-! ### the hypotheses are satisfiable; both sides compute what one expects -/

def xA : Hex := "aaaaaaaaaaaaaaaaaaaaaaaaaaaaaaaaaaaaaaaa"
def xB : Hex := "bbbbbbbbbbbbbbbbbbbbbbbbbbbbbbbbbbbbbbbb"
def xAcct : Account := { addr := xA, bal := 7000000000000000000, nonce := 1 }
def xDeleg : Delegatee :=
  { addr := xB, pub := "03cd", self := 40, total := 45,
    stakes := [{ owner := xB, to := xB, hash := "h1", power := 40, start := 1 },
               { owner := xA, to := xB, hash := "h2", power := 5, start := 2 }] }
def xRwd : Reward := { addr := xA, issued := 4, cumulated := 9, height := 3 }

/-- a state with one account, one delegatee and one reward record (same in both views) -/
def xS : St :=
  { accts := { fin := ({} : KMap Account).insert (ledgerKey xA) xAcct
               chk := ({} : KMap Account).insert (ledgerKey xA) xAcct }
    delegs := { fin := ({} : KMap Delegatee).insert (ledgerKey xB) xDeleg
                chk := ({} : KMap Delegatee).insert (ledgerKey xB) xDeleg }
    rewards := { fin := ({} : KMap Reward).insert (ledgerKey xA) xRwd
                 chk := ({} : KMap Reward).insert (ledgerKey xA) xRwd }
    lastVals := [xDeleg]
    active := { (default : Params) with slashRatio := 10 } }

def xSl : StakeLimiter := { indi := 0, upd := 0, maxCnt := 0, objs := [], base := 0, updated := 0 }
def xC : StakeCtrler := stakeCtrlOf xS xSl
theorem xRel : StakeRel xC xS := stakeRel_of xS xSl rfl

/-- self-staking of 3 power by `xA` (no delegatee yet), delegation of 2 power to `xB`, a withdrawal of 6 -/
def xTxSelf : TxIn := { hash := "01", pub := "02ab", from_ := xA, to := xA, amount := 3000000000000000000, type := 2 }
def xTxDel : TxIn := { hash := "02", pub := "02ab", from_ := xA, to := xB, amount := 2000000000000000000, type := 2 }
def xTxWd : TxIn := { hash := "03", pub := "02ab", from_ := xA, to := xA, type := 8, payload := .withdraw 6 }

example : xS.findAcct true xTxSelf.from_ = some (ctxOf xS true 10 xTxSelf xAcct xAcct).sender := by decide +kernel

/-- DeliverTx, new delegatee: the sender is debited 3·10^18, the fresh delegatee carries the recovered
    public key and one self stake of power 3 starting at height 11, keyed by the transaction hash -/
example : (match StakeCtrler_exeStaking xC (ctxOf xS true 10 xTxSelf xAcct xAcct) none with
    | .ok (c', ctx', e) => decide (e = none ∧ ctx'.sender = { xAcct with bal := 4000000000000000000 } ∧
        c'.delegateeLedger.get true (ledgerKey xA) = some
          { addr := xA, pub := "02ab", self := 3, total := 3,
            stakes := [{ owner := xA, to := xA, hash := "01", power := 3, start := 11 }] } ∧
        c'.delegateeLedger.get false (ledgerKey xA) = none)
    | .error _ => false) = true := by decide +kernel

example : (match execStaking xS true 10 xTxSelf with
    | .ok r => decide (r.st.findAcct true xA = some { xAcct with bal := 4000000000000000000 } ∧
        r.st.delegs.get true (ledgerKey xA) = some
          { addr := xA, pub := "02ab", self := 3, total := 3,
            stakes := [{ owner := xA, to := xA, hash := "01", power := 3, start := 11 }] })
    | .error _ => false) = true := by decide +kernel

/-- CheckTx, delegation to an existing delegatee (mempool view), no public key involved -/
example : (match StakeCtrler_exeStaking xC (ctxOf xS false 10 xTxDel xAcct xAcct) none with
    | .ok (c', ctx', e) => decide (e = none ∧ ctx'.sender.bal = 5000000000000000000 ∧
        (c'.delegateeLedger.get false (ledgerKey xB)).map (fun d => (d.self, d.total, d.stakes.length)) =
          some (40, 47, 3) ∧
        c'.delegateeLedger.get true (ledgerKey xB) = some xDeleg)
    | .error _ => false) = true := by decide +kernel

/-- the three error outcomes of `StakeCtrler_exeStaking_eq` occur: unknown delegatee, insufficient funds -/
example : (match StakeCtrler_exeStaking xC (ctxOf xS true 10 { xTxDel with to := "cccccccccccccccccccccccccccccccccccccccc" } xAcct xAcct) none with
    | .ok (_, _, e) => decide (e = some "ErrNotFoundDelegatee") | .error _ => false) = true := by decide +kernel
example : (match StakeCtrler_exeStaking xC (ctxOf xS true 10 { xTxDel with amount := 8000000000000000000 } xAcct xAcct) none with
    | .ok (_, ctx', e) => decide (e = some "ErrInsufficientFund" ∧ ctx'.sender = xAcct) | .error _ => false) = true := by
  decide +kernel

/-- withdrawal of 6 out of 9 at height 10 (hypothesis `hrew`: the account exists, `Reward` succeeds) -/
example : (xS.reward true xTxWd.from_ 6).isSome = true := by decide +kernel
example : (match StakeCtrler_exeWithdraw xC (ctxOf xS true 10 xTxWd xAcct xAcct) none with
    | .ok (c', e) => decide (e = none ∧ c'.rewardLedger.get true (ledgerKey xA) = some
        { addr := xA, issued := 4, withdrawn := 6, cumulated := 3, height := 10 })
    | .error _ => false) = true := by decide +kernel

/-- punishing `xB` at 10 %: 4 power slashed, the 5-power stake is reduced by 0.5 -> forfeited -/
example : DelegKeyOK xS xB := by decide +kernel
example : (match StakeCtrler_doPunish xC { validator := (xB, 45), height := 7 } xS.active.slashRatio with
    | .ok (c', sl, e) => decide (e = none ∧ sl = 4 ∧
        (c'.delegateeLedger.get true (ledgerKey xB)).map (fun d => (d.self, d.total, d.stakes.length)) =
          some (36, 36, 1))
    | .error _ => false) = true := by decide +kernel
example : (stakePunish xS xB).2 = some 4 := by decide +kernel

example : StakeCtrler_Validators xC = .ok ([(xB, 45)], 45) := by
  rw [StakeCtrler_Validators_eq xC xS xRel]; rfl

/-- all hypotheses of the three main theorems hold on these inputs -/
example := StakeCtrler_exeStaking_eq xC xS true 10 xTxSelf (ctxOf xS true 10 xTxSelf xAcct xAcct) none xRel
  rfl rfl rfl rfl rfl (by decide +kernel)
example := StakeCtrler_exeStaking_eq xC xS false 10 xTxDel (ctxOf xS false 10 xTxDel xAcct xAcct) none xRel
  rfl rfl rfl rfl rfl (by decide +kernel)
example := StakeCtrler_exeWithdraw_eq xC xS true 10 xTxWd (ctxOf xS true 10 xTxWd xAcct xAcct) none xRel
  rfl rfl rfl (by intro req h; cases h; decide +kernel)
example := StakeCtrler_doPunish_eq xC xS { validator := (xB, 45), height := 7 } xRel (by decide +kernel)

/-! ### differences -/

/-- a state in which the delegatee `xB` is stored under the key of `xA` (not reachable) -/
def xSbad : St :=
  { xS with delegs := { fin := ({} : KMap Delegatee).insert (ledgerKey xA) xDeleg
                        chk := ({} : KMap Delegatee).insert (ledgerKey xA) xDeleg } }

/-- `DelegKeyOK` is needed: when the delegatee found under the key of the evidence's address carries
    another address, Go (`SetFinality(delegatee)`, key = `delegatee.Key()`) stores the slashed
    delegatee under the delegatee's own key and leaves the entry it read untouched, the model
    (`stakePunish`) overwrites the entry it read.  Both report the same slashed power. -/
theorem _root_.Rigo.GenEq.StakeCtrler_doPunish_differs :
    ∃ (c : StakeCtrler) (s : St) (evi : Evidence), StakeRel c s ∧ ¬ DelegKeyOK s evi.validator.fst ∧
      (match StakeCtrler_doPunish c evi s.active.slashRatio, stakePunish s evi.validator.fst with
       | .ok (c', sl, e), (s', msl) =>
         decide (e = none ∧ msl = some sl ∧
           c'.delegateeLedger.get true (ledgerKey evi.validator.fst) = some xDeleg ∧
           (s'.delegs.get true (ledgerKey evi.validator.fst)).map (·.total) = some 36 ∧
           (c'.delegateeLedger.get true (ledgerKey xB)).map (·.total) = some 36 ∧
           s'.delegs.get true (ledgerKey xB) = none)
       | .error _, _ => false) = true :=
  ⟨stakeCtrlOf xSbad xSl, xSbad, { validator := (xA, 45), height := 7 }, stakeRel_of xSbad xSl rfl,
    by decide +kernel, by decide +kernel⟩

/-- a state whose reward record of `xA` was changed in the running block (committed: 9 cumulated at
    height 3; consensus view: 2^255 + 9 at height 4), so that a withdrawal of 2^255 passes
    `Reward.Withdraw` and fails in `AcctCtrler.Reward` (`AddBalance` rejects amounts ≥ 2^255) -/
def xSwd : St :=
  { xS with rewards := { hist := [({} : KMap Reward).insert (ledgerKey xA) xRwd]
                         fin := ({} : KMap Reward).insert (ledgerKey xA)
                           { xRwd with cumulated := two255 + 9, issued := two255, height := 4 }
                         chk := ({} : KMap Reward).insert (ledgerKey xA) xRwd } }

/-- the failure path of `exeWithdraw` (`AcctCtrler.Reward` fails): the model reports the error and
    keeps the state; the Go code has stored the reduced reward and then calls `CancelSetFinality`, which
    drops the cached entry: the consensus view of the sender's reward falls back to the last COMMITTED
    record, i.e. every change made to it earlier in the same block (the block's reward issuance in
    BeginBlock, an earlier withdrawal) is lost.  Needs a withdrawal amount ≥ 2^255 that is covered by
    the cumulated reward: not reachable with a bounded supply. -/
theorem _root_.Rigo.GenEq.StakeCtrler_exeWithdraw_cancel_differs :
    ∃ (c : StakeCtrler) (s : St) (tx : TxIn) (rewardErr : Option String), StakeRel c s ∧
      (∀ req, tx.payload = .withdraw req → rewardErr.isNone = (s.reward true tx.from_ req).isSome) ∧
      (match execWithdraw s true 10 tx with | .error (.err k) => decide (k = "amount") | _ => false) = true ∧
      (match StakeCtrler_exeWithdraw c (ctxOf s true 10 tx xAcct xAcct) rewardErr with
       | .ok (c', e) => decide (e = rewardErr ∧
           (c.rewardLedger.get true (ledgerKey xA)).map (·.cumulated) = some (two255 + 9) ∧
           (c'.rewardLedger.get true (ledgerKey xA)).map (·.cumulated) = some 9)
       | .error _ => false) = true :=
  ⟨stakeCtrlOf xSwd xSl, xSwd, { xTxWd with payload := .withdraw two255 }, some "ErrInvalidAmount",
    stakeRel_of xSwd xSl rfl,
    by intro req h; cases h; decide +kernel,
    by decide +kernel, by decide +kernel⟩

end StakeX

end Rigo.GenEq
