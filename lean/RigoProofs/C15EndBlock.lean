/-
  C15: the whole of `endBlock` as seen by governance: parameters / pending change only through
  `applyProposals` on a committed frozen proposal; everything after it touches accounts, unbonding
  stakes, ghost counters and the validator list only.
-/
import RigoProofs.C15End

namespace Rigo.C15
open Rigo

/-- the tail of `endBlock` (fee hand-over, refunds, validator updates) leaves these alone -/
def TFr (s s' : St) : Prop :=
  s'.params = s.params ∧ s'.fprops = s.fprops ∧ s'.props = s.props ∧ s'.active = s.active ∧ s'.pending = s.pending ∧
  s'.lastHeight = s.lastHeight ∧ s'.blk = s.blk ∧ s'.allDelegs = s.allDelegs ∧ s'.delegs = s.delegs ∧
  s'.rewards = s.rewards ∧ s'.chainId = s.chainId

theorem TFr.refl (s : St) : TFr s s := by simp [TFr]
theorem TFr.trans {a b c : St} (h1 : TFr a b) (h2 : TFr b c) : TFr a c := by unfold TFr at *; simp_all

theorem TFr.of_frAll {s s' : St} (h : FrAll s s') : TFr s s' := by
  obtain ⟨h1, h2, h3, h4⟩ := h
  unfold Fr FrR FrP FrD at *
  unfold TFr; simp_all

theorem feeHandover_tfr {s s' : St} {b : BlockCtx} (h : feeHandover s b = .ok s') : TFr s s' := by
  unfold feeHandover at h
  split at h
  · simp only [] at h
    split at h
    · cases h
    · cases h; exact TFr.of_frAll (setAcct_frAll _ _ _)
  · cases h; simp [TFr]

def unfreezeOne (height : Int) (s : St) (kst : String × Stake) : Res St :=
  if kst.2.refund ≤ height then
    match s.reward true kst.2.owner (powerToAmount kst.2.power) with
    | none => .panic "EndBlock: refund to a missing account"
    | some s1 =>
      .ok { s1 with frozen := s1.frozen.del true (ledgerKey kst.2.hash),
                    ghost := { s1.ghost with refunds := s1.ghost.refunds ++ [(kst.2.hash, kst.2.owner, kst.2.power, height)] } }
  else .ok s

theorem unfreeze_eq (s : St) (height : Int) :
    unfreeze s height = s.frozen.committed.toList.foldl (resStep (unfreezeOne height)) (.ok s) := rfl

theorem unfreeze_tfr {s s' : St} {height : Int} (h : unfreeze s height = .ok s') : TFr s s' := by
  rw [unfreeze_eq] at h
  refine foldl_resStep_inv (unfreezeOne height) (fun x => TFr s x) _ ?_ s s' (TFr.refl s) h
  intro x kst x' _ q hx
  unfold unfreezeOne at hx
  split at hx
  · split at hx
    · cases hx
    · rename_i s1 hs1
      cases hx
      have := TFr.of_frAll (reward_frAll hs1)
      refine q.trans (this.trans ?_)
      simp [TFr]
  · cases hx; exact q

theorem updateValidators_tfr {s s' : St} {ups : List ValUpdate} (h : updateValidators s = .ok (s', ups)) :
    TFr s s' ∧ ∃ newVals, selectValidators s.allDelegs s.active.maxValidatorCnt = .ok newVals ∧
      s'.lastVals = sortByPower newVals := by
  unfold updateValidators at h
  split at h
  · cases h
  · rename_i nv hnv
    cases h
    exact ⟨by simp [TFr], nv, hnv, rfl⟩

theorem feeHandover_lv {s s' : St} {b : BlockCtx} (h : feeHandover s b = .ok s') : s'.lastVals = s.lastVals := by
  unfold feeHandover at h
  split at h
  · simp only [] at h
    split at h
    · cases h
    · cases h; exact (setAcct_frAll _ _ _).1.2.2.2.2.1
  · cases h; rfl

theorem unfreeze_lv {s s' : St} {height : Int} (h : unfreeze s height = .ok s') : s'.lastVals = s.lastVals := by
  rw [unfreeze_eq] at h
  refine foldl_resStep_inv (unfreezeOne height) (fun x => x.lastVals = s.lastVals) _ ?_ s s' rfl h
  intro x kst x' _ q hx
  unfold unfreezeOne at hx
  split at hx
  · split at hx
    · cases hx
    · rename_i s1 hs1
      cases hx
      have := (reward_frAll hs1).1.2.2.2.2.1
      show s1.lastVals = s.lastVals
      rw [this]; exact q
  · cases hx; exact q

/-- the result state of `endBlock` is the input, or the state after a prefix of its five steps -/
theorem endBlock_ind (s : St) (P : St → Prop) (h0 : P s)
    (h1 : ∀ b s1, s.blk = some b → freezeProposals s b.height = .ok s1 → P s1)
    (h2 : ∀ b s1 s2, s.blk = some b → freezeProposals s b.height = .ok s1 → applyProposals s1 b.height = .ok s2 → P s2)
    (ht : ∀ b s1 s2 s', s.blk = some b → freezeProposals s b.height = .ok s1 → applyProposals s1 b.height = .ok s2 →
      (TFr s2 s' ∧ s'.lastVals = s2.lastVals) → P s2 → P s')
    (hv : ∀ b s1 s2 s4 s5 ups, s.blk = some b → freezeProposals s b.height = .ok s1 → applyProposals s1 b.height = .ok s2 →
      (TFr s2 s4 ∧ s4.lastVals = s2.lastVals) → P s4 → updateValidators s4 = .ok (s5, ups) → P s5) :
    P (endBlock s).1 := by
  unfold endBlock
  split
  · exact h0
  · rename_i b hb
    split
    · exact h0
    · rename_i s1 hs1
      split
      · exact h1 b s1 hb hs1
      · rename_i s2 hs2
        have p2 := h2 b s1 s2 hb hs1 hs2
        split
        · exact p2
        · rename_i s3 hs3
          have t3 : TFr s2 s3 ∧ s3.lastVals = s2.lastVals := ⟨feeHandover_tfr hs3, feeHandover_lv hs3⟩
          split
          · exact ht b s1 s2 s3 hb hs1 hs2 t3 p2
          · rename_i s4 hs4
            have t4 : TFr s2 s4 ∧ s4.lastVals = s2.lastVals :=
              ⟨t3.1.trans (unfreeze_tfr hs4), by rw [unfreeze_lv hs4, t3.2]⟩
            have p4 := ht b s1 s2 s4 hb hs1 hs2 t4 p2
            split
            · exact p4
            · rename_i s5 ups hs5
              exact hv b s1 s2 s4 s5 ups hb hs1 hs2 t4 p4 hs5

/-- governance view of `endBlock` -/
theorem endBlock_spec (s : St) (P : String → Proposal → Prop)
    (hP : ∀ b, s.blk = some b → ∀ (k : String) (p : Proposal) (top : VoteOpt), p.end_ < b.height → top.votes ≥ p.majority →
      (sortOptions p.options).head? = some top → P k { p with options := sortOptions p.options, major := some top })
    (hf : LedAll P s.fprops) :
    (endBlock s).1.active = s.active ∧ (endBlock s).1.lastHeight = s.lastHeight ∧ (endBlock s).1.blk = s.blk ∧
    (endBlock s).1.params.hist = s.params.hist ∧
    LedAll P (endBlock s).1.fprops ∧
    (((endBlock s).1.params = s.params ∧ (endBlock s).1.pending = s.pending) ∨
      ∃ b np, s.blk = some b ∧ AppliedBy s b.height np ∧ (endBlock s).1.pending = some np ∧
        (endBlock s).1.params.fin = s.params.fin.insert zeroHash np) := by
  apply endBlock_ind s (fun x => x.active = s.active ∧ x.lastHeight = s.lastHeight ∧ x.blk = s.blk ∧
      x.params.hist = s.params.hist ∧ LedAll P x.fprops ∧
      ((x.params = s.params ∧ x.pending = s.pending) ∨
        ∃ b np, s.blk = some b ∧ AppliedBy s b.height np ∧ x.pending = some np ∧
          x.params.fin = s.params.fin.insert zeroHash np))
  · exact ⟨rfl, rfl, rfl, rfl, hf, Or.inl ⟨rfl, rfl⟩⟩
  · intro b s1 hb h1
    obtain ⟨e, ep, epe, el⟩ := freezeProposals_spec P (hP b hb) h1 hf
    exact ⟨e.1, e.2.1, e.2.2.1, e.2.2.2.2.2.2.1, el, Or.inl ⟨ep, epe⟩⟩
  · intro b s1 s2 hb h1 h2
    obtain ⟨e, ep, epe, el⟩ := freezeProposals_spec P (hP b hb) h1 hf
    obtain ⟨e', _, el', hc⟩ := applyProposals_spec P h2 el
    have ee := e.trans e'
    refine ⟨ee.1, ee.2.1, ee.2.2.1, ee.2.2.2.2.2.2.1, el', ?_⟩
    rcases hc with ⟨c1, c2⟩ | ⟨np, ⟨k, p, m, o, a1, a2, a3, a4, a5, a6⟩, c2, c3, _⟩
    · left; exact ⟨by rw [c1, ep], by rw [c2, epe]⟩
    · right
      refine ⟨b, np, hb, ⟨k, p, m, o, ?_, a2, a3, a4, a5, by rw [a6, e.1]⟩, c2, by rw [c3, ep]⟩
      have : s1.fprops.committed = s.fprops.committed := by unfold Led.committed; rw [e.2.2.2.2.2.1]
      rw [← this]; exact a1
  · intro b s1 s2 s' _ _ _ t p2
    obtain ⟨t1, t2, _, t4, t5, t6, t7, _⟩ := t.1
    rw [t4, t6, t7, t1, t2, t5]; exact p2
  · intro b s1 s2 s4 s5 ups _ _ _ _ p4 hu
    obtain ⟨⟨t1, t2, _, t4, t5, t6, t7, _⟩, _⟩ := updateValidators_tfr hu
    rw [t4, t6, t7, t1, t2, t5]; exact p4

end Rigo.C15
