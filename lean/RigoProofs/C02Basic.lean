/-
  C02 helper: elementary facts — balances (`addBalance`/`subBalance` without wrap-around), account
  updates and their effect on `sumBal`, non-negativity of the components of `holdings`,
  transport of the invariants between states that agree on the value-carrying ledgers.
-/
import RigoProofs.C02Defs

namespace Rigo.C02

open Std Rigo.Delegatee

/-! ### stake lists -/

theorem sumPower_nil : sumPower [] = 0 := rfl
theorem sumPower_cons (a : Stake) (l : List Stake) : sumPower (a :: l) = a.power + sumPower l := by
  simp [sumPower]
theorem sumPower_append (l₁ l₂ : List Stake) : sumPower (l₁ ++ l₂) = sumPower l₁ + sumPower l₂ := by
  simp [sumPower]

theorem sumPower_nonneg (l : List Stake) (h : ∀ st ∈ l, PowerOK st.power) : 0 ≤ sumPower l := by
  induction l with
  | nil => simp [sumPower]
  | cons a l ih =>
    rw [sumPower_cons]
    have h1 := (h a (by simp)).1
    have h2 := ih (fun st hst => h st (List.mem_cons_of_mem _ hst))
    omega

theorem sumPower_eraseP (l : List Stake) (p : Stake → Bool) (st : Stake) (h : l.find? p = some st) :
    sumPower (l.eraseP p) = sumPower l - st.power := by
  induction l with
  | nil => simp at h
  | cons a l ih =>
    by_cases hp : p a
    · simp [List.find?, hp] at h; subst h
      simp [hp, sumPower_cons]; omega
    · simp [List.find?, hp] at h
      simp [hp, sumPower_cons, ih h]; omega

/-! ### non-negativity -/

theorem sumBal_nonneg (m : KMap Account) : 0 ≤ sumBal m :=
  msum_nonneg _ _ (fun _ _ _ => Int.natCast_nonneg _)

theorem bonded_nonneg {s : St} (hi : Inv0 s) : 0 ≤ bonded s.delegs.fin :=
  msum_nonneg _ _ (fun k d h => sumPower_nonneg _ (hi.delegKey k d h).2.2)

theorem unbonding_nonneg {s : St} (hi : Inv0 s) : 0 ≤ unbonding s.frozen.fin :=
  msum_nonneg _ _ (fun k st h => (hi.frozenKey k st h).2.1)

theorem app_pos : (0 : Int) < (amountPerPower : Int) := by decide

theorem sumBal_le_holdings {s : St} (hi : Inv0 s) : sumBal s.accts.fin ≤ holdings s := by
  unfold holdings
  have h1 := bonded_nonneg hi
  have h2 := unbonding_nonneg hi
  have : 0 ≤ (amountPerPower : Int) * (bonded s.delegs.fin + unbonding s.frozen.fin) :=
    Int.mul_nonneg (Int.le_of_lt app_pos) (by omega)
  omega

theorem feeInFlight_nonneg (s : St) : 0 ≤ feeInFlight s := by unfold feeInFlight; omega

theorem bal_le_sumBal (m : KMap Account) {k : String} {a : Account} (h : m[k]? = some a) :
    (a.bal : Int) ≤ sumBal m := by
  have := fAt_le_msum (fun a : Account => (a.bal : Int)) m (fun _ _ _ => Int.natCast_nonneg _) k
  rwa [fAt_some _ h] at this

theorem two_bal_le_sumBal (m : KMap Account) {k₁ k₂ : String} {a₁ a₂ : Account} (hne : k₁ ≠ k₂)
    (h₁ : m[k₁]? = some a₁) (h₂ : m[k₂]? = some a₂) : (a₁.bal : Int) + a₂.bal ≤ sumBal m := by
  have := fAt_add_le_msum (fun a : Account => (a.bal : Int)) m (fun _ _ _ => Int.natCast_nonneg _) hne
  rwa [fAt_some _ h₁, fAt_some _ h₂] at this

/-! ### balances without wrap-around -/

theorem subBalance_exact {a a1 : Account} {amt : Nat} (h : subBalance a amt = some a1) (hb : a.bal < two256) :
    a1 = { a with bal := a.bal - amt } ∧ amt ≤ a.bal := by
  unfold subBalance at h
  split at h; · cases h
  split at h; · cases h
  rename_i h1 h2
  have hlt : amt < two255 := by simpa [isNeg256] using h1
  have hle : amt ≤ a.bal := by omega
  refine ⟨?_, hle⟩
  injection h with h; rw [← h]
  have : wsub a.bal amt = a.bal - amt := by
    unfold wsub
    have e : two256 = 2 * two255 := by decide
    rw [Nat.mod_eq_of_lt (by omega : amt < two256)]
    have : a.bal + two256 - amt = (a.bal - amt) + two256 := by omega
    rw [this, Nat.add_mod_right, Nat.mod_eq_of_lt (by omega)]
  rw [this]

theorem addBalance_exact {a a1 : Account} {amt : Nat} (h : addBalance a amt = some a1) (hb : a.bal + amt < two256) :
    a1 = { a with bal := a.bal + amt } := by
  unfold addBalance at h
  split at h; · cases h
  injection h with h; rw [← h]
  simp [wadd, Nat.mod_eq_of_lt hb]

theorem addBalance_lt {a a1 : Account} {amt : Nat} (h : addBalance a amt = some a1) : amt < two255 := by
  unfold addBalance at h
  split at h; · cases h
  rename_i h1; simpa [isNeg256] using h1

theorem two255_lt : (two255 : Int) < (two256 : Int) := by decide
theorem two256_eq : two256 = 2 * two255 := by decide

/-! ### account updates -/

@[simp] theorem setAcct_accts_fin (s : St) (a : Account) :
    (s.setAcct true a).accts.fin = s.accts.fin.insert (ledgerKey a.addr) a := by
  simp [St.setAcct, Led.set]

@[simp] theorem setAcct_accts_hist (s : St) (a : Account) : (s.setAcct true a).accts.hist = s.accts.hist := by
  simp [St.setAcct, Led.set]
@[simp] theorem setAcct_delegs (s : St) (e : Bool) (a : Account) : (s.setAcct e a).delegs = s.delegs := rfl
@[simp] theorem setAcct_frozen (s : St) (e : Bool) (a : Account) : (s.setAcct e a).frozen = s.frozen := rfl
@[simp] theorem setAcct_blk (s : St) (e : Bool) (a : Account) : (s.setAcct e a).blk = s.blk := rfl
@[simp] theorem setAcct_active (s : St) (e : Bool) (a : Account) : (s.setAcct e a).active = s.active := rfl
@[simp] theorem setAcct_ghost (s : St) (e : Bool) (a : Account) : (s.setAcct e a).ghost = s.ghost := rfl
@[simp] theorem setAcct_rewards (s : St) (e : Bool) (a : Account) : (s.setAcct e a).rewards = s.rewards := rfl

theorem findAcct_true (s : St) (addr : Hex) : s.findAcct true addr = s.accts.fin[ledgerKey addr]? := by
  simp [St.findAcct, Led.get]

/-- replacing the account stored under its own key -/
theorem sumBal_setAcct (s : St) (a : Account) :
    sumBal (s.setAcct true a).accts.fin =
      sumBal s.accts.fin - fAt (fun a : Account => (a.bal : Int)) s.accts.fin (ledgerKey a.addr) + a.bal := by
  rw [setAcct_accts_fin]; exact msum_insert _ _ _ _

theorem holdings_setAcct (s : St) (a : Account) :
    holdings (s.setAcct true a) =
      holdings s - fAt (fun a : Account => (a.bal : Int)) s.accts.fin (ledgerKey a.addr) + a.bal := by
  unfold holdings; rw [sumBal_setAcct]; simp; omega

/-- `setAcct` of an account whose address maps to the key it is stored under keeps `Inv0` -/
theorem inv0_setAcct {s : St} (hi : Inv0 s) (a : Account) : Inv0 (s.setAcct true a) := by
  refine ⟨?_, by simpa using hi.delegKey, by simpa using hi.frozenKey⟩
  intro k a' h
  rw [setAcct_accts_fin, ExtTreeMap.getElem?_insert] at h
  split at h
  · rename_i hk; injection h with h; subst h; simpa using hk
  · exact hi.acctKey k a' h

theorem frame_refl (s : St) : Frame s s := ⟨rfl, rfl, rfl, rfl, rfl, rfl⟩
theorem Frame.trans {a b c : St} (h1 : Frame a b) (h2 : Frame b c) : Frame a c :=
  ⟨h2.1.trans h1.1, h2.2.trans h1.2, h2.3.trans h1.3, h2.4.trans h1.4, h2.5.trans h1.5, h2.6.trans h1.6⟩

theorem frame_setAcct (s : St) (a : Account) : Frame s (s.setAcct true a) :=
  ⟨by simp, rfl, rfl, rfl, rfl, rfl⟩

/-- `findOrNewAcct` on the consensus path: value-neutral -/
theorem findOrNew_ok {s s' : St} {acc : Account} (hi : Inv0 s) (addr : Hex)
    (hr : s.findOrNewAcct true addr = (s', acc)) :
    Inv0 s' ∧ Frame s s' ∧ holdings s' = holdings s ∧ s'.delegs = s.delegs ∧ s'.frozen = s.frozen ∧
    s'.ghost = s.ghost ∧ s'.rewards = s.rewards ∧ s'.accts.fin[ledgerKey addr]? = some acc ∧
    (∀ (k : String) (a : Account), s.accts.fin[k]? = some a → s'.accts.fin[k]? = some a) := by
  unfold St.findOrNewAcct at hr
  cases h : s.findAcct true addr with
  | some a =>
    rw [h] at hr; simp only at hr
    injection hr with h1 h2; subst h1; subst h2
    rw [findAcct_true] at h
    exact ⟨hi, frame_refl s, rfl, rfl, rfl, rfl, rfl, h, fun _ _ h => h⟩
  | none =>
    rw [h] at hr; simp only at hr
    injection hr with h1 h2; subst h1; subst h2
    rw [findAcct_true] at h
    refine ⟨inv0_setAcct hi _, frame_setAcct _ _, ?_, rfl, rfl, rfl, rfl, by simp, ?_⟩
    · rw [holdings_setAcct, fAt_none _ h]; simp
    · intro k a hk
      rw [setAcct_accts_fin, ExtTreeMap.getElem?_insert]
      split
      · rename_i hkk; simp at hkk; rw [← hkk, h] at hk; cases hk
      · exact hk

/-! ### states that agree on the value-carrying part -/

structure ValEq (s s' : St) : Prop where
  accts : s'.accts = s.accts
  delegs : s'.delegs = s.delegs
  frozen : s'.frozen = s.frozen
  blk : s'.blk = s.blk
  active : s'.active = s.active
  ghost : s'.ghost = s.ghost
  rewards : s'.rewards = s.rewards

theorem ValEq.refl (s : St) : ValEq s s := ⟨rfl, rfl, rfl, rfl, rfl, rfl, rfl⟩
theorem ValEq.trans {a b c : St} (h1 : ValEq a b) (h2 : ValEq b c) : ValEq a c :=
  ⟨h2.1.trans h1.1, h2.2.trans h1.2, h2.3.trans h1.3, h2.4.trans h1.4, h2.5.trans h1.5, h2.6.trans h1.6,
   h2.7.trans h1.7⟩

theorem ValEq.inv0 {s s' : St} (h : ValEq s s') (hi : Inv0 s) : Inv0 s' := by
  refine ⟨?_, ?_, ?_⟩
  · rw [h.accts]; exact hi.acctKey
  · rw [h.delegs]; exact hi.delegKey
  · rw [h.frozen]; exact hi.frozenKey

theorem ValEq.holdings {s s' : St} (h : ValEq s s') : holdings s' = holdings s := by
  unfold Rigo.C02.holdings; rw [h.accts, h.delegs, h.frozen]

theorem ValEq.feeInFlight {s s' : St} (h : ValEq s s') : feeInFlight s' = feeInFlight s := by
  unfold Rigo.C02.feeInFlight; rw [h.blk]

theorem ValEq.total {s s' : St} (h : ValEq s s') : total s' = total s := by
  unfold Rigo.C02.total; rw [h.holdings, h.feeInFlight]

theorem ValEq.frame {s s' : St} (h : ValEq s s') : Frame s s' :=
  ⟨by rw [h.accts], by rw [h.delegs], by rw [h.frozen], h.blk, h.active, by rw [h.ghost]⟩

theorem ValEq.sync {s s' : St} (h : ValEq s s') (hs : FrozenSync s) : FrozenSync s' := by
  unfold FrozenSync; rw [h.frozen]; exact hs

end Rigo.C02
