/-
  C10 — along any run without `init` (restarts included) the fold of all emitted validator updates mirrors `lastVals`.
-/
import RigoProofs.C10Begin
import RigoProofs.C10Tx
import RigoProofs.Reach
open Std

namespace Rigo.TM

open Rigo.C14L

/-- all validator updates emitted by a run, in order -/
def updatesOf (outs : List Out) : List ValUpdate := (outs.map (·.valUpdates)).flatten

/-- what `beginBlock` may put into `allDelegs` is fit for the merge-diff: a property of the committed
    delegatee ledger and the active minimum stake only -/
def EligibleOK (f : Hex → Hex) (s : St) : Prop :=
  ∀ minPower, amountToPower s.active.minValidatorStake = .ok minPower →
    AddrDistinct (eligible s minPower) ∧ PubOfAddr f (eligible s minPower) ∧ ∀ d ∈ eligible s minPower, 0 < d.total

/-- `restart` keeps the validator list that was reported to the consensus engine (it is persisted at
    Commit and restored by the constructor) and clears the eligible list until the next `beginBlock` -/
theorem restart_keeps_reported_set (s : St) : (restart s).lastVals = s.lastVals := rfl

theorem restart_allDelegs (s : St) : (restart s).allDelegs = [] := rfl

/-- in a well-phased history a restart is never directly followed by EndBlock (restart is only allowed between
    blocks, and the next consensus call is then BeginBlock, which recomputes `allDelegs`) -/
theorem phaseRun_restart_end (p : Phase) (ops : List Op) : phaseRun p (.restart :: .end_ :: ops) = none := by
  cases p <;> simp [phaseRun, phaseStep]

theorem beginBlock_noUpdates (s : St) (h : Header) : (beginBlock s h).2.valUpdates = [] := by
  by_cases hh : h.height = s.lastHeight + 1
  · rw [beginBlock_phases s h hh]
    split
    · rfl
    · unfold votePhase
      split
      · rfl
      · simp only
        split
        · rfl
        · split <;> rfl
  · unfold beginBlock; rw [if_pos hh]

theorem deliverTx_noUpdates (s : St) (tx : TxIn) : (deliverTx s tx).2.valUpdates = [] := by
  unfold deliverTx
  split
  · rfl
  · simp only
    split
    · rfl
    · split <;> rfl

theorem commit_noUpdates (s : St) : (commit s).2.valUpdates = [] := by
  unfold commit; split <;> rfl

/-- one step (anything but `init`; `restart` included) keeps the mirror -/
theorem step_mirror {f : Hex → Hex} (finj : Injective f) (s : St) (op : Op) (hc : op.isInit = false)
    (ok : ValsetOK f s) (he : EligibleOK f s) :
    applyUpdates (asSet s.lastVals) (step s op).2.valUpdates = asSet (step s op).1.lastVals ∧ ValsetOK f (step s op).1 := by
  cases op with
  | init g => cases hc
  | restart =>
    simp only [step]
    refine ⟨rfl, ?_⟩
    constructor
    · exact List.Pairwise.nil
    · exact ok.lastDistinct
    · intro d hd; cases hd
    · exact ok.lastPub
    · intro d hd; cases hd
  | begin_ h =>
    simp only [step]
    obtain ⟨h1, h2, h3⟩ := beginBlock_lists s h
    rw [beginBlock_noUpdates, h1]
    refine ⟨rfl, ?_⟩
    rcases h3 with h3 | ⟨mp, hmp, h3⟩
    · exact ⟨h3 ▸ ok.allDistinct, h1 ▸ ok.lastDistinct, h3 ▸ ok.allPub, h1 ▸ ok.lastPub, h3 ▸ ok.allPos⟩
    · obtain ⟨e1, e2, e3⟩ := he mp hmp
      exact ⟨h3 ▸ e1, h1 ▸ ok.lastDistinct, h3 ▸ e2, h1 ▸ ok.lastPub, h3 ▸ e3⟩
  | deliver tx =>
    simp only [step]
    have hv := deliverTx_vl s tx
    simp only [VL, Prod.mk.injEq] at hv
    obtain ⟨h3, h1, _⟩ := hv
    rw [deliverTx_noUpdates, h1]
    exact ⟨rfl, h3 ▸ ok.allDistinct, h1 ▸ ok.lastDistinct, h3 ▸ ok.allPub, h1 ▸ ok.lastPub, h3 ▸ ok.allPos⟩
  | check tx =>
    simp only [step]
    have hv := checkTx_vl s tx
    simp only [VL, Prod.mk.injEq] at hv
    obtain ⟨h3, h1, _⟩ := hv
    have hu : (checkTx s tx).2.valUpdates = [] := rfl
    rw [hu, h1]
    exact ⟨rfl, h3 ▸ ok.allDistinct, h1 ▸ ok.lastDistinct, h3 ▸ ok.allPub, h1 ▸ ok.lastPub, h3 ▸ ok.allPos⟩
  | end_ =>
    simp only [step]
    have := valset_mirror_step finj s ok
    exact ⟨this.1, this.2.2.2⟩
  | commit =>
    simp only [step]
    obtain ⟨h3, h1⟩ := commit_lists s
    rw [commit_noUpdates, h1]
    exact ⟨rfl, h3 ▸ ok.allDistinct, h1 ▸ ok.lastDistinct, h3 ▸ ok.allPub, h1 ▸ ok.lastPub, h3 ▸ ok.allPos⟩

/-- **valset_mirror**: along any run without `init` (any interleaving of BeginBlock, DeliverTx, CheckTx,
    EndBlock, Commit and restart) folding all emitted updates over the set standing for the initial `lastVals`
    yields exactly the set standing for the current `lastVals`.  From `initChain` (where `lastVals = []`)
    this reads: fold of all updates so far over ∅ = set of `lastVals`. -/
theorem valset_mirror_run {f : Hex → Hex} (finj : Injective f) (ops : List Op) (s0 : St)
    (hc : ∀ op ∈ ops, op.isInit = false) (ok : ValsetOK f s0)
    (he : ∀ pre post, ops = pre ++ post → EligibleOK f (exec s0 pre)) :
    applyUpdates (asSet s0.lastVals) (updatesOf (run s0 ops).2) = asSet (exec s0 ops).lastVals ∧
    ValsetOK f (exec s0 ops) := by
  induction ops generalizing s0 with
  | nil => exact ⟨rfl, ok⟩
  | cons op ops ih =>
    have hstep := step_mirror finj s0 op (hc op (by simp)) ok (he [] (op :: ops) rfl)
    have ih' := ih (step s0 op).1 (fun o ho => hc o (List.mem_cons_of_mem _ ho)) hstep.2
      (fun pre post e => by
        have := he (op :: pre) post (by rw [e]; rfl)
        rwa [exec_cons] at this)
    rw [exec_cons]
    refine ⟨?_, ih'.2⟩
    rw [← ih'.1]
    simp only [run, updatesOf, List.map_cons, List.flatten_cons]
    rw [applyUpdates_append, hstep.1]

end Rigo.TM
